/-
  Facts about the stable insertion sort `isort`, the key order `keyLe`, and `insort`.
-/
import SCoda.Model.Roll
namespace SCoda

/-! ### `TimeSorted` as `List.Pairwise` -/

theorem timeSorted_iff_pairwise (l : List Msg) :
    TimeSorted l ↔ l.Pairwise (fun a b => a.time ≤ b.time) := by
  induction l with
  | nil => simp [TimeSorted]
  | cons a l ih =>
    cases l with
    | nil => simp [TimeSorted]
    | cons b rest =>
      simp only [TimeSorted, ih, List.pairwise_cons]
      constructor
      · rintro ⟨hab, hb, hrest⟩
        refine ⟨?_, hb, hrest⟩
        intro c hc
        rcases List.mem_cons.1 hc with rfl | hc
        · exact hab
        · exact Int.le_trans hab (hb c hc)
      · rintro ⟨ha, hb, hrest⟩
        exact ⟨ha b (by simp), hb, hrest⟩

/-! ### `ins` / `isort` -/

theorem ins_perm {α} (le : α → α → Bool) (x : α) (l : List α) : (ins le x l).Perm (x :: l) := by
  induction l with
  | nil => simp [ins]
  | cons y ys ih =>
    simp only [ins]
    split
    · exact List.Perm.refl _
    · exact (List.Perm.cons y ih).trans (List.Perm.swap x y ys)

theorem isort_perm {α} (le : α → α → Bool) (l : List α) : (isort le l).Perm l := by
  induction l with
  | nil => simp [isort]
  | cons x xs ih =>
    simp only [isort]
    exact (ins_perm le x _).trans (List.Perm.cons x ih)

theorem mem_isort {α} (le : α → α → Bool) (l : List α) (x : α) : x ∈ isort le l ↔ x ∈ l :=
  (isort_perm le l).mem_iff

theorem keyLe_time {a b : Msg} (h : keyLe a b = true) : a.time ≤ b.time := by
  by_cases h1 : a.time < b.time
  · omega
  · by_cases h2 : b.time < a.time
    · simp [keyLe, h1, h2] at h
    · omega

theorem keyLe_false_time {a b : Msg} (h : keyLe a b = false) : b.time ≤ a.time := by
  by_cases h1 : a.time < b.time
  · simp [keyLe, h1] at h
  · omega

theorem ins_keyLe_pairwise (x : Msg) (l : List Msg)
    (h : l.Pairwise (fun a b => a.time ≤ b.time)) :
    (ins keyLe x l).Pairwise (fun a b => a.time ≤ b.time) := by
  induction l with
  | nil => simp [ins]
  | cons y ys ih =>
    rw [List.pairwise_cons] at h
    simp only [ins]
    split
    · rename_i hle
      have hxy := keyLe_time hle
      refine List.pairwise_cons.2 ⟨?_, List.pairwise_cons.2 h⟩
      intro z hz
      rcases List.mem_cons.1 hz with rfl | hz
      · exact hxy
      · exact Int.le_trans hxy (h.1 z hz)
    · rename_i hle
      have hyx := keyLe_false_time (Bool.eq_false_iff.2 hle)
      refine List.pairwise_cons.2 ⟨?_, ih h.2⟩
      intro z hz
      rcases List.mem_cons.1 ((ins_perm keyLe x ys).mem_iff.1 hz) with rfl | hz
      · exact hyx
      · exact h.1 z hz

theorem isort_keyLe_pairwise (l : List Msg) :
    (isort keyLe l).Pairwise (fun a b => a.time ≤ b.time) := by
  induction l with
  | nil => simp [isort]
  | cons x xs ih => exact ins_keyLe_pairwise x _ ih

theorem sortAbs_perm (l : List Msg) : (sortAbs l).Perm l := isort_perm keyLe l

theorem mem_sortAbs (l : List Msg) (x : Msg) : x ∈ sortAbs l ↔ x ∈ l := mem_isort keyLe l x

theorem sortAbs_pairwise (l : List Msg) :
    (sortAbs l).Pairwise (fun a b => a.time ≤ b.time) := isort_keyLe_pairwise l

theorem sortAbs_timeSorted (l : List Msg) : TimeSorted (sortAbs l) :=
  (timeSorted_iff_pairwise _).2 (sortAbs_pairwise l)

/-! ### `insort` -/

/-- whatever position the bisection finds, nothing is lost -/
theorem insort_perm (l : List Msg) (m : Msg) : (insort l m).Perm (m :: l) := by
  simp only [insort]
  refine List.perm_middle.trans (List.Perm.cons m ?_)
  rw [List.take_append_drop]

/-- when the new time is ≥ every time present, the bisection always goes right -/
theorem insortGo_right (t : Int) (arr : Array Msg)
    (h : ∀ i, i < arr.size → ¬ t < (arr.getD i default).time) :
    ∀ fuel lo hi, lo ≤ hi → hi ≤ arr.size → hi - lo < fuel → insortGo t arr fuel lo hi = hi := by
  intro fuel
  induction fuel with
  | zero => intro lo hi _ _ h3; omega
  | succ fuel ih =>
    intro lo hi h1 h2 h3
    unfold insortGo
    by_cases hlt : lo < hi
    · have hmid : (lo + hi) / 2 < arr.size := by omega
      simp only [hlt, if_true, h _ hmid, if_false]
      exact ih _ _ (by omega) h2 (by omega)
    · simp only [hlt, if_false]; omega

theorem insort_of_ge (l : List Msg) (m : Msg) (h : ∀ y ∈ l, y.time ≤ m.time) :
    insort l m = l ++ [m] := by
  have hpos : insortGo m.time l.toArray (l.length + 1) 0 l.length = l.length := by
    apply insortGo_right
    · intro i hi
      have hi' : i < l.length := by simpa using hi
      have : (l.toArray.getD i default) = l[i] := by
        simp [Array.getD, hi']
      rw [this]
      have := h l[i] (List.getElem_mem hi')
      omega
    · omega
    · simp
    · omega
  simp only [insort, hpos, List.take_length, List.drop_length]

end SCoda
