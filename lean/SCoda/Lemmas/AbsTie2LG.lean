/-
  `equals_spec` (Lemmas/AbsTie2LE.lean) with the final heap named: the heap `equals` returns is the initial heap with cells
  APPENDED (the objects the two calls of `get_interleaved_message_pairings` create); the proof is that of `equals_spec` with the
  witness spelt out.  Audit round 4, item C6 (`AbsTie2.equalsAbs_eq` concluded `∃ h', …` with `h'` unconstrained).
-/
import SCoda.Lemmas.AbsTie2LE
set_option linter.unusedSimpArgs false
namespace SCoda.AbsTie2L
open SCoda SCoda.Gen.Abs2

theorem equals_spec_grows (h0 : Heap) (self other : List Nat) (ich its iks ivel : Bool)
    (hs : ∀ r ∈ self, r < h0.length) (ho : ∀ r ∈ other, r < h0.length) (hok : ∀ m ∈ h0, m.ch ≠ pyNone) :
    ∃ x, Gen.Abs2.equals h0 self other ich its iks ivel
      = .ok (h0 ++ x, sortRefs h0 self, sortRefs h0 other,
             equalsAbs Gen.ppqn { ignoreCh := ich, ignoreTs := its, ignoreKs := iks, ignoreVel := ivel } (deref h0 self) (deref h0 other)) := by
  obtain ⟨h1, sp, hc1, ⟨x1, hx1⟩, hsp, hok1, hr1⟩ := gip_spec h0 self (eqTypes its iks) Gen.ppqn true hs hok
  have ho1 : ∀ r ∈ other, r < h1.length := by
    intro r hr; have := ho r hr; rw [hx1, List.length_append]; omega
  have hdo : deref h1 other = deref h0 other := by rw [hx1]; exact deref_append_heap _ _ _ ho
  obtain ⟨h2, op, hc2, ⟨x2, hx2⟩, hop, hok2, hr2⟩ := gip_spec h1 other (eqTypes its iks) Gen.ppqn true ho1 hok1
  rw [hdo] at hop
  have hsp2 : sp.map (fun x => (x.1, deref h2 x.2)) = interleaved (eqTypes its iks) Gen.ppqn true (deref h0 self) := by
    rw [← hsp]
    apply List.map_congr_left
    intro x hx
    rw [hx2, deref_append_heap _ _ _ (hr1 x hx)]
  have hso : sortRefs h1 other = sortRefs h0 other := by rw [hx1]; exact sortRefs_ext _ _ _ ho
  have hgs : ∀ x ∈ sp, GoodR h2 x.2 := by
    intro x hx
    apply goodR_of_model
    have hm : (x.1, deref h2 x.2) ∈ interleaved (eqTypes its iks) Gen.ppqn true (deref h0 self) := by
      rw [← hsp2]; exact List.mem_map.2 ⟨x, hx, rfl⟩
    exact (EQ.inv_interleaved (fun _ => True) _ _ _ (fun _ _ => trivial) _ hm).2
  have hgo : ∀ x ∈ op, GoodR h2 x.2 := by
    intro x hx
    apply goodR_of_model
    have hm : (x.1, deref h2 x.2) ∈ interleaved (eqTypes its iks) Gen.ppqn true (deref h0 other) := by
      rw [← hop]; exact List.mem_map.2 ⟨x, hx, rfl⟩
    exact (EQ.inv_interleaved (fun _ => True) _ _ _ (fun _ _ => trivial) _ hm).2
  have hh2 : h2 = h0 ++ (x1 ++ x2) := by rw [hx2, hx1, List.append_assoc]
  refine ⟨x1 ++ x2, ?_⟩
  rw [← hh2]
  unfold Gen.Abs2.equals
  simp only [Bool.not_true, Bool.false_eq_true, if_false]
  apply eq_types_k
  simp only [hc1, ViewTieL.ok_bind, hc2, hso]
  have hmodel : equalsAbs Gen.ppqn { ignoreCh := ich, ignoreTs := its, ignoreKs := iks, ignoreVel := ivel } (deref h0 self) (deref h0 other)
      = ((sp.length == op.length) && zipAll (pairEq { ignoreCh := ich, ignoreTs := its, ignoreKs := iks, ignoreVel := ivel })
          (sp.map (fun x => (x.1, deref h2 x.2))) (op.map (fun x => (x.1, deref h2 x.2)))) := by
    simp only [equalsAbs]
    rw [show ([MType.noteOn, MType.noteOff] ++ (if its = true then [] else [MType.timeSignature]) ++
        (if iks = true then [] else [MType.keySignature])) = eqTypes its iks from rfl, ← hsp2, ← hop]
    simp
  rw [hmodel]
  by_cases hlen : sp.length = op.length
  · have hl1 : (!((sp.length : Int) == (op.length : Int))) = false := by simp [hlen]
    have hl2 : (sp.length == op.length) = true := by simp [hlen]
    simp only [hl1, Bool.false_eq_true, if_false, hl2, Bool.true_and]
    rw [zipAll_eq_all_zip _ _ _ (by simp [hlen]), List.zip_map, List.all_map]
    refine forIn_spec_bind
      (fun z : (Int × List Nat) × (Int × List Nat) => GoodR h2 z.1.2 ∧ GoodR h2 z.2.2)
      (fun b : Option (Heap × List Nat × List Nat × Bool) × Unit => b = (none, ()))
      (fun l _ => if l.all (fun z => pairEq { ignoreCh := ich, ignoreTs := its, ignoreKs := iks, ignoreVel := ivel }
          (z.1.1, deref h2 z.1.2) (z.2.1, deref h2 z.2.2)) then (none, ()) else (some (h2, sortRefs h0 self, sortRefs h0 other, false), ()))
      _ _ (fun x => x = _) ?hnil ?hstep (sp.zip op) (none, ()) ?hP rfl ?hk
    case hnil => intro b hb; simp [hb]
    case hP =>
      intro z hz
      exact ⟨hgs _ (List.of_mem_zip hz).1, hgo _ (List.of_mem_zip hz).2⟩
    case hk =>
      have hfun : ((fun z : (Int × Pairing) × (Int × Pairing) => pairEq { ignoreCh := ich, ignoreTs := its, ignoreKs := iks, ignoreVel := ivel } z.1 z.2) ∘
            Prod.map (fun x : Int × List Nat => (x.1, deref h2 x.2)) (fun x : Int × List Nat => (x.1, deref h2 x.2)))
          = (fun z : (Int × List Nat) × (Int × List Nat) => pairEq { ignoreCh := ich, ignoreTs := its, ignoreKs := iks, ignoreVel := ivel }
              (z.1.1, deref h2 z.1.2) (z.2.1, deref h2 z.2.2)) := rfl
      rw [hfun]
      cases hall : (sp.zip op).all (fun z => pairEq { ignoreCh := ich, ignoreTs := its, ignoreKs := iks, ignoreVel := ivel }
          (z.1.1, deref h2 z.1.2) (z.2.1, deref h2 z.2.2)) <;> rfl
    case hstep =>
      rintro ⟨⟨cx, px⟩, ⟨cy, py⟩⟩ zs b ⟨⟨rx, rxs, hpx, hgx⟩, ⟨ry, rys, hpy, hgy⟩⟩ hb
      simp only at hpx hpy hgx hgy
      subst hpx hpy hb
      refine ⟨if pairEq { ignoreCh := ich, ignoreTs := its, ignoreKs := iks, ignoreVel := ivel } (cx, deref h2 (rx :: rxs)) (cy, deref h2 (ry :: rys))
          then ForInStep.yield (none, ()) else ForInStep.done (some (h2, sortRefs h0 self, sortRefs h0 other, false), ()), ?body, ?spec⟩
      case spec =>
        have := step_spec (pairEq { ignoreCh := ich, ignoreTs := its, ignoreKs := iks, ignoreVel := ivel } (cx, deref h2 (rx :: rxs)) (cy, deref h2 (ry :: rys)))
          (zs.all (fun z => pairEq { ignoreCh := ich, ignoreTs := its, ignoreKs := iks, ignoreVel := ivel } (z.1.1, deref h2 z.1.2) (z.2.1, deref h2 z.2.2)))
          ((none, ()) : Option (Heap × List Nat × List Nat × Bool) × Unit) (some (h2, sortRefs h0 self, sortRefs h0 other, false), ())
        simp only [List.all_cons]
        exact this
      have hg0x : pyGet (rx :: rxs) 0 = .ok rx := rfl
      have hg0y : pyGet (ry :: rys) 0 = .ok ry := rfl
      simp only [hg0x, hg0y, ViewTieL.ok_bind, pairEq, deref, List.map_cons]
      by_cases h1 : (cx != cy && !ich) = true
      · simp only [h1, if_true]; rfl
      · have h1' : (cx != cy && !ich) = false := by simpa using h1
        simp only [h1', Bool.false_eq_true, if_false]
        by_cases e2 : ((hGet h2 rx).ty != (hGet h2 ry).ty) = true
        · simp only [e2, if_true]; rfl
        · have h2' : ((hGet h2 rx).ty != (hGet h2 ry).ty) = false := by simpa using e2
          simp only [h2', Bool.false_eq_true, if_false]
          by_cases h3 : ((hGet h2 rx).time != (hGet h2 ry).time) = true
          · simp only [h3, if_true]; rfl
          · have h3' : ((hGet h2 rx).time != (hGet h2 ry).time) = false := by simpa using h3
            simp only [h3', Bool.false_eq_true, if_false]
            have htyeq : (hGet h2 ry).ty = (hGet h2 rx).ty := by
              have := h2'; simp only [bne_eq_false_iff_eq] at this; exact this.symm
            by_cases hon : (hGet h2 rx).ty = .noteOn
            · have hxs := hgx hon
              have hys := hgy (by rw [htyeq]; exact hon)
              obtain ⟨sx, rxs', rfl⟩ : ∃ a t, rxs = a :: t := by cases rxs with | nil => exact absurd rfl hxs | cons a t => exact ⟨a, t, rfl⟩
              obtain ⟨sy, rys', rfl⟩ : ∃ a t, rys = a :: t := by cases rys with | nil => exact absurd rfl hys | cons a t => exact ⟨a, t, rfl⟩
              have hg1x : pyGet (rx :: sx :: rxs') 1 = .ok sx := rfl
              have hg1y : pyGet (ry :: sy :: rys') 1 = .ok sy := rfl
              simp only [hon, beq_self_eq_true, if_true, hg1x, hg1y, ViewTieL.ok_bind, List.map_cons]
              by_cases e4 : ((hGet h2 rx).note != (hGet h2 ry).note ||
                  (hGet h2 sx).time - (hGet h2 rx).time != (hGet h2 sy).time - (hGet h2 ry).time) = true
              · simp only [e4, if_true]; rfl
              · have e4' : ((hGet h2 rx).note != (hGet h2 ry).note ||
                    (hGet h2 sx).time - (hGet h2 rx).time != (hGet h2 sy).time - (hGet h2 ry).time) = false := by simpa using e4
                simp only [e4', Bool.false_eq_true, if_false]
                by_cases e5 : ((hGet h2 rx).vel != (hGet h2 ry).vel && !ivel) = true
                · simp only [e5, if_true]; rfl
                · have e5' : ((hGet h2 rx).vel != (hGet h2 ry).vel && !ivel) = false := by simpa using e5
                  simp only [e5', Bool.false_eq_true, if_false]; rfl
            · have hon' : ((hGet h2 rx).ty == MType.noteOn) = false := by simpa using hon
              simp only [hon', Bool.false_eq_true, if_false]
              by_cases hts : (hGet h2 rx).ty = .timeSignature
              · simp only [hts, beq_self_eq_true, if_true]
                by_cases e6 : ((hGet h2 rx).num != (hGet h2 ry).num || (hGet h2 rx).den != (hGet h2 ry).den) = true
                · simp only [e6, if_true, Bool.not_true, Bool.false_eq_true, if_false]; rfl
                · have e6' : ((hGet h2 rx).num != (hGet h2 ry).num || (hGet h2 rx).den != (hGet h2 ry).den) = false := by simpa using e6
                  simp only [e6', Bool.false_eq_true, if_false, Bool.not_false, if_true]; rfl
              · have hts' : ((hGet h2 rx).ty == MType.timeSignature) = false := by simpa using hts
                simp only [hts', Bool.false_eq_true, if_false]
                by_cases hks : (hGet h2 rx).ty = .keySignature
                · simp only [hks, beq_self_eq_true, if_true]
                  by_cases e7 : ((hGet h2 rx).key != (hGet h2 ry).key) = true
                  · simp only [e7, if_true, Bool.not_true, Bool.false_eq_true, if_false]; rfl
                  · have e7' : ((hGet h2 rx).key != (hGet h2 ry).key) = false := by simpa using e7
                    simp only [e7', Bool.false_eq_true, if_false, Bool.not_false, if_true]; rfl
                · have hks' : ((hGet h2 rx).ty == MType.keySignature) = false := by simpa using hks
                  simp only [hks', Bool.false_eq_true, if_false]
                  have : (match (hGet h2 rx).ty with
                      | MType.noteOn =>
                        match List.map (hGet h2) rxs, List.map (hGet h2) rys with
                        | s1 :: _, o1 :: _ =>
                          if ((hGet h2 rx).note != (hGet h2 ry).note || s1.time - (hGet h2 rx).time != o1.time - (hGet h2 ry).time) = true then false
                          else if ((hGet h2 rx).vel != (hGet h2 ry).vel && !ivel) = true then false else true
                        | _, _ => false
                      | MType.timeSignature => !((hGet h2 rx).num != (hGet h2 ry).num || (hGet h2 rx).den != (hGet h2 ry).den)
                      | MType.keySignature => !(hGet h2 rx).key != (hGet h2 ry).key
                      | _ => true) = true := by
                    cases hty : (hGet h2 rx).ty <;> simp_all
                  simp only [this, if_true]; rfl
  · have hl1 : (!((sp.length : Int) == (op.length : Int))) = true := by simp; omega
    have hl2 : (sp.length == op.length) = false := by simp [hlen]
    simp only [hl1, if_true, hl2, Bool.false_and]
    rfl

end SCoda.AbsTie2L


