/-
  Helper lemmas for C02: `detokenise` accepts every vocabulary token.
-/
import SCoda.Lemmas.Vocab
namespace SCoda.Detok
open SCoda

/-- the state invariant: one output sequence per track, previous track in range -/
def Inv (c : Cfg) (d : DetokSt) : Prop :=
  d.seqs.length = c.numTracks ∧ 0 ≤ d.prvTrack ∧ d.prvTrack < (c.numTracks : Int)

/-- a part that keeps the invariant: track parts name an existing track -/
def GoodPart (c : Cfg) : Part → Prop
  | .trk t => 0 ≤ t ∧ t < (c.numTracks : Int)
  | _ => True

theorem length_modifyAt {α} (f : α → α) (i : Nat) (l : List α) : (modifyAt f i l).length = l.length := by
  induction l generalizing i with
  | nil => cases i <;> rfl
  | cons x xs ih =>
    cases i with
    | zero => rfl
    | succ i => simp [modifyAt, ih]

theorem length_addAbs (seqs : List (List Msg)) (i : Nat) (m : Msg) : (addAbs seqs i m).length = seqs.length :=
  length_modifyAt _ _ _

theorem dpart_ok (c : Cfg) (d : DetokSt) (p : Part) (hn : 0 < c.numTracks) (hI : Inv c d)
    (hp : GoodPart c p) : ∃ d', dpart c d p = .ok d' ∧ Inv c d' := by
  obtain ⟨h1, h2, h3⟩ := hI
  cases p with
  | pad => exact ⟨d, rfl, h1, h2, h3⟩
  | sta => exact ⟨d, rfl, h1, h2, h3⟩
  | sto => exact ⟨d, rfl, h1, h2, h3⟩
  | bar => exact ⟨_, rfl, by simpa using h1, h2, h3⟩
  | rest v => exact ⟨_, rfl, h1, h2, h3⟩
  | trk t => exact ⟨_, rfl, h1, hp.1, hp.2⟩
  | val v => exact ⟨_, rfl, h1, h2, h3⟩
  | vel v => exact ⟨_, rfl, h1, h2, h3⟩
  | pit p =>
    simp only [dpart]
    have : ¬ ((d.prvTrack < 0 || d.prvTrack.toNat >= d.seqs.length) = true) := by
      simp only [Bool.or_eq_true, decide_eq_true_eq, not_or]
      omega
    rw [if_neg this]
    exact ⟨_, rfl, by simp only [length_addAbs]; exact h1, h2, h3⟩
  | tsig a b =>
    simp only [dpart]
    split
    · exact ⟨d, rfl, h1, h2, h3⟩
    · have hlen : (d.seqs.length == 0) = false := by
        rw [beq_eq_false_iff_ne]; omega
      simp only [hlen, Bool.and_false, Bool.false_eq_true, if_false]
      refine ⟨_, rfl, ?_, h2, h3⟩
      simp only
      split
      · rw [length_addAbs]; exact h1
      · exact h1

theorem dparts_ok (c : Cfg) (ps : List Part) (d : DetokSt) (hn : 0 < c.numTracks) (hI : Inv c d)
    (hp : ∀ p ∈ ps, GoodPart c p) :
    ∃ d', ps.foldl (fun (acc : Except Err DetokSt) p =>
        match acc with | .ok d => dpart c d p | .error e => .error e) (Except.ok d) = .ok d' ∧ Inv c d' := by
  induction ps generalizing d with
  | nil => exact ⟨d, rfl, hI⟩
  | cons p ps ih =>
    obtain ⟨d1, e1, hI1⟩ := dpart_ok c d p hn hI (hp p (by simp))
    simp only [List.foldl_cons, e1]
    exact ih d1 hI1 (fun q hq => hp q (by simp [hq]))

theorem parts_good (c : Cfg) (t : Tok) (ht : t ∈ vocabSeq c) : ∀ p ∈ t.parts, GoodPart c p := by
  cases t with
  | trk t =>
    intro p hp
    simp only [Tok.parts, List.mem_singleton] at hp; subst hp
    exact Vocab.mem_tracks.1 (Vocab.trk_mem.1 ht).2
  | note tr pch v w =>
    intro p hp
    have htr := (Vocab.note_mem.1 ht).1
    simp only [Tok.parts, List.mem_append, List.mem_singleton] at hp
    rcases hp with ((hp | hp) | hp) | hp
    · cases tr with
      | none => simp at hp
      | some t =>
        simp only [List.mem_singleton] at hp; subst hp
        unfold Vocab.trkOpts at htr
        split at htr
        · simp only [List.mem_map, Option.some.injEq, exists_eq_right] at htr
          exact Vocab.mem_tracks.1 htr
        · simp at htr
    · cases v <;> simp at hp <;> subst hp <;> trivial
    · cases w <;> simp at hp <;> subst hp <;> trivial
    · subst hp; trivial
  | pad | sta | sto | bar | rest _ | val _ | vel _ | tsig _ _ =>
    intro p hp
    simp only [Tok.parts, List.mem_singleton] at hp; subst hp; trivial

theorem dstep_ok (c : Cfg) (t : Tok) (ht : t ∈ vocabSeq c) (d : DetokSt) (hn : 0 < c.numTracks)
    (hI : Inv c d) : ∃ d', dstep c d t = .ok d' ∧ Inv c d' :=
  dparts_ok c t.parts d hn hI (parts_good c t ht)

theorem dsteps_ok (c : Cfg) (toks : List Tok) (h : ∀ t ∈ toks, t ∈ vocabSeq c) (d : DetokSt)
    (hn : 0 < c.numTracks) (hI : Inv c d) :
    ∃ d', toks.foldl (fun (acc : Except Err DetokSt) t =>
        match acc with | .ok d => dstep c d t | .error e => .error e) (Except.ok d) = .ok d' ∧ Inv c d' := by
  induction toks generalizing d with
  | nil => exact ⟨d, rfl, hI⟩
  | cons t ts ih =>
    obtain ⟨d1, e1, hI1⟩ := dstep_ok c t (h t (by simp)) d hn hI
    simp only [List.foldl_cons, e1]
    exact ih (fun q hq => h q (by simp [hq])) d1 hI1

theorem init_inv (c : Cfg) (hn : 0 < c.numTracks) : Inv c (DetokSt.init c) := by
  refine ⟨by simp [DetokSt.init], ?_, ?_⟩ <;> simp [DetokSt.init] <;> omega

end SCoda.Detok
