/-
  Helper lemmas for C10 (`mkBar`): an explicit if-then-else form of the constructor, facts about the
  padded body, and list lemmas about filtering the `Roll` semantics.
-/
import SCoda.Model.Bar
import SCoda.Model.Roll
import SCoda.Props.C07
import SCoda.Props.C18
namespace SCoda.BarL
open SCoda

/-! ### the constructor, flattened -/

/-- the normalised and (if short) padded message list inside `mkBar` -/
def barBody (ppqn : Int) (rel : List Msg) (n d : Int) : List Msg :=
  if totalWait (normalise rel) < barCapacity ppqn n d then pad (barCapacity ppqn n d) (normalise rel)
  else normalise rel

/-- the sequence of an accepted bar -/
def barSeq (ppqn : Int) (rel : List Msg) (n d : Int) : List Msg :=
  Msg.mkTimeSig 0 n d pyNone :: (barBody ppqn rel n d).filter (·.ty != .timeSignature)

/-- the signatures the constructor looks at -/
def barSigs (ppqn : Int) (rel : List Msg) (n d : Int) : List Msg :=
  (barBody ppqn rel n d).filter (·.ty == .timeSignature)

theorem mkBar_eq (ppqn : Int) (rel : List Msg) (n d key : Int) :
    mkBar ppqn rel n d key =
      if totalWait (normalise rel) > barCapacity ppqn n d then .error .barError
      else if (barSigs ppqn rel n d).length > 1 then .error .barError
      else if !((barSigs ppqn rel n d).all (fun m => m.num == n && m.den == d)) then .error .barError
      else .ok { seq := barSeq ppqn rel n d, num := n, den := d, key := key } := by
  unfold mkBar barSeq barSigs
  simp only [bind, Except.bind, throw, throwThe, MonadExcept.throw]
  rw [show (if totalWait (normalise rel) < barCapacity ppqn n d then
      pad (barCapacity ppqn n d) (normalise rel) else normalise rel) = barBody ppqn rel n d from rfl]
  generalize barBody ppqn rel n d = B
  by_cases h1 : totalWait (normalise rel) > barCapacity ppqn n d
  · rw [if_pos h1, if_pos h1]; rfl
  · rw [if_neg h1, if_neg h1]
    by_cases h2 : (B.filter (·.ty == .timeSignature)).length > 1
    · rw [if_pos h2, if_pos h2]; rfl
    · rw [if_neg h2, if_neg h2]
      split
      · rfl
      · rfl

theorem mkBar_cases (ppqn : Int) (rel : List Msg) (n d key : Int) :
    (∃ b, mkBar ppqn rel n d key = .ok b) ∨ mkBar ppqn rel n d key = .error .barError := by
  rw [mkBar_eq]
  split
  · exact Or.inr rfl
  · split
    · exact Or.inr rfl
    · split
      · exact Or.inr rfl
      · exact Or.inl ⟨_, rfl⟩

theorem mkBar_ok {ppqn : Int} {rel : List Msg} {n d key : Int} {b : Bar}
    (h : mkBar ppqn rel n d key = .ok b) :
    totalWait (normalise rel) ≤ barCapacity ppqn n d ∧ (barSigs ppqn rel n d).length ≤ 1
      ∧ (∀ m ∈ barSigs ppqn rel n d, m.num = n ∧ m.den = d)
      ∧ b = { seq := barSeq ppqn rel n d, num := n, den := d, key := key } := by
  rw [mkBar_eq] at h
  split at h
  · cases h
  · rename_i h1
    split at h
    · cases h
    · rename_i h2
      split at h
      · cases h
      · rename_i h3
        refine ⟨by omega, by omega, ?_, ?_⟩
        · intro m hm
          simp only [Bool.not_eq_true', Bool.not_eq_false, List.all_eq_true, Bool.and_eq_true,
            beq_iff_eq] at h3
          exact h3 m hm
        · cases h; rfl

theorem mkBar_ok_of {ppqn : Int} {rel : List Msg} {n d : Int} (key : Int)
    (h1 : totalWait (normalise rel) ≤ barCapacity ppqn n d) (h2 : (barSigs ppqn rel n d).length ≤ 1)
    (h3 : ∀ m ∈ barSigs ppqn rel n d, m.num = n ∧ m.den = d) :
    mkBar ppqn rel n d key = .ok { seq := barSeq ppqn rel n d, num := n, den := d, key := key } := by
  rw [mkBar_eq, if_neg (by omega), if_neg (by omega), if_neg]
  simp only [Bool.not_eq_true', Bool.not_eq_false, List.all_eq_true, Bool.and_eq_true, beq_iff_eq]
  exact h3

/-! ### generic list facts -/

theorem totalWait_filter (p : Msg → Bool) (hp : ∀ m : Msg, m.ty = .wait → p m = true) (l : List Msg) :
    totalWait (l.filter p) = totalWait l := by
  induction l with
  | nil => rfl
  | cons m ms ih =>
    by_cases hm : p m = true
    · simp only [List.filter_cons, hm, if_true, totalWait, ih]
    · have hw : ¬ m.ty = .wait := fun hw => hm (hp m hw)
      have hb : (m.ty == MType.wait) = false := by simpa using hw
      simp only [List.filter_cons, hm, totalWait, hb]
      simp [ih]

theorem eventsRelGo_filter (p : Msg → Bool) (hp : ∀ m : Msg, m.ty = .wait → p m = true)
    (hs : StampInv p) (l : List Msg) : ∀ c : Int,
    eventsRelGo c (l.filter p) = (eventsRelGo c l).filter p := by
  induction l with
  | nil => intro c; rfl
  | cons m ms ih =>
    intro c
    by_cases hw : m.ty = .wait
    · have hb : (m.ty == MType.wait) = true := by simpa using hw
      simp only [List.filter_cons, hp m hw, if_true, eventsRelGo, hb, ih]
    · have hb : (m.ty == MType.wait) = false := by simpa using hw
      by_cases hm : p m = true
      · simp only [List.filter_cons, hm, if_true, eventsRelGo, hb, Bool.false_eq_true, if_false,
          hs m c, ih]
      · simp only [List.filter_cons, hm, if_false, eventsRelGo, hb, Bool.false_eq_true,
          hs m c, ih]

theorem altFrom_filter (p : Msg → Bool)
    (hp : ∀ m : Msg, m.ty = .noteOn ∨ m.ty = .noteOff → p m = true) (k : Int × Int) (l : List Msg) :
    ∀ b, altFrom k b (l.filter p) ↔ altFrom k b l := by
  induction l with
  | nil => intro b; simp
  | cons x xs ih =>
    intro b
    by_cases hx : p x = true
    · simp only [List.filter_cons, hx, if_true, altFrom, ih]
    · have h1 : ¬ (x.nkey = k ∧ x.ty = .noteOn) := fun h => hx (hp x (Or.inl h.2))
      have h2 : ¬ (x.nkey = k ∧ x.ty = .noteOff) := fun h => hx (hp x (Or.inr h.2))
      simp only [List.filter_cons, hx, altFrom, h1, h2, if_false, Bool.false_eq_true]
      exact ih b

theorem altFrom_snoc (k : Int × Int) (w : Msg) (h1 : w.ty ≠ .noteOn) (h2 : w.ty ≠ .noteOff)
    (l : List Msg) : ∀ b, altFrom k b (l ++ [w]) ↔ altFrom k b l := by
  induction l with
  | nil => intro b; simp [altFrom, h1, h2]
  | cons x xs ih =>
    intro b
    simp only [List.cons_append, altFrom, ih]

theorem mem_dedupD {β} [DecidableEq β] (x : β) (l : List β) :
    ∀ p, x ∈ l → x ≠ p → x ∈ dedupD p l := by
  induction l with
  | nil => intro p h; cases h
  | cons y ys ih =>
    intro p hx hne
    simp only [dedupD]
    split
    · rename_i hpy
      subst hpy
      rcases List.mem_cons.1 hx with e | e
      · exact absurd e hne
      · exact ih p e hne
    · by_cases hxy : x = y
      · subst hxy; exact List.mem_cons_self
      · rcases List.mem_cons.1 hx with e | e
        · exact absurd e hxy
        · exact List.mem_cons_of_mem _ (ih y e hxy)

theorem dedupD_const_self {β} [DecidableEq β] (v : β) (l : List β) (h : ∀ x ∈ l, x = v) :
    dedupD v l = [] := by
  induction l with
  | nil => rfl
  | cons y ys ih =>
    have hy : y = v := h y List.mem_cons_self
    subst hy
    simp only [dedupD, if_true]
    exact ih (fun x hx => h x (List.mem_cons_of_mem _ hx))

theorem dedupD_const_length {β} [DecidableEq β] (v : β) (l : List β) (h : ∀ x ∈ l, x = v) :
    ∀ p, (dedupD p l).length ≤ 1 := by
  induction l with
  | nil => intro p; simp [dedupD]
  | cons y ys ih =>
    intro p
    have hy : y = v := h y List.mem_cons_self
    have h' : ∀ x ∈ ys, x = v := fun x hx => h x (List.mem_cons_of_mem _ hx)
    simp only [dedupD]
    split
    · exact ih h' p
    · subst hy
      rw [dedupD_const_self y ys h']
      simp

/-! ### the normalised, padded body -/

theorem normalise_nonneg (rel : List Msg) : NonNegWaits (normalise rel) := by
  intro m hm hw
  rcases normalise_entries rel m hm with h1 | h1
  · omega
  · exact absurd hw h1.1

theorem barBody_cases (ppqn : Int) (rel : List Msg) (n d : Int) :
    barBody ppqn rel n d = normalise rel ∨
      ∃ w : Msg, w.ty = .wait ∧ 0 ≤ w.time ∧ barBody ppqn rel n d = normalise rel ++ [w] := by
  unfold barBody
  split
  · rw [C18.pad_eq]
    split
    · rename_i h
      exact Or.inr ⟨_, rfl, by simp only [Msg.mkWait]; omega, rfl⟩
    · exact Or.inl rfl
  · exact Or.inl rfl

theorem barBody_filter (ppqn : Int) (rel : List Msg) (n d : Int) (p : Msg → Bool)
    (hp : ∀ m : Msg, m.ty = .wait → p m = false) :
    (barBody ppqn rel n d).filter p = (normalise rel).filter p := by
  rcases barBody_cases ppqn rel n d with h | ⟨w, hw, _, h⟩
  · rw [h]
  · rw [h, List.filter_append]
    simp [hp w hw]

theorem barSigs_eq (ppqn : Int) (rel : List Msg) (n d : Int) :
    barSigs ppqn rel n d = C07.timeSigs (normalise rel) :=
  barBody_filter ppqn rel n d _ (fun m hm => by simp [hm])

theorem barSigs_vals (ppqn : Int) (rel : List Msg) (n d : Int) :
    (barSigs ppqn rel n d).map (fun m => (m.num, m.den)) = dedupD (pyNone, pyNone) (tsVals rel) := by
  rw [barSigs_eq, ← normalise_tsVals]
  rfl

theorem barBody_nonneg (ppqn : Int) (rel : List Msg) (n d : Int) :
    NonNegWaits (barBody ppqn rel n d) := by
  rcases barBody_cases ppqn rel n d with h | ⟨w, _, hw0, h⟩
  · rw [h]; exact normalise_nonneg rel
  · rw [h, nonNegWaits_append]
    refine ⟨normalise_nonneg rel, ?_⟩
    intro m hm _
    simp only [List.mem_singleton] at hm
    subst hm
    exact hw0

theorem barBody_dur (ppqn : Int) (rel : List Msg) (n d : Int)
    (h : totalWait (normalise rel) ≤ barCapacity ppqn n d) :
    totalWait (barBody ppqn rel n d) = barCapacity ppqn n d := by
  unfold barBody
  split
  · have := C18.pad_duration (barCapacity ppqn n d) (normalise rel) (normalise_nonneg rel)
    unfold durRel at this
    omega
  · omega

theorem barBody_events (ppqn : Int) (rel : List Msg) (n d : Int) :
    eventsRel (barBody ppqn rel n d) = eventsRel (normalise rel) := by
  unfold barBody
  split
  · exact C18.pad_events _ _
  · rfl

theorem barBody_wf (ppqn : Int) (rel : List Msg) (n d : Int) : WF (barBody ppqn rel n d) := by
  intro k
  rcases barBody_cases ppqn rel n d with h | ⟨w, hw, _, h⟩
  · rw [h]; exact normalise_wf rel k
  · rw [h, altFrom_snoc k w (by rw [hw]; simp) (by rw [hw]; simp)]
    exact normalise_wf rel k

/-! ### the accepted sequence -/

theorem notTS_wait (m : Msg) (h : m.ty = .wait) : (m.ty != MType.timeSignature) = true := by
  simp [h]

theorem notTS_stampInv : StampInv (fun m : Msg => m.ty != MType.timeSignature) := fun _ _ => rfl

theorem barSeq_nonneg (ppqn : Int) (rel : List Msg) (n d : Int) : NonNegWaits (barSeq ppqn rel n d) := by
  intro m hm hw
  unfold barSeq at hm
  rcases List.mem_cons.1 hm with e | e
  · subst e; cases hw
  · exact barBody_nonneg ppqn rel n d m (List.mem_filter.1 e).1 hw

theorem barSeq_dur (ppqn : Int) (rel : List Msg) (n d : Int)
    (h : totalWait (normalise rel) ≤ barCapacity ppqn n d) :
    totalWait (barSeq ppqn rel n d) = barCapacity ppqn n d := by
  unfold barSeq
  rw [totalWait, totalWait_filter _ notTS_wait, barBody_dur ppqn rel n d h]
  simp [Msg.mkTimeSig]

theorem barSeq_events (ppqn : Int) (rel : List Msg) (n d : Int) :
    eventsRel (barSeq ppqn rel n d) =
      Msg.mkTimeSig 0 n d 0 :: (eventsRel (normalise rel)).filter (·.ty != .timeSignature) := by
  unfold barSeq eventsRel
  have h0 : ∀ X : List Msg, eventsRelGo 0 (Msg.mkTimeSig 0 n d pyNone :: X)
      = Msg.mkTimeSig 0 n d 0 :: eventsRelGo 0 X := fun _ => rfl
  rw [h0, eventsRelGo_filter _ notTS_wait notTS_stampInv]
  have := barBody_events ppqn rel n d
  unfold eventsRel at this
  rw [this]

theorem barSeq_wf (ppqn : Int) (rel : List Msg) (n d : Int) : WF (barSeq ppqn rel n d) := by
  intro k
  unfold barSeq
  have h1 : ¬ ((Msg.mkTimeSig 0 n d pyNone).nkey = k ∧ (Msg.mkTimeSig 0 n d pyNone).ty = .noteOn) := by
    simp [Msg.mkTimeSig]
  have h2 : ¬ ((Msg.mkTimeSig 0 n d pyNone).nkey = k ∧ (Msg.mkTimeSig 0 n d pyNone).ty = .noteOff) := by
    simp [Msg.mkTimeSig]
  rw [altFrom, if_neg h1, if_neg h2, altFrom_filter _ (fun m hm => by rcases hm with e | e <;> simp [e])]
  exact barBody_wf ppqn rel n d k

theorem barSeq_tsVals (ppqn : Int) (rel : List Msg) (n d : Int) :
    tsVals (barSeq ppqn rel n d) = [(n, d)] := by
  unfold barSeq
  rw [tsVals_cons]
  have : tsVals ((barBody ppqn rel n d).filter (·.ty != .timeSignature)) = [] := by
    unfold tsVals
    rw [List.filter_filter]
    simp
  rw [this]
  simp [Msg.mkTimeSig]

theorem barSeq_ksVals (ppqn : Int) (rel : List Msg) (n d : Int) :
    ksVals (barSeq ppqn rel n d) = ksVals (normalise rel) := by
  unfold barSeq
  rw [ksVals_cons, if_neg (by simp [Msg.mkTimeSig])]
  unfold ksVals
  rw [List.filter_filter]
  have e : (fun a : Msg => (a.ty == MType.keySignature && a.ty != MType.timeSignature))
      = (fun a : Msg => a.ty == MType.keySignature) := by
    funext a
    cases h : a.ty <;> simp
  rw [e, barBody_filter ppqn rel n d _ (fun m hm => by simp [hm])]

end SCoda.BarL
