/-
  Facts about `toRel` / `toAbs` against the `Roll` semantics.
-/
import SCoda.Lemmas.Sort
namespace SCoda

/-! ### small facts -/

theorem totalWait_append (a b : List Msg) : totalWait (a ++ b) = totalWait a + totalWait b := by
  induction a with
  | nil => simp [totalWait]
  | cons x xs ih => simp only [List.cons_append, totalWait, ih]; omega

/-- time of the last message, `cur` if there is none -/
def lastTimeD (cur : Int) : List Msg → Int
  | [] => cur
  | m :: ms => lastTimeD m.time ms

theorem durAbs_eq_lastTimeD (l : List Msg) : durAbs l = lastTimeD 0 l := by
  have key : ∀ (l : List Msg) (cur : Int),
      (match l.getLast? with | some m => m.time | Option.none => cur) = lastTimeD cur l := by
    intro l
    induction l with
    | nil => intro cur; simp [lastTimeD]
    | cons a l ih =>
      intro cur
      cases l with
      | nil => simp [lastTimeD]
      | cons b rest =>
        have := ih a.time
        simp only [List.getLast?_cons_cons] at this ⊢
        rw [lastTimeD]
        rw [← this]
        cases h : (b :: rest).getLast? with
        | none => simp at h
        | some x => rfl
  exact key l 0

/-- the last element of a time-sorted list carries the maximal time -/
theorem durAbs_of_max (l : List Msg) (T : Int)
    (hs : l.Pairwise (fun a b => a.time ≤ b.time))
    (hle : ∀ e ∈ l, e.time ≤ T) (hex : ∃ e ∈ l, e.time = T) : durAbs l = T := by
  rw [durAbs_eq_lastTimeD]
  have key : ∀ (l : List Msg) (cur : Int), l.Pairwise (fun a b => a.time ≤ b.time) →
      (∀ e ∈ l, e.time ≤ T) → (∃ e ∈ l, e.time = T) → lastTimeD cur l = T := by
    intro l
    induction l with
    | nil => intro cur _ _ hex; simp at hex
    | cons a l ih =>
      intro cur hs hle hex
      rw [List.pairwise_cons] at hs
      simp only [lastTimeD]
      cases l with
      | nil =>
        simp only [lastTimeD]
        obtain ⟨e, he, heT⟩ := hex
        simp at he; subst he; exact heT
      | cons b rest =>
        apply ih a.time hs.2 (fun e he => hle e (List.mem_cons_of_mem _ he))
        obtain ⟨e, he, heT⟩ := hex
        rcases List.mem_cons.1 he with rfl | he
        · refine ⟨b, by simp, ?_⟩
          have h1 := hs.1 b (by simp)
          have h2 := hle b (by simp)
          omega
        · exact ⟨e, he, heT⟩
  exact key l 0 hs hle hex

/-! ### `toRel` -/

theorem eventsRelGo_toRelGo (l : List Msg) :
    ∀ (cur : Int), l.Pairwise (fun a b => a.time ≤ b.time) → (∀ m ∈ l, cur ≤ m.time) →
      (∀ m ∈ l, m.ty ≠ .wait) → eventsRelGo cur (toRelGo cur l) = eventsAbs l := by
  induction l with
  | nil => intro cur _ _ _; simp [toRelGo, eventsRelGo, eventsAbs]
  | cons m ms ih =>
    intro cur hs hc hw
    rw [List.pairwise_cons] at hs
    have hcm := hc m (by simp)
    have hwm := hw m (by simp)
    have ih' := ih m.time hs.2 hs.1 (fun x hx => hw x (List.mem_cons_of_mem _ hx))
    have hstamp : ({ m with time := m.time } : Msg) = m := rfl
    simp only [eventsAbs] at ih' ⊢
    by_cases hgt : m.time > cur
    · by_cases hint : m.ty = .internal
      · simp [toRelGo, hgt, hint, eventsRelGo, Msg.mkWait]
        rw [show cur + (m.time - cur) = m.time by omega, ih']
      · simp [toRelGo, hgt, hint, eventsRelGo, Msg.mkWait, hwm]
        rw [show cur + (m.time - cur) = m.time by omega, ih']
        exact ⟨rfl, rfl⟩
    · have hceq : cur = m.time := by omega
      subst hceq
      by_cases hint : m.ty = .internal
      · simp [toRelGo, hint, ih']
      · simp [toRelGo, hint, eventsRelGo, hwm, ih']

theorem totalWait_toRelGo (l : List Msg) :
    ∀ (cur : Int), l.Pairwise (fun a b => a.time ≤ b.time) → (∀ m ∈ l, cur ≤ m.time) →
      (∀ m ∈ l, m.ty ≠ .wait) → cur + totalWait (toRelGo cur l) = lastTimeD cur l := by
  induction l with
  | nil => intro cur _ _ _; simp [toRelGo, totalWait, lastTimeD]
  | cons m ms ih =>
    intro cur hs hc hw
    rw [List.pairwise_cons] at hs
    have hcm := hc m (by simp)
    have hwm := hw m (by simp)
    have ih' := ih m.time hs.2 hs.1 (fun x hx => hw x (List.mem_cons_of_mem _ hx))
    simp only [lastTimeD]
    rw [← ih']
    by_cases hgt : m.time > cur
    · by_cases hint : m.ty = .internal
      · simp [toRelGo, hgt, hint, totalWait, Msg.mkWait]
        omega
      · simp [toRelGo, hgt, hint, totalWait, Msg.mkWait, hwm]
        omega
    · have hceq : cur = m.time := by omega
      subst hceq
      by_cases hint : m.ty = .internal
      · simp [toRelGo, hint]
      · simp [toRelGo, hint, totalWait, hwm]

theorem toRelGo_ok (l : List Msg) :
    ∀ (cur : Int), (∀ m ∈ l, m.ty ≠ .wait) →
      ∀ x ∈ toRelGo cur l, (x.ty = .wait → 0 ≤ x.time) ∧ x.ty ≠ .internal := by
  induction l with
  | nil => intro cur _ x hx; simp [toRelGo] at hx
  | cons m ms ih =>
    intro cur hw x hx
    have hwm := hw m (by simp)
    have ih' := fun c => ih c (fun x hx => hw x (List.mem_cons_of_mem _ hx)) x
    simp only [toRelGo, List.mem_append] at hx
    rcases hx with (hx | hx) | hx
    · split at hx
      · simp at hx; subst hx
        simp [Msg.mkWait]; omega
      · simp at hx
    · split at hx
      · rename_i hne
        simp at hx; subst hx
        simp at hne
        simp [hwm, hne]
      · simp at hx
    · exact ih' _ hx

/-! ### `toAbs` -/

theorem foldl_toAbsStep_out (r : List Msg) : ∀ (s : ToAbsSt),
    (r.foldl toAbsStep s).out.reverse = s.out.reverse ++ eventsRelGo s.cur r := by
  induction r with
  | nil => intro s; simp [eventsRelGo]
  | cons m ms ih =>
    intro s
    rw [List.foldl_cons, ih]
    by_cases hw : m.ty = .wait
    · simp [toAbsStep, hw, eventsRelGo]
    · simp [toAbsStep, hw, eventsRelGo]

theorem foldl_toAbsStep_cur (r : List Msg) : ∀ (s : ToAbsSt),
    (r.foldl toAbsStep s).cur = s.cur + totalWait r := by
  induction r with
  | nil => intro s; simp [totalWait]
  | cons m ms ih =>
    intro s
    rw [List.foldl_cons, ih]
    by_cases hw : m.ty = .wait
    · simp [toAbsStep, hw, totalWait]; omega
    · simp [toAbsStep, hw, totalWait]

/-- if the fold ends with `cap = true`, the last message was an event at the final clock
    (or nothing happened at all) -/
theorem foldl_toAbsStep_cap (r : List Msg) : ∀ (s : ToAbsSt),
    (r.foldl toAbsStep s).cap = true →
      (∃ e ∈ eventsRelGo s.cur r, e.time = s.cur + totalWait r) ∨ (r = [] ∧ s.cap = true) := by
  induction r with
  | nil => intro s h; right; exact ⟨rfl, h⟩
  | cons m ms ih =>
    intro s h
    rw [List.foldl_cons] at h
    left
    have ih' := ih _ h
    by_cases hw : m.ty = .wait
    · simp [toAbsStep, hw] at ih'
      simp only [eventsRelGo, hw, totalWait, beq_self_eq_true, if_true]
      obtain ⟨e, he, het⟩ := ih'
      exact ⟨e, he, by omega⟩
    · simp [toAbsStep, hw] at ih'
      simp [eventsRelGo, hw, totalWait]
      rcases ih' with ⟨e, he, het⟩ | hnil
      · right; exact ⟨e, he, het⟩
      · left; subst hnil; simp [totalWait]

/-- events of a relative list with non-negative waits happen between the start clock and
    the final clock; they are not waits and keep their type -/
theorem eventsRelGo_bounds (r : List Msg) : ∀ (cur : Int), NonNegWaits r →
    ∀ e ∈ eventsRelGo cur r, cur ≤ e.time ∧ e.time ≤ cur + totalWait r := by
  induction r with
  | nil => intro cur _ e he; simp [eventsRelGo] at he
  | cons m ms ih =>
    intro cur hnn e he
    have hnn' : NonNegWaits ms := fun x hx => hnn x (List.mem_cons_of_mem _ hx)
    have htw : 0 ≤ totalWait ms := by
      clear ih he
      induction ms with
      | nil => simp [totalWait]
      | cons y ys ihy =>
        have := ihy (fun x hx => hnn x (by simp at hx ⊢; rcases hx with h | h <;> simp [h]))
          (fun x hx => hnn' x (List.mem_cons_of_mem _ hx))
        simp only [totalWait]
        have hy := hnn' y (by simp)
        split
        · rename_i hyw
          have := hy (by simpa using hyw)
          omega
        · omega
    by_cases hw : m.ty = .wait
    · have hm := hnn m (by simp) hw
      simp only [eventsRelGo, hw, beq_self_eq_true, if_true] at he
      have := ih _ hnn' e he
      simp only [totalWait, hw, beq_self_eq_true, if_true]
      omega
    · simp [eventsRelGo, hw] at he
      simp [totalWait, hw]
      rcases he with rfl | he
      · simp; omega
      · exact ih _ hnn' e he

theorem eventsRelGo_ty (r : List Msg) : ∀ (cur : Int),
    ∀ e ∈ eventsRelGo cur r, e.ty ≠ .wait ∧ ∃ m ∈ r, e.ty = m.ty := by
  induction r with
  | nil => intro cur e he; simp [eventsRelGo] at he
  | cons m ms ih =>
    intro cur e he
    by_cases hw : m.ty = .wait
    · simp only [eventsRelGo, hw, beq_self_eq_true, if_true] at he
      obtain ⟨h1, x, hx, h2⟩ := ih _ e he
      exact ⟨h1, x, List.mem_cons_of_mem _ hx, h2⟩
    · simp [eventsRelGo, hw] at he
      rcases he with rfl | he
      · exact ⟨hw, m, by simp, rfl⟩
      · obtain ⟨h1, x, hx, h2⟩ := ih _ e he
        exact ⟨h1, x, List.mem_cons_of_mem _ hx, h2⟩

/-- `toAbs` in closed form -/
theorem toAbs_eq (r : List Msg) :
    toAbs r =
      if (r.foldl toAbsStep {}).cap then sortAbs (eventsRel r)
      else insort (sortAbs (eventsRel r))
        (Msg.mkInternal ((r.foldl toAbsStep {}).defCh.getD 0) (totalWait r)) := by
  have h1 := foldl_toAbsStep_out r {}
  have h2 := foldl_toAbsStep_cur r {}
  simp at h1 h2
  simp only [toAbs, h1, h2, eventsRel]

theorem eventsRel_not_internal (r : List Msg) (h : OkRel r) :
    ∀ e ∈ eventsRel r, e.ty ≠ .internal := by
  intro e he
  obtain ⟨_, m, hm, hty⟩ := eventsRelGo_ty r 0 e he
  rw [hty]; exact h.2 m hm

/-- everything `toAbs_duration` and `toAbs_ok` need about the result of `toAbs` -/
theorem toAbs_struct (r : List Msg) (h : OkRel r) :
    (toAbs r).Pairwise (fun a b => a.time ≤ b.time)
    ∧ (∀ e ∈ toAbs r, 0 ≤ e.time ∧ e.time ≤ totalWait r ∧ e.ty ≠ .wait)
    ∧ ((∃ e ∈ toAbs r, e.time = totalWait r) ∨ (toAbs r = [] ∧ totalWait r = 0)) := by
  have hb : ∀ e ∈ sortAbs (eventsRel r), 0 ≤ e.time ∧ e.time ≤ totalWait r ∧ e.ty ≠ .wait := by
    intro e he
    rw [mem_sortAbs] at he
    have h1 := eventsRelGo_bounds r 0 h.1 e he
    have h2 := eventsRelGo_ty r 0 e he
    exact ⟨h1.1, by omega, h2.1⟩
  rw [toAbs_eq]
  by_cases hcap : (r.foldl toAbsStep {}).cap = true
  · simp only [hcap, if_true]
    refine ⟨sortAbs_pairwise _, hb, ?_⟩
    rcases foldl_toAbsStep_cap r {} hcap with ⟨e, he, het⟩ | ⟨hnil, _⟩
    · left
      refine ⟨e, (mem_sortAbs _ _).2 he, ?_⟩
      simpa using het
    · right; subst hnil; simp [eventsRel, eventsRelGo, sortAbs, isort, totalWait]
  · simp only [hcap, Bool.false_eq_true, if_false]
    rw [insort_of_ge _ _ (fun y hy => (hb y hy).2.1)]
    have hnn : 0 ≤ totalWait r := by
      have := foldl_toAbsStep_cur r {}
      clear hb hcap
      have key : ∀ (l : List Msg), NonNegWaits l → 0 ≤ totalWait l := by
        intro l
        induction l with
        | nil => intro _; simp [totalWait]
        | cons y ys ih =>
          intro hl
          have := ih (fun x hx => hl x (List.mem_cons_of_mem _ hx))
          simp only [totalWait]
          split
          · rename_i hyw
            have := hl y (by simp) (by simpa using hyw)
            omega
          · omega
      exact key r h.1
    refine ⟨?_, ?_, ?_⟩
    · rw [List.pairwise_append]
      refine ⟨sortAbs_pairwise _, by simp, ?_⟩
      intro a ha b hb'
      simp at hb'; subst hb'
      exact (hb a ha).2.1
    · intro e he
      rcases List.mem_append.1 he with he | he
      · exact hb e he
      · simp at he; subst he
        simp [Msg.mkInternal, hnn]
    · left
      exact ⟨_, List.mem_append_right _ (List.mem_singleton.2 rfl), rfl⟩

end SCoda
