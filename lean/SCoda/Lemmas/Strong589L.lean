/-
  Helper lemmas for `Props/Strong589` (audit items A13 / C08):
  the note bookkeeping of `split` redone under the exact D18 hypothesis — a zero-length note is only
  harmful when it sits on a boundary tick — and, on top of the sounding relation, the *notes* of the
  pieces (per key: the notes of the source cut at the boundary).

  The chain `zl → KeyInv → AltP/AltO → splitInner_notes → splitOuter_notes` of `Lemmas/SplitNotes.lean`
  is repeated here with the boundary-aware `zlB` in place of `zl`; everything that does not mention `zl`
  (alternation, the dictionary of open notes, stale entries, depth) is reused from there.
-/
import SCoda.Lemmas.SplitNotes
import SCoda.Lemmas.SplitBars
import SCoda.Lemmas.NotesL
namespace SCoda.Strong589L
open SCoda SCoda.SplitL

/-! ### no zero-length note on a boundary tick -/

/-- no note of key `k` has zero length *on a tick of `B`*: when a note-off of `k` follows a note-on of `k`
    (`fresh = true`) with no positive wait in between, the clock `clk` is not in `B` -/
def zlB (B : List Int) (k : Int × Int) : Bool → Int → List Msg → Prop
  | _, _, [] => True
  | fresh, clk, m :: ms =>
    if m.ty = .wait then zlB B k (fresh && decide (m.time ≤ 0)) (clk + m.time) ms
    else if m.nkey = k ∧ m.ty = .noteOn then zlB B k true clk ms
    else if m.nkey = k ∧ m.ty = .noteOff then (fresh = true → clk ∉ B) ∧ zlB B k false clk ms
    else zlB B k fresh clk ms

variable {B : List Int}

theorem zlB_cons_wait (k : Int × Int) (f : Bool) (c : Int) (m : Msg) (l : List Msg) (h : m.ty = .wait) :
    zlB B k f c (m :: l) ↔ zlB B k (f && decide (m.time ≤ 0)) (c + m.time) l := by
  simp [zlB, h]

theorem zlB_cons_on (k : Int × Int) (f : Bool) (c : Int) (m : Msg) (l : List Msg) (h : m.nkey = k ∧ m.ty = .noteOn) :
    zlB B k f c (m :: l) ↔ zlB B k true c l := by
  simp [zlB, h]

theorem zlB_cons_off (k : Int × Int) (f : Bool) (c : Int) (m : Msg) (l : List Msg) (h : m.nkey = k ∧ m.ty = .noteOff) :
    zlB B k f c (m :: l) ↔ (f = true → c ∉ B) ∧ zlB B k false c l := by
  simp [zlB, h]

theorem zlB_cons_skip (k : Int × Int) (f : Bool) (c : Int) (m : Msg) (l : List Msg) (hw : m.ty ≠ .wait) (h : ¬ Kev k m) :
    zlB B k f c (m :: l) ↔ zlB B k f c l := by
  have h1 : ¬ (m.nkey = k ∧ m.ty = .noteOn) := fun ⟨a, c⟩ => h ⟨a, Or.inl c⟩
  have h2 : ¬ (m.nkey = k ∧ m.ty = .noteOff) := fun ⟨a, c⟩ => h ⟨a, Or.inr c⟩
  simp [zlB, hw, h1, h2]

theorem zlB_mono (k : Int × Int) (f : Bool) (c : Int) (l : List Msg) (h : zlB B k f c l) : zlB B k false c l := by
  induction l generalizing f c with
  | nil => trivial
  | cons m ms ih =>
    by_cases hw : m.ty = .wait
    · rw [zlB_cons_wait k _ _ m ms hw] at h ⊢
      simpa using ih _ _ h
    · by_cases hon : m.nkey = k ∧ m.ty = .noteOn
      · rw [zlB_cons_on k _ _ m ms hon] at h ⊢; exact h
      · by_cases hoff : m.nkey = k ∧ m.ty = .noteOff
        · rw [zlB_cons_off k _ _ m ms hoff] at h ⊢; exact ⟨by simp, h.2⟩
        · have hk : ¬ Kev k m := not_kev_of hon hoff
          rw [zlB_cons_skip k _ _ m ms hw hk] at h ⊢
          exact ih _ _ h

/-- removing a message that is neither a wait nor a note-on of `k` from behind a wait-free prefix keeps
    `zlB`, provided the clock is a boundary tick whenever a removed note-off could have reset `fresh` -/
theorem zlB_remove (k : Int × Int) (f : Bool) (c : Int) (u w : List Msg) (x : Msg) (hw : x.ty ≠ .wait)
    (hon : ¬ (x.nkey = k ∧ x.ty = .noteOn)) (hu : ∀ y ∈ u, y.ty ≠ .wait) (hfB : f = true → c ∈ B)
    (huB : u ≠ [] → c ∈ B) (h : zlB B k f c (u ++ x :: w)) : zlB B k f c (u ++ w) := by
  induction u generalizing f with
  | nil =>
    simp only [List.nil_append] at h ⊢
    by_cases hoff : x.nkey = k ∧ x.ty = .noteOff
    · rw [zlB_cons_off k _ _ x w hoff] at h
      cases f with
      | false => exact h.2
      | true => exact absurd (hfB rfl) (h.1 rfl)
    · have hk : ¬ Kev k x := not_kev_of hon hoff
      rwa [zlB_cons_skip k _ _ x w hw hk] at h
  | cons m ms ih =>
    have hu' : ∀ y ∈ ms, y.ty ≠ .wait := fun y hy => hu y (List.mem_cons_of_mem _ hy)
    have hmw := hu m List.mem_cons_self
    have hcB : c ∈ B := huB (by simp)
    simp only [List.cons_append] at h ⊢
    by_cases hmon : m.nkey = k ∧ m.ty = .noteOn
    · rw [zlB_cons_on k _ _ m _ hmon] at h ⊢; exact ih _ hu' (fun _ => hcB) (fun _ => hcB) h
    · by_cases hmoff : m.nkey = k ∧ m.ty = .noteOff
      · rw [zlB_cons_off k _ _ m _ hmoff] at h ⊢
        exact ⟨h.1, ih _ hu' (by simp) (fun _ => hcB) h.2⟩
      · have hk : ¬ Kev k m := not_kev_of hmon hmoff
        rw [zlB_cons_skip k _ _ m _ hmw hk] at h ⊢
        exact ih _ hu' hfB (fun _ => hcB) h

/-- removing a zero wait keeps `zlB` -/
theorem zlB_remove_wait0 (k : Int × Int) (f : Bool) (c : Int) (u w : List Msg) (x : Msg) (hw : x.ty = .wait)
    (h0 : x.time = 0) (h : zlB B k f c (u ++ x :: w)) : zlB B k f c (u ++ w) := by
  induction u generalizing f c with
  | nil =>
    simp only [List.nil_append] at h ⊢
    rw [zlB_cons_wait k _ _ x w hw, h0] at h
    simpa using h
  | cons m ms ih =>
    simp only [List.cons_append] at h ⊢
    by_cases hmw : m.ty = .wait
    · rw [zlB_cons_wait k _ _ m _ hmw] at h ⊢
      exact ih _ _ h
    · by_cases hmon : m.nkey = k ∧ m.ty = .noteOn
      · rw [zlB_cons_on k _ _ m _ hmon] at h ⊢; exact ih _ _ h
      · by_cases hmoff : m.nkey = k ∧ m.ty = .noteOff
        · rw [zlB_cons_off k _ _ m _ hmoff] at h ⊢; exact ⟨h.1, ih _ _ h.2⟩
        · have hk : ¬ Kev k m := not_kev_of hmon hmoff
          rw [zlB_cons_skip k _ _ m _ hmw hk] at h ⊢
          exact ih _ _ h

/-- after a wait-free, note-off-free prefix and a positive wait, freshness is gone -/
theorem zlB_prefix_poswait (k : Int × Int) (f : Bool) (c : Int) (u w : List Msg) (x : Msg)
    (hu : ∀ y ∈ u, y.ty ≠ .wait ∧ y.ty ≠ .noteOff) (hx : x.ty = .wait) (hpos : 0 < x.time) :
    zlB B k f c (u ++ x :: w) ↔ zlB B k false (c + x.time) w := by
  induction u generalizing f with
  | nil =>
    simp only [List.nil_append]
    rw [zlB_cons_wait k _ _ x w hx]
    have : ¬ x.time ≤ 0 := by omega
    simp [this]
  | cons m ms ih =>
    have hu' : ∀ y ∈ ms, y.ty ≠ .wait ∧ y.ty ≠ .noteOff := fun y hy => hu y (List.mem_cons_of_mem _ hy)
    have hm := hu m List.mem_cons_self
    simp only [List.cons_append]
    by_cases hmon : m.nkey = k ∧ m.ty = .noteOn
    · rw [zlB_cons_on k _ _ m _ hmon]; exact ih _ hu'
    · have hk : ¬ Kev k m := by
        rintro ⟨a, c | c⟩
        · exact hmon ⟨a, c⟩
        · exact hm.2 c
      rw [zlB_cons_skip k _ _ m _ hm.1 hk]; exact ih _ hu'

/-- on a boundary tick a fresh note-on cannot be closed before a wait -/
theorem zlB_true_off_false (k : Int × Int) (c : Int) (u w : List Msg) (x : Msg) (hu : ∀ y ∈ u, y.ty ≠ .wait)
    (hx : x.nkey = k ∧ x.ty = .noteOff) (hc : c ∈ B) (h : zlB B k true c (u ++ x :: w)) : False := by
  induction u with
  | nil =>
    simp only [List.nil_append] at h
    rw [zlB_cons_off k _ _ x w hx] at h
    exact h.1 rfl hc
  | cons m ms ih =>
    have hu' : ∀ y ∈ ms, y.ty ≠ .wait := fun y hy => hu y (List.mem_cons_of_mem _ hy)
    have hm := hu m List.mem_cons_self
    simp only [List.cons_append] at h
    by_cases hmon : m.nkey = k ∧ m.ty = .noteOn
    · rw [zlB_cons_on k _ _ m _ hmon] at h; exact ih hu' h
    · by_cases hmoff : m.nkey = k ∧ m.ty = .noteOff
      · rw [zlB_cons_off k _ _ m _ hmoff] at h; exact h.1 rfl hc
      · have hk : ¬ Kev k m := not_kev_of hmon hmoff
        rw [zlB_cons_skip k _ _ m _ hm hk] at h; exact ih hu' h

/-- on a boundary tick: a note-off of `k` right after the (wait-free) queue — the queue holds no note-on of `k` -/
theorem zlB_queue_noon (k : Int × Int) (f : Bool) (c : Int) (u w : List Msg) (x : Msg) (hu : ∀ y ∈ u, y.ty ≠ .wait)
    (hx : x.nkey = k ∧ x.ty = .noteOff) (hc : c ∈ B) (h : zlB B k f c (u ++ x :: w)) :
    ∀ y ∈ u, ¬ (y.nkey = k ∧ y.ty = .noteOn) := by
  induction u generalizing f with
  | nil => simp
  | cons m ms ih =>
    have hu' : ∀ y ∈ ms, y.ty ≠ .wait := fun y hy => hu y (List.mem_cons_of_mem _ hy)
    have hm := hu m List.mem_cons_self
    simp only [List.cons_append] at h
    by_cases hmon : m.nkey = k ∧ m.ty = .noteOn
    · rw [zlB_cons_on k _ _ m _ hmon] at h
      exact absurd h (zlB_true_off_false k c ms w x hu' hx hc)
    · intro y hy
      rcases List.mem_cons.1 hy with rfl | hy
      · exact hmon
      · by_cases hmoff : m.nkey = k ∧ m.ty = .noteOff
        · rw [zlB_cons_off k _ _ m _ hmoff] at h; exact ih _ hu' h.2 y hy
        · have hk : ¬ Kev k m := not_kev_of hmon hmoff
          rw [zlB_cons_skip k _ _ m _ hm hk] at h; exact ih _ hu' h y hy

/-! ### the per-key invariant of the inner loop (clock-aware) -/

/-- as `SplitL.KeyInv`, with `zlB` read from the current clock `clk` -/
def KeyInvB (B : List Int) (k : Int × Int) (clk rem : Int) (s : SplitSt) : Prop :=
  zlB B k false clk (s.queue.reverse ++ s.wm) ∧
  ∃ ck : Bool, altRun k false s.cur.reverse = some ck ∧
    ((ck = decide (k ∈ keys s.opens) ∧ altRun k ck (s.queue.reverse ++ s.wm) = some false) ∨
     (ck = false ∧ k ∈ keys s.opens ∧ s.queue = [] ∧ 0 < rem ∧ staleOK k s.wm))

/-- the per-key invariant between two runs of the inner loop; `clk` is the clock at the start of `s.wm` -/
def OuterKeyB (B : List Int) (k : Int × Int) (clk : Int) (s : SplitSt) : Prop :=
  zlB B k false clk s.wm ∧
    ((k ∉ keys s.opens ∧ altRun k false s.wm = some false) ∨ (k ∈ keys s.opens ∧ staleOK k s.wm))

theorem KeyInvB.init {k : Int × Int} {c clk : Int} (hc : 0 < c) {s : SplitSt} (hcur : s.cur = []) (hq : s.queue = [])
    (h : OuterKeyB B k clk s) : KeyInvB B k clk c s := by
  obtain ⟨hz, hd⟩ := h
  refine ⟨by simpa [hq] using hz, false, by simp [hcur, altRun], ?_⟩
  rcases hd with ⟨h1, h2⟩ | ⟨h1, h2⟩
  · left; exact ⟨by simp [h1], by simpa [hq] using h2⟩
  · right; exact ⟨rfl, h1, hq, hc, h2⟩

theorem KeyInvB.push {k : Int × Int} {clk rem : Int} {m : Msg} {wm cur : List Msg} {opens pieces}
    (h : KeyInvB B k clk rem ⟨m :: wm, cur, [], opens, pieces⟩)
    (hoff : m.ty ≠ .noteOff) (hw : m.ty ≠ .wait) :
    KeyInvB B k clk rem ⟨wm, m :: cur, [], if m.ty = .noteOn then opens.set m.nkey m else opens, pieces⟩ := by
  simp only [KeyInvB, List.reverse_nil, List.nil_append, List.reverse_cons] at h ⊢
  obtain ⟨hz, ck, hck, hd⟩ := h
  by_cases hon : m.nkey = k ∧ m.ty = .noteOn
  · rw [zlB_cons_on k _ _ m wm hon] at hz
    have hwm : ck = false ∧ altRun k true wm = some false := by
      rcases hd with ⟨_, h2⟩ | ⟨h1, _, _, _, h2⟩
      · rw [altRun_cons_on k _ m wm hon] at h2
        cases ck with
        | true => simp at h2
        | false => exact ⟨rfl, by simpa using h2⟩
      · exact ⟨h1, (staleOK_cons_on k m wm hon).1 h2⟩
    refine ⟨zlB_mono k _ _ _ hz, true, ?_, Or.inl ⟨?_, hwm.2⟩⟩
    · rw [altRun_snoc k _ ck _ m hck, hwm.1, altRun_cons_on k _ m _ hon]; rfl
    · simp only [hon.2, if_true]
      rw [eq_comm, decide_eq_true_iff, mem_keys_set]
      exact Or.inr hon.1.symm
  · have hk : ¬ Kev k m := not_kev_of hon (fun h => hoff h.2)
    rw [zlB_cons_skip k _ _ m wm hw hk] at hz
    have hkeys : k ∈ keys (if m.ty = .noteOn then opens.set m.nkey m else opens) ↔ k ∈ keys opens := by
      split
      · rename_i hty
        rw [mem_keys_set]
        constructor
        · rintro (h | h)
          · exact h
          · exact absurd ⟨h.symm, hty⟩ hon
        · exact Or.inl
      · exact Iff.rfl
    refine ⟨hz, ck, ?_, ?_⟩
    · rw [altRun_snoc k _ ck _ m hck, altRun_cons_skip k _ m _ hk]; rfl
    · rcases hd with ⟨h1, h2⟩ | ⟨h1, h2, h3, h4, h5⟩
      · left
        rw [altRun_cons_skip k _ m _ hk] at h2
        refine ⟨?_, h2⟩
        rw [h1]; exact decide_eq_decide.2 hkeys.symm
      · right
        exact ⟨h1, hkeys.2 h2, trivial, h4, (staleOK_cons_skip k m wm hw hk).1 h5⟩

theorem KeyInvB.defer {k : Int × Int} {clk : Int} {m : Msg} {wm cur queue : List Msg} {opens pieces}
    (h : KeyInvB B k clk 0 ⟨m :: wm, cur, queue, opens, pieces⟩) :
    KeyInvB B k clk 0 ⟨wm, cur, m :: queue, opens, pieces⟩ := by
  simp only [KeyInvB, List.reverse_cons, List.append_assoc, List.singleton_append] at h ⊢
  obtain ⟨hz, ck, hck, hd⟩ := h
  refine ⟨hz, ck, hck, ?_⟩
  rcases hd with hd | ⟨_, _, _, h4, _⟩
  · left; exact hd
  · omega

theorem KeyInvB.off {k : Int × Int} {clk rem : Int} {m : Msg} {wm cur queue : List Msg} {opens pieces}
    (h : KeyInvB B k clk rem ⟨m :: wm, cur, queue, opens, pieces⟩) (hm : m.ty = .noteOff) (hok : OpensOK opens)
    (hqw : ∀ q ∈ queue, q.ty ≠ .wait) (hqo : ∀ q ∈ queue, q.ty ≠ .noteOff) (hqB : queue ≠ [] → clk ∈ B) :
    KeyInvB B k clk rem ⟨wm, m :: cur, queue, opens.erase m.nkey, pieces⟩ := by
  simp only [KeyInvB, List.reverse_cons] at h ⊢
  obtain ⟨hz, ck, hck, hd⟩ := h
  have hqw' : ∀ q ∈ queue.reverse, q.ty ≠ .wait := by simpa using hqw
  have hqB' : queue.reverse ≠ [] → clk ∈ B := by simpa using hqB
  have hmw : m.ty ≠ .wait := by rw [hm]; simp
  have hmon : ¬ (m.nkey = k ∧ m.ty = .noteOn) := by rw [hm]; simp
  have hz' : zlB B k false clk (queue.reverse ++ wm) :=
    zlB_remove k _ _ _ _ m hmw hmon hqw' (by simp) hqB' hz
  by_cases hk : m.nkey = k
  · have hoff : m.nkey = k ∧ m.ty = .noteOff := ⟨hk, hm⟩
    have hqk : ∀ x ∈ queue.reverse, ¬ Kev k x := by
      by_cases hqe : queue = []
      · subst hqe; simp
      · have hnoon := zlB_queue_noon k _ _ _ _ m hqw' hoff (hqB hqe) hz
        intro x hx
        exact not_kev_of (hnoon x hx) (fun h => hqo x (by simpa using hx) h.2)
    rcases hd with ⟨h1, h2⟩ | ⟨_, _, h3, _, h5⟩
    · rw [altRun_skip_append k _ _ _ hqk, altRun_cons_off k _ m wm hoff] at h2
      have hct : ck = true := by
        cases ck with
        | true => rfl
        | false => simp at h2
      subst hct
      refine ⟨hz', false, ?_, Or.inl ⟨?_, ?_⟩⟩
      · rw [altRun_snoc k _ true _ m hck, altRun_cons_off k _ m _ hoff]; rfl
      · rw [eq_comm, decide_eq_false_iff_not, mem_keys_erase _ hok.nodup]
        intro h; exact h.2 hk.symm
      · rw [altRun_skip_append k _ _ _ hqk]
        simpa using h2
    · exact absurd h5 (staleOK_off k m wm hoff)
  · have hnk : ¬ Kev k m := fun h => hk h.1
    have hkeys : k ∈ keys (opens.erase m.nkey) ↔ k ∈ keys opens := by
      rw [mem_keys_erase _ hok.nodup]
      constructor
      · exact fun h => h.1
      · exact fun h => ⟨h, fun h' => hk h'.symm⟩
    refine ⟨hz', ck, ?_, ?_⟩
    · rw [altRun_snoc k _ ck _ m hck, altRun_cons_skip k _ m _ hnk]; rfl
    · rcases hd with ⟨h1, h2⟩ | ⟨h1, h2, h3, h4, h5⟩
      · left
        rw [altRun_remove k _ _ _ m hnk] at h2
        refine ⟨?_, h2⟩
        rw [h1]; exact decide_eq_decide.2 hkeys.symm
      · right
        exact ⟨h1, hkeys.2 h2, h3, h4, (staleOK_cons_skip k m wm hmw hnk).1 h5⟩

theorem KeyInvB.fit {k : Int × Int} {clk rem : Int} {m : Msg} {wm cur queue : List Msg} {opens pieces}
    (h : KeyInvB B k clk rem ⟨m :: wm, cur, queue, opens, pieces⟩) (hm : m.ty = .wait)
    (h0 : queue ≠ [] → m.time = 0) :
    KeyInvB B k (clk + m.time) (rem - m.time) ⟨wm, m :: cur, queue, opens, pieces⟩ := by
  simp only [KeyInvB, List.reverse_cons] at h ⊢
  obtain ⟨hz, ck, hck, hd⟩ := h
  have hnk : ¬ Kev k m := by rintro ⟨_, c | c⟩ <;> simp [hm] at c
  have hz' : zlB B k false (clk + m.time) (queue.reverse ++ wm) := by
    by_cases hq : queue = []
    · subst hq
      simp only [List.reverse_nil, List.nil_append] at hz ⊢
      rw [zlB_cons_wait k _ _ m wm hm] at hz
      simpa using hz
    · rw [h0 hq, Int.add_zero]
      exact zlB_remove_wait0 k _ _ _ _ m hm (h0 hq) hz
  refine ⟨hz', ck, ?_, ?_⟩
  · rw [altRun_snoc k _ ck _ m hck, altRun_cons_skip k _ m _ hnk]; rfl
  · rcases hd with ⟨h1, h2⟩ | ⟨_, _, _, _, h5⟩
    · left
      rw [altRun_remove k _ _ _ m hnk] at h2
      exact ⟨h1, h2⟩
    · exact absurd h5 (staleOK_wait k m wm hm)

/-- what the per-key invariant gives when the input ends -/
theorem KeyInvB.nil_exit {k : Int × Int} {clk rem : Int} {cur queue : List Msg} {opens pieces}
    (h : KeyInvB B k clk rem ⟨[], cur, queue, opens, pieces⟩) (hqo : ∀ q ∈ queue, q.ty ≠ .noteOff) :
    altRun k false cur.reverse = some false ∧ (∀ x ∈ queue, ¬ Kev k x) ∧ k ∉ keys opens := by
  simp only [KeyInvB, List.append_nil] at h
  obtain ⟨hz, ck, hck, hd⟩ := h
  rcases hd with ⟨h1, h2⟩ | ⟨_, _, _, _, h5⟩
  · obtain ⟨hc, hq⟩ := altRun_nooff_closed k ck queue.reverse (by simpa using hqo) h2
    subst hc
    refine ⟨hck, by simpa using hq, ?_⟩
    simpa using h1
  · simp [staleOK] at h5

/-- what the per-key invariant gives when a wait does not fit -/
theorem KeyInvB.split_exit {k : Int × Int} {clk rem : Int} {m : Msg} {wm cur queue : List Msg} {opens pieces}
    (h : KeyInvB B k clk rem ⟨m :: wm, cur, queue, opens, pieces⟩) (hm : m.ty = .wait) (hr : rem < m.time)
    (hr0 : 0 ≤ rem) (hok : OpensOK opens)
    (hqw : ∀ q ∈ queue, q.ty ≠ .wait) (hqo : ∀ q ∈ queue, q.ty ≠ .noteOff) (pieces' : List (List Msg)) :
    altRun k false (closedPiece rem m cur opens) = some false
    ∧ OuterKeyB B k (clk + rem) ⟨carried rem m wm queue opens, [], [], opens, pieces'⟩
    ∧ (k ∈ keys opens → ∀ x ∈ queue, ¬ Kev k x)
    ∧ altRun k false cur.reverse = some (decide (k ∈ keys opens))
    ∧ altRun k (decide (k ∈ keys opens)) (queue.reverse ++ m :: wm) = some false := by
  simp only [KeyInvB] at h
  obtain ⟨hz, ck, hck, hd⟩ := h
  have hnk : ¬ Kev k m := by rintro ⟨_, c | c⟩ <;> simp [hm] at c
  have hqw' : ∀ q ∈ queue.reverse, q.ty ≠ .wait := by simpa using hqw
  have hqo' : ∀ q ∈ queue.reverse, q.ty ≠ .noteOff := by simpa using hqo
  have hfresh : ck = decide (k ∈ keys opens) ∧ altRun k ck (queue.reverse ++ m :: wm) = some false := by
    rcases hd with hd | ⟨_, _, _, _, h5⟩
    · exact hd
    · exact absurd h5 (staleOK_wait k m wm hm)
  obtain ⟨h1, h2⟩ := hfresh
  subst h1
  -- `zlB` after the carry wait
  have hzwm : zlB B k false (clk + m.time) wm :=
    (zlB_prefix_poswait k _ _ _ _ m (fun y hy => ⟨hqw' y hy, hqo' y hy⟩) hm (by omega)).1 hz
  have hzc : zlB B k false (clk + rem) (carried rem m wm queue opens) := by
    unfold carried
    rw [← List.append_assoc]
    refine (zlB_prefix_poswait k _ _ _ _ _ ?_ rfl (by simp [Msg.mkWait]; omega)).2 ?_
    · intro y hy
      rcases List.mem_append.1 hy with hy | hy
      · exact ⟨hqw' y hy, hqo' y hy⟩
      · simp only [List.mem_map] at hy
        obtain ⟨kv, _, rfl⟩ := hy
        simp [onOf]
    · have : clk + rem + (Msg.mkWait m.ch (m.time - rem)).time = clk + m.time := by
        simp [Msg.mkWait]; omega
      rw [this]; exact hzwm
  have hcarry : ∀ b, altRun k b (Msg.mkWait m.ch (m.time - rem) :: wm) = altRun k b wm := by
    intro b
    exact altRun_cons_skip k b _ _ (by rintro ⟨_, c | c⟩ <;> simp [Msg.mkWait] at c)
  refine ⟨?_, ⟨hzc, ?_⟩, ?_, hck, h2⟩
  · -- the closed piece alternates
    unfold closedPiece
    rw [altRun_append, hck]
    simp only [Option.bind_some]
    have hopt : altRun k (decide (k ∈ keys opens)) ((if 0 < rem then [Msg.mkWait m.ch rem] else []) ++ opens.map offOf)
        = altRun k (decide (k ∈ keys opens)) (opens.map offOf ++ []) := by
      split
      · rw [List.singleton_append, altRun_cons_skip k _ _ _ (by rintro ⟨_, c | c⟩ <;> simp [Msg.mkWait] at c)]
        simp
      · simp
    rw [hopt, altRun_offs k _ opens hok]
    by_cases hk : k ∈ keys opens <;> simp [hk, altRun]
  · -- the invariant between runs
    by_cases hk : k ∈ keys opens
    · right
      refine ⟨hk, ?_⟩
      simp only [hk, decide_true] at h2
      have hqk := altRun_true_prefix k _ _ hqo' _ h2
      rw [altRun_skip_append k _ _ _ hqk, altRun_cons_skip k _ m _ hnk] at h2
      unfold carried
      rw [staleOK_skip_append k _ _ (fun x hx => ⟨hqw' x hx, hqk x hx⟩)]
      exact staleOK_ons k opens hok _ hk (by rw [hcarry]; exact h2)
    · left
      refine ⟨hk, ?_⟩
      simp only [hk, decide_false] at h2
      rw [altRun_remove k _ _ _ m hnk] at h2
      unfold carried
      rw [altRun_append] at h2 ⊢
      rw [← h2]
      congr 1; funext b'
      rw [altRun_skip_append k _ _ _ (ons_not_kev k opens hok hk), hcarry]
  · intro hk
    simp only [hk, decide_true] at h2
    have hqk := altRun_true_prefix k _ _ hqo' _ h2
    simpa using hqk

/-! ### the notes of one key, read off a timed event list -/

/-- the note a note-on makes when it is closed at tick `off` -/
def mkN (on : Msg) (off : Int) : Note := { ch := on.ch, pitch := on.note, on := on.time, off := off, vel := on.vel }

/-- the waiting note-on of key `k` after the timed events `evs` (`o` before them) -/
def nkEnd (k : Int × Int) : List Msg → Option Msg → Option Msg
  | [], o => o
  | m :: ms, o =>
    if m.nkey = k ∧ m.ty = .noteOn then nkEnd k ms (some m)
    else if m.nkey = k ∧ m.ty = .noteOff then nkEnd k ms none
    else nkEnd k ms o

/-- the notes of key `k` in the timed events `evs`, in time order; `o` is the note-on waiting at the start -/
def nkNotes (k : Int × Int) : List Msg → Option Msg → List Note
  | [], _ => []
  | m :: ms, o =>
    if m.nkey = k ∧ m.ty = .noteOn then nkNotes k ms (some m)
    else if m.nkey = k ∧ m.ty = .noteOff then
      match o with
      | some on => mkN on m.time :: nkNotes k ms none
      | none => nkNotes k ms none
    else nkNotes k ms o

theorem nkEnd_cons_on (k : Int × Int) (m : Msg) (l : List Msg) (o : Option Msg) (h : m.nkey = k ∧ m.ty = .noteOn) :
    nkEnd k (m :: l) o = nkEnd k l (some m) := by simp [nkEnd, h]
theorem nkEnd_cons_off (k : Int × Int) (m : Msg) (l : List Msg) (o : Option Msg) (h : m.nkey = k ∧ m.ty = .noteOff) :
    nkEnd k (m :: l) o = nkEnd k l none := by
  have h1 : ¬ (m.nkey = k ∧ m.ty = .noteOn) := by rw [h.2]; simp
  simp [nkEnd, h]
theorem nkEnd_cons_skip (k : Int × Int) (m : Msg) (l : List Msg) (o : Option Msg) (h : ¬ Kev k m) :
    nkEnd k (m :: l) o = nkEnd k l o := by
  have h1 : ¬ (m.nkey = k ∧ m.ty = .noteOn) := fun ⟨a, c⟩ => h ⟨a, Or.inl c⟩
  have h2 : ¬ (m.nkey = k ∧ m.ty = .noteOff) := fun ⟨a, c⟩ => h ⟨a, Or.inr c⟩
  simp [nkEnd, h1, h2]
theorem nkNotes_cons_on (k : Int × Int) (m : Msg) (l : List Msg) (o : Option Msg) (h : m.nkey = k ∧ m.ty = .noteOn) :
    nkNotes k (m :: l) o = nkNotes k l (some m) := by simp [nkNotes, h]
theorem nkNotes_cons_off (k : Int × Int) (m : Msg) (l : List Msg) (o : Option Msg) (h : m.nkey = k ∧ m.ty = .noteOff) :
    nkNotes k (m :: l) o = (match o with | some on => [mkN on m.time] | none => []) ++ nkNotes k l none := by
  have h1 : ¬ (m.nkey = k ∧ m.ty = .noteOn) := by rw [h.2]; simp
  cases o <;> simp [nkNotes, h]
theorem nkNotes_cons_skip (k : Int × Int) (m : Msg) (l : List Msg) (o : Option Msg) (h : ¬ Kev k m) :
    nkNotes k (m :: l) o = nkNotes k l o := by
  have h1 : ¬ (m.nkey = k ∧ m.ty = .noteOn) := fun ⟨a, c⟩ => h ⟨a, Or.inl c⟩
  have h2 : ¬ (m.nkey = k ∧ m.ty = .noteOff) := fun ⟨a, c⟩ => h ⟨a, Or.inr c⟩
  simp [nkNotes, h1, h2]

/-- case analysis on a message against key `k` -/
theorem kev_cases (k : Int × Int) (m : Msg) :
    (m.nkey = k ∧ m.ty = .noteOn) ∨ (m.nkey = k ∧ m.ty = .noteOff) ∨ ¬ Kev k m := by
  by_cases h1 : m.nkey = k ∧ m.ty = .noteOn
  · exact Or.inl h1
  · by_cases h2 : m.nkey = k ∧ m.ty = .noteOff
    · exact Or.inr (Or.inl h2)
    · exact Or.inr (Or.inr (not_kev_of h1 h2))

theorem nkEnd_append (k : Int × Int) (x y : List Msg) (o : Option Msg) :
    nkEnd k (x ++ y) o = nkEnd k y (nkEnd k x o) := by
  induction x generalizing o with
  | nil => rfl
  | cons m ms ih =>
    rw [List.cons_append]
    rcases kev_cases k m with h | h | h
    · rw [nkEnd_cons_on k m _ o h, nkEnd_cons_on k m _ o h, ih]
    · rw [nkEnd_cons_off k m _ o h, nkEnd_cons_off k m _ o h, ih]
    · rw [nkEnd_cons_skip k m _ o h, nkEnd_cons_skip k m _ o h, ih]

theorem nkNotes_append (k : Int × Int) (x y : List Msg) (o : Option Msg) :
    nkNotes k (x ++ y) o = nkNotes k x o ++ nkNotes k y (nkEnd k x o) := by
  induction x generalizing o with
  | nil => rfl
  | cons m ms ih =>
    rw [List.cons_append]
    rcases kev_cases k m with h | h | h
    · rw [nkNotes_cons_on k m _ o h, nkNotes_cons_on k m _ o h, nkEnd_cons_on k m _ o h, ih]
    · rw [nkNotes_cons_off k m _ o h, nkNotes_cons_off k m _ o h, nkEnd_cons_off k m _ o h, ih, List.append_assoc]
    · rw [nkNotes_cons_skip k m _ o h, nkNotes_cons_skip k m _ o h, nkEnd_cons_skip k m _ o h, ih]

theorem nk_skip (k : Int × Int) (u : List Msg) (o : Option Msg) (h : ∀ x ∈ u, ¬ Kev k x) :
    nkNotes k u o = [] ∧ nkEnd k u o = o := by
  induction u with
  | nil => exact ⟨rfl, rfl⟩
  | cons m ms ih =>
    have hm := h m List.mem_cons_self
    rw [nkNotes_cons_skip k m _ o hm, nkEnd_cons_skip k m _ o hm]
    exact ih (fun x hx => h x (List.mem_cons_of_mem _ hx))

/-- only channel, pitch, tick and velocity of the waiting note-on matter -/
theorem nkNotes_congr (k : Int × Int) (l : List Msg) (on on' : Msg)
    (h : ∀ t, mkN on t = mkN on' t) : nkNotes k l (some on) = nkNotes k l (some on') := by
  induction l with
  | nil => rfl
  | cons m ms ih =>
    rcases kev_cases k m with h1 | h1 | h1
    · rw [nkNotes_cons_on k m _ _ h1, nkNotes_cons_on k m _ _ h1]
    · rw [nkNotes_cons_off k m _ _ h1, nkNotes_cons_off k m _ _ h1]
      simp only [h]
    · rw [nkNotes_cons_skip k m _ _ h1, nkNotes_cons_skip k m _ _ h1, ih]

/-- note-offs lie on event ticks -/
theorem nkNotes_off_le (k : Int × Int) (hi : Int) (l : List Msg) (o : Option Msg) (h : ∀ e ∈ l, e.time ≤ hi) :
    ∀ n ∈ nkNotes k l o, n.off ≤ hi := by
  induction l generalizing o with
  | nil => intro n hn; simp [nkNotes] at hn
  | cons m ms ih =>
    have h' : ∀ e ∈ ms, e.time ≤ hi := fun e he => h e (List.mem_cons_of_mem _ he)
    have hm := h m List.mem_cons_self
    intro n hn
    rcases kev_cases k m with h1 | h1 | h1
    · rw [nkNotes_cons_on k m _ _ h1] at hn; exact ih _ h' n hn
    · rw [nkNotes_cons_off k m _ _ h1] at hn
      rcases List.mem_append.1 hn with hn | hn
      · cases o with
        | none => simp at hn
        | some on => simp only [List.mem_singleton] at hn; subst hn; exact hm
      · exact ih _ h' n hn
    · rw [nkNotes_cons_skip k m _ _ h1] at hn; exact ih _ h' n hn

/-- onsets lie on event ticks (or are the waiting note-on's) -/
theorem nkNotes_on_ge (k : Int × Int) (lo : Int) (l : List Msg) (o : Option Msg) (h : ∀ e ∈ l, lo ≤ e.time)
    (ho : ∀ on, o = some on → lo ≤ on.time) : ∀ n ∈ nkNotes k l o, lo ≤ n.on := by
  induction l generalizing o with
  | nil => intro n hn; simp [nkNotes] at hn
  | cons m ms ih =>
    have h' : ∀ e ∈ ms, lo ≤ e.time := fun e he => h e (List.mem_cons_of_mem _ he)
    have hm := h m List.mem_cons_self
    intro n hn
    rcases kev_cases k m with h1 | h1 | h1
    · rw [nkNotes_cons_on k m _ _ h1] at hn
      exact ih _ h' (by intro on hon; cases hon; exact hm) n hn
    · rw [nkNotes_cons_off k m _ _ h1] at hn
      rcases List.mem_append.1 hn with hn | hn
      · cases o with
        | none => simp at hn
        | some on => simp only [List.mem_singleton] at hn; subst hn; exact ho on rfl
      · exact ih _ h' (by intro on hon; cases hon) n hn
    · rw [nkNotes_cons_skip k m _ _ h1] at hn; exact ih _ h' ho n hn

/-! ### cutting notes at a tick -/

/-- a note that sounds across tick `b` becomes two, the second re-struck at `b`; any other note is kept -/
def cut1 (b : Int) (n : Note) : List Note :=
  if n.on < b ∧ b < n.off then [{ n with off := b }, { n with on := b }] else [n]

/-- cut at each tick of the list in turn -/
def cutNotes : List Int → List Note → List Note
  | [], N => N
  | b :: bs, N => cutNotes bs (N.flatMap (cut1 b))

theorem cut1_id (b : Int) (n : Note) (h : n.off ≤ b ∨ b ≤ n.on) : cut1 b n = [n] := by
  unfold cut1; rw [if_neg]; omega

theorem flatMap_cut1_id (b : Int) (N : List Note) (h : ∀ n ∈ N, n.off ≤ b ∨ b ≤ n.on) :
    N.flatMap (cut1 b) = N := by
  induction N with
  | nil => rfl
  | cons n ns ih =>
    rw [List.flatMap_cons, cut1_id b n (h n List.mem_cons_self), ih (fun x hx => h x (List.mem_cons_of_mem _ hx))]
    rfl

theorem cutNotes_append (bs : List Int) (N M : List Note) : cutNotes bs (N ++ M) = cutNotes bs N ++ cutNotes bs M := by
  induction bs generalizing N M with
  | nil => rfl
  | cons b bs ih => simp only [cutNotes, List.flatMap_append, ih]

theorem cutNotes_nil (bs : List Int) : cutNotes bs [] = [] := by
  induction bs with
  | nil => rfl
  | cons b bs ih => simpa [cutNotes] using ih

theorem cutNotes_id (bs : List Int) (N : List Note) (h : ∀ n ∈ N, ∀ b ∈ bs, n.off ≤ b ∨ b ≤ n.on) :
    cutNotes bs N = N := by
  induction bs with
  | nil => rfl
  | cons b bs ih =>
    rw [cutNotes, flatMap_cut1_id b N (fun n hn => h n hn b List.mem_cons_self)]
    exact ih (fun n hn b' hb' => h n hn b' (List.mem_cons_of_mem _ hb'))

/-- the waiting note-on is cut at `b`; everything that follows lies after `b` -/
theorem nkNotes_cut_open (k : Int × Int) (b : Int) (on0 on1 : Msg) (l : List Msg)
    (halt : altRun k true l = some false) (h0 : on0.time < b) (hl : ∀ e ∈ l, b < e.time)
    (h1 : ∀ t, mkN on1 t = { mkN on0 t with on := b }) :
    (nkNotes k l (some on0)).flatMap (cut1 b) = mkN on0 b :: nkNotes k l (some on1) := by
  induction l with
  | nil => simp [altRun] at halt
  | cons m ms ih =>
    have hl' : ∀ e ∈ ms, b < e.time := fun e he => hl e (List.mem_cons_of_mem _ he)
    have hm := hl m List.mem_cons_self
    rcases kev_cases k m with h | h | h
    · rw [altRun_cons_on k _ m ms h] at halt; simp at halt
    · rw [nkNotes_cons_off k m _ _ h, nkNotes_cons_off k m _ _ h]
      simp only [List.singleton_append, List.flatMap_cons]
      have hc : cut1 b (mkN on0 m.time) = [mkN on0 b, mkN on1 m.time] := by
        unfold cut1
        rw [if_pos (by simp only [mkN]; omega), h1]
        rfl
      rw [hc, flatMap_cut1_id b _ (fun n hn => Or.inr (Int.le_of_lt
        (nkNotes_on_ge k (b + 1) ms none (fun e he => hl' e he) (by intro on hon; cases hon) n hn)))]
      rfl
    · rw [altRun_cons_skip k _ m ms h] at halt
      rw [nkNotes_cons_skip k m _ _ h, nkNotes_cons_skip k m _ _ h]
      exact ih halt hl'

/-! ### the notes of one key along a relative list -/

/-- waiting note-on and notes so far of key `k`, advanced over the timed events `evs` -/
def nkRun (k : Int × Int) (evs : List Msg) (st : Option Msg × List Note) : Option Msg × List Note :=
  (nkEnd k evs st.1, st.2 ++ nkNotes k evs st.1)

/-- the same along the relative list `l` started at clock `a` -/
def R (k : Int × Int) (a : Int) (l : List Msg) (st : Option Msg × List Note) : Option Msg × List Note :=
  nkRun k (eventsRelGo a l) st

theorem nkRun_append (k : Int × Int) (x y : List Msg) (st : Option Msg × List Note) :
    nkRun k (x ++ y) st = nkRun k y (nkRun k x st) := by
  simp only [nkRun, nkEnd_append, nkNotes_append, List.append_assoc]

theorem R_append (k : Int × Int) (a : Int) (u y : List Msg) (st : Option Msg × List Note) :
    R k a (u ++ y) st = R k (a + totalWait u) y (R k a u st) := by
  simp only [R, eventsRelGo_append, nkRun_append]

theorem R_nil (k : Int × Int) (a : Int) (st : Option Msg × List Note) : R k a [] st = st := by
  obtain ⟨o, N⟩ := st
  simp [R, nkRun, eventsRelGo, nkEnd, nkNotes]

theorem R_cons_wait (k : Int × Int) (a : Int) (m : Msg) (l : List Msg) (st : Option Msg × List Note)
    (h : m.ty = .wait) : R k a (m :: l) st = R k (a + m.time) l st := by
  simp only [R, eventsRelGo_cons_wait a m l h]

theorem R_mkWait (k : Int × Int) (a c w : Int) (l : List Msg) (st : Option Msg × List Note) :
    R k a (Msg.mkWait c w :: l) st = R k (a + w) l st :=
  R_cons_wait k a _ l st rfl

theorem kev_events {k : Int × Int} {a : Int} {u : List Msg} (h : ∀ x ∈ u, ¬ Kev k x) :
    ∀ e ∈ eventsRelGo a u, ¬ Kev k e := by
  intro e he
  obtain ⟨m, hm, c', rfl⟩ := SB.mem_eventsRelGo u a e he
  exact h m hm

theorem R_skip (k : Int × Int) (a : Int) (u : List Msg) (st : Option Msg × List Note) (h : ∀ x ∈ u, ¬ Kev k x) :
    R k a u st = st := by
  obtain ⟨o, N⟩ := st
  obtain ⟨h1, h2⟩ := nk_skip k (eventsRelGo a u) o (kev_events h)
  simp [R, nkRun, h1, h2]

/-- a message stamped with the tick at which it happens -/
def stamp (a : Int) (m : Msg) : Msg := { m with time := a }

theorem stamp_nkey (a : Int) (m : Msg) : (stamp a m).nkey = m.nkey := rfl
theorem stamp_ty (a : Int) (m : Msg) : (stamp a m).ty = m.ty := rfl
theorem stamp_time (a : Int) (m : Msg) : (stamp a m).time = a := rfl

theorem nkRun_single_on (k : Int × Int) (e : Msg) (st : Option Msg × List Note) (h : e.nkey = k ∧ e.ty = .noteOn) :
    nkRun k [e] st = (some e, st.2) := by
  unfold nkRun
  rw [nkEnd_cons_on k e _ _ h, nkNotes_cons_on k e _ _ h]
  simp [nkEnd, nkNotes]

theorem nkRun_single_off (k : Int × Int) (e : Msg) (st : Option Msg × List Note) (h : e.nkey = k ∧ e.ty = .noteOff) :
    nkRun k [e] st = (none, st.2 ++ (match st.1 with | some on => [mkN on e.time] | none => [])) := by
  unfold nkRun
  rw [nkEnd_cons_off k e _ _ h, nkNotes_cons_off k e _ _ h]
  simp [nkEnd, nkNotes]

theorem nkRun_single_skip (k : Int × Int) (e : Msg) (st : Option Msg × List Note) (h : ¬ Kev k e) :
    nkRun k [e] st = st := by
  obtain ⟨o, N⟩ := st
  unfold nkRun
  rw [nkEnd_cons_skip k e _ _ h, nkNotes_cons_skip k e _ _ h]
  simp [nkEnd, nkNotes]

theorem R_cons_nowait (k : Int × Int) (a : Int) (m : Msg) (l : List Msg) (st : Option Msg × List Note)
    (h : m.ty ≠ .wait) : R k a (m :: l) st = R k a l (nkRun k [stamp a m] st) := by
  simp only [R, eventsRelGo_cons_nowait a m l h]
  exact nkRun_append k [stamp a m] _ st

theorem R_offs (k : Int × Int) (a : Int) (opens : Assoc (Int × Int) Msg) (h : OpensOK opens)
    (st : Option Msg × List Note) :
    R k a (opens.map offOf) st =
      if k ∈ keys opens then (none, st.2 ++ (match st.1 with | some on => [mkN on a] | none => [])) else st := by
  induction opens generalizing st with
  | nil => simp [keys, R_nil]
  | cons x rest ih =>
    have hx := offOf_nkey _ h x List.mem_cons_self
    have hnd := h.nodup
    simp only [keys, List.map_cons, List.nodup_cons] at hnd
    simp only [List.map_cons]
    rw [R_cons_nowait k a _ _ st (by simp [offOf])]
    by_cases hk : x.1 = k
    · have hoff : (stamp a (offOf x)).nkey = k ∧ (stamp a (offOf x)).ty = .noteOff :=
        ⟨by rw [stamp_nkey, hx, hk], rfl⟩
      have hkr : k ∉ keys rest := by rw [← hk]; exact hnd.1
      rw [ih h.tail, if_neg hkr, nkRun_single_off k _ _ hoff, stamp_time]
      simp [keys, hk]
    · have hnk : ¬ Kev k (stamp a (offOf x)) := by
        rintro ⟨a', _⟩
        rw [stamp_nkey, hx] at a'; exact hk a'
      rw [nkRun_single_skip k _ _ hnk, ih h.tail]
      have : (k ∈ keys (x :: rest)) ↔ k ∈ keys rest := by
        simp only [keys, List.map_cons, List.mem_cons]
        constructor
        · rintro (h | h)
          · exact absurd h.symm hk
          · exact h
        · exact Or.inr
      simp only [this]

theorem R_ons (k : Int × Int) (a : Int) (opens : Assoc (Int × Int) Msg) (h : OpensOK opens)
    (st : Option Msg × List Note) (hk : k ∈ keys opens) :
    ∃ kv ∈ opens, kv.1 = k ∧ R k a (opens.map onOf) st = (some (stamp a (onOf kv)), st.2) := by
  induction opens generalizing st with
  | nil => simp [keys] at hk
  | cons x rest ih =>
    have hx := onOf_nkey _ h x List.mem_cons_self
    have hnd := h.nodup
    simp only [keys, List.map_cons, List.nodup_cons] at hnd
    simp only [List.map_cons]
    rw [R_cons_nowait k a _ _ st (by simp [onOf])]
    by_cases hxk : x.1 = k
    · have hon : (stamp a (onOf x)).nkey = k ∧ (stamp a (onOf x)).ty = .noteOn :=
        ⟨by rw [stamp_nkey, hx, hxk], rfl⟩
      have hkr : k ∉ keys rest := by rw [← hxk]; exact hnd.1
      refine ⟨x, List.mem_cons_self, hxk, ?_⟩
      rw [R_skip k a _ _ (ons_not_kev k rest h.tail hkr), nkRun_single_on k _ _ hon]
    · have hnk : ¬ Kev k (stamp a (onOf x)) := by
        rintro ⟨a', _⟩
        rw [stamp_nkey, hx] at a'; exact hxk a'
      rw [nkRun_single_skip k _ _ hnk]
      have hk' : k ∈ keys rest := by
        simp only [keys, List.map_cons, List.mem_cons] at hk
        rcases hk with hk | hk
        · exact absurd hk.symm hxk
        · exact hk
      obtain ⟨kv, hkv, hkk, hR⟩ := ih h.tail st hk'
      exact ⟨kv, List.mem_cons_of_mem _ hkv, hkk, hR⟩

theorem R_move_off (k : Int × Int) (a : Int) (q w : List Msg) (m : Msg) (st : Option Msg × List Note)
    (hq : ∀ x ∈ q, x.ty ≠ .wait) (hm : m.ty ≠ .wait) (hk : m.nkey = k → ∀ x ∈ q, ¬ Kev k x) :
    R k a (m :: (q ++ w)) st = R k a (q ++ m :: w) st := by
  have e1 : m :: (q ++ w) = [m] ++ (q ++ w) := rfl
  have e2 : m :: w = [m] ++ w := rfl
  have hm1 : ∀ x ∈ [m], x.ty ≠ .wait := by simpa using hm
  rw [e1, R_append, R_append, R_append, e2, R_append, totalWait_nowait q hq, totalWait_nowait [m] hm1]
  simp only [Int.add_zero]
  congr 1
  by_cases hmk : Kev k m
  · have := hk hmk.1
    rw [R_skip k a q _ this, R_skip k a q _ this]
  · have hs : ∀ x ∈ [m], ¬ Kev k x := by simpa using hmk
    rw [R_skip k a [m] _ hs, R_skip k a [m] _ hs]

theorem R_move_wait (k : Int × Int) (a : Int) (q w : List Msg) (m : Msg) (st : Option Msg × List Note)
    (hq : ∀ x ∈ q, x.ty ≠ .wait) (hm : m.ty = .wait) (h0 : q ≠ [] → m.time = 0) :
    R k a (m :: (q ++ w)) st = R k a (q ++ m :: w) st := by
  rw [R_cons_wait k a m _ st hm, R_append, R_append, totalWait_nowait q hq, R_cons_wait k _ m _ _ hm]
  by_cases hqe : q = []
  · subst hqe; simp [R_nil]
  · rw [h0 hqe]; simp

/-- alternation does not look at waits or time stamps -/
theorem altRun_events (k : Int × Int) (a : Int) (l : List Msg) (b : Bool) :
    altRun k b (eventsRelGo a l) = altRun k b l := by
  induction l generalizing a b with
  | nil => rfl
  | cons m ms ih =>
    by_cases hw : m.ty = .wait
    · have hnk : ¬ Kev k m := by rintro ⟨_, c | c⟩ <;> simp [hw] at c
      rw [eventsRelGo_cons_wait a m ms hw, altRun_cons_skip k b m ms hnk]; exact ih _ _
    · rw [eventsRelGo_cons_nowait a m ms hw]
      show altRun k b (stamp a m :: _) = _
      rcases kev_cases k m with h | h | h
      · rw [altRun_cons_on k b m ms h, altRun_cons_on k b (stamp a m) _ h]
        cases b <;> simp [ih]
      · rw [altRun_cons_off k b m ms h, altRun_cons_off k b (stamp a m) _ h]
        cases b <;> simp [ih]
      · rw [altRun_cons_skip k b m ms h, altRun_cons_skip k b (stamp a m) _ h]
        exact ih _ _

/-- the waiting note-on follows the open flag of the alternation -/
theorem nkEnd_isSome (k : Int × Int) (l : List Msg) (b b' : Bool) (o : Option Msg)
    (h : altRun k b l = some b') (ho : o.isSome = b) : (nkEnd k l o).isSome = b' := by
  induction l generalizing b o with
  | nil => simp only [altRun, Option.some.injEq] at h; subst h; exact ho
  | cons m ms ih =>
    rcases kev_cases k m with h1 | h1 | h1
    · rw [altRun_cons_on k b m ms h1] at h
      cases b with
      | true => simp at h
      | false => rw [nkEnd_cons_on k m ms o h1]; exact ih true (some m) (by simpa using h) rfl
    · rw [altRun_cons_off k b m ms h1] at h
      cases b with
      | false => simp at h
      | true => rw [nkEnd_cons_off k m ms o h1]; exact ih false none (by simpa using h) rfl
    · rw [altRun_cons_skip k b m ms h1] at h
      rw [nkEnd_cons_skip k m ms o h1]; exact ih b o h ho

/-! ### dictionary facts -/

theorem mem_set_self {κ ν : Type} [DecidableEq κ] (d : Assoc κ ν) (k : κ) (v : ν) : (k, v) ∈ d.set k v := by
  induction d with
  | nil => simp [Assoc.set]
  | cons x rest ih =>
    obtain ⟨k', w⟩ := x
    simp only [Assoc.set]
    split
    · rename_i h; subst h; simp
    · exact List.mem_cons_of_mem _ ih

theorem mem_set_other {κ ν : Type} [DecidableEq κ] (d : Assoc κ ν) (k : κ) (v : ν) (x : κ × ν) (hx : x ∈ d)
    (hk : x.1 ≠ k) : x ∈ d.set k v := by
  induction d with
  | nil => cases hx
  | cons y rest ih =>
    obtain ⟨k', w⟩ := y
    simp only [Assoc.set]
    split
    · rename_i h
      rcases List.mem_cons.1 hx with rfl | hx
      · exact absurd h hk
      · exact List.mem_cons_of_mem _ hx
    · rcases List.mem_cons.1 hx with rfl | hx
      · exact List.mem_cons_self
      · exact List.mem_cons_of_mem _ (ih hx)

theorem mem_erase_other {κ ν : Type} [DecidableEq κ] (d : Assoc κ ν) (k : κ) (x : κ × ν) (hx : x ∈ d)
    (hk : x.1 ≠ k) : x ∈ d.erase k := by
  induction d with
  | nil => cases hx
  | cons y rest ih =>
    obtain ⟨k', w⟩ := y
    simp only [Assoc.erase]
    split
    · rename_i h
      rcases List.mem_cons.1 hx with rfl | hx
      · exact absurd h hk
      · exact hx
    · rcases List.mem_cons.1 hx with rfl | hx
      · exact List.mem_cons_self
      · exact List.mem_cons_of_mem _ (ih hx)

theorem opens_unique {opens : Assoc (Int × Int) Msg} (h : OpensOK opens) {x y : (Int × Int) × Msg}
    (hx : x ∈ opens) (hy : y ∈ opens) (hk : x.1 = y.1) : x = y := by
  have hnd := h.nodup
  unfold keys at hnd
  induction opens with
  | nil => cases hx
  | cons z rest ih =>
    simp only [List.map_cons, List.nodup_cons] at hnd
    rcases List.mem_cons.1 hx with hxz | hx'
    · rcases List.mem_cons.1 hy with hyz | hy'
      · rw [hxz, hyz]
      · exact absurd (by rw [← hxz, hk]; exact List.mem_map_of_mem (f := Prod.fst) hy') hnd.1
    · rcases List.mem_cons.1 hy with hyz | hy'
      · exact absurd (by rw [← hyz, ← hk]; exact List.mem_map_of_mem (f := Prod.fst) hx') hnd.1
      · exact ih h.tail hx' hy' hnd.2

/-! ### the note invariant of the inner loop, and an induction principle carrying it -/

/-- `A` = clock at the start of this run of the inner loop, `c` = its capacity -/
structure AltPB (B : List Int) (A c rem : Int) (s : SplitSt) : Prop where
  ok : OpensOK s.opens
  key : ∀ k, KeyInvB B k (A + c - rem) rem s

/-- `clk` = clock at the start of the working memory -/
structure AltOB (B : List Int) (clk : Int) (s : SplitSt) : Prop where
  ok : OpensOK s.opens
  key : ∀ k, OuterKeyB B k clk s

theorem splitInner_invBAB (A c : Int) (hb : A + c ∈ B) (P : Int → SplitSt → Prop) (Q : SplitSt → Prop)
    (h_nil : ∀ rem cur queue opens pieces, Base c rem ⟨[], cur, queue, opens, pieces⟩ →
      AltPB B A c rem ⟨[], cur, queue, opens, pieces⟩ →
      P rem ⟨[], cur, queue, opens, pieces⟩ →
      Q ⟨[], [], [], opens, if cur = [] then pieces else cur.reverse :: pieces⟩)
    (h_push : ∀ rem m wm cur opens pieces, Base c rem ⟨m :: wm, cur, [], opens, pieces⟩ →
      AltPB B A c rem ⟨m :: wm, cur, [], opens, pieces⟩ →
      P rem ⟨m :: wm, cur, [], opens, pieces⟩ →
      m.ty ≠ .noteOff → m.ty ≠ .wait → 0 < rem →
      P rem ⟨wm, m :: cur, [], if m.ty = .noteOn then opens.set m.nkey m else opens, pieces⟩)
    (h_defer : ∀ m wm cur queue opens pieces, Base c 0 ⟨m :: wm, cur, queue, opens, pieces⟩ →
      AltPB B A c 0 ⟨m :: wm, cur, queue, opens, pieces⟩ →
      P 0 ⟨m :: wm, cur, queue, opens, pieces⟩ →
      m.ty ≠ .noteOff → m.ty ≠ .wait →
      P 0 ⟨wm, cur, m :: queue, opens, pieces⟩)
    (h_off : ∀ rem m wm cur queue opens pieces, Base c rem ⟨m :: wm, cur, queue, opens, pieces⟩ →
      AltPB B A c rem ⟨m :: wm, cur, queue, opens, pieces⟩ →
      P rem ⟨m :: wm, cur, queue, opens, pieces⟩ →
      m.ty = .noteOff →
      P rem ⟨wm, m :: cur, queue, opens.erase m.nkey, pieces⟩)
    (h_fit : ∀ rem m wm cur queue opens pieces, Base c rem ⟨m :: wm, cur, queue, opens, pieces⟩ →
      AltPB B A c rem ⟨m :: wm, cur, queue, opens, pieces⟩ →
      P rem ⟨m :: wm, cur, queue, opens, pieces⟩ →
      m.ty = .wait → m.time ≤ rem → 0 ≤ m.time → (queue ≠ [] → m.time = 0) →
      P (rem - m.time) ⟨wm, m :: cur, queue, opens, pieces⟩)
    (h_split : ∀ rem m wm cur queue opens pieces, Base c rem ⟨m :: wm, cur, queue, opens, pieces⟩ →
      AltPB B A c rem ⟨m :: wm, cur, queue, opens, pieces⟩ →
      P rem ⟨m :: wm, cur, queue, opens, pieces⟩ →
      m.ty = .wait → rem < m.time →
      Q ⟨carried rem m wm queue opens, [], [], opens,
         if closedPiece rem m cur opens = [] then pieces else closedPiece rem m cur opens :: pieces⟩) :
    ∀ fuel rem s s', Base c rem s → AltPB B A c rem s → P rem s → splitInner fuel rem s = .ok s' → Q s' := by
  intro fuel rem s s' hB hA hP h
  refine splitInner_invB c (fun rem s => AltPB B A c rem s ∧ P rem s) Q ?_ ?_ ?_ ?_ ?_ ?_ fuel rem s s' hB ⟨hA, hP⟩ h
  · intro rem cur queue opens pieces hB ⟨hA, hP⟩
    exact h_nil _ _ _ _ _ hB hA hP
  · intro rem m wm cur opens pieces hB ⟨hA, hP⟩ h1 h2 h3
    refine ⟨⟨?_, fun k => (hA.key k).push h1 h2⟩, h_push _ _ _ _ _ _ hB hA hP h1 h2 h3⟩
    simp only
    split
    · exact hA.ok.set m
    · exact hA.ok
  · intro m wm cur queue opens pieces hB ⟨hA, hP⟩ h1 h2
    exact ⟨⟨hA.ok, fun k => (hA.key k).defer⟩, h_defer _ _ _ _ _ _ hB hA hP h1 h2⟩
  · intro rem m wm cur queue opens pieces hB ⟨hA, hP⟩ h1
    refine ⟨⟨hA.ok.erase _, fun k => (hA.key k).off h1 hA.ok hB.q_nowait hB.q_nooff ?_⟩,
      h_off _ _ _ _ _ _ _ hB hA hP h1⟩
    intro hq
    have hr : rem = 0 := hB.q_rem hq
    subst hr
    simpa using hb
  · intro rem m wm cur queue opens pieces hB ⟨hA, hP⟩ h1 h2 h3 h4
    refine ⟨⟨hA.ok, fun k => ?_⟩, h_fit _ _ _ _ _ _ _ hB hA hP h1 h2 h3 h4⟩
    have e : A + c - (rem - m.time) = A + c - rem + m.time := by omega
    rw [e]
    exact (hA.key k).fit h1 h4
  · intro rem m wm cur queue opens pieces hB ⟨hA, hP⟩ h1 h2
    exact h_split _ _ _ _ _ _ _ hB hA hP h1 h2

theorem AltOB.wf {clk : Int} {s : SplitSt} (h : AltOB B clk s) : WF s.wm := by
  rw [wf_iff]
  intro k
  rcases (h.key k).2 with ⟨_, h2⟩ | ⟨_, h2⟩
  · exact h2
  · exact staleOK_alt k _ h2

/-- the note-on waiting after the current piece is recorded in the dictionary, and was struck before the boundary -/
def VInv (k : Int × Int) (A bnd : Int) (cur : List Msg) (opens : Assoc (Int × Int) Msg) : Prop :=
  ∀ on0, (R k A cur.reverse (none, [])).1 = some on0 →
    on0.time < bnd ∧ ∃ kv ∈ opens, kv.1 = k ∧ kv.2.ch = on0.ch ∧ kv.2.note = on0.note ∧ kv.2.vel = on0.vel

/-- what one run of the inner loop gives: the state invariant for the next run, the (at most one) new piece is
    well-formed, the depth at every tick is unchanged, and the notes of every key are those of the working memory
    cut at the boundary `A + c` -/
def NotesQB (B : List Int) (k : Int × Int) (t A c : Int) (wm0 : List Msg) (pieces0 : List (List Msg)) (s' : SplitSt) : Prop :=
  AltOB B (A + c) s' ∧ ∃ np : List (List Msg), s'.pieces = np ++ pieces0 ∧ np.length ≤ 1 ∧
    (∀ p ∈ np, WF p ∧ NonNegWaits p) ∧
    (∀ d, Dp k t A (np.flatten ++ s'.wm) d = Dp k t A wm0 d) ∧
    (R k A (np.flatten ++ s'.wm) (none, [])).2 = ((R k A wm0 (none, [])).2).flatMap (cut1 (A + c))

theorem R_snd_eq (k : Int × Int) (a : Int) (l : List Msg) (o : Option Msg) (N : List Note) :
    (R k a l (o, N)).2 = N ++ nkNotes k (eventsRelGo a l) o := rfl

theorem R_fst_eq (k : Int × Int) (a : Int) (l : List Msg) (o : Option Msg) (N : List Note) :
    (R k a l (o, N)).1 = nkEnd k (eventsRelGo a l) o := rfl

/-- notes read from clock `a` on with nothing waiting start at or after `a` -/
theorem R_notes_on_ge (k : Int × Int) (a : Int) (l : List Msg) (hl : NonNegWaits l) :
    ∀ n ∈ nkNotes k (eventsRelGo a l) none, a ≤ n.on :=
  nkNotes_on_ge k a _ none (fun e he => (eventsRelGo_bounds l a hl e he).1) (by intro on hon; cases hon)

/-- … and end by the final clock -/
theorem R_notes_off_le (k : Int × Int) (a : Int) (l : List Msg) (hl : NonNegWaits l) (o : Option Msg) :
    ∀ n ∈ nkNotes k (eventsRelGo a l) o, n.off ≤ a + totalWait l :=
  nkNotes_off_le k _ _ o (fun e he => (eventsRelGo_bounds l a hl e he).2)

theorem splitInner_notesB (k : Int × Int) (t c A : Int) (hc : 0 < c) (hb : A + c ∈ B) (fuel : Nat) (s s' : SplitSt)
    (hcur : s.cur = []) (hq : s.queue = []) (hw : NonNegWaits s.wm) (hA : AltOB B A s)
    (h : splitInner fuel c s = .ok s') : NotesQB B k t A c s.wm s.pieces s' := by
  refine splitInner_invBAB A c hb
    (fun _ s0 => s0.pieces = s.pieces
      ∧ (∀ d, Dp k t A (s0.cur.reverse ++ (s0.queue.reverse ++ s0.wm)) d = Dp k t A s.wm d)
      ∧ R k A (s0.cur.reverse ++ (s0.queue.reverse ++ s0.wm)) (none, []) = R k A s.wm (none, [])
      ∧ VInv k A (A + c) s0.cur s0.opens)
    (NotesQB B k t A c s.wm s.pieces) ?_ ?_ ?_ ?_ ?_ ?_ fuel c s s' (base_init c hc s hcur hq hw)
    ⟨hA.ok, fun k' => ?_⟩ ⟨rfl, by simp [hcur, hq], by simp [hcur, hq], ?_⟩ h
  · -- end of input
    intro rem cur queue opens pieces hB hA ⟨hp, hD, hR, hV⟩
    simp only [List.append_nil] at hp hD hR
    have hfl : (if cur = [] then [] else [cur.reverse]).flatten = cur.reverse := by
      split
      · rename_i h0; simp [h0]
      · simp
    have hex := fun k => (hA.key k).nil_exit hB.q_nooff
    have hnn : NonNegWaits cur.reverse := by
      intro x hx; exact hB.nnc x (by simpa using hx)
    refine ⟨⟨hA.ok, ?_⟩, (if cur = [] then [] else [cur.reverse]), ?_, ?_, ?_, ?_, ?_⟩
    · intro k'
      exact ⟨trivial, Or.inl ⟨(hex k').2.2, rfl⟩⟩
    · simp only [hp]; split <;> simp
    · split <;> simp
    · intro p hp
      split at hp
      · simp at hp
      · simp only [List.mem_singleton] at hp
        subst hp
        exact ⟨by rw [wf_iff]; exact fun k' => (hex k').1, hnn⟩
    · intro d
      rw [hfl, ← hD d, List.append_nil, Dp_append k t A cur.reverse queue.reverse,
        Dp_nowait_skip k t _ queue.reverse _ (by simpa using hB.q_nowait) (by simpa using (hex k).2.1)]
    · rw [hfl, ← hR, List.append_nil, R_append k A cur.reverse queue.reverse,
        R_skip k _ queue.reverse _ (by simpa using (hex k).2.1), R_snd_eq, List.nil_append]
      refine (flatMap_cut1_id _ _ ?_).symm
      intro n hn
      have := R_notes_off_le k A cur.reverse hnn none n hn
      have htc := hB.tw_cur
      have hr0 := hB.rem_nonneg
      simp only at htc
      rw [totalWait_reverse] at this
      left; omega
  · -- push
    intro rem m wm cur opens pieces hB hA ⟨hp, hD, hR, hV⟩ hnoff hnw hrem
    refine ⟨hp, by simpa using hD, by simpa using hR, ?_⟩
    intro on0 hon0
    simp only [List.reverse_cons] at hon0
    rw [R_append, R_cons_nowait k _ m [] _ hnw, R_nil] at hon0
    have htc := hB.tw_cur
    simp only at htc
    rcases kev_cases k m with h1 | h1 | h1
    · rw [nkRun_single_on k (stamp (A + totalWait cur.reverse) m) _ h1] at hon0
      simp only [Option.some.injEq] at hon0
      subst hon0
      refine ⟨by rw [stamp_time, totalWait_reverse]; omega, (m.nkey, m), ?_, h1.1, rfl, rfl, rfl⟩
      rw [if_pos h1.2]
      exact mem_set_self _ _ _
    · exact absurd h1.2 hnoff
    · rw [nkRun_single_skip k (stamp (A + totalWait cur.reverse) m) _ h1] at hon0
      obtain ⟨hlt, kv, hkv, hkk, hf⟩ := hV on0 hon0
      refine ⟨hlt, kv, ?_, hkk, hf⟩
      split
      · rename_i hty
        exact mem_set_other _ _ _ kv hkv (by rw [hkk]; intro e; exact h1 ⟨e.symm, Or.inl hty⟩)
      · exact hkv
  · -- defer
    intro m wm cur queue opens pieces hB hA ⟨hp, hD, hR, hV⟩ _ _
    exact ⟨hp, by simpa using hD, by simpa using hR, hV⟩
  · -- note-off
    intro rem m wm cur queue opens pieces hB hA ⟨hp, hD, hR, hV⟩ hm
    have hqnw : ∀ x ∈ queue.reverse, x.ty ≠ .wait := by simpa using hB.q_nowait
    have hmove : m.nkey = k → ∀ x ∈ queue.reverse, ¬ Kev k x := by
      intro hk x hx
      have hqe : queue ≠ [] := by intro h0; subst h0; simp at hx
      have hz := (hA.key k).1
      simp only at hz
      have hr : rem = 0 := hB.q_rem hqe
      have hcB : A + c - rem ∈ B := by subst hr; simpa using hb
      have := zlB_queue_noon k _ _ _ _ m hqnw ⟨hk, hm⟩ hcB hz x hx
      exact not_kev_of this (fun h => hB.q_nooff x (by simpa using hx) h.2)
    refine ⟨hp, ?_, ?_, ?_⟩
    · intro d
      rw [← hD d]
      simp only [List.reverse_cons, List.append_assoc, List.singleton_append]
      rw [Dp_append, Dp_append k t A cur.reverse]
      exact Dp_move_off k t _ _ _ m _ hqnw (by simp [hm]) hmove
    · rw [← hR]
      simp only [List.reverse_cons, List.append_assoc, List.singleton_append]
      rw [R_append, R_append k A cur.reverse]
      exact R_move_off k _ _ _ m _ hqnw (by simp [hm]) hmove
    · intro on0 hon0
      simp only [List.reverse_cons] at hon0
      rw [R_append, R_cons_nowait k _ m [] _ (by simp [hm]), R_nil] at hon0
      by_cases hk : m.nkey = k
      · rw [nkRun_single_off k (stamp (A + totalWait cur.reverse) m) _ ⟨hk, hm⟩] at hon0
        simp at hon0
      · rw [nkRun_single_skip k (stamp (A + totalWait cur.reverse) m) _ (fun h => hk h.1)] at hon0
        obtain ⟨hlt, kv, hkv, hkk, hf⟩ := hV on0 hon0
        exact ⟨hlt, kv, mem_erase_other _ _ kv hkv (by rw [hkk]; exact fun e => hk e.symm), hkk, hf⟩
  · -- wait that fits
    intro rem m wm cur queue opens pieces hB hA ⟨hp, hD, hR, hV⟩ hm _ _ h0
    have hqnw : ∀ x ∈ queue.reverse, x.ty ≠ .wait := by simpa using hB.q_nowait
    refine ⟨hp, ?_, ?_, ?_⟩
    · intro d
      rw [← hD d]
      simp only [List.reverse_cons, List.append_assoc, List.singleton_append]
      rw [Dp_append, Dp_append k t A cur.reverse]
      exact Dp_move_wait k t _ _ _ m _ hqnw hm (by simpa using h0)
    · rw [← hR]
      simp only [List.reverse_cons, List.append_assoc, List.singleton_append]
      rw [R_append, R_append k A cur.reverse]
      exact R_move_wait k _ _ _ m _ hqnw hm (by simpa using h0)
    · intro on0 hon0
      simp only [List.reverse_cons] at hon0
      rw [R_append, R_cons_wait k _ m [] _ hm, R_nil] at hon0
      exact hV on0 hon0
  · -- wait that does not fit
    intro rem m wm cur queue opens pieces hB hA ⟨hp, hD, hR, hV⟩ hm hr
    simp only at hp hD hR hV
    have hqnw : ∀ x ∈ queue.reverse, x.ty ≠ .wait := by simpa using hB.q_nowait
    have hqw := totalWait_nowait queue.reverse hqnw
    have hoff := totalWait_nowait _ (map_offOf_nowait opens)
    have hon := totalWait_nowait _ (map_onOf_nowait opens)
    have htc := hB.tw_cur
    have hr0 := hB.rem_nonneg
    simp only at htc
    have hcp : totalWait (closedPiece rem m cur opens) = c := by
      unfold closedPiece
      rw [totalWait_append, totalWait_append, hoff, totalWait_reverse]
      split
      · simp [totalWait_mkWait, totalWait_nil]; omega
      · simp [totalWait_nil]; omega
    have hne : closedPiece rem m cur opens ≠ [] := by
      intro h0; rw [h0] at hcp; simp [totalWait] at hcp; omega
    have hex := fun k => (hA.key k).split_exit hm hr hr0 hA.ok hB.q_nowait hB.q_nooff
      (if closedPiece rem m cur opens = [] then pieces else closedPiece rem m cur opens :: pieces)
    have hnn : NonNegWaits cur.reverse := by
      intro x hx; exact hB.nnc x (by simpa using hx)
    have hnnwm : NonNegWaits wm := nonNegWaits_tail hB.nnw
    refine ⟨⟨hA.ok, fun k' => ?_⟩, [closedPiece rem m cur opens], by simp [hne, hp], by simp, ?_, ?_, ?_⟩
    · have e : A + c - rem + rem = A + c := by omega
      have := (hex k').2.1
      rw [e] at this
      exact this
    · intro p hp
      simp only [List.mem_singleton] at hp
      subst hp
      refine ⟨by rw [wf_iff]; exact fun k' => (hex k').1, ?_⟩
      unfold closedPiece
      rw [nonNegWaits_append, nonNegWaits_append]
      refine ⟨hnn, ?_, nonNegWaits_nowait _ (map_offOf_nowait opens)⟩
      split
      · intro x hx _
        simp only [List.mem_singleton] at hx
        subst hx
        simp only [Msg.mkWait]; omega
      · simp [NonNegWaits]
    · intro d
      rw [← hD d]
      simp only [List.flatten_cons, List.flatten_nil, List.append_nil]
      unfold closedPiece carried
      simp only [List.append_assoc]
      rw [Dp_append, Dp_append k t A cur.reverse]
      generalize hd1 : Dp k t A cur.reverse d = d1
      have hclock : ∀ l x, Dp k t (A + totalWait cur.reverse)
            ((if 0 < rem then [Msg.mkWait m.ch rem] else []) ++ l) x
          = Dp k t (A + totalWait cur.reverse + rem) l x := by
        intro l x
        split
        · simp [Dp_mkWait]
        · simp only [List.nil_append]; congr 1; omega
      rw [hclock, Dp_append, hoff, Dp_append, hqw, Dp_append, hon, Dp_mkWait,
        Dp_append k t _ queue.reverse, hqw, Dp_cons_wait k t _ m wm _ hm]
      simp only [Int.add_zero]
      rw [show A + totalWait cur.reverse + rem + (m.time - rem) = A + totalWait cur.reverse + m.time by omega]
      congr 1
      have hQ : ∀ x, Dp k t (A + totalWait cur.reverse) queue.reverse x
          = Dp k t (A + totalWait cur.reverse + rem) queue.reverse x := by
        intro x
        by_cases hqe : queue = []
        · subst hqe; simp [Dp_nil]
        · rw [hB.q_rem hqe]; simp
      rw [hQ]
      by_cases hlate : t < A + totalWait cur.reverse + rem
      · rw [Dp_nowait_late k t _ _ _ (map_onOf_nowait opens) hlate,
          Dp_nowait_late k t _ _ _ (map_offOf_nowait opens) hlate]
      · have hearly : A + totalWait cur.reverse + rem ≤ t := by omega
        rw [Dp_nowait_early k t _ _ _ (map_onOf_nowait opens) hearly,
          Dp_nowait_early k t _ _ _ (map_offOf_nowait opens) hearly,
          depth_ons k opens hA.ok, depth_offs k opens hA.ok]
        by_cases hk : k ∈ keys opens
        · simp only [hk, if_true]
          have hqk : ∀ x ∈ queue.reverse, ¬ Kev k x := by simpa using (hex k).2.2.1 hk
          rw [Dp_nowait_skip k t _ _ _ hqnw hqk, Dp_nowait_skip k t _ _ _ hqnw hqk]
          have hck := (hex k).2.2.2.1
          simp only [hk, decide_true] at hck
          rw [Dp_eq_depth k t A cur.reverse d hnn (by omega)] at hd1
          have := depth_alt k A cur.reverse false true d hck
          simp only [Bool.toNat_false, Bool.toNat_true, Nat.add_zero] at this
          omega
        · simp only [hk, if_false]
    · -- the notes of key `k`
      rw [← hR]
      simp only [List.flatten_cons, List.flatten_nil, List.append_nil]
      unfold closedPiece carried
      simp only [List.append_assoc]
      rw [R_append, R_append k A cur.reverse]
      generalize hstX : R k A cur.reverse (none, []) = stX
      obtain ⟨oX, NX⟩ := stX
      have hNX : NX = nkNotes k (eventsRelGo A cur.reverse) none := by
        have := congrArg Prod.snd hstX
        simpa [R_snd_eq] using this.symm
      have hoX : oX = nkEnd k (eventsRelGo A cur.reverse) none := by
        have := congrArg Prod.fst hstX
        simpa [R_fst_eq] using this.symm
      have hclk : A + totalWait cur.reverse + rem = A + c := by rw [totalWait_reverse]; omega
      have hNXid : NX.flatMap (cut1 (A + c)) = NX := by
        apply flatMap_cut1_id
        intro n hn
        rw [hNX] at hn
        have := R_notes_off_le k A cur.reverse hnn none n hn
        left; omega
      have hclock : ∀ l x, R k (A + totalWait cur.reverse)
            ((if 0 < rem then [Msg.mkWait m.ch rem] else []) ++ l) x
          = R k (A + c) l x := by
        intro l x
        rw [← hclk]
        split
        · simp [R_mkWait]
        · simp only [List.nil_append]; congr 1; omega
      rw [hclock, R_append, hoff, R_append, hqw, R_append, hon, R_mkWait,
        R_append k _ queue.reverse, hqw, R_cons_wait k _ m wm _ hm]
      simp only [Int.add_zero]
      have hT : A + totalWait cur.reverse + m.time = A + c + (m.time - rem) := by omega
      rw [hT]
      have hQ : ∀ x, R k (A + totalWait cur.reverse) queue.reverse x = R k (A + c) queue.reverse x := by
        intro x
        by_cases hqe : queue = []
        · subst hqe; simp [R_nil]
        · rw [← hclk, hB.q_rem hqe]; simp
      rw [hQ]
      have hwmlate : ∀ e ∈ eventsRelGo (A + c + (m.time - rem)) wm, A + c < e.time := by
        intro e he
        have := (eventsRelGo_bounds wm _ hnnwm e he).1
        omega
      by_cases hk : k ∈ keys opens
      · have hqk : ∀ x ∈ queue.reverse, ¬ Kev k x := by simpa using (hex k).2.2.1 hk
        have hck := (hex k).2.2.2.1
        have halt := (hex k).2.2.2.2
        simp only [hk, decide_true] at hck halt
        rw [altRun_skip_append k _ _ _ hqk,
          altRun_cons_skip k _ m _ (by rintro ⟨_, c | c⟩ <;> simp [hm] at c)] at halt
        have hsome : oX.isSome = true := by
          rw [hoX]
          exact nkEnd_isSome k _ false true none (by rw [altRun_events]; exact hck) rfl
        obtain ⟨on0, rfl⟩ := Option.isSome_iff_exists.1 hsome
        obtain ⟨hlt, kv', hkv', hkk', hf1, hf2, hf3⟩ := hV on0 (by rw [hstX])
        obtain ⟨kv, hkv, hkk, hRon⟩ := R_ons k (A + c) opens hA.ok
          (R k (A + c) queue.reverse (R k (A + c) (opens.map offOf) (some on0, NX))) hk
        have hkveq : kv = kv' := opens_unique hA.ok hkv hkv' (by rw [hkk, hkk'])
        subst hkveq
        rw [hRon, R_offs k _ opens hA.ok, if_pos hk, R_skip k _ _ _ hqk, R_skip k _ _ _ hqk]
        simp only [R_snd_eq, List.flatMap_append, hNXid]
        rw [nkNotes_cut_open k (A + c) on0 (stamp (A + c) (onOf kv)) _
          (by rw [altRun_events]; exact halt) hlt hwmlate
          (by intro t'; simp [mkN, stamp, onOf, hf1, hf2, hf3])]
        simp
      · have hck := (hex k).2.2.2.1
        simp only [hk, decide_false] at hck
        have hnone : oX = none := by
          have : oX.isSome = false := by
            rw [hoX]
            exact nkEnd_isSome k _ false false none (by rw [altRun_events]; exact hck) rfl
          cases oX with
          | none => rfl
          | some x => simp at this
        subst hnone
        rw [R_offs k _ opens hA.ok, if_neg hk, R_skip k _ (opens.map onOf) _ (ons_not_kev k opens hA.ok hk)]
        -- both sides are the run over `queue ++ carry wait ++ wm` from the boundary
        have hZ : ∀ x, R k (A + c + (m.time - rem)) wm (R k (A + c) queue.reverse x)
            = R k (A + c) (queue.reverse ++ Msg.mkWait m.ch (m.time - rem) :: wm) x := by
          intro x
          rw [R_append, hqw, R_mkWait]
          simp
        rw [hZ, R_snd_eq, List.flatMap_append, hNXid]
        congr 1
        refine (flatMap_cut1_id _ _ ?_).symm
        intro n hn
        right
        refine R_notes_on_ge k (A + c) _ ?_ n hn
        rw [nonNegWaits_append]
        refine ⟨nonNegWaits_nowait _ hqnw, ?_⟩
        intro x hx hxw
        rcases List.mem_cons.1 hx with rfl | hx
        · simp [Msg.mkWait]; omega
        · exact hnnwm x hx hxw
  · -- the initial state invariant
    have e : A + c - c = A := by omega
    rw [e]
    exact KeyInvB.init hc hcur hq (hA.key k')
  · intro on0 h0
    simp [hcur, R_nil] at h0

/-! ### notes through the outer loop -/

theorem cums_gt : ∀ (cs : List Int) (a : Int), (∀ c ∈ cs, 0 < c) → ∀ b ∈ cums a cs, a < b := by
  intro cs
  induction cs with
  | nil => intro a _ b hb; simp [cums] at hb
  | cons c cs ih =>
    intro a hpos b hb
    have hc := hpos c List.mem_cons_self
    simp only [cums, List.mem_cons] at hb
    rcases hb with rfl | hb
    · omega
    · have := ih (a + c) (fun x hx => hpos x (List.mem_cons_of_mem _ hx)) b hb
      omega

/-- a well-formed list leaves no note-on of `k` waiting -/
theorem nkEnd_wf (k : Int × Int) (a : Int) (p : List Msg) (hp : WF p) : nkEnd k (eventsRelGo a p) none = none := by
  have h1 := (wf_iff p).1 hp k
  have := nkEnd_isSome k (eventsRelGo a p) false false none (by rw [altRun_events]; exact h1) rfl
  cases h : nkEnd k (eventsRelGo a p) none with
  | none => rfl
  | some x => rw [h] at this; simp at this

/-- the notes of key `k` of a well-formed piece followed by more -/
theorem nkNotes_wf_append (k : Int × Int) (a : Int) (p y : List Msg) (hp : WF p) :
    nkNotes k (eventsRelGo a (p ++ y)) none
      = nkNotes k (eventsRelGo a p) none ++ nkNotes k (eventsRelGo (a + totalWait p) y) none := by
  rw [eventsRelGo_append, nkNotes_append, nkEnd_wf k a p hp]

theorem wf_flatten (ps : List (List Msg)) (h : ∀ p ∈ ps, WF p) : WF ps.flatten := by
  induction ps with
  | nil => exact SB.wf_nil
  | cons p ps ih =>
    rw [List.flatten_cons]
    exact SB.wf_append (h p List.mem_cons_self) (ih (fun q hq => h q (List.mem_cons_of_mem _ hq)))

theorem nnw_flatten (ps : List (List Msg)) (h : ∀ p ∈ ps, NonNegWaits p) : NonNegWaits ps.flatten := by
  induction ps with
  | nil => exact SB.nnw_nil
  | cons p ps ih =>
    rw [List.flatten_cons, nonNegWaits_append]
    exact ⟨h p List.mem_cons_self, ih (fun q hq => h q (List.mem_cons_of_mem _ hq))⟩

theorem splitOuter_notesB (k : Int × Int) (t : Int) : ∀ caps A (s s' : SplitSt), (∀ c ∈ caps, 0 < c) →
    (∀ b ∈ cums A caps, b ∈ B) →
    s.cur = [] → NonNegWaits s.wm → AltOB B A s → splitOuter caps s = .ok s' →
    s'.cur = [] ∧ WF s'.wm ∧ ∃ new : List (List Msg), s'.pieces = new.reverse ++ s.pieces ∧
      (∀ p ∈ new, WF p ∧ NonNegWaits p) ∧
      (∀ d, Dp k t A (new.flatten ++ s'.wm) d = Dp k t A s.wm d) ∧
      nkNotes k (eventsRelGo A (new.flatten ++ s'.wm)) none
        = cutNotes (cums A caps) (nkNotes k (eventsRelGo A s.wm) none) := by
  intro caps
  induction caps with
  | nil =>
    intro A s s' _ _ hc _ hA h
    simp only [splitOuter, Except.ok.injEq] at h
    subst h
    exact ⟨hc, hA.wf, [], by simp, by simp, by simp, by simp [cums, cutNotes]⟩
  | cons c cs ih =>
    intro A s s' hpos hB hc hw hA h
    simp only [splitOuter, bind, Except.bind] at h
    split at h
    · simp at h
    · rename_i s1 h1
      have hcp : 0 < c := hpos c List.mem_cons_self
      have hpos' : ∀ x ∈ cs, 0 < x := fun x hx => hpos x (List.mem_cons_of_mem _ hx)
      have hbc : A + c ∈ B := hB _ (by simp [cums])
      have hB' : ∀ b ∈ cums (A + c) cs, b ∈ B := fun b hb => hB b (by simp [cums, hb])
      obtain ⟨hc1, hq1, hw1, np, hp1, hl1, ht1, _, hd1⟩ :=
        splitInner_timing c A hcp _ { s with queue := [] } s1 hc rfl hw h1
      obtain ⟨hA1, np', hp1', _, hwf1, hD1, hN1⟩ :=
        splitInner_notesB k t c A hcp hbc _ { s with queue := [] } s1 hc rfl hw ⟨hA.ok, hA.key⟩ h1
      simp only at hp1 hp1' ht1 hd1 hD1 hN1
      have hnp : np' = np := by
        rw [hp1] at hp1'
        exact (List.append_cancel_right hp1').symm
      subst hnp
      rw [R_snd_eq, R_snd_eq, List.nil_append, List.nil_append] at hN1
      have hwfnp : WF np'.flatten := wf_flatten np' (fun p hp => (hwf1 p hp).1)
      have hnnnp : NonNegWaits np'.flatten := nnw_flatten np' (fun p hp => (hwf1 p hp).2)
      rcases hd1 with ⟨p, rfl, hpc, _⟩ | ⟨hwm1, _⟩
      · -- the piece was filled
        obtain ⟨hc2, hwf2, new, hp2, hwfn2, hD2, hN2⟩ := ih (A + c) s1 s' hpos' hB' hc1 hw1 hA1 h
        have hfl : [p].flatten = p := by simp
        rw [hfl] at hN1 hwfnp hnnnp hD1
        refine ⟨hc2, hwf2, p :: new, by rw [hp2, hp1]; simp, ?_, ?_, ?_⟩
        · intro q hq
          rcases List.mem_cons.1 hq with rfl | hq
          · exact hwf1 _ (by simp)
          · exact hwfn2 q hq
        · intro d
          simp only [List.flatten_cons, List.append_assoc]
          rw [Dp_append, hpc, hD2, ← hpc, ← Dp_append, hD1]
        · simp only [List.flatten_cons, List.append_assoc, cums, cutNotes]
          rw [← hN1, nkNotes_wf_append k A p _ hwfnp, nkNotes_wf_append k A p _ hwfnp, hpc, hN2,
            cutNotes_append, cutNotes_id _ (nkNotes k (eventsRelGo A p) none)]
          intro n hn b hb
          have h1 := R_notes_off_le k A p hnnnp none n hn
          have h2 := cums_gt cs (A + c) hpos' b hb
          left; omega
      · -- the input ended
        obtain ⟨hwm2, hc2, hp2, _⟩ := splitOuter_wm_nil cs s1 s' hwm1 hc1 h
        have hrev : np'.reverse = np' := reverse_short np' hl1
        have hle : totalWait np'.flatten ≤ c := by
          rcases SB.splitInner_len c hcp _ { s with queue := [] } s1 hc rfl hw h1 with ⟨_, hle⟩ | ⟨hne, _⟩
          · simp only at hle
            rw [hwm1, List.append_nil] at ht1
            omega
          · exact absurd hwm1 hne
        refine ⟨hc2, by rw [hwm2]; exact SB.wf_nil, np', by rw [hp2, hp1, hrev], hwf1, ?_, ?_⟩
        · intro d
          rw [hwm2, ← hwm1]; exact hD1 d
        · simp only [cums, cutNotes]
          rw [← hN1, hwm2, hwm1, cutNotes_id]
          intro n hn b hb
          rw [List.append_nil] at hn
          have h1 := R_notes_off_le k A _ hnnnp none n hn
          have h2 := cums_gt cs (A + c) hpos' b hb
          left; omega

theorem AltOB.init (A : Int) (r : List Msg) (hwf : WF r) (hz : ∀ k, zlB B k false A r) : AltOB B A { wm := r } := by
  refine ⟨⟨by simp [keys], by simp⟩, ?_⟩
  intro k
  exact ⟨hz k, Or.inl ⟨by simp [keys], (wf_iff r).1 hwf k⟩⟩

/-! ### `nkNotes` against the specification-side `notesOf` -/

/-- the test "note `n` has key `k`" -/
def keyIs (k : Int × Int) (n : Note) : Bool := decide ((n.ch, n.pitch) = k)

/-- the notes of key `k` among the notes of an event list are `nkNotes k` -/
theorem notesGo_key (k : Int × Int) : ∀ (l os : List Msg),
    (notesGo l os).filter (keyIs k) = nkNotes k l (os.find? (fun o => o.nkey == k)) := by
  intro l
  induction l with
  | nil => intro os; rfl
  | cons x xs ih =>
    intro os
    by_cases hon : x.ty = .noteOn
    · simp only [notesGo, hon, beq_self_eq_true, if_true]
      by_cases hk : x.nkey = k
      · rw [nkNotes_cons_on k x xs _ ⟨hk, hon⟩, ih]
        have : (x.nkey == k) = true := by simpa using hk
        simp [this]
      · rw [nkNotes_cons_skip k x xs _ (fun h => hk h.1), ih]
        have : (x.nkey == k) = false := by simpa using hk
        rw [List.find?_cons, this]
        exact congrArg _ (NotesL.find_filter_ne os k x.nkey (fun e => hk e.symm))
    · by_cases hoff : x.ty = .noteOff
      · simp only [notesGo, hoff, beq_self_eq_true, Bool.false_eq_true, if_false, if_true,
          show (MType.noteOff == MType.noteOn) = false from rfl]
        by_cases hk : x.nkey = k
        · rw [nkNotes_cons_off k x xs _ ⟨hk, hoff⟩, hk]
          cases hf : os.find? (fun o => o.nkey == k) with
          | none => simp only [List.nil_append]; rw [ih, hf]
          | some o =>
            have hok : o.nkey = k := by simpa using List.find?_some hf
            have hkeep : keyIs k { ch := o.ch, pitch := o.note, on := o.time, off := x.time, vel := o.vel } = true := by
              simp only [keyIs, decide_eq_true_eq]; exact hok
            simp only [List.filter_cons, hkeep, if_true, List.singleton_append]
            rw [ih, NotesL.find_filter_self]
            rfl
        · rw [nkNotes_cons_skip k x xs _ (fun h => hk h.1)]
          cases hf : os.find? (fun o => o.nkey == x.nkey) with
          | none => simp only []; exact ih os
          | some o =>
            have hok : o.nkey = x.nkey := by simpa using List.find?_some hf
            have hdrop : keyIs k { ch := o.ch, pitch := o.note, on := o.time, off := x.time, vel := o.vel } = false := by
              simp only [keyIs, decide_eq_false_iff_not]
              exact fun h => hk (hok.symm.trans h)
            simp only [List.filter_cons, hdrop, Bool.false_eq_true, if_false]
            rw [ih]
            exact congrArg _ (NotesL.find_filter_ne os k x.nkey (fun e => hk e.symm))
      · have h1 : (x.ty == .noteOn) = false := by simpa using hon
        have h2 : (x.ty == .noteOff) = false := by simpa using hoff
        simp only [notesGo, h1, h2, Bool.false_eq_true, if_false]
        rw [nkNotes_cons_skip k x xs _ (by rintro ⟨_, c | c⟩ <;> contradiction)]
        exact ih os

theorem notesOf_key (k : Int × Int) (evs : List Msg) : (notesOf evs).filter (keyIs k) = nkNotes k evs none :=
  notesGo_key k evs []

theorem mem_notesOf_of_nk {k : Int × Int} {evs : List Msg} {n : Note} (h : n ∈ nkNotes k evs none) :
    n ∈ notesOf evs := by
  rw [← notesOf_key] at h
  exact (List.mem_filter.1 h).1

theorem mem_nk_of_notesOf {evs : List Msg} {n : Note} (h : n ∈ notesOf evs) :
    n ∈ nkNotes (n.ch, n.pitch) evs none := by
  rw [← notesOf_key]
  exact List.mem_filter.2 ⟨h, by simp [keyIs]⟩

/-- two note lists that agree key by key are permutations of each other -/
theorem perm_of_keys (N M : List Note) (h : ∀ k, N.filter (keyIs k) = M.filter (keyIs k)) : N.Perm M := by
  rw [List.perm_iff_count]
  intro n
  have hp : keyIs (n.ch, n.pitch) n = true := by simp [keyIs]
  rw [← List.count_filter hp, ← List.count_filter (l := M) hp, h]

theorem cut1_key (k : Int × Int) (b : Int) (n : Note) : ∀ n' ∈ cut1 b n, keyIs k n' = keyIs k n := by
  intro n' hn'
  unfold cut1 at hn'
  split at hn'
  · simp only [List.mem_cons, List.not_mem_nil, or_false] at hn'
    rcases hn' with rfl | rfl <;> rfl
  · simp only [List.mem_singleton] at hn'; subst hn'; rfl

theorem flatMap_cut1_filter (k : Int × Int) (b : Int) (N : List Note) :
    (N.flatMap (cut1 b)).filter (keyIs k) = (N.filter (keyIs k)).flatMap (cut1 b) := by
  induction N with
  | nil => rfl
  | cons n ns ih =>
    rw [List.flatMap_cons, List.filter_append, ih, List.filter_cons]
    have hall := cut1_key k b n
    by_cases hk : keyIs k n = true
    · rw [if_pos hk, List.flatMap_cons]
      congr 1
      exact List.filter_eq_self.2 (fun x hx => by rw [hall x hx]; exact hk)
    · rw [if_neg hk]
      have : (cut1 b n).filter (keyIs k) = [] :=
        List.filter_eq_nil_iff.2 (fun x hx => by rw [hall x hx]; exact hk)
      rw [this, List.nil_append]

theorem cutNotes_filter (k : Int × Int) (bs : List Int) (N : List Note) :
    (cutNotes bs N).filter (keyIs k) = cutNotes bs (N.filter (keyIs k)) := by
  induction bs generalizing N with
  | nil => rfl
  | cons b bs ih => simp only [cutNotes, ih, flatMap_cut1_filter]

/-! ### the input-level hypothesis gives `zlB` -/

theorem zlB_of_notes (k : Int × Int) : ∀ (l : List Msg) (clk : Int) (fresh : Bool) (o : Option Msg), NonNegWaits l →
    (fresh = true → ∃ on0, o = some on0 ∧ on0.time = clk) →
    (∀ n ∈ nkNotes k (eventsRelGo clk l) o, n.on = n.off → n.on ∉ B) → zlB B k fresh clk l := by
  intro l
  induction l with
  | nil => intro clk fresh o _ _ _; trivial
  | cons m ms ih =>
    intro clk fresh o hnn hfr hN
    have hnn' : NonNegWaits ms := nonNegWaits_tail hnn
    by_cases hw : m.ty = .wait
    · rw [zlB_cons_wait k _ _ m ms hw]
      rw [eventsRelGo_cons_wait clk m ms hw] at hN
      refine ih _ _ o hnn' ?_ hN
      intro hf
      simp only [Bool.and_eq_true, decide_eq_true_eq] at hf
      obtain ⟨on0, ho, ht⟩ := hfr hf.1
      have := hnn m List.mem_cons_self hw
      exact ⟨on0, ho, by omega⟩
    · rw [eventsRelGo_cons_nowait clk m ms hw] at hN
      change ∀ n ∈ nkNotes k (stamp clk m :: eventsRelGo clk ms) o, _ at hN
      rcases kev_cases k m with h | h | h
      · rw [zlB_cons_on k _ _ m ms h]
        rw [nkNotes_cons_on k (stamp clk m) _ _ h] at hN
        exact ih _ _ (some (stamp clk m)) hnn' (fun _ => ⟨_, rfl, rfl⟩) hN
      · rw [zlB_cons_off k _ _ m ms h]
        rw [nkNotes_cons_off k (stamp clk m) _ _ h] at hN
        refine ⟨?_, ih _ _ none hnn' (by simp) (fun n hn => hN n (List.mem_append_right _ hn))⟩
        intro hf
        obtain ⟨on0, ho, ht⟩ := hfr hf
        subst ho
        have := hN (mkN on0 clk) (List.mem_append_left _ (by simp [stamp_time])) (by simp [mkN, ht])
        simpa [mkN, ht] using this
      · rw [zlB_cons_skip k _ _ m ms hw h]
        rw [nkNotes_cons_skip k (stamp clk m) _ _ h] at hN
        exact ih _ _ o hnn' hfr hN

/-! ### fragments -/

/-- `n'` is a piece of `n`: same channel, pitch and velocity, inside `n`, and it starts where `n` starts or
    while `n` is sounding -/
def Frag (n n' : Note) : Prop :=
  n'.ch = n.ch ∧ n'.pitch = n.pitch ∧ n'.vel = n.vel ∧ n.on ≤ n'.on ∧ n'.off ≤ n.off ∧ (n'.on = n.on ∨ n'.on < n.off)

theorem Frag.refl (n : Note) : Frag n n := ⟨rfl, rfl, rfl, Int.le_refl _, Int.le_refl _, Or.inl rfl⟩

theorem Frag.trans {a b c : Note} (h1 : Frag a b) (h2 : Frag b c) : Frag a c := by
  obtain ⟨a1, a2, a3, a4, a5, a6⟩ := h1
  obtain ⟨b1, b2, b3, b4, b5, b6⟩ := h2
  refine ⟨b1.trans a1, b2.trans a2, b3.trans a3, by omega, by omega, ?_⟩
  omega

theorem cut1_frag (b : Int) (n : Note) : ∀ n' ∈ cut1 b n, Frag n n' := by
  intro n' hn'
  unfold cut1 at hn'
  split at hn'
  · rename_i hc
    simp only [List.mem_cons, List.not_mem_nil, or_false] at hn'
    rcases hn' with rfl | rfl
    · exact ⟨rfl, rfl, rfl, Int.le_refl _, by simp; omega, Or.inl rfl⟩
    · exact ⟨rfl, rfl, rfl, by simp; omega, Int.le_refl _, Or.inr (by simp; omega)⟩
  · simp only [List.mem_singleton] at hn'; subst hn'; exact Frag.refl _

theorem cutNotes_frag (bs : List Int) : ∀ (N : List Note), ∀ n' ∈ cutNotes bs N, ∃ n ∈ N, Frag n n' := by
  induction bs with
  | nil => intro N n' hn'; exact ⟨n', hn', Frag.refl _⟩
  | cons b bs ih =>
    intro N n' hn'
    obtain ⟨n1, hn1, hf1⟩ := ih _ n' hn'
    obtain ⟨n, hn, hn1'⟩ := List.mem_flatMap.1 hn1
    exact ⟨n, hn, (cut1_frag b n n1 hn1').trans hf1⟩

/-! ### every note-on of a well-formed list starts a note -/

theorem open_note (k : Int × Int) (on : Msg) : ∀ (l : List Msg), altRun k true l = some false →
    ∃ t, mkN on t ∈ nkNotes k l (some on) := by
  intro l
  induction l with
  | nil => intro h; simp [altRun] at h
  | cons x xs ih =>
    intro h
    rcases kev_cases k x with h1 | h1 | h1
    · rw [altRun_cons_on k _ x xs h1] at h; simp at h
    · rw [nkNotes_cons_off k x xs _ h1]; exact ⟨x.time, by simp⟩
    · rw [altRun_cons_skip k _ x xs h1] at h
      rw [nkNotes_cons_skip k x xs _ h1]; exact ih h

theorem on_note (k : Int × Int) : ∀ (l : List Msg) (o : Option Msg) (b : Bool), altRun k b l = some false →
    ∀ m ∈ l, m.nkey = k → m.ty = .noteOn → ∃ t, mkN m t ∈ nkNotes k l o := by
  intro l
  induction l with
  | nil => intro o b _ m hm; cases hm
  | cons x xs ih =>
    intro o b h m hm hmk hmt
    rcases kev_cases k x with h1 | h1 | h1
    · rw [altRun_cons_on k b x xs h1] at h
      have hb : altRun k true xs = some false := by
        cases b with
        | true => simp at h
        | false => simpa using h
      rw [nkNotes_cons_on k x xs _ h1]
      rcases List.mem_cons.1 hm with rfl | hm
      · exact open_note k m xs hb
      · exact ih _ true hb m hm hmk hmt
    · rw [altRun_cons_off k b x xs h1] at h
      have hb : altRun k false xs = some false := by
        cases b with
        | false => simp at h
        | true => simpa using h
      rw [nkNotes_cons_off k x xs _ h1]
      rcases List.mem_cons.1 hm with rfl | hm
      · rw [h1.2] at hmt; cases hmt
      · obtain ⟨t, ht⟩ := ih none false hb m hm hmk hmt
        exact ⟨t, List.mem_append_right _ ht⟩
    · rw [altRun_cons_skip k b x xs h1] at h
      rw [nkNotes_cons_skip k x xs _ h1]
      rcases List.mem_cons.1 hm with rfl | hm
      · exact absurd ⟨hmk, Or.inl hmt⟩ h1
      · exact ih o b h m hm hmk hmt

end SCoda.Strong589L
