/-
  Helper lemmas for `Props/C04c.lean` (audit item A3): the concrete wrapper model `SCoda.Seq`
  of `Model/Wrapper.lean`.

  Part 1: `quantise` never raises when the step list is non-empty — on *every* input, not only on
          well-formed ones (`C05.total` needs `WF`, which the wrapper invariant does not give).
  Part 2: the wrapper invariant `Inv`, what the two reads return (`absView` / `relView`), a
          complete description of `onAbs` / `onRel`, invariant preservation for generic mutators,
          for the `Except`-valued / composite wrapper functions, and the flag protocol alone
          (`Readable`).
-/
import SCoda.Props.C04b
import SCoda.Lemmas.Quantise
namespace SCoda.WrapperL
open SCoda SCoda.Q

/-! ## Part 1 — `quantise` is total for a non-empty step list -/

/-- what `collapsedGo` needs of its input: every note-off of key `k` has an earlier note-on of `k`
    that no other note-off of `k` has consumed (`b` = "a note-on of `k` is waiting") -/
def okC (k : Int × Int) : Bool → List Msg → Prop
  | _, [] => True
  | b, m :: ms =>
    if m.nkey = k ∧ m.ty = .noteOn then okC k true ms
    else if m.nkey = k ∧ m.ty = .noteOff then b = true ∧ okC k false ms
    else okC k b ms

theorem okC_skip {k : Int × Int} {b : Bool} {m : Msg} {ms : List Msg}
    (h1 : ¬ (m.nkey = k ∧ m.ty = .noteOn)) (h2 : ¬ (m.nkey = k ∧ m.ty = .noteOff)) :
    okC k b (m :: ms) = okC k b ms := by
  simp only [okC, if_neg h1, if_neg h2]

theorem contains_pushOn (s : QSt) (m : Msg) (t : Int) (k : Int × Int) :
    (pushOn s m t).opens.contains k = if m.nkey = k then true else s.opens.contains k := by
  by_cases hk : m.nkey = k
  · simp [pushOn, contains_eq, get?_set, hk]
  · simp [pushOn, contains_eq, get?_set, hk]

theorem contains_pushOff {s : QSt} (h : SInv s) (m : Msg) (t : Int) (k : Int × Int) :
    (pushOff s m t).opens.contains k = if m.nkey = k then false else s.opens.contains k := by
  by_cases hk : m.nkey = k
  · simp [pushOff, contains_eq, get?_erase h.nodup, hk]
  · simp [pushOff, contains_eq, get?_erase h.nodup, hk]

/-- one step of the fold of `quantise` from a consistent bookkeeping state: it succeeds, keeps the
    bookkeeping consistent, and what it appends is acceptable to `collapsedGo` -/
theorem qStep_any {steps : List Int} (hne : steps ≠ []) {s : QSt} (m : Msg) (hs : SInv s) :
    ∃ s1 x, qStep steps s m = .ok s1 ∧ s1.out.reverse = s.out.reverse ++ x ∧ SInv s1 ∧
      (∀ k nw, okC k (s1.opens.contains k) nw → okC k (s.opens.contains k) (x ++ nw)) := by
  by_cases hon : m.ty = .noteOn
  · obtain ⟨t, ht, _, _⟩ := nearest_ok m.time _ (possiblePositions_ne_nil hne m.time)
    have hq := qStep_on (s := s) hon ht
    -- transfer for a pushed note-on
    have htr : ∀ (s0 : QSt), ∀ k nw, okC k ((pushOn s0 m t).opens.contains k) nw →
        okC k (s0.opens.contains k) ([{ m with time := t }] ++ nw) := by
      intro s0 k nw h
      rw [contains_pushOn] at h
      show okC k _ ({ m with time := t } :: nw)
      by_cases hk : m.nkey = k
      · rw [if_pos hk] at h
        rw [okC, if_pos ⟨hk, hon⟩]; exact h
      · rw [if_neg hk] at h
        rw [okC_skip (m := { m with time := t }) (fun h => hk h.1) (fun h => hk h.1)]; exact h
    cases hc : s.opens.contains m.nkey with
    | true =>
      -- the key is still open: an imputed note-off is emitted first
      obtain ⟨openT, hopen⟩ : ∃ openT, s.opens.get? m.nkey = some openT := by
        rw [contains_eq] at hc
        cases h : s.opens.get? m.nkey with
        | none => rw [h] at hc; cases hc
        | some v => exact ⟨v, rfl⟩
      have hpre : preOn s m t = pushOff s (Msg.mkOff m.ch m.note t) t := by
        simp only [preOn, hc, if_true, pushOff]
        rfl
      have hopen' : s.opens.get? (Msg.mkOff m.ch m.note t).nkey = some openT := hopen
      have hs0 : SInv (pushOff s (Msg.mkOff m.ch m.note t) t) := sInv_pushOff hs _ t openT hopen'
      have htm : (preOn s m t).timings.get? m.nkey = some [openT, t] := by
        rw [hpre]
        simp only [pushOff, get?_set]
        rw [if_pos (show (Msg.mkOff m.ch m.note t).nkey = m.nkey from rfl), hs.opn _ _ hopen']
        rfl
      rw [htm] at hq
      simp only [List.getElem?_cons_succ, List.getElem?_cons_zero, Int.lt_irrefl, decide_false,
        Bool.not_false, if_true] at hq
      rw [hpre] at hq
      refine ⟨_, [Msg.mkOff m.ch m.note t, { m with time := t }], hq, ?_, sInv_pushOn hs0 m t, ?_⟩
      · simp [pushOn, pushOff, Msg.mkOff]
      · intro k nw h
        have h1 := htr _ k nw h
        rw [contains_pushOff hs] at h1
        show okC k _ (Msg.mkOff m.ch m.note t :: ({ m with time := t } :: nw))
        by_cases hk : m.nkey = k
        · rw [if_pos (show (Msg.mkOff m.ch m.note t).nkey = k from hk)] at h1
          rw [← hk, hc, okC, if_neg (by simp [Msg.mkOff]), if_pos ⟨rfl, rfl⟩]
          exact ⟨rfl, hk ▸ h1⟩
        · rw [if_neg (show ¬ (Msg.mkOff m.ch m.note t).nkey = k from hk)] at h1
          rw [okC_skip (m := Msg.mkOff m.ch m.note t) (fun h => hk h.1) (fun h => hk h.1)]
          exact h1
    | false =>
      have hnone := contains_false hc
      have hpre : preOn s m t = s := by simp [preOn, hc]
      rw [hpre] at hq
      cases htm : s.timings.get? m.nkey with
      | none =>
        rw [htm] at hq
        exact ⟨_, [{ m with time := t }], hq, by simp [pushOn], sInv_pushOn hs m t, htr s⟩
      | some tm =>
        obtain ⟨t0, t1, rfl⟩ := hs.cls _ _ hnone htm
        rw [htm] at hq
        simp only [List.getElem?_cons_succ, List.getElem?_cons_zero] at hq
        by_cases hlt : t < t1
        · simp only [hlt, decide_true, Bool.not_true, Bool.false_eq_true, if_false] at hq
          exact ⟨_, [], hq, by simp, hs, fun k nw h => h⟩
        · simp only [hlt, decide_false, Bool.not_false, if_true] at hq
          exact ⟨_, [{ m with time := t }], hq, by simp [pushOn], sInv_pushOn hs m t, htr s⟩
  · by_cases hoff : m.ty = .noteOff
    · cases hopen : s.opens.get? m.nkey with
      | none => exact ⟨s, [], qStep_off_closed hoff hopen, by simp, hs, fun k nw h => h⟩
      | some openT =>
        obtain ⟨t, ht, _, _⟩ := nearest_ok m.time _ (validOf_ne_nil steps m openT)
        refine ⟨_, [{ m with time := t }], qStep_off_open hoff hopen ht, by simp [pushOff],
          sInv_pushOff hs m t openT hopen, ?_⟩
        intro k nw h
        rw [contains_pushOff hs] at h
        show okC k _ ({ m with time := t } :: nw)
        by_cases hk : m.nkey = k
        · rw [if_pos hk] at h
          have hc : s.opens.contains k = true := by rw [← hk, contains_eq, hopen]; rfl
          rw [hc, okC, if_neg (by simp [hoff]), if_pos ⟨hk, hoff⟩]
          exact ⟨rfl, h⟩
        · rw [if_neg hk] at h
          rw [okC_skip (m := { m with time := t }) (fun h => hk h.1) (fun h => hk h.1)]; exact h
    · obtain ⟨t, ht, _, _⟩ := nearest_ok m.time _ (possiblePositions_ne_nil hne m.time)
      refine ⟨_, [{ m with time := t }], qStep_other hon hoff ht, by simp,
        ⟨hs.nodup, hs.opn, hs.cls⟩, ?_⟩
      intro k nw h
      show okC k _ ({ m with time := t } :: nw)
      rw [okC_skip (by simp [hon]) (by simp [hoff])]
      exact h

theorem fold_any {steps : List Int} (hne : steps ≠ []) (l : List Msg) : ∀ (s : QSt), SInv s →
    ∃ s' nw, foldlM' (qStep steps) s l = .ok s' ∧ s'.out.reverse = s.out.reverse ++ nw ∧
      (∀ k, okC k (s.opens.contains k) nw) := by
  induction l with
  | nil => intro s _; exact ⟨s, [], rfl, by simp, fun k => by simp [okC]⟩
  | cons m ms ih =>
    intro s hs
    obtain ⟨s1, x, hq, hout, hs1, htr⟩ := qStep_any hne m hs
    obtain ⟨s', nw, hf, hout', hok⟩ := ih s1 hs1
    refine ⟨s', x ++ nw, ?_, ?_, fun k => htr k nw (hok k)⟩
    · simp only [foldlM', hq]; exact hf
    · rw [hout', hout, List.append_assoc]

theorem collapsedGo_any (l : List Msg) : ∀ (i : Nat) (tbl : Assoc (Int × Int) (Nat × Int))
    (acc : List Nat), NodupKeys tbl → (∀ k, okC k (tbl.contains k) l) →
    ∃ idx, collapsedGo l i tbl acc = .ok idx := by
  induction l with
  | nil => intro i tbl acc _ _; exact ⟨acc, rfl⟩
  | cons m ms ih =>
    intro i tbl acc hnd h
    by_cases hon : m.ty = .noteOn
    · simp only [collapsedGo, hon]
      apply ih _ _ _ (nodupKeys_set hnd _ _)
      intro k
      have hk0 := h k
      by_cases hk : m.nkey = k
      · rw [okC, if_pos ⟨hk, hon⟩] at hk0
        simpa [contains_eq, get?_set, hk] using hk0
      · rw [okC_skip (fun h => hk h.1) (fun h => hk h.1)] at hk0
        simpa [contains_eq, get?_set, hk] using hk0
    · by_cases hoff : m.ty = .noteOff
      · simp only [collapsedGo, hoff]
        have h0 := h m.nkey
        rw [okC, if_neg (by simp [hoff]), if_pos ⟨rfl, hoff⟩] at h0
        cases hget : tbl.get? m.nkey with
        | none =>
          exfalso
          have := h0.1
          rw [contains_eq, hget] at this
          cases this
        | some jt =>
          obtain ⟨j, t⟩ := jt
          simp only []
          apply ih _ _ _ (nodupKeys_erase hnd _)
          intro k
          by_cases hk : m.nkey = k
          · subst hk
            simpa [contains_eq, get?_erase hnd] using h0.2
          · have hk0 := h k
            rw [okC_skip (fun h => hk h.1) (fun h => hk h.1)] at hk0
            simpa [contains_eq, get?_erase hnd, hk] using hk0
      · have : collapsedGo (m :: ms) i tbl acc = collapsedGo ms (i + 1) tbl acc := by
          simp only [collapsedGo]
        rw [this]
        apply ih _ _ _ hnd
        intro k
        have hk0 := h k
        rw [okC_skip (by simp [hon]) (by simp [hoff])] at hk0
        exact hk0

/-- `quantise` succeeds on **every** input as soon as the step list is non-empty (the dictionary
    look-ups `message_timings[key][1]` and `.pop(key)` of the Python code cannot raise) -/
theorem quantise_total_any {steps : List Int} (hne : steps ≠ []) (a : List Msg) :
    ∃ out, quantise steps a = .ok out := by
  obtain ⟨s', nw, hf, hout, hok⟩ := fold_any hne a {} sInv_init
  have hnw : s'.out.reverse = nw := by simpa using hout
  obtain ⟨idx, hidx⟩ := collapsedGo_any s'.out.reverse 0 [] [] nodupKeys_nil
    (fun k => by rw [hnw]; exact hok k)
  refine ⟨sortAbs (removeIndices s'.out.reverse idx), ?_⟩
  simp only [quantise, bind, Except.bind, hf, hidx]


/-! ## Part 2 — the wrapper invariant and the two reads -/

/-- the wrapper invariant, on the concrete state of `Model/Wrapper.lean`: never both views stale; a
    fresh view is legal (`OkAbs` / `OkRel`); two fresh views describe the same timed events (up to
    the order of simultaneous events) and the same duration -/
structure Inv (s : Seq) : Prop where
  notBoth : ¬ (s.absStale = true ∧ s.relStale = true)
  absOk : s.absStale = false → OkAbs s.abs
  relOk : s.relStale = false → OkRel s.rel
  agreeEv : s.absStale = false → s.relStale = false → (eventsAbs s.abs).Perm (eventsRel s.rel)
  agreeDur : s.absStale = false → s.relStale = false → durAbs s.abs = durRel s.rel

/-- what a read of `.abs` returns: the stored view if fresh, else the conversion of the other -/
def absView (s : Seq) : List Msg := if s.absStale then toAbs s.rel else s.abs
/-- what a read of `.rel` returns -/
def relView (s : Seq) : List Msg := if s.relStale then toRel s.abs else s.rel

/-- "at least one view is fresh" -/
def Readable (s : Seq) : Prop := ¬ (s.absStale = true ∧ s.relStale = true)

theorem readAbs_eq (s : Seq) (h : Readable s) :
    s.readAbs = .ok ({ s with abs := absView s, absStale := false }, absView s) := by
  obtain ⟨a, r, fa, fr⟩ := s
  cases fa <;> cases fr <;> simp_all [Readable, Seq.readAbs, absView]

theorem readRel_eq (s : Seq) (h : Readable s) :
    s.readRel = .ok ({ s with rel := relView s, relStale := false }, relView s) := by
  obtain ⟨a, r, fa, fr⟩ := s
  cases fa <;> cases fr <;> simp_all [Readable, Seq.readRel, relView]

/-- reads fail exactly when both views are stale -/
theorem readAbs_stale (s : Seq) (h : ¬ Readable s) : s.readAbs = .error .sequenceStale := by
  obtain ⟨a, r, fa, fr⟩ := s
  cases fa <;> cases fr <;> simp_all [Readable, Seq.readAbs]

theorem readRel_stale (s : Seq) (h : ¬ Readable s) : s.readRel = .error .sequenceStale := by
  obtain ⟨a, r, fa, fr⟩ := s
  cases fa <;> cases fr <;> simp_all [Readable, Seq.readRel]

/-- complete description of an absolute-side mutator -/
theorem onAbs_eq (s : Seq) (h : Readable s) (f : List Msg → Except Err (List Msg)) :
    s.onAbs f = (f (absView s)).map
      (fun a' => { s with abs := a', absStale := false, relStale := true }) := by
  simp only [Seq.onAbs, readAbs_eq s h, bind, Except.bind]
  cases f (absView s) <;> rfl

/-- complete description of a relative-side mutator -/
theorem onRel_eq (s : Seq) (h : Readable s) (f : List Msg → Except Err (List Msg)) :
    s.onRel f = (f (relView s)).map
      (fun r' => { s with rel := r', relStale := false, absStale := true }) := by
  simp only [Seq.onRel, readRel_eq s h, bind, Except.bind]
  cases f (relView s) <;> rfl

theorem inv_readable {s : Seq} (h : Inv s) : Readable s := h.notBoth

/-- under the invariant the value of a read is a legal view -/
theorem absView_ok {s : Seq} (h : Inv s) : OkAbs (absView s) := by
  obtain ⟨a, r, fa, fr⟩ := s
  obtain ⟨h1, h2, h3, _, _⟩ := h
  cases fa <;> cases fr <;> simp_all [absView]
  exact C04.toAbs_ok _ h3

theorem relView_ok {s : Seq} (h : Inv s) : OkRel (relView s) := by
  obtain ⟨a, r, fa, fr⟩ := s
  obtain ⟨h1, h2, h3, _, _⟩ := h
  cases fa <;> cases fr <;> simp_all [relView]
  exact C04.toRel_ok _ h2

/-- under the invariant the two reads describe the same timed events … -/
theorem views_events {s : Seq} (h : Inv s) : (eventsAbs (absView s)).Perm (eventsRel (relView s)) := by
  obtain ⟨a, r, fa, fr⟩ := s
  obtain ⟨h1, h2, h3, h4, _⟩ := h
  cases fa <;> cases fr <;> simp_all [absView, relView]
  · rw [C04.toRel_events _ h2]
  · exact C04.toAbs_events _ h3

/-- … and the same duration -/
theorem views_dur {s : Seq} (h : Inv s) : durAbs (absView s) = durRel (relView s) := by
  obtain ⟨a, r, fa, fr⟩ := s
  obtain ⟨h1, h2, h3, _, h5⟩ := h
  cases fa <;> cases fr <;> simp_all [absView, relView]
  · rw [C04.toRel_duration _ h2]
  · exact C04.toAbs_duration _ h3

/-- state after writing a legal absolute view (and invalidating the relative one) -/
theorem inv_setAbs (s : Seq) (a' : List Msg) (h : OkAbs a') :
    Inv { s with abs := a', absStale := false, relStale := true } :=
  ⟨by simp, fun _ => h, by simp, by simp, by simp⟩

theorem inv_setRel (s : Seq) (r' : List Msg) (h : OkRel r') :
    Inv { s with rel := r', relStale := false, absStale := true } :=
  ⟨by simp, by simp, fun _ => h, by simp, by simp⟩

/-- state after a read of `.abs` -/
theorem inv_afterReadAbs {s : Seq} (h : Inv s) : Inv { s with abs := absView s, absStale := false } := by
  have hv := absView_ok h
  have he := views_events h
  have hd := views_dur h
  obtain ⟨a, r, fa, fr⟩ := s
  obtain ⟨h1, h2, h3, h4, h5⟩ := h
  cases fa <;> cases fr <;> simp_all [absView, relView] <;>
    exact ⟨by simp, by simp_all, by simp_all, by simp_all, by simp_all⟩

theorem inv_afterReadRel {s : Seq} (h : Inv s) : Inv { s with rel := relView s, relStale := false } := by
  have hv := relView_ok h
  have he := views_events h
  have hd := views_dur h
  obtain ⟨a, r, fa, fr⟩ := s
  obtain ⟨h1, h2, h3, h4, h5⟩ := h
  cases fa <;> cases fr <;> simp_all [absView, relView] <;>
    exact ⟨by simp, by simp_all, by simp_all, by simp_all, by simp_all⟩

/-- reading does not change what either read returns -/
theorem views_afterReadAbs (s : Seq) (h : Readable s) :
    absView { s with abs := absView s, absStale := false } = absView s ∧
    (s.relStale = false → relView { s with abs := absView s, absStale := false } = relView s) := by
  obtain ⟨a, r, fa, fr⟩ := s
  cases fa <;> cases fr <;> simp_all [Readable, absView, relView]

/-! ### in-place re-sorting of the absolute view (`get_message_pairings`) -/

theorem durAbs_sortAbs (a : List Msg) (hs : TimeSorted a) : durAbs (sortAbs a) = durAbs a := by
  cases hl : a.getLast? with
  | none =>
    have : a = [] := by simpa using hl
    subst this; rfl
  | some m =>
    have hd : durAbs a = m.time := by simp [durAbs, hl]
    rw [hd]
    obtain ⟨init, rfl⟩ : ∃ init, a = init ++ [m] := by
      rw [List.getLast?_eq_some_iff] at hl; exact hl
    have hp := (timeSorted_iff_pairwise _).1 hs
    rw [List.pairwise_append] at hp
    refine durAbs_of_max _ _ (sortAbs_pairwise _) ?_ ⟨m, (mem_sortAbs _ _).2 (by simp), rfl⟩
    intro e he
    rcases List.mem_append.1 ((mem_sortAbs _ _).1 he) with he | he
    · exact hp.2.2 e he m (by simp)
    · simp at he; subst he; exact Int.le_refl _

theorem eventsAbs_sortAbs (a : List Msg) : (eventsAbs (sortAbs a)).Perm (eventsAbs a) :=
  (sortAbs_perm a).filter _

theorem sortAbs_ok (a : List Msg) (h : OkAbs a) : OkAbs (sortAbs a) :=
  C04.sortAbs_okA a h.2.1 h.2.2

/-- re-sorting the (fresh) absolute view in place, without touching the flags, keeps the invariant -/
theorem inv_resort {s : Seq} (h : Inv s) (hf : s.absStale = false) :
    Inv { s with abs := sortAbs s.abs } := by
  obtain ⟨h1, h2, h3, h4, h5⟩ := h
  refine ⟨h1, fun _ => sortAbs_ok _ (h2 hf), h3, ?_, ?_⟩
  · intro _ hr
    exact (eventsAbs_sortAbs _).trans (h4 hf hr)
  · intro _ hr
    show durAbs (sortAbs s.abs) = _
    rw [durAbs_sortAbs _ (h2 hf).1]; exact h5 hf hr

/-! ### `overwrite_absolute_messages` keeps the events of its argument -/

theorem foldl_insort_perm (ms : List Msg) : ∀ acc : List Msg, (ms.foldl insort acc).Perm (acc ++ ms) := by
  induction ms with
  | nil => intro acc; simp
  | cons m ms ih =>
    intro acc
    rw [List.foldl_cons]
    refine (ih _).trans ?_
    have := (insort_perm acc m).append_right ms
    refine this.trans ?_
    simp only [List.cons_append]
    exact (List.perm_middle).symm


/-! ### generic mutators keep the invariant -/

theorem onAbs_inv {s : Seq} (h : Inv s) (f : List Msg → Except Err (List Msg))
    (hf : ∀ a, OkAbs a → ∃ a', f a = .ok a' ∧ OkAbs a') :
    ∃ s', s.onAbs f = .ok s' ∧ Inv s' ∧ s'.absStale = false := by
  obtain ⟨a', h1, h2⟩ := hf _ (absView_ok h)
  refine ⟨{ s with abs := a', absStale := false, relStale := true }, ?_, inv_setAbs s a' h2, rfl⟩
  rw [onAbs_eq s h.notBoth, h1]; rfl

theorem onRel_inv {s : Seq} (h : Inv s) (f : List Msg → Except Err (List Msg))
    (hf : ∀ r, OkRel r → ∃ r', f r = .ok r' ∧ OkRel r') :
    ∃ s', s.onRel f = .ok s' ∧ Inv s' ∧ s'.relStale = false := by
  obtain ⟨r', h1, h2⟩ := hf _ (relView_ok h)
  refine ⟨{ s with rel := r', relStale := false, absStale := true }, ?_, inv_setRel s r' h2, rfl⟩
  rw [onRel_eq s h.notBoth, h1]; rfl

/-- a mutator built from a total function -/
theorem onAbs_inv' {s : Seq} (h : Inv s) (g : List Msg → List Msg) (hg : ∀ a, OkAbs a → OkAbs (g a)) :
    ∃ s', s.onAbs (fun a => .ok (g a)) = .ok s' ∧ Inv s' ∧ s'.absStale = false :=
  onAbs_inv h _ (fun a ha => ⟨g a, rfl, hg a ha⟩)

theorem onRel_inv' {s : Seq} (h : Inv s) (g : List Msg → List Msg) (hg : ∀ r, OkRel r → OkRel (g r)) :
    ∃ s', s.onRel (fun r => .ok (g r)) = .ok s' ∧ Inv s' ∧ s'.relStale = false :=
  onRel_inv h _ (fun r hr => ⟨g r, rfl, hg r hr⟩)

/-- editing only the first yielded message -/
def editFirst (f : Msg → Msg) : List Msg → List Msg
  | [] => []
  | m :: ms => f m :: ms

theorem editFirst_okR (f : Msg → Msg) (hf : ∀ m, Ops.Good m → Ops.Good (f m)) (r : List Msg)
    (h : OkRel r) : OkRel (editFirst f r) := by
  rw [Ops.okRel_iff] at h ⊢
  cases r with
  | nil => exact h
  | cons m ms =>
    rw [Ops.allGood_cons] at h
    exact Ops.allGood_cons.2 ⟨hf m h.1, h.2⟩

theorem map_okR (f : Msg → Msg) (hf : ∀ m, Ops.Good m → Ops.Good (f m)) (r : List Msg)
    (h : OkRel r) : OkRel (r.map f) := by
  rw [Ops.okRel_iff] at h ⊢
  intro x hx
  obtain ⟨m, hm, rfl⟩ := List.mem_map.1 hx
  exact hf m (h m hm)

theorem map_okA (f : Msg → Msg) (h1 : ∀ m, m.ty ≠ .wait → (f m).ty ≠ .wait)
    (h2 : ∀ m, 0 ≤ m.time → 0 ≤ (f m).time)
    (h3 : ∀ m m', m.time ≤ m'.time → (f m).time ≤ (f m').time) (a : List Msg) (h : OkAbs a) :
    OkAbs (a.map f) := by
  rw [Ops.okAbs_iff] at h ⊢
  obtain ⟨ha, hb, hc⟩ := h
  refine ⟨?_, ?_, ?_⟩
  · rw [List.pairwise_map]
    exact ha.imp (fun hxy => h3 _ _ hxy)
  · intro x hx
    obtain ⟨m, hm, rfl⟩ := List.mem_map.1 hx
    exact h2 m (hb m hm)
  · intro x hx
    obtain ⟨m, hm, rfl⟩ := List.mem_map.1 hx
    exact h1 m (hc m hm)

theorem editFirst_okA (f : Msg → Msg) (h1 : ∀ m, m.ty ≠ .wait → (f m).ty ≠ .wait)
    (h2 : ∀ m, 0 ≤ m.time → 0 ≤ (f m).time ∧ (f m).time ≤ m.time) (a : List Msg) (h : OkAbs a) :
    OkAbs (editFirst f a) := by
  rw [Ops.okAbs_iff] at h ⊢
  obtain ⟨ha, hb, hc⟩ := h
  cases a with
  | nil => exact ⟨ha, hb, hc⟩
  | cons m ms =>
    rw [List.pairwise_cons] at ha
    have hm := h2 m (hb m (by simp))
    refine ⟨List.pairwise_cons.2 ⟨fun y hy => Int.le_trans hm.2 (ha.1 y hy), ha.2⟩, ?_, ?_⟩
    · intro x hx
      rcases List.mem_cons.1 hx with rfl | hx
      · exact hm.1
      · exact hb x (List.mem_cons_of_mem _ hx)
    · intro x hx
      rcases List.mem_cons.1 hx with rfl | hx
      · exact h1 m (hc m (by simp))
      · exact hc x (List.mem_cons_of_mem _ hx)


/-! ### the `Except`-valued and composite wrapper functions keep the invariant -/

/-- `quantise` on a legal absolute view with legal steps: succeeds with a legal view.  Unlike
    `C05.total` no well-formedness of the notes is needed. -/
theorem quantise_ok (st : List Int) (hs : C05.StepsOk st) (a : List Msg) (ha : OkAbs a) :
    ∃ a', quantise st a = .ok a' ∧ OkAbs a' := by
  obtain ⟨out, ho⟩ := quantise_total_any hs.1 a
  exact ⟨out, ho, C04.quantise_okA st hs a out ha ho⟩

theorem qnl_ok (v : List Int) (hv : ∀ x ∈ v, 0 ≤ x) (std : Int) (dne : Bool) (a : List Msg) (ha : OkAbs a) :
    ∃ a', quantiseNoteLengths v std dne a = .ok a' ∧ OkAbs a' := by
  obtain ⟨out, ho⟩ := C06.total v std dne a
  refine ⟨out, ho, ?_⟩
  have hcase : ∀ x ∈ out, 0 ≤ x.time ∧ x.ty ≠ .wait := by
    intro x hx
    by_cases hon : x.ty = .noteOn
    · have := C06.onsets_kept v std dne a out ho x hx hon
      exact ⟨ha.2.1 x this, by rw [hon]; simp⟩
    · by_cases hoff : x.ty = .noteOff
      · obtain ⟨on, hon1, hon2, _, hd⟩ := C06.durations v std dne a out ho x hx hoff
        have h1 := ha.2.1 on (C06.onsets_kept v std dne a out ho on hon1 hon2)
        have h2 := hv _ hd
        exact ⟨by omega, by rw [hoff]; simp⟩
      · have hxn : x ∈ nonNotes out := by
          unfold nonNotes
          rw [List.mem_filter]
          exact ⟨hx, by simp [hon, hoff]⟩
        have := (List.mem_filter.1 ((C06.others_same v std dne a out ho).mem_iff.1 hxn)).1
        exact ⟨ha.2.1 x this, ha.2.2 x this⟩
  exact ⟨C06.sorted_out v std dne a out ho, fun x hx => (hcase x hx).1, fun x hx => (hcase x hx).2⟩

/-- sorting (`normalise_absolute`) keeps a legal absolute view legal -/
theorem okAbs_sortAbs {a : List Msg} (ha : OkAbs a) : OkAbs (sortAbs a) :=
  ⟨sortAbs_timeSorted a, fun m hm => ha.2.1 m ((mem_sortAbs a m).1 hm), fun m hm => ha.2.2 m ((mem_sortAbs a m).1 hm)⟩

/-- the repaired `quantise` (`quantiseS`: sort, then the walk) succeeds on every input as soon as the step list is non-empty -/
theorem quantiseS_total_any {steps : List Int} (hne : steps ≠ []) (a : List Msg) :
    ∃ out, quantiseS steps a = .ok out := quantise_total_any hne (sortAbs a)

/-- `quantise_ok` for the repaired `quantise` -/
theorem quantiseS_ok (st : List Int) (hs : C05.StepsOk st) (a : List Msg) (ha : OkAbs a) :
    ∃ a', quantiseS st a = .ok a' ∧ OkAbs a' := quantise_ok st hs (sortAbs a) (okAbs_sortAbs ha)

theorem quantiseSeq_inv (e : Env) (st : Option (List Int)) (hs : C05.StepsOk (st.getD e.defSteps))
    {s : Seq} (h : Inv s) : ∃ s', Seq.quantiseSeq e s st = .ok s' ∧ Inv s' := by
  obtain ⟨s', h1, h2, _⟩ := onAbs_inv h (quantiseS (st.getD e.defSteps)) (quantiseS_ok _ hs)
  exact ⟨s', h1, h2⟩

theorem qnlSeq_inv (e : Env) (v : Option (List Int)) (hv : ∀ x ∈ v.getD e.defValues, 0 ≤ x) (std : Int)
    (dne : Bool) {s : Seq} (h : Inv s) : ∃ s', Seq.qnlSeq e s v std dne = .ok s' ∧ Inv s' := by
  obtain ⟨s', h1, h2, _⟩ := onAbs_inv h (quantiseNoteLengths (v.getD e.defValues) std dne)
    (qnl_ok _ hv std dne)
  exact ⟨s', h1, h2⟩

theorem normaliseSeq_inv {s : Seq} (h : Inv s) : ∃ s', s.normaliseSeq = .ok s' ∧ Inv s' := by
  obtain ⟨s', h1, h2, _⟩ := onRel_inv' h normalise C04.normalise_okR
  exact ⟨s', h1, h2⟩

theorem quantiseAndNormalise_inv (e : Env) (he : C05.StepsOk e.defSteps ∧ ∀ v ∈ e.defValues, 0 ≤ v)
    {s : Seq} (h : Inv s) :
    ∃ s', Seq.quantiseAndNormalise e s = .ok s' ∧ Inv s' := by
  obtain ⟨s1, h1, i1⟩ := quantiseSeq_inv e Option.none he.1 h
  obtain ⟨s2, h2, i2⟩ := qnlSeq_inv e Option.none he.2 e.ppqn false i1
  obtain ⟨s3, h3, i3⟩ := normaliseSeq_inv i2
  exact ⟨s3, by simp only [Seq.quantiseAndNormalise, h1, h2, h3, bind, Except.bind], i3⟩

/-- `transpose` as a relative-side mutator followed (if a note had to be wrapped) by `normalise` and
    `quantise_note_lengths` -/
theorem transposeSeq_eq (e : Env) (s : Seq) (h : Readable s) (b : Int) :
    Seq.transposeSeq e s b =
      (s.onRel (fun r => .ok (transposeRel e.noteLo e.noteHi (fun k => e.tk k b) b r).1)).bind (fun s1 =>
        if (transposeRel e.noteLo e.noteHi (fun k => e.tk k b) b (relView s)).2 then
          s1.normaliseSeq.bind (fun s2 => (Seq.qnlSeq e s2 Option.none e.ppqn false).bind
            (fun s3 => .ok (s3, true)))
        else .ok (s1, false)) := by
  rw [onRel_eq s h]
  simp only [Seq.transposeSeq, readRel_eq s h, bind, Except.bind, Except.map]

theorem transposeSeq_inv (e : Env) (he : C05.StepsOk e.defSteps ∧ ∀ v ∈ e.defValues, 0 ≤ v) (b : Int)
    {s : Seq} (h : Inv s) :
    ∃ s' f, Seq.transposeSeq e s b = .ok (s', f) ∧ Inv s' := by
  obtain ⟨s1, h1, i1, _⟩ := onRel_inv' h
    (fun r => (transposeRel e.noteLo e.noteHi (fun k => e.tk k b) b r).1)
    (fun r hr => C04.transposeRel_okR _ _ _ _ r hr)
  rw [transposeSeq_eq e s h.notBoth, h1]
  simp only [Except.bind]
  split
  · obtain ⟨s2, h2, i2⟩ := normaliseSeq_inv i1
    obtain ⟨s3, h3, i3⟩ := qnlSeq_inv e Option.none he.2 e.ppqn false i2
    exact ⟨s3, true, by simp only [h2, h3], i3⟩
  · exact ⟨s1, false, rfl, i1⟩

theorem splitSeq_eq (s : Seq) (h : Readable s) (caps : List Int) :
    s.splitSeq caps = (split (relView s) caps).map
      (fun ps => ({ s with rel := relView s, relStale := false }, ps.map Seq.ofRel)) := by
  simp only [Seq.splitSeq, readRel_eq s h, bind, Except.bind]
  cases split (relView s) caps <;> rfl

theorem copy_inv (s : Seq) (h : Inv s) : Inv s.copy := by
  obtain ⟨a, r, fa, fr⟩ := s
  obtain ⟨h1, h2, h3, h4, h5⟩ := h
  cases fa <;> cases fr <;> simp_all [Seq.copy]
  · exact ⟨by simp, by simp_all, by simp_all, by simp_all, by simp_all⟩
  · exact ⟨by simp [Seq.ofAbs], fun _ => h2, by simp [Seq.ofAbs], by simp [Seq.ofAbs], by simp [Seq.ofAbs]⟩
  · exact ⟨by simp [Seq.ofRel], by simp [Seq.ofRel], fun _ => h3, by simp [Seq.ofRel], by simp [Seq.ofRel]⟩


/-! ### the stale-flag protocol alone: success from any readable state -/

theorem bind_ok {α : Type} (x : Except Err α) : x.bind .ok = x := by cases x <;> rfl

theorem onAbs_readable {s : Seq} (h : Readable s) (f : List Msg → Except Err (List Msg))
    (hf : ∀ a, ∃ a', f a = .ok a') : ∃ s', s.onAbs f = .ok s' ∧ Readable s' := by
  obtain ⟨a', ha⟩ := hf (absView s)
  exact ⟨_, by rw [onAbs_eq s h, ha]; rfl, by simp [Readable]⟩

theorem onRel_readable {s : Seq} (h : Readable s) (f : List Msg → Except Err (List Msg))
    (hf : ∀ r, ∃ r', f r = .ok r') : ∃ s', s.onRel f = .ok s' ∧ Readable s' := by
  obtain ⟨r', hr⟩ := hf (relView s)
  exact ⟨_, by rw [onRel_eq s h, hr]; rfl, by simp [Readable]⟩

theorem qan_readable (e : Env) (hne : e.defSteps ≠ []) {s : Seq} (h : Readable s) :
    ∃ s', Seq.quantiseAndNormalise e s = .ok s' ∧ Readable s' := by
  obtain ⟨s1, h1, i1⟩ := onAbs_readable h (quantiseS ((Option.none : Option (List Int)).getD e.defSteps))
    (quantiseS_total_any hne)
  obtain ⟨s2, h2, i2⟩ := onAbs_readable i1
    (quantiseNoteLengths ((Option.none : Option (List Int)).getD e.defValues) e.ppqn false) (C06.total _ _ _)
  obtain ⟨s3, h3, i3⟩ := onRel_readable i2 (fun r => .ok (normalise r)) (fun r => ⟨_, rfl⟩)
  exact ⟨s3, by simp only [Seq.quantiseAndNormalise, Seq.quantiseSeq, Seq.qnlSeq, Seq.normaliseSeq, h1, h2, h3,
    bind, Except.bind], i3⟩

end SCoda.WrapperL
