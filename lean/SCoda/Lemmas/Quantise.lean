/-
  Lemmas about the `quantise` model (`SCoda/Model/Quantise.lean`), used by `Props/C05`.
-/
import SCoda.Model.Quantise
import SCoda.Model.Roll
import SCoda.Lemmas.Sort
namespace SCoda.Q
open SCoda

/-! ### `find_minimal_distance` / `nearest` -/

theorem fmdGo_spec (e : Int) (l : List Int) : ∀ (pre : List Int) (best : Option (Nat × Int)),
    pre ++ l ≠ [] →
    (match best with
      | Option.none => pre = []
      | some (j, bd) => ∃ v, pre[j]? = some v ∧ ((v - e).natAbs : Int) = bd ∧
          ∀ w ∈ pre, (v - e).natAbs ≤ (w - e).natAbs) →
    ∃ v, (pre ++ l)[fmdGo e l pre.length best]? = some v ∧
      ∀ w ∈ pre ++ l, (v - e).natAbs ≤ (w - e).natAbs := by
  induction l with
  | nil =>
    intro pre best hne hb
    match best, hb with
    | Option.none, hb => simp [hb] at hne
    | some (j, bd), ⟨v, hv, _, hmin⟩ =>
      refine ⟨v, ?_, ?_⟩
      · simpa [fmdGo] using hv
      · simpa using hmin
  | cons c cs ih =>
    intro pre best hne hb
    have hlen : (pre ++ [c]).length = pre.length + 1 := by simp
    have happ : pre ++ c :: cs = (pre ++ [c]) ++ cs := by simp
    have hc : (pre ++ [c])[pre.length]? = some c := by simp
    match best, hb with
    | Option.none, hb =>
      subst hb
      simp only [fmdGo]
      split
      · rename_i h0
        refine ⟨c, by simp, ?_⟩
        intro w _
        have : (c - e).natAbs = 0 := by simpa using h0
        omega
      · have := ih [c] (some (0, ((c - e).natAbs : Int))) (by simp)
          ⟨c, by simp, rfl, by simp⟩
        simpa using this
    | some (j, bd), ⟨v, hv, hbd, hmin⟩ =>
      simp only [fmdGo]
      split
      · rename_i hlt
        split
        · rename_i h0
          refine ⟨c, by simp, ?_⟩
          intro w _
          have : (c - e).natAbs = 0 := by simpa using h0
          omega
        · have := ih (pre ++ [c]) (some (pre.length, ((c - e).natAbs : Int))) (by simp)
            ⟨c, hc, rfl, by
              intro w hw
              rcases List.mem_append.1 hw with hw | hw
              · have := hmin w hw; omega
              · simp at hw; subst hw; omega⟩
          rw [hlen] at this
          rw [happ]
          exact this
      · rename_i hlt
        have hj : j < pre.length := by
          rcases Nat.lt_or_ge j pre.length with h | h
          · exact h
          · rw [List.getElem?_eq_none h] at hv; cases hv
        have := ih (pre ++ [c]) (some (j, bd)) (by simp)
          ⟨v, by rw [List.getElem?_append_left hj]; exact hv, hbd, by
            intro w hw
            rcases List.mem_append.1 hw with hw | hw
            · exact hmin w hw
            · simp at hw; subst hw; omega⟩
        rw [hlen] at this
        rw [happ]
        exact this

theorem fmd_spec' (e : Int) (coll : List Int) (h : coll ≠ []) :
    ∃ v, coll[findMinimalDistance e coll]? = some v ∧ ∀ w ∈ coll, (v - e).natAbs ≤ (w - e).natAbs := by
  have := fmdGo_spec e coll [] Option.none (by simpa using h) rfl
  simpa [findMinimalDistance] using this

/-- `nearest` succeeds on a non-empty list, with a member of minimal distance -/
theorem nearest_ok (t : Int) (l : List Int) (h : l ≠ []) :
    ∃ v, nearest t l = .ok v ∧ v ∈ l ∧ ∀ w ∈ l, (v - t).natAbs ≤ (w - t).natAbs := by
  obtain ⟨v, hv, hmin⟩ := fmd_spec' t l h
  refine ⟨v, ?_, List.mem_of_getElem? hv, hmin⟩
  simp [nearest, hv]

/-- whenever `nearest` succeeds the result is a member -/
theorem nearest_mem {t : Int} {l : List Int} {v : Int} (h : nearest t l = .ok v) : v ∈ l := by
  unfold nearest at h
  split at h
  · rename_i w hw
    cases h
    exact List.mem_of_getElem? hw
  · cases h

/-! ### candidate positions -/

theorem possiblePositions_ne_nil {steps : List Int} (h : steps ≠ []) (t : Int) :
    possiblePositions steps t ≠ [] := by
  cases steps with
  | nil => exact absurd rfl h
  | cons s ss => simp [possiblePositions]

theorem mem_possiblePositions {steps : List Int} {t p : Int} (h : p ∈ possiblePositions steps t) :
    ∃ s ∈ steps, p = (t / s) * s ∨ p = (t / s) * s + s := by
  simp only [possiblePositions, List.mem_append, List.mem_map] at h
  rcases h with ⟨s, hs, rfl⟩ | ⟨s, hs, rfl⟩
  · exact ⟨s, hs, Or.inl rfl⟩
  · exact ⟨s, hs, Or.inr rfl⟩

/-- a candidate of `t` for step `s > 0`: divisible by `s`, within `s` of `t` -/
theorem cand_props {t s p : Int} (hs : 0 < s) (h : p = (t / s) * s ∨ p = (t / s) * s + s) :
    p % s = 0 ∧ (p - t).natAbs ≤ s.toNat ∧ (0 ≤ t → 0 ≤ p) := by
  have h1 := Int.emod_nonneg t (Int.ne_of_gt hs)
  have h2 := Int.emod_lt_of_pos t hs
  have h3 : t / s * s + t % s = t := Int.ediv_mul_add_emod t s
  rcases h with rfl | rfl
  · refine ⟨Int.mul_emod_left _ _, by omega, ?_⟩
    intro ht
    exact Int.mul_nonneg (Int.ediv_nonneg ht (Int.le_of_lt hs)) (Int.le_of_lt hs)
  · refine ⟨by simp [Int.mul_emod_left], by omega, ?_⟩
    intro ht
    have := Int.mul_nonneg (Int.ediv_nonneg ht (Int.le_of_lt hs)) (Int.le_of_lt hs)
    omega


/-! ### association lists -/

section assoc
variable {κ ν : Type} [DecidableEq κ]

theorem get?_set (d : Assoc κ ν) (k q : κ) (v : ν) :
    (d.set k v).get? q = if k = q then some v else d.get? q := by
  induction d with
  | nil => simp [Assoc.set, Assoc.get?]
  | cons a d ih =>
    obtain ⟨k', w⟩ := a
    simp only [Assoc.set]
    split
    · rename_i h; subst h
      simp only [Assoc.get?]
      split <;> simp_all
    · rename_i h
      simp only [Assoc.get?, ih]
      split
      · rename_i h2; subst h2; simp [show ¬ k = k' from fun e => h e.symm]
      · rfl

theorem mem_of_get? {d : Assoc κ ν} {k : κ} {v : ν} (h : d.get? k = some v) : (k, v) ∈ d := by
  induction d with
  | nil => simp [Assoc.get?] at h
  | cons a d ih =>
    obtain ⟨k', w⟩ := a
    simp only [Assoc.get?] at h
    split at h
    · rename_i hk; subst hk; cases h; simp
    · exact List.mem_cons_of_mem _ (ih h)

theorem mem_set {d : Assoc κ ν} {k : κ} {v : ν} {x : κ × ν} (h : x ∈ d.set k v) :
    x ∈ d ∨ x = (k, v) := by
  induction d with
  | nil => simp [Assoc.set] at h; exact Or.inr h
  | cons a d ih =>
    obtain ⟨k', w⟩ := a
    simp only [Assoc.set] at h
    split at h
    · rename_i hk; subst hk
      rcases List.mem_cons.1 h with h | h
      · exact Or.inr h
      · exact Or.inl (List.mem_cons_of_mem _ h)
    · rcases List.mem_cons.1 h with h | h
      · exact Or.inl (by simp [h])
      · rcases ih h with h | h
        · exact Or.inl (List.mem_cons_of_mem _ h)
        · exact Or.inr h

theorem mem_erase {d : Assoc κ ν} {k : κ} {x : κ × ν} (h : x ∈ d.erase k) : x ∈ d := by
  induction d with
  | nil => simp [Assoc.erase] at h
  | cons a d ih =>
    obtain ⟨k', w⟩ := a
    simp only [Assoc.erase] at h
    split at h
    · exact List.mem_cons_of_mem _ h
    · rcases List.mem_cons.1 h with h | h
      · simp [h]
      · exact List.mem_cons_of_mem _ (ih h)

/-- no key occurs twice -/
def NodupKeys (d : Assoc κ ν) : Prop := d.Pairwise (fun a b => a.1 ≠ b.1)

omit [DecidableEq κ] in
theorem nodupKeys_nil : NodupKeys ([] : Assoc κ ν) := List.Pairwise.nil

theorem get?_none_of_not_key {d : Assoc κ ν} {k : κ} (h : ∀ x ∈ d, x.1 ≠ k) : d.get? k = none := by
  induction d with
  | nil => rfl
  | cons a d ih =>
    obtain ⟨k', w⟩ := a
    simp only [Assoc.get?]
    split
    · rename_i hk; exact absurd hk (h (k', w) (by simp))
    · exact ih (fun x hx => h x (List.mem_cons_of_mem _ hx))

theorem nodupKeys_set {d : Assoc κ ν} (h : NodupKeys d) (k : κ) (v : ν) : NodupKeys (d.set k v) := by
  induction d with
  | nil => simp [Assoc.set, NodupKeys]
  | cons a d ih =>
    obtain ⟨k', w⟩ := a
    unfold NodupKeys at h
    rw [List.pairwise_cons] at h
    simp only [Assoc.set]
    split
    · exact List.pairwise_cons.2 h
    · rename_i hk
      refine List.pairwise_cons.2 ⟨?_, ih h.2⟩
      intro x hx
      rcases mem_set hx with hx | hx
      · exact h.1 x hx
      · subst hx; exact hk

theorem nodupKeys_erase {d : Assoc κ ν} (h : NodupKeys d) (k : κ) : NodupKeys (d.erase k) := by
  induction d with
  | nil => simp [Assoc.erase, NodupKeys]
  | cons a d ih =>
    obtain ⟨k', w⟩ := a
    unfold NodupKeys at h
    rw [List.pairwise_cons] at h
    simp only [Assoc.erase]
    split
    · exact h.2
    · refine List.pairwise_cons.2 ⟨?_, ih h.2⟩
      intro x hx
      exact h.1 x (mem_erase hx)

theorem get?_erase {d : Assoc κ ν} (h : NodupKeys d) (k q : κ) :
    (d.erase k).get? q = if k = q then none else d.get? q := by
  induction d with
  | nil => simp [Assoc.erase, Assoc.get?]
  | cons a d ih =>
    obtain ⟨k', w⟩ := a
    unfold NodupKeys at h
    rw [List.pairwise_cons] at h
    simp only [Assoc.erase]
    split
    · rename_i hk; subst hk
      split
      · rename_i hq; subst hq
        exact get?_none_of_not_key (fun x hx => (h.1 x hx).symm)
      · rename_i hq; simp [Assoc.get?, hq]
    · rename_i hk
      simp only [Assoc.get?, ih h.2]
      split
      · rename_i h2; subst h2; simp [show ¬ k = k' from fun e => hk e.symm]
      · rfl

theorem contains_eq (d : Assoc κ ν) (k : κ) : d.contains k = (d.get? k).isSome := rfl

end assoc

/-! ### `foldlM'` -/

theorem foldlM'_inv {α β} (f : β → α → Except Err β) (I : β → Prop) (l : List α)
    (hstep : ∀ b x b', x ∈ l → I b → f b x = .ok b' → I b') :
    ∀ b b', I b → foldlM' f b l = .ok b' → I b' := by
  induction l with
  | nil => intro b b' hb h; simp only [foldlM'] at h; cases h; exact hb
  | cons x xs ih =>
    intro b b' hb h
    simp only [foldlM'] at h
    split at h
    · rename_i b1 hb1
      exact ih (fun b x b' hx => hstep b x b' (List.mem_cons_of_mem _ hx)) b1 b'
        (hstep b x b1 List.mem_cons_self hb hb1) h
    · cases h

/-! ### `removeIndices` -/

/-- the entries of `l` (numbered from `i`) whose number is not in `idx` -/
def remFrom (l : List Msg) (i : Nat) (idx : List Nat) : List Msg :=
  ((l.zipIdx i).filter (fun p => !idx.contains p.2)).map (·.1)

theorem removeIndices_eq (l : List Msg) (idx : List Nat) : removeIndices l idx = remFrom l 0 idx := rfl

@[simp] theorem remFrom_nil (i : Nat) (idx : List Nat) : remFrom [] i idx = [] := rfl

theorem remFrom_cons (m : Msg) (ms : List Msg) (i : Nat) (idx : List Nat) :
    remFrom (m :: ms) i idx = if i ∈ idx then remFrom ms (i + 1) idx else m :: remFrom ms (i + 1) idx := by
  simp only [remFrom, List.zipIdx_cons, List.filter_cons]
  by_cases h : i ∈ idx <;> simp [h]

theorem remFrom_sublist (l : List Msg) (i : Nat) (idx : List Nat) : (remFrom l i idx).Sublist l := by
  induction l generalizing i with
  | nil => simp
  | cons m ms ih =>
    rw [remFrom_cons]
    split
    · exact (ih _).trans (List.sublist_cons_self _ _)
    · exact (ih _).cons_cons _

theorem mem_removeIndices {l : List Msg} {idx : List Nat} {x : Msg} (h : x ∈ removeIndices l idx) : x ∈ l :=
  (remFrom_sublist l 0 idx).subset h

/-! ### one step of the fold -/

/-- the state after the imputed note-off (if the key of the note-on `m` is still open) -/
def preOn (s : QSt) (m : Msg) (t : Int) : QSt :=
  if s.opens.contains m.nkey then
    { s with out := Msg.mkOff m.ch m.note t :: s.out, opens := s.opens.erase m.nkey,
             timings := s.timings.set m.nkey ((s.timings.get? m.nkey).getD [] ++ [t]) }
  else s

def pushOn (s : QSt) (m : Msg) (t : Int) : QSt :=
  { s with out := { m with time := t } :: s.out, opens := s.opens.set m.nkey t,
           timings := s.timings.set m.nkey [t] }

def validOf (steps : List Int) (m : Msg) (openT : Int) : List Int :=
  if ((possiblePositions steps m.time).filter (fun p => !(p - openT <= 0))).length == 0 then [openT]
  else (possiblePositions steps m.time).filter (fun p => !(p - openT <= 0))

def pushOff (s : QSt) (m : Msg) (t : Int) : QSt :=
  { s with out := { m with time := t } :: s.out, opens := s.opens.erase m.nkey,
           timings := s.timings.set m.nkey ((s.timings.get? m.nkey).getD [] ++ [t]) }

theorem qStep_cases {steps : List Int} {s : QSt} {m : Msg} {s' : QSt} (h : qStep steps s m = .ok s') :
    (m.ty = .noteOn ∧ ∃ t, nearest m.time (possiblePositions steps m.time) = .ok t ∧
        (s' = pushOn (preOn s m t) m t ∨ s' = preOn s m t)) ∨
    (m.ty = .noteOff ∧ ((∃ openT t, s.opens.get? m.nkey = some openT ∧
          nearest m.time (validOf steps m openT) = .ok t ∧ s' = pushOff s m t) ∨ s' = s)) ∨
    (m.ty ≠ .noteOn ∧ m.ty ≠ .noteOff ∧ ∃ t, nearest m.time (possiblePositions steps m.time) = .ok t ∧
        s' = { s with out := { m with time := t } :: s.out }) := by
  unfold qStep at h
  simp only [bind, Except.bind] at h
  split at h
  · rename_i hty
    refine Or.inl ⟨hty, ?_⟩
    split at h
    · cases h
    · rename_i t ht
      refine ⟨t, ht, ?_⟩
      change (match (preOn s m t).timings.get? m.nkey with
        | Option.none => Except.ok (pushOn (preOn s m t) m t)
        | some tm => match tm[1]? with
          | Option.none => Except.error Err.indexError
          | some lastOff => if (!decide (t < lastOff)) = true then Except.ok (pushOn (preOn s m t) m t)
              else Except.ok (preOn s m t)) = Except.ok s' at h
      split at h
      · cases h; exact Or.inl rfl
      · split at h
        · cases h
        · split at h
          · cases h; exact Or.inl rfl
          · cases h; exact Or.inr rfl
  · rename_i hty
    refine Or.inr (Or.inl ⟨hty, ?_⟩)
    split at h
    · rename_i openT hopen
      split at h
      · cases h
      · rename_i t ht
        cases h
        exact Or.inl ⟨openT, t, hopen, ht, rfl⟩
    · cases h; exact Or.inr rfl
  · rename_i h1 h2
    refine Or.inr (Or.inr ⟨fun e => h1 e, fun e => h2 e, ?_⟩)
    split at h
    · cases h
    · rename_i t ht
      cases h
      exact ⟨t, ht, rfl⟩

/-! ### times and types of the produced messages (no assumption on the input) -/

theorem mem_validOf {steps : List Int} {m : Msg} {openT t : Int} (h : t ∈ validOf steps m openT) :
    (t = openT ∧ ¬ ∃ p ∈ possiblePositions steps m.time, openT < p) ∨
    (t ∈ possiblePositions steps m.time ∧ openT < t) := by
  unfold validOf at h
  split at h
  · rename_i h0
    left
    refine ⟨by simpa using h, ?_⟩
    rintro ⟨p, hp, hlt⟩
    have h0' : (possiblePositions steps m.time).filter (fun p => !(decide (p - openT <= 0))) = [] := by
      simpa using h0
    have : p ∈ (possiblePositions steps m.time).filter (fun p => !(decide (p - openT <= 0))) := by
      simp only [List.mem_filter]
      refine ⟨hp, ?_⟩
      simp; omega
    rw [h0'] at this
    cases this
  · right
    simp only [List.mem_filter] at h
    refine ⟨h.1, ?_⟩
    have := h.2
    simp at this; omega

theorem validOf_ne_nil (steps : List Int) (m : Msg) (openT : Int) : validOf steps m openT ≠ [] := by
  unfold validOf
  split
  · simp
  · rename_i h; simpa using h

def TimeInv (a : List Msg) (T : Int → Prop) (s : QSt) : Prop :=
  (∀ x ∈ s.out, T x.time ∧ (x.ty = .noteOff ∨ ∃ m ∈ a, x.ty = m.ty)) ∧ ∀ kv ∈ s.opens, T kv.2

theorem timeInv_preOn {a : List Msg} {T : Int → Prop} {s : QSt} (m : Msg) {t : Int} (ht : T t)
    (h : TimeInv a T s) : TimeInv a T (preOn s m t) := by
  unfold preOn
  split
  · refine ⟨?_, ?_⟩
    · intro x hx
      rcases List.mem_cons.1 hx with rfl | hx
      · exact ⟨ht, Or.inl rfl⟩
      · exact h.1 x hx
    · intro kv hkv
      exact h.2 kv (mem_erase hkv)
  · exact h

theorem timeInv_step {steps : List Int} {a : List Msg} {T : Int → Prop}
    (hT : ∀ m ∈ a, ∀ p ∈ possiblePositions steps m.time, T p)
    {s s' : QSt} {m : Msg} (hm : m ∈ a) (h : TimeInv a T s) (hq : qStep steps s m = .ok s') :
    TimeInv a T s' := by
  rcases qStep_cases hq with ⟨_, t, ht, hs⟩ | ⟨hty, hs⟩ | ⟨_, _, t, ht, rfl⟩
  · have hTt : T t := hT m hm t (nearest_mem ht)
    have h1 := timeInv_preOn m hTt h
    rcases hs with rfl | rfl
    · refine ⟨?_, ?_⟩
      · intro x hx
        rcases List.mem_cons.1 hx with rfl | hx
        · exact ⟨hTt, Or.inr ⟨m, hm, rfl⟩⟩
        · exact h1.1 x hx
      · intro kv hkv
        rcases mem_set hkv with hkv | rfl
        · exact h1.2 kv hkv
        · exact hTt
    · exact h1
  · rcases hs with ⟨openT, t, hopen, ht, rfl⟩ | rfl
    · have hTt : T t := by
        rcases mem_validOf (nearest_mem ht) with ⟨rfl, _⟩ | ⟨hp, _⟩
        · exact h.2 _ (mem_of_get? hopen)
        · exact hT m hm t hp
      refine ⟨?_, ?_⟩
      · intro x hx
        rcases List.mem_cons.1 hx with rfl | hx
        · exact ⟨hTt, Or.inr ⟨m, hm, rfl⟩⟩
        · exact h.1 x hx
      · intro kv hkv
        exact h.2 kv (mem_erase hkv)
    · exact h
  · have hTt : T t := hT m hm t (nearest_mem ht)
    refine ⟨?_, h.2⟩
    intro x hx
    rcases List.mem_cons.1 hx with rfl | hx
    · exact ⟨hTt, Or.inr ⟨m, hm, rfl⟩⟩
    · exact h.1 x hx

/-- unfolding of `quantise` -/
theorem quantise_ok {steps : List Int} {a out : List Msg} (h : quantise steps a = .ok out) :
    ∃ s idx, foldlM' (qStep steps) {} a = .ok s ∧ collapsedGo s.out.reverse 0 [] [] = .ok idx ∧
      out = sortAbs (removeIndices s.out.reverse idx) := by
  unfold quantise at h
  simp only [bind, Except.bind] at h
  split at h
  · cases h
  · rename_i s hs
    split at h
    · cases h
    · rename_i idx hidx
      cases h
      exact ⟨s, idx, hs, hidx, rfl⟩

theorem mem_quantise {steps : List Int} {a out : List Msg} (h : quantise steps a = .ok out) :
    ∃ s, foldlM' (qStep steps) {} a = .ok s ∧ ∀ x ∈ out, x ∈ s.out := by
  obtain ⟨s, idx, hs, _, rfl⟩ := quantise_ok h
  refine ⟨s, hs, ?_⟩
  intro x hx
  have := mem_removeIndices ((mem_sortAbs _ _).1 hx)
  simpa using this

/-- every message of the result has a time satisfying `T` (a property of all candidate positions)
    and the type of some input message (or is a note-off) -/
theorem quantise_times {steps : List Int} {a out : List Msg} {T : Int → Prop}
    (hT : ∀ m ∈ a, ∀ p ∈ possiblePositions steps m.time, T p)
    (h : quantise steps a = .ok out) :
    ∀ x ∈ out, T x.time ∧ (x.ty = .noteOff ∨ ∃ m ∈ a, x.ty = m.ty) := by
  obtain ⟨s, hs, hsub⟩ := mem_quantise h
  have := foldlM'_inv (qStep steps) (TimeInv a T) a
    (fun b x b' hx hb hq => timeInv_step hT hx hb hq) {} s ⟨by simp, by simp⟩ hs
  intro x hx
  exact this.1 x (hsub x hx)


/-! ### the collapsed indices -/

def IsNoteTy (m : Msg) : Prop := m.ty = .noteOn ∨ m.ty = .noteOff

theorem collapsedGo_idx (l : List Msg) : ∀ (i : Nat) (tbl : Assoc (Int × Int) (Nat × Int)) (acc idx : List Nat),
    collapsedGo l i tbl acc = .ok idx →
    (∀ x ∈ acc, x ∈ idx) ∧
    ∀ x ∈ idx, x ∈ acc ∨ (∃ kv ∈ tbl, kv.2.1 = x) ∨ (i ≤ x ∧ ∃ m, l[x - i]? = some m ∧ IsNoteTy m) := by
  induction l with
  | nil =>
    intro i tbl acc idx h
    simp only [collapsedGo] at h
    cases h
    exact ⟨fun x hx => hx, fun x hx => Or.inl hx⟩
  | cons m ms ih =>
    intro i tbl acc idx h
    have hshift : ∀ x, i + 1 ≤ x → (m :: ms)[x - i]? = ms[x - (i + 1)]? := by
      intro x hx
      have : x - i = (x - (i + 1)) + 1 := by omega
      rw [this, List.getElem?_cons_succ]
    simp only [collapsedGo] at h
    split at h
    · rename_i hty
      obtain ⟨h1, h2⟩ := ih _ _ _ _ h
      refine ⟨h1, ?_⟩
      intro x hx
      rcases h2 x hx with hx | ⟨kv, hkv, rfl⟩ | ⟨hle, m', hm', hn⟩
      · exact Or.inl hx
      · rcases mem_set hkv with hkv | rfl
        · exact Or.inr (Or.inl ⟨kv, hkv, rfl⟩)
        · exact Or.inr (Or.inr ⟨Nat.le_refl _, m, by simp, Or.inl hty⟩)
      · exact Or.inr (Or.inr ⟨by omega, m', by rw [hshift x hle]; exact hm', hn⟩)
    · rename_i hty
      split at h
      · cases h
      · rename_i j t hget
        obtain ⟨h1, h2⟩ := ih _ _ _ _ h
        refine ⟨?_, ?_⟩
        · intro x hx
          apply h1
          split
          · exact List.mem_append_left _ hx
          · exact hx
        · intro x hx
          rcases h2 x hx with hx | ⟨kv, hkv, rfl⟩ | ⟨hle, m', hm', hn⟩
          · have : x ∈ acc ∨ x = j ∨ x = i := by
              split at hx
              · simpa using hx
              · exact Or.inl hx
            rcases this with hx | rfl | rfl
            · exact Or.inl hx
            · exact Or.inr (Or.inl ⟨_, mem_of_get? hget, rfl⟩)
            · exact Or.inr (Or.inr ⟨Nat.le_refl _, m, by simp, Or.inr hty⟩)
          · exact Or.inr (Or.inl ⟨kv, mem_erase hkv, rfl⟩)
          · exact Or.inr (Or.inr ⟨by omega, m', by rw [hshift x hle]; exact hm', hn⟩)
    · obtain ⟨h1, h2⟩ := ih _ _ _ _ h
      refine ⟨h1, ?_⟩
      intro x hx
      rcases h2 x hx with hx | hx | ⟨hle, m', hm', hn⟩
      · exact Or.inl hx
      · exact Or.inr (Or.inl hx)
      · exact Or.inr (Or.inr ⟨by omega, m', by rw [hshift x hle]; exact hm', hn⟩)

@[simp] theorem nonNotes_nil : nonNotes [] = [] := rfl

theorem nonNotes_cons (m : Msg) (l : List Msg) :
    nonNotes (m :: l) = if m.ty = .noteOn ∨ m.ty = .noteOff then nonNotes l else m :: nonNotes l := by
  simp only [nonNotes, List.filter_cons]
  by_cases h1 : m.ty = .noteOn
  · simp [h1]
  · by_cases h2 : m.ty = .noteOff
    · simp [h2]
    · simp [h1, h2]

theorem nonNotes_remFrom (l : List Msg) : ∀ (i : Nat) (idx : List Nat),
    (∀ x ∈ idx, i ≤ x → ∀ m, l[x - i]? = some m → IsNoteTy m) →
    nonNotes (remFrom l i idx) = nonNotes l := by
  induction l with
  | nil => intro i idx _; rfl
  | cons m ms ih =>
    intro i idx h
    have ih' := ih (i + 1) idx (by
      intro x hx hle m' hm'
      apply h x hx (by omega) m'
      have : x - i = (x - (i + 1)) + 1 := by omega
      rw [this, List.getElem?_cons_succ]; exact hm')
    rw [remFrom_cons]
    split
    · rename_i hi
      have := h i hi (Nat.le_refl _) m (by simp)
      rw [ih', nonNotes_cons, if_pos (show m.ty = .noteOn ∨ m.ty = .noteOff from this)]
    · rw [nonNotes_cons, nonNotes_cons, ih']

theorem nonNotes_removeIndices {q : List Msg} {idx : List Nat} (h : collapsedGo q 0 [] [] = .ok idx) :
    nonNotes (removeIndices q idx) = nonNotes q := by
  rw [removeIndices_eq]
  apply nonNotes_remFrom
  intro x hx _ m hm
  rcases (collapsedGo_idx q 0 [] [] idx h).2 x hx with hx | ⟨kv, hkv, _⟩ | ⟨_, m', hm', hn⟩
  · cases hx
  · cases hkv
  · rw [hm] at hm'; cases hm'; exact hn

/-! ### non-note messages are all kept -/

/-- erase the time -/
def zt (m : Msg) : Msg := { m with time := 0 }

theorem nonNotes_step {steps : List Int} {s s' : QSt} {m : Msg} (hq : qStep steps s m = .ok s') :
    (nonNotes s'.out).map zt = (nonNotes [m]).map zt ++ (nonNotes s.out).map zt := by
  have hpre : ∀ t, nonNotes (preOn s m t).out = nonNotes s.out := by
    intro t
    unfold preOn
    split
    · simp [nonNotes_cons, Msg.mkOff]
    · rfl
  rcases qStep_cases hq with ⟨hty, t, ht, hs⟩ | ⟨hty, hs⟩ | ⟨h1, h2, t, ht, rfl⟩
  · rcases hs with rfl | rfl
    · simp [pushOn, nonNotes_cons, hty, hpre]
    · simp [nonNotes_cons, hty, hpre]
  · rcases hs with ⟨openT, t, hopen, ht, rfl⟩ | rfl
    · simp [pushOff, nonNotes_cons, hty]
    · simp [nonNotes_cons, hty]
  · simp [nonNotes_cons, h1, h2, zt]

theorem nonNotes_fold {steps : List Int} (l : List Msg) : ∀ (s s' : QSt),
    foldlM' (qStep steps) s l = .ok s' →
    ((nonNotes s'.out).map zt).Perm ((nonNotes l).map zt ++ (nonNotes s.out).map zt) := by
  induction l with
  | nil => intro s s' h; simp only [foldlM'] at h; cases h; simp [nonNotes]
  | cons x xs ih =>
    intro s s' h
    simp only [foldlM'] at h
    split at h
    · rename_i s1 hs1
      have h1 := ih s1 s' h
      rw [nonNotes_step hs1] at h1
      refine h1.trans ?_
      have : nonNotes (x :: xs) = nonNotes [x] ++ nonNotes xs := by
        show nonNotes ([x] ++ xs) = _
        unfold nonNotes; rw [List.filter_append]
      rw [this, List.map_append, ← List.append_assoc]
      exact List.Perm.append_right _ List.perm_append_comm
    · cases h

theorem quantise_nonNotes {steps : List Int} {a out : List Msg} (h : quantise steps a = .ok out) :
    ((nonNotes out).map zt).Perm ((nonNotes a).map zt) := by
  obtain ⟨s, idx, hs, hidx, rfl⟩ := quantise_ok h
  have h1 : (nonNotes (sortAbs (removeIndices s.out.reverse idx))).Perm (nonNotes s.out) := by
    unfold nonNotes
    refine ((sortAbs_perm _).filter _).trans ?_
    have := nonNotes_removeIndices hidx
    unfold nonNotes at this
    rw [this, List.filter_reverse]
    exact List.reverse_perm _
  refine (h1.map zt).trans ?_
  have := nonNotes_fold a {} s hs
  simpa [nonNotes] using this


/-! ### evaluation of one step -/

theorem qStep_on {steps : List Int} {s : QSt} {m : Msg} {t : Int} (hty : m.ty = .noteOn)
    (ht : nearest m.time (possiblePositions steps m.time) = .ok t) :
    qStep steps s m = (match (preOn s m t).timings.get? m.nkey with
        | Option.none => Except.ok (pushOn (preOn s m t) m t)
        | some tm => match tm[1]? with
          | Option.none => Except.error Err.indexError
          | some lastOff => if (!decide (t < lastOff)) = true then Except.ok (pushOn (preOn s m t) m t)
              else Except.ok (preOn s m t)) := by
  unfold qStep
  simp only [bind, Except.bind]
  split
  · rw [ht]; rfl
  · rename_i h; rw [hty] at h; cases h
  · rename_i h _; exact absurd hty h

theorem qStep_off_open {steps : List Int} {s : QSt} {m : Msg} {openT t : Int} (hty : m.ty = .noteOff)
    (hopen : s.opens.get? m.nkey = some openT)
    (ht : nearest m.time (validOf steps m openT) = .ok t) :
    qStep steps s m = .ok (pushOff s m t) := by
  unfold qStep
  simp only [bind, Except.bind]
  split
  · rename_i h; rw [hty] at h; cases h
  · rw [hopen]
    simp only []
    unfold validOf at ht
    rw [ht]
    rfl
  · rename_i _ h; exact absurd hty h

theorem qStep_off_closed {steps : List Int} {s : QSt} {m : Msg} (hty : m.ty = .noteOff)
    (hopen : s.opens.get? m.nkey = Option.none) :
    qStep steps s m = .ok s := by
  unfold qStep
  simp only [bind, Except.bind]
  split
  · rename_i h; rw [hty] at h; cases h
  · rw [hopen]
  · rename_i _ h; exact absurd hty h

theorem qStep_other {steps : List Int} {s : QSt} {m : Msg} {t : Int} (h1 : m.ty ≠ .noteOn) (h2 : m.ty ≠ .noteOff)
    (ht : nearest m.time (possiblePositions steps m.time) = .ok t) :
    qStep steps s m = .ok { s with out := { m with time := t } :: s.out } := by
  unfold qStep
  simp only [bind, Except.bind]
  rw [ht]


/-! ### per-key alternation with times -/

/-- state of one key: closed (with an optional lower bound for the next onset) or open (with the onset) -/
inductive KS
  | cl (b : Option Int)
  | op (t : Int)

def ble : Option Int → Int → Prop
  | Option.none, _ => True
  | some b, x => b ≤ x

/-- the note events of key `k` alternate, `on.time ≤ off.time ≤ next on.time`; `P` holds for every note-on and
    for every note-off that is strictly after its note-on -/
def altQ (k : Int × Int) (P : Msg → Prop) : KS → List Msg → Prop
  | .cl _, [] => True
  | .op _, [] => False
  | .cl b, m :: ms =>
    if m.nkey = k ∧ m.ty = .noteOn then ble b m.time ∧ P m ∧ altQ k P (.op m.time) ms
    else if m.nkey = k ∧ m.ty = .noteOff then False
    else altQ k P (.cl b) ms
  | .op t, m :: ms =>
    if m.nkey = k ∧ m.ty = .noteOn then False
    else if m.nkey = k ∧ m.ty = .noteOff then t ≤ m.time ∧ (t < m.time → P m) ∧ altQ k P (.cl (some m.time)) ms
    else altQ k P (.op t) ms

/-- the same with strictly positive lengths, `P` for every note event -/
def altT (k : Int × Int) (P : Msg → Prop) : KS → List Msg → Prop
  | .cl _, [] => True
  | .op _, [] => False
  | .cl b, m :: ms =>
    if m.nkey = k ∧ m.ty = .noteOn then ble b m.time ∧ P m ∧ altT k P (.op m.time) ms
    else if m.nkey = k ∧ m.ty = .noteOff then False
    else altT k P (.cl b) ms
  | .op t, m :: ms =>
    if m.nkey = k ∧ m.ty = .noteOn then False
    else if m.nkey = k ∧ m.ty = .noteOff then t < m.time ∧ P m ∧ altT k P (.cl (some m.time)) ms
    else altT k P (.op t) ms

theorem altQ_skip {k : Int × Int} {P : Msg → Prop} {st : KS} {m : Msg} {ms : List Msg}
    (h1 : ¬ (m.nkey = k ∧ m.ty = .noteOn)) (h2 : ¬ (m.nkey = k ∧ m.ty = .noteOff)) :
    altQ k P st (m :: ms) = altQ k P st ms := by
  cases st <;> simp only [altQ, if_neg h1, if_neg h2]

theorem altT_skip {k : Int × Int} {P : Msg → Prop} {st : KS} {m : Msg} {ms : List Msg}
    (h1 : ¬ (m.nkey = k ∧ m.ty = .noteOn)) (h2 : ¬ (m.nkey = k ∧ m.ty = .noteOff)) :
    altT k P st (m :: ms) = altT k P st ms := by
  cases st <;> simp only [altT, if_neg h1, if_neg h2]

theorem altFrom_skip {k : Int × Int} {b : Bool} {m : Msg} {ms : List Msg}
    (h1 : ¬ (m.nkey = k ∧ m.ty = .noteOn)) (h2 : ¬ (m.nkey = k ∧ m.ty = .noteOff)) :
    altFrom k b (m :: ms) = altFrom k b ms := by
  simp only [altFrom, if_neg h1, if_neg h2]

/-! ### the fold on well-formed input -/

structure SInv (s : QSt) : Prop where
  nodup : NodupKeys s.opens
  opn : ∀ k t, s.opens.get? k = some t → s.timings.get? k = some [t]
  cls : ∀ k tm, s.opens.get? k = Option.none → s.timings.get? k = some tm → ∃ t0 t1, tm = [t0, t1]

def ksOf (s : QSt) (k : Int × Int) : KS :=
  match s.opens.get? k with
  | some t => .op t
  | Option.none => .cl ((s.timings.get? k).bind (fun tm => tm[1]?))

/-- what is left of a well-formed input: every key alternates, and a key that is open in the state is open
    in the input (the converse fails when a note-on was dropped) -/
def InAlt (s : QSt) (l : List Msg) : Prop :=
  ∀ k, ∃ b, altFrom k b l ∧ (s.opens.contains k = true → b = true)

/-- the message is an input message moved to one of its candidate positions -/
def Cand (steps : List Int) (a : List Msg) (x : Msg) : Prop :=
  ∃ m ∈ a, x = { m with time := x.time } ∧ x.time ∈ possiblePositions steps m.time

theorem sInv_pushOn {s : QSt} (h : SInv s) (m : Msg) (t : Int) : SInv (pushOn s m t) := by
  refine ⟨nodupKeys_set h.nodup _ _, ?_, ?_⟩
  · intro k t' hk
    by_cases hkk : m.nkey = k
    · simp only [pushOn, get?_set, if_pos hkk] at hk ⊢
      cases hk; rfl
    · simp only [pushOn, get?_set, if_neg hkk] at hk ⊢
      exact h.opn k t' hk
  · intro k tm hk htm
    by_cases hkk : m.nkey = k
    · simp only [pushOn, get?_set, if_pos hkk] at hk
      cases hk
    · simp only [pushOn, get?_set, if_neg hkk] at hk htm
      exact h.cls k tm hk htm

theorem sInv_pushOff {s : QSt} (h : SInv s) (m : Msg) (t openT : Int)
    (hopen : s.opens.get? m.nkey = some openT) : SInv (pushOff s m t) := by
  refine ⟨nodupKeys_erase h.nodup _, ?_, ?_⟩
  · intro k t' hk
    by_cases hkk : m.nkey = k
    · simp only [pushOff, get?_erase h.nodup, if_pos hkk] at hk
      cases hk
    · simp only [pushOff, get?_set, get?_erase h.nodup, if_neg hkk] at hk ⊢
      exact h.opn k t' hk
  · intro k tm hk htm
    by_cases hkk : m.nkey = k
    · simp only [pushOff, get?_set, if_pos hkk] at htm
      cases htm
      rw [h.opn _ _ hopen]
      exact ⟨openT, t, rfl⟩
    · simp only [pushOff, get?_set, get?_erase h.nodup, if_neg hkk] at hk htm
      exact h.cls k tm hk htm

theorem ksOf_pushOn (s : QSt) (m : Msg) (t : Int) (k : Int × Int) :
    ksOf (pushOn s m t) k = if m.nkey = k then .op t else ksOf s k := by
  by_cases hkk : m.nkey = k
  · simp only [ksOf, pushOn, get?_set, if_pos hkk]
  · simp only [ksOf, pushOn, get?_set, if_neg hkk]

theorem ksOf_pushOff {s : QSt} (h : SInv s) (m : Msg) (t openT : Int)
    (hopen : s.opens.get? m.nkey = some openT) (k : Int × Int) :
    ksOf (pushOff s m t) k = if m.nkey = k then .cl (some t) else ksOf s k := by
  by_cases hkk : m.nkey = k
  · simp only [ksOf, pushOff, get?_set, get?_erase h.nodup, if_pos hkk]
    simp [h.opn _ _ hopen]
  · simp only [ksOf, pushOff, get?_set, get?_erase h.nodup, if_neg hkk]

theorem contains_false {s : QSt} {k : Int × Int} (h : s.opens.contains k = false) :
    s.opens.get? k = Option.none := by
  simpa [contains_eq] using h


theorem inAlt_other {s s1 : QSt} {m : Msg} {l : List Msg} (hin : InAlt s (m :: l)) (k : Int × Int)
    (hk : m.nkey ≠ k ∨ (m.ty ≠ .noteOn ∧ m.ty ≠ .noteOff))
    (hc : s1.opens.contains k = true → s.opens.contains k = true) :
    ∃ b, altFrom k b l ∧ (s1.opens.contains k = true → b = true) := by
  obtain ⟨b, hb, hbo⟩ := hin k
  rw [altFrom_skip (by rcases hk with hk | hk <;> simp [hk]) (by rcases hk with hk | hk <;> simp [hk])] at hb
  exact ⟨b, hb, fun h => hbo (hc h)⟩

theorem qStep_wf {steps : List Int} (hne : steps ≠ []) {a : List Msg} {s : QSt} {m : Msg} {l : List Msg}
    (hs : SInv s) (hin : InAlt s (m :: l)) (hm : m ∈ a) :
    ∃ s1 x, qStep steps s m = .ok s1 ∧ s1.out.reverse = s.out.reverse ++ x ∧ SInv s1 ∧ InAlt s1 l ∧
      (∀ k nw, altQ k (Cand steps a) (ksOf s1 k) nw → altQ k (Cand steps a) (ksOf s k) (x ++ nw)) ∧
      (∀ y ∈ x, ¬ IsNoteTy y → Cand steps a y) := by
  by_cases hon : m.ty = .noteOn
  · obtain ⟨t, ht, htmem, _⟩ := nearest_ok m.time _ (possiblePositions_ne_nil hne m.time)
    obtain ⟨b, hb, hbo⟩ := hin m.nkey
    rw [altFrom, if_pos ⟨rfl, hon⟩] at hb
    obtain ⟨hbf, hrest⟩ := hb
    have hc : s.opens.contains m.nkey = false := by
      cases h : s.opens.contains m.nkey
      · rfl
      · have := hbo h; rw [hbf] at this; cases this
    have hnone := contains_false hc
    have hpre : preOn s m t = s := by simp [preOn, hc]
    have hcand : Cand steps a { m with time := t } := ⟨m, hm, rfl, htmem⟩
    have hq := qStep_on (s := s) hon ht
    rw [hpre] at hq
    have hin1 : InAlt (pushOn s m t) l := by
      intro k
      by_cases hk : m.nkey = k
      · subst hk; exact ⟨true, hrest, fun _ => rfl⟩
      · apply inAlt_other hin k (Or.inl hk)
        intro hcon
        simpa [pushOn, contains_eq, get?_set, hk] using hcon
    have hin0 : InAlt s l := by
      intro k
      by_cases hk : m.nkey = k
      · subst hk; exact ⟨true, hrest, fun _ => rfl⟩
      · exact inAlt_other hin k (Or.inl hk) (fun h => h)
    have htr : ∀ bd, ksOf s m.nkey = .cl bd → ble bd t → ∀ k nw, altQ k (Cand steps a) (ksOf (pushOn s m t) k) nw →
        altQ k (Cand steps a) (ksOf s k) ([{ m with time := t }] ++ nw) := by
      intro bd hbd hble k nw h
      rw [ksOf_pushOn] at h
      by_cases hk : m.nkey = k
      · subst hk
        rw [if_pos rfl] at h
        rw [hbd]
        show altQ _ _ (.cl bd) ({ m with time := t } :: nw)
        rw [altQ, if_pos ⟨rfl, hon⟩]
        exact ⟨hble, hcand, h⟩
      · rw [if_neg hk] at h
        show altQ _ _ _ ({ m with time := t } :: nw)
        rw [altQ_skip (m := { m with time := t }) (fun h => hk h.1) (fun h => hk h.1)]
        exact h
    have hnn : ∀ y ∈ [{ m with time := t }], ¬ IsNoteTy y → Cand steps a y := by
      intro y hy _
      simp at hy; subst hy; exact hcand
    cases htm : s.timings.get? m.nkey with
    | none =>
      rw [htm] at hq
      refine ⟨_, [{ m with time := t }], hq, by simp [pushOn], sInv_pushOn hs m t, hin1,
        htr Option.none (by simp [ksOf, hnone, htm]) trivial, hnn⟩
    | some tm =>
      obtain ⟨t0, t1, rfl⟩ := hs.cls _ _ hnone htm
      rw [htm] at hq
      simp only [List.getElem?_cons_succ, List.getElem?_cons_zero] at hq
      by_cases hlt : t < t1
      · simp only [hlt, decide_true, Bool.not_true, Bool.false_eq_true, if_false] at hq
        refine ⟨_, [], hq, by simp, hs, hin0, fun k nw h => h, by simp⟩
      · simp only [hlt, decide_false, Bool.not_false, if_true] at hq
        refine ⟨_, [{ m with time := t }], hq, by simp [pushOn], sInv_pushOn hs m t, hin1,
          htr (some t1) (by simp [ksOf, hnone, htm]) (by show t1 ≤ t; omega), hnn⟩
  · by_cases hoff : m.ty = .noteOff
    · obtain ⟨b, hb, hbo⟩ := hin m.nkey
      rw [altFrom, if_neg (by simp [hoff]), if_pos ⟨rfl, hoff⟩] at hb
      obtain ⟨hbt, hrest⟩ := hb
      cases hopen : s.opens.get? m.nkey with
      | none =>
        refine ⟨s, [], qStep_off_closed hoff hopen, by simp, hs, ?_, fun k nw h => h, by simp⟩
        intro k
        by_cases hk : m.nkey = k
        · subst hk
          refine ⟨false, hrest, ?_⟩
          intro h; simp [contains_eq, hopen] at h
        · exact inAlt_other hin k (Or.inl hk) (fun h => h)
      | some openT =>
        obtain ⟨t, ht, htmem, _⟩ := nearest_ok m.time _ (validOf_ne_nil steps m openT)
        refine ⟨_, [{ m with time := t }], qStep_off_open hoff hopen ht, by simp [pushOff],
          sInv_pushOff hs m t openT hopen, ?_, ?_, ?_⟩
        · intro k
          by_cases hk : m.nkey = k
          · subst hk
            refine ⟨false, hrest, ?_⟩
            intro h; simp [contains_eq, pushOff, get?_erase hs.nodup] at h
          · apply inAlt_other hin k (Or.inl hk)
            intro hcon
            simpa [pushOff, contains_eq, get?_erase hs.nodup, hk] using hcon
        · intro k nw h
          rw [ksOf_pushOff hs m t openT hopen] at h
          show altQ _ _ _ ({ m with time := t } :: nw)
          by_cases hk : m.nkey = k
          · subst hk
            rw [if_pos rfl] at h
            have : ksOf s m.nkey = .op openT := by simp [ksOf, hopen]
            rw [this, altQ, if_neg (by simp [hoff]), if_pos ⟨rfl, hoff⟩]
            rcases mem_validOf htmem with ⟨rfl, _⟩ | ⟨hp, hlt⟩
            · exact ⟨Int.le_refl _, fun h => absurd h (Int.lt_irrefl _), h⟩
            · exact ⟨Int.le_of_lt hlt, fun _ => ⟨m, hm, rfl, hp⟩, h⟩
          · rw [if_neg hk] at h
            rw [altQ_skip (m := { m with time := t }) (fun h => hk h.1) (fun h => hk h.1)]
            exact h
        · intro y hy hn
          simp at hy; subst hy
          exact absurd (Or.inr hoff) hn
    · obtain ⟨t, ht, htmem, _⟩ := nearest_ok m.time _ (possiblePositions_ne_nil hne m.time)
      refine ⟨_, [{ m with time := t }], qStep_other hon hoff ht, by simp, ⟨hs.nodup, hs.opn, hs.cls⟩, ?_, ?_, ?_⟩
      · intro k
        exact inAlt_other hin k (Or.inr ⟨hon, hoff⟩) (fun h => h)
      · intro k nw h
        show altQ _ _ _ ({ m with time := t } :: nw)
        rw [altQ_skip (by simp [hon]) (by simp [hoff])]
        exact h
      · intro y hy _
        simp at hy; subst hy
        exact ⟨m, hm, rfl, htmem⟩


theorem fold_wf {steps : List Int} (hne : steps ≠ []) {a : List Msg} (l : List Msg) : ∀ (s : QSt),
    SInv s → InAlt s l → (∀ m ∈ l, m ∈ a) →
    ∃ s' nw, foldlM' (qStep steps) s l = .ok s' ∧ s'.out.reverse = s.out.reverse ++ nw ∧
      (∀ k, altQ k (Cand steps a) (ksOf s k) nw) ∧ (∀ y ∈ nw, ¬ IsNoteTy y → Cand steps a y) := by
  induction l with
  | nil =>
    intro s _ hin _
    refine ⟨s, [], rfl, by simp, ?_, by simp⟩
    intro k
    obtain ⟨b, hb, hbo⟩ := hin k
    simp only [altFrom] at hb
    have hc : s.opens.contains k = false := by
      cases h : s.opens.contains k
      · rfl
      · have := hbo h; rw [hb] at this; cases this
    simp [ksOf, contains_false hc, altQ]
  | cons m ms ih =>
    intro s hs hin hsub
    obtain ⟨s1, x, hq, hout, hs1, hin1, htr, hnn⟩ := qStep_wf hne hs hin (hsub m List.mem_cons_self)
    obtain ⟨s', nw, hf, hout', halt, hnn'⟩ := ih s1 hs1 hin1 (fun y hy => hsub y (List.mem_cons_of_mem _ hy))
    refine ⟨s', x ++ nw, ?_, ?_, ?_, ?_⟩
    · simp only [foldlM', hq]; exact hf
    · rw [hout', hout, List.append_assoc]
    · intro k; exact htr k nw (halt k)
    · intro y hy
      rcases List.mem_append.1 hy with hy | hy
      · exact hnn y hy
      · exact hnn' y hy

theorem sInv_init : SInv {} :=
  ⟨nodupKeys_nil, fun k t h => by simp [Assoc.get?] at h, fun k tm _ h => by simp [Assoc.get?] at h⟩

theorem inAlt_init {a : List Msg} (h : WF a) : InAlt {} a := by
  intro k
  exact ⟨false, h k, by intro h; cases h⟩

/-- on well-formed input the fold succeeds, and every key alternates in the produced list -/
theorem fold_wf_init {steps : List Int} (hne : steps ≠ []) {a : List Msg} (h : WF a) :
    ∃ s', foldlM' (qStep steps) {} a = .ok s' ∧
      (∀ k, altQ k (Cand steps a) (.cl Option.none) s'.out.reverse) ∧
      (∀ y ∈ s'.out.reverse, ¬ IsNoteTy y → Cand steps a y) := by
  obtain ⟨s', nw, hf, hout, halt, hnn⟩ := fold_wf hne (a := a) a {} sInv_init (inAlt_init h) (fun m hm => hm)
  have : s'.out.reverse = nw := by simpa using hout
  rw [← this] at halt hnn
  exact ⟨s', hf, halt, hnn⟩

/-! ### `collapsedGo` on an alternating list -/

theorem mem_erase_key {κ ν : Type} [DecidableEq κ] {d : Assoc κ ν} (h : NodupKeys d) {k : κ} {x : κ × ν}
    (hx : x ∈ d.erase k) : x.1 ≠ k := by
  induction d with
  | nil => simp [Assoc.erase] at hx
  | cons a d ih =>
    obtain ⟨k', w⟩ := a
    unfold NodupKeys at h
    rw [List.pairwise_cons] at h
    simp only [Assoc.erase] at hx
    split at hx
    · rename_i hk; subst hk
      exact fun e => h.1 x hx e.symm
    · rename_i hk
      rcases List.mem_cons.1 hx with rfl | hx
      · exact hk
      · exact ih h.2 hx

structure TInv (i : Nat) (tbl : Assoc (Int × Int) (Nat × Int)) (acc : List Nat) : Prop where
  nodup : NodupKeys tbl
  accLt : ∀ x ∈ acc, x < i
  tblLt : ∀ kv ∈ tbl, kv.2.1 < i ∧ kv.2.1 ∉ acc
  inj : ∀ kv ∈ tbl, ∀ kv' ∈ tbl, kv.2.1 = kv'.2.1 → kv.1 = kv'.1

theorem tInv_on {i : Nat} {tbl : Assoc (Int × Int) (Nat × Int)} {acc : List Nat} (h : TInv i tbl acc)
    (k : Int × Int) (t : Int) : TInv (i + 1) (tbl.set k (i, t)) acc := by
  refine ⟨nodupKeys_set h.nodup _ _, fun x hx => Nat.lt_succ_of_lt (h.accLt x hx), ?_, ?_⟩
  · intro kv hkv
    rcases mem_set hkv with hkv | rfl
    · exact ⟨Nat.lt_succ_of_lt (h.tblLt kv hkv).1, (h.tblLt kv hkv).2⟩
    · exact ⟨Nat.lt_succ_self _, fun hi => Nat.lt_irrefl _ (h.accLt _ hi)⟩
  · intro kv hkv kv' hkv' he
    rcases mem_set hkv with hkv | rfl <;> rcases mem_set hkv' with hkv' | rfl
    · exact h.inj kv hkv kv' hkv' he
    · have := (h.tblLt kv hkv).1; simp at he; omega
    · have := (h.tblLt kv' hkv').1; simp at he; omega
    · rfl

theorem tInv_off {i : Nat} {tbl : Assoc (Int × Int) (Nat × Int)} {acc : List Nat} (h : TInv i tbl acc)
    {k : Int × Int} {j : Nat} {t : Int} (hget : tbl.get? k = some (j, t)) (c : Prop) [Decidable c] :
    TInv (i + 1) (tbl.erase k) (if c then acc ++ [j, i] else acc) := by
  have hj := h.tblLt _ (mem_of_get? hget)
  refine ⟨nodupKeys_erase h.nodup _, ?_, ?_, ?_⟩
  · intro x hx
    split at hx
    · simp at hx
      rcases hx with hx | rfl | rfl
      · exact Nat.lt_succ_of_lt (h.accLt x hx)
      · exact Nat.lt_succ_of_lt hj.1
      · exact Nat.lt_succ_self _
    · exact Nat.lt_succ_of_lt (h.accLt x hx)
  · intro kv hkv
    have hkv' := mem_erase hkv
    have h1 := h.tblLt kv hkv'
    refine ⟨Nat.lt_succ_of_lt h1.1, ?_⟩
    split
    · intro hx
      simp at hx
      rcases hx with hx | hx | hx
      · exact h1.2 hx
      · exact mem_erase_key h.nodup hkv (h.inj kv hkv' _ (mem_of_get? hget) hx)
      · omega
    · exact h1.2
  · intro kv hkv kv' hkv' he
    exact h.inj kv (mem_erase hkv) kv' (mem_erase hkv') he

theorem idx_off {i : Nat} {tbl : Assoc (Int × Int) (Nat × Int)} {acc : List Nat} (h : TInv i tbl acc)
    {k : Int × Int} {j : Nat} {t : Int} (hget : tbl.get? k = some (j, t)) (c : Prop) [Decidable c]
    {ms : List Msg} {idx : List Nat}
    (hgo : collapsedGo ms (i + 1) (tbl.erase k) (if c then acc ++ [j, i] else acc) = .ok idx) :
    (i ∈ idx ↔ c) ∧ (j ∈ idx ↔ c) := by
  obtain ⟨h1, h2⟩ := collapsedGo_idx _ _ _ _ _ hgo
  have hj := h.tblLt _ (mem_of_get? hget)
  by_cases hc : c
  · simp only [if_pos hc] at h1
    exact ⟨⟨fun _ => hc, fun _ => h1 i (by simp)⟩, ⟨fun _ => hc, fun _ => h1 j (by simp)⟩⟩
  · simp only [if_neg hc] at h2
    refine ⟨⟨fun hi => ?_, fun h => absurd h hc⟩, ⟨fun hi => ?_, fun h => absurd h hc⟩⟩
    · exfalso
      rcases h2 i hi with hx | ⟨kv, hkv, he⟩ | ⟨hle, _⟩
      · exact Nat.lt_irrefl _ (h.accLt _ hx)
      · have := (h.tblLt kv (mem_erase hkv)).1; omega
      · omega
    · exfalso
      rcases h2 j hi with hx | ⟨kv, hkv, he⟩ | ⟨hle, _⟩
      · exact hj.2 hx
      · exact mem_erase_key h.nodup hkv (h.inj kv (mem_erase hkv) _ (mem_of_get? hget) he)
      · have hj1 : j < i := hj.1
        omega

/-- the alternation state is the one recorded in the table -/
def KCons (tbl : Assoc (Int × Int) (Nat × Int)) (k : Int × Int) (st : KS) : Prop :=
  match tbl.get? k with
  | some (_, t) => st = .op t
  | Option.none => ∃ b, st = .cl b

theorem collapsedGo_ok {P : Msg → Prop} (l : List Msg) : ∀ (i : Nat) (tbl : Assoc (Int × Int) (Nat × Int))
    (acc : List Nat), NodupKeys tbl → (∀ k, ∃ st, altQ k P st l ∧ KCons tbl k st) →
    ∃ idx, collapsedGo l i tbl acc = .ok idx := by
  induction l with
  | nil => intro i tbl acc _ _; exact ⟨acc, rfl⟩
  | cons m ms ih =>
    intro i tbl acc hnd h
    by_cases hon : m.ty = .noteOn
    · simp only [collapsedGo, hon]
      apply ih _ _ _ (nodupKeys_set hnd _ _)
      intro k
      obtain ⟨st, hst, hc⟩ := h k
      by_cases hk : m.nkey = k
      · subst hk
        cases st with
        | op t => rw [altQ, if_pos ⟨rfl, hon⟩] at hst; cases hst
        | cl b =>
          rw [altQ, if_pos ⟨rfl, hon⟩] at hst
          exact ⟨_, hst.2.2, by simp [KCons, get?_set]⟩
      · rw [altQ_skip (fun h => hk h.1) (fun h => hk h.1)] at hst
        exact ⟨st, hst, by simpa [KCons, get?_set, hk] using hc⟩
    · by_cases hoff : m.ty = .noteOff
      · simp only [collapsedGo, hoff]
        obtain ⟨st0, hst0, hc0⟩ := h m.nkey
        cases hget : tbl.get? m.nkey with
        | none =>
          exfalso
          simp only [KCons, hget] at hc0
          obtain ⟨b, rfl⟩ := hc0
          rw [altQ, if_neg (by simp [hoff]), if_pos ⟨rfl, hoff⟩] at hst0
          exact hst0
        | some jt =>
          obtain ⟨j, t⟩ := jt
          simp only []
          apply ih _ _ _ (nodupKeys_erase hnd _)
          intro k
          by_cases hk : m.nkey = k
          · subst hk
            simp only [KCons, hget] at hc0
            subst hc0
            rw [altQ, if_neg (by simp [hoff]), if_pos ⟨rfl, hoff⟩] at hst0
            exact ⟨_, hst0.2.2, by simp [KCons, get?_erase hnd]⟩
          · obtain ⟨st, hst, hc⟩ := h k
            rw [altQ_skip (fun h => hk h.1) (fun h => hk h.1)] at hst
            exact ⟨st, hst, by simpa [KCons, get?_erase hnd, hk] using hc⟩
      · have : collapsedGo (m :: ms) i tbl acc = collapsedGo ms (i + 1) tbl acc := by
          simp only [collapsedGo]
        rw [this]
        apply ih _ _ _ hnd
        intro k
        obtain ⟨st, hst, hc⟩ := h k
        rw [altQ_skip (by simp [hon]) (by simp [hoff])] at hst
        exact ⟨st, hst, hc⟩


theorem quantise_total {steps : List Int} (hne : steps ≠ []) {a : List Msg} (h : WF a) :
    ∃ out, quantise steps a = .ok out := by
  obtain ⟨s', hf, halt, _⟩ := fold_wf_init hne h
  obtain ⟨idx, hidx⟩ := collapsedGo_ok s'.out.reverse 0 [] [] nodupKeys_nil
    (fun k => ⟨_, halt k, by simp [KCons, Assoc.get?]⟩)
  refine ⟨sortAbs (removeIndices s'.out.reverse idx), ?_⟩
  simp only [quantise, bind, Except.bind, hf, hidx]

theorem altT_cl_mono {k : Int × Int} {P : Msg → Prop} {t : Int} {b : Option Int} (hb : ble b t) (l : List Msg) :
    altT k P (.cl (some t)) l → altT k P (.cl b) l := by
  induction l with
  | nil => intro _; trivial
  | cons m ms ih =>
    intro h
    by_cases hon : m.nkey = k ∧ m.ty = .noteOn
    · rw [altT, if_pos hon] at h ⊢
      refine ⟨?_, h.2⟩
      have h1 : t ≤ m.time := h.1
      cases b with
      | none => trivial
      | some b => have : b ≤ t := hb; show b ≤ m.time; omega
    · by_cases hoff : m.nkey = k ∧ m.ty = .noteOff
      · rw [altT, if_neg hon, if_pos hoff] at h; cases h
      · rw [altT_skip hon hoff] at h ⊢
        exact ih h

/-- state of key `k` in the list with the collapsed notes removed -/
def outSt (tbl : Assoc (Int × Int) (Nat × Int)) (k : Int × Int) (st : KS) (idx : List Nat) : KS :=
  match tbl.get? k with
  | some (j, t) => if j ∈ idx then .cl (some t) else .op t
  | Option.none => st

theorem collapsed_alt {P : Msg → Prop} (l : List Msg) : ∀ (i : Nat) (tbl : Assoc (Int × Int) (Nat × Int))
    (acc idx : List Nat), TInv i tbl acc → collapsedGo l i tbl acc = .ok idx →
    ∀ k st, altQ k P st l → KCons tbl k st → altT k P (outSt tbl k st idx) (remFrom l i idx) := by
  induction l with
  | nil =>
    intro i tbl acc idx _ _ k st hst hc
    cases st with
    | op t => cases hst
    | cl b =>
      cases hget : tbl.get? k with
      | none => simp [outSt, hget, altT]
      | some jt => simp [KCons, hget] at hc
  | cons m ms ih =>
    intro i tbl acc idx hinv hgo k st hst hc
    have hskip : ∀ st', ¬ (m.nkey = k ∧ m.ty = .noteOn) → ¬ (m.nkey = k ∧ m.ty = .noteOff) →
        altT k P st' (remFrom ms (i + 1) idx) → altT k P st' (remFrom (m :: ms) i idx) := by
      intro st' h1 h2 h
      rw [remFrom_cons]
      split
      · exact h
      · rw [altT_skip h1 h2]; exact h
    by_cases hon : m.ty = .noteOn
    · simp only [collapsedGo, hon] at hgo
      have hinv' := tInv_on hinv m.nkey m.time
      by_cases hk : m.nkey = k
      · subst hk
        cases st with
        | op t => rw [altQ, if_pos ⟨rfl, hon⟩] at hst; cases hst
        | cl b =>
          rw [altQ, if_pos ⟨rfl, hon⟩] at hst
          obtain ⟨hble, hP, hrest⟩ := hst
          have hget : tbl.get? m.nkey = Option.none := by
            cases hget : tbl.get? m.nkey with
            | none => rfl
            | some jt => simp [KCons, hget] at hc
          have := ih _ _ _ _ hinv' hgo m.nkey (.op m.time) hrest (by simp [KCons, get?_set])
          simp only [outSt, get?_set, if_true] at this
          simp only [outSt, hget]
          rw [remFrom_cons]
          split
          · rename_i hi
            rw [if_pos hi] at this
            exact altT_cl_mono hble _ this
          · rename_i hi
            rw [if_neg hi] at this
            rw [altT, if_pos ⟨rfl, hon⟩]
            exact ⟨hble, hP, this⟩
      · rw [altQ_skip (fun h => hk h.1) (fun h => hk h.1)] at hst
        have := ih _ _ _ _ hinv' hgo k st hst (by simpa [KCons, get?_set, hk] using hc)
        have he : outSt (tbl.set m.nkey (i, m.time)) k st idx = outSt tbl k st idx := by
          simp [outSt, get?_set, hk]
        rw [he] at this
        exact hskip _ (fun h => hk h.1) (fun h => hk h.1) this
    · by_cases hoff : m.ty = .noteOff
      · simp only [collapsedGo, hoff] at hgo
        cases hget : tbl.get? m.nkey with
        | none => rw [hget] at hgo; cases hgo
        | some jt =>
          obtain ⟨j, t⟩ := jt
          rw [hget] at hgo
          simp only [] at hgo
          have hinv' := tInv_off hinv hget (m.time - t ≤ 0)
          obtain ⟨hi, hj⟩ := idx_off hinv hget (m.time - t ≤ 0) hgo
          by_cases hk : m.nkey = k
          · subst hk
            simp only [KCons, hget] at hc
            subst hc
            rw [altQ, if_neg (by simp [hoff]), if_pos ⟨rfl, hoff⟩] at hst
            obtain ⟨hle, hP, hrest⟩ := hst
            have := ih _ _ _ _ hinv' hgo m.nkey (.cl (some m.time)) hrest
              (by simp [KCons, get?_erase hinv.nodup])
            simp only [outSt, get?_erase hinv.nodup, if_true] at this
            simp only [outSt, hget]
            rw [remFrom_cons]
            by_cases hc : m.time - t ≤ 0
            · rw [if_pos (hi.2 hc), if_pos (hj.2 hc)]
              have : m.time = t := by omega
              rw [← this]; assumption
            · rw [if_neg (fun h => hc (hi.1 h)), if_neg (fun h => hc (hj.1 h))]
              rw [altT, if_neg (by simp [hoff]), if_pos ⟨rfl, hoff⟩]
              exact ⟨by omega, hP (by omega), this⟩
          · rw [altQ_skip (fun h => hk h.1) (fun h => hk h.1)] at hst
            have := ih _ _ _ _ hinv' hgo k st hst (by simpa [KCons, get?_erase hinv.nodup, hk] using hc)
            have he : outSt (tbl.erase m.nkey) k st idx = outSt tbl k st idx := by
              simp [outSt, get?_erase hinv.nodup, hk]
            rw [he] at this
            exact hskip _ (fun h => hk h.1) (fun h => hk h.1) this
      · have hgo' : collapsedGo ms (i + 1) tbl acc = .ok idx := by
          simpa only [collapsedGo] using hgo
        have hinv' : TInv (i + 1) tbl acc :=
          ⟨hinv.nodup, fun x hx => Nat.lt_succ_of_lt (hinv.accLt x hx),
            fun kv hkv => ⟨Nat.lt_succ_of_lt (hinv.tblLt kv hkv).1, (hinv.tblLt kv hkv).2⟩, hinv.inj⟩
        rw [altQ_skip (by simp [hon]) (by simp [hoff])] at hst
        exact hskip _ (by simp [hon]) (by simp [hoff]) (ih _ _ _ _ hinv' hgo' k st hst hc)


/-! ### a stable sort does not move the elements of an already sorted sub-sequence -/

section sort
variable {α : Type} (le : α → α → Bool)

theorem ins_of_le_all (x : α) (l : List α) (h : ∀ z ∈ l, le x z = true) : ins le x l = x :: l := by
  cases l with
  | nil => rfl
  | cons y ys => simp [ins, h y List.mem_cons_self]

variable (htrans : ∀ a b c, le a b = true → le b c = true → le a c = true)
  (htot : ∀ a b, le a b = false → le b a = true)

include htrans htot in
theorem ins_sorted (x : α) (l : List α) (h : l.Pairwise (fun a b => le a b = true)) :
    (ins le x l).Pairwise (fun a b => le a b = true) := by
  induction l with
  | nil => simp [ins]
  | cons y ys ih =>
    rw [List.pairwise_cons] at h
    simp only [ins]
    split
    · rename_i hxy
      refine List.pairwise_cons.2 ⟨?_, List.pairwise_cons.2 h⟩
      intro z hz
      rcases List.mem_cons.1 hz with rfl | hz
      · exact hxy
      · exact htrans _ _ _ hxy (h.1 z hz)
    · rename_i hxy
      refine List.pairwise_cons.2 ⟨?_, ih h.2⟩
      intro z hz
      rcases List.mem_cons.1 ((ins_perm le x ys).mem_iff.1 hz) with rfl | hz
      · exact htot _ _ (by simpa using hxy)
      · exact h.1 z hz

include htrans htot in
theorem isort_sorted (l : List α) : (isort le l).Pairwise (fun a b => le a b = true) := by
  induction l with
  | nil => simp [isort]
  | cons x xs ih => exact ins_sorted le htrans htot x _ ih

include htrans in
theorem filter_ins (p : α → Bool) (x : α) (l : List α) (h : l.Pairwise (fun a b => le a b = true)) :
    (ins le x l).filter p = if p x then ins le x (l.filter p) else l.filter p := by
  induction l with
  | nil => simp [ins, List.filter_cons]
  | cons y ys ih =>
    rw [List.pairwise_cons] at h
    simp only [ins]
    split
    · rename_i hxy
      rw [List.filter_cons]
      split
      · rw [ins_of_le_all]
        intro z hz
        have hz' := (List.mem_filter.1 hz).1
        rcases List.mem_cons.1 hz' with rfl | hz'
        · exact hxy
        · exact htrans _ _ _ hxy (h.1 z hz')
      · rfl
    · rename_i hxy
      rw [List.filter_cons, ih h.2, List.filter_cons]
      by_cases hy : p y = true <;> by_cases hx : p x = true <;> simp [hy, hx, ins, hxy]

include htrans htot in
theorem filter_isort (p : α → Bool) (l : List α) : (isort le l).filter p = isort le (l.filter p) := by
  induction l with
  | nil => simp [isort]
  | cons x xs ih =>
    simp only [isort]
    rw [filter_ins le htrans p x _ (isort_sorted le htrans htot xs), ih, List.filter_cons]
    split <;> simp [isort]

theorem isort_of_sorted (l : List α) (h : l.Pairwise (fun a b => le a b = true)) : isort le l = l := by
  induction l with
  | nil => rfl
  | cons x xs ih =>
    rw [List.pairwise_cons] at h
    simp only [isort, ih h.2]
    exact ins_of_le_all le x xs h.1

end sort

theorem keyLe_trans (a b c : Msg) (h1 : keyLe a b = true) (h2 : keyLe b c = true) : keyLe a c = true := by
  unfold keyLe at *
  grind (splits := 40)

theorem keyLe_total (a b : Msg) (h : keyLe a b = false) : keyLe b a = true := by
  unfold keyLe at *
  grind (splits := 40)

/-- a sub-sequence (given by a predicate) that is already in key order is not changed by sorting -/
theorem filter_sortAbs (p : Msg → Bool) (l : List Msg) (h : (l.filter p).Pairwise (fun a b => keyLe a b = true)) :
    (sortAbs l).filter p = l.filter p := by
  unfold sortAbs
  rw [filter_isort keyLe keyLe_trans keyLe_total, isort_of_sorted keyLe _ h]


/-! ### consequences of the strict alternation -/

/-- the note events of key `k` -/
def kev (k : Int × Int) (m : Msg) : Bool := decide (m.nkey = k) && (m.ty == .noteOn || m.ty == .noteOff)

theorem kev_true_iff {k : Int × Int} {m : Msg} :
    kev k m = true ↔ (m.nkey = k ∧ m.ty = .noteOn) ∨ (m.nkey = k ∧ m.ty = .noteOff) := by
  simp only [kev, Bool.and_eq_true, decide_eq_true_eq, Bool.or_eq_true, beq_iff_eq]
  constructor
  · rintro ⟨h1, h2 | h2⟩
    · exact Or.inl ⟨h1, h2⟩
    · exact Or.inr ⟨h1, h2⟩
  · rintro (⟨h1, h2⟩ | ⟨h1, h2⟩)
    · exact ⟨h1, Or.inl h2⟩
    · exact ⟨h1, Or.inr h2⟩

theorem altT_filter {k : Int × Int} {P : Msg → Prop} (l : List Msg) : ∀ st,
    altT k P st (l.filter (kev k)) ↔ altT k P st l := by
  induction l with
  | nil => intro st; simp
  | cons m ms ih =>
    intro st
    by_cases hon : m.nkey = k ∧ m.ty = .noteOn
    · have : kev k m = true := kev_true_iff.2 (Or.inl hon)
      rw [List.filter_cons, if_pos this]
      cases st <;> simp only [altT, if_pos hon, ih]
    · by_cases hoff : m.nkey = k ∧ m.ty = .noteOff
      · have : kev k m = true := kev_true_iff.2 (Or.inr hoff)
        rw [List.filter_cons, if_pos this]
        cases st <;> simp only [altT, if_neg hon, if_pos hoff, ih]
      · have : ¬ kev k m = true := fun h => by
          rcases kev_true_iff.1 h with h | h
          · exact hon h
          · exact hoff h
        rw [List.filter_cons, if_neg this, altT_skip hon hoff]
        exact ih st

def lowOK : KS → Msg → Prop
  | .op t, x => t < x.time
  | .cl b, x => ble b x.time

theorem keyLe_of_time_lt {a b : Msg} (h : a.time < b.time) : keyLe a b = true := by
  simp [keyLe, h]

theorem keyLe_off {m x : Msg} (hm : m.ty = .noteOff) (hk : m.nkey = x.nkey) (hx : x.ty = .noteOn ∨ x.ty = .noteOff)
    (ht : m.time ≤ x.time) : keyLe m x = true := by
  have h1 : m.ch = x.ch := congrArg Prod.fst hk
  have h2 : m.note = x.note := congrArg Prod.snd hk
  by_cases hlt : m.time < x.time
  · exact keyLe_of_time_lt hlt
  · have : ¬ x.time < m.time := by omega
    rcases hx with hx | hx <;> simp [keyLe, hlt, this, h1, h2, hm, hx, MType.rank]

theorem altT_sorted {k : Int × Int} {P : Msg → Prop} (l : List Msg) : ∀ st, altT k P st l →
    (∀ x ∈ l.filter (kev k), lowOK st x) ∧ (l.filter (kev k)).Pairwise (fun a b => keyLe a b = true) := by
  induction l with
  | nil => intro st _; simp
  | cons m ms ih =>
    intro st h
    by_cases hon : m.nkey = k ∧ m.ty = .noteOn
    · have hk : kev k m = true := kev_true_iff.2 (Or.inl hon)
      rw [List.filter_cons, if_pos hk]
      cases st with
      | op t => rw [altT, if_pos hon] at h; cases h
      | cl b =>
        rw [altT, if_pos hon] at h
        obtain ⟨hb, _, hrest⟩ := h
        obtain ⟨h1, h2⟩ := ih _ hrest
        have h1' : ∀ x ∈ ms.filter (kev k), m.time < x.time := h1
        refine ⟨?_, List.pairwise_cons.2 ⟨fun x hx => keyLe_of_time_lt (h1' x hx), h2⟩⟩
        intro x hx
        have hmx : m.time ≤ x.time := by
          rcases List.mem_cons.1 hx with rfl | hx
          · exact Int.le_refl _
          · exact Int.le_of_lt (h1' x hx)
        cases b with
        | none => trivial
        | some b => have : b ≤ m.time := hb; show b ≤ x.time; omega
    · by_cases hoff : m.nkey = k ∧ m.ty = .noteOff
      · have hk : kev k m = true := kev_true_iff.2 (Or.inr hoff)
        rw [List.filter_cons, if_pos hk]
        cases st with
        | cl b => rw [altT, if_neg hon, if_pos hoff] at h; cases h
        | op t =>
          rw [altT, if_neg hon, if_pos hoff] at h
          obtain ⟨hlt, _, hrest⟩ := h
          obtain ⟨h1, h2⟩ := ih _ hrest
          have h1' : ∀ x ∈ ms.filter (kev k), m.time ≤ x.time := h1
          refine ⟨?_, List.pairwise_cons.2 ⟨?_, h2⟩⟩
          · intro x hx
            show t < x.time
            rcases List.mem_cons.1 hx with rfl | hx
            · exact hlt
            · have := h1' x hx; omega
          · intro x hx
            have hkx := kev_true_iff.1 (List.mem_filter.1 hx).2
            apply keyLe_off hoff.2 _ _ (h1' x hx)
            · rcases hkx with hkx | hkx <;> rw [hoff.1, hkx.1]
            · rcases hkx with hkx | hkx
              · exact Or.inl hkx.2
              · exact Or.inr hkx.2
      · have hk : ¬ kev k m = true := fun h => by
          rcases kev_true_iff.1 h with h | h
          · exact hon h
          · exact hoff h
        rw [List.filter_cons, if_neg hk]
        rw [altT_skip hon hoff] at h
        exact ih st h

def KS.isOpen : KS → Bool
  | .op _ => true
  | .cl _ => false

theorem altT_altFrom {k : Int × Int} {P : Msg → Prop} (l : List Msg) : ∀ st, altT k P st l →
    altFrom k st.isOpen l := by
  induction l with
  | nil => intro st h; cases st <;> simp_all [altT, altFrom, KS.isOpen]
  | cons m ms ih =>
    intro st h
    by_cases hon : m.nkey = k ∧ m.ty = .noteOn
    · cases st with
      | op t => rw [altT, if_pos hon] at h; cases h
      | cl b =>
        rw [altT, if_pos hon] at h
        rw [altFrom, if_pos hon]
        exact ⟨rfl, ih _ h.2.2⟩
    · by_cases hoff : m.nkey = k ∧ m.ty = .noteOff
      · cases st with
        | cl b => rw [altT, if_neg hon, if_pos hoff] at h; cases h
        | op t =>
          rw [altT, if_neg hon, if_pos hoff] at h
          rw [altFrom, if_neg hon, if_pos hoff]
          exact ⟨rfl, ih _ h.2.2⟩
      · rw [altT_skip hon hoff] at h
        rw [altFrom_skip hon hoff]
        exact ih st h

theorem altT_P {k : Int × Int} {P : Msg → Prop} (l : List Msg) : ∀ st, altT k P st l →
    ∀ x ∈ l, x.nkey = k → IsNoteTy x → P x := by
  induction l with
  | nil => intro st _ x hx; cases hx
  | cons m ms ih =>
    intro st h x hx hxk hxn
    by_cases hon : m.nkey = k ∧ m.ty = .noteOn
    · cases st with
      | op t => rw [altT, if_pos hon] at h; cases h
      | cl b =>
        rw [altT, if_pos hon] at h
        rcases List.mem_cons.1 hx with rfl | hx
        · exact h.2.1
        · exact ih _ h.2.2 x hx hxk hxn
    · by_cases hoff : m.nkey = k ∧ m.ty = .noteOff
      · cases st with
        | cl b => rw [altT, if_neg hon, if_pos hoff] at h; cases h
        | op t =>
          rw [altT, if_neg hon, if_pos hoff] at h
          rcases List.mem_cons.1 hx with rfl | hx
          · exact h.2.1
          · exact ih _ h.2.2 x hx hxk hxn
      · rw [altT_skip hon hoff] at h
        rcases List.mem_cons.1 hx with rfl | hx
        · rcases hxn with hxn | hxn
          · exact absurd ⟨hxk, hxn⟩ hon
          · exact absurd ⟨hxk, hxn⟩ hoff
        · exact ih st h x hx hxk hxn

theorem altT_tail {k : Int × Int} {P : Msg → Prop} {st : KS} {m : Msg} {ms : List Msg}
    (h : altT k P st (m :: ms)) : ∃ st', altT k P st' ms := by
  by_cases hon : m.nkey = k ∧ m.ty = .noteOn
  · cases st with
    | op t => rw [altT, if_pos hon] at h; cases h
    | cl b => rw [altT, if_pos hon] at h; exact ⟨_, h.2.2⟩
  · by_cases hoff : m.nkey = k ∧ m.ty = .noteOff
    · cases st with
      | cl b => rw [altT, if_neg hon, if_pos hoff] at h; cases h
      | op t => rw [altT, if_neg hon, if_pos hoff] at h; exact ⟨_, h.2.2⟩
    · rw [altT_skip hon hoff] at h; exact ⟨st, h⟩

theorem notes_pos {P : Msg → Prop} (l : List Msg) : ∀ (opens : List Msg),
    (∀ k, ∃ st, altT k P st l) → (∀ o ∈ opens, altT o.nkey P (.op o.time) l) →
    ∀ n ∈ notesGo l opens, n.on < n.off := by
  induction l with
  | nil => intro opens _ _ n hn; simp [notesGo] at hn
  | cons m ms ih =>
    intro opens hall hop n hn
    have hall' : ∀ k, ∃ st, altT k P st ms := fun k => by
      obtain ⟨st, hst⟩ := hall k; exact altT_tail hst
    have hfilter : ∀ o ∈ opens.filter (fun o => o.nkey != m.nkey), altT o.nkey P (.op o.time) ms := by
      intro o ho
      obtain ⟨ho1, ho2⟩ := List.mem_filter.1 ho
      have hne : m.nkey ≠ o.nkey := fun e => by simp [e] at ho2
      have := hop o ho1
      rwa [altT_skip (fun h => hne h.1) (fun h => hne h.1)] at this
    by_cases hon : m.ty = .noteOn
    · simp only [notesGo, hon, beq_self_eq_true, if_true] at hn
      refine ih _ hall' ?_ n hn
      intro o ho
      rcases List.mem_cons.1 ho with rfl | ho
      · obtain ⟨st, hst⟩ := hall o.nkey
        cases st with
        | op t => rw [altT, if_pos ⟨rfl, hon⟩] at hst; cases hst
        | cl b => rw [altT, if_pos ⟨rfl, hon⟩] at hst; exact hst.2.2
      · exact hfilter o ho
    · by_cases hoff : m.ty = .noteOff
      · rw [notesGo, if_neg (by simp [hoff]), if_pos (by simp [hoff])] at hn
        split at hn
        · rename_i o hfind
          have ho := List.mem_of_find?_eq_some hfind
          have hok : o.nkey = m.nkey := by
            have := List.find?_some hfind; simpa using this
          have h1 := hop o ho
          rw [altT, if_neg (by simp [hoff]), if_pos ⟨hok.symm, hoff⟩] at h1
          rcases List.mem_cons.1 hn with rfl | hn
          · exact h1.1
          · exact ih _ hall' (fun o' ho' => hfilter o' (by simpa using ho')) n hn
        · rename_i hfind
          refine ih _ hall' ?_ n hn
          intro o ho
          have hne : m.nkey ≠ o.nkey := fun e => by
            have := List.find?_eq_none.1 hfind o ho
            simp [e] at this
          have := hop o ho
          rwa [altT_skip (fun h => hne h.1) (fun h => hne h.1)] at this
      · have h1 : (m.ty == MType.noteOn) = false := by simp [hon]
        have h2 : (m.ty == MType.noteOff) = false := by simp [hoff]
        simp only [notesGo, h1, h2, Bool.false_eq_true, if_false] at hn
        refine ih _ hall' ?_ n hn
        intro o ho
        have := hop o ho
        rwa [altT_skip (by simp [hon]) (by simp [hoff])] at this


/-! ### the result on well-formed input -/

theorem tInv_init : TInv 0 [] [] := by
  refine ⟨nodupKeys_nil, ?_, ?_, ?_⟩
  · intro x hx; cases hx
  · intro kv hkv; cases hkv
  · intro kv hkv; cases hkv

/-- on well-formed input every key strictly alternates in the result (positive lengths, no overlap), every
    note event is an input message at one of its candidate positions, and so is every other message -/
theorem quantise_wf_core {steps : List Int} (hne : steps ≠ []) {a out : List Msg} (hwf : WF a)
    (h : quantise steps a = .ok out) :
    (∀ k, altT k (Cand steps a) (.cl Option.none) out) ∧ (∀ y ∈ out, ¬ IsNoteTy y → Cand steps a y) := by
  obtain ⟨s, idx, hs, hidx, rfl⟩ := quantise_ok h
  obtain ⟨s', hf, halt, hnn⟩ := fold_wf_init (steps := steps) hne hwf
  rw [hs] at hf
  cases hf
  refine ⟨?_, ?_⟩
  · intro k
    have h1 := collapsed_alt s.out.reverse 0 [] [] idx tInv_init hidx k (.cl Option.none) (halt k)
      (by simp [KCons, Assoc.get?])
    have h1' : altT k (Cand steps a) (.cl Option.none) (removeIndices s.out.reverse idx) := by
      simpa [outSt, Assoc.get?, removeIndices_eq] using h1
    have h2 := (altT_sorted _ _ h1').2
    rw [← altT_filter, filter_sortAbs _ _ h2, altT_filter]
    exact h1'
  · intro y hy hn
    have := mem_removeIndices ((mem_sortAbs _ _).1 hy)
    exact hnn y this hn

end SCoda.Q
