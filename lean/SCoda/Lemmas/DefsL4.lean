/-
  Lemmas for Props/Defs.lean, fourth part: what the model parser `parseTok` (Model/Render.lean) accepts.  If
  `parseTok s = .ok t` then every numeric field of `s` is a non-empty string of ASCII digits (the pieces contain neither `-`
  nor `_`, and `String.toInt?` reads nothing else), Python's `int()` reads the same number, the numbers are natural numbers,
  and the generated `detokenise` reads `s` as `t` (`TokRep`, Lemmas/DefsL3.lean) — in whatever order the parts of a fused
  note token are written.
-/
import SCoda.Lemmas.DefsL3
set_option linter.unusedSimpArgs false
set_option linter.unusedVariables false
namespace SCoda.DefsL
open SCoda SCoda.TokLib SCoda.Gen.Tok SCoda.RenderL SCoda.TokTieL

/-! ### the pieces of a split -/

theorem splitOnPPrepend_mem {α} (p : α → Bool) : ∀ (l acc : List α), ∀ piece ∈ List.splitOnPPrepend p l acc, ∀ x ∈ piece,
    (x ∈ l ∧ p x = false) ∨ x ∈ acc := by
  intro l
  induction l with
  | nil => intro acc piece hp x hx; simp at hp; subst hp; right; simpa using hx
  | cons a l ih =>
    intro acc piece hp x hx
    rw [List.splitOnPPrepend_cons_eq_if] at hp
    by_cases ha : p a = true
    · simp only [ha, if_true, List.mem_cons] at hp
      rcases hp with rfl | hp
      · right; simpa using hx
      · rcases ih [] piece hp x hx with h | h
        · left; exact ⟨by simp [h.1], h.2⟩
        · cases h
    · simp only [ha, Bool.false_eq_true, if_false] at hp
      rcases ih (a :: acc) piece hp x hx with h | h
      · left; exact ⟨by simp [h.1], h.2⟩
      · simp only [List.mem_cons] at h
        rcases h with rfl | h
        · left; exact ⟨by simp, by simpa using ha⟩
        · right; exact h

/-- a piece of `s.split(c)` consists of characters of `s` other than `c` -/
theorem mem_splitOn_char (s : String) (c : Char) (piece : String) (h : piece ∈ s.splitOn (String.singleton c)) :
    ∀ x ∈ piece.toList, x ∈ s.toList ∧ x ≠ c := by
  rw [splitOn_singleton] at h
  obtain ⟨l, hl, rfl⟩ := List.mem_map.1 h
  intro x hx
  rw [String.toList_ofList] at hx
  rw [List.splitOn_eq_splitOnP, List.splitOnP_eq_splitOnPPrepend] at hl
  rcases splitOnPPrepend_mem _ _ _ l hl x hx with h | h
  · exact ⟨h.1, by simpa using h.2⟩
  · cases h

/-- a field of a split token contains neither `-` nor `_` -/
theorem field_clean (s : String) (part : List String) (hp : part ∈ (s.splitOn "-").map (fun p => p.splitOn "_"))
    (a : String) (ha : a ∈ part) : '-' ∉ a.toList ∧ '_' ∉ a.toList := by
  obtain ⟨piece, hpiece, rfl⟩ := List.mem_map.1 hp
  rw [dash_eq] at hpiece
  rw [us_eq] at ha
  have h1 := mem_splitOn_char _ _ _ hpiece
  have h2 := mem_splitOn_char _ _ _ ha
  exact ⟨fun h => (h1 _ (h2 _ h).1).2 rfl, fun h => (h2 _ h).2 rfl⟩

/-! ### numbers -/

/-- a string without `-` and `_` that the model's `int()` (`pyInt?` = `String.toInt?`) reads: a non-empty string of ASCII digits -/
theorem pyInt_digits (a : String) (v : Int) (hd : '-' ∉ a.toList) (hu : '_' ∉ a.toList) (h : pyInt? a = some v) :
    a ≠ "" ∧ (∀ c ∈ a.toList, c.isDigit = true) ∧ 0 ≤ v := by
  unfold pyInt? at h
  split at h
  · cases h
  · rcases String.toInt?_eq_some_iff.1 h with ⟨b, hb, rfl⟩ | ⟨t, rfl, _⟩
    · have hn := String.isNat_of_toNat?_eq_some hb
      obtain ⟨hne, hall, _⟩ := String.isNat_iff.1 hn
      refine ⟨hne, ?_, by omega⟩
      intro c hc
      rcases hall c hc with h | h
      · exact h
      · subst h; exact absurd hc hu
    · exfalso; apply hd; simp

/-- on such a string Python's `int()` (`pyIntOfStr`: strip, optional sign) reads the same number -/
theorem pyIntOfStr_of_pyInt (a : String) (v : Int) (hd : '-' ∉ a.toList) (hu : '_' ∉ a.toList) (h : pyInt? a = some v) :
    pyIntOfStr a = .ok v := by
  obtain ⟨_, hdig, _⟩ := pyInt_digits a v hd hu h
  unfold pyIntOfStr
  rw [stripChars_digits _ hdig, dropPlus_digits _ hdig, String.ofList_toList, h]
  rfl

/-! ### sorting by `sort_order` -/

theorem sortKey_head (x : String) (r r' : List String) : sortKeyFn (x :: r) = sortKeyFn (x :: r') := by
  simp only [sortKeyFn, pyItem_cons_zero]

theorem partStrs_cons (p : Part) (s : List String) (h : PartStrs p s) : ∃ r, s = mainOf p :: r := by
  cases p <;> simp only [PartStrs] at h
  case pad | sta | sto | bar => exact ⟨_, h⟩
  case rest | trk | val | vel | pit => obtain ⟨a, rfl, _⟩ := h; exact ⟨_, rfl⟩
  case tsig => obtain ⟨a, b, rfl, _⟩ := h; exact ⟨_, rfl⟩

theorem sortKey_of_partStrs (p : Part) (s : List String) (h : PartStrs p s) : sortKeyFn s = .ok (keyOf p) := by
  obtain ⟨r, rfl⟩ := partStrs_cons p s h
  have h2 : ∃ r', partStrs p = mainOf p :: r' := by cases p <;> exact ⟨_, rfl⟩
  obtain ⟨r', e⟩ := h2
  rw [sortKey_head _ r r', ← e, sortKey_partStrs]

theorem pySortedBy_single (x : List String) (k : Int) (h : sortKeyFn x = .ok k) : pySortedBy [x] sortKeyFn = .ok [x] := by
  simp [pySortedBy, mapME, h, sortByKeys, insertByKey]

theorem tokRep_single (s : String) (t : Tok) (p : Part) (strs : List String)
    (hP : (s.splitOn "-").map (fun part => part.splitOn "_") = [strs]) (hparts : t.parts = [p]) (hs : PartStrs p strs) :
    TokRep s t :=
  ⟨[strs], by rw [hP]; exact pySortedBy_single _ _ (sortKey_of_partStrs p strs hs), by rw [hparts]; exact .cons hs .nil⟩

/-! ### fused note tokens: the parser's fold and the source's sort, side by side -/

def numF (x : String) : Except ParseErr Int :=
  match pyInt? x with | some v => .ok v | Option.none => .error .valueError

/-- the fold function of `parseTok` (Model/Render.lean) -/
def stepF (acc : Except ParseErr Tok) (part : List String) : Except ParseErr Tok := do
  let t ← acc
  match t, part with
  | .note tr pi va ve, [p, a] => do
    let v ← numF a
    if p == prefixOf "TRACK" && tr.isNone then .ok (.note (some v) pi va ve)
    else if p == prefixOf "PITCH" && pi == -1 then .ok (.note tr v va ve)
    else if p == prefixOf "VALUE" && va.isNone then .ok (.note tr pi (some v) ve)
    else if p == prefixOf "VELOCITY" && ve.isNone then .ok (.note tr pi va (some v))
    else .error .invalidToken
  | _, _ => .error .invalidToken

def finalF (t : Tok) : Except ParseErr Tok :=
  match t with
  | .note _ (-1) _ _ => .error .invalidToken
  | t => .ok t

/-- the fields read so far: string and value of the track, value, velocity and pitch part -/
structure NSt where
  st : Option (String × Int)
  sv : Option (String × Int)
  sw : Option (String × Int)
  sp : Option (String × Int)

def NSt.tok (n : NSt) : Tok := .note (n.st.map (·.2)) ((n.sp.map (·.2)).getD (-1)) (n.sv.map (·.2)) (n.sw.map (·.2))

def ent (k : Int) (name : String) : Option (String × Int) → List (Int × List String)
  | some e => [(k, [prefixOf name, e.1])]
  | Option.none => []

/-- the parts read so far, in `sort_order` -/
def NSt.sorted (n : NSt) : List (Int × List String) :=
  ent 0 "TRACK" n.st ++ ent 1 "VALUE" n.sv ++ ent 2 "VELOCITY" n.sw ++ ent 3 "PITCH" n.sp

def EntOk : Option (String × Int) → Prop
  | some e => pyIntOfStr e.1 = .ok e.2 ∧ 0 ≤ e.2
  | Option.none => True

def NSt.Valid (n : NSt) : Prop := EntOk n.st ∧ EntOk n.sv ∧ EntOk n.sw ∧ EntOk n.sp

theorem stepF_spec (n : NSt) (hv : n.Valid) (part : List String) (hclean : ∀ a ∈ part, '-' ∉ a.toList ∧ '_' ∉ a.toList)
    (t' : Tok) (h : stepF (.ok n.tok) part = .ok t') :
    ∃ (k : Int) (n' : NSt), sortKeyFn part = .ok k ∧ insertByKey k part n.sorted = n'.sorted ∧ t' = n'.tok ∧ n'.Valid := by
  obtain ⟨st, sv, sw, sp⟩ := n
  obtain ⟨v1, v2, v3, v4⟩ := hv
  simp only at v1 v2 v3 v4
  rcases part with _ | ⟨p, _ | ⟨a, _ | ⟨b, r⟩⟩⟩
  · simp [stepF, NSt.tok, bind, Except.bind] at h
  · simp [stepF, NSt.tok, bind, Except.bind] at h
  · obtain ⟨hd, hu⟩ := hclean a (by simp)
    simp only [stepF, NSt.tok, bind, Except.bind, numF] at h
    cases hnum : pyInt? a with
    | none => rw [hnum] at h; cases h
    | some v =>
      rw [hnum] at h
      simp only at h
      have hint := pyIntOfStr_of_pyInt a v hd hu hnum
      have hnn := (pyInt_digits a v hd hu hnum).2.2
      have hpit : ((sp.map (·.2)).getD (-1) == -1) = sp.isNone := by
        cases sp with
        | none => rfl
        | some e =>
          have : 0 ≤ e.2 := v4.2
          simp; omega
      rw [hpit] at h
      by_cases c1 : (p == prefixOf "TRACK" && (st.map (·.2)).isNone) = true
      · rw [if_pos c1] at h
        simp only [Bool.and_eq_true, beq_iff_eq, Option.isNone_iff_eq_none, Option.map_eq_none_iff] at c1
        obtain ⟨rfl, rfl⟩ := c1
        cases h
        refine ⟨0, ⟨some (a, v), sv, sw, sp⟩, sortKey_of_partStrs (.trk v) _ ⟨a, rfl, hint⟩, ?_, rfl, ⟨hint, hnn⟩, v2, v3, v4⟩
        cases sv <;> cases sw <;> cases sp <;> simp [NSt.sorted, ent, insertByKey]
      · rw [if_neg c1] at h
        by_cases c2 : (p == prefixOf "PITCH" && sp.isNone) = true
        · rw [if_pos c2] at h
          simp only [Bool.and_eq_true, beq_iff_eq, Option.isNone_iff_eq_none] at c2
          obtain ⟨rfl, rfl⟩ := c2
          cases h
          refine ⟨3, ⟨st, sv, sw, some (a, v)⟩, sortKey_of_partStrs (.pit v) _ ⟨a, rfl, hint⟩, ?_, rfl, v1, v2, v3, ⟨hint, hnn⟩⟩
          cases st <;> cases sv <;> cases sw <;> simp [NSt.sorted, ent, insertByKey]
        · rw [if_neg c2] at h
          by_cases c3 : (p == prefixOf "VALUE" && (sv.map (·.2)).isNone) = true
          · rw [if_pos c3] at h
            simp only [Bool.and_eq_true, beq_iff_eq, Option.isNone_iff_eq_none, Option.map_eq_none_iff] at c3
            obtain ⟨rfl, rfl⟩ := c3
            cases h
            refine ⟨1, ⟨st, some (a, v), sw, sp⟩, sortKey_of_partStrs (.val v) _ ⟨a, rfl, hint⟩, ?_, rfl, v1, ⟨hint, hnn⟩, v3, v4⟩
            cases st <;> cases sw <;> cases sp <;> simp [NSt.sorted, ent, insertByKey]
          · rw [if_neg c3] at h
            by_cases c4 : (p == prefixOf "VELOCITY" && (sw.map (·.2)).isNone) = true
            · rw [if_pos c4] at h
              simp only [Bool.and_eq_true, beq_iff_eq, Option.isNone_iff_eq_none, Option.map_eq_none_iff] at c4
              obtain ⟨rfl, rfl⟩ := c4
              cases h
              refine ⟨2, ⟨st, sv, some (a, v), sp⟩, sortKey_of_partStrs (.vel v) _ ⟨a, rfl, hint⟩, ?_, rfl, v1, v2, ⟨hint, hnn⟩, v4⟩
              cases st <;> cases sv <;> cases sp <;> simp [NSt.sorted, ent, insertByKey]
            · rw [if_neg c4] at h
              cases h
  · simp [stepF, NSt.tok, bind, Except.bind] at h

/-- a part with its sort key, as `sorted(..., key=...)` computes it first -/
def keyed (x : List String) : Except PyErr (Int × List String) :=
  match sortKeyFn x with | .ok k => Except.ok (k, x) | .error e => .error e

theorem mapME_congr {α β ε} (f g : α → Except ε β) (h : ∀ x, f x = g x) : ∀ l : List α, mapME f l = mapME g l
  | [] => rfl
  | x :: xs => by simp only [mapME, h x, mapME_congr f g h xs]

theorem pySortedBy_eq (l : List (List String)) : pySortedBy l sortKeyFn =
    match mapME keyed l with | .ok kxs => .ok ((sortByKeys kxs).map (·.2)) | .error e => .error e := by
  unfold pySortedBy
  rw [mapME_congr _ keyed ?h l]
  case h => intro x; unfold keyed; cases sortKeyFn x <;> rfl
  cases mapME keyed l <;> rfl

theorem stepF_error (e : ParseErr) (Q : List (List String)) : Q.foldl stepF (.error e) = .error e := by
  induction Q with
  | nil => rfl
  | cons p Q ih => exact ih

theorem foldF_spec : ∀ (Q : List (List String)) (n : NSt), n.Valid → (∀ part ∈ Q, ∀ a ∈ part, '-' ∉ a.toList ∧ '_' ∉ a.toList) →
    ∀ t, Q.foldl stepF (.ok n.tok) = .ok t →
    ∃ (kxs : List (Int × List String)) (n' : NSt), mapME keyed Q = .ok kxs ∧
      kxs.foldl (fun acc kx => insertByKey kx.1 kx.2 acc) n.sorted = n'.sorted ∧ t = n'.tok ∧ n'.Valid := by
  intro Q
  induction Q with
  | nil => intro n hv _ t h; cases h; exact ⟨[], n, rfl, rfl, rfl, hv⟩
  | cons part Q ih =>
    intro n hv hclean t h
    simp only [List.foldl_cons] at h
    cases h1 : stepF (.ok n.tok) part with
    | error e => rw [h1, stepF_error] at h; cases h
    | ok t1 =>
      rw [h1] at h
      obtain ⟨k, n1, hk, hins, rfl, hv1⟩ := stepF_spec n hv part (hclean part (by simp)) t1 h1
      obtain ⟨kxs, n', hm, hf, rfl, hv'⟩ := ih n1 hv1 (fun q hq => hclean q (by simp [hq])) t h
      refine ⟨(k, part) :: kxs, n', ?_, ?_, rfl, hv'⟩
      · simp [mapME, keyed, hk, hm]
      · simp only [List.foldl_cons, hins, hf]

/-! ### `parseTok`, case by case -/

/-- `parseTok` with its local functions named (definitionally the same) -/
def parseTok' (s : String) : Except ParseErr Tok :=
  match (s.splitOn "-").map (fun p => p.splitOn "_") with
  | [[p]] =>
    if p == prefixOf "PAD" then .ok .pad else if p == prefixOf "START" then .ok .sta
    else if p == prefixOf "STOP" then .ok .sto else if p == prefixOf "BAR" then .ok .bar
    else .error .invalidToken
  | [[p, a]] =>
    if p == prefixOf "REST" then do let v ← numF a; .ok (.rest v)
    else if p == prefixOf "TRACK" then do let v ← numF a; .ok (.trk v)
    else if p == prefixOf "VALUE" then do let v ← numF a; .ok (.val v)
    else if p == prefixOf "VELOCITY" then do let v ← numF a; .ok (.vel v)
    else if p == prefixOf "PITCH" then do let v ← numF a; .ok (.note Option.none v Option.none Option.none)
    else .error .invalidToken
  | [[p, a, b]] =>
    if p == prefixOf "TIME_SIGNATURE" then do let x ← numF a; let y ← numF b; .ok (.tsig x y)
    else .error .invalidToken
  | multi => multi.foldl stepF (.ok (.note Option.none (-1) Option.none Option.none)) >>= finalF

theorem parseTok_eq (s : String) : parseTok s = parseTok' s := rfl

theorem numF_bind {β} (a : String) (g : Int → Except ParseErr β) (r : β) (hd : '-' ∉ a.toList) (hu : '_' ∉ a.toList)
    (h : (numF a >>= g) = .ok r) : ∃ v, pyIntOfStr a = .ok v ∧ 0 ≤ v ∧ g v = .ok r := by
  unfold numF at h
  cases hn : pyInt? a with
  | none => rw [hn] at h; cases h
  | some v =>
    rw [hn] at h
    exact ⟨v, pyIntOfStr_of_pyInt a v hd hu hn, (pyInt_digits a v hd hu hn).2.2, h⟩

/-- what the model parser accepts, the generated `detokenise` reads as the same token; the numbers are natural numbers -/
theorem parse_rep (s : String) (t : Tok) (h : parseTok s = .ok t) : TokRep s t ∧ TokOk t := by
  have hclean := field_clean s
  rw [parseTok_eq] at h
  unfold parseTok' at h
  split at h
  · rename_i p hP
    repeat' split at h
    all_goals (try cases h)
    all_goals rename_i c
    all_goals (have := eq_of_beq c; subst this)
    · exact ⟨tokRep_single s _ .pad _ hP rfl rfl, trivial⟩
    · exact ⟨tokRep_single s _ .sta _ hP rfl rfl, trivial⟩
    · exact ⟨tokRep_single s _ .sto _ hP rfl rfl, trivial⟩
    · exact ⟨tokRep_single s _ .bar _ hP rfl rfl, trivial⟩
  · rename_i p a hP
    obtain ⟨hd, hu⟩ := hclean [p, a] (by rw [hP]; simp) a (by simp)
    repeat' split at h
    all_goals (try cases h)
    all_goals rename_i c
    all_goals (have := eq_of_beq c; subst this)
    all_goals (obtain ⟨v, hv, hnn, hg⟩ := numF_bind a _ t hd hu h; cases hg)
    · exact ⟨tokRep_single s _ (.rest v) _ hP rfl ⟨a, rfl, hv⟩, hnn⟩
    · exact ⟨tokRep_single s _ (.trk v) _ hP rfl ⟨a, rfl, hv⟩, hnn⟩
    · exact ⟨tokRep_single s _ (.val v) _ hP rfl ⟨a, rfl, hv⟩, hnn⟩
    · exact ⟨tokRep_single s _ (.vel v) _ hP rfl ⟨a, rfl, hv⟩, hnn⟩
    · exact ⟨tokRep_single s _ (.pit v) _ hP rfl ⟨a, rfl, hv⟩, trivial, hnn, trivial, trivial⟩
  · rename_i p a b hP
    obtain ⟨hd, hu⟩ := hclean [p, a, b] (by rw [hP]; simp) a (by simp)
    obtain ⟨hd', hu'⟩ := hclean [p, a, b] (by rw [hP]; simp) b (by simp)
    split at h
    · rename_i c
      have := eq_of_beq c; subst this
      obtain ⟨x, hx, hxn, hg⟩ := numF_bind a _ t hd hu h
      obtain ⟨y, hy, hyn, hg'⟩ := numF_bind b _ t hd' hu' hg
      cases hg'
      exact ⟨tokRep_single s _ (.tsig x y) _ hP rfl ⟨a, b, rfl, hx, hy⟩, hxn, hyn⟩
    · cases h
  · rename_i multi _ _ _
    generalize hP : (s.splitOn "-").map (fun p => p.splitOn "_") = P at h hclean
    cases hf : P.foldl stepF (.ok (.note Option.none (-1) Option.none Option.none)) with
    | error e => rw [hf] at h; cases h
    | ok t0 =>
      rw [hf] at h
      obtain ⟨kxs, n', hm, hs, rfl, hv⟩ := foldF_spec P ⟨none, none, none, none⟩ ⟨trivial, trivial, trivial, trivial⟩ hclean t0 hf
      obtain ⟨st, sv, sw, sp⟩ := n'
      obtain ⟨v1, v2, v3, v4⟩ := hv
      simp only at v1 v2 v3 v4
      cases sp with
      | none => simp [NSt.tok, finalF, bind, Except.bind] at h
      | some e =>
        have hne : e.2 ≠ -1 := by have := v4.2; omega
        have hfin : finalF (NSt.tok ⟨st, sv, sw, some e⟩) = .ok (NSt.tok ⟨st, sv, sw, some e⟩) := by
          simp only [NSt.tok, Option.map_some, Option.getD_some, finalF]
          split
          · rename_i heq; injection heq with _ h2; exact absurd h2 hne
          · rfl
        simp only [bind, Except.bind, hfin] at h
        cases h
        refine ⟨⟨(NSt.sorted ⟨st, sv, sw, some e⟩).map (·.2), ?_, ?_⟩, ?_⟩
        · rw [hP]
          rw [pySortedBy_eq, hm]
          simp only [sortByKeys]
          rw [show NSt.sorted ⟨none, none, none, none⟩ = [] from rfl] at hs
          rw [hs]
        · cases st <;> cases sv <;> cases sw <;>
            simp [NSt.tok, Tok.parts, NSt.sorted, ent, PartStrs] <;> simp_all [EntOk]
        · cases st <;> cases sv <;> cases sw <;> simp_all [NSt.tok, TokOk, OptNonneg, EntOk]

/-! ### lists of strings -/

theorem mapM_parse_forall₂ : ∀ (ss : List String) (ts : List Tok), ss.mapM parseTok = .ok ts →
    List.Forall₂ (fun s t => parseTok s = .ok t) ss ts := by
  intro ss
  induction ss with
  | nil => intro ts h; simp [pure, Except.pure] at h; subst h; exact .nil
  | cons s ss ih =>
    intro ts h
    rw [List.mapM_cons] at h
    cases h1 : parseTok s with
    | error e => rw [h1] at h; cases h
    | ok t =>
      cases h2 : ss.mapM parseTok with
      | error e => rw [h1, h2] at h; cases h
      | ok r =>
        rw [h1, h2] at h
        cases h
        exact .cons h1 (ih r h2)

theorem forall₂_imp {α β} {R S : α → β → Prop} (h : ∀ a b, R a b → S a b) : ∀ {l₁ l₂}, List.Forall₂ R l₁ l₂ → List.Forall₂ S l₁ l₂
  | _, _, .nil => .nil
  | _, _, .cons h1 h2 => .cons (h _ _ h1) (forall₂_imp h h2)

theorem forall₂_right {α β} {R : α → β → Prop} {P : β → Prop} (h : ∀ a b, R a b → P b) : ∀ {l₁ l₂}, List.Forall₂ R l₁ l₂ →
    ∀ b ∈ l₂, P b
  | _, _, .nil => by simp
  | _, _, .cons h1 h2 => by
    intro b hb
    simp only [List.mem_cons] at hb
    rcases hb with rfl | hb
    · exact h _ _ h1
    · exact forall₂_right h h2 b hb

/-! ### two concrete strings outside the model parser -/

theorem pyIntOfStr_plus5 : pyIntOfStr "+5" = .ok 5 := by
  have h1 : String.ofList (dropPlus (stripChars "+5".toList)) = zpad 1 ((5 : Nat) : Int) := by decide
  unfold pyIntOfStr
  rw [h1, pyInt_zpad]
  rfl

theorem pyIntOfStr_space5 : pyIntOfStr " 5" = .ok 5 := by
  have h1 : String.ofList (dropPlus (stripChars " 5".toList)) = zpad 1 ((5 : Nat) : Int) := by decide
  unfold pyIntOfStr
  rw [h1, pyInt_zpad]
  rfl

theorem pyInt_none_of_head (a : String) (c : Char) (r : List Char) (h : a.toList = c :: r) (hc : c.isDigit = false)
    (hm : c ≠ '-') : pyInt? a = Option.none := by
  cases hp : pyInt? a with
  | none => rfl
  | some v =>
    exfalso
    unfold pyInt? at hp
    split at hp
    · cases hp
    · rcases String.toInt?_eq_some_iff.1 hp with ⟨b, hb, _⟩ | ⟨t, rfl, _⟩
      · have hn := String.isNat_of_toNat?_eq_some hb
        obtain ⟨_, hall, _, hh, _⟩ := String.isNat_iff.1 hn
        rcases hall c (by rw [h]; simp) with h' | h'
        · rw [hc] at h'; cases h'
        · subst h'; apply hh; rw [h]; rfl
      · simp at h; exact hm h.1.symm

theorem split_rst (x : String) (hd : '-' ∉ x.toList) (hu : '_' ∉ x.toList) :
    (("rst_" ++ x).splitOn "-").map (fun p => p.splitOn "_") = [["rst", x]] := by
  have h1 : ("rst_" ++ x).splitOn "-" = ["rst_" ++ x] := by
    rw [dash_eq]; apply splitOn_of_not_mem
    simp only [String.toList_append, List.mem_append, not_or]
    exact ⟨by decide, hd⟩
  have h2 : ("rst_" ++ x).splitOn "_" = ["rst", x] := by
    have : "rst_" ++ x = "_".intercalate ["rst", x] := by rw [intercalate_two]; rfl
    rw [this, us_eq, splitOn_intercalate _ _ (by simp)]
    intro s hs
    simp only [List.mem_cons, List.not_mem_nil, or_false] at hs
    rcases hs with rfl | rfl
    · decide
    · exact hu
  rw [h1, List.map_cons, List.map_nil, h2]

/-- a `rst_` token whose number string `x` (no `-`, no `_`) Python's `int()` reads as `v`: read by the generated code as `rest v` -/
theorem tokRep_rst (x : String) (v : Int) (hd : '-' ∉ x.toList) (hu : '_' ∉ x.toList) (hx : pyIntOfStr x = .ok v) :
    TokRep ("rst_" ++ x) (.rest v) :=
  tokRep_single _ _ (.rest v) _ (split_rst x hd hu) rfl
    ⟨x, by rw [show prefixOf "REST" = "rst" by decide], hx⟩

/-- … and rejected by the model parser with ValueError if `x` starts with a character that is neither a digit nor `-` -/
theorem parseTok_rst_error (x : String) (c : Char) (r : List Char) (hd : '-' ∉ x.toList) (hu : '_' ∉ x.toList)
    (h : x.toList = c :: r) (hc : c.isDigit = false) (hm : c ≠ '-') : parseTok ("rst_" ++ x) = .error .valueError := by
  rw [parseTok_eq]
  unfold parseTok'
  rw [split_rst x hd hu]
  simp only []
  rw [if_pos (by decide), numF, pyInt_none_of_head x c r h hc hm]
  rfl

end SCoda.DefsL
