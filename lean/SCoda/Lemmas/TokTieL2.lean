/-
  Helper lemmas for Props/TokTie.lean, second part: the loop body of the generated `tokenise` (`tokeniseLoop1`) against the
  hand model `tokEvent`, the linked glue against `extract`, and the whole of `tokenise` against `tokeniseCore`.
  Needs the numeric lemmas of Lemmas/C11LNum.lean (`int(a / b)` on exact rationals is truncated division; single Mathlib modules).
-/
import SCoda.Lemmas.TokTieL
import SCoda.Lemmas.C11LNum
set_option linter.unusedSimpArgs false
set_option linter.unusedTactic false
set_option linter.unusedVariables false
namespace SCoda.TokTieL
open SCoda SCoda.TokLib SCoda.Gen.Tok

/-! #### the loop body `tokeniseLoop1` and the whole of `tokenise` -/

theorem pyItem_cons_zero {α} (a : α) (l : List α) : pyItem (a :: l) 0 = .ok a := by
  simp [pyItem]; rfl
theorem pyItem_cons_one {α} (a b : α) (l : List α) : pyItem (a :: b :: l) 1 = .ok b := by
  simp [pyItem]; rfl
theorem pyItem_single_one {α} (a : α) : pyItem [a] 1 = .error .indexError := by
  simp [pyItem]; rfl
theorem pyItem_nil {α} (i : Int) : pyItem ([] : List α) i = .error .indexError := by
  unfold pyItem
  by_cases h : i < 0 <;> simp [h] <;> (try omega) <;> rfl
theorem pyItem_ofNat {α} (l : List α) (k : Nat) :
    pyItem l (Int.ofNat k) = match l[k]? with | some x => .ok x | none => .error .indexError := by
  unfold pyItem
  have h0 : ¬ (Int.ofNat k < 0) := by simp
  have h1 : (Int.ofNat k).toNat = k := by simp
  simp only [h0, if_false, h1]
  cases l[k]? <;> rfl
theorem raiseIf_false (e : PyErr) : raiseIf false e = .ok () := rfl
theorem raiseIf_true (e : PyErr) : raiseIf true e = .error e := rfl
theorem ok_bind {α β ε : Type} (x : α) (f : α → Except ε β) : (Except.ok x >>= f) = f x := rfl
theorem error_bind {α β ε : Type} (e : ε) (f : α → Except ε β) : (Except.error e >>= f) = Except.error e := rfl
theorem pure_eq_ok {α ε : Type} (x : α) : (pure x : Except ε α) = Except.ok x := rfl

theorem ratTrunc_div (a d : Int) (hd : d ≠ 0) : ratTrunc ((a : Rat) / (d : Rat)) = a.tdiv d := by
  have := C11L.pyint_trunc a d hd _ rfl
  simpa [PyNum.pyint, ratTrunc] using this

theorem pyTrueDiv_ok (a d : Int) (hd : d ≠ 0) : pyTrueDiv a d = .ok ((a : Rat) / (d : Rat)) := by
  simp [pyTrueDiv, hd]; rfl

theorem ratTrunc_capacity (a d : Int) (hd : d ≠ 0) (ha : 0 ≤ a) : ratTrunc ((a : Rat) / (d : Rat)) = a / d := by
  rw [ratTrunc_div a d hd, Int.tdiv_eq_ediv_of_nonneg ha]

theorem scaled_eq (n D d : Int) (hd : d ≠ 0) : ((n : Int) : Rat) * ((D : Rat) / (d : Rat)) = ((n * D : Int) : Rat) / (d : Rat) := by
  push_cast; rw [mul_div_assoc]

theorem ratIsInteger_scaled (n D d : Int) (hd : d ≠ 0) :
    ratIsInteger (((n : Int) : Rat) * ((D : Rat) / (d : Rat))) = decide ((n * D) % d = 0) := by
  rw [scaled_eq n D d hd]
  have h := Rat.den_div_intCast_eq_one_iff (n * D) d hd
  unfold ratIsInteger
  by_cases hdv : d ∣ n * D
  · have h0 : (n * D) % d = 0 := Int.emod_eq_zero_of_dvd hdv
    rw [h.2 hdv]; simp [h0]
  · have h1 : ¬ (((n * D : Int) : Rat) / (d : Rat)).den = 1 := fun hh => hdv (h.1 hh)
    have h0 : ¬ (n * D) % d = 0 := fun hh => hdv (Int.dvd_of_emod_eq_zero hh)
    rw [show ((((n * D : Int) : Rat) / (d : Rat)).den == 1) = false from by simpa using h1]; simp [h0]

theorem ratTrunc_scaled (n D d : Int) (hd : d ≠ 0) (hdv : (n * D) % d = 0) :
    ratTrunc (((n : Int) : Rat) * ((D : Rat) / (d : Rat))) = (n * D) / d := by
  rw [scaled_eq n D d hd, ratTrunc_div _ _ hd, Int.tdiv_eq_ediv_of_dvd (Int.dvd_of_emod_eq_zero hdv)]


abbrev TSt := List String × Int × Int × Int × Int × Int × Int × Int × Int × Int

def gOf (l : TkLoop) : TSt :=
  (l.toks.reverse.map render, l.st.curTime, l.st.curTimeBar, l.st.tsNum, l.st.tsDen, l.capTotal, l.st.capRem,
    l.st.prvTrack, l.st.prvValue, l.st.prvVel)

def EvOk (ppqn : Int) (ev : Int × Pairing) : Prop :=
  ∀ m, ev.2.head? = some m → ev.1 = m.ch ∧ (m.ty = .timeSignature → m.den ≠ 0 ∧ 0 ≤ ppqn * 4 * m.num)


/-- the rest in front of an event, as the hand model `tokEvent` applies it -/
def restH (c : Cfg) (shift : Int) (l : TkLoop) (m : Msg) : Except Err ((Int × Int × Int) × List Tok) :=
  if l.st.curTime != m.time + shift then
    applyRest c l.capTotal ((m.time + shift - l.st.curTime).toNat + 1) (m.time + shift - l.st.curTime)
      (l.st.curTime, l.st.curTimeBar, l.st.capRem) l.toks
  else .ok ((l.st.curTime, l.st.curTimeBar, l.st.capRem), l.toks)

/-- what `tokEvent` does after the rest (copy of Model/Token.lean, `tokEvent`, from `let st := …` on) -/
def tokAfter (c : Cfg) (l0 : TkLoop) (m : Msg) (restP : List Msg) (r : (Int × Int × Int) × List Tok) : Except Err TkLoop :=
  let clk := r.1
  let toks := r.2
  let st := { l0.st with curTime := clk.1, curTimeBar := clk.2.1, capRem := clk.2.2 }
  let l := { l0 with st := st, toks := toks }
  match m.ty with
  | .noteOn =>
    match restP with
    | [] => .error .indexError
    | off :: _ =>
      let ch := m.ch
      let value := off.time - m.time
      match c.bins[binIndex c.bins m.vel]? with
      | Option.none => .error .indexError
      | some vel =>
        if !(c.pitchLo <= m.note && m.note <= c.pitchHi) then .error .tokenisationError else
        if !c.values.contains value then .error .tokenisationError else
        let pre1 := if !c.fuseTrk && (ch != st.prvTrack || !c.running) then [Tok.trk ch] else []
        let pre2 := if !c.fuseVal && (value != st.prvValue || !c.running) then [Tok.val value] else []
        let pre3 := if !c.fuseVel && (vel != st.prvVel || !c.running) then [Tok.vel vel] else []
        let tok := Tok.note (if c.fuseTrk then some ch else Option.none) m.note
                     (if c.fuseVal then some value else Option.none)
                     (if c.fuseVel then some vel else Option.none)
        .ok { l with toks := tok :: (pre3.reverse ++ pre2.reverse ++ pre1.reverse ++ l.toks),
                     st := { st with prvTrack := ch, prvValue := value, prvVel := vel } }
  | .timeSignature =>
    if st.curTimeBar > 0 then .ok l else
    if (m.num * c.defDen) % m.den != 0 then .error .tokenisationError else
    let scaled := (m.num * c.defDen) / m.den
    if !(c.tsLo <= scaled && scaled <= c.tsHi) then .error .tokenisationError else
    let capTotal := c.capacity m.num m.den
    .ok { l with capTotal := capTotal, toks := Tok.tsig scaled c.defNum :: l.toks,
                 st := { st with tsNum := m.num, tsDen := m.den, capRem := capTotal } }
  | _ => .ok l

theorem tokEvent_cons (c : Cfg) (shift : Int) (l : TkLoop) (ch : Int) (m : Msg) (restP : List Msg) :
    tokEvent c shift l (ch, m :: restP) = (restH c shift l m >>= tokAfter c l m restP) := by
  unfold tokEvent restH
  simp only []
  split <;> rfl

theorem tokeniseLoop1_eq (o : TokObj) (shift : Int) (ev : Int × Pairing) (l : TkLoop) (hev : EvOk o.ppqn ev) :
    tokeniseLoop1 true o shift ev (gOf l) =
      liftE (fun l' => ForInStep.yield (gOf l')) (tokEvent (cfgOf o) shift l ev) := by
  obtain ⟨ch, p⟩ := ev
  cases p with
  | nil =>
    unfold tokeniseLoop1 tokEvent
    simp only [pyItem_nil, error_bind]
    rfl
  | cons m restP =>
    have hch : ch = m.ch := (hev m rfl).1
    have hc : (!(ch == m.ch)) = false := by simp [hch]
    rw [tokEvent_cons]
    unfold tokeniseLoop1
    simp only [pyItem_cons_zero, ok_bind, hc, raiseIf_false]
    -- the rest in front of the event
    have hrest : (if (!((gOf l).2.1 == m.time + shift)) = true then do
            let r3_ ← tokeniseApplyRest o true (gOf l).2.2.2.2.2.1 (gOf l).1 (gOf l).2.1 (gOf l).2.2.1 (gOf l).2.2.2.2.2.2.1
              (m.time + shift - (gOf l).2.1)
            pure (r3_.1, r3_.2.1, r3_.2.2.1, r3_.2.2.2)
          else pure ((gOf l).1, (gOf l).2.1, (gOf l).2.2.1, (gOf l).2.2.2.2.2.2.1)) =
        liftE restOut (restH (cfgOf o) shift l m) := by
      unfold restH
      by_cases hcur : l.st.curTime = m.time + shift
      · simp [gOf, hcur, liftE, restOut]; rfl
      · have h1 : (!(l.st.curTime == m.time + shift)) = true := by simp [hcur]
        have h2 : (l.st.curTime != m.time + shift) = true := by simp [hcur]
        simp only [gOf, h1, h2, if_true, tokeniseApplyRest_hand]
        cases applyRest (cfgOf o) l.capTotal ((m.time + shift - l.st.curTime).toNat + 1) (m.time + shift - l.st.curTime)
            (l.st.curTime, l.st.curTimeBar, l.st.capRem) l.toks with
        | error e => rfl
        | ok r => rfl
    rw [hrest]
    cases restH (cfgOf o) shift l m with
    | error e => rfl
    | ok r =>
      obtain ⟨⟨cur', bar', rem'⟩, acc'⟩ := r
      simp only [liftE, restOut, ok_bind]
      unfold tokAfter
      simp only [gOf]
      cases hty : m.ty
      case noteOn =>
        simp only [beq_self_eq_true, if_true]
        cases restP with
        | nil => simp only [pyItem_single_one, error_bind]; rfl
        | cons off rp =>
          simp only [pyItem_cons_one, ok_bind, pyItem_ofNat, cfgOf]
          cases hb : o.velocityBins[binIndex o.velocityBins m.vel]? with
          | none => rfl
          | some vel =>
            simp only [ok_bind]
            rcases Bool.eq_false_or_eq_true (decide (o.pitchRange.1 ≤ m.note) && decide (m.note ≤ o.pitchRange.2)) with hp1 | hp1
            · simp only [hp1, Bool.not_true, raiseIf_false, ok_bind]
              rcases Bool.eq_false_or_eq_true (o.noteValues.contains (off.time - m.time)) with hp2 | hp2
              · simp only [hp2, Bool.not_true, raiseIf_false, ok_bind, Bool.false_eq_true, if_false]
                have hq : o.pitchRange.1 ≤ m.note ∧ m.note ≤ o.pitchRange.2 := by simpa using hp1
                rcases Bool.eq_false_or_eq_true (m.ch != l.st.prvTrack || !o.flagRunningValues) with hb1 | hb1 <;>
                rcases Bool.eq_false_or_eq_true (off.time - m.time != l.st.prvValue || !o.flagRunningValues) with hb2 | hb2 <;>
                rcases Bool.eq_false_or_eq_true (vel != l.st.prvVel || !o.flagRunningValues) with hb3 | hb3 <;>
                rcases Bool.eq_false_or_eq_true o.flagFuseTrack with hT | hT <;>
                rcases Bool.eq_false_or_eq_true o.flagFuseValue with hV | hV <;>
                rcases Bool.eq_false_or_eq_true o.flagFuseVelocity with hW | hW <;>
                  simp [hb1, hb2, hb3, hT, hV, hW, hq.1, hq.2, hp2, liftE, render, gOf, pure, Except.pure, strDropRight_append_dash,
                    RenderL.intercalate_two, RenderL.intercalate_three, intercalate_four, intercalate_one,
                    ← String.append_assoc]
              · simp only [hp2, Bool.not_false, raiseIf_true, error_bind, if_true, ite_self]
                rfl
            · simp only [hp1, Bool.not_false, raiseIf_true, error_bind, if_true]
              have hq : ¬ (o.pitchRange.1 ≤ m.note) ∨ ¬ (m.note ≤ o.pitchRange.2) := by
                by_cases h1 : o.pitchRange.1 ≤ m.note
                · right; intro h2; simp [h1, h2] at hp1
                · left; exact h1
              rcases hq with h | h <;> simp [h, liftE, ofErr]
      case timeSignature =>
        have hts := (hev m rfl).2 hty
        have e1 : (MType.timeSignature == MType.noteOn) = false := by decide
        simp only [e1, Bool.false_eq_true, if_false, beq_self_eq_true, if_true, cfgOf]
        by_cases hbar : bar' > 0
        · simp only [hbar, decide_true, if_true]; rfl
        · simp only [hbar, decide_false, Bool.false_eq_true, if_false, pyTrueDiv_ok _ _ hts.1, ok_bind,
            ratIsInteger_scaled _ _ _ hts.1]
          by_cases hdiv : (m.num * Gen.defaultTimeSignatureDenominator) % m.den = 0
          · have hne : (m.num * Gen.defaultTimeSignatureDenominator % m.den != 0) = false := by simp [hdiv]
            simp only [hdiv, decide_true, Bool.not_true, raiseIf_false, ok_bind, hne, Bool.false_eq_true, if_false,
              ratTrunc_scaled _ _ _ hts.1 hdiv, ratTrunc_capacity _ _ hts.1 hts.2]
            by_cases hr : o.timeSignatureRange.1 ≤ m.num * Gen.defaultTimeSignatureDenominator / m.den ∧
                m.num * Gen.defaultTimeSignatureDenominator / m.den ≤ o.timeSignatureRange.2
            · simp [hr.1, hr.2, raiseIf, liftE, render, Cfg.capacity, pure, Except.pure, bind, Except.bind]
            · have hq : ¬ (o.timeSignatureRange.1 ≤ m.num * Gen.defaultTimeSignatureDenominator / m.den) ∨
                  ¬ (m.num * Gen.defaultTimeSignatureDenominator / m.den ≤ o.timeSignatureRange.2) := by
                by_cases h1 : o.timeSignatureRange.1 ≤ m.num * Gen.defaultTimeSignatureDenominator / m.den
                · right; intro h2; exact hr ⟨h1, h2⟩
                · left; exact h1
              rcases hq with h | h <;> (simp [h, raiseIf, liftE, ofErr, bind, Except.bind] <;> rfl)
          · have hne : (m.num * Gen.defaultTimeSignatureDenominator % m.den != 0) = true := by simp [hdiv]
            simp only [hdiv, decide_false, Bool.not_false, raiseIf_true, error_bind, hne, if_true]
            rfl
      all_goals
        simp only [reduceCtorEq, beq_iff_eq, if_false]
        first | rfl | (simp [liftE, gOf, pure, Except.pure])

theorem forIn_liftE {α β γ : Type} (G : γ → β) (step : γ → α → Except Err γ)
    (f : α → β → Except PyErr (ForInStep β)) (P : α → Prop)
    (hf : ∀ a l, P a → f a (G l) = liftE (fun l' => ForInStep.yield (G l')) (step l a)) :
    ∀ (xs : List α) (b : β) (l : γ), b = G l → (∀ a ∈ xs, P a) →
      forIn xs b f = liftE G (tokeniseCore.foldlM'' step l xs) := by
  intro xs
  induction xs with
  | nil => intro b l hb _; subst hb; rfl
  | cons a as ih =>
    intro b l hb hP
    subst hb
    rw [List.forIn_cons, hf a l (hP a (by simp))]
    unfold tokeniseCore.foldlM''
    cases step l a with
    | error e => rfl
    | ok l' => exact ih _ l' rfl (fun x hx => hP x (by simp [hx]))


/-- reading the state dictionary (`state_dict.get(key, default)`) -/
def stOfDict (o : TokObj) (d : List (String × Int)) : TokSt :=
  let num := pyDictGetD d "cur_time_signature_numerator" Gen.defaultTimeSignatureNumerator
  let den := pyDictGetD d "cur_time_signature_denominator" Gen.defaultTimeSignatureDenominator
  { curTime := pyDictGetD d "cur_time" 0, curTimeBar := pyDictGetD d "cur_time_bar" 0, tsNum := num, tsDen := den,
    capRem := pyDictGetD d "cur_bar_capacity_remaining" ((cfgOf o).capacity num den),
    prvTrack := pyDictGetD d "prv_track" (-1), prvValue := pyDictGetD d "prv_value" (-1),
    prvVel := pyDictGetD d "prv_velocity" (-1) }



theorem forIn_collect {α β ε : Type} (g : α → β) (f : α → List β → Except ε (ForInStep (List β)))
    (hf : ∀ x s, f x s = .ok (.yield (s ++ [g x]))) (xs : List α) (acc : List β) :
    forIn xs acc f = .ok (acc ++ xs.map g) := by
  rw [forIn_fold (fun _ => True) (fun s x => s ++ [g x]) f xs (fun _ _ _ => trivial) (fun x _ s _ => hf x s) acc trivial]
  congr 1
  induction xs generalizing acc with
  | nil => simp
  | cons a as ih => simp [ih]

theorem pyEnumerateFrom_eq {α} (l : List α) : ∀ n, pyEnumerateFrom n l = (l.zipIdx n).map (fun p => ((p.2 : Int), p.1)) := by
  induction l with
  | nil => intro n; rfl
  | cons a as ih => intro n; simp [pyEnumerateFrom, ih]

/-- the LINKED glue of `tokenise` (set_channel on every track, merge, interleaved pairings) is the hand model `extract` -/
theorem link_extract (rels : List (List Msg)) :
    (LSeq.new.merge ((pyEnumerate (rels.map LSeq.rel)).map (fun p => p.2.setChannel p.1))).interleaved
        [MType.noteOn, MType.noteOff, MType.timeSignature, MType.internal] = extract Gen.ppqn rels := by
  simp only [LSeq.interleaved, LSeq.merge, LSeq.absOf, LSeq.new, extract, extractTypes, pyEnumerate, pyEnumerateFrom_eq,
    List.zipIdx_map, List.map_map]
  congr 5


/-- writing the state dictionary back (`state_dict[key] = value`, eight stores) -/
def writeSt (d : List (String × Int)) (st : TokSt) : List (String × Int) :=
  pyDictSet (pyDictSet (pyDictSet (pyDictSet (pyDictSet (pyDictSet (pyDictSet (pyDictSet d "cur_time" st.curTime)
    "cur_time_bar" st.curTimeBar) "cur_time_signature_numerator" st.tsNum) "cur_time_signature_denominator" st.tsDen)
    "cur_bar_capacity_remaining" st.capRem) "prv_track" st.prvTrack) "prv_value" st.prvValue) "prv_velocity" st.prvVel

theorem tokenise_some (o : TokObj) (rels : List (List Msg)) (d : List (String × Int))
    (hlen : (rels.length : Int) = o.numTracks)
    (hd : (stOfDict o d).tsDen ≠ 0) (hn : 0 ≤ o.ppqn * 4 * (stOfDict o d).tsNum)
    (hev : ∀ ev ∈ extract Gen.ppqn rels, EvOk o.ppqn ev) :
    tokenise o (rels.map LSeq.rel) true true (some d) =
      liftE (fun r => (writeSt d r.2, r.1.map render)) (tokeniseCore (cfgOf o) (stOfDict o d) (extract Gen.ppqn rels)) := by
  unfold tokenise
  simp only []
  have hlen' : (!(((rels.map LSeq.rel).length : Int) == o.numTracks)) = false := by simp [hlen]
  have hd' : pyDictGetD d "cur_time_signature_denominator" Gen.defaultTimeSignatureDenominator ≠ 0 := hd
  have hn' : 0 ≤ o.ppqn * 4 * pyDictGetD d "cur_time_signature_numerator" Gen.defaultTimeSignatureNumerator := hn
  simp only [Bool.not_true, raiseIf_false, hlen', pure_bind, pyTrueDiv_ok _ _ hd', ok_bind]
  rw [forIn_collect (fun p : Int × LSeq => p.2.setChannel p.1) _ ?hc]
  case hc => intro x s; rfl
  simp only [ok_bind, List.nil_append, link_extract]
  rw [forIn_liftE gOf (tokEvent (cfgOf o) (pyDictGetD d "cur_time" 0)) _ (EvOk o.ppqn)
    (fun ev l hev => tokeniseLoop1_eq o _ ev l hev) _ _
    { st := stOfDict o d, capTotal := (cfgOf o).capacity (stOfDict o d).tsNum (stOfDict o d).tsDen } ?hb hev]
  case hb =>
    simp only [gOf, stOfDict, List.reverse_nil, List.map_nil, Cfg.capacity, cfgOf]
    rw [ratTrunc_capacity _ _ hd' hn']
  unfold tokeniseCore
  simp only []
  show _ = liftE _ (tokeniseCore.foldlM'' (tokEvent (cfgOf o) (pyDictGetD d "cur_time" 0)) _ _ >>= _)
  cases tokeniseCore.foldlM'' (tokEvent (cfgOf o) (pyDictGetD d "cur_time" 0))
      { st := stOfDict o d, capTotal := (cfgOf o).capacity (stOfDict o d).tsNum (stOfDict o d).tsDen }
      (extract Gen.ppqn rels) with
  | error e => rfl
  | ok l =>
    simp only [liftE, ok_bind, gOf]
    rcases Bool.eq_false_or_eq_true (decide (l.st.curTimeBar > 0) && decide (l.st.capRem > 0)) with hc | hc
    · simp only [hc, if_true, tokeniseApplyRest_hand]
      cases applyRest (cfgOf o) l.capTotal (l.st.capRem.toNat + 1) l.st.capRem
          (l.st.curTime, l.st.curTimeBar, l.st.capRem) l.toks with
      | error e => rfl
      | ok r => simp [liftE, restOut, writeSt, pure, Except.pure, bind, Except.bind]
    · simp [hc, writeSt, pure, Except.pure, bind, Except.bind]


end SCoda.TokTieL
