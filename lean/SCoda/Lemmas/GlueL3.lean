/-
  Helper lemmas for Props/C03e, part 3: what `extract` makes of a run of bars (`RunOk`) satisfies `GoodAt` — so its
  cut at the cumulative bar lengths is a well-formed whole-bar chunk.
-/
import SCoda.Lemmas.GlueL2
namespace SCoda.GlueL
open SCoda SCoda.C01 SCoda.ChunksL SCoda.ExtractL SCoda.E2E SCoda.MergeL SCoda.NotesL

theorem pairsGo_mem (l : List Msg) : ∀ (os : List Msg) (p : Msg × Msg), p ∈ pairsGo l os → p.2 ∈ l := by
  induction l with
  | nil => intro os p h; simp [pairsGo] at h
  | cons m ms ih =>
    intro os p h
    simp only [pairsGo] at h
    split at h
    · exact List.mem_cons_of_mem _ (ih _ p h)
    · split at h
      · cases hf : List.find? (fun o => o.nkey == m.nkey) os with
        | none => rw [hf] at h; exact List.mem_cons_of_mem _ (ih _ p h)
        | some o =>
          rw [hf] at h
          rcases List.mem_cons.1 h with rfl | h
          · exact List.mem_cons_self
          · exact List.mem_cons_of_mem _ (ih _ p h)
      · exact List.mem_cons_of_mem _ (ih _ p h)

theorem pairwise_of_forall {α} {R : α → α → Prop} : ∀ (l : List α), (∀ a ∈ l, ∀ b ∈ l, R a b) → l.Pairwise R := by
  intro l
  induction l with
  | nil => intro _; exact List.Pairwise.nil
  | cons a l ih =>
    intro h
    exact List.pairwise_cons.2 ⟨fun b hb => h a List.mem_cons_self b (List.mem_cons_of_mem _ hb),
      ih (fun x hx y hy => h x (List.mem_cons_of_mem _ hx) y (List.mem_cons_of_mem _ hy))⟩

/-- the concatenated tracks of a run -/
def runTracks (segs : List (List (List Msg))) : List (List Msg) := segs.map List.flatten

section run
variable {c : Cfg} {sigs : List (Int × Int)} {segs : List (List (List Msg))}

theorem runTracks_get (h : RunOk c sigs segs) (i : Nat) (r : List Msg) (hr : (runTracks segs)[i]? = some r) :
    ∃ t, segs[i]? = some t ∧ r = t.flatten ∧ Run c i sigs t := by
  simp only [runTracks, List.getElem?_map, Option.map_eq_some_iff] at hr
  obtain ⟨t, ht, rfl⟩ := hr
  exact ⟨t, ht, rfl, h.segs i t ht⟩

theorem runTracks_mem (h : RunOk c sigs segs) (r : List Msg) (hr : r ∈ runTracks segs) :
    ∃ i t, segs[i]? = some t ∧ r = t.flatten ∧ Run c i sigs t := by
  obtain ⟨i, hi⟩ := List.getElem?_of_mem hr
  obtain ⟨t, h1, h2, h3⟩ := runTracks_get h i r hi
  exact ⟨i, t, h1, h2, h3⟩

theorem run_trackGood (h : RunOk c sigs segs) : ∀ i r, (runTracks segs)[i]? = some r → TrackGood i r := by
  intro i r hr
  obtain ⟨t, _, rfl, hrun⟩ := runTracks_get h i r hr
  exact run_good c i sigs t hrun

theorem run_okRel (h : RunOk c sigs segs) : ∀ r ∈ runTracks segs, OkRel r := by
  intro r hr
  obtain ⟨i, hi⟩ := List.getElem?_of_mem hr
  exact (run_trackGood h i r hi).1

/-- a signature event of a run's track sits on a bar line of the grid and carries that bar's signature -/
theorem run_track_sig (h : RunOk c sigs segs) (i : Nat) (r : List Msg) (hr : (runTracks segs)[i]? = some r)
    (m : Msg) (hm : m ∈ trackEvents i r) (hty : m.ty = .timeSignature) : SigAt c 0 sigs m := by
  obtain ⟨t, _, rfl, hrun⟩ := runTracks_get h i r hr
  simp only [trackEvents, List.mem_map] at hm
  obtain ⟨e, he, rfl⟩ := hm
  have hts : isTs e = true := by simpa [isTs] using hty
  have := run_ts_events c i sigs t hrun 0 e (List.mem_filter.2 ⟨he, hts⟩)
  exact sigAt_congr c e { e with ch := (i : Int) } rfl rfl rfl sigs 0 this

theorem run_track_time (h : RunOk c sigs segs) (i : Nat) (r : List Msg) (hr : (runTracks segs)[i]? = some r)
    (m : Msg) (hm : m ∈ trackEvents i r) : 0 ≤ m.time ∧ m.time ≤ total c sigs := by
  obtain ⟨t, _, rfl, hrun⟩ := runTracks_get h i r hr
  have hg := run_good c i sigs t hrun
  simp only [trackEvents, List.mem_map] at hm
  obtain ⟨e, he, rfl⟩ := hm
  have := eventsRelGo_bounds t.flatten 0 hg.1.1 e he
  rw [run_dur c i sigs t hrun] at this
  simp only
  omega

theorem run_pieceSigs (h : RunOk c sigs segs) : ∀ x ∈ pieceSigs (runTracks segs), SigAt c 0 sigs x := by
  intro x hx
  simp only [pieceSigs] at hx
  rw [mem_sortAbs, List.mem_flatMap] at hx
  obtain ⟨⟨r, i⟩, hri, hx⟩ := hx
  have hr := mem_zipIdx_get hri
  obtain ⟨hx1, hx2⟩ := List.mem_filter.1 hx
  exact run_track_sig h i r hr x hx1 (by simpa [isTs] using hx2)

theorem run_sigsStrict (h : RunOk c sigs segs) : SigsStrict (runTracks segs) := by
  intro r hr
  obtain ⟨i, t, _, rfl, hrun⟩ := runTracks_mem h r hr
  exact run_strict c i sigs t hrun h.pos 0

theorem run_sigsAgree (h : RunOk c sigs segs) : SigsAgree (runTracks segs) := by
  apply pairwise_of_forall
  intro a ha b hb hab
  exact sigAt_fun c a b sigs 0 h.pos (run_pieceSigs h a ha) (run_pieceSigs h b hb) hab

theorem run_pieceSigs_lines (h : RunOk c sigs segs) :
    Lines c (fun τ => ∃ x ∈ pieceSigs (runTracks segs), x.time = τ) 0 sigs := by
  have h0 : 0 < segs.length := h.tr
  have ht0 : segs[0]? = some segs[0] := List.getElem?_eq_getElem h0
  have hrun := h.segs 0 _ ht0
  have hr0 : (runTracks segs)[0]? = some (segs[0]).flatten := by
    simp [runTracks, ht0]
  refine lines_mono c _ _ sigs 0 h.pos ?_ (run_lines c 0 sigs _ hrun h.pos 0)
  rintro τ _ ⟨e, he, rfl⟩
  refine ⟨{ e with ch := ((0 : Nat) : Int) }, ?_, rfl⟩
  simp only [pieceSigs]
  rw [mem_sortAbs, List.mem_flatMap]
  refine ⟨((segs[0]).flatten, 0), List.mem_zipIdx_iff_getElem?.2 hr0, ?_⟩
  rw [trackEvents_ts]
  exact List.mem_map.2 ⟨e, he, rfl⟩

/-- **every bar of a run whose length differs from the running one is announced** by a signature event on its line -/
theorem run_announced (h : RunOk c sigs segs) (C : Int) :
    Announced c (extract c.ppqn (runTracks segs)) 0 C sigs := by
  have hts := extract_ts c.ppqn (runTracks segs) (run_okRel h) (run_trackGood h) (run_sigsStrict h) (run_sigsAgree h)
  have hA := dedup_announced c sigs 0 C (pyNone, pyNone) (pieceSigs (runTracks segs)) (sortAbs_pairwise _)
    (run_pieceSigs h) (run_pieceSigs_lines h) h.pos
    (by
      intro s rest hs hp
      have := (h.pos s (by rw [hs]; exact List.mem_cons_self)).1
      rw [← hp] at this
      exact absurd this (by decide))
  refine annP_mono c _ _ sigs 0 C h.pos ?_ hA
  rintro τ _ ⟨y, hy, rfl⟩
  have hy' : y ∈ (extract c.ppqn (runTracks segs)).filterMap tsOf := by rw [hts]; exact hy
  obtain ⟨ev, hev, htso⟩ := List.mem_filterMap.1 hy'
  refine ⟨ev, hev, y, ?_, ?_, rfl⟩
  · unfold tsOf at htso
    split at htso
    · rename_i m hm
      split at htso
      · cases htso; simp [hm]
      · cases htso
    · cases htso
  · unfold tsOf at htso
    split at htso
    · split at htso
      · rename_i hty; cases htso; exact hty
      · cases htso
    · cases htso

/-- **what `extract` makes of a run of bars is good for cutting** -/
theorem run_goodAt (h : RunOk c sigs segs) (hp : 0 ≤ c.ppqn) (C : Int) :
    GoodAt c 0 C sigs (extract c.ppqn (runTracks segs)) := by
  have hok := run_okRel h
  have hg := run_trackGood h
  have hshape := Glue.extract_shape c.ppqn hp (runTracks segs) hok
  have htot := total_nonneg c sigs h.pos
  have hlen : (runTracks segs).length = c.numTracks := by simp [runTracks, h.ntr]
  have htime : ∀ ev ∈ extract c.ppqn (runTracks segs), ∀ m ∈ ev.2.head?, m.time ≤ total c sigs := by
    intro ev hev m hm
    have hmf := Glue.extract_head_mem c.ppqn _ ev hev m hm
    by_cases hty : m.ty = .internal
    · rcases final_internal_time _ hok m hmf hty with h0 | ⟨r, hr, hr2⟩
      · omega
      · obtain ⟨i, t, _, rfl, hrun⟩ := runTracks_mem h r hr
        rw [hr2, durRel, run_dur c i sigs t hrun]
        exact Int.le_refl _
    · obtain ⟨i, r, hi, hme⟩ := final_mem_events _ hok m hmf hty
      exact (run_track_time h i r hi m hme).2
  refine ⟨h.pos, ?_, ?_, ?_, Glue.extract_ordered c.ppqn _ hok, ?_, ?_, run_announced h C⟩
  · intro ev hev
    rcases hshape ev hev with ⟨on, off, he, _⟩ | ⟨m, he, _⟩ <;> rw [he] <;> simp
  · intro ev hev m hm
    have := Glue.extract_channels c.ppqn _ ev hev m hm
    rw [hlen] at this
    exact this
  · intro ev hev m hm
    have h1 := Glue.extract_nonneg c.ppqn _ hok ev hev m hm
    have h2 := htime ev hev m hm
    omega
  · intro ev hev m hm hty
    have hmf := Glue.extract_head_mem c.ppqn _ ev hev m hm
    obtain ⟨i, r, hi, hme⟩ := final_mem_events _ hok m hmf (by rw [hty]; decide)
    exact run_track_sig h i r hi m hme hty
  · intro ev hev m hm hty
    rcases hshape ev hev with ⟨on, off, he, _⟩ | ⟨x, he, hx⟩
    · have hmon : m = on := by rw [he] at hm; simpa using hm.symm
      subst hmon
      have hn : evNote ev = some { ch := m.ch, pitch := m.note, on := m.time, off := off.time, vel := m.vel } := by
        simp [evNote, he]
      have hmem := (extract_notes_perm c.ppqn _ hok hg).subset (List.mem_filterMap.2 ⟨ev, hev, hn⟩)
      simp only [pieceNotes, List.mem_flatMap] at hmem
      obtain ⟨⟨r, i⟩, hri, hnr⟩ := hmem
      have hr := mem_zipIdx_get hri
      have hlt := (hg i r hr).2.2 _ hnr
      rw [trackNotes_eq, List.mem_map] at hnr
      obtain ⟨p, hp, hpe⟩ := hnr
      have hoff := pairsGo_mem _ _ p hp
      have hb := (run_track_time h i r hr p.2 hoff).2
      have e1 : p.2.time = off.time := by
        have := congrArg Note.off hpe
        simpa [mkNote] using this
      simp only at hlt
      omega
    · rw [he] at hm
      have : m = x := by simpa using hm.symm
      subst this
      rcases hx with hx | hx <;> rw [hx] at hty <;> cases hty

/-- **the structural glue**: what `extract` makes of a run of bars, cut at the cumulative bar lengths, is a well-formed
    whole-bar chunk after any running bar length `C`, laid end to end it is `extract`'s output, and it has one bar per
    signature of the run -/
theorem run_cut (h : RunOk c sigs segs) (hp : 0 ≤ c.ppqn) (C : Int) :
    extract c.ppqn (runTracks segs) = layBars c (cutAt c 0 sigs (extract c.ppqn (runTracks segs)))
      ∧ BarsOk c C (cutAt c 0 sigs (extract c.ppqn (runTracks segs)))
      ∧ (cutAt c 0 sigs (extract c.ppqn (runTracks segs))).map (fun b => (b.num, b.den)) = sigs := by
  refine ⟨?_, cutAt_barsOk c sigs 0 C _ (run_goodAt h hp C), cutAt_sigs c sigs 0 _⟩
  rw [layBars_cutAt c sigs 0 _ h.bars]
  simp [shiftEvs_zero]

end run
end SCoda.GlueL
