/-
  Helper lemmas for Props/SortTie.lean.

  Part A (generic, about Model/SortLib.lean): the insertion sort `isortBy` is a stable sort for a strict weak order, a
  stable sort is unique, the raising version `isortM` agrees with it where no comparison raises, and `isortBy` is the
  hand model's `isort` with the negated, flipped comparison.
  Part B: the generated `MessageType.__lt__`, key function and key comparison (Gen/SortFns.lean) against `MType.rank`
  and `keyLe` (Model/Sort.lean).
-/
import SCoda.Model.Sort
import SCoda.Model.SortLib
import SCoda.Gen.SortFns
namespace SCoda.SortTieL

open SCoda SCoda.SortLib

instance {ε α : Type} [DecidableEq ε] [DecidableEq α] : DecidableEq (Except ε α)
  | .ok a, .ok b => if h : a = b then isTrue (h ▸ rfl) else isFalse (fun h' => h (by cases h'; rfl))
  | .error a, .error b => if h : a = b then isTrue (h ▸ rfl) else isFalse (fun h' => h (by cases h'; rfl))
  | .ok _, .error _ => isFalse (by intro h; cases h)
  | .error _, .ok _ => isFalse (by intro h; cases h)

/-! ## Part A — stable sorting -/

section generic
variable {α : Type}

theorem insBy_eq_ins (lt : α → α → Bool) (x : α) (l : List α) :
    insBy lt x l = ins (fun a b => !lt b a) x l := by
  induction l with
  | nil => rfl
  | cons y ys ih =>
    simp only [insBy, ins]
    by_cases h : lt y x = true <;> simp [h, ih]

/-- `isortBy lt` is the hand model's `isort` with `le a b := ¬ lt b a` -/
theorem isortBy_eq_isort (lt : α → α → Bool) (l : List α) :
    isortBy lt l = isort (fun a b => !lt b a) l := by
  induction l with
  | nil => rfl
  | cons x xs ih => simp only [isortBy, isort, insBy_eq_ins, ih]

theorem insBy_perm (lt : α → α → Bool) (x : α) (l : List α) : (insBy lt x l).Perm (x :: l) := by
  induction l with
  | nil => exact List.Perm.refl _
  | cons y ys ih =>
    simp only [insBy]
    cases lt y x
    · exact List.Perm.refl _
    · exact (List.Perm.cons y ih).trans (List.Perm.swap x y ys)

theorem isortBy_perm (lt : α → α → Bool) (l : List α) : (isortBy lt l).Perm l := by
  induction l with
  | nil => exact List.Perm.refl _
  | cons x xs ih => exact (insBy_perm lt x _).trans (List.Perm.cons x ih)

theorem mem_insBy (lt : α → α → Bool) (x : α) (l : List α) (z : α) : z ∈ insBy lt x l ↔ z = x ∨ z ∈ l := by
  rw [(insBy_perm lt x l).mem_iff]; simp

theorem mem_isortBy (lt : α → α → Bool) (l : List α) (z : α) : z ∈ isortBy lt l ↔ z ∈ l :=
  (isortBy_perm lt l).mem_iff

theorem swo_asymm {lt : α → α → Bool} {L : List α} (h : StrictWeakOrderOn lt L)
    {a b : α} (ha : a ∈ L) (hb : b ∈ L) (hab : lt a b = true) : lt b a = false := by
  cases hba : lt b a with
  | false => rfl
  | true => have := h.trans a ha b hb a ha hab hba; rw [h.irrefl a ha] at this; cases this

theorem swo_mono {lt : α → α → Bool} {L l : List α} (h : StrictWeakOrderOn lt L)
    (hs : ∀ x ∈ l, x ∈ L) : StrictWeakOrderOn lt l :=
  ⟨fun a ha => h.irrefl a (hs a ha),
   fun a ha b hb c hc => h.trans a (hs a ha) b (hs b hb) c (hs c hc),
   fun a ha b hb c hc => h.negTrans a (hs a ha) b (hs b hb) c (hs c hc)⟩

/-- the textbook definition (irreflexive, transitive, incomparability transitive) gives the one used here -/
theorem strictWeakOrderOn_of_incomp {lt : α → α → Bool} {L : List α}
    (irrefl : ∀ a ∈ L, lt a a = false)
    (trans : ∀ a ∈ L, ∀ b ∈ L, ∀ c ∈ L, lt a b = true → lt b c = true → lt a c = true)
    (incomp : ∀ a ∈ L, ∀ b ∈ L, ∀ c ∈ L, eqv lt a b = true → eqv lt b c = true → eqv lt a c = true) :
    StrictWeakOrderOn lt L := by
  refine ⟨irrefl, trans, ?_⟩
  intro a ha b hb c hc hab hbc
  cases hac : lt a c with
  | false => rfl
  | true =>
    -- a < c, ¬ a < b, ¬ b < c
    cases hba : lt b a with
    | true => have := trans b hb a ha c hc hba hac; rw [hbc] at this; cases this
    | false =>
      cases hcb : lt c b with
      | true => have := trans a ha c hc b hb hac hcb; rw [hab] at this; cases this
      | false =>
        have h1 : eqv lt a b = true := by simp [eqv, hab, hba]
        have h2 : eqv lt b c = true := by simp [eqv, hbc, hcb]
        have h3 := incomp a ha b hb c hc h1 h2
        simp [eqv, hac] at h3

theorem sortedBy_insBy {lt : α → α → Bool} {L : List α} (h : StrictWeakOrderOn lt L) (x : α) (hx : x ∈ L)
    (s : List α) (hs : ∀ y ∈ s, y ∈ L) (hsorted : SortedBy lt s) : SortedBy lt (insBy lt x s) := by
  induction s with
  | nil => simp [insBy, SortedBy]
  | cons y ys ih =>
    have hy : y ∈ L := hs y (by simp)
    have hys : ∀ z ∈ ys, z ∈ L := fun z hz => hs z (by simp [hz])
    simp only [SortedBy, List.pairwise_cons] at hsorted
    simp only [insBy]
    cases hyx : lt y x with
    | true =>
      simp only [if_true, SortedBy, List.pairwise_cons]
      refine ⟨?_, ih hys hsorted.2⟩
      intro z hz
      rcases (mem_insBy lt x ys z).1 hz with rfl | hz
      · exact swo_asymm h hy hx hyx
      · exact hsorted.1 z hz
    | false =>
      simp only [Bool.false_eq_true, if_false, SortedBy, List.pairwise_cons]
      refine ⟨?_, hsorted.1, hsorted.2⟩
      intro z hz
      rcases List.mem_cons.1 hz with rfl | hz
      · exact hyx
      · exact h.negTrans z (hys z hz) y hy x hx (hsorted.1 z hz) hyx

theorem sortedBy_isortBy {lt : α → α → Bool} {L : List α} (h : StrictWeakOrderOn lt L)
    (l : List α) (hl : ∀ y ∈ l, y ∈ L) : SortedBy lt (isortBy lt l) := by
  induction l with
  | nil => simp [isortBy, SortedBy]
  | cons x xs ih =>
    have hxs : ∀ y ∈ xs, y ∈ L := fun y hy => hl y (by simp [hy])
    exact sortedBy_insBy h x (hl x (by simp)) _ (fun y hy => hxs y ((mem_isortBy lt xs y).1 hy)) (ih hxs)

theorem filter_insBy {lt : α → α → Bool} {L : List α} (h : StrictWeakOrderOn lt L) (c : α) (hc : c ∈ L)
    (x : α) (hx : x ∈ L) (s : List α) (hs : ∀ y ∈ s, y ∈ L) :
    (insBy lt x s).filter (eqv lt c) = (x :: s).filter (eqv lt c) := by
  induction s with
  | nil => rfl
  | cons y ys ih =>
    have hy : y ∈ L := hs y (by simp)
    have hys : ∀ z ∈ ys, z ∈ L := fun z hz => hs z (by simp [hz])
    simp only [insBy]
    cases hyx : lt y x with
    | false => simp
    | true =>
      simp only [if_true, List.filter_cons, ih hys]
      cases hcx : eqv lt c x <;> cases hcy : eqv lt c y <;> simp
      -- both equivalent to `c`: then `y < x` is impossible
      simp only [eqv, Bool.and_eq_true, Bool.not_eq_true'] at hcx hcy
      have := h.negTrans y hy c hc x hx hcy.2 hcx.1
      rw [hyx] at this; cases this

theorem filter_isortBy {lt : α → α → Bool} {L : List α} (h : StrictWeakOrderOn lt L) (c : α) (hc : c ∈ L)
    (l : List α) (hl : ∀ y ∈ l, y ∈ L) :
    (isortBy lt l).filter (eqv lt c) = l.filter (eqv lt c) := by
  induction l with
  | nil => rfl
  | cons x xs ih =>
    have hxs : ∀ y ∈ xs, y ∈ L := fun y hy => hl y (by simp [hy])
    simp only [isortBy]
    rw [filter_insBy h c hc x (hl x (by simp)) _ (fun y hy => hxs y ((mem_isortBy lt xs y).1 hy))]
    simp only [List.filter_cons, ih hxs]

/-- insertion sort IS a stable sort (for a strict weak order on the elements of the list) -/
theorem isortBy_isStableSortOf {lt : α → α → Bool} {l : List α} (h : StrictWeakOrderOn lt l) :
    IsStableSortOf lt l (isortBy lt l) :=
  ⟨isortBy_perm lt l, sortedBy_isortBy h l (fun _ hy => hy), fun c hc => filter_isortBy h c hc l (fun _ hy => hy)⟩

/-- two sorted lists with the same elements and the same subsequence in every equivalence class are equal -/
theorem eq_of_sorted_of_filter {lt : α → α → Bool} :
    ∀ (o1 o2 : List α), (∀ a ∈ o1, lt a a = false) → SortedBy lt o1 → SortedBy lt o2 → o1.Perm o2 →
      (∀ c ∈ o1, o1.filter (eqv lt c) = o2.filter (eqv lt c)) → o1 = o2
  | [], o2, _, _, _, hp, _ => (List.Perm.nil_eq hp)
  | a :: t1, [], _, _, _, hp, _ => by simpa using hp.length_eq
  | a :: t1, b :: t2, hirr, hs1, hs2, hp, hf => by
    simp only [SortedBy, List.pairwise_cons] at hs1 hs2
    have haa : lt a a = false := hirr a (by simp)
    have hb1 : b ∈ a :: t1 := hp.mem_iff.2 (by simp)
    have ha2 : a ∈ b :: t2 := hp.mem_iff.1 (by simp)
    have hba : lt b a = false := by
      rcases List.mem_cons.1 hb1 with rfl | hb
      · exact haa
      · exact hs1.1 b hb
    have hab : lt a b = false := by
      rcases List.mem_cons.1 ha2 with rfl | ha
      · exact haa
      · exact hs2.1 a ha
    have hhead := hf a (by simp)
    have e1 : eqv lt a a = true := by simp [eqv, haa]
    have e2 : eqv lt a b = true := by simp [eqv, hab, hba]
    simp only [List.filter_cons, e1, e2, if_true, List.cons.injEq] at hhead
    obtain ⟨rfl, _⟩ := hhead
    have htail : t1 = t2 := by
      apply eq_of_sorted_of_filter t1 t2 (fun x hx => hirr x (by simp [hx])) hs1.2 hs2.2 (List.Perm.cons_inv hp)
      intro c hc
      have := hf c (by simp [hc])
      simp only [List.filter_cons] at this
      cases hca : eqv lt c a
      · simpa [hca] using this
      · simpa [hca] using this
    rw [htail]

/-- UNIQUENESS OF STABLE SORTING: two stable sorts of the same list by the same order are the same list -/
theorem stable_sort_unique {lt : α → α → Bool} {l o1 o2 : List α} (hirr : ∀ a ∈ l, lt a a = false)
    (h1 : IsStableSortOf lt l o1) (h2 : IsStableSortOf lt l o2) : o1 = o2 := by
  apply eq_of_sorted_of_filter o1 o2 (fun a ha => hirr a (h1.perm.mem_iff.1 ha)) h1.sorted h2.sorted
    (h1.perm.trans h2.perm.symm)
  intro c hc
  have hcl : c ∈ l := h1.perm.mem_iff.1 hc
  rw [h1.stable c hcl, h2.stable c hcl]

/-! ### the raising sort agrees with the pure one where no comparison raises -/

theorem insM_ok {ε} (lt : α → α → Except ε Bool) (ltB : α → α → Bool) (x : α) (s : List α)
    (h : ∀ y ∈ s, lt y x = .ok (ltB y x)) : insM lt x s = .ok (insBy ltB x s) := by
  induction s with
  | nil => rfl
  | cons y ys ih =>
    have hy := h y (by simp)
    have ih' := ih (fun z hz => h z (by simp [hz]))
    simp only [insM, insBy, hy, ih']
    cases ltB y x <;> rfl

theorem isortM_ok {ε} (lt : α → α → Except ε Bool) (ltB : α → α → Bool) (l : List α)
    (h : ∀ a ∈ l, ∀ b ∈ l, lt a b = .ok (ltB a b)) : isortM lt l = .ok (isortBy ltB l) := by
  induction l with
  | nil => rfl
  | cons x xs ih =>
    have ih' := ih (fun a ha b hb => h a (by simp [ha]) b (by simp [hb]))
    simp only [isortM, isortBy, ih']
    exact insM_ok lt ltB x _ (fun y hy => h y (by simp [(mem_isortBy ltB xs y).1 hy]) x (by simp))

end generic

/-! ## Part B — the generated functions -/

open SCoda.Gen.Sort

theorem pyIndex_members (t : MType) :
    pyIndex KVal.eq (messageTypeMembers.map KVal.mtype) (.mtype t) = .ok t.rank := by
  cases t <;> rfl

theorem keyLe_iff_lex (a b : Msg) : keyLe a b = true ↔
    a.time < b.time ∨ (a.time = b.time ∧ (a.ch < b.ch ∨ (a.ch = b.ch ∧
      (a.ty.rank < b.ty.rank ∨ (a.ty.rank = b.ty.rank ∧ a.note ≤ b.note))))) := by
  unfold keyLe
  repeat' split
  all_goals simp only [decide_eq_true_eq, Bool.false_eq_true, true_iff, false_iff]
  all_goals omega

theorem messageTypeLt_mtype (a b : MType) :
    messageTypeLt a (.mtype b) = .ok (decide (a.rank < b.rank)) := by
  cases a <;> cases b <;> rfl

theorem ofField_inj (u v : Int) : KVal.ofField u = KVal.ofField v ↔ u = v := by
  unfold KVal.ofField
  by_cases hu : u = pyNone <;> by_cases hv : v = pyNone <;> simp [hu, hv] <;> omega

theorem chanKey_eq (c : Int) :
    (if KVal.isNone (KVal.ofField c) then KVal.int (-1) else KVal.ofField c) = KVal.int c := by
  unfold KVal.ofField
  by_cases hc : c = pyNone
  · simp [hc, KVal.isNone, pyNone]
  · simp [hc, KVal.isNone]

theorem ofField_lt (m : MType → KVal → Except SortErr Bool) (u v : Int) (h : u = pyNone ↔ v = pyNone) (hne : u ≠ v) :
    KVal.lt m (KVal.ofField u) (KVal.ofField v) = .ok (decide (u < v)) := by
  have hu : u ≠ pyNone := fun hu => hne (by rw [hu, h.1 hu])
  have hv : v ≠ pyNone := fun hv => hu (h.2 hv)
  simp [KVal.ofField, hu, hv, KVal.lt, pure, Except.pure]

/-- no comparison of the two keys raises -/
def Comparable (a b : Msg) : Prop :=
  (a.time = pyNone ↔ b.time = pyNone) ∧
  (a.time = b.time → a.ch = b.ch → a.ty = b.ty → (a.note = pyNone ↔ b.note = pyNone))

theorem keyLt_sortKey (a b : Msg) (h : Comparable a b) :
    keyLt (sortKey a) (sortKey b) = .ok (!keyLe b a) := by
  have hk : ∀ (P : Prop) [Decidable P], (P ↔ ¬ keyLe b a = true) → (Except.ok (decide P) : Except SortErr Bool) = .ok (!keyLe b a) := by
    intro P _ hP
    congr 1
    rw [Bool.eq_iff_iff]; simp [hP]
  simp only [keyLt, sortKey, chanKey_eq, tupleLt, KVal.eq, ofField_inj, KVal.int.injEq, KVal.mtype.injEq]
  by_cases ht : a.time = b.time
  · by_cases hc : a.ch = b.ch
    · by_cases hty : a.ty = b.ty
      · by_cases hn : a.note = b.note
        · simp only [ht, hc, hty, hn, decide_true, if_true, pure, Except.pure]
          apply hk False
          rw [keyLe_iff_lex]; simp [ht, hc, hty, hn]
        · simp only [ht, hc, hty, hn, decide_true, decide_false, if_true, Bool.false_eq_true, if_false]
          rw [ofField_lt _ _ _ (h.2 ht hc hty) hn]
          apply hk
          rw [keyLe_iff_lex]; simp [ht, hc, hty]
      · have hr : a.ty.rank ≠ b.ty.rank := fun hr => hty (MType.rank_injective hr)
        simp only [ht, hc, hty, decide_true, decide_false, if_true, Bool.false_eq_true, if_false, KVal.lt, messageTypeLt_mtype]
        apply hk
        rw [keyLe_iff_lex]; simp [ht, hc]; omega
    · simp only [ht, hc, decide_true, decide_false, if_true, Bool.false_eq_true, if_false, KVal.lt, pure, Except.pure]
      apply hk
      rw [keyLe_iff_lex]; simp [ht]; omega
  · simp only [ht, decide_false, Bool.false_eq_true, if_false]
    rw [ofField_lt _ _ _ h.1 ht]
    apply hk
    rw [keyLe_iff_lex]; omega

theorem keyLe_total (a b : Msg) : keyLe a b = true ∨ keyLe b a = true := by
  rw [keyLe_iff_lex, keyLe_iff_lex]; omega

theorem keyLe_refl (a : Msg) : keyLe a a = true := by
  rw [keyLe_iff_lex]; omega

theorem keyLe_trans (a b c : Msg) (h1 : keyLe a b = true) (h2 : keyLe b c = true) : keyLe a c = true := by
  rw [keyLe_iff_lex] at *; omega

instance (a b : Msg) : Decidable (Comparable a b) := by unfold Comparable; exact inferInstance

theorem comparable_symm {a b : Msg} (h : Comparable a b) : Comparable b a :=
  ⟨h.1.symm, fun ht hc hty => (h.2 ht.symm hc.symm hty.symm).symm⟩

theorem comparable_refl (a : Msg) : Comparable a a := ⟨Iff.rfl, fun _ _ _ => Iff.rfl⟩

theorem ofField_lt_error (m : MType → KVal → Except SortErr Bool) (u v : Int) (h : ¬ (u = pyNone ↔ v = pyNone)) :
    KVal.lt m (KVal.ofField u) (KVal.ofField v) = .error .typeError := by
  by_cases hu : u = pyNone <;> by_cases hv : v = pyNone
  · exact absurd (by simp [hu, hv]) h
  · simp [KVal.ofField, hu, hv, KVal.lt, throw, throwThe, MonadExceptOf.throw]
  · simp [KVal.ofField, hu, hv, KVal.lt, throw, throwThe, MonadExceptOf.throw]
  · exact absurd (by simp [hu, hv]) h

/-- outside `Comparable` the comparison of the two keys raises TypeError -/
theorem keyLt_sortKey_error (a b : Msg) (h : ¬ Comparable a b) :
    keyLt (sortKey a) (sortKey b) = .error .typeError := by
  simp only [keyLt, sortKey, chanKey_eq, tupleLt, KVal.eq, ofField_inj, KVal.int.injEq, KVal.mtype.injEq]
  by_cases h1 : (a.time = pyNone ↔ b.time = pyNone)
  · have h2 : ¬ (a.time = b.time → a.ch = b.ch → a.ty = b.ty → (a.note = pyNone ↔ b.note = pyNone)) :=
      fun h2 => h ⟨h1, h2⟩
    simp only [Classical.not_imp] at h2
    obtain ⟨ht, hc, hty, hn⟩ := h2
    have hne : a.note ≠ b.note := fun e => hn (by rw [e])
    simp only [ht, hc, hty, hne, decide_true, decide_false, if_true, Bool.false_eq_true, if_false]
    exact ofField_lt_error _ _ _ hn
  · have ht : a.time ≠ b.time := fun e => h1 (by rw [e])
    simp only [ht, decide_false, Bool.false_eq_true, if_false]
    exact ofField_lt_error _ _ _ h1

/-! ### outside the domain the insertion sort meets a raising comparison -/

/-- a message between two messages (in the hand order) that is comparable with both makes them comparable -/
theorem comparable_of_between {x y1 y : Msg} (h1 : Comparable y1 x) (h2 : Comparable y1 y)
    (hx : keyLe x y1 = true) (hy : keyLe y1 y = true) : Comparable y x := by
  rw [keyLe_iff_lex] at hx hy
  refine ⟨h2.1.symm.trans h1.1, fun ht hc hty => ?_⟩
  have hr : y.ty.rank = x.ty.rank := by rw [hty]
  have e1 : y1.time = x.time := by omega
  have e2 : y1.ch = x.ch := by omega
  have e3 : y1.ty.rank = x.ty.rank := by omega
  have e3' : y1.ty = x.ty := MType.rank_injective e3
  exact (h2.2 (e1.trans ht.symm) (e2.trans hc.symm) (e3'.trans hty.symm)).symm.trans (h1.2 e1 e2 e3')

/-- the comparison the translated sort uses, through a projection `f` (`Gen.Sort.sortOf`) -/
abbrev ltM {α : Type} (f : α → Msg) (a b : α) : Except SortErr Bool := keyLt (sortKey (f a)) (sortKey (f b))

theorem insM_error {α : Type} (f : α → Msg) (x : α) (s : List α)
    (hdom : ∀ a ∈ s, ∀ b ∈ s, Comparable (f a) (f b)) (hsorted : s.Pairwise (fun a b => keyLe (f a) (f b) = true))
    (hbad : ∃ y ∈ s, ¬ Comparable (f y) (f x)) : insM (ltM f) x s = .error .typeError := by
  induction s with
  | nil => obtain ⟨y, hy, _⟩ := hbad; cases hy
  | cons y1 ys ih =>
    simp only [insM, ltM]
    by_cases hc : Comparable (f y1) (f x)
    · rw [keyLt_sortKey (f y1) (f x) hc]
      obtain ⟨y, hy, hyx⟩ := hbad
      have hyys : y ∈ ys := by
        rcases List.mem_cons.1 hy with rfl | h
        · exact absurd hc hyx
        · exact h
      simp only [List.pairwise_cons] at hsorted
      cases hle : keyLe (f x) (f y1) with
      | true =>
        exact absurd (comparable_of_between hc (hdom y1 (by simp) y hy) hle (hsorted.1 y hyys)) hyx
      | false =>
        have := ih (fun a ha b hb => hdom a (by simp [ha]) b (by simp [hb])) hsorted.2 ⟨y, hyys, hyx⟩
        simp [this, bind, Except.bind]
    · rw [keyLt_sortKey_error (f y1) (f x) hc]; rfl

theorem isortM_error {α : Type} (f : α → Msg) (l : List α) (h : ¬ ∀ a ∈ l, ∀ b ∈ l, Comparable (f a) (f b)) :
    isortM (ltM f) l = .error .typeError := by
  induction l with
  | nil => exact absurd (by simp) h
  | cons x xs ih =>
    simp only [isortM]
    by_cases hxs : ∀ a ∈ xs, ∀ b ∈ xs, Comparable (f a) (f b)
    · have hok := isortM_ok (ltM f) (fun a b => !keyLe (f b) (f a)) xs (fun a ha b hb => keyLt_sortKey (f a) (f b) (hxs a ha b hb))
      rw [hok]
      have hbad : ∃ y ∈ xs, ¬ Comparable (f y) (f x) := by
        apply Classical.byContradiction
        intro hno
        simp only [not_exists, not_and, Classical.not_not] at hno
        apply h
        intro a ha b hb
        rcases List.mem_cons.1 ha with ea | ha'
        · rcases List.mem_cons.1 hb with eb | hb'
          · rw [ea, eb]; exact comparable_refl _
          · rw [ea]; exact comparable_symm (hno b hb')
        · rcases List.mem_cons.1 hb with eb | hb'
          · rw [eb]; exact hno a ha'
          · exact hxs a ha' b hb'
      have hswo : StrictWeakOrderOn (fun a b : α => !keyLe (f b) (f a)) xs := by
        refine ⟨fun a _ => by simp [keyLe_refl], ?_, ?_⟩
        · intro a _ b _ c _ h1 h2
          simp only [Bool.not_eq_eq_eq_not, Bool.not_true] at *
          cases hca : keyLe (f c) (f a) with
          | false => rfl
          | true =>
            rcases keyLe_total (f a) (f b) with hab | hba
            · rw [keyLe_trans (f c) (f a) (f b) hca hab] at h2; cases h2
            · rw [hba] at h1; cases h1
        · intro a _ b _ c _ h1 h2
          simp only [Bool.not_eq_false'] at *
          exact keyLe_trans (f c) (f b) (f a) h2 h1
      have hsorted := sortedBy_isortBy hswo xs (fun _ hy => hy)
      apply insM_error f x _ (fun a ha b hb => hxs a ((mem_isortBy _ xs a).1 ha) b ((mem_isortBy _ xs b).1 hb))
      · refine List.Pairwise.imp ?_ hsorted
        intro a b hab; simpa using hab
      · obtain ⟨y, hy, hyx⟩ := hbad
        exact ⟨y, (mem_isortBy _ xs y).2 hy, hyx⟩
    · rw [ih hxs]; rfl

end SCoda.SortTieL
