/-
  Lemmas for Props/Defs.lean, second part: the look-up algebra of `decode` WITHOUT the hypothesis that the construction
  sequence is duplicate free.  `_construct_dictionary` stores `d[key_i] = i` in sequence (`setAll`); a later duplicate
  overwrites the id of an earlier one, so the dictionary holds, for each key, its LAST index (`get?_setAll`), and the
  inverse dictionary `{v: k for k, v in d.items()}` holds exactly the ids that survived: `inverse[i] = key_i` iff `i` is
  the last index of `key_i`.  That is `decodeId` of Model/Token.lean, through `render` (injective on all tokens,
  Lemmas/DefsL.lean).
-/
import SCoda.Lemmas.TokTieL5
import SCoda.Lemmas.DefsL
import SCoda.Lemmas.TokTieChan
set_option linter.unusedSimpArgs false
set_option linter.unusedVariables false
namespace SCoda.DefsL
open SCoda SCoda.TokLib SCoda.Gen.Tok SCoda.RenderL SCoda.TokTieL

/-! ### association lists -/

def KeysNodup {κ ν} (d : Assoc κ ν) : Prop := (d.map (·.1)).Nodup

theorem keys_set {κ ν} [DecidableEq κ] (d : Assoc κ ν) (k : κ) (v : ν) :
    (Assoc.set d k v).map (·.1) = if k ∈ d.map (·.1) then d.map (·.1) else d.map (·.1) ++ [k] := by
  induction d with
  | nil => simp [Assoc.set]
  | cons e rest ih =>
    obtain ⟨k', w⟩ := e
    by_cases hk : k' = k
    · subst hk; simp [Assoc.set]
    · have hk' : ¬ k = k' := fun h => hk h.symm
      simp only [Assoc.set, hk, if_false, List.map_cons, ih, List.mem_cons, hk', false_or]
      split <;> simp

theorem keysNodup_set {κ ν} [DecidableEq κ] (d : Assoc κ ν) (k : κ) (v : ν) (h : KeysNodup d) :
    KeysNodup (Assoc.set d k v) := by
  unfold KeysNodup at *
  rw [keys_set]
  split
  · exact h
  · rename_i hk
    rw [List.nodup_append]
    exact ⟨h, by simp, by intro a ha b hb; simp at hb; subst hb; intro e; subst e; exact hk ha⟩

theorem get?_of_mem {κ ν} [DecidableEq κ] (d : Assoc κ ν) (k : κ) (v : ν) (hn : KeysNodup d) (h : (k, v) ∈ d) :
    Assoc.get? d k = some v := by
  induction d with
  | nil => cases h
  | cons e rest ih =>
    obtain ⟨k', w⟩ := e
    unfold KeysNodup at hn
    simp only [List.map_cons, List.nodup_cons] at hn
    simp only [List.mem_cons, Prod.mk.injEq] at h
    rcases h with ⟨rfl, rfl⟩ | h
    · simp [Assoc.get?]
    · have : ¬ k' = k := by
        intro e; subst e
        exact hn.1 (List.mem_map.2 ⟨(k', v), h, rfl⟩)
      simp only [Assoc.get?, this, if_false]
      exact ih hn.2 h

theorem keysNodup_setAll : ∀ (ks : List String) (d : List (String × Int)) (n : Int), KeysNodup d → KeysNodup (setAll d n ks) := by
  intro ks
  induction ks with
  | nil => intro d n h; exact h
  | cons k ks ih => intro d n h; exact ih _ _ (keysNodup_set d k n h)

/-- `dict(pairs)[j] = k` only if the pair `(j, k)` occurs -/
theorem ofList_get_some {κ ν} [DecidableEq κ] : ∀ (L : List (κ × ν)) (acc : Assoc κ ν) (j : κ) (k : ν),
    Assoc.get? (L.foldl (fun d kv => Assoc.set d kv.1 kv.2) acc) j = some k → (j, k) ∈ L ∨ Assoc.get? acc j = some k := by
  intro L
  induction L with
  | nil => intro acc j k h; exact Or.inr h
  | cons p L ih =>
    intro acc j k h
    rcases ih _ j k h with h' | h'
    · exact Or.inl (by simp [h'])
    · rw [get?_set] at h'
      by_cases hp : p.1 = j
      · simp only [hp, if_true, Option.some.injEq] at h'
        exact Or.inl (by rw [← hp, ← h']; simp)
      · simp only [hp, if_false] at h'
        exact Or.inr h'

/-- `dict(pairs)[j] = k` if `(j, k)` occurs and is the only pair with first component `j` -/
theorem ofList_get_uniq {κ ν} [DecidableEq κ] : ∀ (L : List (κ × ν)) (acc : Assoc κ ν) (j : κ) (k : ν),
    (∀ k', (j, k') ∈ L → k' = k) → ((j, k) ∈ L ∨ Assoc.get? acc j = some k) →
    Assoc.get? (L.foldl (fun d kv => Assoc.set d kv.1 kv.2) acc) j = some k := by
  intro L
  induction L with
  | nil => intro acc j k _ h; rcases h with h | h; cases h; exact h
  | cons p L ih =>
    intro acc j k hu h
    simp only [List.foldl_cons]
    apply ih _ j k (fun k' hk' => hu k' (by simp [hk']))
    rw [get?_set]
    simp only [List.mem_cons] at h
    rcases h with (h | h) | h
    · exact Or.inr (by rw [← h]; simp)
    · exact Or.inl h
    · by_cases hp : p.1 = j
      · have : p.2 = k := hu p.2 (by rw [← hp]; simp)
        exact Or.inr (by simp [hp, this])
      · exact Or.inr (by simp [hp, h])

/-! ### last indices -/

theorem lastIdxS_getElem (k : String) : ∀ (ks : List String) (j : Nat), lastIdxS k ks 0 none = some j → ks[j]? = some k := by
  intro ks
  induction ks with
  | nil => intro j h; cases h
  | cons x xs ih =>
    intro j h
    simp only [lastIdxS] at h
    rw [lastIdxS_shift k xs (0 + 1)] at h
    cases hl : lastIdxS k xs 0 none with
    | some j' =>
      rw [hl] at h
      simp only [Option.some.injEq] at h
      subst h
      rw [show 0 + 1 + j' = j' + 1 by omega, List.getElem?_cons_succ]
      exact ih j' hl
    | none =>
      rw [hl] at h
      by_cases hx : x = k
      · simp only [hx, if_true, Option.some.injEq] at h
        subst h; simp [hx]
      · simp [hx] at h

/-- `render` is injective, so the last index of a rendered token among rendered tokens is its last index among the tokens -/
theorem lastIdxS_render_all (t : Tok) (toks : List Tok) (i : Nat) (best : Option Nat) :
    lastIdxS (render t) (toks.map render) i best = lastIdxGo t toks i best :=
  lastIdxS_render t toks i best (fun x _ h => render_inj x t h)

/-! ### the two dictionaries -/

/-- the dictionary after `_construct_dictionary` on a fresh object: a key holds its last index -/
theorem dict_get (c : Cfg) (t : Tok) :
    Assoc.get? (setAll [] 0 ((vocabSeq c).map render)) (render t) = (encodeTok c t).map Int.ofNat := by
  rw [get?_setAll, lastIdxS_render_all]
  unfold encodeTok
  cases lastIdxGo t (vocabSeq c) 0 none with
  | some i => simp
  | none => rfl

/-- the inverse dictionary: `inverse[i]` is the key number `i` if `i` is that key's last index, and missing otherwise -/
theorem inverse_get (c : Cfg) (i : Nat) :
    Assoc.get? (pyDictOfList ((setAll [] 0 ((vocabSeq c).map render)).map (fun p => (p.2, p.1)))) (i : Int)
      = (decodeId c i).map render := by
  have hkn : KeysNodup (setAll [] 0 ((vocabSeq c).map render)) := keysNodup_setAll _ [] 0 (by simp [KeysNodup])
  -- a pair `(k, i)` of the dictionary: `k` is the rendered token number `i`, and `i` is its last index
  have hmem : ∀ k : String, (k, (i : Int)) ∈ setAll [] 0 ((vocabSeq c).map render) →
      ∃ t, (vocabSeq c)[i]? = some t ∧ render t = k ∧ encodeTok c t = some i := by
    intro k hk
    have hg := get?_of_mem _ _ _ hkn hk
    rw [get?_setAll] at hg
    cases hl : lastIdxS k ((vocabSeq c).map render) 0 none with
    | none => rw [hl] at hg; cases hg
    | some j =>
      rw [hl] at hg
      have hj : j = i := by simp at hg; omega
      subst hj
      have hget := lastIdxS_getElem k _ j hl
      rw [List.getElem?_map] at hget
      cases ht : (vocabSeq c)[j]? with
      | none => rw [ht] at hget; cases hget
      | some t =>
        rw [ht] at hget
        simp only [Option.map_some, Option.some.injEq] at hget
        subst hget
        refine ⟨t, rfl, rfl, ?_⟩
        rw [lastIdxS_render_all] at hl
        exact hl
  unfold pyDictOfList
  cases hdec : decodeId c i with
  | some t =>
    unfold decodeId at hdec
    cases hv : (vocabSeq c)[i]? with
    | none => rw [hv] at hdec; cases hdec
    | some t' =>
      rw [hv] at hdec
      simp only at hdec
      split at hdec
      · rename_i henc
        cases hdec
        simp only [Option.map_some]
        apply ofList_get_uniq
        · intro k' hk'
          simp only [List.mem_map, Prod.mk.injEq] at hk'
          obtain ⟨⟨a, b⟩, hab, rfl, rfl⟩ := hk'
          obtain ⟨t'', h1, h2, _⟩ := hmem a hab
          rw [hv] at h1; cases h1
          exact h2.symm
        · left
          have hg := dict_get c t
          rw [henc] at hg
          have := TokTieL.get?_mem _ _ _ hg
          exact List.mem_map.2 ⟨(render t, (i : Int)), this, rfl⟩
      · cases hdec
  | none =>
    simp only [Option.map_none]
    cases hg : Assoc.get? (List.foldl (fun d kv => Assoc.set d kv.1 kv.2) []
        (List.map (fun p => (p.2, p.1)) (setAll [] 0 (List.map render (vocabSeq c))))) (i : Int) with
    | none => rfl
    | some k =>
      exfalso
      rcases ofList_get_some _ _ _ _ hg with h | h
      · simp only [List.mem_map, Prod.mk.injEq] at h
        obtain ⟨⟨a, b⟩, hab, rfl, rfl⟩ := h
        obtain ⟨t, h1, _, h3⟩ := hmem a hab
        unfold decodeId at hdec
        rw [h1] at hdec
        simp [h3] at hdec
      · cases h

/-! ### `_construct_dictionary` on an object with a past: the id of `pad` -/

theorem drop4_kind (c : Cfg) : ∀ x ∈ (vocabSeq c).drop 4, Vocab.kind x ≠ 0 := by
  intro x hx
  have h : (vocabSeq c).drop 4 = c.steps.map Tok.rest ++ Vocab.trkSingles c ++ Vocab.valSingles c ++ Vocab.velSingles c
      ++ Vocab.notes c ++ Vocab.sigs c := rfl
  rw [h] at hx
  simp only [List.mem_append] at hx
  rcases hx with ((((hx | hx) | hx) | hx) | hx) | hx
  · rw [Vocab.kind_rests hx]; decide
  · rw [Vocab.kind_trkSingles hx]; decide
  · rw [Vocab.kind_valSingles hx]; decide
  · rw [Vocab.kind_velSingles hx]; decide
  · rw [Vocab.kind_notes hx]; decide
  · rw [Vocab.kind_sigs hx]; decide

theorem vocabSeq_split (c : Cfg) : vocabSeq c = [Tok.pad, .sta, .sto, .bar] ++ (vocabSeq c).drop 4 := rfl

/-- the generated code on ANY object: `pad` receives the literal id 0 -/
theorem pad_id_generated (o : TokObj) :
    Assoc.get? (pushAll (first4 o) (((vocabSeq (cfgOf o)).drop 4).map render)).dictionary (render .pad) = some 0 := by
  rw [pushAll_dictionary, get?_setAll, lastIdxS_render_all,
    Vocab.lastIdxGo_not_mem (fun h => drop4_kind _ _ h rfl)]
  show Assoc.get? (first4 o).dictionary (prefixOf "PAD") = some 0
  simp only [first4, pyDictSet, get?_set]
  have h1 : ¬ prefixOf "BAR" = prefixOf "PAD" := by decide
  have h2 : ¬ prefixOf "STOP" = prefixOf "PAD" := by decide
  have h3 : ¬ prefixOf "START" = prefixOf "PAD" := by decide
  simp [h1, h2, h3]

/-- the closed form of a fresh object, on ANY object: `pad` receives the old `_dictionary_size` -/
theorem pad_id_closed (o : TokObj) :
    Assoc.get? (pushAll o ((vocabSeq (cfgOf o)).map render)).dictionary (render .pad) = some o.dictionarySize_ := by
  rw [pushAll_dictionary, get?_setAll, lastIdxS_render_all, vocabSeq_split]
  have hnm : Tok.pad ∉ (vocabSeq (cfgOf o)).drop 4 := fun h => drop4_kind _ _ h rfl
  show (match lastIdxGo Tok.pad (Tok.pad :: (Tok.sta :: Tok.sto :: Tok.bar :: (vocabSeq (cfgOf o)).drop 4)) 0 none with
    | some i => some (o.dictionarySize_ + (i : Int)) | none => _) = _
  simp only [lastIdxGo, if_true]
  rw [Vocab.lastIdxGo_not_mem hnm]
  simp

end SCoda.DefsL
