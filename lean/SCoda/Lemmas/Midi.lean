/-
  Helper lemmas for `Props/C13.lean` (the MIDI side): `foldlM'` invariants, `modifyAt`, the stale
  flags of the `Seq` operations used by `convert`, and a decomposition of `convert`.
-/
import SCoda.Model.Midi
namespace SCoda.MidiL
open SCoda

/-! ## results of `Except` computations -/

/-- `r` is `.ok b` with `P b`, or `.error e` with `E e` -/
def Res {β} (E : Err → Prop) (P : β → Prop) : Except Err β → Prop
  | .ok b => P b
  | .error e => E e

theorem Res.of_ok {β} {E : Err → Prop} {P : β → Prop} {r : Except Err β} {b : β}
    (h : Res E P r) (hr : r = .ok b) : P b := by subst hr; exact h

theorem Res.of_error {β} {E : Err → Prop} {P : β → Prop} {r : Except Err β} {e : Err}
    (h : Res E P r) (hr : r = .error e) : E e := by subst hr; exact h

theorem Res.mono {β} {E E' : Err → Prop} {P P' : β → Prop} {r : Except Err β}
    (h : Res E P r) (hE : ∀ e, E e → E' e) (hP : ∀ b, P b → P' b) : Res E' P' r := by
  cases r with
  | ok b => exact hP b h
  | error e => exact hE e h

/-- invariant rule for `foldlM'` (the step may use membership of the element) -/
theorem foldlM'_res {α β} (f : β → α → Except Err β) (E : Err → Prop) (P : β → Prop) (l : List α)
    (hf : ∀ b, ∀ x ∈ l, P b → Res E P (f b x)) (b : β) (hb : P b) : Res E P (foldlM' f b l) := by
  induction l generalizing b with
  | nil => simpa [foldlM', Res] using hb
  | cons x xs ih =>
    unfold foldlM'
    have h1 := hf b x List.mem_cons_self hb
    split
    · rename_i b' hb'
      exact ih (fun b y hy => hf b y (List.mem_cons_of_mem _ hy)) b' (h1.of_ok hb')
    · rename_i e he
      exact h1.of_error he

/-- a fold whose successful steps each append one element -/
theorem foldlM'_length {α γ} (f : List γ → α → Except Err (List γ))
    (hf : ∀ acc x acc', f acc x = .ok acc' → acc'.length = acc.length + 1)
    (l : List α) (acc r : List γ) (h : foldlM' f acc l = .ok r) : r.length = acc.length + l.length := by
  induction l generalizing acc with
  | nil => simp [foldlM'] at h; simp [← h]
  | cons x xs ih =>
    unfold foldlM' at h
    split at h
    · rename_i b' hb'
      rw [ih _ h, hf _ _ _ hb']; simp; omega
    · simp at h

/-! ## `modifyAt` -/

theorem length_modifyAt {α} (f : α → α) (n : Nat) (l : List α) : (modifyAt f n l).length = l.length := by
  induction l generalizing n with
  | nil => simp [modifyAt]
  | cons x xs ih => cases n <;> simp [modifyAt, ih]

theorem mem_modifyAt {α} (f : α → α) (n : Nat) (l : List α) (x : α) (h : x ∈ modifyAt f n l) :
    x ∈ l ∨ ∃ y ∈ l, x = f y := by
  induction l generalizing n with
  | nil => simp [modifyAt] at h
  | cons y ys ih =>
    cases n with
    | zero =>
      simp only [modifyAt, List.mem_cons] at h
      rcases h with h | h
      · exact Or.inr ⟨y, List.mem_cons_self, h⟩
      · exact Or.inl (List.mem_cons_of_mem _ h)
    | succ n =>
      simp only [modifyAt, List.mem_cons] at h
      rcases h with h | h
      · exact Or.inl (h ▸ List.mem_cons_self)
      · rcases ih n h with h' | ⟨z, hz, hx⟩
        · exact Or.inl (List.mem_cons_of_mem _ h')
        · exact Or.inr ⟨z, List.mem_cons_of_mem _ hz, hx⟩

theorem getElem?_modifyAt_self {α} (f : α → α) (n : Nat) (l : List α) (x : α) (h : l[n]? = some x) :
    (modifyAt f n l)[n]? = some (f x) := by
  induction l generalizing n with
  | nil => simp at h
  | cons y ys ih =>
    cases n with
    | zero => simp at h; simp [modifyAt, h]
    | succ n => simp at h; simp [modifyAt, ih n h]

/-! ## stale flags -/

/-- at least one view is fresh -/
def Good (s : Seq) : Prop := s.absStale = false ∨ s.relStale = false

theorem good_new : Good Seq.new := Or.inl rfl

theorem readAbs_ok (s q : Seq) (a : List Msg) (h : s.readAbs = .ok (q, a)) :
    q.absStale = false ∧ q.abs = a := by
  unfold Seq.readAbs at h
  split at h
  · split at h
    · simp at h
    · simp at h; obtain ⟨rfl, rfl⟩ := h; simp
  · rename_i h1
    simp at h; obtain ⟨rfl, rfl⟩ := h; simpa using h1

theorem readAbs_fresh (s : Seq) (h : s.absStale = false) : s.readAbs = .ok (s, s.abs) := by
  simp [Seq.readAbs, h]

theorem readAbs_good (s : Seq) (h : Good s) : ∃ q a, s.readAbs = .ok (q, a) := by
  unfold Seq.readAbs
  rcases h with h | h <;> cases h1 : s.absStale <;> simp_all

theorem addAbsMsg_fresh (s : Seq) (m : Msg) (h : s.absStale = false) :
    s.addAbsMsg m = .ok { s with abs := insort s.abs m, relStale := true } := by
  simp [Seq.addAbsMsg, Seq.onAbs, readAbs_fresh s h, bind, Except.bind]

theorem addAbsMsg_good (s : Seq) (m : Msg) (h : Good s) : ∃ q, s.addAbsMsg m = .ok q ∧ Good q := by
  obtain ⟨q, a, hq⟩ := readAbs_good s h
  have := readAbs_ok _ _ _ hq
  refine ⟨{ q with abs := insort a m, relStale := true }, ?_, Or.inl this.1⟩
  simp [Seq.addAbsMsg, Seq.onAbs, hq, bind, Except.bind]

theorem normaliseSeq_good (s : Seq) (h : Good s) : ∃ q, s.normaliseSeq = .ok q ∧ q.relStale = false := by
  unfold Seq.normaliseSeq Seq.onRel Seq.readRel
  rcases h with h | h <;> cases h1 : s.relStale <;> simp_all [bind, Except.bind]

theorem mergeSeq_good (s : Seq) (o : List (List Msg)) (h : Good s) :
    ∃ q, s.mergeSeq o = .ok q ∧ q.relStale = false := by
  obtain ⟨q, a, hq⟩ := readAbs_good s h
  have hq' := readAbs_ok _ _ _ hq
  obtain ⟨q2, h2, h3⟩ := normaliseSeq_good { q with abs := mergeAbs a o, relStale := true } (Or.inl hq'.1)
  refine ⟨q2, ?_, h3⟩
  simp [Seq.mergeSeq, Seq.onAbs, hq, bind, Except.bind, h2]

theorem mem_insort (l : List Msg) (m : Msg) : m ∈ insort l m := by
  simp [insort]

/-! ## the conversion state -/

def IsIdx (e : Err) : Prop := e = .indexError

/-- `n` groups, every sequence has a fresh view -/
def CInv (n : Nat) (s : ConvSt) : Prop :=
  s.seqs.length = n ∧ (∀ g ∈ s.seqs, ∀ q ∈ g, Good q) ∧ Good s.metaSeq

theorem addMeta_inv (n : Nat) (s : ConvSt) (m : Msg) (h : CInv n s) :
    Res (fun _ => False) (CInv n) (s.addMeta m) := by
  obtain ⟨q, hq, hg⟩ := addAbsMsg_good s.metaSeq m h.2.2
  simp only [ConvSt.addMeta, hq, bind, Except.bind, Res]
  exact ⟨h.1, h.2.1, hg⟩

theorem addCur_inv (n : Nat) (s : ConvSt) (loc : Option (Nat × Nat)) (m : Msg) (h : CInv n s) :
    Res IsIdx (CInv n) (s.addCur loc m) := by
  unfold ConvSt.addCur
  split
  · rename_i gi pos
    split
    · rename_i q hq
      have hqg : Good q := by
        cases hg : s.seqs[gi]? with
        | none => simp [hg] at hq
        | some g =>
          simp [hg] at hq
          exact h.2.1 g (List.mem_of_getElem? hg) q (List.mem_of_getElem? hq)
      obtain ⟨q', hq', hg'⟩ := addAbsMsg_good q m hqg
      simp only [hq', bind, Except.bind, Res]
      refine ⟨by simp [length_modifyAt, h.1], ?_, h.2.2⟩
      intro g hg x hx
      rcases mem_modifyAt _ _ _ _ hg with hg | ⟨g0, hg0, rfl⟩
      · exact h.2.1 g hg x hx
      · rcases mem_modifyAt _ _ _ _ hx with hx | ⟨_, _, rfl⟩
        · exact h.2.1 g0 hg0 x hx
        · exact hg'
    · simp [Res, IsIdx]
  · exact (addMeta_inv n s m h).mono (fun _ h => h.elim) (fun _ h => h)

theorem convMsg_inv (n : Nat) (ppqn filePpq : Int) (loc : Option (Nat × Nat)) (acc : ConvSt × Int)
    (m : MidiEv) (h : CInv n acc.1) :
    Res IsIdx (fun r => CInv n r.1) (convMsg ppqn filePpq loc acc m) := by
  unfold convMsg
  simp only
  generalize hs : ({ acc.1 with defCh := _ } : ConvSt) = s1
  have h1 : CInv n s1 := by subst hs; exact h
  split
  · rename_i msg _
    have := addMeta_inv n s1 msg h1
    split
    · rename_i s2 h2; exact this.of_ok h2
    · rename_i e h2; exact (this.of_error h2).elim
  · rename_i msg _
    have := addCur_inv n s1 loc msg h1
    split
    · rename_i s2 h2; exact this.of_ok h2
    · rename_i e h2; exact this.of_error h2
  · exact h1

theorem convTrack_inv (n : Nat) (ppqn filePpq : Int) (groups : List (List Nat)) (metaIdx : List Nat)
    (s : ConvSt) (it : List MidiEv × Nat) (h : CInv n s) :
    Res IsIdx (CInv n) (convTrack ppqn filePpq groups metaIdx s it) := by
  unfold convTrack
  simp only
  split
  · exact h
  · have := foldlM'_res (convMsg ppqn filePpq (firstGroupOf groups it.2)) IsIdx (fun r => CInv n r.1) it.1
      (fun b x _ hb => convMsg_inv n _ _ _ b x hb) (s, 0) h
    split
    · rename_i r hr; exact this.of_ok hr
    · rename_i e he; exact this.of_error he

theorem cinv_init (groups : List (List Nat)) :
    CInv groups.length { seqs := groups.map (fun g => g.map (fun _ => Seq.new)) } := by
  refine ⟨by simp, ?_, good_new⟩
  intro g hg q hq
  simp only [List.mem_map] at hg
  obtain ⟨g0, _, rfl⟩ := hg
  simp only [List.mem_map] at hq
  obtain ⟨_, _, rfl⟩ := hq
  exact good_new

theorem tracks_inv (ppqn filePpq : Int) (tracks : List (List MidiEv)) (groups : List (List Nat))
    (metaIdx : List Nat) :
    Res IsIdx (CInv groups.length)
      (foldlM' (convTrack ppqn filePpq groups metaIdx)
        { seqs := groups.map (fun g => g.map (fun _ => Seq.new)) } tracks.zipIdx) :=
  foldlM'_res _ _ _ _ (fun b x _ hb => convTrack_inv _ _ _ _ _ b x hb) _ (cinv_init groups)

/-! ## decomposition of `convert` -/

/-- one group: normalise every member, merge the rest into the first -/
def groupStep (acc : List Seq) (g : List Seq) : Except Err (List Seq) := do
  let g ← foldlM' (fun (a : List Seq) q => do let q' ← q.normaliseSeq; .ok (a ++ [q'])) [] g
  match g with
  | [] => .error .indexError
  | t :: rest =>
    let restAbs ← foldlM' (fun (a : List (List Msg)) q => do let (_, x) ← q.readAbs; .ok (a ++ [x])) [] rest
    let t' ← t.mergeSeq restAbs
    .ok (acc ++ [t'])

/-- the part of `convert` after the groups are merged -/
def finish (s : ConvSt) (merged : List Seq) (target : Int) : Except Err (List Seq) := do
  if target < 0 || target >= merged.length then throw .valueError
  let ti := target.toNat
  match merged[ti]? with
  | Option.none => .error .valueError
  | some mt =>
    let (_, ma) ← s.metaSeq.readAbs
    let mt ← mt.mergeSeq [ma]
    let (mt, a) ← mt.readAbs
    let hasTs0 := (timesOfType .timeSignature a).any (fun m => m.time == 0)
    let mt ← if hasTs0 then .ok mt else mt.addAbsMsg (Msg.mkTimeSig (s.defCh.getD 0) 4 4 0)
    .ok (modifyAt (fun _ => mt) ti merged)

theorem convert_eq (ppqn filePpq : Int) (tracks : List (List MidiEv)) (groups : List (List Nat))
    (metaIdx : List Nat) (target : Int) :
    convert ppqn filePpq tracks groups metaIdx target =
      (do let s ← foldlM' (convTrack ppqn filePpq groups metaIdx)
                    { seqs := groups.map (fun g => g.map (fun _ => Seq.new)) } tracks.zipIdx
          let merged ← foldlM' groupStep [] s.seqs
          finish s merged target) := rfl

theorem groupStep_length (acc : List Seq) (g : List Seq) (acc' : List Seq)
    (h : groupStep acc g = .ok acc') : acc'.length = acc.length + 1 := by
  unfold groupStep at h
  simp only [bind, Except.bind] at h
  split at h
  · simp at h
  · split at h
    · simp at h
    · split at h
      · simp at h
      · split at h
        · simp at h
        · simp at h; simp [← h]

theorem groups_length (l : List (List Seq)) (r : List Seq) (h : foldlM' groupStep [] l = .ok r) :
    r.length = l.length := by
  simpa using foldlM'_length groupStep groupStep_length l [] r h

theorem groupStep_res (acc : List Seq) (g : List Seq) (hg : ∀ q ∈ g, Good q) :
    Res IsIdx (fun _ => True) (groupStep acc g) := by
  unfold groupStep
  simp only [bind, Except.bind]
  have h1 := foldlM'_res (fun (a : List Seq) q => do let q' ← q.normaliseSeq; .ok (a ++ [q']))
    (fun _ => False) (fun a => ∀ q ∈ a, Good q) g
    (fun b x hx hb => by
      obtain ⟨q, hq, hq'⟩ := normaliseSeq_good x (hg x hx)
      simp only [bind, Except.bind, hq, Res]
      intro y hy
      simp at hy
      rcases hy with hy | rfl
      · exact hb y hy
      · exact Or.inr hq') [] (by simp)
  simp only [bind, Except.bind] at h1
  split
  · rename_i e he; exact (h1.of_error he).elim
  · rename_i g' hg'
    have h2 := h1.of_ok hg'
    split
    · simp [Res, IsIdx]
    · rename_i t rest
      have h3 := foldlM'_res (fun (a : List (List Msg)) (q : Seq) => do let (_, x) ← q.readAbs; .ok (a ++ [x]))
        (fun _ => False) (fun _ => True) rest
        (fun b x hx _ => by
          obtain ⟨q, a, hq⟩ := readAbs_good x (h2 x (List.mem_cons_of_mem _ hx))
          simp [bind, Except.bind, hq, Res]) [] trivial
      simp only [bind, Except.bind] at h3
      split
      · rename_i e he; exact (h3.of_error he).elim
      · rename_i ra _
        obtain ⟨q, hq, _⟩ := mergeSeq_good t ra (h2 t List.mem_cons_self)
        simp [hq, Res]

theorem groups_res (l : List (List Seq)) (hl : ∀ g ∈ l, ∀ q ∈ g, Good q) :
    Res IsIdx (fun _ => True) (foldlM' groupStep [] l) :=
  foldlM'_res groupStep IsIdx (fun _ => True) l (fun b x hx _ => groupStep_res b x (hl x hx)) [] trivial

theorem finish_bad (s : ConvSt) (merged : List Seq) (target : Int)
    (h : target < 0 ∨ (merged.length : Int) ≤ target) : finish s merged target = .error .valueError := by
  unfold finish
  have : (decide (target < 0) || decide (target ≥ (merged.length : Int))) = true := by
    rcases h with h | h <;> simp [h]
  simp [this, bind, Except.bind, throw, throwThe, MonadExceptOf.throw]

theorem finish_ok (s : ConvSt) (merged : List Seq) (target : Int) (out : List Seq)
    (h : finish s merged target = .ok out) :
    out.length = merged.length ∧
    ∃ q a, out[target.toNat]? = some q ∧ q.readAbs = .ok (q, a) ∧ ∃ m ∈ a, m.ty = .timeSignature ∧ m.time = 0 := by
  by_cases hc : target < 0 ∨ (merged.length : Int) ≤ target
  · rw [finish_bad s merged target hc] at h; simp at h
  have hc' : (decide (target < 0) || decide (target ≥ (merged.length : Int))) = false := by
    simp only [not_or] at hc
    simp [hc.1, hc.2]
  unfold finish at h
  simp only [bind, Except.bind, hc', Bool.false_eq_true, if_false] at h
  split at h
  · simp at h
  · rename_i mt hmt
    split at h
    · simp at h
    · split at h
      · simp at h
      · split at h
        · simp at h
        · rename_i r3 hr3
          have hr := readAbs_ok _ r3.1 r3.2 hr3
          split at h
          · rename_i hts
            simp only [Except.ok.injEq] at h
            subst h
            refine ⟨length_modifyAt _ _ _, r3.1, r3.2, getElem?_modifyAt_self _ _ _ _ hmt, ?_, ?_⟩
            · rw [readAbs_fresh _ hr.1, hr.2]
            · simp only [timesOfType, List.any_eq_true, List.mem_filter] at hts
              obtain ⟨m, ⟨hm, hty⟩, ht⟩ := hts
              exact ⟨m, hm, by simpa using hty, by simpa using ht⟩
          · rw [addAbsMsg_fresh _ _ hr.1] at h
            simp only [Except.ok.injEq] at h
            subst h
            refine ⟨length_modifyAt _ _ _, _, _, getElem?_modifyAt_self _ _ _ _ hmt, readAbs_fresh _ hr.1, ?_⟩
            exact ⟨_, mem_insort _ _, rfl, rfl⟩

/-! ## one event -/

theorem convEvent_time (b : Bool) (m : MidiEv) (rt : Int) (dest : Bool) (msg : Msg)
    (h : convEvent b m rt = some (dest, msg)) : msg.time = rt := by
  unfold convEvent at h
  cases hty : m.ty <;> simp only [hty] at h <;> (try cases b) <;>
    simp [Msg.mkOn, Msg.mkOff, Msg.mkTimeSig] at h <;> (obtain ⟨_, rfl⟩ := h; rfl)

theorem convMsg_snd (ppqn filePpq : Int) (loc : Option (Nat × Nat)) (acc : ConvSt × Int) (m : MidiEv)
    (r : ConvSt × Int) (h : convMsg ppqn filePpq loc acc m = .ok r) :
    r.2 = acc.2 + m.time := by
  unfold convMsg at h
  simp only at h
  split at h
  · split at h <;> simp at h; rw [← h]
  · split at h <;> simp at h; rw [← h]
  · simp at h; rw [← h]

end SCoda.MidiL
