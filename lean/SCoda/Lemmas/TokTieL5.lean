/-
  Helper lemmas for Props/TokTie.lean, fifth part: the look-up algebra of `encode` / `decode` — the value the association list
  built by `_construct_dictionary` (`setAll`) holds for a key is the LAST index of the key in the construction sequence
  (`lastIdxGo` of Model/Token.lean, through `render`, which is injective on tokens with natural-number fields: Props/C02b.lean);
  for a duplicate-free sequence the list is the enumeration and its inverse is the inverse dictionary.
-/
import SCoda.Lemmas.TokTieL4
import SCoda.Props.C02b
set_option linter.unusedSimpArgs false
set_option linter.unusedVariables false
namespace SCoda.TokTieL
open SCoda SCoda.TokLib SCoda.Gen.Tok SCoda.RenderL

/-- model `encode` as the generated code returns it -/
def encodeSpec (c : Cfg) (ts : List Tok) : Except PyErr (List Int) :=
  match SCoda.encode c ts with
  | some ids => .ok (ids.map Int.ofNat)
  | none => .error .keyError

/-- model `decode` as the generated code returns it -/
def decodeSpec (c : Cfg) (ids : List Nat) : Except PyErr (List String) :=
  match SCoda.decode c ids with
  | some ts => .ok (ts.map render)
  | none => .error .keyError

def lastIdxS (k : String) : List String → Nat → Option Nat → Option Nat
  | [], _, best => best
  | x :: xs, i, best => lastIdxS k xs (i + 1) (if x = k then some i else best)

theorem lastIdxS_shift (k : String) : ∀ (ks : List String) (i : Nat) (best : Option Nat),
    lastIdxS k ks i best = match lastIdxS k ks 0 none with | some j => some (i + j) | none => best := by
  intro ks
  induction ks with
  | nil => intro i best; rfl
  | cons x xs ih =>
    intro i best
    simp only [lastIdxS]
    rw [ih (i + 1), ih (0 + 1)]
    cases lastIdxS k xs 0 none with
    | some j => simp; omega
    | none => by_cases h : x = k <;> simp [h]

theorem get?_set {κ ν} [DecidableEq κ] (d : Assoc κ ν) (a b : κ) (v : ν) :
    Assoc.get? (Assoc.set d a v) b = if a = b then some v else Assoc.get? d b := by
  induction d with
  | nil => simp [Assoc.set, Assoc.get?]
  | cons e rest ih =>
    obtain ⟨k, w⟩ := e
    simp only [Assoc.set]
    by_cases hk : k = a
    · subst hk
      simp only [if_true, Assoc.get?]
      by_cases hb : k = b <;> simp [hb]
    · simp only [hk, if_false, Assoc.get?, ih]
      by_cases hb : k = b
      · subst hb
        have : ¬ a = k := fun h => hk h.symm
        simp [this]
      · simp [hb]

theorem get?_setAll (k : String) : ∀ (ks : List String) (d : List (String × Int)) (n : Int),
    Assoc.get? (setAll d n ks) k = match lastIdxS k ks 0 none with | some i => some (n + (i : Int)) | none => Assoc.get? d k := by
  intro ks
  induction ks with
  | nil => intro d n; rfl
  | cons x xs ih =>
    intro d n
    simp only [setAll, lastIdxS, pyDictSet]
    rw [ih, lastIdxS_shift k xs (0 + 1)]
    cases lastIdxS k xs 0 none with
    | some j => simp; omega
    | none =>
      rw [get?_set]
      by_cases h : x = k <;> simp [h]

theorem lastIdxS_render (t : Tok) : ∀ (toks : List Tok) (i : Nat) (best : Option Nat),
    (∀ x ∈ toks, render x = render t → x = t) →
    lastIdxS (render t) (toks.map render) i best = lastIdxGo t toks i best := by
  intro toks
  induction toks with
  | nil => intro i best _; rfl
  | cons x xs ih =>
    intro i best hinj
    simp only [List.map_cons, lastIdxS, lastIdxGo]
    have hx : (render x = render t) ↔ (x = t) := ⟨hinj x (by simp), fun h => by rw [h]⟩
    have : (if render x = render t then some i else best) = (if x = t then some i else best) := by
      by_cases h : x = t
      · simp [h]
      · have : ¬ render x = render t := fun hh => h (hx.1 hh)
        simp [h, this]
    rw [this]
    exact ih (i + 1) _ (fun y hy => hinj y (by simp [hy]))

theorem encode_one (c : Cfg) (hc : CfgNonneg c) (t : Tok) (ht : TokOk t) :
    pyDictGet (setAll [] 0 ((vocabSeq c).map render)) (render t) =
      match encodeTok c t with | some i => .ok (i : Int) | none => .error .keyError := by
  unfold pyDictGet encodeTok
  rw [get?_setAll, lastIdxS_render t (vocabSeq c) 0 none
    (fun x hx h => C02b.render_injective x t (vocab_tokOk c hc x hx) ht h)]
  cases lastIdxGo t (vocabSeq c) 0 none with
  | some i => simp; rfl
  | none => rfl


def enumInt : Int → List String → List (String × Int)
  | _, [] => []
  | n, k :: ks => (k, n) :: enumInt (n + 1) ks

theorem set_append_new {κ ν} [DecidableEq κ] (d : Assoc κ ν) (k : κ) (v : ν) (h : ∀ e ∈ d, e.1 ≠ k) :
    Assoc.set d k v = d ++ [(k, v)] := by
  induction d with
  | nil => rfl
  | cons e rest ih =>
    obtain ⟨k', w⟩ := e
    have hk : ¬ k' = k := h (k', w) (by simp)
    simp only [Assoc.set, hk, if_false, List.cons_append]
    rw [ih (fun e he => h e (by simp [he]))]

theorem setAll_nodup : ∀ (ks : List String) (d : List (String × Int)) (n : Int), ks.Nodup → (∀ e ∈ d, e.1 ∉ ks) →
    setAll d n ks = d ++ enumInt n ks := by
  intro ks
  induction ks with
  | nil => intro d n _ _; simp [setAll, enumInt]
  | cons k ks ih =>
    intro d n hnd hdis
    rw [List.nodup_cons] at hnd
    simp only [setAll, pyDictSet, enumInt]
    rw [set_append_new d k n (fun e he hek => hdis e he (by simp [hek])), ih _ _ hnd.2]
    · simp
    · intro e he
      simp only [List.mem_append, List.mem_singleton] at he
      rcases he with he | rfl
      · intro hm; exact hdis e he (by simp [hm])
      · exact hnd.1

theorem ofList_swap_enum : ∀ (ks : List String) (n : Int) (acc : List (Int × String)), (∀ e ∈ acc, e.1 < n) →
    ((enumInt n ks).map (fun p => (p.2, p.1))).foldl (fun d kv => Assoc.set d kv.1 kv.2) acc
      = acc ++ (enumInt n ks).map (fun p => (p.2, p.1)) := by
  intro ks
  induction ks with
  | nil => intro n acc _; simp [enumInt]
  | cons k ks ih =>
    intro n acc hacc
    simp only [enumInt, List.map_cons, List.foldl_cons]
    rw [set_append_new acc n k (fun e he => by have := hacc e he; omega), ih (n + 1)]
    · simp
    · intro e he
      simp only [List.mem_append, List.mem_singleton] at he
      rcases he with he | rfl
      · have := hacc e he; omega
      · simp

theorem get?_swap_enum : ∀ (ks : List String) (n : Int) (i : Nat),
    Assoc.get? ((enumInt n ks).map (fun p => (p.2, p.1))) (n + (i : Int)) = ks[i]? := by
  intro ks
  induction ks with
  | nil => intro n i; rfl
  | cons k ks ih =>
    intro n i
    simp only [enumInt, List.map_cons, Assoc.get?]
    cases i with
    | zero => simp
    | succ i =>
      have hne : ¬ n = n + ((i + 1 : Nat) : Int) := by omega
      simp only [hne, if_false, List.getElem?_cons_succ]
      have := ih (n + 1) i
      rw [show n + ((i + 1 : Nat) : Int) = n + 1 + (i : Int) by omega]
      exact this


end SCoda.TokTieL
