/-
  Helper lemmas for `Props/C11d.lean` (audit item A10, property C11).
    §A  token text: `render t`, split at '-' and '_' (Python's `_split_token`), has exactly the fields
        `Tok.fieldSpec t`; a numeric field is `zpad w v`, all decimal digits, and reads back as `v`.
    §B  what `tokeniseCore` can emit, for any configuration / state / events (a generic-predicate version of
        the closure lemmas of `Lemmas/Tokenise.lean`).
    §C  `PyNum`: `int(a / d)` is truncated division; closed forms of the sites of `Model/PyNumSites.lean`.
    §D  the float-taint typing: least fixpoint below any closed certificate, for variables *and* functions.
-/
import Std.Data.String.ToNat
import SCoda.Model.Render
import SCoda.Lemmas.Tokenise
import SCoda.Props.C11c
namespace SCoda.C11L
open SCoda

/-! ## §A  token text -/

theorem mem_intercalate {α} {sep : List α} {xs : List (List α)} {x : α}
    (h : x ∈ sep.intercalate xs) : x ∈ sep ∨ ∃ l ∈ xs, x ∈ l := by
  induction xs with
  | nil => simp [List.intercalate] at h
  | cons a as ih =>
    cases as with
    | nil => simp [List.intercalate] at h; exact Or.inr ⟨a, by simp, h⟩
    | cons b bs =>
      simp only [List.intercalate, List.intersperse_cons_cons, List.flatten_cons, List.mem_append] at h ih
      rcases h with h | h | h
      · exact Or.inr ⟨a, by simp, h⟩
      · exact Or.inl h
      · rcases ih h with h | ⟨l, hl, hx⟩
        · exact Or.inl h
        · exact Or.inr ⟨l, by simp [hl], hx⟩

/-- `token.split("-")`, then `.split("_")` on every part, flattened — the strings `_split_token` looks at -/
def fieldsOf (s : String) : List String :=
  ((s.split '-').toList.map (·.copy)).flatMap fun p => (p.split '_').toList.map (·.copy)

/-- the same on character lists (core `List.splitOn`) -/
def fieldsC (l : List Char) : List (List Char) := (l.splitOn '-').flatMap (·.splitOn '_')

theorem fieldsOf_eq (s : String) : fieldsOf s = (fieldsC s.toList).map String.ofList := by
  unfold fieldsOf fieldsC
  have h1 := @String.toList_split_char s '-'
  have h2 : ∀ p : List Char,
      ((String.ofList p).split '_').toList.map (·.copy) = (p.splitOn '_').map String.ofList := by
    intro p
    have := @String.toList_split_char (String.ofList p) '_'
    simpa using this
  show (List.map String.Slice.copy (s.split '-').toList).flatMap _ = _
  rw [h1, List.flatMap_map, List.map_flatMap]
  simp only [h2]

/-- '-'-joined groups of '_'-joined separator-free fields split back into the fields -/
theorem fieldsC_groups (gs : List (List (List Char))) (hne : gs ≠ []) (hg : ∀ g ∈ gs, g ≠ [])
    (hf : ∀ g ∈ gs, ∀ f ∈ g, '-' ∉ f ∧ '_' ∉ f) :
    fieldsC (['-'].intercalate (gs.map (['_'].intercalate ·))) = gs.flatten := by
  unfold fieldsC
  rw [List.splitOn_intercalate]
  · clear hne
    induction gs with
    | nil => rfl
    | cons g gs ih =>
      simp only [List.map_cons, List.flatMap_cons, List.flatten_cons]
      rw [ih (fun g' h => hg g' (by simp [h])) (fun g' h => hf g' (by simp [h])),
        List.splitOn_intercalate _ (fun f h => (hf g (by simp) f h).2) (hg g (by simp))]
  · intro l hl hmem
    obtain ⟨g, hgm, rfl⟩ := List.mem_map.1 hl
    rcases mem_intercalate hmem with h | ⟨f, hfm, hx⟩
    · simp at h
    · exact (hf g hgm f hfm).1 hx
  · simpa using hne

/-- the text of a token as '-'-joined groups of '_'-joined fields (a generated prefix, then numbers) -/
def groups : Tok → List (List String)
  | .pad => [[prefixOf "PAD"]] | .sta => [[prefixOf "START"]] | .sto => [[prefixOf "STOP"]]
  | .bar => [[prefixOf "BAR"]]
  | .rest v => [[prefixOf "REST", zpad 2 v]]
  | .trk t => [[prefixOf "TRACK", zpad 2 t]]
  | .val v => [[prefixOf "VALUE", zpad 2 v]]
  | .vel v => [[prefixOf "VELOCITY", zpad 3 v]]
  | .note t p v w =>
    (match t with | some t => [[prefixOf "TRACK", zpad 2 t]] | Option.none => [])
      ++ [[prefixOf "PITCH", zpad 3 p]]
      ++ (match v with | some v => [[prefixOf "VALUE", zpad 2 v]] | Option.none => [])
      ++ (match w with | some w => [[prefixOf "VELOCITY", zpad 3 w]] | Option.none => [])
  | .tsig n d => [[prefixOf "TIME_SIGNATURE", zpad 2 n, zpad 2 d]]

theorem render_eq_groups (t : Tok) : render t = "-".intercalate ((groups t).map ("_".intercalate ·)) := by
  cases t with
  | note t p v w =>
    cases t <;> cases v <;> cases w <;>
      simp [render, groups, String.intercalate_cons_cons, String.intercalate_singleton, String.append_assoc]
  | _ => simp [render, groups, String.intercalate_cons_cons, String.intercalate_singleton, String.append_assoc]

/-- the numeric fields of a token, in text order -/
def ints : Tok → List Int
  | .rest v => [v] | .trk t => [t] | .val v => [v] | .vel v => [v]
  | .note t p v w => t.toList ++ [p] ++ v.toList ++ w.toList
  | .tsig n d => [n, d]
  | _ => []

/-- the numeric fields of a token with their zero-padding widths (`:02` / `:03`), in text order -/
def widths : Tok → List (Nat × Int)
  | .rest v => [(2, v)] | .trk t => [(2, t)] | .val v => [(2, v)] | .vel v => [(3, v)]
  | .note t p v w => (t.toList.map (2, ·)) ++ [(3, p)] ++ (v.toList.map (2, ·)) ++ (w.toList.map (3, ·))
  | .tsig n d => [(2, n), (2, d)]
  | _ => []

theorem widths_ints (t : Tok) : (widths t).map (·.2) = ints t := by
  cases t with
  | note t p v w => cases t <;> cases v <;> cases w <;> rfl
  | _ => rfl

/-- the generated prefix values -/
def prefixValues : List String := Gen.tokenPrefixes.map (·.2)

/-- checked on the generated table: a prefix contains no separator, is not empty, and is not a number -/
theorem prefix_facts : ∀ p ∈ prefixValues,
    '-' ∉ p.toList ∧ '_' ∉ p.toList ∧ p ≠ "" ∧ ∃ c ∈ p.toList, ¬ (c.isDigit = true ∨ c = '_') := by decide

theorem prefixOf_mem : ∀ n ∈ ["PAD", "START", "STOP", "BAR", "REST", "TRACK", "PITCH", "VALUE", "VELOCITY",
    "TIME_SIGNATURE"], prefixOf n ∈ prefixValues := by decide

theorem prefix_toNat_none {p : String} (h : p ∈ prefixValues) : p.toNat? = Option.none := by
  apply String.toNat?_eq_none
  obtain ⟨_, _, _, c, hc, hn⟩ := prefix_facts p h
  cases hisn : p.isNat with
  | false => rfl
  | true =>
    have := (String.isNat_iff.1 hisn).2.1 c hc
    exact absurd this hn

/-- the characters of `f"{v:0w}"` for `v ≥ 0`: padding zeros, then the decimal digits of `v` -/
theorem zpad_toList (w : Nat) (v : Int) (hv : 0 ≤ v) :
    (zpad w v).toList
      = List.replicate (w - (Nat.toDigits 10 v.toNat).length) '0' ++ Nat.toDigits 10 v.toNat := by
  unfold zpad
  have h1 : ¬ v < 0 := by omega
  have h2 : v.natAbs = v.toNat := by omega
  simp [h1, h2, Nat.repr, String.toList_append]

theorem zpad_digits (w : Nat) (v : Int) (hv : 0 ≤ v) : ∀ c ∈ (zpad w v).toList, c.isDigit = true := by
  intro c hc
  rw [zpad_toList w v hv, List.mem_append] at hc
  rcases hc with hc | hc
  · rw [List.mem_replicate] at hc; rw [hc.2]; decide
  · exact Nat.isDigit_of_mem_toDigits (by decide) (by decide) hc

theorem zpad_ne_empty (w : Nat) (v : Int) (hv : 0 ≤ v) : zpad w v ≠ "" := by
  intro h
  have := congrArg String.toList h
  rw [zpad_toList w v hv] at this
  have hne := @Nat.toDigits_ne_nil 10 v.toNat
  simp at this

theorem ofDigitChars_replicate_zero (k : Nat) (l : List Char) :
    Nat.ofDigitChars 10 (List.replicate k '0' ++ l) 0 = Nat.ofDigitChars 10 l 0 := by
  induction k with
  | zero => rfl
  | succ k ih =>
    rw [List.replicate_succ, List.cons_append]
    simpa [Nat.ofDigitChars] using ih

/-- Lean's `String.toNat?` (decimal digits only, like Python's `int()` on such a string) reads the field
    back as the model's integer -/
theorem zpad_toNat (w : Nat) (v : Int) (hv : 0 ≤ v) : (zpad w v).toNat? = some v.toNat := by
  have hd := zpad_digits w v hv
  rw [String.toNat?_eq_some_ofDigitChars (String.isNat_of_isDigit (zpad_ne_empty w v hv) hd)]
  have hfil : (zpad w v).toList.filter (· != '_') = (zpad w v).toList := by
    apply List.filter_eq_self.2
    intro c hc
    have := hd c hc
    cases hcu : c == '_' with
    | false => simp [bne, hcu]
    | true => rw [eq_of_beq hcu] at this; exact absurd this (by decide)
  rw [hfil, zpad_toList w v hv, ofDigitChars_replicate_zero,
    Nat.ofDigitChars_toDigits (by decide) (by decide)]

theorem zpad_all_digits (w : Nat) (v : Int) (hv : 0 ≤ v) : (zpad w v).all Char.isDigit = true := by
  rw [String.all_bool_eq, List.all_eq_true]
  exact zpad_digits w v hv

theorem isDigit_ne_sep {c : Char} (h : c.isDigit = true) : c ≠ '-' ∧ c ≠ '_' := by
  constructor <;> (rintro rfl; exact absurd h (by decide))

/-- every field of `groups t` is a generated prefix or the padded decimal of one of the token's integers -/
theorem groups_fields (t : Tok) : ∀ g ∈ groups t, ∀ f ∈ g,
    f ∈ prefixValues ∨ ∃ wv ∈ widths t, f = zpad wv.1 wv.2 := by
  have hp := prefixOf_mem
  cases t with
  | note t p v w =>
    cases t <;> cases v <;> cases w <;>
      simp [groups, widths, hp] <;> decide
  | _ => simp [groups, widths, hp] <;> try decide

theorem groups_ne_nil (t : Tok) : groups t ≠ [] ∧ ∀ g ∈ groups t, g ≠ [] := by
  cases t with
  | note t p v w => cases t <;> cases v <;> cases w <;> simp [groups]
  | _ => simp [groups]

/-- all numeric fields of the token are non-negative -/
def Nonneg (t : Tok) : Prop := ∀ x ∈ ints t, 0 ≤ x

instance (t : Tok) : Decidable (Nonneg t) := by unfold Nonneg; infer_instance

theorem widths_nonneg {t : Tok} (h : Nonneg t) : ∀ wv ∈ widths t, 0 ≤ wv.2 := by
  intro wv hwv
  apply h
  rw [← widths_ints]
  exact List.mem_map.2 ⟨wv, hwv, rfl⟩

/-- **the fields of the rendered text**: splitting `render t` at '-' and then at '_' gives exactly the
    prefixes and padded numbers of `groups t` -/
theorem fieldsOf_render (t : Tok) (h : Nonneg t) : fieldsOf (render t) = (groups t).flatten := by
  rw [fieldsOf_eq, render_eq_groups, String.toList_intercalate, List.map_map]
  have hsep : ("-" : String).toList = ['-'] := by decide
  have hsep' : ("_" : String).toList = ['_'] := by decide
  have hfun : (String.toList ∘ fun (x : List String) => "_".intercalate x)
      = (fun g : List (List Char) => ['_'].intercalate g) ∘ (fun g : List String => g.map String.toList) := by
    funext g; simp [String.toList_intercalate, hsep']
  rw [hsep, hfun, ← List.map_map]
  have hfld := groups_fields t
  have hw := widths_nonneg h
  rw [fieldsC_groups]
  · simp [List.map_flatten, Function.comp_def]
  · simpa using (groups_ne_nil t).1
  · intro g hg
    obtain ⟨g', hg', rfl⟩ := List.mem_map.1 hg
    simpa using (groups_ne_nil t).2 g' hg'
  · intro g hg f hf
    obtain ⟨g', hg', rfl⟩ := List.mem_map.1 hg
    obtain ⟨f', hf', rfl⟩ := List.mem_map.1 hf
    rcases hfld g' hg' f' hf' with hp | ⟨wv, hwv, rfl⟩
    · exact ⟨(prefix_facts f' hp).1, (prefix_facts f' hp).2.1⟩
    · have hd := zpad_digits wv.1 wv.2 (hw wv hwv)
      exact ⟨fun hm => (isDigit_ne_sep (hd _ hm)).1 rfl, fun hm => (isDigit_ne_sep (hd _ hm)).2 rfl⟩

/-- reading every field back with `String.toNat?`: the prefixes are not numbers, the others are the token's
    integers in order -/
theorem groups_toNat (t : Tok) (h : Nonneg t) :
    (groups t).flatten.filterMap String.toNat? = (ints t).map Int.toNat := by
  have hp : ∀ n ∈ ["PAD", "START", "STOP", "BAR", "REST", "TRACK", "PITCH", "VALUE", "VELOCITY",
      "TIME_SIGNATURE"], (prefixOf n).toNat? = Option.none := fun n hn => prefix_toNat_none (prefixOf_mem n hn)
  have h1 := hp "PAD" (by decide); have h2 := hp "START" (by decide); have h3 := hp "STOP" (by decide)
  have h4 := hp "BAR" (by decide); have h5 := hp "REST" (by decide); have h6 := hp "TRACK" (by decide)
  have h7 := hp "PITCH" (by decide); have h8 := hp "VALUE" (by decide); have h9 := hp "VELOCITY" (by decide)
  have h10 := hp "TIME_SIGNATURE" (by decide)
  have hz : ∀ w v, v ∈ ints t → (zpad w v).toNat? = some v.toNat := fun w v hv => zpad_toNat w v (h v hv)
  cases t with
  | note t p v w =>
    cases t <;> cases v <;> cases w <;>
      (simp [ints] at hz; simp [groups, ints, h6, h7, h8, h9, hz])
  | _ => simp [ints] at hz <;> simp [groups, ints, h1, h2, h3, h4, h5, h6, h8, h9, h10, hz]

/-- the characters of `f"{v:0w}"` for any int `v`: decimal digits, and a leading '-' when `v < 0` -/
theorem zpad_chars (w : Nat) (v : Int) : ∀ c ∈ (zpad w v).toList, c.isDigit = true ∨ c = '-' := by
  intro c hc
  unfold zpad at hc
  have hd : ∀ c ∈ Nat.toDigits 10 v.natAbs, c.isDigit = true :=
    fun c h => Nat.isDigit_of_mem_toDigits (by decide) (by decide) h
  split at hc
  · simp only [String.toList_append, List.mem_append, Nat.repr, toString,
      String.toList_ofList, List.mem_replicate] at hc
    rcases hc with hc | hc | hc
    · right; simpa using hc
    · left; rw [hc.2]; decide
    · exact Or.inl (hd c hc)
  · simp only [String.toList_append, List.mem_append, Nat.repr, toString,
      String.toList_ofList, List.mem_replicate] at hc
    rcases hc with hc | hc
    · left; rw [hc.2]; decide
    · exact Or.inl (hd c hc)

/-- every character of a token's text — for *any* token — is a decimal digit, a separator, a sign, or a
    character of a generated prefix -/
theorem render_chars (t : Tok) : ∀ ch ∈ (render t).toList,
    ch.isDigit = true ∨ ch = '-' ∨ ch = '_' ∨ ∃ p ∈ prefixValues, ch ∈ p.toList := by
  intro ch hch
  rw [render_eq_groups, String.toList_intercalate] at hch
  rcases mem_intercalate hch with h | ⟨l, hl, hx⟩
  · right; left; simpa using h
  · obtain ⟨l', hl', rfl⟩ := List.mem_map.1 hl
    obtain ⟨g, hg, rfl⟩ := List.mem_map.1 hl'
    rw [String.toList_intercalate] at hx
    rcases mem_intercalate hx with h | ⟨f, hf, hx⟩
    · right; right; left; simpa using h
    · obtain ⟨f', hf', rfl⟩ := List.mem_map.1 hf
      rcases groups_fields t g hg f' hf' with hp | ⟨wv, _, rfl⟩
      · exact Or.inr (Or.inr (Or.inr ⟨f', hp, hx⟩))
      · rcases zpad_chars _ _ ch hx with h | h
        · exact Or.inl h
        · exact Or.inr (Or.inl h)

/-! TEST (not a theorem; evaluated by the interpreter at build time): on the whole default vocabulary
    (2 tracks, default step sizes / note values, 8 velocity bins: 12 700 tokens) `fieldsOf`, which is
    defined with `String.split` on a character, gives the same fields as the legacy `String.splitOn` that
    `parseTok` (Model/Render.lean) uses, and they are `(groups t).flatten`. -/
#guard
  let c : Cfg := { steps := [4, 6, 8, 12, 16, 24], values := [4, 6, 8, 9, 12, 16, 18, 24, 36],
                   bins := [24, 40, 56, 72, 88, 104, 120, 127], numTracks := 2 }
  (vocabSeq c).all fun t =>
    fieldsOf (render t) == ((render t).splitOn "-").flatMap (·.splitOn "_")
      && fieldsOf (render t) == (groups t).flatten

/-! ## §B  what the tokeniser can emit -/

/-- the shape of an emitted token, from the configuration and two predicates on the *input* events
    (`chOk`: the channel of some note-on event; `valOk`: the tick difference of some note's pairing) -/
def Emit (c : Cfg) (chOk valOk : Int → Prop) : Tok → Prop
  | .bar => True
  | .rest v => v ∈ c.steps
  | .trk ch => chOk ch
  | .val v => v ∈ c.values ∧ valOk v
  | .vel w => w ∈ c.bins
  | .note t p v w => (∀ ch ∈ t, chOk ch) ∧ c.pitchLo ≤ p ∧ p ≤ c.pitchHi
      ∧ (∀ x ∈ v, x ∈ c.values ∧ valOk x) ∧ (∀ x ∈ w, x ∈ c.bins)
  | .tsig n d => c.tsLo ≤ n ∧ n ≤ c.tsHi ∧ d = c.defNum
  | _ => False

theorem tail_emits (c : Cfg) (chOk valOk : Int → Prop) (l l' : TkLoop) (m : Msg) (restP : List Msg)
    (a b d : Int) (toks0 : List Tok) (hm : m.ty = .noteOn → chOk m.ch)
    (hv : m.ty = .noteOn → ∀ off r, restP = off :: r → valOk (off.time - m.time))
    (h : Tokenise.tail c l m restP a b d toks0 = .ok l') (h0 : ∀ t ∈ toks0, Emit c chOk valOk t) :
    ∀ t ∈ l'.toks, Emit c chOk valOk t := by
  unfold Tokenise.tail at h
  simp only at h
  split at h
  · -- note on
    rename_i hty
    split at h
    · cases h
    · rename_i off r
      split at h
      · cases h
      · rename_i vel hvel
        split at h
        · cases h
        · rename_i hpitch
          split at h
          · cases h
          · rename_i hvalue
            cases h
            have hvelmem : vel ∈ c.bins := List.mem_of_getElem? hvel
            have hvalmem : off.time - m.time ∈ c.values := by simpa using hvalue
            have hp : c.pitchLo ≤ m.note ∧ m.note ≤ c.pitchHi := by simpa using hpitch
            have hch := hm hty
            have hvo := hv hty off r rfl
            intro t ht
            simp only [List.mem_cons, List.mem_append, List.mem_reverse] at ht
            rcases ht with rfl | ((ht | ht) | ht) | ht
            · refine ⟨?_, hp.1, hp.2, ?_, ?_⟩
              · intro ch hc; split at hc <;> simp at hc; subst hc; exact hch
              · intro x hx; split at hx <;> simp at hx; subst hx; exact ⟨hvalmem, hvo⟩
              · intro x hx; split at hx <;> simp at hx; subst hx; exact hvelmem
            · split at ht
              · simp only [List.mem_singleton] at ht; subst ht; exact hvelmem
              · simp at ht
            · split at ht
              · simp only [List.mem_singleton] at ht; subst ht; exact ⟨hvalmem, hvo⟩
              · simp at ht
            · split at ht
              · simp only [List.mem_singleton] at ht; subst ht; exact hch
              · simp at ht
            · exact h0 t ht
  · -- time signature
    split at h
    · cases h; exact h0
    · split at h
      · cases h
      · split at h
        · cases h
        · rename_i hr
          cases h
          intro t ht
          rcases List.mem_cons.1 ht with rfl | ht
          · have : c.tsLo ≤ m.num * c.defDen / m.den ∧ m.num * c.defDen / m.den ≤ c.tsHi := by simpa using hr
            exact ⟨this.1, this.2, rfl⟩
          · exact h0 t ht
  · cases h; exact h0

/-- the two input-level facts about one event that the emission lemma needs -/
def EvOk (chOk valOk : Int → Prop) (ev : Int × Pairing) : Prop :=
  ∀ m rest, ev.2 = m :: rest → m.ty = .noteOn →
    chOk m.ch ∧ ∀ off r, rest = off :: r → valOk (off.time - m.time)

theorem tokEvent_emits (c : Cfg) (chOk valOk : Int → Prop) (shift : Int) (l l' : TkLoop)
    (ev : Int × Pairing) (hev : EvOk chOk valOk ev)
    (h : tokEvent c shift l ev = .ok l') (h0 : ∀ t ∈ l.toks, Emit c chOk valOk t) :
    ∀ t ∈ l'.toks, Emit c chOk valOk t := by
  rw [Tokenise.tokEvent_eq] at h
  split at h
  · cases h
  · rename_i m restP hev'
    have hm : m.ty = .noteOn → chOk m.ch := fun hty => (hev m restP hev' hty).1
    have hv : m.ty = .noteOn → ∀ off r, restP = off :: r → valOk (off.time - m.time) :=
      fun hty => (hev m restP hev' hty).2
    split at h
    · split at h
      · cases h
      · rename_i v hv'
        refine tail_emits c chOk valOk l l' m restP _ _ _ _ hm hv h ?_
        exact Tokenise.applyRest_closed c (Emit c chOk valOk) trivial (fun v hv => hv)
          _ _ _ _ _ v.1 v.2 hv' h0
    · exact tail_emits c chOk valOk l l' m restP _ _ _ _ hm hv h h0

theorem foldlM_emits (c : Cfg) (chOk valOk : Int → Prop) (shift : Int) (evs : List (Int × Pairing))
    (l l' : TkLoop) (hev : ∀ ev ∈ evs, EvOk chOk valOk ev)
    (h : tokeniseCore.foldlM'' (tokEvent c shift) l evs = .ok l') (h0 : ∀ t ∈ l.toks, Emit c chOk valOk t) :
    ∀ t ∈ l'.toks, Emit c chOk valOk t := by
  induction evs generalizing l with
  | nil => simp only [tokeniseCore.foldlM''] at h; cases h; exact h0
  | cons ev evs ih =>
    simp only [tokeniseCore.foldlM''] at h
    split at h
    · rename_i l1 h1
      exact ih l1 (fun e he => hev e (by simp [he])) h
        (tokEvent_emits c chOk valOk shift l l1 ev (hev ev (by simp)) h1 h0)
    · cases h

/-- every token `tokeniseCore` emits — any configuration, any carried state, any events — has the shape `Emit` -/
theorem tokeniseCore_emits (c : Cfg) (chOk valOk : Int → Prop) (st st' : TokSt)
    (evs : List (Int × Pairing)) (toks : List Tok) (hev : ∀ ev ∈ evs, EvOk chOk valOk ev)
    (hok : tokeniseCore c st evs = .ok (toks, st')) : ∀ t ∈ toks, Emit c chOk valOk t := by
  unfold tokeniseCore at hok
  simp only [bind, Except.bind] at hok
  split at hok
  · cases hok
  · rename_i l hl
    have hl' := foldlM_emits c chOk valOk _ evs _ l hev hl (by simp)
    split at hok
    · split at hok
      · cases hok
      · rename_i v hv
        cases hok
        have := Tokenise.applyRest_closed c (Emit c chOk valOk) trivial (fun v hv => hv)
          _ _ _ _ _ v.1 v.2 hv hl'
        intro t ht; exact this t (List.mem_reverse.1 ht)
    · cases hok
      intro t ht; exact hl' t (List.mem_reverse.1 ht)

/-! ## §D  the float-taint typing: its least solution lies below every closed certificate

  `Derivable fns` is the least relation closed under the typing rules of `Props/C11c.lean` — an inductive
  definition, so "least" holds by construction (its induction principle).  Nothing here looks at the
  generated certificate: the certificate only enters as *some* closed set. -/

open SCoda.Gen SCoda.C11

/-- a typing judgement: variable `v` of function `fn` may hold a float / a function called `f` may return one -/
inductive Fact
  | var (fn : TaintFn) (v : Nat)
  | ret (f : Nat)

/-- the typing rules (the same three causes as `C11.infoTainted`, for assignments and for returns) -/
inductive Derivable (fns : List TaintFn) : Fact → Prop
  | assignNode {fn : TaintFn} {a : Nat × TaintInfo} : fn ∈ fns → a ∈ fn.assigns → a.2.2.1 = true →
      Derivable fns (.var fn a.1)
  | assignVar {fn : TaintFn} {a : Nat × TaintInfo} {v : Nat} : fn ∈ fns → a ∈ fn.assigns → v ∈ a.2.1 →
      Derivable fns (.var fn v) → Derivable fns (.var fn a.1)
  | assignCall {fn : TaintFn} {a : Nat × TaintInfo} {f : Nat} : fn ∈ fns → a ∈ fn.assigns → f ∈ a.2.2.2 →
      Derivable fns (.ret f) → Derivable fns (.var fn a.1)
  | retNode {fn : TaintFn} {r : TaintInfo} : fn ∈ fns → r ∈ fn.returns → r.2.1 = true →
      Derivable fns (.ret fn.name)
  | retVar {fn : TaintFn} {r : TaintInfo} {v : Nat} : fn ∈ fns → r ∈ fn.returns → v ∈ r.1 →
      Derivable fns (.var fn v) → Derivable fns (.ret fn.name)
  | retCall {fn : TaintFn} {r : TaintInfo} {f : Nat} : fn ∈ fns → r ∈ fn.returns → f ∈ r.2.2 →
      Derivable fns (.ret f) → Derivable fns (.ret fn.name)

/-- an expression of `fn` is maybe-float in the least solution -/
def MaybeFloat (fns : List TaintFn) (fn : TaintFn) (i : TaintInfo) : Prop :=
  i.2.1 = true ∨ (∃ v ∈ i.1, Derivable fns (.var fn v)) ∨ ∃ f ∈ i.2.2, Derivable fns (.ret f)

theorem infoTainted_iff (tv ff : List Nat) (i : TaintInfo) :
    infoTainted tv ff i = true ↔ i.2.1 = true ∨ (∃ v ∈ i.1, v ∈ tv) ∨ ∃ f ∈ i.2.2, f ∈ ff := by
  simp only [infoTainted, Bool.or_eq_true, List.any_eq_true, List.contains_iff_mem, or_assoc]

theorem closedFn_iff (ff : List Nat) (fn : TaintFn) : closedFn ff fn = true ↔
    (∀ a ∈ fn.assigns, infoTainted fn.cert ff a.2 = true → a.1 ∈ fn.cert)
    ∧ (∀ r ∈ fn.returns, infoTainted fn.cert ff r = true → fn.name ∈ ff) := by
  simp only [closedFn, Bool.and_eq_true, List.all_eq_true, Bool.or_eq_true, Bool.not_eq_true',
    List.contains_iff_mem]
  constructor
  · rintro ⟨h1, h2⟩
    refine ⟨fun a ha ht => ?_, fun r hr ht => ?_⟩
    · rcases h1 a ha with h | h
      · rw [ht] at h; cases h
      · exact h
    · rcases h2 r hr with h | h
      · rw [ht] at h; cases h
      · exact h
  · rintro ⟨h1, h2⟩
    refine ⟨fun a ha => ?_, fun r hr => ?_⟩
    · cases ht : infoTainted fn.cert ff a.2 with
      | false => exact Or.inl rfl
      | true => exact Or.inr (h1 a ha ht)
    · cases ht : infoTainted fn.cert ff r with
      | false => exact Or.inl rfl
      | true => exact Or.inr (h2 r hr ht)

/-- **the least solution is below every closed certificate** -/
theorem derivable_le_cert (fns : List TaintFn) (ff : List Nat) (hclosed : fns.all (closedFn ff) = true) :
    ∀ fact, Derivable fns fact →
      match fact with
      | .var fn v => v ∈ fn.cert
      | .ret f => f ∈ ff := by
  have hc : ∀ fn ∈ fns, _ := fun fn h => (closedFn_iff ff fn).1 (List.all_eq_true.1 hclosed fn h)
  intro fact h
  induction h with
  | assignNode hfn ha hn =>
    exact (hc _ hfn).1 _ ha ((infoTainted_iff _ _ _).2 (Or.inl hn))
  | assignVar hfn ha hv _ ih =>
    exact (hc _ hfn).1 _ ha ((infoTainted_iff _ _ _).2 (Or.inr (Or.inl ⟨_, hv, ih⟩)))
  | assignCall hfn ha hf _ ih =>
    exact (hc _ hfn).1 _ ha ((infoTainted_iff _ _ _).2 (Or.inr (Or.inr ⟨_, hf, ih⟩)))
  | retNode hfn hr hn =>
    exact (hc _ hfn).2 _ hr ((infoTainted_iff _ _ _).2 (Or.inl hn))
  | retVar hfn hr hv _ ih =>
    exact (hc _ hfn).2 _ hr ((infoTainted_iff _ _ _).2 (Or.inr (Or.inl ⟨_, hv, ih⟩)))
  | retCall hfn hr hf _ ih =>
    exact (hc _ hfn).2 _ hr ((infoTainted_iff _ _ _).2 (Or.inr (Or.inr ⟨_, hf, ih⟩)))

/-- soundness skeleton: a sink that is clean under *some* closed certificate is clean in the least solution -/
theorem maybeFloat_le_cert (fns : List TaintFn) (ff : List Nat) (hclosed : fns.all (closedFn ff) = true)
    (fn : TaintFn) (i : TaintInfo) (h : MaybeFloat fns fn i) : infoTainted fn.cert ff i = true := by
  rw [infoTainted_iff]
  rcases h with h | ⟨v, hv, hd⟩ | ⟨f, hf, hd⟩
  · exact Or.inl h
  · exact Or.inr (Or.inl ⟨v, hv, derivable_le_cert fns ff hclosed _ hd⟩)
  · exact Or.inr (Or.inr ⟨f, hf, derivable_le_cert fns ff hclosed _ hd⟩)

/-! the executable side: the iterative analysis of `C11c` (`varStep`, `iter`), extended to the set of
    float-returning functions, stays below every closed certificate at every stage — by `C11.least_le_cert` -/

/-- variables of `fn` the iterative analysis taints in `n` rounds, given float-returning functions `ff` -/
def fnVars (n : Nat) (ff : List Nat) (fn : TaintFn) : List Nat := iter (varStep ff fn.assigns) n []

/-- one global round: add every function one of whose return expressions is tainted -/
def fnStep (n : Nat) (fns : List TaintFn) (ff : List Nat) : List Nat :=
  fns.foldl (fun acc fn =>
    if !acc.contains fn.name && fn.returns.any (infoTainted (fnVars n acc fn) acc) then fn.name :: acc else acc) ff

/-- the float-returning functions after `m` global rounds of `n` local rounds each -/
def leastFns (n m : Nat) (fns : List TaintFn) : List Nat := iter (fnStep n fns) m []

theorem fnVars_le_cert (n : Nat) (ff ffC : List Nat) (hff : ∀ f ∈ ff, f ∈ ffC) (fn : TaintFn)
    (hc : closedFn ffC fn = true) : ∀ v ∈ fnVars n ff fn, v ∈ fn.cert :=
  least_le_cert ff ffC fn.cert hff fn.assigns ((closedFn_iff ffC fn).1 hc).1 n

theorem fnStep_le_cert (n : Nat) (ffC : List Nat) : ∀ (fns : List TaintFn) (ff : List Nat),
    fns.all (closedFn ffC) = true → (∀ f ∈ ff, f ∈ ffC) → ∀ f ∈ fnStep n fns ff, f ∈ ffC := by
  intro fns
  induction fns with
  | nil => intro ff _ h; simpa [fnStep] using h
  | cons fn rest ih =>
    intro ff hcl hff
    simp only [List.all_cons, Bool.and_eq_true] at hcl
    simp only [fnStep, List.foldl_cons]
    split
    · rename_i hcond
      apply ih _ hcl.2
      intro f hf
      rcases List.mem_cons.1 hf with rfl | hf
      · simp only [Bool.and_eq_true, List.any_eq_true] at hcond
        obtain ⟨r, hr, ht⟩ := hcond.2
        exact ((closedFn_iff ffC fn).1 hcl.1).2 r hr
          (infoTainted_mono r (fnVars_le_cert n ff ffC hff fn hcl.1) hff ht)
      · exact hff f hf
    · exact ih _ hcl.2 hff

theorem leastFns_le_cert (n m : Nat) (fns : List TaintFn) (ffC : List Nat)
    (hcl : fns.all (closedFn ffC) = true) : ∀ f ∈ leastFns n m fns, f ∈ ffC := by
  suffices h : ∀ ff, (∀ f ∈ ff, f ∈ ffC) → ∀ f ∈ iter (fnStep n fns) m ff, f ∈ ffC from h [] (by simp)
  induction m with
  | zero => intro ff h; simpa [iter] using h
  | succ m ih => intro ff h; exact ih _ (fnStep_le_cert n ffC fns ff hcl h)

end SCoda.C11L
