/-
  Helper lemmas for `Props/C01c.lean` (audit items A4, A5): what the glue `extract` (set_channel per
  track, merge, normalise, interleaved pairings) hands to the tokeniser core, stated against the
  independent semantics of `Model/Roll.lean` (`eventsRel`, `notesOf`).

  * per key `(track, pitch)` the note events survive the whole pipeline unchanged (`final_P`);
  * the note events of `extract` are, as a multiset, the notes of the tracks (`extract_notes_perm`);
  * provenance of every non-note event (`final_mem_events`, `final_internal_time`);
  * how the detokeniser's binary insertions build the output sequences, key by key (`seqs_inv`).

  The first section holds the *specification-side* definitions (no pairing / merge code).
-/
import SCoda.Lemmas.MidiE2Eb
import SCoda.Lemmas.NotesL
import SCoda.Lemmas.GlueAux
import SCoda.Lemmas.GluePair
import SCoda.Props.C15
import SCoda.Props.C01b
import SCoda.Props.Glue
import SCoda.Lemmas.InBar
namespace SCoda.ExtractL
open SCoda SCoda.E2E SCoda.MergeL SCoda.EQ SCoda.GlueAux

/-! ## specification-side definitions -/

/-- the timed events of track number `i`: the timed events of its relative list, every message put
    on channel `i` (what `set_channel(i)` means, written without the model function) -/
def trackEvents (i : Nat) (r : List Msg) : List Msg :=
  (eventsRel r).map (fun m => { m with ch := (i : Int) })

/-- the notes of track number `i` (channel = track index) -/
def trackNotes (i : Nat) (r : List Msg) : List Note := notesOf (trackEvents i r)

/-- all notes of the piece, track after track -/
def pieceNotes (tracks : List (List Msg)) : List Note :=
  tracks.zipIdx.flatMap (fun x => trackNotes x.2 x.1)

/-- a note-event of the interleaved list read as a note -/
def evNote (x : Int × Pairing) : Option Note :=
  match x.2 with
  | [on, off] => some { ch := on.ch, pitch := on.note, on := on.time, off := off.time, vel := on.vel }
  | _ => Option.none

/-- the note belongs to key `k = (channel, pitch)` -/
def keyIs (k : Int × Int) (n : Note) : Bool := decide ((n.ch, n.pitch) = k)

/-! ## generic list facts -/

theorem flatMap_zipIdx_single {α β} (g : α × Nat → List β) (i : Nat) : ∀ (l : List α) (n : Nat),
    (∀ x ∈ l.zipIdx n, x.2 ≠ i → g x = []) →
    (l.zipIdx n).flatMap g =
      if n ≤ i then (match l[i - n]? with | some r => g (r, i) | Option.none => []) else [] := by
  intro l
  induction l with
  | nil => intro n _; simp
  | cons a l ih =>
    intro n h
    rw [List.zipIdx_cons, List.flatMap_cons]
    have ih' := ih (n + 1) (fun x hx => h x (by rw [List.zipIdx_cons]; exact List.mem_cons_of_mem _ hx))
    rw [ih']
    by_cases h1 : n = i
    · subst h1
      rw [if_neg (by omega), if_pos (Nat.le_refl _)]
      simp
    · have hg : g (a, n) = [] := h (a, n) (by rw [List.zipIdx_cons]; exact List.mem_cons_self) h1
      rw [hg, List.nil_append]
      by_cases h2 : n < i
      · have e : i - n = (i - (n + 1)) + 1 := by omega
        rw [if_pos (by omega), if_pos (by omega), e, List.getElem?_cons_succ]
      · rw [if_neg (by omega), if_neg (by omega)]

/-- only entry `i` of an indexed list contributes -/
theorem flatMap_zipIdx_get {α β} (g : α × Nat → List β) (i : Nat) (l : List α)
    (h : ∀ x ∈ l.zipIdx, x.2 ≠ i → g x = []) :
    l.zipIdx.flatMap g = match l[i]? with | some r => g (r, i) | Option.none => [] := by
  have := flatMap_zipIdx_single g i l 0 h
  simpa using this

/-- two lists of notes that agree key by key are permutations of each other -/
theorem perm_of_keys (A B : List Note) (h : ∀ k, A.filter (keyIs k) = B.filter (keyIs k)) : A.Perm B := by
  rw [List.perm_iff_count]
  intro n
  have e : ∀ X : List Note, X.count n = (X.filter (keyIs (n.ch, n.pitch))).count n := by
    intro X
    rw [List.count_filter]
    simp [keyIs]
  rw [e A, e B, h]

/-! ## `set_channel` on the timed events -/

theorem eventsRelGo_setChannel (c : Int) (r : List Msg) : ∀ cur,
    eventsRelGo cur (setChannel c r) = (eventsRelGo cur r).map (fun m => { m with ch := c }) := by
  induction r with
  | nil => intro cur; rfl
  | cons m ms ih =>
    intro cur
    have ih' := ih
    simp only [setChannel] at ih' ⊢
    by_cases hw : m.ty = .wait
    · simp [eventsRelGo, hw, ih']
    · simp [eventsRelGo, hw, ih']

theorem eventsRel_setChannel (i : Nat) (r : List Msg) :
    eventsRel (setChannel (i : Int) r) = trackEvents i r :=
  eventsRelGo_setChannel _ r 0

theorem okRel_setChannel (c : Int) (r : List Msg) (h : OkRel r) : OkRel (setChannel c r) := by
  constructor
  · intro m hm hw
    simp only [setChannel, List.mem_map] at hm
    obtain ⟨m0, h0, rfl⟩ := hm
    exact h.1 m0 h0 hw
  · intro m hm
    simp only [setChannel, List.mem_map] at hm
    obtain ⟨m0, h0, rfl⟩ := hm
    exact h.2 m0 h0

theorem totalWait_setChannel (c : Int) (r : List Msg) : totalWait (setChannel c r) = totalWait r := by
  induction r with
  | nil => rfl
  | cons m ms ih =>
    simp only [setChannel, List.map_cons, totalWait] at ih ⊢
    rw [ih]

theorem trackEvents_ch (i : Nat) (r : List Msg) : ∀ m ∈ trackEvents i r, m.ch = (i : Int) := by
  intro m hm
  simp only [trackEvents, List.mem_map] at hm
  obtain ⟨m0, _, rfl⟩ := hm
  rfl

theorem trackEvents_sorted (i : Nat) (r : List Msg) (h : NonNegWaits r) : Sorted (trackEvents i r) := by
  have := events_sorted r 0 h
  exact List.Pairwise.map _ (fun _ _ hab => hab) this

/-- on another channel a track has no note event -/
theorem P_trackEvents_other (k : Int × Int) (i : Nat) (r : List Msg) (h : (i : Int) ≠ k.1) :
    P k (trackEvents i r) = [] := by
  rw [P, List.filter_eq_nil_iff]
  intro m hm
  have hc := trackEvents_ch i r m hm
  simp only [isKN, decide_eq_true_eq, not_and]
  intro hk
  exfalso
  apply h
  rw [← hc, ← hk]
  rfl

/-! ## the pipeline, key by key -/

/-- the absolute lists that `extract` merges -/
def abss (tracks : List (List Msg)) : List (List Msg) :=
  tracks.zipIdx.map (fun (r, i) => toAbs (setChannel (i : Int) r))

theorem final_eq (tracks : List (List Msg)) : final tracks = toAbs (C15.mergeRel (abss tracks)) := rfl

theorem mem_zipIdx_get {α} {l : List α} {x : α × Nat} (h : x ∈ l.zipIdx) : l[x.2]? = some x.1 :=
  List.mem_zipIdx_iff_getElem?.1 h

theorem abss_ok (tracks : List (List Msg)) (h : ∀ t ∈ tracks, OkRel t) : ∀ a ∈ abss tracks, OkAbs a := by
  intro a ha
  simp only [abss, List.mem_map] at ha
  obtain ⟨⟨r, i⟩, hri, rfl⟩ := ha
  have hr : r ∈ tracks := List.mem_of_getElem? (mem_zipIdx_get hri)
  exact C04.toAbs_ok _ (okRel_setChannel _ r (h r hr))

/-- what one track must satisfy for its note events to pass the pipeline unchanged -/
def TrackGood (i : Nat) (r : List Msg) : Prop :=
  OkRel r ∧ WF (trackEvents i r) ∧ ∀ n ∈ trackNotes i r, n.on < n.off

theorem trackGood_keyOK (i : Nat) (r : List Msg) (h : TrackGood i r) : KeyOK (fun k => P k (trackEvents i r)) :=
  keyOK_of_good _ (trackEvents_sorted i r h.1.1) (good_of_wf _ h.2.1 h.2.2)

theorem P_abss_flat (tracks : List (List Msg)) (k : Int × Int) :
    P k (abss tracks).flatten =
      tracks.zipIdx.flatMap (fun x => sortAbs (P k (trackEvents x.2 x.1))) := by
  simp only [abss, P]
  rw [← List.flatMap_def, List.filter_flatMap]
  congr 1
  funext x
  obtain ⟨r, i⟩ := x
  have := eventsAbs_toAbs_P k (setChannel (i : Int) r)
  simp only [P] at this
  simp only [this, eventsRel_setChannel]

theorem P_abss_some (tracks : List (List Msg)) (i : Nat) (r : List Msg) (h : tracks[i]? = some r) (p : Int) :
    P ((i : Int), p) (abss tracks).flatten = sortAbs (P ((i : Int), p) (trackEvents i r)) := by
  rw [P_abss_flat, flatMap_zipIdx_get _ i, h]
  intro x _ hne
  rw [P_trackEvents_other _ _ _ (by intro e; exact hne (by simp only at e; omega))]
  rfl

theorem P_abss_none (tracks : List (List Msg)) (k : Int × Int)
    (h : ∀ (i : Nat) (r : List Msg), tracks[i]? = some r → (i : Int) ≠ k.1) : P k (abss tracks).flatten = [] := by
  rw [P_abss_flat, List.flatMap_eq_nil_iff]
  intro x hx
  rw [P_trackEvents_other _ _ _ (h x.2 x.1 (mem_zipIdx_get hx))]
  rfl

theorem key_cases (tracks : List (List Msg)) (k : Int × Int) :
    (∃ (i : Nat) (r : List Msg), tracks[i]? = some r ∧ k = ((i : Int), k.2)) ∨
      (∀ (i : Nat) (r : List Msg), tracks[i]? = some r → (i : Int) ≠ k.1) := by
  by_cases h : ∃ (i : Nat) (r : List Msg), tracks[i]? = some r ∧ (i : Int) = k.1
  · obtain ⟨i, r, h1, h2⟩ := h
    exact Or.inl ⟨i, r, h1, by rw [h2]⟩
  · right
    intro i r h1 h2
    exact h ⟨i, r, h1, h2⟩

theorem keyOK_nil (Y : Int × Int → List Msg) (k : Int × Int) (h : Y k = []) :
    P k (Y k) = Y k ∧ fuseK k 0 (Y k) = Y k ∧ depth k (Y k) 0 = 0 ∧ (Y k).Pairwise KLe := by
  rw [h]
  exact ⟨rfl, rfl, rfl, List.Pairwise.nil⟩

theorem abss_keyOK (tracks : List (List Msg)) (hg : ∀ i r, tracks[i]? = some r → TrackGood i r) :
    KeyOK (fun k => P k (abss tracks).flatten) := by
  have key : ∀ k, P k (P k (abss tracks).flatten) = P k (abss tracks).flatten
      ∧ fuseK k 0 (P k (abss tracks).flatten) = P k (abss tracks).flatten
      ∧ depth k (P k (abss tracks).flatten) 0 = 0 ∧ (P k (abss tracks).flatten).Pairwise KLe := by
    intro k
    rcases key_cases tracks k with ⟨i, r, h1, h2⟩ | h
    · have hK := trackGood_keyOK i r (hg i r h1)
      have e : P k (abss tracks).flatten = P k (trackEvents i r) := by
        rw [h2, P_abss_some tracks i r h1]
        exact isort_of_pairwise keyLe _ (hK.kle _)
      rw [e]
      exact ⟨hK.proj k, hK.fuse k, hK.dep k, hK.kle k⟩
    · exact keyOK_nil (fun k => P k (abss tracks).flatten) k (P_abss_none tracks k h)
  exact ⟨fun k => (key k).1, fun k => (key k).2.1, fun k => (key k).2.2.1, fun k => (key k).2.2.2⟩

/-- **per key, the pipeline is the identity**: the note events of key `k` in the list the pairings are
    read from are those of the merged tracks -/
theorem final_P (tracks : List (List Msg)) (hok : ∀ t ∈ tracks, OkRel t)
    (hg : ∀ i r, tracks[i]? = some r → TrackGood i r) (k : Int × Int) :
    P k (final tracks) = P k (abss tracks).flatten := by
  have hY := abss_keyOK tracks hg
  rw [final_eq]
  exact absQ _ hY _ (mergeQ _ hY (abss tracks) (abss_ok tracks hok) (fun _ => rfl)) k

theorem final_P_some (tracks : List (List Msg)) (hok : ∀ t ∈ tracks, OkRel t)
    (hg : ∀ i r, tracks[i]? = some r → TrackGood i r) (i : Nat) (r : List Msg) (h : tracks[i]? = some r) (p : Int) :
    P ((i : Int), p) (final tracks) = P ((i : Int), p) (trackEvents i r) := by
  rw [final_P tracks hok hg, P_abss_some tracks i r h]
  exact isort_of_pairwise keyLe _ ((trackGood_keyOK i r (hg i r h)).kle _)

theorem final_P_none (tracks : List (List Msg)) (hok : ∀ t ∈ tracks, OkRel t)
    (hg : ∀ i r, tracks[i]? = some r → TrackGood i r) (k : Int × Int)
    (h : ∀ (i : Nat) (r : List Msg), tracks[i]? = some r → (i : Int) ≠ k.1) : P k (final tracks) = [] := by
  rw [final_P tracks hok hg, P_abss_none tracks k h]

theorem final_P_kle (tracks : List (List Msg)) (hok : ∀ t ∈ tracks, OkRel t)
    (hg : ∀ i r, tracks[i]? = some r → TrackGood i r) (k : Int × Int) : (P k (final tracks)).Pairwise KLe := by
  rw [final_P tracks hok hg]
  exact (abss_keyOK tracks hg).kle k

/-! ## the note events of `extract` are the notes of the tracks -/

theorem evNote_eq (x : Int × Pairing) : evNote x = NotesL.noteR x.2 := by
  obtain ⟨c, p⟩ := x
  unfold evNote NotesL.noteR NotesL.toPair
  match p with
  | [] => rfl
  | [_] => rfl
  | [_, _] => rfl
  | _ :: _ :: _ :: _ => rfl

theorem final_sorted_P (tracks : List (List Msg)) (hok : ∀ t ∈ tracks, OkRel t)
    (hg : ∀ i r, tracks[i]? = some r → TrackGood i r) (k : Int × Int) :
    P k (sortAbs (final tracks)) = P k (final tracks) := by
  rw [P_sortAbs]
  exact isort_of_pairwise keyLe _ (final_P_kle tracks hok hg k)

/-- the sorted list the pairings are read from is well-formed -/
theorem final_wf (tracks : List (List Msg)) (hok : ∀ t ∈ tracks, OkRel t)
    (hg : ∀ i r, tracks[i]? = some r → TrackGood i r) : WF (sortAbs (final tracks)) := by
  intro k
  rw [← altFrom_filter_kn]
  have e : (sortAbs (final tracks)).filter (isKN k) = P k (final tracks) := final_sorted_P tracks hok hg k
  rw [e]
  rcases key_cases tracks k with ⟨i, r, h1, h2⟩ | h
  · rw [h2, final_P_some tracks hok hg i r h1, ← h2]
    show altFrom k false ((trackEvents i r).filter (isKN k))
    rw [altFrom_filter_kn]
    exact (hg i r h1).2.1 k
  · rw [final_P_none tracks hok hg k h]
    simp [altFrom]

/-- the notes of the sorted final list, key by key -/
theorem final_notes_key (tracks : List (List Msg)) (hok : ∀ t ∈ tracks, OkRel t)
    (hg : ∀ i r, tracks[i]? = some r → TrackGood i r) (k : Int × Int) :
    (notesOf (sortAbs (final tracks))).filter (keyIs k) = (pieceNotes tracks).filter (keyIs k) := by
  have hL : (notesOf (sortAbs (final tracks))).filter (keyIs k) = notesOf (P k (final tracks)) := by
    have := NotesL.notesGo_proj k (sortAbs (final tracks)) []
    simp only [List.filter_nil] at this
    rw [← final_sorted_P tracks hok hg k]
    exact this
  have hR : (pieceNotes tracks).filter (keyIs k)
      = tracks.zipIdx.flatMap (fun x => notesOf (P k (trackEvents x.2 x.1))) := by
    simp only [pieceNotes, List.filter_flatMap]
    congr 1
    funext x
    have := NotesL.notesGo_proj k (trackEvents x.2 x.1) []
    simp only [List.filter_nil] at this
    exact this
  rw [hL, hR]
  rcases key_cases tracks k with ⟨i, r, h1, h2⟩ | h
  · rw [flatMap_zipIdx_get _ i, h1]
    · simp only
      rw [h2, final_P_some tracks hok hg i r h1]
    · intro x _ hne
      rw [P_trackEvents_other _ _ _ (by intro e; rw [h2] at e; exact hne (by simp only at e; omega))]
      rfl
  · rw [final_P_none tracks hok hg k h]
    show [] = _
    symm
    rw [List.flatMap_eq_nil_iff]
    intro x hx
    rw [P_trackEvents_other _ _ _ (h x.2 x.1 (mem_zipIdx_get hx))]
    rfl

/-- **the note events of `extract` are exactly the notes of the tracks** (as a multiset; the order is
    the onset order, `Glue.extract_ordered`) -/
theorem extract_notes_perm (ppqn : Int) (tracks : List (List Msg)) (hok : ∀ t ∈ tracks, OkRel t)
    (hg : ∀ i r, tracks[i]? = some r → TrackGood i r) :
    ((extract ppqn tracks).filterMap evNote).Perm (pieceNotes tracks) := by
  have hwf := final_wf tracks hok hg
  obtain ⟨h1, _, _⟩ := NotesL.pairingsSorted_sim extractTypes rfl rfl ppqn (sortAbs (final tracks)) hwf
  have hA : ((extract ppqn tracks).filterMap evNote).Perm (notesOf (sortAbs (final tracks))) := by
    have e0 : evNote = fun x => NotesL.noteR x.2 := funext evNote_eq
    rw [e0, extract_eq]
    refine ((NotesL.interleaved_perm extractTypes ppqn (final tracks)).filterMap _).trans ?_
    rw [NotesL.filterMap_flat]
    have e1 : (NotesL.allP (pairings extractTypes ppqn true (final tracks))).filterMap NotesL.noteR
        = ((NotesL.allP (pairingsSorted extractTypes ppqn true (sortAbs (final tracks)))).filterMap NotesL.toPair).map
            NotesL.mkNote := by
      rw [List.map_filterMap]
      rfl
    rw [e1, notesOf, NotesL.notesGo_eq]
    exact h1.map _
  exact hA.trans (perm_of_keys _ _ (final_notes_key tracks hok hg))

/-! ## provenance of the other events -/

theorem mem_toAbs_events (r : List Msg) (m : Msg) (hm : m ∈ toAbs r) (hty : m.ty ≠ .internal) :
    m ∈ eventsRel r := by
  rw [toAbs_eq] at hm
  split at hm
  · exact (mem_sortAbs _ m).1 hm
  · rcases List.mem_cons.1 ((insort_perm _ _).mem_iff.1 hm) with rfl | hm
    · exact absurd rfl hty
    · exact (mem_sortAbs _ m).1 hm

theorem mergeRel_okRel (as : List (List Msg)) (h : ∀ a ∈ as, OkAbs a) : OkRel (C15.mergeRel as) := by
  refine ⟨normalise_nonNegWaits _, ?_⟩
  intro x hx
  rcases normalise_mem _ x hx with ⟨h1, _⟩ | ⟨_, _, t, _, rfl⟩
  · exact (C04.toRel_ok _ (C15.okU as h)).2 x h1
  · simp [Msg.mkWait]

/-- every non-INTERNAL message the pairings are read from is a timed event of one of the tracks -/
theorem final_mem_events (tracks : List (List Msg)) (hok : ∀ t ∈ tracks, OkRel t) (m : Msg)
    (hm : m ∈ final tracks) (hty : m.ty ≠ .internal) :
    ∃ i r, tracks[i]? = some r ∧ m ∈ trackEvents i r := by
  rw [final_eq] at hm
  have h1 := mem_toAbs_events _ m hm hty
  have h2 := (C15.events_sublist (abss tracks) (abss_ok tracks hok)).subset h1
  simp only [eventsAbs, List.mem_filter] at h2
  have h3 := (mem_sortAbs _ m).1 h2.1
  obtain ⟨a, ha, hma⟩ := List.mem_flatten.1 h3
  simp only [abss, List.mem_map] at ha
  obtain ⟨⟨r, i⟩, hri, rfl⟩ := ha
  refine ⟨i, r, mem_zipIdx_get hri, ?_⟩
  rw [← eventsRel_setChannel]
  exact mem_toAbs_events _ m hma hty

theorem maxDur_mem (as : List (List Msg)) : C15.maxDur as = 0 ∨ ∃ a ∈ as, C15.maxDur as = durAbs a := by
  induction as with
  | nil => exact Or.inl rfl
  | cons a as ih =>
    simp only [C15.maxDur]
    rcases Int.le_total (durAbs a) (C15.maxDur as) with h | h
    · rw [Int.max_eq_right h]
      rcases ih with h0 | ⟨b, hb, hbe⟩
      · exact Or.inl h0
      · exact Or.inr ⟨b, List.mem_cons_of_mem _ hb, hbe⟩
    · rw [Int.max_eq_left h]
      exact Or.inr ⟨a, List.mem_cons_self, rfl⟩

/-- the INTERNAL message (if any) stands at the length of the longest track -/
theorem final_internal_time (tracks : List (List Msg)) (hok : ∀ t ∈ tracks, OkRel t) (m : Msg)
    (hm : m ∈ final tracks) (hty : m.ty = .internal) :
    m.time = 0 ∨ ∃ r ∈ tracks, m.time = durRel r := by
  have hA := abss_ok tracks hok
  have hN := mergeRel_okRel (abss tracks) hA
  rw [final_eq, toAbs_eq] at hm
  have hno : m ∉ sortAbs (eventsRel (C15.mergeRel (abss tracks))) := by
    intro h
    exact eventsRel_not_internal _ hN m ((mem_sortAbs _ m).1 h) hty
  have ht : m.time = C15.maxDur (abss tracks) := by
    split at hm
    · exact absurd hm hno
    · rcases List.mem_cons.1 ((insort_perm _ _).mem_iff.1 hm) with rfl | hm
      · have := C15.duration (abss tracks) hA
        simpa [Msg.mkInternal, durRel] using this
      · exact absurd hm hno
  rcases maxDur_mem (abss tracks) with h0 | ⟨a, ha, hae⟩
  · exact Or.inl (ht.trans h0)
  · right
    simp only [abss, List.mem_map] at ha
    obtain ⟨⟨r, i⟩, hri, rfl⟩ := ha
    have hr : r ∈ tracks := List.mem_of_getElem? (mem_zipIdx_get hri)
    refine ⟨r, hr, ?_⟩
    rw [ht, hae, C04.toAbs_duration _ (okRel_setChannel _ r (hok r hr)), durRel, durRel, totalWait_setChannel]

/-- every non-wait message of a relative list occurs among its timed events -/
theorem msg_event (r : List Msg) : ∀ (cur : Int), ∀ m ∈ r, m.ty ≠ .wait →
    ∃ e ∈ eventsRelGo cur r, e.ty = m.ty ∧ e.num = m.num ∧ e.den = m.den := by
  induction r with
  | nil => intro cur m hm; simp at hm
  | cons x xs ih =>
    intro cur m hm hw
    by_cases hxw : x.ty = .wait
    · have hmx : m ∈ xs := by
        rcases List.mem_cons.1 hm with rfl | h
        · exact absurd hxw hw
        · exact h
      obtain ⟨e, he, h⟩ := ih (cur + x.time) m hmx hw
      exact ⟨e, by simp [eventsRelGo, hxw, he], h⟩
    · rcases List.mem_cons.1 hm with rfl | h
      · exact ⟨{ m with time := cur }, by simp [eventsRelGo, hxw], rfl, rfl, rfl⟩
      · obtain ⟨e, he, h'⟩ := ih cur m h hw
        exact ⟨e, by simp [eventsRelGo, hxw, he], h'⟩

/-! ## `WF` is decidable -/

def altB (k : Int × Int) : Bool → List Msg → Bool
  | o, [] => !o
  | o, m :: ms =>
    if m.nkey = k ∧ m.ty = .noteOn then !o && altB k true ms
    else if m.nkey = k ∧ m.ty = .noteOff then o && altB k false ms
    else altB k o ms

theorem altB_iff (k : Int × Int) (l : List Msg) : ∀ b, altB k b l = true ↔ altFrom k b l := by
  induction l with
  | nil => intro b; cases b <;> simp [altB, altFrom]
  | cons m ms ih =>
    intro b
    simp only [altB, altFrom]
    split
    · rw [Bool.and_eq_true, ih]; cases b <;> simp
    · split
      · rw [Bool.and_eq_true, ih]
      · exact ih b

theorem altFrom_absent (k : Int × Int) (l : List Msg) (h : ∀ m ∈ l, m.nkey ≠ k) : altFrom k false l := by
  induction l with
  | nil => simp [altFrom]
  | cons m ms ih =>
    have hm := h m List.mem_cons_self
    simp only [altFrom, hm, false_and, if_false]
    exact ih (fun x hx => h x (List.mem_cons_of_mem _ hx))

def wfB (l : List Msg) : Bool := (l.map Msg.nkey).all (fun k => altB k false l)

theorem wfB_iff (l : List Msg) : wfB l = true ↔ WF l := by
  simp only [wfB, List.all_eq_true, List.mem_map, forall_exists_index, and_imp, forall_apply_eq_imp_iff₂, altB_iff]
  constructor
  · intro h k
    by_cases hk : ∃ m ∈ l, m.nkey = k
    · obtain ⟨m, hm, rfl⟩ := hk
      exact h m hm
    · exact altFrom_absent k l (fun m hm e => hk ⟨m, hm, e⟩)
  · intro h m _
    exact h m.nkey

instance (l : List Msg) : Decidable (WF l) := decidable_of_iff _ (wfB_iff l)

/-! ## where the fields of a note come from -/

theorem notesGo_src (l : List Msg) : ∀ (os : List Msg), ∀ n ∈ notesGo l os,
    ∃ o, (o ∈ l ∨ o ∈ os) ∧ n.ch = o.ch ∧ n.pitch = o.note ∧ n.on = o.time ∧ n.vel = o.vel := by
  induction l with
  | nil => intro os n hn; simp [notesGo] at hn
  | cons m ms ih =>
    intro os n hn
    by_cases hon : m.ty = .noteOn
    · rw [notesGo_on hon] at hn
      obtain ⟨o, ho, h⟩ := ih _ n hn
      refine ⟨o, ?_, h⟩
      rcases ho with ho | ho
      · exact Or.inl (List.mem_cons_of_mem _ ho)
      · rcases List.mem_cons.1 ho with rfl | ho
        · exact Or.inl List.mem_cons_self
        · exact Or.inr (List.mem_filter.1 ho).1
    · by_cases hoff : m.ty = .noteOff
      · cases hf : os.find? (fun o => o.nkey == m.nkey) with
        | none =>
          rw [notesGo_off_none hoff ms os hf] at hn
          obtain ⟨o, ho, h⟩ := ih _ n hn
          exact ⟨o, ho.imp (List.mem_cons_of_mem _) id, h⟩
        | some x =>
          rw [notesGo_off_some hoff ms os hf] at hn
          rcases List.mem_cons.1 hn with rfl | hn
          · exact ⟨x, Or.inr (List.mem_of_find?_eq_some hf), rfl, rfl, rfl, rfl⟩
          · obtain ⟨o, ho, h⟩ := ih _ n hn
            exact ⟨o, ho.imp (List.mem_cons_of_mem _) (fun h' => (List.mem_filter.1 h').1), h⟩
      · rw [notesGo_other hon hoff] at hn
        obtain ⟨o, ho, h⟩ := ih _ n hn
        exact ⟨o, ho.imp (List.mem_cons_of_mem _) id, h⟩

theorem trackNotes_ch (i : Nat) (r : List Msg) : ∀ n ∈ trackNotes i r, n.ch = (i : Int) := by
  intro n hn
  obtain ⟨o, ho, h, _⟩ := notesGo_src _ [] n hn
  rcases ho with ho | ho
  · rw [h]; exact trackEvents_ch i r o ho
  · simp at ho

theorem pieceNotes_filter_ch (tracks : List (List Msg)) (i : Nat) (r : List Msg) (h : tracks[i]? = some r) :
    (pieceNotes tracks).filter (fun n => n.ch == (i : Int)) = trackNotes i r := by
  simp only [pieceNotes, List.filter_flatMap]
  rw [flatMap_zipIdx_get _ i, h]
  · simp only
    rw [List.filter_eq_self]
    intro n hn
    simpa using trackNotes_ch i r n hn
  · intro x _ hne
    rw [List.filter_eq_nil_iff]
    intro n hn
    have := trackNotes_ch x.2 x.1 n hn
    simp only [beq_iff_eq, this]
    omega

/-! ## velocity bins: the value of the bin, specified without the index -/

/-- "the value of its velocity bin": the smallest bin value that is not below the velocity
    (0 if there is none — excluded by validity).  Specified without `binIndex` / `np.digitize`. -/
def binValue (bins : List Int) (v : Int) : Int := ((bins.filter (fun b => decide (v ≤ b))).min?).getD 0

theorem binIndex_cons (b : Int) (bs : List Int) (v : Int) :
    binIndex (b :: bs) v = (if b < v then 1 else 0) + binIndex bs v := by
  unfold binIndex
  by_cases h : b < v <;> simp [h] <;> omega

/-- on non-decreasing bins the tokeniser's lookup `bins[digitize v]` is the smallest bin ≥ v -/
theorem binIdx_spec (v : Int) : ∀ (bins : List Int), bins.Pairwise (· ≤ ·) → binIndex bins v < bins.length →
    ∃ w, bins[binIndex bins v]? = some w ∧ w ∈ bins ∧ v ≤ w ∧ ∀ b ∈ bins, v ≤ b → w ≤ b := by
  intro bins
  induction bins with
  | nil => intro _ h; simp at h
  | cons b bs ih =>
    intro hs hlt
    rw [List.pairwise_cons] at hs
    rw [binIndex_cons] at hlt ⊢
    by_cases hb : b < v
    · rw [if_pos hb] at hlt ⊢
      obtain ⟨w, h1, h2, h3, h4⟩ := ih hs.2 (by simp only [List.length_cons] at hlt; omega)
      refine ⟨w, ?_, List.mem_cons_of_mem _ h2, h3, ?_⟩
      · rw [Nat.add_comm, List.getElem?_cons_succ]; exact h1
      · intro b' hb' hv
        rcases List.mem_cons.1 hb' with rfl | hb'
        · omega
        · exact h4 b' hb' hv
    · have h0 : binIndex bs v = 0 := by
        unfold binIndex
        rw [List.length_eq_zero_iff, List.filter_eq_nil_iff]
        intro x hx
        have := hs.1 x hx
        simp only [decide_eq_true_eq]; omega
      rw [if_neg hb, h0]
      refine ⟨b, rfl, List.mem_cons_self, by omega, ?_⟩
      intro b' hb' _
      rcases List.mem_cons.1 hb' with rfl | hb'
      · exact Int.le_refl _
      · exact hs.1 b' hb'

theorem binValue_eq (bins : List Int) (v w : Int) (h1 : w ∈ bins) (h2 : v ≤ w) (h3 : ∀ b ∈ bins, v ≤ b → w ≤ b) :
    binValue bins v = w := by
  unfold binValue
  have : (bins.filter (fun b => decide (v ≤ b))).min? = some w := by
    rw [List.min?_eq_some_iff]
    refine ⟨List.mem_filter.2 ⟨h1, by simpa using h2⟩, ?_⟩
    intro b hb
    have := List.mem_filter.1 hb
    exact h3 b this.1 (by simpa using this.2)
  rw [this]; rfl

/-- the tokeniser's velocity lookup equals the independently specified bin value -/
theorem bins_lookup (bins : List Int) (v : Int) (hs : bins.Pairwise (· ≤ ·)) (h : ∃ b ∈ bins, v ≤ b) :
    (bins[binIndex bins v]?).getD 0 = binValue bins v := by
  have hlt : binIndex bins v < bins.length := by
    unfold binIndex
    rw [List.length_filter_lt_length_iff_exists]
    obtain ⟨b, hb, hvb⟩ := h
    exact ⟨b, hb, by simpa using hvb⟩
  obtain ⟨w, h1, h2, h3, h4⟩ := binIdx_spec v bins hs hlt
  rw [h1, binValue_eq bins v w h2 h3 h4]
  rfl

/-! ## the notes in the specification log -/

open SCoda.C01 in
/-- the notes in an emission log, the track index in the channel slot -/
def logNotes (log : List C01.Emit) : List Note :=
  log.filterMap (fun e => match e with
    | .note trk p v on off => some { ch := trk, pitch := p, on := on, off := off, vel := v }
    | _ => Option.none)

theorem logNotes_append (a b : List C01.Emit) : logNotes (a ++ b) = logNotes a ++ logNotes b := by
  simp [logNotes, List.filterMap_append]

theorem logNotes_barEnds (xs : List Int) : logNotes (xs.map C01.Emit.barEnd) = [] := by
  simp [logNotes, List.filterMap_map, Function.comp_def]

/-- every event is a note (note-on, note-off) or a single non-note-on message -/
def Shape (evs : List (Int × Pairing)) : Prop :=
  ∀ ev ∈ evs, (∃ on off, ev.2 = [on, off] ∧ on.ty = .noteOn) ∨ (∃ m, ev.2 = [m] ∧ m.ty ≠ .noteOn)

/-- what the log says of a note read off the events: shifted by the call's start clock, velocity looked
    up in the bins -/
def binShift (c : Cfg) (s : Int) (n : Note) : Note :=
  { n with on := n.on + s, off := n.on + s + (n.off - n.on), vel := (c.bins[binIndex c.bins n.vel]?).getD 0 }

theorem fold_notes (c : Cfg) (s : Int) : ∀ (evs : List (Int × Pairing)) (kl : C01.Clock × List C01.Emit),
    C01.Sane kl.1 → (∀ ev ∈ evs, ∀ m ∈ ev.2.head?, kl.1.cur ≤ m.time + s) →
    evs.Pairwise (fun a b => ∀ x ∈ a.2.head?, ∀ y ∈ b.2.head?, x.time ≤ y.time) →
    (∀ ev ∈ evs, ∀ m ∈ ev.2.head?, m.ty = .timeSignature → 0 < c.capacity m.num m.den) → Shape evs →
    logNotes (evs.foldl (C01.specEvent c s) kl).2 = logNotes kl.2 ++ (evs.filterMap evNote).map (binShift c s) := by
  intro evs
  induction evs with
  | nil => intro kl _ _ _ _ _; simp
  | cons ev evs ih =>
    intro kl hs hle hord hcap hsh
    rw [List.pairwise_cons] at hord
    rw [List.foldl_cons]
    have hsh' : Shape evs := fun e he => hsh e (List.mem_cons_of_mem _ he)
    have hcap' : ∀ e ∈ evs, ∀ m ∈ e.2.head?, m.ty = .timeSignature → 0 < c.capacity m.num m.den :=
      fun e he => hcap e (List.mem_cons_of_mem _ he)
    obtain ⟨e1, e2⟩ := ev
    have key : ∀ (m : Msg) (restP : List Msg), e2 = m :: restP →
        logNotes (C01.specTail c m restP
          (C01.advance ((m.time + s - kl.1.cur).toNat + 1) (m.time + s - kl.1.cur) kl.1).1).2
          = ((evNote (e1, e2)).toList).map (binShift c s) →
        logNotes (evs.foldl (C01.specEvent c s) (C01.specEvent c s kl (e1, e2))).2
          = logNotes kl.2 ++ (((e1, e2) :: evs).filterMap evNote).map (binShift c s) := by
      intro m restP he2 hT
      subst he2
      have hm : kl.1.cur ≤ m.time + s := hle (e1, m :: restP) List.mem_cons_self m (by simp)
      obtain ⟨a1, _, a3, _, _⟩ := C01.adv_inv ((m.time + s - kl.1.cur).toNat + 1) (m.time + s - kl.1.cur) kl.1
        hs (by omega)
      obtain ⟨t1, _, t3, _⟩ := C01.specTail_props c m restP
        (C01.advance ((m.time + s - kl.1.cur).toNat + 1) (m.time + s - kl.1.cur) kl.1).1
      rw [C01.specEvent_cons]
      generalize C01.advance ((m.time + s - kl.1.cur).toNat + 1) (m.time + s - kl.1.cur) kl.1 = r at *
      generalize hTT : C01.specTail c m restP r.1 = T at *
      have hI := ih (T.1, kl.2 ++ r.2.map C01.Emit.barEnd ++ T.2)
        (t3 a1 (hcap (e1, m :: restP) List.mem_cons_self m (by simp))) (by
          intro ev' hev' m' hm'
          simp only
          rw [t1, a3]
          have := hord.1 ev' hev' m (by simp) m' hm'
          omega) hord.2 hcap' hsh'
      rw [hI]
      simp only [logNotes_append, logNotes_barEnds, List.append_nil, hT, List.filterMap_cons]
      cases hE : evNote (e1, m :: restP) <;> simp
    rcases hsh (e1, e2) List.mem_cons_self with ⟨on, off, h1, hty⟩ | ⟨m, h1, hty⟩
    · simp only at h1
      refine key on [off] h1 ?_
      have hm : kl.1.cur ≤ on.time + s := hle (e1, e2) List.mem_cons_self on (by simp [h1])
      obtain ⟨_, _, a3, _, _⟩ := C01.adv_inv ((on.time + s - kl.1.cur).toNat + 1) (on.time + s - kl.1.cur) kl.1
        hs (by omega)
      have hcur : (C01.advance ((on.time + s - kl.1.cur).toNat + 1) (on.time + s - kl.1.cur) kl.1).1.cur = on.time + s := by
        omega
      simp only [C01.specTail, hty, hcur, logNotes, evNote, h1, List.filterMap_cons, List.filterMap_nil,
        Option.toList_some, List.map_cons, List.map_nil, binShift]
    · simp only at h1
      refine key m [] h1 ?_
      have e0 : evNote (e1, e2) = Option.none := by simp [evNote, h1]
      rw [e0]
      unfold C01.specTail
      split
      · rename_i h; exact absurd h hty
      · split <;> rfl
      · rfl

theorem closeBar_notes (kl : C01.Clock × List C01.Emit) : logNotes (C01.closeBar kl).2 = logNotes kl.2 := by
  unfold C01.closeBar
  split
  · simp [logNotes_append, logNotes_barEnds]
  · rfl

/-- **the notes of the specification log** of a call from the initial state are the note events, in
    order, each at its onset with its duration and its velocity looked up in the bins -/
theorem specLog_notes (c : Cfg) (hc : C01.CfgOk c) (evs : List (Int × Pairing)) (hev : C01.EvsOk c 0 0 evs)
    (hcap : ∀ ev ∈ evs, ∀ m ∈ ev.2.head?, m.ty = .timeSignature → 0 < c.capacity m.num m.den) (hsh : Shape evs) :
    logNotes (C01.specLog c (TokSt.init c) evs).2 = (evs.filterMap evNote).map (binShift c 0) := by
  have hpos : 0 < c.capacity c.defNum c.defDen := by
    unfold Cfg.capacity
    rw [hc.def_eq, Int.mul_ediv_cancel _ (by have := hc.def_pos; omega)]
    have := hc.ppqn_pos; omega
  rw [C01.specLog_eq, closeBar_notes]
  have e0 : (TokSt.init c).curTime = 0 := rfl
  rw [e0]
  have := fold_notes c 0 evs (C01.clockOf (TokSt.init c) (c.capacity (TokSt.init c).tsNum (TokSt.init c).tsDen), [])
    ⟨hpos, Int.le_refl 0, hpos⟩ (fun ev he m hm => hev.notBefore ev he m hm) hev.ordered hcap hsh
  simpa [logNotes] using this

theorem logNotes_filter (log : List C01.Emit) : logNotes (log.filter C01.notTsig) = logNotes log := by
  induction log with
  | nil => rfl
  | cons e log ih =>
    cases e <;> simp_all [logNotes, C01.notTsig, List.filter_cons]

/-! ## how the detokeniser's insertions build the output sequences -/

theorem rev_ind {α} {Q : List α → Prop} (h0 : Q []) (h1 : ∀ l a, Q l → Q (l ++ [a])) (l : List α) : Q l := by
  have : ∀ r : List α, Q r.reverse := by
    intro r
    induction r with
    | nil => exact h0
    | cons a r ih => rw [List.reverse_cons]; exact h1 _ _ ih
  simpa using this l.reverse

/-- inserting a note event of key `k` that is not earlier than the key's events already there appends
    it to the key's projection -/
theorem P_insort_le (k : Int × Int) (s : List Msg) (m : Msg) (hs : Sorted s)
    (hle : ∀ x ∈ P k s, x.time ≤ m.time) : P k (insort s m) = P k s ++ P k [m] := by
  obtain ⟨_, _, h3⟩ := Ops.insortGo_pos m.time s hs
  have hsplit : P k s = P k (s.take (insortGo m.time s.toArray (s.length + 1) 0 s.length))
      ++ P k (s.drop (insortGo m.time s.toArray (s.length + 1) 0 s.length)) := by
    rw [← P_append, List.take_append_drop]
  have hdrop : P k (s.drop (insortGo m.time s.toArray (s.length + 1) 0 s.length)) = [] := by
    rw [P, List.filter_eq_nil_iff]
    intro x hx hk
    have h1 := h3 x hx
    have h2 := hle x (List.mem_filter.2 ⟨List.mem_of_mem_drop hx, hk⟩)
    omega
  simp only [insort]
  rw [P_append]
  show _ ++ P k ([m] ++ _) = _
  rw [P_append, hdrop, List.append_nil]
  rw [hdrop, List.append_nil] at hsplit
  rw [← hsplit]

/-- the note messages that the emissions of `log` put on output sequence `i`, in order -/
def emitMsgs (i : Nat) : C01.Emit → List Msg
  | .note trk p v on off => if trk.toNat = i then [Msg.mkOn 0 p v on, Msg.mkOff 0 p off] else []
  | _ => []

def noteMsgs (i : Nat) (log : List C01.Emit) : List Msg := log.flatMap (emitMsgs i)

/-- the notes that the emissions of `log` put on output sequence `i` (channel 0, as `detokenise` writes them) -/
def trkNotes (i : Nat) (log : List C01.Emit) : List Note :=
  log.filterMap (fun e => match e with
    | .note trk p v on off => if trk.toNat = i then some { ch := 0, pitch := p, on := on, off := off, vel := v } else Option.none
    | _ => Option.none)

/-- later notes of the same output sequence and pitch start when the earlier ones have ended -/
def NR (a b : Note) : Prop := a.ch.toNat = b.ch.toNat → a.pitch = b.pitch → a.off ≤ b.on

def LogOk (log : List C01.Emit) : Prop :=
  (logNotes log).Pairwise NR ∧ ∀ n ∈ logNotes log, n.on ≤ n.off

theorem noteMsgs_append (i : Nat) (a b : List C01.Emit) : noteMsgs i (a ++ b) = noteMsgs i a ++ noteMsgs i b := by
  simp [noteMsgs]

/-- the note messages on sequence `i` come from notes of the log -/
theorem noteMsgs_src (i : Nat) (log : List C01.Emit) : ∀ x ∈ noteMsgs i log,
    ∃ n ∈ logNotes log, n.ch.toNat = i ∧ x.nkey = (0, n.pitch) ∧ (x.time = n.on ∨ x.time = n.off) := by
  intro x hx
  simp only [noteMsgs, List.mem_flatMap] at hx
  obtain ⟨e, he, hxe⟩ := hx
  cases e with
  | barEnd t => simp [emitMsgs] at hxe
  | tsig t n d => simp [emitMsgs] at hxe
  | note trk p v on off =>
    simp only [emitMsgs] at hxe
    split at hxe
    · rename_i htrk
      refine ⟨{ ch := trk, pitch := p, on := on, off := off, vel := v }, ?_, htrk, ?_⟩
      · simp only [logNotes, List.mem_filterMap]
        exact ⟨_, he, rfl⟩
      · simp only [List.mem_cons, List.not_mem_nil, or_false] at hxe
        rcases hxe with rfl | rfl
        · exact ⟨rfl, Or.inl rfl⟩
        · exact ⟨rfl, Or.inr rfl⟩
    · simp at hxe

theorem getElem?_addAbs (seqs : List (List Msg)) (j i : Nat) (m : Msg) :
    (addAbs seqs j m)[i]? = if j = i then (seqs[i]?).map (fun l => insort l m) else seqs[i]? := by
  unfold addAbs
  exact GluePair.getElem?_modifyAt _ seqs j i

/-- **the output sequences, key by key**: after the emissions of `log`, output sequence `i` is
    time-sorted and its note events of key `k` are those the log put there, in log order -/
theorem seqs_inv (n : Nat) : ∀ (log : List C01.Emit), LogOk log →
    (log.foldl C01.applyEmit (List.replicate n [])).length = n ∧
    ∀ i s, (log.foldl C01.applyEmit (List.replicate n []))[i]? = some s →
      Sorted s ∧ ∀ k, P k s = P k (noteMsgs i log) := by
  intro log
  induction log using rev_ind with
  | h0 =>
    intro _
    refine ⟨by simp, ?_⟩
    intro i s hs
    simp only [List.foldl_nil, List.getElem?_replicate] at hs
    split at hs
    · cases hs; exact ⟨List.Pairwise.nil, fun k => rfl⟩
    · cases hs
  | h1 log e ih =>
    intro hok
    have hok' : LogOk log := by
      obtain ⟨h1, h2⟩ := hok
      rw [logNotes_append] at h1 h2
      exact ⟨(List.pairwise_append.1 h1).1, fun n hn => h2 n (List.mem_append_left _ hn)⟩
    obtain ⟨hlen, hI⟩ := ih hok'
    rw [List.foldl_append, List.foldl_cons, List.foldl_nil]
    generalize log.foldl C01.applyEmit (List.replicate n []) = seqs at hlen hI
    cases e with
    | barEnd t =>
      refine ⟨by simp [C01.applyEmit, hlen], ?_⟩
      intro i s hs
      simp only [C01.applyEmit, List.getElem?_map, Option.map_eq_some_iff] at hs
      obtain ⟨s0, hs0, rfl⟩ := hs
      obtain ⟨g1, g2⟩ := hI i s0 hs0
      refine ⟨Ops.insort_pairwise _ _ g1, fun k => ?_⟩
      rw [P_insort k _ _ (by simp [Msg.mkInternal]), g2 k, noteMsgs_append]
      simp [noteMsgs, emitMsgs, P]
    | tsig t a b =>
      refine ⟨by simp [C01.applyEmit, addAbs, EQ.length_modifyAt, hlen], ?_⟩
      intro i s hs
      simp only [C01.applyEmit, getElem?_addAbs] at hs
      have hnm : ∀ k, P k (noteMsgs i (log ++ [C01.Emit.tsig t a b])) = P k (noteMsgs i log) := by
        intro k; rw [noteMsgs_append]; simp [noteMsgs, emitMsgs, P]
      split at hs
      · rw [Option.map_eq_some_iff] at hs
        obtain ⟨s0, hs0, rfl⟩ := hs
        obtain ⟨g1, g2⟩ := hI i s0 hs0
        refine ⟨Ops.insort_pairwise _ _ g1, fun k => ?_⟩
        rw [P_insort k _ _ (by simp [Msg.mkTimeSig]), g2 k, hnm]
      · obtain ⟨g1, g2⟩ := hI i s hs
        exact ⟨g1, fun k => by rw [g2 k, hnm]⟩
    | note trk p v on off =>
      refine ⟨by simp [C01.applyEmit, addAbs, EQ.length_modifyAt, hlen], ?_⟩
      intro i s hs
      simp only [C01.applyEmit, getElem?_addAbs] at hs
      by_cases hj : trk.toNat = i
      · simp only [hj, if_true, Option.map_map, Option.map_eq_some_iff, Function.comp] at hs
        obtain ⟨s0, hs0, rfl⟩ := hs
        obtain ⟨g1, g2⟩ := hI i s0 hs0
        have hs1 := Ops.insort_pairwise s0 (Msg.mkOn 0 p v on) g1
        refine ⟨Ops.insort_pairwise _ _ hs1, fun k => ?_⟩
        -- what the log order gives: earlier events of this key are not later than the new note-on
        obtain ⟨hpw, hself⟩ := hok
        rw [logNotes_append] at hpw hself
        have hnew : ({ ch := trk, pitch := p, on := on, off := off, vel := v } : Note)
            ∈ logNotes [C01.Emit.note trk p v on off] := by simp [logNotes]
        have honoff : on ≤ off := hself _ (List.mem_append_right _ hnew)
        have hearlier : ∀ x ∈ P (0, p) s0, x.time ≤ on := by
          intro x hx
          rw [g2] at hx
          have hx' := List.mem_filter.1 hx
          obtain ⟨nn, hnn, h1, h2, h3⟩ := noteMsgs_src i log x hx'.1
          have hkey : x.nkey = (0, p) := by
            have := hx'.2
            simp only [isKN, decide_eq_true_eq] at this
            exact this.1
          have hp : nn.pitch = p := by
            rw [h2] at hkey
            exact (Prod.mk.inj hkey).2
          have hrel : NR nn { ch := trk, pitch := p, on := on, off := off, vel := v } :=
            (List.pairwise_append.1 hpw).2.2 nn hnn _ hnew
          have := hrel (by simp only; omega) hp
          have := hself nn (List.mem_append_left _ hnn)
          simp only at *
          rcases h3 with h3 | h3 <;> omega
        by_cases hk : k = (0, p)
        · subst hk
          have e1 := P_insort_le (0, p) s0 (Msg.mkOn 0 p v on) g1 hearlier
          have e2 := P_insort_le (0, p) (insort s0 (Msg.mkOn 0 p v on)) (Msg.mkOff 0 p off) hs1 (by
            intro x hx
            rw [e1] at hx
            rcases List.mem_append.1 hx with hx | hx
            · have := hearlier x hx; simp only [Msg.mkOff]; omega
            · have hx' := (List.mem_filter.1 hx).1
              simp only [List.mem_cons, List.not_mem_nil, or_false] at hx'
              subst hx'
              simp only [Msg.mkOff, Msg.mkOn]; omega)
          rw [e2, e1, g2, noteMsgs_append, P_append, List.append_assoc]
          congr 1
          simp [noteMsgs, emitMsgs, hj, P, isKN, Msg.mkOn, Msg.mkOff, Msg.nkey]
        · have hk1 : isKN k (Msg.mkOn 0 p v on) = false := by
            simp only [isKN, Msg.mkOn, Msg.nkey, decide_eq_false_iff_not, not_and]
            intro h; exact absurd h.symm hk
          have hk2 : isKN k (Msg.mkOff 0 p off) = false := by
            simp only [isKN, Msg.mkOff, Msg.nkey, decide_eq_false_iff_not, not_and]
            intro h; exact absurd h.symm hk
          have f1 : ∀ (l : List Msg) (m : Msg), isKN k m = false → P k (insort l m) = P k l := by
            intro l m hm
            exact filter_insort_not _ l m hm
          rw [f1 _ _ hk2, f1 _ _ hk1, g2, noteMsgs_append, P_append]
          simp [noteMsgs, emitMsgs, hj, P, hk1, hk2]
      · simp only [hj, if_false] at hs
        obtain ⟨g1, g2⟩ := hI i s hs
        refine ⟨g1, fun k => ?_⟩
        rw [g2, noteMsgs_append]
        simp [noteMsgs, emitMsgs, hj, P]

/-! ## the notes of the output sequences -/

theorem notesGo_noteMsgs (i : Nat) (log : List C01.Emit) : ∀ os, notesGo (noteMsgs i log) os = trkNotes i log := by
  induction log with
  | nil => intro os; rfl
  | cons e log ih =>
    intro os
    have hc : noteMsgs i (e :: log) = emitMsgs i e ++ noteMsgs i log := by simp [noteMsgs]
    rw [hc]
    cases e with
    | barEnd t => simpa [emitMsgs, trkNotes] using ih os
    | tsig t a b => simpa [emitMsgs, trkNotes] using ih os
    | note trk p v on off =>
      by_cases hj : trk.toNat = i
      · simp only [emitMsgs, hj, if_true, List.cons_append, List.nil_append]
        rw [notesGo_on (by rfl)]
        rw [notesGo_off_some (o := Msg.mkOn 0 p v on) (by rfl) _ _ (by simp [Msg.mkOn, Msg.mkOff, Msg.nkey])]
        rw [ih]
        simp [trkNotes, hj, Msg.mkOn, Msg.mkOff]
      · simpa [emitMsgs, trkNotes, hj] using ih os

/-- the notes of output sequence `i` are the notes the log put there -/
theorem seq_notes (n : Nat) (log : List C01.Emit) (hok : LogOk log) (i : Nat) (s : List Msg)
    (hs : (log.foldl C01.applyEmit (List.replicate n []))[i]? = some s) :
    (notesOf (eventsAbs s)).Perm (trkNotes i log) := by
  obtain ⟨_, hP⟩ := (seqs_inv n log hok).2 i s hs
  rw [← notesGo_noteMsgs i log []]
  apply perm_of_keys
  intro k
  have h1 := NotesL.notesGo_proj k (eventsAbs s) []
  have h2 := NotesL.notesGo_proj k (noteMsgs i log) []
  simp only [List.filter_nil] at h1 h2
  show (notesGo (eventsAbs s) []).filter (keyIs k) = (notesGo (noteMsgs i log) []).filter (keyIs k)
  have e1 : (eventsAbs s).filter (isKN k) = s.filter (isKN k) := P_eventsAbs k s
  have e2 : s.filter (isKN k) = (noteMsgs i log).filter (isKN k) := hP k
  calc (notesGo (eventsAbs s) []).filter (keyIs k) = notesGo ((eventsAbs s).filter (isKN k)) [] := h1
    _ = notesGo ((noteMsgs i log).filter (isKN k)) [] := by rw [e1, e2]
    _ = (notesGo (noteMsgs i log) []).filter (keyIs k) := h2.symm

theorem trkNotes_eq (i : Nat) (log : List C01.Emit) :
    trkNotes i log = ((logNotes log).filter (fun n => n.ch.toNat == i)).map (fun n => { n with ch := 0 }) := by
  induction log with
  | nil => rfl
  | cons e log ih =>
    cases e with
    | barEnd t => simpa [trkNotes, logNotes] using ih
    | tsig t a b => simpa [trkNotes, logNotes] using ih
    | note trk p v on off =>
      simp only [trkNotes, logNotes, List.filterMap_cons] at ih ⊢
      by_cases hj : trk.toNat = i
      · simp [hj, ih]
      · simp [hj, ih]

/-! ## notes of one key do not overlap: the log order is safe for the insertions -/

/-- in a time-sorted list, a later note of the same key starts when the earlier one has ended -/
theorem notesGo_chain (l : List Msg) (hs : Sorted l) : ∀ (os : List Msg),
    (notesGo l os).Pairwise (fun a b => (a.ch, a.pitch) = (b.ch, b.pitch) → a.off ≤ b.on) := by
  induction l with
  | nil => intro os; simp [notesGo]
  | cons m ms ih =>
    intro os
    have hs := List.pairwise_cons.1 hs
    by_cases hon : m.ty = .noteOn
    · rw [notesGo_on hon]; exact ih hs.2 _
    · by_cases hoff : m.ty = .noteOff
      · cases hf : os.find? (fun o => o.nkey == m.nkey) with
        | none => rw [notesGo_off_none hoff ms os hf]; exact ih hs.2 _
        | some x =>
          rw [notesGo_off_some hoff ms os hf, List.pairwise_cons]
          refine ⟨?_, ih hs.2 _⟩
          intro b hb hkey
          obtain ⟨o, ho, h1, h2, h3, _⟩ := notesGo_src ms _ b hb
          have hxk : x.nkey = m.nkey := by simpa using List.find?_some hf
          rcases ho with ho | ho
          · have := hs.1 o ho
            simp only; omega
          · exfalso
            have hne := (List.mem_filter.1 ho).2
            simp only [bne_iff_ne, ne_eq] at hne
            apply hne
            simp only [Prod.mk.injEq] at hkey
            have : o.nkey = x.nkey := by
              simp only [Msg.nkey, Prod.mk.injEq]
              exact ⟨by rw [← h1, hkey.1], by rw [← h2, hkey.2]⟩
            rw [this, hxk]
      · rw [notesGo_other hon hoff]; exact ih hs.2 _

theorem zipIdx_lt {α} (l : List α) : ∀ n, (∀ x ∈ l.zipIdx n, n ≤ x.2) ∧ (l.zipIdx n).Pairwise (fun a b => a.2 < b.2) := by
  induction l with
  | nil => intro n; simp
  | cons a l ih =>
    intro n
    obtain ⟨h1, h2⟩ := ih (n + 1)
    rw [List.zipIdx_cons]
    refine ⟨?_, List.pairwise_cons.2 ⟨?_, h2⟩⟩
    · intro x hx
      rcases List.mem_cons.1 hx with rfl | hx
      · exact Nat.le_refl _
      · have := h1 x hx; omega
    · intro x hx
      have := h1 x hx
      show n < x.2
      omega

/-- two notes of the piece with the same track and pitch do not overlap -/
def Apart (a b : Note) : Prop := (a.ch, a.pitch) = (b.ch, b.pitch) → a.off ≤ b.on ∨ b.off ≤ a.on

theorem pieceNotes_apart (tracks : List (List Msg)) (hok : ∀ t ∈ tracks, OkRel t) :
    (pieceNotes tracks).Pairwise Apart := by
  unfold pieceNotes
  rw [List.pairwise_flatMap]
  constructor
  · intro x hx
    have hr : x.1 ∈ tracks := List.mem_of_getElem? (mem_zipIdx_get hx)
    exact (notesGo_chain _ (trackEvents_sorted x.2 x.1 (hok _ hr).1) []).imp (fun h hk => Or.inl (h hk))
  · refine (zipIdx_lt tracks 0).2.imp ?_
    intro x y hlt a ha b hb hk
    exfalso
    have h1 := trackNotes_ch _ _ a ha
    have h2 := trackNotes_ch _ _ b hb
    simp only [Prod.mk.injEq] at hk
    omega

theorem apart_symm {a b : Note} (h : Apart a b) : Apart b a := fun hk => (h hk.symm).symm

/-! ## the bar grid, computed from the signatures (specification side) -/

open SCoda.C01 in
/-- move the bar clock forward to tick `t` -/
def goTo (k : C01.Clock) (t : Int) : C01.Clock := (C01.advance ((t - k.cur).toNat + 1) (t - k.cur) k).1

/-- a time signature re-sizes the bars from its tick on -/
def sigStep (c : Cfg) (k : C01.Clock) (m : Msg) : C01.Clock :=
  { goTo k m.time with capTotal := c.capacity m.num m.den, capRem := c.capacity m.num m.den }

/-- the clock before the piece starts: tick 0, on a bar line, default signature -/
def clock0 (c : Cfg) : C01.Clock :=
  { cur := 0, bar := 0, capTotal := c.capacity c.defNum c.defDen, capRem := c.capacity c.defNum c.defDen }

/-- the first bar line at or after tick `L` of the grid induced by the signature changes `sigs` -/
def barCeil (c : Cfg) (sigs : List Msg) (L : Int) : Int :=
  let k := goTo (sigs.foldl (sigStep c) (clock0 c)) L
  if k.bar > 0 then k.cur + k.capRem else k.cur

/-- every signature change stands on a bar line of the grid induced by the earlier ones -/
def OnBars (c : Cfg) : C01.Clock → List Msg → Prop
  | _, [] => True
  | k, m :: ms => (goTo k m.time).bar = 0 ∧ OnBars c (sigStep c k m) ms

instance (c : Cfg) : ∀ (k : C01.Clock) (sigs : List Msg), Decidable (OnBars c k sigs)
  | _, [] => isTrue trivial
  | k, m :: ms =>
    have := instDecidableOnBars c (sigStep c k m) ms
    inferInstanceAs (Decidable ((goTo k m.time).bar = 0 ∧ OnBars c (sigStep c k m) ms))

/-! ### moving the clock in two steps -/

/-- the clock after `r` ticks -/
def advC (r : Int) (k : C01.Clock) : C01.Clock := (C01.advance (r.toNat + 1) r k).1

theorem goTo_eq (k : C01.Clock) (t : Int) : goTo k t = advC (t - k.cur) k := rfl

theorem advC_zero (k : C01.Clock) (r : Int) (h : r ≤ 0) : advC r k = k := by
  unfold advC; rw [C01.adv_nonpos _ _ _ h]

theorem advC_in (k : C01.Clock) (hs : C01.Sane k) (r : Int) (h0 : 0 < r) (h1 : r < k.capRem) :
    advC r k = { k with cur := k.cur + r, bar := k.bar + r, capRem := k.capRem - r } := by
  unfold advC
  rw [C01.adv_split_in r k r h0 (Int.le_refl r) h1 (fun _ => hs.2.2)]
  rw [Int.sub_self, C01.adv_nonpos _ _ _ (Int.le_refl 0)]

theorem advC_close (k : C01.Clock) (hs : C01.Sane k) (r : Int) (h1 : k.capRem ≤ r) :
    advC r k = advC (r - k.capRem) { k with cur := k.cur + k.capRem, bar := 0, capRem := k.capTotal } := by
  unfold advC
  rw [C01.adv_split_close r k k.capRem hs.1 h1 rfl (fun _ => hs.2.2)]

theorem advC_add (f : Nat) : ∀ (r1 : Int) (k : C01.Clock), C01.Sane k → 0 ≤ r1 → r1.toNat ≤ f → ∀ r2, 0 ≤ r2 →
    advC r2 (advC r1 k) = advC (r1 + r2) k := by
  induction f with
  | zero =>
    intro r1 k _ h0 hf r2 _
    have : r1 = 0 := by omega
    subst this
    rw [advC_zero k 0 (Int.le_refl 0), Int.zero_add]
  | succ f ih =>
    intro r1 k hs h0 hf r2 h2
    by_cases hz : r1 = 0
    · subst hz; rw [advC_zero k 0 (Int.le_refl 0), Int.zero_add]
    · by_cases hin : r1 < k.capRem
      · rw [advC_in k hs r1 (by omega) hin]
        unfold advC
        rw [C01.adv_split_in (r1 + r2) k r1 (by omega) (by omega) hin (fun _ => hs.2.2)]
        have : r1 + r2 - r1 = r2 := by omega
        rw [this]
      · have hc := hs.1
        rw [advC_close k hs r1 (by omega), advC_close k hs (r1 + r2) (by omega)]
        have e : r1 + r2 - k.capRem = (r1 - k.capRem) + r2 := by omega
        rw [e]
        exact ih (r1 - k.capRem) { k with cur := k.cur + k.capRem, bar := 0, capRem := k.capTotal }
          ⟨hs.2.2, Int.le_refl 0, hs.2.2⟩ (by omega) (by omega) r2 h2

theorem advC_props (r : Int) (k : C01.Clock) (hs : C01.Sane k) :
    C01.Sane (advC r k) ∧ (advC r k).capTotal = k.capTotal ∧ (advC r k).cur = k.cur + max r 0 := by
  obtain ⟨a1, a2, a3, _, _⟩ := C01.adv_inv (r.toNat + 1) r k hs (by omega)
  exact ⟨a1, a2, a3⟩

theorem goTo_sane (k : C01.Clock) (hs : C01.Sane k) (t : Int) : C01.Sane (goTo k t) := (advC_props _ k hs).1

theorem goTo_cur (k : C01.Clock) (hs : C01.Sane k) (t : Int) (h : k.cur ≤ t) : (goTo k t).cur = t := by
  have := (advC_props (t - k.cur) k hs).2.2
  rw [goTo_eq, this]; omega

theorem goTo_capTotal (k : C01.Clock) (hs : C01.Sane k) (t : Int) : (goTo k t).capTotal = k.capTotal :=
  (advC_props _ k hs).2.1

theorem goTo_self (k : C01.Clock) (t : Int) (h : t ≤ k.cur) : goTo k t = k := advC_zero k _ (by omega)

theorem goTo_goTo (k : C01.Clock) (hs : C01.Sane k) (t1 t2 : Int) (h1 : k.cur ≤ t1) (h2 : t1 ≤ t2) :
    goTo (goTo k t1) t2 = goTo k t2 := by
  rw [goTo_eq (goTo k t1), goTo_cur k hs t1 h1, goTo_eq k t1, goTo_eq k t2]
  rw [advC_add (t1 - k.cur).toNat (t1 - k.cur) k hs (by omega) (Nat.le_refl _) (t2 - t1) (by omega)]
  congr 1; omega

/-! ### the clock of the specification log only depends on the signatures and the last onset -/

/-- a time-signature event of the interleaved list -/
def tsOf (ev : Int × Pairing) : Option Msg :=
  match ev.2 with
  | [m] => if m.ty = .timeSignature then some m else Option.none
  | _ => Option.none

/-- the rule of the code: a signature that does not stand on a bar line is skipped -/
def sigStepI (c : Cfg) (k : C01.Clock) (m : Msg) : C01.Clock :=
  if (goTo k m.time).bar > 0 then goTo k m.time else sigStep c k m

/-- onset of the last event (`d` if there is none) -/
def lastHead : List (Int × Pairing) → Int → Int
  | [], d => d
  | ev :: evs, d => lastHead evs ((ev.2.head?.map (·.time)).getD d)

theorem specEvent_clock (c : Cfg) (kl : C01.Clock × List C01.Emit) (e1 : Int) (m : Msg) (restP : List Msg) :
    (C01.specEvent c 0 kl (e1, m :: restP)).1 =
      if m.ty = .timeSignature then sigStepI c kl.1 m else goTo kl.1 m.time := by
  rw [C01.specEvent_cons]
  simp only [Int.add_zero]
  show (C01.specTail c m restP (goTo kl.1 m.time)).1 = _
  unfold C01.specTail
  split
  · rename_i hty
    rw [if_neg (by rw [hty]; decide)]
    split <;> rfl
  · rename_i hty
    rw [if_pos hty]
    unfold sigStepI sigStep
    split <;> rfl
  · rename_i h1 h2
    rw [if_neg h2]

theorem sigStepI_props (c : Cfg) (k : C01.Clock) (hs : C01.Sane k) (m : Msg) (h : k.cur ≤ m.time)
    (hcap : 0 < c.capacity m.num m.den) : C01.Sane (sigStepI c k m) ∧ (sigStepI c k m).cur = m.time := by
  have h1 := goTo_sane k hs m.time
  have h2 := goTo_cur k hs m.time h
  unfold sigStepI sigStep
  split
  · exact ⟨h1, h2⟩
  · exact ⟨⟨hcap, h1.2.1, hcap⟩, h2⟩

/-- going on to a later tick commutes with a first stop before the next signature -/
theorem sigfold_goTo (c : Cfg) (sigs : List Msg) (k : C01.Clock) (hs : C01.Sane k) (t L : Int) (h1 : k.cur ≤ t)
    (h2 : t ≤ L) (hsig : ∀ m ∈ sigs, t ≤ m.time) :
    goTo (sigs.foldl (sigStepI c) (goTo k t)) L = goTo (sigs.foldl (sigStepI c) k) L := by
  cases sigs with
  | nil => exact goTo_goTo k hs t L h1 h2
  | cons m ms =>
    have : sigStepI c (goTo k t) m = sigStepI c k m := by
      unfold sigStepI sigStep
      rw [goTo_goTo k hs t m.time h1 (hsig m List.mem_cons_self)]
    rw [List.foldl_cons, List.foldl_cons, this]

theorem fold_clock (c : Cfg) : ∀ (evs : List (Int × Pairing)) (kl : C01.Clock × List C01.Emit),
    C01.Sane kl.1 → (∀ ev ∈ evs, ∀ m ∈ ev.2.head?, kl.1.cur ≤ m.time) →
    evs.Pairwise (fun a b => ∀ x ∈ a.2.head?, ∀ y ∈ b.2.head?, x.time ≤ y.time) →
    (∀ ev ∈ evs, ∀ m ∈ ev.2.head?, m.ty = .timeSignature → 0 < c.capacity m.num m.den) → Shape evs →
    C01.Sane (evs.foldl (C01.specEvent c 0) kl).1
    ∧ (evs.foldl (C01.specEvent c 0) kl).1.cur = lastHead evs kl.1.cur
    ∧ ∀ L, (∀ ev ∈ evs, ∀ m ∈ ev.2.head?, m.time ≤ L) → kl.1.cur ≤ L →
        goTo (evs.foldl (C01.specEvent c 0) kl).1 L = goTo ((evs.filterMap tsOf).foldl (sigStepI c) kl.1) L := by
  intro evs
  induction evs with
  | nil => intro kl hs _ _ _ _; exact ⟨hs, rfl, fun L _ _ => rfl⟩
  | cons ev evs ih =>
    intro kl hs hle hord hcap hsh
    have hord' := List.pairwise_cons.1 hord
    have hsh' : Shape evs := fun e he => hsh e (List.mem_cons_of_mem _ he)
    have hcap' : ∀ e ∈ evs, ∀ m ∈ e.2.head?, m.ty = .timeSignature → 0 < c.capacity m.num m.den :=
      fun e he => hcap e (List.mem_cons_of_mem _ he)
    obtain ⟨e1, e2⟩ := ev
    -- the head of the first event
    obtain ⟨m, restP, he2, hts⟩ : ∃ m restP, e2 = m :: restP ∧ (tsOf (e1, e2) = if m.ty = .timeSignature then some m else Option.none) := by
      rcases hsh (e1, e2) List.mem_cons_self with ⟨on, off, h1, hty⟩ | ⟨m, h1, hty⟩
      · simp only at h1
        refine ⟨on, [off], h1, ?_⟩
        rw [if_neg (by rw [hty]; decide)]
        simp [tsOf, h1]
      · simp only at h1
        exact ⟨m, [], h1, by simp [tsOf, h1]⟩
    subst he2
    have hm : kl.1.cur ≤ m.time := hle (e1, m :: restP) List.mem_cons_self m (by simp)
    have hlater : ∀ ev ∈ evs, ∀ m' ∈ ev.2.head?, m.time ≤ m'.time := fun ev hev m' hm' =>
      hord'.1 ev hev m (by simp) m' hm'
    rw [List.foldl_cons]
    have hlh : lastHead ((e1, m :: restP) :: evs) kl.1.cur = lastHead evs m.time := by simp [lastHead]
    rw [hlh]
    by_cases hty : m.ty = .timeSignature
    · obtain ⟨s1, s2⟩ := sigStepI_props c kl.1 hs m hm (hcap (e1, m :: restP) List.mem_cons_self m (by simp) hty)
      have hk : (C01.specEvent c 0 kl (e1, m :: restP)).1 = sigStepI c kl.1 m := by
        rw [specEvent_clock, if_pos hty]
      obtain ⟨i1, i2, i3⟩ := ih (C01.specEvent c 0 kl (e1, m :: restP)) (by rw [hk]; exact s1)
        (by rw [hk, s2]; exact hlater) hord'.2 hcap' hsh'
      refine ⟨i1, by rw [i2, hk, s2], ?_⟩
      intro L hL hkL
      rw [i3 L (fun ev hev => hL ev (List.mem_cons_of_mem _ hev))
        (by rw [hk, s2]; exact hL (e1, m :: restP) List.mem_cons_self m (by simp))]
      rw [hk, List.filterMap_cons, hts, if_pos hty, List.foldl_cons]
    · have hk : (C01.specEvent c 0 kl (e1, m :: restP)).1 = goTo kl.1 m.time := by
        rw [specEvent_clock, if_neg hty]
      have s1 := goTo_sane kl.1 hs m.time
      have s2 := goTo_cur kl.1 hs m.time hm
      obtain ⟨i1, i2, i3⟩ := ih (C01.specEvent c 0 kl (e1, m :: restP)) (by rw [hk]; exact s1)
        (by rw [hk, s2]; exact hlater) hord'.2 hcap' hsh'
      refine ⟨i1, by rw [i2, hk, s2], ?_⟩
      intro L hL hkL
      have hmL : m.time ≤ L := hL (e1, m :: restP) List.mem_cons_self m (by simp)
      rw [i3 L (fun ev hev => hL ev (List.mem_cons_of_mem _ hev)) (by rw [hk, s2]; exact hmL)]
      rw [hk, List.filterMap_cons, hts, if_neg hty]
      refine sigfold_goTo c _ kl.1 hs m.time L hm hmL ?_
      intro m' hm'
      rw [List.mem_filterMap] at hm'
      obtain ⟨ev, hev, hev'⟩ := hm'
      refine hlater ev hev m' ?_
      unfold tsOf at hev'
      split at hev'
      · rename_i x hx
        split at hev'
        · cases hev'; simp [hx]
        · cases hev'
      · cases hev'

/-- under `OnBars` the skip rule never fires -/
theorem sigfold_onBars (c : Cfg) : ∀ (sigs : List Msg) (k : C01.Clock), OnBars c k sigs →
    sigs.foldl (sigStepI c) k = sigs.foldl (sigStep c) k := by
  intro sigs
  induction sigs with
  | nil => intro k _; rfl
  | cons m ms ih =>
    intro k h
    obtain ⟨h1, h2⟩ := h
    have : sigStepI c k m = sigStep c k m := by
      unfold sigStepI
      rw [if_neg (by omega)]
    rw [List.foldl_cons, List.foldl_cons, this]
    exact ih _ h2

/-- **the final clock of the specification log** is the first bar line at or after the last onset, on the
    grid induced by the signature events -/
theorem specLog_cur (c : Cfg) (hc : C01.CfgOk c) (evs : List (Int × Pairing)) (hev : C01.EvsOk c 0 0 evs)
    (hcap : ∀ ev ∈ evs, ∀ m ∈ ev.2.head?, m.ty = .timeSignature → 0 < c.capacity m.num m.den) (hsh : Shape evs)
    (hob : OnBars c (clock0 c) (evs.filterMap tsOf)) :
    (C01.specLog c (TokSt.init c) evs).1.cur = barCeil c (evs.filterMap tsOf) (lastHead evs 0) := by
  have hpos : 0 < c.capacity c.defNum c.defDen := by
    unfold Cfg.capacity
    rw [hc.def_eq, Int.mul_ediv_cancel _ (by have := hc.def_pos; omega)]
    have := hc.ppqn_pos; omega
  rw [C01.specLog_eq]
  have e0 : (TokSt.init c).curTime = 0 := rfl
  rw [e0]
  have hk0 : C01.clockOf (TokSt.init c) (c.capacity (TokSt.init c).tsNum (TokSt.init c).tsDen) = clock0 c := rfl
  rw [hk0]
  obtain ⟨f1, f2, f3⟩ := fold_clock c evs (clock0 c, []) ⟨hpos, Int.le_refl 0, hpos⟩
    (fun ev he m hm => by have := hev.notBefore ev he m hm; simpa [clock0] using this) hev.ordered hcap hsh
  generalize evs.foldl (C01.specEvent c 0) (clock0 c, []) = kf at f1 f2 f3
  obtain ⟨k, Lg⟩ := kf
  simp only at f1 f2 f3
  have hcur : (clock0 c).cur = 0 := rfl
  rw [hcur] at f2
  -- the fold's clock is the signature clock moved to the last onset
  have hk : k = goTo ((evs.filterMap tsOf).foldl (sigStep c) (clock0 c)) (lastHead evs 0) := by
    have hmax : ∀ ev ∈ evs, ∀ m ∈ ev.2.head?, m.time ≤ k.cur := by
      -- heads are ordered and the clock stands on the last one
      rw [f2]
      clear f1 f2 f3 hob hcap
      have gen : ∀ (evs : List (Int × Pairing)) (d : Int),
          evs.Pairwise (fun a b => ∀ x ∈ a.2.head?, ∀ y ∈ b.2.head?, x.time ≤ y.time) →
          (∀ ev ∈ evs, ev.2 ≠ []) →
          (∀ ev ∈ evs, ∀ m ∈ ev.2.head?, m.time ≤ lastHead evs d) ∧ (evs = [] → lastHead evs d = d) := by
        intro evs
        induction evs with
        | nil => intro d _ _; exact ⟨by simp, fun _ => rfl⟩
        | cons ev evs ih =>
          intro d hord hne
          have hord' := List.pairwise_cons.1 hord
          obtain ⟨m, restP, hm⟩ : ∃ m restP, ev.2 = m :: restP := by
            cases h : ev.2 with
            | nil => exact absurd h (hne ev List.mem_cons_self)
            | cons m restP => exact ⟨m, restP, rfl⟩
          have hlh : lastHead (ev :: evs) d = lastHead evs m.time := by simp [lastHead, hm]
          obtain ⟨i1, i2⟩ := ih m.time hord'.2 (fun e he => hne e (List.mem_cons_of_mem _ he))
          refine ⟨?_, fun h => by cases h⟩
          intro ev' hev' m' hm'
          rw [hlh]
          rcases List.mem_cons.1 hev' with rfl | hev'
          · rw [hm] at hm'; simp at hm'; subst hm'
            cases evs with
            | nil => simp [lastHead]
            | cons e2 es =>
              obtain ⟨m2, r2, hm2⟩ : ∃ m2 r2, e2.2 = m2 :: r2 := by
                cases h : e2.2 with
                | nil => exact absurd h (hne e2 (by simp))
                | cons m2 r2 => exact ⟨m2, r2, rfl⟩
              have := i1 e2 List.mem_cons_self m2 (by simp [hm2])
              have := hord'.1 e2 List.mem_cons_self m (by simp [hm]) m2 (by simp [hm2])
              omega
          · exact i1 ev' hev' m' hm'
      have hne : ∀ ev ∈ evs, ev.2 ≠ [] := by
        intro ev he
        rcases hsh ev he with ⟨on, off, h1, _⟩ | ⟨m, h1, _⟩ <;> rw [h1] <;> simp
      exact (gen evs 0 hev.ordered hne).1
    have h0 : (clock0 c).cur ≤ k.cur := by
      rw [f2, hcur]
      clear hmax f1 f3
      have : ∀ (evs : List (Int × Pairing)) (d : Int), 0 ≤ d → (∀ ev ∈ evs, ∀ m ∈ ev.2.head?, 0 ≤ m.time) → 0 ≤ lastHead evs d := by
        intro evs
        induction evs with
        | nil => intro d hd _; exact hd
        | cons ev evs ih =>
          intro d hd h
          simp only [lastHead]
          apply ih _ _ (fun e he => h e (List.mem_cons_of_mem _ he))
          cases hh : ev.2.head? with
          | none => simpa using hd
          | some m => simpa using h ev List.mem_cons_self m hh
      exact this evs 0 (Int.le_refl 0) (fun ev he m hm => by have := hev.notBefore ev he m hm; omega)
    have := f3 k.cur hmax h0
    rw [goTo_self k k.cur (Int.le_refl _), sigfold_onBars c _ _ hob] at this
    rw [this, f2]
  -- closing the bar in progress
  unfold barCeil
  simp only
  rw [← hk]
  unfold C01.closeBar
  by_cases hb : k.bar > 0
  · rw [if_pos ⟨hb, f1.1⟩, if_pos hb]
    simp only
    have := C01.closeBar_fire k Lg hb f1.1
    unfold C01.closeBar at this
    rw [if_pos ⟨hb, f1.1⟩] at this
    simp only at this
    rw [(Prod.mk.inj this).1]
  · rw [if_neg (fun h => hb h.1), if_neg hb]

/-! ## the signature events of `extract` are the signature changes of the piece -/

/-- all time-signature events of the piece in tick order (ties: track order) -/
def pieceSigs (tracks : List (List Msg)) : List Msg :=
  sortAbs (tracks.zipIdx.flatMap (fun x => (trackEvents x.2 x.1).filter isTs))

/-- the signature *changes*: a signature that repeats the one in force is not a change -/
def sigChanges (tracks : List (List Msg)) : List Msg := dedupBy tsv (pyNone, pyNone) (pieceSigs tracks)

/-- in one track no two time signatures share a tick -/
def SigsStrict (tracks : List (List Msg)) : Prop :=
  ∀ r ∈ tracks, ((eventsRel r).filter isTs).Pairwise (fun a b => a.time < b.time)

/-- signatures of different tracks at the same tick agree -/
def SigsAgree (tracks : List (List Msg)) : Prop :=
  (pieceSigs tracks).Pairwise (fun a b => a.time = b.time → tsv a = tsv b)

theorem isTs_notInternal (m : Msg) (h : isTs m = true) : m.ty ≠ .internal := by
  simp only [isTs, beq_iff_eq] at h
  rw [h]; decide

theorem trackEvents_ts (i : Nat) (r : List Msg) :
    (trackEvents i r).filter isTs = ((eventsRel r).filter isTs).map (fun m => { m with ch := (i : Int) }) := by
  simp only [trackEvents, List.filter_map]
  rfl

theorem flatMap_congr_mem {α β} {l : List α} {f g : α → List β} (h : ∀ x ∈ l, f x = g x) :
    l.flatMap f = l.flatMap g := by
  induction l with
  | nil => rfl
  | cons a l ih =>
    rw [List.flatMap_cons, List.flatMap_cons, h a List.mem_cons_self,
      ih (fun x hx => h x (List.mem_cons_of_mem _ hx))]

theorem filterMap_ite {α} (p : α → Bool) (l : List α) :
    l.filterMap (fun m => if p m = true then some m else Option.none) = l.filter p := by
  induction l with
  | nil => rfl
  | cons a l ih =>
    by_cases h : p a = true <;> simp [h, ih]

theorem abss_ts (tracks : List (List Msg)) (hst : SigsStrict tracks) :
    (abss tracks).flatten.filter isTs = tracks.zipIdx.flatMap (fun x => (trackEvents x.2 x.1).filter isTs) := by
  simp only [abss]
  rw [← List.flatMap_def, List.filter_flatMap]
  apply flatMap_congr_mem
  intro x hx
  obtain ⟨r, i⟩ := x
  have hr : r ∈ tracks := List.mem_of_getElem? (mem_zipIdx_get hx)
  simp only
  rw [filt_toAbs isTs isTs_notInternal, eventsRel_setChannel]
  apply isort_of_pairwise
  rw [trackEvents_ts]
  exact List.Pairwise.map _ (fun a b hab => kle_of_lt hab) (hst r hr)

/-- the time signatures that reach the pairing code are the signature changes of the piece -/
theorem final_ts (tracks : List (List Msg)) (hok : ∀ t ∈ tracks, OkRel t) (hst : SigsStrict tracks) :
    (final tracks).filter isTs = sigChanges tracks := by
  have hA := abss_ok tracks hok
  rw [final_eq, filt_toAbs isTs isTs_notInternal]
  unfold C15.mergeRel
  rw [normalise_ts_events _ (C15.nnR _ hA), C04.toRel_events _ (C15.okU _ hA), filt_eventsAbs isTs isTs_notInternal,
    filter_sortAbs, abss_ts tracks hst]
  exact isort_of_pairwise keyLe _ (List.Pairwise.sublist (dedupBy_sublist tsv _ _) (sortAbs_sorted _))

theorem sigChanges_sorted (tracks : List (List Msg)) : (sigChanges tracks).Pairwise KLe :=
  List.Pairwise.sublist (dedupBy_sublist tsv _ _) (sortAbs_sorted _)

/-- after the removal of repeats, a list in which equal ticks carry equal values has strictly increasing ticks -/
theorem dedup_later (l : List Msg) : ∀ (p : Int × Int) (t0 : Int), Sorted l →
    (∀ z ∈ l, t0 ≤ z.time) → (∀ z ∈ l, z.time = t0 → tsv z = p) →
    ∀ y ∈ dedupBy tsv p l, t0 < y.time := by
  induction l with
  | nil => intro p t0 _ _ _ y hy; simp [dedupBy] at hy
  | cons x xs ih =>
    intro p t0 hs hge heq y hy
    have hs' := List.pairwise_cons.1 hs
    simp only [dedupBy] at hy
    split at hy
    · exact ih p t0 hs'.2 (fun z hz => hge z (List.mem_cons_of_mem _ hz))
        (fun z hz => heq z (List.mem_cons_of_mem _ hz)) y hy
    · rename_i hne
      have hx : t0 < x.time := by
        have := hge x List.mem_cons_self
        by_cases e : x.time = t0
        · exact absurd (heq x List.mem_cons_self e).symm hne
        · omega
      rcases List.mem_cons.1 hy with rfl | hy
      · exact hx
      · have := hs'.1 y ((dedupBy_sublist tsv xs _).subset hy)
        omega

theorem dedup_strict (l : List Msg) : ∀ (p : Int × Int), Sorted l →
    l.Pairwise (fun a b => a.time = b.time → tsv a = tsv b) →
    (dedupBy tsv p l).Pairwise (fun a b => a.time < b.time) := by
  induction l with
  | nil => intro p _ _; simp [dedupBy]
  | cons x xs ih =>
    intro p hs hag
    have hs' := List.pairwise_cons.1 hs
    have hag' := List.pairwise_cons.1 hag
    simp only [dedupBy]
    split
    · exact ih p hs'.2 hag'.2
    · refine List.pairwise_cons.2 ⟨?_, ih _ hs'.2 hag'.2⟩
      intro y hy
      exact dedup_later xs (tsv x) x.time hs'.2 hs'.1 (fun z hz e => (hag'.1 z hz e.symm).symm) y hy

theorem sigChanges_strict (tracks : List (List Msg)) (hag : SigsAgree tracks) :
    (sigChanges tracks).Pairwise (fun a b => a.time < b.time) :=
  dedup_strict _ _ (sortAbs_pairwise _) hag

/-- a permutation of a strictly tick-increasing list that is itself tick-sorted is that list -/
theorem eq_of_perm_sorted_strict : ∀ (A B : List Msg), A.Perm B → Sorted A →
    B.Pairwise (fun a b => a.time < b.time) → A = B := by
  intro A
  induction A with
  | nil => intro B hp _ _; exact hp.nil_eq
  | cons a A ih =>
    intro B hp hsA hsB
    cases B with
    | nil => exact absurd hp.symm.nil_eq (by simp)
    | cons b B =>
      have hsA' := List.pairwise_cons.1 hsA
      have hsB' := List.pairwise_cons.1 hsB
      have hab : a = b := by
        have ha : a ∈ b :: B := hp.subset List.mem_cons_self
        have hb : b ∈ a :: A := hp.symm.subset List.mem_cons_self
        rcases List.mem_cons.1 ha with h | h
        · exact h
        · rcases List.mem_cons.1 hb with h' | h'
          · exact h'.symm
          · have := hsB'.1 a h
            have := hsA'.1 b h'
            omega
      subst hab
      rw [ih B (List.Perm.cons_inv hp) hsA'.2 hsB'.2]

theorem tsOf_eq (x : Int × Pairing) :
    tsOf x = (NotesL.toSingle x.2).bind (fun m => if isTs m then some m else Option.none) := by
  obtain ⟨c, p⟩ := x
  unfold tsOf NotesL.toSingle
  match p with
  | [] => rfl
  | [m] =>
    simp only [isTs, beq_iff_eq]
    by_cases h : m.ty = .timeSignature
    · simp [h]
    · by_cases h2 : m.ty = .noteOn <;> simp [h, h2]
  | _ :: _ :: _ => rfl

/-- the single-message events of `extract` are, as a multiset, the time-signature and INTERNAL messages
    the pairings are read from -/
theorem extract_singles (ppqn : Int) (tracks : List (List Msg)) (hok : ∀ t ∈ tracks, OkRel t)
    (hg : ∀ i r, tracks[i]? = some r → TrackGood i r) :
    ((extract ppqn tracks).filterMap (fun x => NotesL.toSingle x.2)).Perm
      (NotesL.others extractTypes (sortAbs (final tracks))) := by
  have hwf := final_wf tracks hok hg
  obtain ⟨_, h2, _⟩ := NotesL.pairingsSorted_sim extractTypes rfl rfl ppqn (sortAbs (final tracks)) hwf
  rw [extract_eq]
  refine ((NotesL.interleaved_perm extractTypes ppqn (final tracks)).filterMap _).trans ?_
  rw [NotesL.filterMap_flat]
  exact h2

/-- **the time-signature events of `extract`, in order, are the signature changes of the piece** -/
theorem extract_ts (ppqn : Int) (tracks : List (List Msg)) (hok : ∀ t ∈ tracks, OkRel t)
    (hg : ∀ i r, tracks[i]? = some r → TrackGood i r) (hst : SigsStrict tracks) (hag : SigsAgree tracks) :
    (extract ppqn tracks).filterMap tsOf = sigChanges tracks := by
  have hperm : ((extract ppqn tracks).filterMap tsOf).Perm (sigChanges tracks) := by
    have e0 : tsOf = fun x => (NotesL.toSingle x.2).bind (fun m => if isTs m then some m else Option.none) :=
      funext tsOf_eq
    have e1 : (extract ppqn tracks).filterMap tsOf
        = ((extract ppqn tracks).filterMap (fun x => NotesL.toSingle x.2)).filter isTs := by
      rw [e0, ← List.filterMap_filterMap, filterMap_ite]
    rw [e1]
    refine ((extract_singles ppqn tracks hok hg).filter _).trans ?_
    have e2 : (NotesL.others extractTypes (sortAbs (final tracks))).filter isTs = (sortAbs (final tracks)).filter isTs := by
      simp only [NotesL.others, List.filter_filter]
      apply List.filter_congr
      intro m _
      by_cases h : isTs m = true
      · have hty : m.ty = .timeSignature := by simpa [isTs] using h
        simp [h, hty, extractTypes]
      · simp [h]
    rw [e2, filter_sortAbs, final_ts tracks hok hst]
    rw [sortAbs, isort_of_pairwise keyLe _ (sigChanges_sorted tracks)]
  refine eq_of_perm_sorted_strict _ _ hperm ?_ (sigChanges_strict tracks hag)
  refine List.Pairwise.filterMap tsOf ?_ (Glue.extract_ordered ppqn tracks hok)
  intro a a' hR b hb b' hb'
  have hh : ∀ (x : Int × Pairing) (y : Msg), tsOf x = some y → y ∈ x.2.head? := by
    intro x y hxy
    unfold tsOf at hxy
    split at hxy
    · rename_i m hm
      split at hxy
      · cases hxy; simp [hm]
      · cases hxy
    · cases hxy
  exact hR b (hh a b hb) b' (hh a' b' hb')

/-- an INTERNAL message the pairings are read from is the head of an event -/
theorem extract_internal (ppqn : Int) (tracks : List (List Msg)) (hok : ∀ t ∈ tracks, OkRel t)
    (hg : ∀ i r, tracks[i]? = some r → TrackGood i r) (m : Msg) (hm : m ∈ final tracks) (hty : m.ty = .internal) :
    ∃ ev ∈ extract ppqn tracks, ev.2 = [m] := by
  have h1 : m ∈ NotesL.others extractTypes (sortAbs (final tracks)) := by
    simp only [NotesL.others, List.mem_filter]
    exact ⟨(mem_sortAbs _ m).2 hm, by simp [hty, extractTypes]⟩
  have h2 := (extract_singles ppqn tracks hok hg).mem_iff.2 h1
  rw [List.mem_filterMap] at h2
  obtain ⟨ev, hev, hs⟩ := h2
  refine ⟨ev, hev, ?_⟩
  unfold NotesL.toSingle at hs
  split at hs
  · rename_i x hx
    split at hs
    · cases hs
    · cases hs; exact hx
  · cases hs

/-! ## the length of the piece and its last onset -/

/-- length of the piece: the longest track -/
def pieceEnd : List (List Msg) → Int
  | [] => 0
  | r :: rs => max (durRel r) (pieceEnd rs)

def listMax (l : List Int) : Int := l.foldl max 0

/-- the last onset of the piece: the latest note onset or signature change -/
def lastOnset (tracks : List (List Msg)) : Int :=
  listMax ((pieceNotes tracks).map (·.on) ++ (sigChanges tracks).map (·.time))

/-- the track ends with a rest of positive length (it is padded) -/
def EndsWithRest (r : List Msg) : Prop :=
  match r.getLast? with
  | some m => m.ty = .wait ∧ 0 < m.time
  | Option.none => False

instance (r : List Msg) : Decidable (EndsWithRest r) := by
  unfold EndsWithRest
  split <;> infer_instance

/-- every track is padded with a final rest -/
def Padded (tracks : List (List Msg)) : Prop := ∀ r ∈ tracks, EndsWithRest r

theorem foldl_max_ge (l : List Int) : ∀ a, a ≤ l.foldl max a ∧ ∀ x ∈ l, x ≤ l.foldl max a := by
  induction l with
  | nil => intro a; simp
  | cons y ys ih =>
    intro a
    obtain ⟨h1, h2⟩ := ih (max a y)
    refine ⟨by simp only [List.foldl_cons]; omega, ?_⟩
    intro x hx
    simp only [List.foldl_cons]
    rcases List.mem_cons.1 hx with rfl | hx
    · omega
    · exact h2 x hx

theorem foldl_max_mem (l : List Int) : ∀ a, l.foldl max a = a ∨ l.foldl max a ∈ l := by
  induction l with
  | nil => intro a; exact Or.inl rfl
  | cons y ys ih =>
    intro a
    simp only [List.foldl_cons]
    rcases ih (max a y) with h | h
    · rw [h]
      rcases Int.le_total a y with h' | h'
      · rw [Int.max_eq_right h']; exact Or.inr List.mem_cons_self
      · rw [Int.max_eq_left h']; exact Or.inl rfl
    · exact Or.inr (List.mem_cons_of_mem _ h)

theorem listMax_spec (l : List Int) :
    0 ≤ listMax l ∧ (∀ x ∈ l, x ≤ listMax l) ∧ (listMax l = 0 ∨ listMax l ∈ l) :=
  ⟨(foldl_max_ge l 0).1, (foldl_max_ge l 0).2, foldl_max_mem l 0⟩

theorem durRel_le_pieceEnd (tracks : List (List Msg)) : ∀ r ∈ tracks, durRel r ≤ pieceEnd tracks := by
  induction tracks with
  | nil => intro r hr; simp at hr
  | cons t ts ih =>
    intro r hr
    simp only [pieceEnd]
    rcases List.mem_cons.1 hr with rfl | hr
    · omega
    · have := ih r hr; omega

theorem pieceEnd_nonneg (tracks : List (List Msg)) : 0 ≤ pieceEnd tracks := by
  cases tracks with
  | nil => exact Int.le_refl 0
  | cons t ts => induction ts generalizing t with
    | nil => simp only [pieceEnd]; omega
    | cons u us ih => have := ih u; simp only [pieceEnd] at this ⊢; omega

theorem maxDur_abss (tracks : List (List Msg)) (hok : ∀ t ∈ tracks, OkRel t) :
    C15.maxDur (abss tracks) = pieceEnd tracks := by
  have gen : ∀ (l : List (List Msg)) (n : Nat), (∀ t ∈ l, OkRel t) →
      C15.maxDur ((l.zipIdx n).map (fun (r, i) => toAbs (setChannel (i : Int) r))) = pieceEnd l := by
    intro l
    induction l with
    | nil => intro n _; rfl
    | cons t ts ih =>
      intro n h
      rw [List.zipIdx_cons, List.map_cons]
      simp only [C15.maxDur, pieceEnd]
      rw [ih (n + 1) (fun x hx => h x (List.mem_cons_of_mem _ hx)),
        C04.toAbs_duration _ (okRel_setChannel _ t (h t List.mem_cons_self)), durRel, durRel, totalWait_setChannel]
  exact gen tracks 0 hok

/-- the INTERNAL message (if any) stands exactly at the end of the piece -/
theorem final_internal_end (tracks : List (List Msg)) (hok : ∀ t ∈ tracks, OkRel t) (m : Msg)
    (hm : m ∈ final tracks) (hty : m.ty = .internal) : m.time = pieceEnd tracks := by
  have hA := abss_ok tracks hok
  have hN := mergeRel_okRel (abss tracks) hA
  rw [final_eq, toAbs_eq] at hm
  have hno : m ∉ sortAbs (eventsRel (C15.mergeRel (abss tracks))) := by
    intro h
    exact eventsRel_not_internal _ hN m ((mem_sortAbs _ m).1 h) hty
  rw [← maxDur_abss tracks hok]
  split at hm
  · exact absurd hm hno
  · rcases List.mem_cons.1 ((insort_perm _ _).mem_iff.1 hm) with rfl | hm
    · have := C15.duration (abss tracks) hA
      simpa [Msg.mkInternal, durRel] using this
    · exact absurd hm hno

/-- no message the pairings are read from lies after the end of the piece -/
theorem final_time_le (tracks : List (List Msg)) (hok : ∀ t ∈ tracks, OkRel t) (m : Msg) (hm : m ∈ final tracks) :
    m.time ≤ pieceEnd tracks := by
  by_cases hty : m.ty = .internal
  · rw [final_internal_end tracks hok m hm hty]; exact Int.le_refl _
  · obtain ⟨i, r, hi, hme⟩ := final_mem_events tracks hok m hm hty
    have hr : r ∈ tracks := List.mem_of_getElem? hi
    simp only [trackEvents, List.mem_map] at hme
    obtain ⟨e, he, rfl⟩ := hme
    have := (eventsRelGo_bounds r 0 (hok r hr).1 e he).2
    have := durRel_le_pieceEnd tracks r hr
    simp only [durRel] at this
    simp only; omega

theorem endsWithRest_lt (r : List Msg) (hnn : NonNegWaits r) (h : EndsWithRest r) :
    ∀ e ∈ eventsRel r, e.time < durRel r := by
  unfold EndsWithRest at h
  split at h
  · rename_i w hw
    obtain ⟨h1, h2⟩ := h
    obtain ⟨ys, hsplit⟩ := List.getLast?_eq_some_iff.1 hw
    intro e he
    rw [hsplit] at he ⊢
    have hnn' : NonNegWaits ys := fun x hx => hnn x (by rw [hsplit]; exact List.mem_append_left _ hx)
    simp only [eventsRel] at he
    rw [eventsRelGo_append] at he
    have hw' : eventsRelGo (0 + totalWait ys) [w] = [] := by simp [eventsRelGo, h1]
    rw [hw', List.append_nil] at he
    have := (eventsRelGo_bounds ys 0 hnn' e he).2
    simp only [durRel, totalWait_append, totalWait, h1, beq_self_eq_true, if_true]
    omega
  · exact absurd h id

/-- the piece ends in a rest: every timed event of every track lies strictly before the end of the piece -/
def EndsInRest (tracks : List (List Msg)) : Prop :=
  ∀ r ∈ tracks, ∀ e ∈ eventsRel r, e.time < pieceEnd tracks

/-- a piece all of whose tracks are padded ends in a rest -/
theorem padded_endsInRest (tracks : List (List Msg)) (hok : ∀ t ∈ tracks, OkRel t) (hp : Padded tracks) :
    EndsInRest tracks := by
  intro r hr e he
  have h1 := endsWithRest_lt r (hok r hr).1 (hp r hr) e he
  have h2 := durRel_le_pieceEnd tracks r hr
  omega

/-- a piece of positive length that ends in a rest reaches the pairing code with its INTERNAL end marker -/
theorem padded_internal (tracks : List (List Msg)) (hok : ∀ t ∈ tracks, OkRel t) (hp : EndsInRest tracks)
    (hpos : 0 < pieceEnd tracks) : ∃ m ∈ final tracks, m.ty = .internal := by
  have hA := abss_ok tracks hok
  have hN := mergeRel_okRel (abss tracks) hA
  obtain ⟨_, _, h3⟩ := toAbs_struct (C15.mergeRel (abss tracks)) hN
  have hT : totalWait (C15.mergeRel (abss tracks)) = pieceEnd tracks := by
    have := C15.duration (abss tracks) hA
    rw [maxDur_abss tracks hok] at this
    exact this
  rcases h3 with ⟨e, he, het⟩ | ⟨_, h0⟩
  · refine ⟨e, he, ?_⟩
    apply Classical.byContradiction
    intro hty
    obtain ⟨i, r, hi, hme⟩ := final_mem_events tracks hok e he hty
    have hr : r ∈ tracks := List.mem_of_getElem? hi
    simp only [trackEvents, List.mem_map] at hme
    obtain ⟨e0, he0, rfl⟩ := hme
    have h1 := hp r hr e0 he0
    simp only at het
    omega
  · omega

/-! ### the onset of the last event -/

theorem lastHead_max : ∀ (evs : List (Int × Pairing)) (d : Int),
    evs.Pairwise (fun a b => ∀ x ∈ a.2.head?, ∀ y ∈ b.2.head?, x.time ≤ y.time) →
    (∀ ev ∈ evs, ev.2 ≠ []) →
    (∀ ev ∈ evs, ∀ m ∈ ev.2.head?, m.time ≤ lastHead evs d)
    ∧ (lastHead evs d = d ∨ ∃ ev ∈ evs, ∃ m ∈ ev.2.head?, lastHead evs d = m.time) := by
  intro evs
  induction evs with
  | nil => intro d _ _; exact ⟨by simp, Or.inl rfl⟩
  | cons ev evs ih =>
    intro d hord hne
    have hord' := List.pairwise_cons.1 hord
    obtain ⟨m, restP, hm⟩ : ∃ m restP, ev.2 = m :: restP := by
      cases h : ev.2 with
      | nil => exact absurd h (hne ev List.mem_cons_self)
      | cons m restP => exact ⟨m, restP, rfl⟩
    have hlh : lastHead (ev :: evs) d = lastHead evs m.time := by simp [lastHead, hm]
    obtain ⟨i1, i2⟩ := ih m.time hord'.2 (fun e he => hne e (List.mem_cons_of_mem _ he))
    rw [hlh]
    refine ⟨?_, ?_⟩
    · intro ev' hev' m' hm'
      rcases List.mem_cons.1 hev' with rfl | hev'
      · rw [hm] at hm'; simp at hm'; subst hm'
        rcases i2 with h | ⟨e2, he2, m2, hm2, h⟩
        · rw [h]; exact Int.le_refl _
        · rw [h]; exact hord'.1 e2 he2 m (by simp [hm]) m2 hm2
      · exact i1 ev' hev' m' hm'
    · right
      rcases i2 with h | ⟨e2, he2, m2, hm2, h⟩
      · exact ⟨ev, List.mem_cons_self, m, by simp [hm], h⟩
      · exact ⟨e2, List.mem_cons_of_mem _ he2, m2, hm2, h⟩

/-! ### the first bar line at or after a tick: two facts -/

theorem sigfold_sane (c : Cfg) : ∀ (sigs : List Msg) (k : C01.Clock) (L : Int), C01.Sane k → k.cur ≤ L →
    (∀ m ∈ sigs, 0 < c.capacity m.num m.den ∧ m.time ≤ L) → Sorted sigs → (∀ m ∈ sigs, k.cur ≤ m.time) →
    C01.Sane (sigs.foldl (sigStep c) k) ∧ (sigs.foldl (sigStep c) k).cur ≤ L := by
  intro sigs
  induction sigs with
  | nil => intro k L hs hL _ _ _; exact ⟨hs, hL⟩
  | cons m ms ih =>
    intro k L hs hL hcap hsort hge
    have hsort' := List.pairwise_cons.1 hsort
    have hm := hcap m List.mem_cons_self
    have h1 := goTo_sane k hs m.time
    have h2 := goTo_cur k hs m.time (hge m List.mem_cons_self)
    rw [List.foldl_cons]
    refine ih (sigStep c k m) L ⟨hm.1, h1.2.1, hm.1⟩ (by simp only [sigStep]; omega)
      (fun x hx => hcap x (List.mem_cons_of_mem _ hx)) hsort'.2 ?_
    intro x hx
    simp only [sigStep]
    rw [h2]
    exact hsort'.1 x hx

/-- between a tick and the first bar line at or after it nothing changes -/
theorem barCeil_idem (c : Cfg) (sigs : List Msg) (L T : Int)
    (hs : C01.Sane (sigs.foldl (sigStep c) (clock0 c))) (hk : (sigs.foldl (sigStep c) (clock0 c)).cur ≤ L)
    (h1 : L ≤ T) (h2 : T ≤ barCeil c sigs L) : barCeil c sigs T = barCeil c sigs L := by
  unfold barCeil at h2 ⊢
  simp only at h2 ⊢
  generalize sigs.foldl (sigStep c) (clock0 c) = k at hs hk h2 ⊢
  have hkL := goTo_sane k hs L
  have hcur := goTo_cur k hs L hk
  rw [← goTo_goTo k hs L T hk h1]
  generalize goTo k L = kL at hkL hcur h2 ⊢
  rw [goTo_eq kL T, hcur]
  by_cases hb : kL.bar > 0
  · rw [if_pos hb] at h2
    rw [if_pos hb]
    by_cases hz : T - L ≤ 0
    · rw [advC_zero kL _ hz, if_pos hb]
      omega
    · by_cases hin : T - L < kL.capRem
      · rw [advC_in kL hkL _ (by omega) hin]
        simp only
        rw [if_pos (by omega)]
        omega
      · rw [advC_close kL hkL _ (by omega), advC_zero _ _ (by omega)]
        simp only
        rw [if_neg (by omega)]
        omega
  · rw [if_neg hb] at h2
    rw [if_neg hb]
    have : T - L ≤ 0 := by omega
    rw [advC_zero kL _ this, if_neg hb]
    omega

theorem le_barCeil (c : Cfg) (sigs : List Msg) (L : Int)
    (hs : C01.Sane (sigs.foldl (sigStep c) (clock0 c))) (hk : (sigs.foldl (sigStep c) (clock0 c)).cur ≤ L) :
    L ≤ barCeil c sigs L := by
  unfold barCeil
  simp only
  have h1 := goTo_sane _ hs L
  have h2 := goTo_cur _ hs L hk
  split
  · have := h1.1; omega
  · omega

/-! ## what the output sequences contain, and when the time-signature messages were written -/

theorem dstepLog_tsig_time (c : Cfg) (ps : List Part) : ∀ (d d1 : DetokSt) (log : List C01.Emit),
    (∀ p ∈ ps, InBar.partStill p) → C01.dfold.dstepLog c d ps = .ok (d1, log) →
    ∀ t n dd, C01.Emit.tsig t n dd ∈ log → t = d.curTime := by
  induction ps with
  | nil => intro d d1 log _ h t n dd ht; simp only [C01.dfold.dstepLog] at h; cases h; simp at ht
  | cons p ps ih =>
    intro d d1 log hst h t n dd ht
    simp only [C01.dfold.dstepLog] at h
    split at h
    · cases h
    · rename_i dm hdm
      split at h
      · cases h
      · rename_i d2 log2 h2
        cases h
        rcases List.mem_append.1 ht with ht | ht
        · cases p with
          | tsig a b =>
            simp only [C01.emitOfPart] at ht
            split at ht
            · simp at ht
            · split at ht
              · simp only [List.mem_cons, List.not_mem_nil, or_false, C01.Emit.tsig.injEq] at ht
                exact ht.1
              · simp at ht
          | pad | sta | sto | bar | rest _ | trk _ | val _ | vel _ | pit _ => simp [C01.emitOfPart] at ht
        · have := ih dm d1 log2 (fun q hq => hst q (List.mem_cons_of_mem _ hq)) h2 t n dd ht
          rw [this]
          exact InBar.dpart_still c d dm p (hst p List.mem_cons_self) hdm

/-- in a stream whose clock never runs backwards, every time-signature message is written at a clock
    reading between the first and the last -/
theorem mono_tsig (c : Cfg) : ∀ (toks : List Tok) (d d' : DetokSt) (log : List C01.Emit),
    InBar.Mono c d toks → C01.dfold c d toks = .ok (d', log) →
    d.curTime ≤ d'.curTime ∧ ∀ t n dd, C01.Emit.tsig t n dd ∈ log → d.curTime ≤ t ∧ t ≤ d'.curTime := by
  intro toks
  induction toks with
  | nil => intro d d' log _ h; simp only [C01.dfold] at h; cases h; exact ⟨Int.le_refl _, by simp⟩
  | cons tk ts ih =>
    intro d d' log hm h
    simp only [C01.dfold] at h
    split at h
    · cases h
    · rename_i d1 log1 h1
      split at h
      · cases h
      · rename_i d2 log2 h2
        cases h
        obtain ⟨hle, hm'⟩ := hm d1 log1 h1
        obtain ⟨i1, i2⟩ := ih d1 d' log2 hm' h2
        refine ⟨by omega, ?_⟩
        intro t n dd ht
        rcases List.mem_append.1 ht with ht | ht
        · have : t = d.curTime := by
            cases tk with
            | bar =>
              simp only [Tok.parts, C01.dfold.dstepLog, dpart] at h1
              cases h1
              simp [C01.emitOfPart] at ht
            | rest v =>
              simp only [Tok.parts, C01.dfold.dstepLog, dpart] at h1
              cases h1
              simp [C01.emitOfPart] at ht
            | pad | sta | sto | trk _ | val _ | vel _ | note _ _ _ _ | tsig _ _ =>
              exact dstepLog_tsig_time c _ d d1 log1 (InBar.parts_still _ (by simp [InBar.tokStill])) h1 t n dd ht
          omega
        · have := i2 t n dd ht
          omega

/-- the messages an emission writes -/
def emitAll : C01.Emit → List Msg
  | .barEnd t => [Msg.mkInternal 0 t]
  | .note _ p v on off => [Msg.mkOn 0 p v on, Msg.mkOff 0 p off]
  | .tsig t n d => [Msg.mkTimeSig 0 n d t]

theorem mem_insort_iff (l : List Msg) (m x : Msg) : x ∈ insort l m ↔ x = m ∨ x ∈ l := by
  rw [(insort_perm l m).mem_iff, List.mem_cons]

theorem seq_mem (n : Nat) : ∀ (log : List C01.Emit) (i : Nat) (s : List Msg),
    (log.foldl C01.applyEmit (List.replicate n []))[i]? = some s →
    (∀ m ∈ s, ∃ e ∈ log, m ∈ emitAll e) ∧ ∀ t, C01.Emit.barEnd t ∈ log → Msg.mkInternal 0 t ∈ s := by
  intro log
  induction log using rev_ind with
  | h0 =>
    intro i s hs
    simp only [List.foldl_nil, List.getElem?_replicate] at hs
    split at hs
    · cases hs; exact ⟨by simp, by simp⟩
    · cases hs
  | h1 log e ih =>
    intro i s hs
    rw [List.foldl_append, List.foldl_cons, List.foldl_nil] at hs
    generalize log.foldl C01.applyEmit (List.replicate n []) = seqs at ih hs
    have lift : ∀ s0, seqs[i]? = some s0 → (∀ x, x ∈ s ↔ (x ∈ s0 ∨ (x ∈ emitAll e ∧ x ∈ s))) →
        (∀ x ∈ emitAll e, (∃ t, e = C01.Emit.barEnd t) → x ∈ s) →
        (∀ m ∈ s, ∃ e' ∈ log ++ [e], m ∈ emitAll e') ∧ ∀ t, C01.Emit.barEnd t ∈ log ++ [e] → Msg.mkInternal 0 t ∈ s := by
      intro s0 hs0 hiff hbar
      obtain ⟨g1, g2⟩ := ih i s0 hs0
      refine ⟨?_, ?_⟩
      · intro m hm
        rcases (hiff m).1 hm with h | h
        · obtain ⟨e', he', hme'⟩ := g1 m h
          exact ⟨e', List.mem_append_left _ he', hme'⟩
        · exact ⟨e, by simp, h.1⟩
      · intro t ht
        rcases List.mem_append.1 ht with ht | ht
        · exact (hiff _).2 (Or.inl (g2 t ht))
        · simp only [List.mem_cons, List.not_mem_nil, or_false] at ht
          subst ht
          exact hbar _ (by simp [emitAll]) ⟨t, rfl⟩
    cases e with
    | barEnd t =>
      simp only [C01.applyEmit, List.getElem?_map, Option.map_eq_some_iff] at hs
      obtain ⟨s0, hs0, rfl⟩ := hs
      refine lift s0 hs0 ?_ ?_
      · intro x; rw [mem_insort_iff]; simp only [emitAll, List.mem_cons, List.not_mem_nil, or_false]
        constructor
        · rintro (h | h)
          · exact Or.inr ⟨h, Or.inl h⟩
          · exact Or.inl h
        · rintro (h | ⟨h, _⟩)
          · exact Or.inr h
          · exact Or.inl h
      · intro x hx _
        simp only [emitAll, List.mem_cons, List.not_mem_nil, or_false] at hx
        rw [mem_insort_iff]; exact Or.inl hx
    | tsig t a b =>
      simp only [C01.applyEmit, getElem?_addAbs] at hs
      split at hs
      · rw [Option.map_eq_some_iff] at hs
        obtain ⟨s0, hs0, rfl⟩ := hs
        refine lift s0 hs0 ?_ (fun x _ h => by obtain ⟨t', ht'⟩ := h; cases ht')
        intro x; rw [mem_insort_iff]; simp only [emitAll, List.mem_cons, List.not_mem_nil, or_false]
        constructor
        · rintro (h | h)
          · exact Or.inr ⟨h, Or.inl h⟩
          · exact Or.inl h
        · rintro (h | ⟨h, _⟩)
          · exact Or.inr h
          · exact Or.inl h
      · refine lift s hs (fun x => ⟨fun h => Or.inl h, fun h => h.elim id (fun h => h.2)⟩)
          (fun x _ h => by obtain ⟨t', ht'⟩ := h; cases ht')
    | note trk p v on off =>
      simp only [C01.applyEmit, getElem?_addAbs] at hs
      by_cases hj : trk.toNat = i
      · simp only [hj, if_true, Option.map_map, Option.map_eq_some_iff, Function.comp] at hs
        obtain ⟨s0, hs0, rfl⟩ := hs
        refine lift s0 hs0 ?_ (fun x _ h => by obtain ⟨t', ht'⟩ := h; cases ht')
        intro x; rw [mem_insort_iff, mem_insort_iff]
        simp only [emitAll, List.mem_cons, List.not_mem_nil, or_false]
        constructor
        · rintro (h | h | h)
          · exact Or.inr ⟨Or.inr h, Or.inl h⟩
          · exact Or.inr ⟨Or.inl h, Or.inr (Or.inl h)⟩
          · exact Or.inl h
        · rintro (h | ⟨h | h, _⟩)
          · exact Or.inr (Or.inr h)
          · exact Or.inr (Or.inl h)
          · exact Or.inl h
      · simp only [hj, if_false] at hs
        refine lift s hs (fun x => ⟨fun h => Or.inl h, fun h => h.elim id (fun h => h.2)⟩)
          (fun x _ h => by obtain ⟨t', ht'⟩ := h; cases ht')

theorem durAbs_bounds (s : List Msg) (C : Int) (hs : Sorted s) (hle : ∀ m ∈ s, 0 ≤ m.time ∧ m.time ≤ C)
    (hex : C = 0 ∨ ∃ m ∈ s, m.time = C) : durAbs s = C := by
  rcases hex with h0 | hex
  · subst h0
    cases hl : s.getLast? with
    | none => simp [durAbs, hl]
    | some m =>
      have hm : m ∈ s := List.mem_of_getLast? hl
      have := hle m hm
      simp only [durAbs, hl]; omega
  · exact durAbs_of_max s C hs (fun e he => (hle e he).2) hex

theorem notesGo_off_src (l : List Msg) : ∀ (os : List Msg), ∀ n ∈ notesGo l os, ∃ f ∈ l, n.off = f.time := by
  induction l with
  | nil => intro os n hn; simp [notesGo] at hn
  | cons m ms ih =>
    intro os n hn
    by_cases hon : m.ty = .noteOn
    · rw [notesGo_on hon] at hn
      obtain ⟨f, hf, h⟩ := ih _ n hn
      exact ⟨f, List.mem_cons_of_mem _ hf, h⟩
    · by_cases hoff : m.ty = .noteOff
      · cases hf : os.find? (fun o => o.nkey == m.nkey) with
        | none =>
          rw [notesGo_off_none hoff ms os hf] at hn
          obtain ⟨f, hf', h⟩ := ih _ n hn
          exact ⟨f, List.mem_cons_of_mem _ hf', h⟩
        | some x =>
          rw [notesGo_off_some hoff ms os hf] at hn
          rcases List.mem_cons.1 hn with rfl | hn
          · exact ⟨m, List.mem_cons_self, rfl⟩
          · obtain ⟨f, hf', h⟩ := ih _ n hn
            exact ⟨f, List.mem_cons_of_mem _ hf', h⟩
      · rw [notesGo_other hon hoff] at hn
        obtain ⟨f, hf, h⟩ := ih _ n hn
        exact ⟨f, List.mem_cons_of_mem _ hf, h⟩

/-- a note of the piece lies between tick 0 and the end of the piece -/
theorem pieceNotes_bounds (tracks : List (List Msg)) (hok : ∀ t ∈ tracks, OkRel t) :
    ∀ n ∈ pieceNotes tracks, 0 ≤ n.on ∧ n.off ≤ pieceEnd tracks := by
  intro n hn
  simp only [pieceNotes, List.mem_flatMap] at hn
  obtain ⟨x, hx, hnx⟩ := hn
  have hr : x.1 ∈ tracks := List.mem_of_getElem? (mem_zipIdx_get hx)
  have hb : ∀ e ∈ trackEvents x.2 x.1, 0 ≤ e.time ∧ e.time ≤ pieceEnd tracks := by
    intro e he
    simp only [trackEvents, List.mem_map] at he
    obtain ⟨e0, he0, rfl⟩ := he
    have := eventsRelGo_bounds x.1 0 (hok _ hr).1 e0 he0
    have := durRel_le_pieceEnd tracks x.1 hr
    simp only [durRel] at this
    simp only; omega
  obtain ⟨o, ho, _, _, h3, _⟩ := notesGo_src _ [] n hnx
  obtain ⟨f, hf, h4⟩ := notesGo_off_src _ [] n hnx
  rcases ho with ho | ho
  · rw [h3, h4]; exact ⟨(hb o ho).1, (hb f hf).2⟩
  · simp at ho

/-! ## single-channel tracks: re-tagging the channel commutes with reading the notes -/

theorem find?_congr_mem {α} {p q : α → Bool} : ∀ {l : List α}, (∀ x ∈ l, p x = q x) → l.find? p = l.find? q
  | [], _ => rfl
  | a :: l, h => by
    rw [List.find?_cons, List.find?_cons, h a List.mem_cons_self,
      find?_congr_mem (fun x hx => h x (List.mem_cons_of_mem _ hx))]

/-- all note messages of the list are on channel `ch0` -/
def OneChannel (ch0 : Int) (l : List Msg) : Prop := ∀ m ∈ l, (m.ty = .noteOn ∨ m.ty = .noteOff) → m.ch = ch0

theorem notesGo_reTag (i ch0 : Int) (l : List Msg) : ∀ (os : List Msg), OneChannel ch0 l → (∀ o ∈ os, o.ch = ch0) →
    notesGo (l.map (fun m => { m with ch := i })) (os.map (fun m => { m with ch := i }))
      = (notesGo l os).map (fun n => { n with ch := i }) := by
  induction l with
  | nil => intro os _ _; rfl
  | cons m ms ih =>
    intro os h1 h2
    have h1' : OneChannel ch0 ms := fun x hx => h1 x (List.mem_cons_of_mem _ hx)
    have key : ∀ o ∈ os, (m.ty = .noteOn ∨ m.ty = .noteOff) →
        ((({ o with ch := i } : Msg).nkey == ({ m with ch := i } : Msg).nkey) = (o.nkey == m.nkey)) := by
      intro o ho hm
      have e1 := h2 o ho
      have e2 := h1 m List.mem_cons_self hm
      rw [Bool.eq_iff_iff]
      simp only [Msg.nkey, beq_iff_eq, Prod.mk.injEq, e1, e2, true_and]
    rw [List.map_cons]
    by_cases hon : m.ty = .noteOn
    · rw [notesGo_on (m := { m with ch := i }) hon, notesGo_on hon]
      have hf : (os.map (fun m => { m with ch := i })).filter (fun o => o.nkey != ({ m with ch := i } : Msg).nkey)
          = (os.filter (fun o => o.nkey != m.nkey)).map (fun m => { m with ch := i }) := by
        rw [List.filter_map]
        congr 1
        apply List.filter_congr
        intro o ho
        simp only [Function.comp, bne, key o ho (Or.inl hon)]
      rw [hf]
      refine ih (m :: os.filter (fun o => o.nkey != m.nkey)) h1' ?_
      intro o ho
      rcases List.mem_cons.1 ho with rfl | ho
      · exact h1 _ List.mem_cons_self (Or.inl hon)
      · exact h2 o (List.mem_filter.1 ho).1
    · by_cases hoff : m.ty = .noteOff
      · have hfind : (os.map (fun m => { m with ch := i })).find? (fun o => o.nkey == ({ m with ch := i } : Msg).nkey)
            = (os.find? (fun o => o.nkey == m.nkey)).map (fun m => { m with ch := i }) := by
          rw [List.find?_map]
          congr 1
          apply find?_congr_mem
          intro o ho
          simp only [Function.comp, key o ho (Or.inr hoff)]
        have hf : (os.map (fun m => { m with ch := i })).filter (fun o => o.nkey != ({ m with ch := i } : Msg).nkey)
            = (os.filter (fun o => o.nkey != m.nkey)).map (fun m => { m with ch := i }) := by
          rw [List.filter_map]
          congr 1
          apply List.filter_congr
          intro o ho
          simp only [Function.comp, bne, key o ho (Or.inr hoff)]
        cases hf0 : os.find? (fun o => o.nkey == m.nkey) with
        | none =>
          rw [hf0] at hfind
          rw [notesGo_off_none (m := { m with ch := i }) hoff _ _ hfind, notesGo_off_none hoff _ _ hf0]
          exact ih os h1' h2
        | some x =>
          rw [hf0] at hfind
          rw [notesGo_off_some (m := { m with ch := i }) hoff _ _ hfind, notesGo_off_some hoff _ _ hf0, hf]
          rw [List.map_cons, ih _ h1' (fun o ho => h2 o (List.mem_filter.1 ho).1)]
      · rw [notesGo_other (m := { m with ch := i }) hon hoff, notesGo_other hon hoff]
        exact ih os h1' h2

/-- for a single-channel track, the notes of track number `i` are the notes of the track's relative list
    with the channel replaced by `i` -/
theorem trackNotes_single (i : Nat) (ch0 : Int) (r : List Msg) (h : OneChannel ch0 r) :
    trackNotes i r = (notesOf (eventsRel r)).map (fun n => { n with ch := (i : Int) }) := by
  have h' : OneChannel ch0 (eventsRel r) := by
    intro e he hty
    obtain ⟨m, hm, _, t, rfl⟩ := GlueAux.eventsRelGo_src r 0 e he
    exact h m hm hty
  have := notesGo_reTag (i : Int) ch0 (eventsRel r) [] h' (by simp)
  simpa [trackNotes, trackEvents, notesOf] using this

/-! ## small facts used by `Props/C01c.lean` -/

theorem binIndex_lt (bins : List Int) (v : Int) (h : ∃ b ∈ bins, v ≤ b) : binIndex bins v < bins.length := by
  unfold binIndex
  rw [List.length_filter_lt_length_iff_exists]
  obtain ⟨b, hb, hvb⟩ := h
  exact ⟨b, hb, by simpa using hvb⟩

theorem evNote_some {ev : Int × Pairing} {n : Note} (h : evNote ev = some n) :
    ∃ on off, ev.2 = [on, off] ∧ n = { ch := on.ch, pitch := on.note, on := on.time, off := off.time, vel := on.vel } := by
  obtain ⟨e1, e2⟩ := ev
  match e2 with
  | [] => simp [evNote] at h
  | [_] => simp [evNote] at h
  | [on, off] => exact ⟨on, off, rfl, by simpa [evNote] using h.symm⟩
  | _ :: _ :: _ :: _ => simp [evNote] at h

end SCoda.ExtractL
