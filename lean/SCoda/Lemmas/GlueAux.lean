/-
  Stage-by-stage facts about the glue `extract`: where the messages of `toAbs`, `toRel`,
  `normalise` come from (channel and time-signature provenance) and that `toAbs ∘ normalise`
  only produces non-negative ticks.
-/
import SCoda.Lemmas.Conv
import SCoda.Model.Extract
namespace SCoda.GlueAux
open SCoda

/-- `x` is a copy of `m` as far as time signatures are concerned -/
def TsFrom (m x : Msg) : Prop :=
  x.ty = .timeSignature → m.ty = .timeSignature ∧ m.num = x.num ∧ m.den = x.den

/-- `x` stems from a message of `l`: same channel, and a time signature is a copied one -/
def Src (l : List Msg) (x : Msg) : Prop := ∃ m ∈ l, x.ch = m.ch ∧ TsFrom m x

theorem TsFrom.refl (m : Msg) : TsFrom m m := fun h => ⟨h, rfl, rfl⟩

theorem TsFrom.trans {a b c : Msg} (h1 : TsFrom a b) (h2 : TsFrom b c) : TsFrom a c := by
  intro h
  obtain ⟨hb, hn, hd⟩ := h2 h
  obtain ⟨ha, hn', hd'⟩ := h1 hb
  exact ⟨ha, hn'.trans hn, hd'.trans hd⟩

theorem Src.of_mem {l : List Msg} {x : Msg} (h : x ∈ l) : Src l x := ⟨x, h, rfl, TsFrom.refl x⟩

theorem Src.trans {l1 l2 : List Msg} {y : Msg} (h : ∀ x ∈ l2, Src l1 x) (hy : Src l2 y) :
    Src l1 y := by
  obtain ⟨x, hx, hc, ht⟩ := hy
  obtain ⟨m, hm, hc', ht'⟩ := h x hx
  exact ⟨m, hm, hc.trans hc', ht'.trans ht⟩

/-! ### `toAbs` -/

theorem eventsRelGo_src (r : List Msg) : ∀ (cur : Int), ∀ e ∈ eventsRelGo cur r,
    ∃ m ∈ r, m.ty ≠ .wait ∧ ∃ t, e = { m with time := t } := by
  induction r with
  | nil => intro cur e he; simp [eventsRelGo] at he
  | cons m ms ih =>
    intro cur e he
    by_cases hw : m.ty = .wait
    · simp only [eventsRelGo, hw, beq_self_eq_true, if_true] at he
      obtain ⟨x, hx, h1, h2⟩ := ih _ e he
      exact ⟨x, List.mem_cons_of_mem _ hx, h1, h2⟩
    · simp [eventsRelGo, hw] at he
      rcases he with rfl | he
      · exact ⟨m, by simp, hw, cur, rfl⟩
      · obtain ⟨x, hx, h1, h2⟩ := ih _ e he
        exact ⟨x, List.mem_cons_of_mem _ hx, h1, h2⟩

theorem foldl_toAbsStep_defCh (r : List Msg) : ∀ (s : ToAbsSt),
    (r.foldl toAbsStep s).defCh =
      match s.defCh with | some c => some c | none => r.head?.map (·.ch) := by
  induction r with
  | nil => intro s; cases h : s.defCh <;> simp [h]
  | cons m ms ih =>
    intro s
    rw [List.foldl_cons, ih]
    by_cases hw : m.ty = .wait <;> cases h : s.defCh <;> simp [toAbsStep, hw, h]

/-- every message of `toAbs r` is a re-timed non-wait message of `r`, or the INTERNAL cap on
    the channel of a message of `r` -/
theorem toAbs_mem (r : List Msg) : ∀ x ∈ toAbs r,
    (∃ m ∈ r, m.ty ≠ .wait ∧ ∃ t, x = { m with time := t }) ∨
    (∃ m ∈ r, ∃ t, x = Msg.mkInternal m.ch t) := by
  intro x hx
  rw [toAbs_eq] at hx
  have hev : x ∈ sortAbs (eventsRel r) →
      (∃ m ∈ r, m.ty ≠ .wait ∧ ∃ t, x = { m with time := t }) := by
    intro h
    rw [mem_sortAbs] at h
    exact eventsRelGo_src r 0 x h
  split at hx
  · exact Or.inl (hev hx)
  · rename_i hcap
    rcases List.mem_cons.1 ((insort_perm _ _).mem_iff.1 hx) with rfl | hx
    · right
      cases r with
      | nil => simp at hcap
      | cons a t =>
        refine ⟨a, by simp, totalWait (a :: t), ?_⟩
        rw [foldl_toAbsStep_defCh]
        simp
    · exact Or.inl (hev hx)

theorem toAbs_src (r : List Msg) : ∀ x ∈ toAbs r, Src r x := by
  intro x hx
  rcases toAbs_mem r x hx with ⟨m, hm, _, t, rfl⟩ | ⟨m, hm, t, rfl⟩
  · exact ⟨m, hm, rfl, fun h => ⟨h, rfl, rfl⟩⟩
  · exact ⟨m, hm, rfl, fun h => by simp [Msg.mkInternal] at h⟩

theorem totalWait_nonneg (l : List Msg) (h : NonNegWaits l) : 0 ≤ totalWait l := by
  induction l with
  | nil => simp [totalWait]
  | cons y ys ih =>
    have := ih (fun x hx => h x (List.mem_cons_of_mem _ hx))
    simp only [totalWait]
    split
    · rename_i hyw
      have := h y (by simp) (by simpa using hyw)
      omega
    · omega

theorem toAbs_nonneg (r : List Msg) (h : NonNegWaits r) : ∀ x ∈ toAbs r, 0 ≤ x.time := by
  intro x hx
  rw [toAbs_eq] at hx
  have hev : x ∈ sortAbs (eventsRel r) → 0 ≤ x.time := by
    intro hx
    rw [mem_sortAbs] at hx
    exact (eventsRelGo_bounds r 0 h x hx).1
  split at hx
  · exact hev hx
  · rcases List.mem_cons.1 ((insort_perm _ _).mem_iff.1 hx) with rfl | hx
    · simpa [Msg.mkInternal] using totalWait_nonneg r h
    · exact hev hx

/-! ### `toRel` -/

theorem toRelGo_src (l : List Msg) : ∀ (cur : Int), ∀ x ∈ toRelGo cur l, Src l x := by
  induction l with
  | nil => intro cur x hx; simp [toRelGo] at hx
  | cons m ms ih =>
    intro cur x hx
    simp only [toRelGo, List.mem_append] at hx
    rcases hx with (hx | hx) | hx
    · split at hx
      · simp at hx; subst hx
        exact ⟨m, by simp, rfl, fun h => by simp [Msg.mkWait] at h⟩
      · simp at hx
    · split at hx
      · simp at hx; subst hx
        exact ⟨m, by simp, rfl, fun h => ⟨h, rfl, rfl⟩⟩
      · simp at hx
    · obtain ⟨y, hy, h1, h2⟩ := ih _ x hx
      exact ⟨y, List.mem_cons_of_mem _ hy, h1, h2⟩

theorem toRel_src (a : List Msg) : ∀ x ∈ toRel a, Src a x := toRelGo_src a 0

/-! ### `normalise` -/

/-- what the `out` buffer of the normalise loop contains -/
def OutOk (seen : List Msg) (out : List (Option Nat × Msg)) : Prop :=
  ∀ e ∈ out, (e.2 ∈ seen ∧ e.2.ty ≠ .wait) ∨ ∃ m ∈ seen, ∃ t, 0 < t ∧ e.2 = Msg.mkWait m.ch t

theorem OutOk.mono {seen seen' : List Msg} {out} (h : OutOk seen out) (hs : ∀ x ∈ seen, x ∈ seen') :
    OutOk seen' out := by
  intro e he
  rcases h e he with ⟨h1, h2⟩ | ⟨m, hm, t, ht, h3⟩
  · exact Or.inl ⟨hs _ h1, h2⟩
  · exact Or.inr ⟨m, hs _ hm, t, ht, h3⟩

theorem normStep_out (s : NormSt) (m : Msg) :
    (normStep s m).out = s.out ∨
    (m.ty ≠ .wait ∧ (normStep s m).out =
      (some s.idx, m) :: (if s.wbuf > 0 then (none, Msg.mkWait m.ch s.wbuf) :: s.out else s.out)) := by
  unfold normStep
  cases hty : m.ty <;> simp only [NormSt.emit] <;> (repeat' split) <;> simp

theorem normStep_defCh (s : NormSt) (m : Msg) :
    (normStep s m).defCh = some (match s.defCh with | some c => c | none => m.ch) := by
  unfold normStep
  cases hty : m.ty <;> simp only [NormSt.emit] <;> (repeat' split) <;> simp_all

theorem foldl_normStep_inv (r : List Msg) : ∀ (seen : List Msg) (s : NormSt),
    OutOk seen s.out → (∀ c, s.defCh = some c → ∃ m ∈ seen, m.ch = c) →
    (s.defCh = none → s.wbuf = 0) →
    OutOk (seen ++ r) (r.foldl normStep s).out ∧
    (∀ c, (r.foldl normStep s).defCh = some c → ∃ m ∈ seen ++ r, m.ch = c) ∧
    ((r.foldl normStep s).defCh = none → (r.foldl normStep s).wbuf = 0) := by
  induction r with
  | nil => intro seen s h1 h2 h3; simpa using ⟨h1, h2, h3⟩
  | cons m ms ih =>
    intro seen s h1 h2 h3
    rw [List.foldl_cons]
    have := ih (seen ++ [m]) (normStep s m) ?_ ?_ ?_
    · simpa using this
    · have h1' : OutOk (seen ++ [m]) s.out := h1.mono (fun x hx => by simp [hx])
      rcases normStep_out s m with h | ⟨hw, h⟩
      · rw [h]; exact h1'
      · rw [h]
        intro e he
        rcases List.mem_cons.1 he with rfl | he
        · exact Or.inl ⟨by simp, hw⟩
        · split at he
          · rename_i hpos
            rcases List.mem_cons.1 he with rfl | he
            · exact Or.inr ⟨m, by simp, s.wbuf, hpos, rfl⟩
            · exact h1' e he
          · exact h1' e he
    · intro c hc
      rw [normStep_defCh] at hc
      cases hd : s.defCh with
      | none => simp [hd] at hc; exact ⟨m, by simp, hc⟩
      | some c' =>
        simp [hd] at hc
        obtain ⟨x, hx, hxc⟩ := h2 c' hd
        exact ⟨x, by simp [hx], hxc.trans hc⟩
    · intro hnone
      rw [normStep_defCh] at hnone
      simp at hnone

/-- every message of `normalise r` is a non-wait message of `r` or a fresh positive wait on the
    channel of a message of `r` -/
theorem normalise_mem (r : List Msg) : ∀ x ∈ normalise r,
    (x ∈ r ∧ x.ty ≠ .wait) ∨ ∃ m ∈ r, ∃ t, 0 < t ∧ x = Msg.mkWait m.ch t := by
  intro x hx
  obtain ⟨h1, h2, h3⟩ := foldl_normStep_inv r [] {} (by intro e he; simp at he)
    (by intro c hc; simp at hc) (by intro _; rfl)
  simp only [List.nil_append] at h1 h2 h3
  simp only [normalise, List.mem_map, List.mem_filter, List.mem_reverse] at hx
  obtain ⟨e, ⟨he, _⟩, rfl⟩ := hx
  split at he
  · rename_i hpos
    rcases List.mem_cons.1 he with rfl | he
    · right
      cases hd : (r.foldl normStep {}).defCh with
      | none => have := h3 hd; omega
      | some c =>
        obtain ⟨m, hm, hmc⟩ := h2 c hd
        exact ⟨m, hm, _, hpos, by simp [hmc]⟩
    · exact h1 e he
  · exact h1 e he

theorem normalise_src (r : List Msg) : ∀ x ∈ normalise r, Src r x := by
  intro x hx
  rcases normalise_mem r x hx with ⟨h, _⟩ | ⟨m, hm, t, _, rfl⟩
  · exact Src.of_mem h
  · exact ⟨m, hm, rfl, fun h => by simp [Msg.mkWait] at h⟩

theorem normalise_nonNegWaits (r : List Msg) : NonNegWaits (normalise r) := by
  intro x hx hw
  rcases normalise_mem r x hx with ⟨_, h⟩ | ⟨m, _, t, ht, rfl⟩
  · exact absurd hw h
  · simp [Msg.mkWait]; omega

/-! ### the list handed to the pairing code -/

/-- the absolute list `extract` reads its pairings from -/
def final (tracks : List (List Msg)) : List Msg :=
  toAbs (normalise (toRel (mergeAbs []
    (tracks.zipIdx.map (fun (r, i) => toAbs (setChannel (i : Int) r))))))

theorem extract_eq (ppqn : Int) (tracks : List (List Msg)) :
    extract ppqn tracks = interleaved extractTypes ppqn true (final tracks) := rfl

theorem final_nonneg (tracks : List (List Msg)) : ∀ x ∈ final tracks, 0 ≤ x.time :=
  toAbs_nonneg _ (normalise_nonNegWaits _)

theorem final_src (tracks : List (List Msg)) : ∀ x ∈ final tracks,
    ∃ (i : Nat), i < tracks.length ∧ x.ch = (i : Int) ∧
      ∃ t ∈ tracks, ∃ m ∈ t, TsFrom m x := by
  intro x hx
  have h1 : Src _ x := Src.trans (toRel_src _) (Src.trans (normalise_src _) (toAbs_src _ x hx))
  obtain ⟨y, hy, hc, ht⟩ := h1
  simp only [mergeAbs, List.nil_append] at hy
  rw [mem_sortAbs] at hy
  simp only [List.mem_flatten, List.mem_map] at hy
  obtain ⟨l, ⟨⟨r, i⟩, hri, rfl⟩, hyl⟩ := hy
  obtain ⟨z, hz, hc', ht'⟩ := toAbs_src _ y hyl
  simp only [setChannel, List.mem_map] at hz
  obtain ⟨m, hm, rfl⟩ := hz
  have hi := List.mem_zipIdx_iff_getElem?.1 hri
  have hlt : i < tracks.length := by
    rcases Nat.lt_or_ge i tracks.length with h | h
    · exact h
    · simp [List.getElem?_eq_none h] at hi
  refine ⟨i, hlt, by rw [hc, hc'], r, List.mem_of_getElem? hi, m, hm, ?_⟩
  exact TsFrom.trans (fun h => ⟨h, rfl, rfl⟩) (ht'.trans ht)

end SCoda.GlueAux
