/-
  Helper lemmas for `Props/Strong589` (audit item A6 / C09): one bar length split off a track, and a whole
  per-track run of `sequences_split_bars`, under the exact D18b hypothesis (a zero-length note is only harmful
  when it sits on a bar line), with the notes of every key followed through.
-/
import SCoda.Lemmas.Strong589L
import SCoda.Lemmas.SplitBarsQ
import SCoda.Props.C09
import SCoda.Lemmas.Strong589LB
namespace SCoda.Strong589LT
open SCoda SCoda.SplitL SCoda.SB SCoda.BarL SCoda.Strong589L SCoda.Strong589LB

variable {B : List Int}

/-! ### splitting off one capacity -/

/-- notes through `split r [c]` read from clock `a`, when no zero-length note of `r` sits on a tick of `B` and
    `a + c ∈ B`: the pieces are well-formed with non-negative waits, laid end to end they have the depth of `r`
    at every tick and, key by key, the notes of `r` cut at `a + c`; a remainder again has no zero-length note on `B` -/
theorem split_one_notesB (r : List Msg) (c : Int) (pieces : List (List Msg)) (h : split r [c] = .ok pieces)
    (hc : 0 < c) (hw : NonNegWaits r) (hwf : WF r) (a : Int) (hb : a + c ∈ B) (hz : ∀ k, zlB B k false a r)
    (k : Int × Int) (t : Int) :
    (∀ p ∈ pieces, WF p ∧ NonNegWaits p) ∧ (∀ d, Dp k t a pieces.flatten d = Dp k t a r d) ∧
    nkNotes k (eventsRelGo a pieces.flatten) none = (nkNotes k (eventsRelGo a r) none).flatMap (cut1 (a + c)) ∧
    (∀ p q tl, pieces = p :: q :: tl → ∀ k', zlB B k' false (a + c) q) := by
  obtain ⟨s, hs, rfl⟩ := split_eq r [c] pieces h
  have h1 := splitOuter_one hs
  obtain ⟨hc1, _, hw1, np, hp1, hl1, _⟩ := splitInner_timing c 0 hc _ _ s rfl rfl hw h1
  obtain ⟨hA, np', hp1', _, hwfn, hD, hN⟩ :=
    splitInner_notesB k t c a hc hb _ _ s rfl rfl hw (AltOB.init a r hwf hz) h1
  simp only [List.append_nil] at hp1 hp1' hD hN
  rw [hp1] at hp1'
  subst hp1'
  rw [R_snd_eq, R_snd_eq, List.nil_append, List.nil_append] at hN
  rw [hc1, hp1]
  simp only [List.reverse_nil, List.nil_append]
  have hrev : np.reverse = np := reverse_short np hl1
  by_cases hwm : s.wm = []
  · simp only [hwm, if_true, List.append_nil] at hD hN ⊢
    rw [hrev]
    refine ⟨hwfn, hD, hN, ?_⟩
    intro p q tl hpq
    rw [hpq] at hl1; simp at hl1
  · simp only [hwm, if_false, List.reverse_cons, hrev]
    refine ⟨?_, by simpa using hD, by simpa using hN, ?_⟩
    · intro p hp
      rcases List.mem_append.1 hp with hp | hp
      · exact hwfn p hp
      · simp only [List.mem_singleton] at hp
        subst hp
        exact ⟨hA.wf, hw1⟩
    · intro p q tl hpq k'
      have hq : q = s.wm := by
        rcases np with _ | ⟨p', _ | ⟨q', tl'⟩⟩
        · simp at hpq
        · simp only [List.cons_append, List.nil_append, List.cons.injEq] at hpq
          exact hpq.2.1.symm
        · simp at hl1
      rw [hq]
      exact (hA.key k').1

/-! ### one round of a track -/

/-- what one round does to a track read from clock `a`: the track sounds like its first piece followed by the
    remainder one bar length later, and has — key by key — the notes of `first ++ remainder` once cut at the bar line -/
theorem trackStep_notesB {ppqn : Int} {values : List Int} {requant : Bool} {g : Sg} {t : List Msg}
    {o : Bool × List Msg × Bar} (h : trackStep ppqn values requant g t = .ok o) (hc : 0 < sgLen ppqn g)
    (hw : NonNegWaits t) (hwf : WF t) (a : Int) (hb : a + sgLen ppqn g ∈ B) (hz : ∀ k, zlB B k false a t) :
    ∃ first piece, requantPiece values ppqn requant first = .ok piece ∧
      mkBar ppqn piece g.1 g.2.1 g.2.2 = .ok o.2.2 ∧ WF first ∧ NonNegWaits first ∧
      WF o.2.1 ∧ NonNegWaits o.2.1 ∧ (∀ k', zlB B k' false (a + sgLen ppqn g) o.2.1) ∧
      totalWait first ≤ sgLen ppqn g ∧ (o.2.1 ≠ [] → totalWait first = sgLen ppqn g) ∧
      ∀ (k : Int × Int) (tick : Int),
        (Snd k tick a t ↔ Snd k tick a first ∨ Snd k tick (a + sgLen ppqn g) o.2.1) ∧
        nkNotes k (eventsRelGo a (first ++ o.2.1)) none
          = (nkNotes k (eventsRelGo a t) none).flatMap (cut1 (a + sgLen ppqn g)) := by
  obtain ⟨pieces, first, piece, hs, hrq, hmk, hcase⟩ := trackStep_spec h
  refine ⟨first, piece, hrq, hmk, ?_⟩
  have hAll := fun k tick => split_one_notesB t _ pieces hs hc hw hwf a hb hz k tick
  obtain ⟨hP, _, _, hZ⟩ := hAll (0, 0) 0
  have hD : ∀ k tick, Snd k tick a t ↔ Snd k tick a pieces.flatten := by
    intro k tick
    unfold Snd
    rw [(hAll k tick).2.1 0]
  have hN := fun k => (hAll k 0).2.2.1
  have hznil : ∀ k', zlB B k' false (a + sgLen ppqn g) [] := fun _ => trivial
  rcases split_one t _ pieces hs hc hw with ⟨hle, hp', hdur⟩ | ⟨_, p, q, hp', hdp, _, _⟩
  · -- the track fits into the bar
    rcases hcase with ⟨hp, hf, _, hr⟩ | ⟨hp, _, hr⟩ | ⟨tl, hp, _⟩
    · subst hp hf
      rw [hr]
      refine ⟨wf_nil, nnw_nil, wf_nil, nnw_nil, hznil, by simp [totalWait]; omega, by simp, ?_⟩
      intro k tick
      refine ⟨?_, ?_⟩
      · rw [hD]; simp [snd_nil]
      · simpa using hN k
    · subst hp
      rw [hr]
      obtain ⟨h1, h2⟩ := hP first (by simp)
      refine ⟨h1, h2, wf_nil, nnw_nil, hznil, ?_, by simp, ?_⟩
      · unfold durRel at hdur hle
        simp only [List.flatten_cons, List.flatten_nil, List.append_nil] at hdur
        omega
      · intro k tick
        refine ⟨?_, ?_⟩
        · rw [hD]; simp [snd_nil]
        · simpa using hN k
    · rcases hp' with hp' | ⟨p, hp'⟩ <;> simp [hp'] at hp
  · rcases hcase with ⟨hp, _⟩ | ⟨hp, _⟩ | ⟨tl, hp, _⟩
    · rw [hp'] at hp; simp at hp
    · rw [hp'] at hp; simp at hp
    · rw [hp'] at hp
      simp only [List.cons.injEq] at hp
      obtain ⟨rfl, rfl, _⟩ := hp
      obtain ⟨h1, h2⟩ := hP p (by simp [hp'])
      obtain ⟨h3, h4⟩ := hP o.2.1 (by simp [hp'])
      unfold durRel at hdp
      refine ⟨h1, h2, h3, h4, hZ p o.2.1 [] hp', by omega, fun _ => hdp, ?_⟩
      intro k tick
      refine ⟨?_, ?_⟩
      · rw [hD, hp']
        simp only [List.flatten_cons, List.flatten_nil, List.append_nil]
        rw [snd_append k tick a p o.2.1 h3 h4, hdp]
      · have := hN k
        rw [hp'] at this
        simpa using this

/-! ### sounding through a per-track run -/

/-- **sounding through a run**, boundary version: the bars laid end to end, followed by what is left of the track,
    sound like the track — given that every bar sounds like the piece it was built from, and that no zero-length
    note of the track sits on a bar line (`B` holds the bar lines from clock `a` on) -/
theorem trackRun_sndB (ppqn : Int) (values : List Int) (requant : Bool) (k : Int × Int) (tick : Int)
    (hbar : ∀ (first piece : List Msg) (g : Sg) (bar : Bar) (a : Int), WF first → NonNegWaits first →
      requantPiece values ppqn requant first = .ok piece → mkBar ppqn piece g.1 g.2.1 g.2.2 = .ok bar →
      (Snd k tick a bar.seq ↔ Snd k tick a first)) :
    ∀ (gs : List Sg) (t : List Msg) (tw : List Bool) (t' : List Msg) (nb : List Bar) (a : Int),
    trackRun ppqn values requant gs t = .ok (tw, t', nb) → (∀ g ∈ gs, 0 < sgLen ppqn g) →
    NonNegWaits t → WF t → (∀ b ∈ cums a (gs.map (sgLen ppqn)), b ∈ B) → (∀ k', zlB B k' false a t) →
    WF (barsToSeq nb ++ t') ∧ NonNegWaits (barsToSeq nb ++ t') ∧
      (Snd k tick a (barsToSeq nb ++ t') ↔ Snd k tick a t) := by
  intro gs
  induction gs with
  | nil =>
    intro t tw t' nb a h _ hw hwf _ _
    simp only [trackRun, Except.ok.injEq, Prod.mk.injEq] at h
    obtain ⟨_, rfl, rfl⟩ := h
    have e : barsToSeq ([] : List Bar) ++ t = t := by simp [barsToSeq]
    rw [e]
    exact ⟨hwf, hw, Iff.rfl⟩
  | cons g gs ih =>
    intro t tw t' nb a h hpos hw hwf hB hz
    obtain ⟨o, r, h1, h2, h3⟩ := trackRun_cons_inv h
    simp only [Prod.mk.injEq] at h3
    obtain ⟨rfl, rfl, rfl⟩ := h3
    have hc := hpos g List.mem_cons_self
    have hbc : a + sgLen ppqn g ∈ B := hB _ (by simp [cums])
    have hB' : ∀ b ∈ cums (a + sgLen ppqn g) (gs.map (sgLen ppqn)), b ∈ B := fun b hb => hB b (by simp [cums, hb])
    obtain ⟨first, piece, hrq, hmk, hfw, hfn, hrw, hrn, hrz, _, _, hkt⟩ :=
      trackStep_notesB h1 hc hw hwf a hbc hz
    have hT := (hkt k tick).1
    obtain ⟨hYw, hYn, hY⟩ := ih _ _ _ _ (a + sgLen ppqn g) h2
      (fun x hx => hpos x (List.mem_cons_of_mem _ hx)) hrn hrw hB' hrz
    obtain ⟨hbw, hbn, hbd⟩ := bar_wf_nn ppqn piece _ _ _ _ hmk
    have hcat : barsToSeq (o.2.2 :: r.2.2) ++ r.2.1 = o.2.2.seq ++ (barsToSeq r.2.2 ++ r.2.1) := by
      simp [barsToSeq]
    rw [hcat]
    refine ⟨wf_append hbw hYw, nonNegWaits_append.2 ⟨hbn, hYn⟩, ?_⟩
    rw [snd_append k tick a _ _ hYw hYn, hT]
    have hbd' : totalWait o.2.2.seq = sgLen ppqn g := hbd
    rw [hbd', hY, hbar first piece g _ a hfw hfn hrq hmk]

/-! ### the pieces behind the bars -/

/-- `firsts[j]` is the piece split off in round `j` (before re-quantisation), `bars[j]` the bar built from it -/
def BarsOf (ppqn : Int) (values : List Int) (requant : Bool) : List Sg → List (List Msg) → List Bar → Prop
  | [], [], [] => True
  | g :: gs, f :: fs, b :: bs =>
    (∃ piece, requantPiece values ppqn requant f = .ok piece ∧ mkBar ppqn piece g.1 g.2.1 g.2.2 = .ok b) ∧
    WF f ∧ NonNegWaits f ∧ (totalWait f = sgLen ppqn g ∨ (totalWait f ≤ sgLen ppqn g ∧ fs.flatten = [])) ∧
    BarsOf ppqn values requant gs fs bs
  | _, _, _ => False

theorem split_nil (c : Int) : split [] [c] = .ok [] := rfl

theorem flatten_map_nil {α β : Type} (l : List α) : (l.map (fun _ => ([] : List β))).flatten = [] := by
  induction l with
  | nil => rfl
  | cons x xs ih => simp

/-- an exhausted track yields placeholder bars only -/
theorem trackRun_firsts_nil (ppqn : Int) (values : List Int) (requant : Bool) : ∀ (gs : List Sg)
    (tw : List Bool) (t' : List Msg) (nb : List Bar), trackRun ppqn values requant gs [] = .ok (tw, t', nb) →
    (∀ g ∈ gs, 0 < sgLen ppqn g) →
    t' = [] ∧ BarsOf ppqn values requant gs (gs.map (fun _ => [])) nb := by
  intro gs
  induction gs with
  | nil =>
    intro tw t' nb h _
    simp only [trackRun, Except.ok.injEq, Prod.mk.injEq] at h
    obtain ⟨_, rfl, rfl⟩ := h
    exact ⟨rfl, trivial⟩
  | cons g gs ih =>
    intro tw t' nb h hpos
    obtain ⟨o, r, h1, h2, h3⟩ := trackRun_cons_inv h
    simp only [Prod.mk.injEq] at h3
    obtain ⟨rfl, rfl, rfl⟩ := h3
    obtain ⟨pieces, first, piece, hs, hrq, hmk, hcase⟩ := trackStep_spec h1
    rw [split_nil] at hs
    cases hs
    have hc := hpos g List.mem_cons_self
    rcases hcase with ⟨_, hf, _, hr⟩ | ⟨hp, _⟩ | ⟨tl, hp, _⟩
    · subst hf
      rw [hr] at h2
      obtain ⟨ht', hB⟩ := ih _ _ _ h2 (fun x hx => hpos x (List.mem_cons_of_mem _ hx))
      refine ⟨ht', ⟨piece, hrq, hmk⟩, wf_nil, nnw_nil, Or.inr ⟨by simp [totalWait]; omega, flatten_map_nil gs⟩, hB⟩
    · cases hp
    · cases hp

/-- the number of notes read off a relative list does not depend on the start clock -/
theorem nkNotes_length_clock (k : Int × Int) (l : List Msg) : ∀ (c c' : Int) (o o' : Option Msg), o.isSome = o'.isSome →
    (nkNotes k (eventsRelGo c l) o).length = (nkNotes k (eventsRelGo c' l) o').length := by
  induction l with
  | nil => intro c c' o o' _; rfl
  | cons m ms ih =>
    intro c c' o o' ho
    by_cases hw : m.ty = .wait
    · rw [eventsRelGo_cons_wait c m ms hw, eventsRelGo_cons_wait c' m ms hw]; exact ih _ _ _ _ ho
    · rw [eventsRelGo_cons_nowait c m ms hw, eventsRelGo_cons_nowait c' m ms hw]
      change (nkNotes k (Strong589L.stamp c m :: _) o).length = (nkNotes k (Strong589L.stamp c' m :: _) o').length
      rcases kev_cases k m with h | h | h
      · rw [nkNotes_cons_on k (Strong589L.stamp c m) _ _ h, nkNotes_cons_on k (Strong589L.stamp c' m) _ _ h]; exact ih _ _ _ _ rfl
      · rw [nkNotes_cons_off k (Strong589L.stamp c m) _ _ h, nkNotes_cons_off k (Strong589L.stamp c' m) _ _ h]
        simp only [List.length_append]
        rw [ih c c' none none rfl]
        cases o <;> cases o' <;> simp at ho ⊢
      · rw [nkNotes_cons_skip k (Strong589L.stamp c m) _ _ h, nkNotes_cons_skip k (Strong589L.stamp c' m) _ _ h]; exact ih _ _ _ _ ho

/-- **the pieces behind the bars**: along a per-track run there are pieces `firsts` (one per round, each the source
    of that round's bar) which, laid end to end and followed by what is left of the track, have — key by key — the
    notes of the track cut at the bar lines -/
theorem trackRun_firsts (ppqn : Int) (values : List Int) (requant : Bool) :
    ∀ (gs : List Sg) (t : List Msg) (tw : List Bool) (t' : List Msg) (nb : List Bar) (a : Int),
    trackRun ppqn values requant gs t = .ok (tw, t', nb) → (∀ g ∈ gs, 0 < sgLen ppqn g) →
    NonNegWaits t → WF t → (∀ b ∈ cums a (gs.map (sgLen ppqn)), b ∈ B) → (∀ k', zlB B k' false a t) →
    ∃ firsts, BarsOf ppqn values requant gs firsts nb ∧ WF t' ∧ NonNegWaits t' ∧
      ∀ k, nkNotes k (eventsRelGo a (firsts.flatten ++ t')) none
        = cutNotes (cums a (gs.map (sgLen ppqn))) (nkNotes k (eventsRelGo a t) none) := by
  intro gs
  induction gs with
  | nil =>
    intro t tw t' nb a h _ hw hwf _ _
    simp only [trackRun, Except.ok.injEq, Prod.mk.injEq] at h
    obtain ⟨_, rfl, rfl⟩ := h
    exact ⟨[], trivial, hwf, hw, fun k => by simp [cums, cutNotes]⟩
  | cons g gs ih =>
    intro t tw t' nb a h hpos hw hwf hB hz
    obtain ⟨o, r, h1, h2, h3⟩ := trackRun_cons_inv h
    simp only [Prod.mk.injEq] at h3
    obtain ⟨rfl, rfl, rfl⟩ := h3
    have hc := hpos g List.mem_cons_self
    have hpos' : ∀ x ∈ gs, 0 < sgLen ppqn x := fun x hx => hpos x (List.mem_cons_of_mem _ hx)
    have hposl : ∀ c ∈ gs.map (sgLen ppqn), 0 < c := by
      intro c hc'
      obtain ⟨x, hx, rfl⟩ := List.mem_map.1 hc'
      exact hpos' x hx
    have hbc : a + sgLen ppqn g ∈ B := hB _ (by simp [cums])
    have hB' : ∀ b ∈ cums (a + sgLen ppqn g) (gs.map (sgLen ppqn)), b ∈ B := fun b hb => hB b (by simp [cums, hb])
    obtain ⟨first, piece, hrq, hmk, hfw, hfn, hrw, hrn, hrz, hle, heq, hkt⟩ :=
      trackStep_notesB h1 hc hw hwf a hbc hz
    have hN := fun k => (hkt k 0).2
    by_cases hrest : o.2.1 = []
    · -- the track is used up in this round
      rw [hrest] at h2 hN
      obtain ⟨ht', hBs⟩ := trackRun_firsts_nil ppqn values requant gs _ _ _ h2 hpos'
      refine ⟨first :: gs.map (fun _ => []), ⟨⟨piece, hrq, hmk⟩, hfw, hfn, Or.inr ⟨hle, flatten_map_nil gs⟩, hBs⟩,
        by rw [ht']; exact wf_nil, by rw [ht']; exact nnw_nil, ?_⟩
      intro k
      simp only [List.flatten_cons, flatten_map_nil, List.map_cons, cums, cutNotes, ht', List.append_nil]
      rw [← hN k, List.append_nil, cutNotes_id]
      intro n hn b hb
      have h1' := R_notes_off_le k a first hfn none n hn
      have h2' := cums_gt _ (a + sgLen ppqn g) hposl b hb
      left; omega
    · have htw := heq hrest
      obtain ⟨firsts, hBs, hwt, hnt, hNs⟩ := ih _ _ _ _ (a + sgLen ppqn g) h2 hpos' hrn hrw hB' hrz
      refine ⟨first :: firsts, ⟨⟨piece, hrq, hmk⟩, hfw, hfn, Or.inl htw, hBs⟩, hwt, hnt, ?_⟩
      intro k
      simp only [List.flatten_cons, List.append_assoc, List.map_cons, cums, cutNotes]
      rw [← hN k, nkNotes_wf_append k a first _ hfw, nkNotes_wf_append k a first _ hfw, htw, hNs k,
        cutNotes_append, cutNotes_id _ (nkNotes k (eventsRelGo a first) none)]
      intro n hn b hb
      have h1' := R_notes_off_le k a first hfn none n hn
      have h2' := cums_gt _ (a + sgLen ppqn g) hposl b hb
      left; omega

/-! ### from each bar to the bars laid end to end -/

/-- what links a piece to its bar -/
def BarStep (ppqn : Int) (values : List Int) (requant : Bool) (g : Sg) (f : List Msg) (b : Bar) : Prop :=
  ∃ piece, requantPiece values ppqn requant f = .ok piece ∧ mkBar ppqn piece g.1 g.2.1 g.2.2 = .ok b

theorem barsToSeq_cons (b : Bar) (bs : List Bar) : barsToSeq (b :: bs) = b.seq ++ barsToSeq bs := by
  simp [barsToSeq]

/-- a per-bar fact "every note of the bar comes from a note of its piece (related by `Q`)" holds for the bars laid
    end to end against the pieces laid end to end -/
theorem bars_lift (ppqn : Int) (values : List Int) (requant : Bool) (k : Int × Int) (Q : Note → Note → Prop)
    (H : ∀ (g : Sg) (f : List Msg) (b : Bar) (c : Int), BarStep ppqn values requant g f b → WF f → NonNegWaits f →
      ∀ n' ∈ nkNotes k (eventsRelGo c b.seq) none, ∃ n ∈ nkNotes k (eventsRelGo c f) none, Q n n') :
    ∀ (gs : List Sg) (firsts : List (List Msg)) (nb : List Bar) (a : Int), BarsOf ppqn values requant gs firsts nb →
      ∀ n' ∈ nkNotes k (eventsRelGo a (barsToSeq nb)) none,
        ∃ n ∈ nkNotes k (eventsRelGo a firsts.flatten) none, Q n n' := by
  intro gs
  induction gs with
  | nil =>
    intro firsts nb a hB n' hn'
    cases firsts <;> cases nb <;> simp [BarsOf] at hB
    simp [barsToSeq, eventsRelGo, nkNotes] at hn'
  | cons g gs ih =>
    intro firsts nb a hB n' hn'
    rcases firsts with _ | ⟨f, fs⟩ <;> rcases nb with _ | ⟨b, bs⟩ <;> simp only [BarsOf] at hB
    obtain ⟨hstep, hfw, hfn, hlen, hrest⟩ := hB
    obtain ⟨piece, hrq, hmk⟩ := hstep
    obtain ⟨hbw, hbn, hbd⟩ := bar_wf_nn ppqn piece _ _ _ _ hmk
    have hbd' : totalWait b.seq = sgLen ppqn g := hbd
    rw [barsToSeq_cons, nkNotes_wf_append k a b.seq _ hbw, hbd'] at hn'
    rw [List.flatten_cons, nkNotes_wf_append k a f _ hfw]
    rcases List.mem_append.1 hn' with hn' | hn'
    · obtain ⟨n, hn, hq⟩ := H g f b a ⟨piece, hrq, hmk⟩ hfw hfn n' hn'
      exact ⟨n, List.mem_append_left _ hn, hq⟩
    · obtain ⟨n, hn, hq⟩ := ih fs bs _ hrest n' hn'
      rcases hlen with hlen | ⟨_, hnil⟩
      · rw [hlen]; exact ⟨n, List.mem_append_right _ hn, hq⟩
      · rw [hnil] at hn; simp [eventsRelGo, nkNotes] at hn

/-- a per-bar fact "a note of the piece with property `P` is a note of the bar" holds for the pieces laid end to
    end against the bars laid end to end -/
theorem bars_lift_rev (ppqn : Int) (values : List Int) (requant : Bool) (k : Int × Int) (P : Note → Prop)
    (H : ∀ (g : Sg) (f : List Msg) (b : Bar) (c : Int), BarStep ppqn values requant g f b → WF f → NonNegWaits f →
      ∀ n ∈ nkNotes k (eventsRelGo c f) none, P n → n ∈ nkNotes k (eventsRelGo c b.seq) none) :
    ∀ (gs : List Sg) (firsts : List (List Msg)) (nb : List Bar) (a : Int), BarsOf ppqn values requant gs firsts nb →
      ∀ n ∈ nkNotes k (eventsRelGo a firsts.flatten) none, P n →
        n ∈ nkNotes k (eventsRelGo a (barsToSeq nb)) none := by
  intro gs
  induction gs with
  | nil =>
    intro firsts nb a hB n hn _
    cases firsts <;> cases nb <;> simp [BarsOf] at hB
    simp [eventsRelGo, nkNotes] at hn
  | cons g gs ih =>
    intro firsts nb a hB n hn hP
    rcases firsts with _ | ⟨f, fs⟩ <;> rcases nb with _ | ⟨b, bs⟩ <;> simp only [BarsOf] at hB
    obtain ⟨hstep, hfw, hfn, hlen, hrest⟩ := hB
    obtain ⟨piece, hrq, hmk⟩ := hstep
    obtain ⟨hbw, hbn, hbd⟩ := bar_wf_nn ppqn piece _ _ _ _ hmk
    have hbd' : totalWait b.seq = sgLen ppqn g := hbd
    rw [List.flatten_cons, nkNotes_wf_append k a f _ hfw] at hn
    rw [barsToSeq_cons, nkNotes_wf_append k a b.seq _ hbw, hbd']
    rcases List.mem_append.1 hn with hn | hn
    · exact List.mem_append_left _ (H g f b a ⟨piece, hrq, hmk⟩ hfw hfn n hn hP)
    · rcases hlen with hlen | ⟨_, hnil⟩
      · rw [hlen] at hn; exact List.mem_append_right _ (ih fs bs _ hrest n hn hP)
      · rw [hnil] at hn; simp [eventsRelGo, nkNotes] at hn

/-! ### bar lines as bar starts -/

theorem mem_cumSums (l : List Int) : ∀ (a x : Int),
    x ∈ C08.cumSums a l ↔ ∃ k, k < l.length ∧ x = a + (l.take (k + 1)).foldl (· + ·) 0 := by
  induction l with
  | nil => intro a x; simp [C08.cumSums]
  | cons c cs ih =>
    intro a x
    simp only [C08.cumSums, List.mem_cons, ih]
    constructor
    · rintro (rfl | ⟨k, hk, rfl⟩)
      · exact ⟨0, by simp, by simp⟩
      · refine ⟨k + 1, by simp; omega, ?_⟩
        simp only [List.take_succ_cons, List.foldl_cons, Int.zero_add]
        rw [foldl_add_init _ c]; omega
    · rintro ⟨k, hk, rfl⟩
      cases k with
      | zero => left; simp
      | succ k =>
        right
        refine ⟨k, by simpa using hk, ?_⟩
        simp only [List.take_succ_cons, List.foldl_cons, Int.zero_add]
        rw [foldl_add_init _ c]; omega

/-- the cumulative bar lengths are the starts of bars `1 … n` (the last one being the end of the last bar) -/
theorem mem_cumSums_barStart (ppqn : Int) (bars : List Bar) (x : Int) :
    x ∈ C08.cumSums 0 (bars.map (fun b => barCapacity ppqn b.num b.den))
      ↔ ∃ k, k < bars.length ∧ x = C09.barStart ppqn bars (k + 1) := by
  rw [mem_cumSums]
  simp only [List.length_map, Int.zero_add, C09.barStart, List.map_take]

/-! ### the bar lines of a run are points of the input-level grid -/

/-- along the schedule of the loop the bar starts are the starts of the grid induced by the meta track's signatures -/
theorem psum_grid (ppqn : Int) (metaTrack : List Msg) (hnn : NonNegBars ppqn (sigsOf metaTrack))
    (hd : DistinctTicks (sigsOf metaTrack)) (hal : ∀ m ∈ sigsOf metaTrack, OnGrid ppqn (sigsOf metaTrack) m.time)
    (n : Nat) : ∀ k, k ≤ n → psum ppqn (sched ppqn metaTrack n) k = gridStart ppqn (sigsOf metaTrack) k := by
  intro k
  induction k with
  | zero => intro _; rw [psum_zero]; rfl
  | succ k ih =>
    intro hk
    have hlt : k < (sched ppqn metaTrack n).length := by rw [sched_length]; omega
    have hg := List.getElem?_eq_getElem hlt
    rw [psum_succ ppqn _ k _ hg, ih (by omega), gridStart_succ]
    have := sched_sig ppqn metaTrack hnn hd hal n k _ hg
    rw [← this]
    rfl

/-- every bar line of a successful run (the end of each bar of any track) is a bar start of the input-level grid -/
theorem barLines_onGrid (ppqn : Int) (values : List Int) (tracks : List (List Msg)) (metaIdx : Nat) (requant : Bool)
    (tb : List (List Bar)) (h : splitBars ppqn values tracks metaIdx requant = .ok tb)
    (metaTrack : List Msg) (hm : tracks[metaIdx]? = some metaTrack)
    (hnn : NonNegBars ppqn (sigsOf metaTrack)) (hd : DistinctTicks (sigsOf metaTrack))
    (hal : ∀ m ∈ sigsOf metaTrack, OnGrid ppqn (sigsOf metaTrack) m.time)
    (i : Nat) (bars : List Bar) (hb : tb[i]? = some bars) :
    ∀ x ∈ C08.cumSums 0 (bars.map (fun b => barCapacity ppqn b.num b.den)), OnGrid ppqn (sigsOf metaTrack) x := by
  obtain ⟨mT, r, hm', hl, hall, _⟩ := splitBars_run ppqn values tracks metaIdx requant tb h
  rw [hm] at hm'
  cases hm'
  have hi : i < tracks.length := by rw [← hl]; exact lt_of_getElem?_some hb
  obtain ⟨tw, t', nb, hrun, htb, _⟩ := hall i _ (getElem?_some_of_lt hi)
  rw [hb] at htb
  cases htb
  have hs := trackRun_sigs ppqn values requant _ _ _ _ _ hrun
  have hlens : bars.map (fun b => barCapacity ppqn b.num b.den) = (sched ppqn metaTrack (r + 1)).map (sgLen ppqn) := by
    rw [← hs, List.map_map]; rfl
  intro x hx
  rw [hlens, mem_cumSums] at hx
  obtain ⟨k, hk, rfl⟩ := hx
  rw [List.length_map, sched_length] at hk
  refine ⟨k + 1, ?_⟩
  rw [← psum_grid ppqn metaTrack hnn hd hal (r + 1) (k + 1) (by omega), Int.zero_add]
  simp only [psum, List.map_take]

/-- a per-bar fact "the bar has exactly the notes of its piece" holds for the bars laid end to end against the pieces
    laid end to end -/
theorem bars_eq (ppqn : Int) (values : List Int) (requant : Bool) (k : Int × Int)
    (H : ∀ (g : Sg) (f : List Msg) (b : Bar) (c : Int), BarStep ppqn values requant g f b → WF f → NonNegWaits f →
      nkNotes k (eventsRelGo c b.seq) none = nkNotes k (eventsRelGo c f) none) :
    ∀ (gs : List Sg) (firsts : List (List Msg)) (nb : List Bar) (a : Int), BarsOf ppqn values requant gs firsts nb →
      nkNotes k (eventsRelGo a (barsToSeq nb)) none = nkNotes k (eventsRelGo a firsts.flatten) none := by
  intro gs
  induction gs with
  | nil =>
    intro firsts nb a hB
    cases firsts <;> cases nb <;> simp [BarsOf] at hB
    simp [barsToSeq]
  | cons g gs ih =>
    intro firsts nb a hB
    rcases firsts with _ | ⟨f, fs⟩ <;> rcases nb with _ | ⟨b, bs⟩ <;> simp only [BarsOf] at hB
    obtain ⟨hstep, hfw, hfn, hlen, hrest⟩ := hB
    obtain ⟨piece, hrq, hmk⟩ := hstep
    obtain ⟨hbw, hbn, hbd⟩ := bar_wf_nn ppqn piece _ _ _ _ hmk
    have hbd' : totalWait b.seq = sgLen ppqn g := hbd
    rw [barsToSeq_cons, nkNotes_wf_append k a b.seq _ hbw, hbd', List.flatten_cons, nkNotes_wf_append k a f _ hfw,
      H g f b a ⟨piece, hrq, hmk⟩ hfw hfn, ih fs bs _ hrest]
    rcases hlen with hlen | ⟨_, hnil⟩
    · rw [hlen]
    · rw [hnil]; simp [eventsRelGo, nkNotes]

end SCoda.Strong589LT
