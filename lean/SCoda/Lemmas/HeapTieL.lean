/-
  Helper lemmas for `Props/HeapTie.lean`: how the monad `HeapLib.HM` of the generated identity translation
  (`Gen/HeapFns.lean`) runs, and the run equations of the translated functions that the route theorems use.
-/
import SCoda.Gen.HeapFns
import SCoda.Lemmas.HeapL
namespace SCoda.HeapTieL
open SCoda SCoda.HeapOps SCoda.HeapLib SCoda.Gen.HeapFns

/-! ## running `HM` -/

@[simp] theorem run_pure {α : Type} (a : α) (h : Heap) : (pure a : HM α) h = (.ok a, h) := rfl
@[simp] theorem run_bind {α β : Type} (m : HM α) (f : α → HM β) (h : Heap) : (m >>= f) h = HM.bindRes (m h) f := rfl
@[simp] theorem bindRes_ok {α β : Type} (a : α) (h : Heap) (f : α → HM β) : HM.bindRes (.ok a, h) f = f a h := rfl
@[simp] theorem bindRes_error {α β : Type} (e : HErr) (h : Heap) (f : α → HM β) :
    HM.bindRes (.error e, h) f = (.error e, h) := rfl
@[simp] theorem run_modify (f : Heap → Heap) (h : Heap) : HM.modify f h = (.ok (), f h) := rfl
@[simp] theorem run_get (h : Heap) : HM.get h = (.ok h, h) := rfl
@[simp] theorem run_fail {α : Type} (e : HErr) (h : Heap) : (HM.fail e : HM α) h = (.error e, h) := rfl
@[simp] theorem run_alloc {α : Type} (f : Heap → Heap × α) (h : Heap) : HM.alloc f h = (.ok (f h).2, (f h).1) := rfl
@[simp] theorem run_ite {α : Type} (c : Prop) [Decidable c] (a b : HM α) (h : Heap) :
    (if c then a else b) h = if c then a h else b h := by split <;> rfl
@[simp] theorem run_deref_some {α : Type} (a : α) (h : Heap) : HM.deref (some a) h = (.ok a, h) := rfl
@[simp] theorem run_deref_none {α : Type} (h : Heap) : (HM.deref (none : Option α)) h = (.error .noneAttr, h) := rfl

/-! ## cells -/

@[simp] theorem msg_setMsg (h : Heap) (i : Nat) (m : Msg) : (h.setMsg i m).msg i = m := by simp [Heap.setMsg]
@[simp] theorem setMsg_setMsg (h : Heap) (i : Nat) (m m' : Msg) : (h.setMsg i m).setMsg i m' = h.setMsg i m' := by
  simp only [Heap.setMsg]; congr 1; funext j; split <;> rfl
@[simp] theorem setMsg_newMsg (h : Heap) (m m' : Msg) : (h.newMsg m).1.setMsg h.nMsg m' = (h.newMsg m').1 := by
  simp only [Heap.setMsg, Heap.newMsg]; congr 1; funext j; split <;> rfl
@[simp] theorem newMsg_snd (h : Heap) (m : Msg) : (h.newMsg m).2 = h.nMsg := rfl

/-- `Message.__init__` stores the ten fields; a `None` channel becomes 0 -/
theorem messageInit_run (g : GOrc) (tag i : Nat) (ty : MType) (ch time note vel ctl num den key prog : Int) (h : Heap) :
    messageInit g tag i ty ch time note vel ctl num den key prog h
      = (.ok (), h.setMsg i { ty := ty, ch := if ch = pyNone then 0 else ch, time := time, note := note, vel := vel,
                              ctl := ctl, prog := prog, num := num, den := den, key := key }) := by
  unfold messageInit
  by_cases hc : ch = pyNone <;> simp [hc]

/-- the value `Message.copy` gives the new message: the source's fields, a `None` channel replaced by 0 -/
def normCh (m : Msg) : Msg := { m with ch := if m.ch = pyNone then 0 else m.ch }

theorem normCh_of_ok {m : Msg} (hm : m.ch ≠ pyNone) : normCh m = m := by
  simp [normCh, hm]

/-- `Message.copy()` allocates one message and writes nothing else -/
theorem messageCopy_run (g : GOrc) (tag i : Nat) (h : Heap) :
    messageCopy g tag i h = (.ok h.nMsg, (h.newMsg (normCh (h.msg i))).1) := by
  unfold messageCopy newMessage
  simp [messageInit_run, normCh]

@[simp] theorem lst_setLst (h : Heap) (i : Nat) (l : List Nat) : (h.setLst i l).lst i = l := by simp [Heap.setLst]
@[simp] theorem setLst_setLst (h : Heap) (i : Nat) (l l' : List Nat) : (h.setLst i l).setLst i l' = h.setLst i l' := by
  simp only [Heap.setLst]; congr 1; funext j; split <;> rfl
@[simp] theorem setLst_newLst (h : Heap) (l l' : List Nat) : (h.newLst l).1.setLst h.nLst l' = (h.newLst l').1 := by
  simp only [Heap.setLst, Heap.newLst]; congr 1; funext j; split <;> rfl
@[simp] theorem newLst_snd (h : Heap) (l : List Nat) : (h.newLst l).2 = h.nLst := rfl

theorem abstractSequenceInit_some (g : GOrc) (tag i : Nat) (ids : List Nat) (h : Heap) :
    abstractSequenceInit g tag i (some ids) h = (.ok (), h.setLst i ids) := by
  unfold abstractSequenceInit
  simp

theorem abstractSequenceInit_none (g : GOrc) (tag i : Nat) (h : Heap) :
    abstractSequenceInit g tag i none h = (.ok (), h.setLst i []) := by
  unfold abstractSequenceInit
  simp

/-- the messages of a view exist and have a channel -/
def IdsOk (h : Heap) (ids : List Nat) : Prop := ∀ x ∈ ids, x < h.nMsg ∧ (h.msg x).ch ≠ pyNone

theorem mapM_messageCopy (g : GOrc) (tag : Nat) : ∀ (ids : List Nat) (h : Heap), IdsOk h ids →
    HM.mapM (fun x => do let t ← messageCopy g tag x; pure t) ids h
      = (.ok (newMsgs h (ids.map h.msg)).2, (newMsgs h (ids.map h.msg)).1) := by
  intro ids
  induction ids with
  | nil => intro h _; rfl
  | cons x xs ih =>
    intro h hok
    have hx := hok x (by simp)
    have hrest : IdsOk (h.newMsg (h.msg x)).1 xs := by
      intro y hy
      have := hok y (by simp [hy])
      have hne : y ≠ h.nMsg := by omega
      simp only [Heap.newMsg, hne, if_false]
      exact ⟨by omega, this.2⟩
    have hmap : xs.map (h.newMsg (h.msg x)).1.msg = xs.map h.msg := by
      apply List.map_congr_left
      intro y hy
      have := hok y (by simp [hy])
      have hne : y ≠ h.nMsg := by omega
      simp [Heap.newMsg, hne]
    simp only [HM.mapM, run_bind, messageCopy_run, bindRes_ok, run_pure, normCh_of_ok hx.2, ih _ hrest, hmap,
      List.map_cons, newMsgs, newMsg_snd]

/-- `AbstractSequence.copy()` is `copyView` on a view whose messages exist and have a channel -/
theorem abstractSequenceCopy_run (g : GOrc) (tag l : Nat) (h : Heap) (hok : IdsOk h (h.lst l)) :
    abstractSequenceCopy g tag l h = (.ok (copyView h l).2, (copyView h l).1) := by
  unfold abstractSequenceCopy viewClassInit absoluteSequenceInit newView
  simp [mapM_messageCopy g tag _ h hok, abstractSequenceInit_some, copyView, convView, Heap.viewVals, Heap.vals]

/-! ## `Sequence`: the two properties, the constructor, `copy` -/

theorem heap_ext {a b : Heap} (h1 : a.msg = b.msg) (h2 : a.lst = b.lst) (h3 : a.seq = b.seq) (h4 : a.bar = b.bar)
    (h5 : a.trk = b.trk) (h6 : a.cmp = b.cmp) (n1 : a.nMsg = b.nMsg) (n2 : a.nLst = b.nLst) (n3 : a.nSeq = b.nSeq)
    (n4 : a.nBar = b.nBar) (n5 : a.nTrk = b.nTrk) (n6 : a.nCmp = b.nCmp) : a = b := by
  cases a; cases b; simp_all

/-- allocating messages touches the message store only -/
theorem newMsgs_frame (ms : List Msg) : ∀ h : Heap, (newMsgs h ms).1.lst = h.lst ∧ (newMsgs h ms).1.seq = h.seq
    ∧ (newMsgs h ms).1.bar = h.bar ∧ (newMsgs h ms).1.trk = h.trk ∧ (newMsgs h ms).1.cmp = h.cmp
    ∧ (newMsgs h ms).1.nLst = h.nLst ∧ (newMsgs h ms).1.nSeq = h.nSeq ∧ (newMsgs h ms).1.nBar = h.nBar
    ∧ (newMsgs h ms).1.nTrk = h.nTrk ∧ (newMsgs h ms).1.nCmp = h.nCmp := by
  induction ms with
  | nil => intro h; simp [newMsgs]
  | cons m ms ih => intro h; simp only [newMsgs]; have := ih (h.newMsg m).1; simp_all [Heap.newMsg]

@[simp] theorem convView_seq (f : List Msg → List Msg) (h : Heap) (l : Nat) : (convView f h l).1.seq = h.seq := by
  simp [convView, Heap.newLst, (newMsgs_frame _ h).2.1]

@[simp] theorem seq_setSeq (h : Heap) (i : Nat) (c : SeqCell) : (h.setSeq i c).seq i = c := by simp [Heap.setSeq]
@[simp] theorem setSeq_setSeq (h : Heap) (i : Nat) (c c' : SeqCell) : (h.setSeq i c).setSeq i c' = h.setSeq i c' := by
  simp only [Heap.setSeq]; congr 1; funext j; split <;> rfl
@[simp] theorem setSeq_newSeq (h : Heap) (c c' : SeqCell) : (h.newSeq c).1.setSeq h.nSeq c' = (h.newSeq c').1 := by
  simp only [Heap.setSeq, Heap.newSeq]; congr 1; funext j; split <;> rfl
@[simp] theorem newSeq_snd (h : Heap) (c : SeqCell) : (h.newSeq c).2 = h.nSeq := rfl
theorem setSeq_self (h : Heap) (i : Nat) : h.setSeq i (h.seq i) = h := by
  cases h; simp only [Heap.setSeq]; congr 1; funext j; split <;> simp_all

/-- `Sequence.abs`: exactly `getAbs`, where `none` of the model is an exception of the code (both views stale:
    "Sequence references stale"; stale with `_rel` missing: `AttributeError`) or the value `None` -/
theorem sequenceAbs_run (g : GOrc) (tag s : Nat) (h : Heap) :
    sequenceAbs g tag s h =
      (if (h.seq s).absStale then
        if (h.seq s).relStale then .error .stale
        else match (h.seq s).rel with
          | none => .error .noneAttr
          | some _ => .ok (getAbs g.orc h s).2
      else .ok (h.seq s).abs, (getAbs g.orc h s).1) := by
  unfold sequenceAbs getAbs relToAbsoluteSequence
  cases ha : (h.seq s).absStale <;> cases hr : (h.seq s).relStale <;> simp [ha, hr]
  cases hv : (h.seq s).rel <;> simp [hv, hr]

theorem sequenceRel_run (g : GOrc) (tag s : Nat) (h : Heap) :
    sequenceRel g tag s h =
      (if (h.seq s).relStale then
        if (h.seq s).absStale then .error .stale
        else match (h.seq s).abs with
          | none => .error .noneAttr
          | some _ => .ok (getRel g.orc h s).2
      else .ok (h.seq s).rel, (getRel g.orc h s).1) := by
  unfold sequenceRel getRel absToRelativeSequence
  cases ha : (h.seq s).absStale <;> cases hr : (h.seq s).relStale <;> simp [ha, hr]
  cases hv : (h.seq s).abs <;> simp [hv, ha]

/-- why `self.rel` followed by a method call fails, when it does -/
def relErr (h : Heap) (s : Nat) : HErr :=
  if (h.seq s).relStale && (h.seq s).absStale then .stale else .noneAttr

/-- `self.rel.<method>(…)`: the property, then the call on what it returned -/
theorem sequenceRel_deref (g : GOrc) (tag s : Nat) (h : Heap) {α : Type} (k : Nat → HM α) :
    HM.bindRes (sequenceRel g tag s h) (fun t => HM.deref t >>= k)
      = match (getRel g.orc h s).2 with
        | some l => k l (getRel g.orc h s).1
        | none => (.error (relErr h s), (getRel g.orc h s).1) := by
  rw [sequenceRel_run]
  unfold getRel relErr
  cases ha : (h.seq s).absStale <;> cases hr : (h.seq s).relStale <;> simp [ha, hr]
  · cases hv : (h.seq s).rel <;> simp [hv]
  · cases hv : (h.seq s).abs <;> simp [hv]
  · cases hv : (h.seq s).rel <;> simp [hv]

def absErr (h : Heap) (s : Nat) : HErr :=
  if (h.seq s).relStale && (h.seq s).absStale then .stale else .noneAttr

theorem sequenceAbs_deref (g : GOrc) (tag s : Nat) (h : Heap) {α : Type} (k : Nat → HM α) :
    HM.bindRes (sequenceAbs g tag s h) (fun t => HM.deref t >>= k)
      = match (getAbs g.orc h s).2 with
        | some l => k l (getAbs g.orc h s).1
        | none => (.error (absErr h s), (getAbs g.orc h s).1) := by
  rw [sequenceAbs_run]
  unfold getAbs absErr
  cases ha : (h.seq s).absStale <;> cases hr : (h.seq s).relStale <;> simp [ha, hr]
  · cases hv : (h.seq s).abs <;> simp [hv]
  · cases hv : (h.seq s).abs <;> simp [hv]
  · cases hv : (h.seq s).rel <;> simp [hv]

theorem sequenceInvalidateAbs_run (g : GOrc) (tag s : Nat) (h : Heap) :
    sequenceInvalidateAbs g tag s h = (.ok (), invalidateAbs h s) := rfl
theorem sequenceInvalidateRel_run (g : GOrc) (tag s : Nat) (h : Heap) :
    sequenceInvalidateRel g tag s h = (.ok (), invalidateRel h s) := rfl

/-- `Sequence(a, r)`: the blank cell allocated for the object, then `__init__`, is `seqInit` (in the case of no
    argument the `Sequence` cell is allocated before the `AbsoluteSequence()` cell, in `HeapOps` after it: the kinds differ,
    the heaps are equal) -/
theorem seqInit_snd (a r : Option Nat) (h : Heap) : (seqInit h a r).2 = h.nSeq := by
  cases a <;> cases r <;> simp [seqInit, Heap.newSeq, Heap.newLst]

@[simp] theorem seq_newSeq (h : Heap) (c : SeqCell) : (h.newSeq c).1.seq h.nSeq = c := by simp [Heap.newSeq]

theorem sequenceNew_run (g : GOrc) (tag : Nat) (a r : Option Nat) (h : Heap) :
    sequenceInit g tag h.nSeq a r (h.newSeq {}).1 = (.ok (), (seqInit h a r).1) := by
  unfold sequenceInit seqInit absoluteSequenceInit newView
  cases a <;> cases r <;>
    simp [sequenceInvalidateAbs_run, sequenceInvalidateRel_run, invalidateAbs, invalidateRel, abstractSequenceInit_none]
  apply heap_ext <;> simp [Heap.newSeq, Heap.newLst, Heap.setSeq] <;> (funext j; split <;> simp_all)

/-! ## frames: a heap that extends another -/

/-- `h'` extends `h`: nothing is de-allocated, every allocated cell has the content it had -/
def Ext (h h' : Heap) : Prop := (∀ k, h.next k ≤ h'.next k) ∧ ∀ c, h.alloc c → h'.get c = h.get c

theorem Ext.refl (h : Heap) : Ext h h := ⟨fun _ => Nat.le_refl _, fun _ _ => rfl⟩
theorem Ext.trans {h h1 h2 : Heap} (a : Ext h h1) (b : Ext h1 h2) : Ext h h2 :=
  ⟨fun k => Nat.le_trans (a.1 k) (b.1 k), fun c hc => by rw [b.2 c (HeapL.alloc_mono a.1 hc), a.2 c hc]⟩
theorem Ext.of_spec {h h' : Heap} (sp : HeapL.Spec (HeapL.Fresh h) h h') : Ext h h' :=
  ⟨sp.pres.le, HeapL.Spec.same_alloc sp⟩

theorem Ext.msg {h h' : Heap} (e : Ext h h') {i : Nat} (hi : i < h.nMsg) : h'.msg i = h.msg i := by
  have := e.2 (.msg, i) hi
  simpa [Heap.get] using this
theorem Ext.lst {h h' : Heap} (e : Ext h h') {i : Nat} (hi : i < h.nLst) : h'.lst i = h.lst i := by
  have := e.2 (.lst, i) hi
  simpa [Heap.get] using this
theorem Ext.seq {h h' : Heap} (e : Ext h h') {i : Nat} (hi : i < h.nSeq) : h'.seq i = h.seq i := by
  have := e.2 (.seq, i) hi
  simpa [Heap.get] using this
theorem Ext.bar {h h' : Heap} (e : Ext h h') {i : Nat} (hi : i < h.nBar) : h'.bar i = h.bar i := by
  have := e.2 (.bar, i) hi
  simpa [Heap.get] using this
theorem Ext.trk {h h' : Heap} (e : Ext h h') {i : Nat} (hi : i < h.nTrk) : h'.trk i = h.trk i := by
  have := e.2 (.trk, i) hi
  simpa [Heap.get] using this

/-- a view object that exists, whose messages exist and have a channel -/
def ViewOk (h : Heap) (l : Nat) : Prop := l < h.nLst ∧ IdsOk h (h.lst l)

theorem ViewOk.ext {h h' : Heap} (e : Ext h h') {l : Nat} (v : ViewOk h l) : ViewOk h' l := by
  refine ⟨Nat.lt_of_lt_of_le v.1 (e.1 .lst), ?_⟩
  rw [e.lst v.1]
  intro x hx
  have := v.2 x hx
  exact ⟨Nat.lt_of_lt_of_le this.1 (e.1 .msg), by rw [e.msg this.1]; exact this.2⟩

/-- the hypothesis of the copy route on a `Sequence`: a view that is not stale exists (the flag protocol
    `Sequence.__init__` establishes; otherwise `.copy()` is called on `None`), its messages exist (no dangling
    identity) and have a channel (`Message.__init__` gives a copy of a message without channel the channel 0) -/
def SeqCopyOk (h : Heap) (s : Nat) : Prop :=
  ((h.seq s).absStale = false → ∃ a, (h.seq s).abs = some a ∧ ViewOk h a)
    ∧ ((h.seq s).relStale = false → ∃ r, (h.seq s).rel = some r ∧ ViewOk h r)

theorem copyView_ext (h : Heap) (l : Nat) : Ext h (copyView h l).1 :=
  Ext.of_spec (HeapL.copyView_spec (HeapL.good_fresh h) l).1

@[simp] theorem copyView_seq (h : Heap) (l : Nat) : (copyView h l).1.seq = h.seq := convView_seq id h l

/-- `Sequence.copy()` is `seqCopy` -/
theorem sequenceCopy_run (g : GOrc) (tag s : Nat) (h : Heap) (hok : SeqCopyOk h s) :
    sequenceCopy g tag s h = (.ok (seqCopy h s).2, (seqCopy h s).1) := by
  unfold sequenceCopy seqCopy copyOpt newSequence
  obtain ⟨ha, hr⟩ := hok
  cases hfa : (h.seq s).absStale <;> cases hfr : (h.seq s).relStale
  · obtain ⟨a, hva, oka⟩ := ha hfa
    obtain ⟨r, hvr, okr⟩ := hr hfr
    have okr' := okr.ext (copyView_ext h a)
    simp [hfa, hfr, hva, hvr, sequenceAbs_run, sequenceRel_run, getAbs, getRel, abstractSequenceCopy_run g tag a h oka.2,
      abstractSequenceCopy_run g tag r _ okr'.2, sequenceNew_run, seqInit_snd]
  · obtain ⟨a, hva, oka⟩ := ha hfa
    simp [hfa, hfr, hva, sequenceAbs_run, getAbs, abstractSequenceCopy_run g tag a h oka.2, sequenceNew_run, seqInit_snd]
  · obtain ⟨r, hvr, okr⟩ := hr hfr
    simp [hfa, hfr, hvr, sequenceRel_run, getRel, abstractSequenceCopy_run g tag r h okr.2, sequenceNew_run, seqInit_snd]
  · simp [hfa, hfr, sequenceNew_run, seqInit_snd]

/-! ## route (3): the wrapper methods `Bar.__init__` calls -/

/-- a `for` loop whose body always continues: the loop-carried value and the heap after the loop -/
def loopSpec {α β : Type} (step : α → β → Heap → β) (upd : α → Heap → Heap) : List α → β → Heap → β × Heap
  | [], b, h => (b, h)
  | a :: as, b, h => loopSpec step upd as (step a b h) (upd a h)

theorem forIn_run {α β : Type} (f : α → β → HM (ForInStep β)) (step : α → β → Heap → β) (upd : α → Heap → Heap)
    (hf : ∀ a b h, f a b h = (.ok (.yield (step a b h)), upd a h)) :
    ∀ (xs : List α) (b : β) (h : Heap), (forIn xs b f) h = (.ok (loopSpec step upd xs b h).1, (loopSpec step upd xs b h).2) := by
  intro xs
  induction xs with
  | nil => intro b h; rfl
  | cons a as ih =>
    intro b h
    rw [List.forIn_cons]
    simp only [run_bind, hf, bindRes_ok, ih, loopSpec]

@[simp] theorem run_tryFinally_ok {α : Type} (body : HM α) (fin : HM Unit) (h h' : Heap) (a : α)
    (hb : body h = (.ok a, h')) : HM.tryFinally body fin h = HM.bindRes (fin h') (fun _ => pure a) := by
  simp [HM.tryFinally, hb]

theorem run_tryFinally_error {α : Type} (body : HM α) (fin : HM Unit) (h h' : Heap) (e : HErr)
    (hb : body h = (.error e, h')) : HM.tryFinally body fin h = (.error e, (fin h').2) := by
  simp [HM.tryFinally, hb]

/-- the relative view is there and not stale -/
def RelLive (h : Heap) (s l : Nat) : Prop := (h.seq s).relStale = false ∧ (h.seq s).rel = some l

/-- `self.rel` succeeds: the relative view is live, or it is stale and the absolute view is live -/
def SeqLive (h : Heap) (s : Nat) : Prop :=
  ((h.seq s).relStale = false ∧ (h.seq s).rel.isSome)
    ∨ ((h.seq s).relStale = true ∧ (h.seq s).absStale = false ∧ (h.seq s).abs.isSome)

theorem getRel_of_live {o : Orc} {h : Heap} {s l : Nat} (hl : RelLive h s l) : getRel o h s = (h, some l) := by
  simp [getRel, hl.1, hl.2]

theorem getRel_some_of_seqLive (o : Orc) {h : Heap} {s : Nat} (hl : SeqLive h s) :
    ∃ l, (getRel o h s).2 = some l ∧ RelLive (getRel o h s).1 s l := by
  rcases hl with ⟨h1, h2⟩ | ⟨h1, h2, h3⟩
  · obtain ⟨l, hl⟩ := Option.isSome_iff_exists.mp h2
    exact ⟨l, by simp [getRel, h1, hl], by simp [getRel, h1, hl, RelLive]⟩
  · obtain ⟨a, ha⟩ := Option.isSome_iff_exists.mp h3
    exact ⟨(convView o.toRel h a).2, by simp [getRel, h1, h2, ha], by simp [getRel, h1, h2, ha, RelLive]⟩

/-- a view-level operation: writes message cells and list cells only -/
def ViewLevel (f : Heap → Nat → Heap) : Prop :=
  ∀ h l, (f h l).seq = h.seq ∧ (f h l).bar = h.bar ∧ (f h l).trk = h.trk ∧ (f h l).nBar = h.nBar ∧ (f h l).nSeq = h.nSeq

theorem buildIds_frame (src : List Nat) (p : List Item) : ∀ h : Heap, (buildIds h src p).1.seq = h.seq ∧ (buildIds h src p).1.bar = h.bar
    ∧ (buildIds h src p).1.trk = h.trk ∧ (buildIds h src p).1.nBar = h.nBar ∧ (buildIds h src p).1.nSeq = h.nSeq
    ∧ (buildIds h src p).1.lst = h.lst ∧ (buildIds h src p).1.nLst = h.nLst := by
  induction p with
  | nil => intro h; simp [buildIds]
  | cons it p ih =>
    intro h
    cases it with
    | keep k => simp only [buildIds]; exact ih h
    | fresh m => simp only [buildIds]; have := ih (h.newMsg m).1; simp_all [Heap.newMsg]

theorem viewLevel_rebuild (p : List Msg → List Item) : ViewLevel (rebuildView p) := by
  intro h l
  have := buildIds_frame (h.lst l) (p (h.viewVals l)) h
  simp_all [rebuildView, Heap.setLst]

theorem viewLevel_pad (w : List Msg → Option Msg) : ViewLevel (padView w) := by
  intro h l
  unfold padView
  split <;> simp [Heap.setLst, Heap.newMsg]

theorem viewLevel_insert (i : Nat) (idx : Option Nat) : ViewLevel (fun h l => insertView h l i idx) := by
  intro h l
  simp [insertView, Heap.setLst]

theorem viewLevel_id : ViewLevel (fun h _ => h) := fun _ _ => ⟨rfl, rfl, rfl, rfl, rfl⟩

/-- `self.rel.<f>(…); self.invalidate_abs()` on a sequence whose relative view is live -/
theorem withRel_of_live {o : Orc} {h : Heap} {s l : Nat} (hl : RelLive h s l) (f : Heap → Nat → Heap) :
    withRel o h s f = invalidateAbs (f h l) s := by
  simp [withRel, getRel_of_live hl]

theorem relLive_invalidateAbs {h : Heap} {s l : Nat} (hl : RelLive h s l) : RelLive (invalidateAbs h s) s l := by
  simp [RelLive, invalidateAbs, hl.1, hl.2]

theorem relLive_viewLevel {f : Heap → Nat → Heap} (hf : ViewLevel f) {h : Heap} {s l : Nat} (hl : RelLive h s l) (l' : Nat) :
    RelLive (f h l') s l := by
  simp [RelLive, (hf h l').1, hl.1, hl.2]

theorem invalidateAbs_idem (h : Heap) (s : Nat) : invalidateAbs (invalidateAbs h s) s = invalidateAbs h s := by
  simp [invalidateAbs]

theorem invalidateAbs_of_stale {h : Heap} {s : Nat} (hs : (h.seq s).absStale = true) : invalidateAbs h s = h := by
  unfold invalidateAbs
  have : { h.seq s with absStale := true } = h.seq s := by
    cases hc : h.seq s; simp_all
  rw [this, setSeq_self]

@[simp] theorem invalidateAbs_bar (h : Heap) (s : Nat) : (invalidateAbs h s).bar = h.bar := rfl
@[simp] theorem invalidateAbs_absStale (h : Heap) (s : Nat) : ((invalidateAbs h s).seq s).absStale = true := by
  simp [invalidateAbs]

/-- the generic shape of a wrapper method `self.rel.<link>(…); self.invalidate_abs()` -/
theorem withRel_run (g : GOrc) (tag s : Nat) (h : Heap) (f : Heap → Nat → Heap) (m : Nat → HM Unit)
    (hm : ∀ l h', m l h' = (.ok (), f h' l)) :
    HM.bindRes (sequenceRel g tag s h) (fun t => HM.deref t >>= fun l => m l >>= fun _ => sequenceInvalidateAbs g tag s)
      = (match (getRel g.orc h s).2 with | some _ => .ok () | none => .error (relErr h s), withRel g.orc h s f) := by
  rw [sequenceRel_deref]
  unfold withRel
  cases hv : (getRel g.orc h s).2 <;> simp [hv, hm, sequenceInvalidateAbs_run]

theorem sequenceNormalise_run (g : GOrc) (tag s : Nat) (h : Heap) :
    sequenceNormalise g tag s h
      = (match (getRel g.orc h s).2 with | some _ => .ok () | none => .error (relErr h s), normalise g.orc tag h s) := by
  unfold sequenceNormalise normalise
  simp only [run_bind]
  exact withRel_run g tag s h _ _ (fun _ _ => rfl)

theorem sequencePad_run (g : GOrc) (tag s : Nat) (h : Heap) :
    sequencePad g tag s h
      = (match (getRel g.orc h s).2 with | some _ => .ok () | none => .error (relErr h s), pad g.orc tag h s) := by
  unfold sequencePad pad
  simp only [run_bind]
  exact withRel_run g tag s h _ _ (fun _ _ => rfl)

theorem relativeSequenceAddMessage_run (g : GOrc) (tag l i : Nat) (idx : Option Nat) (h : Heap) :
    relativeSequenceAddMessage g tag l i (idx.map Int.ofNat) h = (.ok (), insertView h l i idx) := by
  unfold relativeSequenceAddMessage insertView
  cases idx with
  | none => simp
  | some k => simp [HM.pyInsert]

theorem sequenceAddRelativeMessage_run (g : GOrc) (tag s i : Nat) (idx : Option Nat) (h : Heap) :
    sequenceAddRelativeMessage g tag s i (idx.map Int.ofNat) h
      = (match (getRel g.orc h s).2 with | some _ => .ok () | none => .error (relErr h s), addRel g.orc h s i idx) := by
  unfold sequenceAddRelativeMessage addRel
  simp only [run_bind]
  exact withRel_run g tag s h _ _ (fun l h' => relativeSequenceAddMessage_run g tag l i idx h')

theorem relativeSequenceAddMessage_none (g : GOrc) (tag l i : Nat) (h : Heap) :
    relativeSequenceAddMessage g tag l i none h = (.ok (), h.setLst l (h.lst l ++ [i])) :=
  relativeSequenceAddMessage_run g tag l i none h

theorem sequenceAddRelativeMessage_zero (g : GOrc) (tag s i : Nat) (h : Heap) :
    sequenceAddRelativeMessage g tag s i (some 0) h
      = (match (getRel g.orc h s).2 with | some _ => .ok () | none => .error (relErr h s), addRel g.orc h s i (some 0)) :=
  sequenceAddRelativeMessage_run g tag s i (some 0) h

theorem loopSpec_yield (s : Nat) : ∀ (xs b : List Nat) (h : Heap),
    loopSpec (fun a b _ => b ++ [a]) (fun _ h => invalidateAbs h s) xs b h
      = (b ++ xs, if xs = [] then h else invalidateAbs h s) := by
  intro xs
  induction xs with
  | nil => intro b h; simp [loopSpec]
  | cons a as ih =>
    intro b h
    simp only [loopSpec, ih]
    by_cases hn : as = [] <;> simp [hn, invalidateAbs_idem]

/-- `list(seq.messages_rel())` run to its end: the message objects of the relative view, and `iterRel` -/
theorem sequenceMessagesRel_run (g : GOrc) (tag s l : Nat) (h : Heap) (hl : (getRel g.orc h s).2 = some l) :
    sequenceMessagesRel g tag s h = (.ok ((getRel g.orc h s).1.lst l), iterRel g.orc h s) := by
  unfold sequenceMessagesRel iterRel withRel
  simp only [run_bind]
  rw [run_tryFinally_ok (h' := if (getRel g.orc h s).1.lst l = [] then (getRel g.orc h s).1 else invalidateAbs (getRel g.orc h s).1 s)
      (a := (getRel g.orc h s).1.lst l)]
  · simp only [hl, run_bind, sequenceInvalidateAbs_run, bindRes_ok, run_pure]
    split <;> simp [invalidateAbs_idem]
  · simp only [run_bind]
    rw [sequenceRel_deref]
    simp only [hl, run_bind, run_get, bindRes_ok]
    rw [forIn_run (step := fun a b _ => b ++ [a]) (upd := fun _ h => invalidateAbs h s)]
    · simp [loopSpec_yield]
    · intro a b h'
      rfl

@[simp] theorem lst_newLst (h : Heap) (l : List Nat) : (h.newLst l).1.lst h.nLst = l := by simp [Heap.newLst]

theorem loopSpec_append (t : Nat) : ∀ (xs : List Nat) (b : PUnit) (h : Heap),
    loopSpec (fun _ b _ => b) (fun a h => h.setLst t (h.lst t ++ [a])) xs b h = (b, h.setLst t (h.lst t ++ xs)) := by
  intro xs
  induction xs with
  | nil =>
    intro b h
    simp only [loopSpec, List.append_nil, Heap.setLst]
    cases h
    simp only [Prod.mk.injEq, true_and]
    congr 1
    funext j
    split <;> simp_all
  | cons a as ih => intro b h; simp [loopSpec, ih]

/-- `overwrite_relative_messages(ids)` is `overwriteRel` -/
theorem sequenceOverwriteRelativeMessages_run (g : GOrc) (tag s : Nat) (ids : List Nat) (h : Heap) :
    sequenceOverwriteRelativeMessages g tag s ids h = (.ok (), overwriteRel h s ids) := by
  unfold sequenceOverwriteRelativeMessages overwriteRel relativeSequenceInit newView
  simp only [run_bind, run_alloc, bindRes_ok, abstractSequenceInit_none, setLst_newLst, newLst_snd]
  rw [forIn_run (step := fun _ b _ => b) (upd := fun a h' => h'.setLst h.nLst (h'.lst h.nLst ++ [a]))]
  · simp [loopSpec_append, sequenceInvalidateAbs_run, invalidateAbs]
  · intro a b h'
    simp [relativeSequenceAddMessage_none]

theorem positions_filterMap (p : Msg → Bool) (f : Nat → Msg) : ∀ (ids pre : List Nat),
    (positions p pre.length (ids.map f)).filterMap (fun k => (pre ++ ids)[k]?) = ids.filter (fun i => p (f i)) := by
  intro ids
  induction ids with
  | nil => intro pre; simp [positions]
  | cons i ids ih =>
    intro pre
    have h1 := ih (pre ++ [i])
    simp only [List.length_append, List.length_cons, List.length_nil, List.append_assoc, List.cons_append, List.nil_append] at h1
    simp only [List.map_cons, positions, List.filter_cons]
    by_cases hp : p (f i) = true
    · simp [hp, h1]
    · simp [hp, h1]

/-! ## `Bar.__init__`, `Bar.copy` -/

@[simp] theorem bar_setBar (h : Heap) (i : Nat) (c : BarCell) : (h.setBar i c).bar i = c := by simp [Heap.setBar]
@[simp] theorem setBar_setBar (h : Heap) (i : Nat) (c c' : BarCell) : (h.setBar i c).setBar i c' = h.setBar i c' := by
  simp only [Heap.setBar]; congr 1; funext j; split <;> rfl
@[simp] theorem setBar_newBar (h : Heap) (c c' : BarCell) : (h.newBar c).1.setBar h.nBar c' = (h.newBar c').1 := by
  simp only [Heap.setBar, Heap.newBar]; congr 1; funext j; split <;> rfl
@[simp] theorem bar_newBar (h : Heap) (c : BarCell) : (h.newBar c).1.bar h.nBar = c := by simp [Heap.newBar]
@[simp] theorem newBar_snd (h : Heap) (c : BarCell) : (h.newBar c).2 = h.nBar := rfl
@[simp] theorem newBar_seq (h : Heap) (c : BarCell) : (h.newBar c).1.seq = h.seq := rfl

@[simp] theorem convView_bar (f : List Msg → List Msg) (h : Heap) (l : Nat) : (convView f h l).1.bar = h.bar := by
  simp [convView, Heap.newLst, (newMsgs_frame _ h).2.2.1]

@[simp] theorem getRel_bar (o : Orc) (h : Heap) (s : Nat) : (getRel o h s).1.bar = h.bar := by
  unfold getRel
  simp only
  split
  · split
    · rfl
    · split <;> simp [Heap.setSeq]
  · rfl

theorem withRel_bar (o : Orc) (h : Heap) (s : Nat) {f : Heap → Nat → Heap} (hf : ViewLevel f) : (withRel o h s f).bar = h.bar := by
  unfold withRel
  simp only
  split
  · simp
  · simp [(hf _ _).2.1]

@[simp] theorem normalise_bar (o : Orc) (tag : Nat) (h : Heap) (s : Nat) : (normalise o tag h s).bar = h.bar :=
  withRel_bar o h s (viewLevel_rebuild _)
@[simp] theorem iterRel_bar (o : Orc) (h : Heap) (s : Nat) : (iterRel o h s).bar = h.bar := withRel_bar o h s viewLevel_id
@[simp] theorem pad_bar (o : Orc) (tag : Nat) (h : Heap) (s : Nat) : (pad o tag h s).bar = h.bar :=
  withRel_bar o h s (viewLevel_pad _)
@[simp] theorem overwriteRel_bar (h : Heap) (s : Nat) (ids : List Nat) : (overwriteRel h s ids).bar = h.bar := rfl

theorem iterRel_of_live {o : Orc} {h : Heap} {s l : Nat} (hl : RelLive h s l) (hs : (h.seq s).absStale = true) :
    iterRel o h s = h := by
  unfold iterRel
  rw [withRel_of_live hl, invalidateAbs_of_stale hs]

@[simp] theorem getRel_orcOf (g : GOrc) (h : Heap) (s : Nat) : getRel (orcOf g) h s = getRel g.orc h s := rfl
@[simp] theorem normalise_orcOf (g : GOrc) (tag : Nat) (h : Heap) (s : Nat) : normalise (orcOf g) tag h s = normalise g.orc tag h s := rfl
@[simp] theorem iterRel_orcOf (g : GOrc) (h : Heap) (s : Nat) : iterRel (orcOf g) h s = iterRel g.orc h s := rfl
@[simp] theorem addRel_orcOf (g : GOrc) (h : Heap) (s i : Nat) (idx : Option Nat) : addRel (orcOf g) h s i idx = addRel g.orc h s i idx := rfl
@[simp] theorem addRel_bar (o : Orc) (h : Heap) (s i : Nat) (idx : Option Nat) : (addRel o h s i idx).bar = h.bar :=
  withRel_bar o h s (viewLevel_insert i idx)
@[simp] theorem newMsg_bar (h : Heap) (m : Msg) : (h.newMsg m).1.bar = h.bar := rfl

/-- the end of `Bar.__init__` (bar.py:38-54) on a heap in which the bar's sequence has a live relative view and a stale
    absolute view: `barFinish` -/
theorem barPad_step (g : GOrc) (t : Nat) {h1 : Heap} {s l0 : Nat} (live1 : RelLive h1 s l0) (st1 : (h1.seq s).absStale = true) :
    withRel (orcOf g) h1 s (padView ((orcOf g).barPadMsg t))
      = if g.barPadDec t (h1.viewVals l0) = true then pad g.orc t h1 s else h1 := by
  rw [withRel_of_live live1]
  unfold pad
  rw [withRel_of_live live1]
  unfold padView
  by_cases hd : g.barPadDec t (h1.viewVals l0) = true
  · simp [orcOf, hd]
  · simp [orcOf, hd, invalidateAbs_of_stale st1]

theorem relLive_overwriteRel (h : Heap) (s : Nat) (ids : List Nat) : RelLive (overwriteRel h s ids) s h.nLst := by
  simp [RelLive, overwriteRel]

theorem relLive_newMsg {h : Heap} {s l : Nat} (hl : RelLive h s l) (m : Msg) : RelLive (h.newMsg m).1 s l := hl

theorem kept_eq (g : GOrc) (t : Nat) (h : Heap) (l : Nat) :
    ((orcOf g).perm t (h.viewVals l)).filterMap (fun k => (h.lst l)[k]?)
      = (h.lst l).filter (fun i => (h.msg i).ty != MType.timeSignature) := by
  have := positions_filterMap (fun m => m.ty != MType.timeSignature) h.msg (h.lst l) []
  simpa [orcOf, Heap.viewVals, Heap.vals] using this

-- bar.py:38-54 on a heap in which the bar's sequence has a live relative view and a stale absolute view
set_option hygiene false in
local macro "bar_tail" h3:term "," live3:term "," st3:term "," bar3:term "," hbar:term : tactic => `(tactic| (
  have it3 := iterRel_of_live (o := g.orc) $live3 $st3
  have g3 := getRel_of_live (o := g.orc) $live3
  try simp only [$bar3:term, $hbar:term]
  rw [sequenceMessagesRel_run g tag s l0 $h3 (by rw [g3])]
  simp only [bindRes_ok, run_bind, run_get, it3, $bar3:term, $hbar:term]
  rw [sequenceMessagesRel_run g tag s l0 $h3 (by rw [g3])]
  simp only [bindRes_ok, run_bind, run_get, it3, g3, $bar3:term, $hbar:term, sequenceOverwriteRelativeMessages_run, overwriteRel_bar,
    run_alloc, newMsg_snd, newMsg_bar, sequenceAddRelativeMessage_zero,
    getRel_of_live (relLive_newMsg (relLive_overwriteRel _ _ _) _), addRel_bar, run_modify, getRel_orcOf, iterRel_orcOf,
    barFinish, kept_eq, invalidateAbs_of_stale $st3, addRel_orcOf]
  rfl))

/-- `Bar(sequence, numerator, denominator, key)` on a sequence whose relative view can be read: the blank cell, then the
    translated `Bar.__init__`, is `HeapOps.barInit` under the oracle `orcOf g` -/
theorem barNew_run (g : GOrc) (tag s : Nat) (num den key : Int) (h : Heap) (hl : SeqLive h s) :
    Gen.HeapFns.barInit g tag h.nBar s num den key (h.newBar {}).1
      = (.ok (), (HeapOps.barInit (orcOf g) tag h s num den key).1) := by
  -- the model side, step by step
  have hlb : SeqLive (h.newBar { seq := s, num := num, den := den, key := key }).1 s := hl
  obtain ⟨l0, hg0, live0⟩ := getRel_some_of_seqLive g.orc hlb
  generalize hb : (h.newBar { seq := s, num := num, den := den, key := key }).1 = b at *
  have hbar : (b.bar h.nBar) = { seq := s, num := num, den := den, key := key } := by rw [← hb]; simp
  -- h1: after normalise
  have e1 : normalise g.orc tag b s = invalidateAbs (rebuildView (g.orc.plan tag) (getRel g.orc b s).1 l0) s := by
    simp [normalise, withRel, hg0]
  have live1 : RelLive (normalise g.orc tag b s) s l0 := by
    rw [e1]; exact relLive_invalidateAbs (relLive_viewLevel (viewLevel_rebuild _) live0 l0)
  have st1 : ((normalise g.orc tag b s).seq s).absStale = true := by rw [e1]; simp
  generalize h1def : normalise g.orc tag b s = h1 at *
  have bar1 : h1.bar = b.bar := by rw [← h1def]; simp
  have it1 : iterRel g.orc h1 s = h1 := iterRel_of_live live1 st1
  have g1 : getRel g.orc h1 s = (h1, some l0) := getRel_of_live live1
  unfold Gen.HeapFns.barInit HeapOps.barInit barBody
  simp only [run_bind, run_modify, bindRes_ok, run_get, setBar_newBar, bar_setBar, bar_newBar, hb, hbar, bar1,
    sequenceNormalise_run, hg0, h1def]
  rw [sequenceMessagesRel_run g tag s l0 h1 (by rw [g1])]
  have hv : optVals h1 (h1.seq s).rel = h1.viewVals l0 := by simp [optVals, live1.2]
  simp only [bindRes_ok, run_bind, run_get, it1, g1, bar1, hbar, hv, normalise_orcOf, iterRel_orcOf, h1def,
    barPad_step g (mix tag 1) live1 st1, run_ite]
  by_cases hd : g.barPadDec (mix tag 1) (h1.viewVals l0) = true
  · simp only [hd, if_true]
    have live3 : RelLive (pad g.orc (mix tag 1) h1 s) s l0 := by
      unfold pad; rw [withRel_of_live live1]
      exact relLive_invalidateAbs (relLive_viewLevel (viewLevel_pad _) live1 l0)
    have st3 : ((pad g.orc (mix tag 1) h1 s).seq s).absStale = true := by
      unfold pad; rw [withRel_of_live live1]; simp
    have bar3 : (pad g.orc (mix tag 1) h1 s).bar = b.bar := by rw [pad_bar]; exact bar1
    rw [sequencePad_run]
    simp only [g1, bindRes_ok, run_bind, run_get]
    generalize pad g.orc (mix tag 1) h1 s = h3 at *
    bar_tail h3, live3, st3, bar3, hbar
  · simp only [hd, Bool.false_eq_true, if_false]
    bar_tail h1, live1, st1, bar1, hbar

@[simp] theorem copyView_bar (h : Heap) (l : Nat) : (copyView h l).1.bar = h.bar := convView_bar id h l

theorem seqInit_bar (h : Heap) (a r : Option Nat) : (seqInit h a r).1.bar = h.bar := by
  cases a <;> cases r <;> rfl

theorem seqCopy_bar (h : Heap) (s : Nat) : (seqCopy h s).1.bar = h.bar := by
  unfold seqCopy copyOpt
  simp only [seqInit_bar]
  cases (h.seq s).absStale <;> cases (h.seq s).relStale <;> cases (h.seq s).abs <;> cases (h.seq s).rel <;> simp

/-- the copy of a sequence whose non-stale views exist can be read through `rel` (the copy of a sequence with BOTH views
    stale is a new empty sequence: `Sequence(None, None)`) -/
theorem seqCopy_live (h : Heap) (s : Nat) (hok : SeqCopyOk h s) : SeqLive (seqCopy h s).1 (seqCopy h s).2 := by
  obtain ⟨ha, hr⟩ := hok
  unfold seqCopy copyOpt SeqLive
  cases hfa : (h.seq s).absStale <;> cases hfr : (h.seq s).relStale
  · obtain ⟨a, hva, _⟩ := ha hfa
    obtain ⟨r, hvr, _⟩ := hr hfr
    simp [hfa, hfr, hva, hvr, seqInit, Heap.newSeq]
  · obtain ⟨a, hva, _⟩ := ha hfa
    simp [hfa, hfr, hva, seqInit, Heap.newSeq]
  · obtain ⟨r, hvr, _⟩ := hr hfr
    simp [hfa, hfr, hvr, seqInit, Heap.newSeq]
  · simp [hfa, hfr, seqInit, Heap.newSeq, Heap.newLst]

/-! ## route (2), the wrapper: `[Sequence(relative_sequence=seq.copy()) for seq in relative_sequences]` -/

theorem run_newSequence (h : Heap) : newSequence h = (.ok h.nSeq, (h.newSeq {}).1) := rfl

theorem wrapStep_ext (h : Heap) (p : Nat) : Ext h (seqInit (copyView h p).1 none (some (copyView h p).2)).1 := by
  have := Ext.of_spec (HeapL.wrapCopies_spec (HeapL.good_fresh h) [p]).1
  simpa [wrapCopies] using this

theorem mapM_wrapCopies (g : GOrc) (tag : Nat) : ∀ (ps : List Nat) (h : Heap), (∀ p ∈ ps, ViewOk h p) →
    HM.mapM (fun seq_ => do
        let t4 ← abstractSequenceCopy g tag seq_
        let t5 ← newSequence
        sequenceInit g tag t5 none (some t4)
        pure t5) ps h = (.ok (wrapCopies h ps).2, (wrapCopies h ps).1) := by
  intro ps
  induction ps with
  | nil => intro h _; rfl
  | cons p ps ih =>
    intro h hok
    have hp := hok p (by simp)
    have hrest : ∀ q ∈ ps, ViewOk (seqInit (copyView h p).1 none (some (copyView h p).2)).1 q :=
      fun q hq => (hok q (by simp [hq])).ext (wrapStep_ext h p)
    simp only [HM.mapM, run_bind, abstractSequenceCopy_run g tag p h hp.2, bindRes_ok, run_newSequence,
      sequenceNew_run, run_pure, ih _ hrest, wrapCopies, seqInit_snd]

end SCoda.HeapTieL
