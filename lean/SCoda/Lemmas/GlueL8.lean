/-
  Helper lemmas for Props/C03f, part 8: the one-bar runs (`onesOf`) and `SameNotes` between the cut of a run and them.
-/
import SCoda.Lemmas.GlueL7
namespace SCoda.GlueL
open SCoda SCoda.C01 SCoda.ChunksL SCoda.ExtractL SCoda.E2E SCoda.MergeL SCoda.NotesL SCoda.GlueAux SCoda.EQ

/-- the one-bar runs of a run: bar `j` with what `extract` makes of the `j`-th bar sequences alone -/
def onesOf (c : Cfg) : List (Int × Int) → List (List (List Msg)) → List BarEv
  | [], _ => []
  | g :: rest, segs =>
    { num := g.1, den := g.2, evs := extract c.ppqn (segs.map (fun t => t.headD [])) } :: onesOf c rest (segs.map List.tail)

theorem onesOf_length (c : Cfg) : ∀ (sigs : List (Int × Int)) (segs : List (List (List Msg))),
    (onesOf c sigs segs).length = sigs.length := by
  intro sigs
  induction sigs with
  | nil => intro _; rfl
  | cons g rest ih => intro segs; simp only [onesOf, List.length_cons, ih]

theorem onesOf_get (c : Cfg) : ∀ (sigs : List (Int × Int)) (segs : List (List (List Msg))) (i : Nat) (b : BarEv),
    (onesOf c sigs segs)[i]? = some b → b.evs = extract c.ppqn (segs.map (fun t => (t.drop i).headD [])) := by
  intro sigs
  induction sigs with
  | nil => intro segs i b h; simp [onesOf] at h
  | cons g rest ih =>
    intro segs i b h
    cases i with
    | zero =>
      simp only [onesOf, List.getElem?_cons_zero, Option.some.injEq] at h
      rw [← h]
      simp
    | succ i =>
      simp only [onesOf, List.getElem?_cons_succ] at h
      rw [ih _ i b h, List.map_map]
      congr 1
      apply List.map_congr_left
      intro t _
      cases t <;> simp

/-- **the cut of a run has, bar by bar, the same note events (up to order) as the one-bar runs** -/
theorem sameNotes_ones (c : Cfg) : ∀ (sigs : List (Int × Int)) (segs : List (List (List Msg))) (bars : List BarEv),
    RunAll c sigs segs → bars.map (fun b => (b.num, b.den)) = sigs → PermAll bars (barNotes sigs segs) →
    SameNotes c bars (onesOf c sigs segs) := by
  intro sigs
  induction sigs with
  | nil =>
    intro segs bars _ hm _
    cases bars with
    | nil => trivial
    | cons _ _ => simp at hm
  | cons g rest ih =>
    intro segs bars hrun hm hp
    cases bars with
    | nil => simp at hm
    | cons b bs =>
      simp only [List.map_cons, List.cons.injEq] at hm
      obtain ⟨hp1, hp2⟩ := hp
      have hh := runAll_head hrun
      have hg : ∀ i r, (segs.map (fun t => t.headD []))[i]? = some r → TrackGood i r := fun i r h => (hh i r h).good
      have hok : ∀ r ∈ segs.map (fun t => t.headD []), OkRel r := by
        intro r hr
        obtain ⟨i, hi⟩ := List.getElem?_of_mem hr
        exact (hg i r hi).1
      refine ⟨?_, ?_, ih _ bs (runAll_tail hrun) hm.2 hp2⟩
      · simp only [barLen]
        rw [← hm.1]
      · exact hp1.trans (extract_pairs_perm c.ppqn _ hok hg).symm

/-- bar `lo + i` of a track, as the run `[lo, hi)` and as the one-bar run see it -/
theorem seg_at (lo hi i : Nat) (bs : List Bar) (hi' : i < hi - lo) (hlen : hi ≤ bs.length) :
    (((slice lo hi bs).map (·.seq)).drop i).headD [] = barsToSeq ((bs.drop (lo + i)).take 1) := by
  have hlt : lo + i < bs.length := by omega
  have hd : bs.drop (lo + i) = bs[lo + i] :: bs.drop (lo + i + 1) := List.drop_eq_getElem_cons hlt
  have e1 : ((slice lo hi bs).map (·.seq)).drop i = ((bs.drop (lo + i)).take (hi - lo - i)).map (·.seq) := by
    unfold slice
    rw [← List.map_drop, List.drop_take, List.drop_drop]
  have : hi - lo - i = (hi - lo - i - 1) + 1 := by omega
  rw [e1, hd, this, List.take_succ_cons, List.map_cons, List.headD_cons, List.take_succ_cons, List.take_zero]
  simp [barsToSeq]

/-- well-formedness does not look at ticks or waits: it can be read on the relative list or on its timed events -/
theorem altFrom_events (k : Int × Int) : ∀ (r : List Msg) (c : Int) (b : Bool), altFrom k b (eventsRelGo c r) ↔ altFrom k b r := by
  intro r
  induction r with
  | nil => intro c b; rfl
  | cons m ms ih =>
    intro c b
    by_cases hw : m.ty = .wait
    · have a1 : ¬ (m.nkey = k ∧ m.ty = .noteOn) := by rw [hw]; simp
      have a2 : ¬ (m.nkey = k ∧ m.ty = .noteOff) := by rw [hw]; simp
      have e : eventsRelGo c (m :: ms) = eventsRelGo (c + m.time) ms := by simp [eventsRelGo, hw]
      rw [e, ih]
      conv => rhs; rw [altFrom, if_neg a1, if_neg a2]
    · simp only [eventsRelGo, hw, beq_iff_eq, if_false, altFrom]
      have e1 : ({ m with time := c } : Msg).nkey = m.nkey := rfl
      rw [e1, ih, ih, ih]

theorem wf_of_events (r : List Msg) (h : WF (eventsRel r)) : WF r :=
  fun k => (altFrom_events k r 0 false).1 (h k)

end SCoda.GlueL
