/-
  Facts about the `split` model (`SCoda/Model/Split.lean`) against the `Roll` semantics.
-/
import SCoda.Model.Split
import SCoda.Model.Roll
import SCoda.Lemmas.Conv
namespace SCoda.SplitL
open SCoda

/-! ### closing and re-opening the open notes -/

def offOf (kv : (Int × Int) × Msg) : Msg := { ty := .noteOff, ch := kv.2.ch, note := kv.2.note }
def onOf (kv : (Int × Int) × Msg) : Msg := { ty := .noteOn, ch := kv.2.ch, note := kv.2.note, vel := kv.2.vel }

theorem splitCloseOpen_eq (opens : Assoc (Int × Int) Msg) (cur queue : List Msg) :
    splitCloseOpen opens cur queue = ((opens.map offOf).reverse ++ cur, (opens.map onOf).reverse ++ queue) := by
  unfold splitCloseOpen
  induction opens generalizing cur queue with
  | nil => rfl
  | cons kv rest ih =>
    rw [List.foldl_cons, ih]
    simp [offOf, onOf]

/-! ### an induction principle for `splitInner` -/

/-- the piece closed by a wait that does not fit -/
def closedPiece (rem : Int) (m : Msg) (cur : List Msg) (opens : Assoc (Int × Int) Msg) : List Msg :=
  cur.reverse ++ ((if 0 < rem then [Msg.mkWait m.ch rem] else []) ++ opens.map offOf)

/-- the working memory after a wait that does not fit -/
def carried (rem : Int) (m : Msg) (wm queue : List Msg) (opens : Assoc (Int × Int) Msg) : List Msg :=
  queue.reverse ++ (opens.map onOf ++ Msg.mkWait m.ch (m.time - rem) :: wm)

theorem splitInner_inv (P : Int → SplitSt → Prop) (Q : SplitSt → Prop)
    (h_nil : ∀ rem cur queue opens pieces, P rem ⟨[], cur, queue, opens, pieces⟩ →
      Q ⟨[], [], [], opens, if cur = [] then pieces else cur.reverse :: pieces⟩)
    (h_push : ∀ rem m wm cur queue opens pieces, P rem ⟨m :: wm, cur, queue, opens, pieces⟩ →
      m.ty ≠ .noteOff → m.ty ≠ .wait → 0 < rem →
      P rem ⟨wm, m :: cur, queue, if m.ty = .noteOn then opens.set m.nkey m else opens, pieces⟩)
    (h_defer : ∀ rem m wm cur queue opens pieces, P rem ⟨m :: wm, cur, queue, opens, pieces⟩ →
      m.ty ≠ .noteOff → m.ty ≠ .wait → ¬ 0 < rem →
      P rem ⟨wm, cur, m :: queue, opens, pieces⟩)
    (h_off : ∀ rem m wm cur queue opens pieces, P rem ⟨m :: wm, cur, queue, opens, pieces⟩ →
      m.ty = .noteOff →
      P rem ⟨wm, m :: cur, queue, opens.erase m.nkey, pieces⟩)
    (h_fit : ∀ rem m wm cur queue opens pieces, P rem ⟨m :: wm, cur, queue, opens, pieces⟩ →
      m.ty = .wait → m.time ≤ rem →
      P (rem - m.time) ⟨wm, m :: cur, queue, opens, pieces⟩)
    (h_split : ∀ rem m wm cur queue opens pieces, P rem ⟨m :: wm, cur, queue, opens, pieces⟩ →
      m.ty = .wait → rem < m.time →
      Q ⟨carried rem m wm queue opens, [], [], opens,
         if closedPiece rem m cur opens = [] then pieces else closedPiece rem m cur opens :: pieces⟩) :
    ∀ fuel rem s s', P rem s → splitInner fuel rem s = .ok s' → Q s' := by
  intro fuel
  induction fuel with
  | zero => intro rem s s' _ h; simp [splitInner] at h
  | succ fuel ih =>
    intro rem s s' hP h
    obtain ⟨wm, cur, queue, opens, pieces⟩ := s
    cases wm with
    | nil =>
      have := h_nil rem cur queue opens pieces hP
      simp only [splitInner] at h
      split at h
      · rename_i hc
        have hne : cur ≠ [] := by intro h0; simp [h0] at hc
        simp only [Except.ok.injEq] at h
        subst h
        simpa [hne] using this
      · rename_i hc
        have he : cur = [] := by
          cases cur with
          | nil => rfl
          | cons a b => simp at hc
        simp only [Except.ok.injEq] at h
        subst h
        subst he
        simpa using this
    | cons m wm =>
      simp only [splitInner] at h
      split at h
      · rename_i hty
        split at h
        · rename_i hr
          have := h_push rem m wm cur queue opens pieces hP (by simp [hty]) (by simp [hty]) (by omega)
          simp only [hty, if_true] at this
          exact ih _ _ _ this h
        · rename_i hr
          exact ih _ _ _ (h_defer rem m wm cur queue opens pieces hP (by simp [hty]) (by simp [hty]) (by omega)) h
      · rename_i hty
        exact ih _ _ _ (h_off rem m wm cur queue opens pieces hP hty) h
      · rename_i hty
        split at h
        · rename_i hr
          exact ih _ _ _ (h_fit rem m wm cur queue opens pieces hP hty hr) h
        · rename_i hr
          have hq := h_split rem m wm cur queue opens pieces hP hty (by omega)
          simp only [splitCloseOpen_eq, Except.ok.injEq] at h
          subst h
          have e1 : ((List.map offOf opens).reverse ++ if rem > 0 then Msg.mkWait m.ch rem :: cur else cur).reverse
              = closedPiece rem m cur opens := by
            unfold closedPiece
            split <;> simp
          have e2 : (Msg.mkWait m.ch (m.time - rem) :: ((List.map onOf opens).reverse ++ queue)).reverse ++ wm
              = carried rem m wm queue opens := by
            unfold carried; simp
          rw [e1, e2]
          have e3 : (((List.map offOf opens).reverse ++ if rem > 0 then Msg.mkWait m.ch rem :: cur else cur).length > 0)
              ↔ ¬ closedPiece rem m cur opens = [] := by
            rw [← e1]
            simp only [gt_iff_lt, List.length_pos_iff, ne_eq, List.reverse_eq_nil_iff]
          by_cases hcp : closedPiece rem m cur opens = []
          · have : ¬ (((List.map offOf opens).reverse ++ if rem > 0 then Msg.mkWait m.ch rem :: cur else cur).length > 0) := by
              rw [e3]; simpa using hcp
            simp only [this, if_false]
            simpa [hcp] using hq
          · have : (((List.map offOf opens).reverse ++ if rem > 0 then Msg.mkWait m.ch rem :: cur else cur).length > 0) := by
              rw [e3]; exact hcp
            simp only [this, if_true]
            simpa [hcp] using hq
      · rename_i h1 h2 h3
        split at h
        · rename_i hr
          have := h_push rem m wm cur queue opens pieces hP h2 h3 (by omega)
          rw [if_neg h1] at this
          exact ih _ _ _ this h
        · rename_i hr
          exact ih _ _ _ (h_defer rem m wm cur queue opens pieces hP h2 h3 (by omega)) h

/-! ### termination -/

theorem splitInner_total : ∀ fuel rem (s : SplitSt), s.wm.length < fuel → ∃ s', splitInner fuel rem s = .ok s' := by
  intro fuel
  induction fuel with
  | zero => intro rem s h; omega
  | succ fuel ih =>
    intro rem s h
    obtain ⟨wm, cur, queue, opens, pieces⟩ := s
    cases wm with
    | nil =>
      simp only [splitInner]
      split <;> exact ⟨_, rfl⟩
    | cons m wm =>
      simp only [List.length_cons] at h
      simp only [splitInner]
      split
      · split <;> exact ih _ _ (by simpa using by omega)
      · exact ih _ _ (by simpa using by omega)
      · split
        · exact ih _ _ (by simpa using by omega)
        · exact ⟨_, rfl⟩
      · split <;> exact ih _ _ (by simpa using by omega)

theorem splitOuter_total : ∀ caps (s : SplitSt), ∃ s', splitOuter caps s = .ok s' := by
  intro caps
  induction caps with
  | nil => intro s; exact ⟨s, rfl⟩
  | cons c cs ih =>
    intro s
    obtain ⟨s1, h1⟩ := splitInner_total (s.wm.length + 2) c { s with queue := [] } (by simp)
    obtain ⟨s2, h2⟩ := ih s1
    exact ⟨s2, by simp only [splitOuter, h1, bind, Except.bind, h2]⟩

theorem split_eq (r : List Msg) (caps : List Int) (pieces : List (List Msg)) (h : split r caps = .ok pieces) :
    ∃ s, splitOuter caps { wm := r } = .ok s ∧
      pieces = (if s.cur.reverse ++ s.wm = [] then s.pieces else (s.cur.reverse ++ s.wm) :: s.pieces).reverse := by
  obtain ⟨s, hs⟩ := splitOuter_total caps { wm := r }
  refine ⟨s, hs, ?_⟩
  simp only [split, hs, bind, Except.bind, Except.ok.injEq] at h
  rw [← h]
  by_cases hc : s.cur.reverse ++ s.wm = []
  · have : ¬ (s.cur.reverse ++ s.wm).length > 0 := by rw [hc]; simp
    rw [if_pos hc, if_neg this]
  · have : (s.cur.reverse ++ s.wm).length > 0 := List.length_pos_iff.2 hc
    rw [if_pos this, if_neg hc]

/-! ### shape: at most one new non-empty piece per capacity -/

theorem splitInner_shape (fuel : Nat) (rem : Int) (s s' : SplitSt) (h : splitInner fuel rem s = .ok s') :
    s'.cur = [] ∧ s'.queue = [] ∧ ∃ np, s'.pieces = np ++ s.pieces ∧ np.length ≤ 1 ∧ ∀ p ∈ np, p ≠ [] := by
  refine splitInner_inv (fun _ s0 => s0.pieces = s.pieces)
    (fun s' => s'.cur = [] ∧ s'.queue = [] ∧ ∃ np, s'.pieces = np ++ s.pieces ∧ np.length ≤ 1 ∧ ∀ p ∈ np, p ≠ [])
    ?_ ?_ ?_ ?_ ?_ ?_ fuel rem s s' rfl h
  · intro rem cur queue opens pieces hP
    simp only at hP
    refine ⟨rfl, rfl, ?_⟩
    by_cases hc : cur = []
    · exact ⟨[], by simp [hc, hP], by simp, by simp⟩
    · exact ⟨[cur.reverse], by simp [hc, hP], by simp, by simpa using hc⟩
  · intros; assumption
  · intros; assumption
  · intros; assumption
  · intros; assumption
  · intro rem m wm cur queue opens pieces hP _ _
    simp only at hP
    refine ⟨rfl, rfl, ?_⟩
    by_cases hc : closedPiece rem m cur opens = []
    · exact ⟨[], by simp [hc, hP], by simp, by simp⟩
    · exact ⟨[closedPiece rem m cur opens], by simp [hc, hP], by simp, by simpa using hc⟩

theorem splitOuter_shape : ∀ caps (s s' : SplitSt), splitOuter caps s = .ok s' → s.cur = [] →
    s'.cur = [] ∧ ∃ new, s'.pieces = new ++ s.pieces ∧ new.length ≤ caps.length ∧ ∀ p ∈ new, p ≠ [] := by
  intro caps
  induction caps with
  | nil =>
    intro s s' h hc
    simp only [splitOuter, Except.ok.injEq] at h
    subst h
    exact ⟨hc, [], by simp, by simp, by simp⟩
  | cons c cs ih =>
    intro s s' h hc
    simp only [splitOuter, bind, Except.bind] at h
    split at h
    · simp at h
    · rename_i s1 h1
      obtain ⟨hc1, _, np, hp1, hl1, hn1⟩ := splitInner_shape _ _ _ _ h1
      obtain ⟨hc2, new, hp2, hl2, hn2⟩ := ih s1 s' h hc1
      refine ⟨hc2, new ++ np, ?_, ?_, ?_⟩
      · rw [hp2, hp1]; simp
      · simp only [List.length_append, List.length_cons]; omega
      · intro p hp
        rcases List.mem_append.1 hp with hp | hp
        · exact hn2 p hp
        · exact hn1 p hp

/-! ### clocks, waits, events of lists -/

theorem totalWait_reverse (l : List Msg) : totalWait l.reverse = totalWait l := by
  induction l with
  | nil => rfl
  | cons m ms ih => simp only [List.reverse_cons, totalWait_append, ih, totalWait]; omega

theorem totalWait_nonneg (l : List Msg) (h : NonNegWaits l) : 0 ≤ totalWait l := by
  induction l with
  | nil => simp [totalWait]
  | cons m ms ih =>
    have h1 : NonNegWaits ms := fun x hx => h x (List.mem_cons_of_mem _ hx)
    have h2 := h m (List.mem_cons_self)
    have := ih h1
    simp only [totalWait]
    split
    · rename_i hw
      have := h2 (by simpa using hw)
      omega
    · omega

theorem totalWait_nowait (l : List Msg) (h : ∀ m ∈ l, m.ty ≠ .wait) : totalWait l = 0 := by
  induction l with
  | nil => rfl
  | cons m ms ih =>
    have := ih (fun x hx => h x (List.mem_cons_of_mem _ hx))
    have := h m List.mem_cons_self
    simp [totalWait, *]

theorem eventsRelGo_append (a : Int) (u y : List Msg) :
    eventsRelGo a (u ++ y) = eventsRelGo a u ++ eventsRelGo (a + totalWait u) y := by
  induction u generalizing a with
  | nil => simp [eventsRelGo, totalWait]
  | cons m ms ih =>
    simp only [List.cons_append, eventsRelGo, totalWait]
    split
    · rw [ih]; congr 2; omega
    · rw [ih]; simp

theorem eventsRelGo_nowait (a : Int) (l : List Msg) (h : ∀ m ∈ l, m.ty ≠ .wait) :
    eventsRelGo a l = l.map (fun m => { m with time := a }) := by
  induction l with
  | nil => rfl
  | cons m ms ih =>
    have := ih (fun x hx => h x (List.mem_cons_of_mem _ hx))
    have := h m List.mem_cons_self
    simp [eventsRelGo, *]

theorem nonNegWaits_append {a b : List Msg} : NonNegWaits (a ++ b) ↔ NonNegWaits a ∧ NonNegWaits b := by
  simp only [NonNegWaits, List.mem_append]
  constructor
  · intro h; exact ⟨fun m hm => h m (Or.inl hm), fun m hm => h m (Or.inr hm)⟩
  · rintro ⟨h1, h2⟩ m (hm | hm)
    · exact h1 m hm
    · exact h2 m hm

theorem nonNegWaits_nowait (l : List Msg) (h : ∀ m ∈ l, m.ty ≠ .wait) : NonNegWaits l :=
  fun m hm hw => absurd hw (h m hm)

theorem offOf_ty (kv) : (offOf kv).ty = .noteOff := rfl
theorem onOf_ty (kv) : (onOf kv).ty = .noteOn := rfl

theorem map_offOf_nowait (opens : Assoc (Int × Int) Msg) : ∀ m ∈ opens.map offOf, m.ty ≠ .wait := by
  intro m hm; simp only [List.mem_map] at hm; obtain ⟨kv, _, rfl⟩ := hm; simp [offOf]
theorem map_onOf_nowait (opens : Assoc (Int × Int) Msg) : ∀ m ∈ opens.map onOf, m.ty ≠ .wait := by
  intro m hm; simp only [List.mem_map] at hm; obtain ⟨kv, _, rfl⟩ := hm; simp [onOf]

/-- the timed non-note events of a relative list started at clock `a` -/
def N (a : Int) (l : List Msg) : List Msg := nonNotes (eventsRelGo a l)

theorem N_append (a : Int) (u y : List Msg) : N a (u ++ y) = N a u ++ N (a + totalWait u) y := by
  simp [N, eventsRelGo_append, nonNotes]

theorem N_nil (a : Int) : N a [] = [] := rfl

theorem N_cons_wait (a : Int) (m : Msg) (l : List Msg) (h : m.ty = .wait) : N a (m :: l) = N (a + m.time) l := by
  simp [N, eventsRelGo, h]

theorem N_mkWait (a c t : Int) (l : List Msg) : N a (Msg.mkWait c t :: l) = N (a + t) l :=
  N_cons_wait a _ l rfl

theorem totalWait_mkWait (c t : Int) (l : List Msg) : totalWait (Msg.mkWait c t :: l) = t + totalWait l := by
  simp [totalWait, Msg.mkWait]

theorem totalWait_nil : totalWait [] = 0 := rfl

theorem N_cons_note (a : Int) (m : Msg) (l : List Msg) (h : m.ty = .noteOn ∨ m.ty = .noteOff) :
    N a (m :: l) = N a l := by
  rcases h with h | h <;> simp [N, eventsRelGo, h, nonNotes]

theorem N_notes (a : Int) (l : List Msg) (h : ∀ m ∈ l, m.ty = .noteOn ∨ m.ty = .noteOff) : N a l = [] := by
  induction l with
  | nil => rfl
  | cons m ms ih =>
    rw [N_cons_note a m ms (h m List.mem_cons_self)]
    exact ih (fun x hx => h x (List.mem_cons_of_mem _ hx))

theorem N_offs (a : Int) (opens : Assoc (Int × Int) Msg) : N a (opens.map offOf) = [] :=
  N_notes a _ (by intro m hm; simp only [List.mem_map] at hm; obtain ⟨kv, _, rfl⟩ := hm; simp [offOf])
theorem N_ons (a : Int) (opens : Assoc (Int × Int) Msg) : N a (opens.map onOf) = [] :=
  N_notes a _ (by intro m hm; simp only [List.mem_map] at hm; obtain ⟨kv, _, rfl⟩ := hm; simp [onOf])

theorem N_time_nowait (a : Int) (l : List Msg) (h : ∀ m ∈ l, m.ty ≠ .wait) : ∀ e ∈ N a l, e.time = a := by
  intro e he
  simp only [N, nonNotes, eventsRelGo_nowait a l h, List.mem_filter, List.mem_map] at he
  obtain ⟨⟨m, _, rfl⟩, _⟩ := he
  rfl

theorem N_mem_eventsRelGo (a : Int) (l : List Msg) : ∀ e ∈ N a l, e ∈ eventsRelGo a l ∧ e.ty ≠ .noteOff := by
  intro e he
  simp only [N, nonNotes, List.mem_filter] at he
  refine ⟨he.1, ?_⟩
  intro h; simp [h] at he

/-! ### the basic loop invariant of `splitInner` (capacity `c > 0`, non-negative waits) -/

structure Base (c rem : Int) (s : SplitSt) : Prop where
  rem_nonneg : 0 ≤ rem
  tw_cur : totalWait s.cur + rem = c
  nnw : NonNegWaits s.wm
  nnc : NonNegWaits s.cur
  q_nowait : ∀ q ∈ s.queue, q.ty ≠ .wait
  q_nooff : ∀ q ∈ s.queue, q.ty ≠ .noteOff
  q_rem : s.queue ≠ [] → rem = 0

theorem nonNegWaits_tail {m : Msg} {l : List Msg} (h : NonNegWaits (m :: l)) : NonNegWaits l :=
  fun x hx => h x (List.mem_cons_of_mem _ hx)

theorem nonNegWaits_cons_nowait {m : Msg} {l : List Msg} (hm : m.ty ≠ .wait) (h : NonNegWaits l) :
    NonNegWaits (m :: l) := by
  intro x hx hw
  rcases List.mem_cons.1 hx with rfl | hx
  · exact absurd hw hm
  · exact h x hx hw

theorem Base.push {c rem m wm cur queue opens pieces} (opens' : Assoc (Int × Int) Msg)
    (h : Base c rem ⟨m :: wm, cur, queue, opens, pieces⟩) (hw : m.ty ≠ .wait) :
    Base c rem ⟨wm, m :: cur, queue, opens', pieces⟩ := by
  obtain ⟨h1, h2, h3, h4, h5, h6, h7⟩ := h
  refine ⟨h1, ?_, nonNegWaits_tail h3, nonNegWaits_cons_nowait hw h4, h5, h6, h7⟩
  simp only [totalWait] at h2 ⊢
  simp [hw]; omega

theorem Base.defer {c rem m wm cur queue opens pieces}
    (h : Base c rem ⟨m :: wm, cur, queue, opens, pieces⟩) (hw : m.ty ≠ .wait) (ho : m.ty ≠ .noteOff)
    (hr : ¬ 0 < rem) :
    Base c rem ⟨wm, cur, m :: queue, opens, pieces⟩ := by
  obtain ⟨h1, h2, h3, h4, h5, h6, h7⟩ := h
  refine ⟨h1, h2, nonNegWaits_tail h3, h4, ?_, ?_, ?_⟩
  · intro q hq; rcases List.mem_cons.1 hq with rfl | hq
    · exact hw
    · exact h5 q hq
  · intro q hq; rcases List.mem_cons.1 hq with rfl | hq
    · exact ho
    · exact h6 q hq
  · intro _; omega

theorem Base.fit {c rem m wm cur queue opens pieces}
    (h : Base c rem ⟨m :: wm, cur, queue, opens, pieces⟩) (hw : m.ty = .wait) (hr : m.time ≤ rem) :
    Base c (rem - m.time) ⟨wm, m :: cur, queue, opens, pieces⟩ := by
  obtain ⟨h1, h2, h3, h4, h5, h6, h7⟩ := h
  have hm : 0 ≤ m.time := h3 m List.mem_cons_self hw
  refine ⟨by omega, ?_, nonNegWaits_tail h3, ?_, h5, h6, ?_⟩
  · simp only [totalWait] at h2 ⊢
    simp [hw]; omega
  · intro x hx hxw
    rcases List.mem_cons.1 hx with rfl | hx
    · exact hm
    · exact h4 x hx hxw
  · intro hq; have := h7 hq; omega

theorem splitInner_invB (c : Int) (P : Int → SplitSt → Prop) (Q : SplitSt → Prop)
    (h_nil : ∀ rem cur queue opens pieces, Base c rem ⟨[], cur, queue, opens, pieces⟩ →
      P rem ⟨[], cur, queue, opens, pieces⟩ →
      Q ⟨[], [], [], opens, if cur = [] then pieces else cur.reverse :: pieces⟩)
    (h_push : ∀ rem m wm cur opens pieces, Base c rem ⟨m :: wm, cur, [], opens, pieces⟩ →
      P rem ⟨m :: wm, cur, [], opens, pieces⟩ →
      m.ty ≠ .noteOff → m.ty ≠ .wait → 0 < rem →
      P rem ⟨wm, m :: cur, [], if m.ty = .noteOn then opens.set m.nkey m else opens, pieces⟩)
    (h_defer : ∀ m wm cur queue opens pieces, Base c 0 ⟨m :: wm, cur, queue, opens, pieces⟩ →
      P 0 ⟨m :: wm, cur, queue, opens, pieces⟩ →
      m.ty ≠ .noteOff → m.ty ≠ .wait →
      P 0 ⟨wm, cur, m :: queue, opens, pieces⟩)
    (h_off : ∀ rem m wm cur queue opens pieces, Base c rem ⟨m :: wm, cur, queue, opens, pieces⟩ →
      P rem ⟨m :: wm, cur, queue, opens, pieces⟩ →
      m.ty = .noteOff →
      P rem ⟨wm, m :: cur, queue, opens.erase m.nkey, pieces⟩)
    (h_fit : ∀ rem m wm cur queue opens pieces, Base c rem ⟨m :: wm, cur, queue, opens, pieces⟩ →
      P rem ⟨m :: wm, cur, queue, opens, pieces⟩ →
      m.ty = .wait → m.time ≤ rem → 0 ≤ m.time → (queue ≠ [] → m.time = 0) →
      P (rem - m.time) ⟨wm, m :: cur, queue, opens, pieces⟩)
    (h_split : ∀ rem m wm cur queue opens pieces, Base c rem ⟨m :: wm, cur, queue, opens, pieces⟩ →
      P rem ⟨m :: wm, cur, queue, opens, pieces⟩ →
      m.ty = .wait → rem < m.time →
      Q ⟨carried rem m wm queue opens, [], [], opens,
         if closedPiece rem m cur opens = [] then pieces else closedPiece rem m cur opens :: pieces⟩) :
    ∀ fuel rem s s', Base c rem s → P rem s → splitInner fuel rem s = .ok s' → Q s' := by
  intro fuel rem s s' hB hP h
  refine splitInner_inv (fun rem s => Base c rem s ∧ P rem s) Q ?_ ?_ ?_ ?_ ?_ ?_ fuel rem s s' ⟨hB, hP⟩ h
  · intro rem cur queue opens pieces ⟨hB, hP⟩
    exact h_nil _ _ _ _ _ hB hP
  · intro rem m wm cur queue opens pieces ⟨hB, hP⟩ h1 h2 h3
    have hq : queue = [] := by
      apply Classical.byContradiction
      intro hq
      have := hB.q_rem hq
      omega
    subst hq
    exact ⟨hB.push _ h2, h_push _ _ _ _ _ _ hB hP h1 h2 h3⟩
  · intro rem m wm cur queue opens pieces ⟨hB, hP⟩ h1 h2 h3
    have hr : rem = 0 := by have := hB.rem_nonneg; omega
    subst hr
    exact ⟨hB.defer h2 h1 h3, h_defer _ _ _ _ _ _ hB hP h1 h2⟩
  · intro rem m wm cur queue opens pieces ⟨hB, hP⟩ h1
    exact ⟨hB.push _ (by simp [h1]), h_off _ _ _ _ _ _ _ hB hP h1⟩
  · intro rem m wm cur queue opens pieces ⟨hB, hP⟩ h1 h2
    have hm : 0 ≤ m.time := hB.nnw m List.mem_cons_self h1
    refine ⟨hB.fit h1 h2, h_fit _ _ _ _ _ _ _ hB hP h1 h2 hm ?_⟩
    intro hq
    have := hB.q_rem hq
    omega
  · intro rem m wm cur queue opens pieces ⟨hB, hP⟩ h1 h2
    exact h_split _ _ _ _ _ _ _ hB hP h1 h2

/-! ### durations and non-note events through one run of the inner loop -/

theorem N_move (b : Int) (q w : List Msg) (m : Msg) (hq : ∀ x ∈ q, x.ty ≠ .wait)
    (hm : m.ty = .noteOff ∨ (m.ty = .wait ∧ (q ≠ [] → m.time = 0))) :
    N b (m :: (q ++ w)) = N b (q ++ m :: w) := by
  rw [N_append, totalWait_nowait q hq]
  rcases hm with hm | ⟨hm, h0⟩
  · rw [N_cons_note _ _ _ (Or.inr hm), N_cons_note _ _ _ (Or.inr hm), N_append, totalWait_nowait q hq]
  · rw [N_cons_wait _ _ _ hm, N_cons_wait _ _ _ hm]
    by_cases hqn : q = []
    · subst hqn; simp [N_nil]
    · rw [h0 hqn, N_append, totalWait_nowait q hq]; simp

theorem totalWait_move (q w : List Msg) (m : Msg) :
    totalWait (m :: (q ++ w)) = totalWait (q ++ m :: w) := by
  simp only [totalWait, totalWait_append]; omega

def TimingQ (c A : Int) (wm0 : List Msg) (pieces0 : List (List Msg)) (s' : SplitSt) : Prop :=
  s'.cur = [] ∧ s'.queue = [] ∧ NonNegWaits s'.wm ∧
  ∃ np, s'.pieces = np ++ pieces0 ∧ np.length ≤ 1 ∧
    totalWait (np.flatten ++ s'.wm) = totalWait wm0 ∧
    (N A (np.flatten ++ s'.wm)).Sublist (N A wm0) ∧
    ((∃ p, np = [p] ∧ totalWait p = c ∧ N A (p ++ s'.wm) = N A wm0) ∨
     (s'.wm = [] ∧ (N A np.flatten = N A wm0 ∨ (totalWait wm0 = c ∧ ∃ e ∈ N A wm0, e.time = A + c))))

theorem base_init (c : Int) (hc : 0 < c) (s : SplitSt) (hcur : s.cur = []) (hq : s.queue = [])
    (hw : NonNegWaits s.wm) : Base c c s := by
  refine ⟨by omega, by simp [hcur, totalWait], hw, by simp [hcur, NonNegWaits], by simp [hq], by simp [hq], by simp [hq]⟩

theorem splitInner_timing (c A : Int) (hc : 0 < c) (fuel : Nat) (s s' : SplitSt) (hcur : s.cur = [])
    (hq : s.queue = []) (hw : NonNegWaits s.wm) (h : splitInner fuel c s = .ok s') :
    TimingQ c A s.wm s.pieces s' := by
  refine splitInner_invB c
    (fun _ s0 => s0.pieces = s.pieces
      ∧ N A (s0.cur.reverse ++ (s0.queue.reverse ++ s0.wm)) = N A s.wm
      ∧ totalWait (s0.cur.reverse ++ (s0.queue.reverse ++ s0.wm)) = totalWait s.wm)
    (TimingQ c A s.wm s.pieces) ?_ ?_ ?_ ?_ ?_ ?_ fuel c s s' (base_init c hc s hcur hq hw)
    ⟨rfl, by simp [hcur, hq], by simp [hcur, hq]⟩ h
  · -- end of input
    intro rem cur queue opens pieces hB ⟨hp, hN, hT⟩
    simp only [List.append_nil] at hp hN hT
    have hqw := totalWait_nowait queue.reverse (by simpa using hB.q_nowait)
    have htc := hB.tw_cur
    simp only at htc
    rw [N_append] at hN
    rw [totalWait_append, hqw] at hT
    refine ⟨rfl, rfl, by simp [NonNegWaits], (if cur = [] then [] else [cur.reverse]), ?_, ?_, ?_⟩
    · simp only [hp]; split <;> simp
    · split <;> simp
    · have hfl : (if cur = [] then [] else [cur.reverse]).flatten = cur.reverse := by
        split
        · rename_i h0; simp [h0]
        · simp
      rw [hfl]
      simp only [List.append_nil]
      refine ⟨by omega, ?_, Or.inr ⟨trivial, ?_⟩⟩
      · rw [← hN]; exact List.sublist_append_left _ _
      · by_cases hqe : N (A + totalWait cur.reverse) queue.reverse = []
        · left; rw [← hN, hqe]; simp
        · right
          obtain ⟨e, he⟩ := List.exists_mem_of_ne_nil _ hqe
          have hqne : queue ≠ [] := by
            intro h0; subst h0; simp [N_nil] at he
          have hr := hB.q_rem hqne
          have het := N_time_nowait _ _ (by simpa using hB.q_nowait) e he
          rw [totalWait_reverse] at het hT
          refine ⟨by omega, e, ?_, by omega⟩
          rw [← hN]; exact List.mem_append_right _ he
  · -- push
    intro rem m wm cur opens pieces hB ⟨hp, hN, hT⟩ _ _ _
    exact ⟨hp, by simpa using hN, by simpa using hT⟩
  · -- defer
    intro m wm cur queue opens pieces hB ⟨hp, hN, hT⟩ _ _
    exact ⟨hp, by simpa using hN, by simpa using hT⟩
  · -- note-off
    intro rem m wm cur queue opens pieces hB ⟨hp, hN, hT⟩ hm
    refine ⟨hp, ?_, ?_⟩
    · simp only [List.reverse_cons, List.append_assoc, List.singleton_append] at hN ⊢
      rw [N_append] at hN ⊢
      rw [N_move _ _ _ _ (by simpa using hB.q_nowait) (Or.inl hm)]
      exact hN
    · simp only [List.reverse_cons, List.append_assoc, List.singleton_append] at hT ⊢
      rw [totalWait_append] at hT ⊢
      rw [totalWait_move]; exact hT
  · -- wait that fits
    intro rem m wm cur queue opens pieces hB ⟨hp, hN, hT⟩ hm _ _ h0
    refine ⟨hp, ?_, ?_⟩
    · simp only [List.reverse_cons, List.append_assoc, List.singleton_append] at hN ⊢
      rw [N_append] at hN ⊢
      rw [N_move _ _ _ _ (by simpa using hB.q_nowait) (Or.inr ⟨hm, by simpa using h0⟩)]
      exact hN
    · simp only [List.reverse_cons, List.append_assoc, List.singleton_append] at hT ⊢
      rw [totalWait_append] at hT ⊢
      rw [totalWait_move]; exact hT
  · -- wait that does not fit
    intro rem m wm cur queue opens pieces hB ⟨hp, hN, hT⟩ hm hr
    simp only at hp hN hT
    have hqw := totalWait_nowait queue.reverse (by simpa using hB.q_nowait)
    have hoff := totalWait_nowait _ (map_offOf_nowait opens)
    have hon := totalWait_nowait _ (map_onOf_nowait opens)
    have htc := hB.tw_cur
    have hr0 := hB.rem_nonneg
    simp only at htc
    have hcp : totalWait (closedPiece rem m cur opens) = c := by
      unfold closedPiece
      rw [totalWait_append, totalWait_append, hoff, totalWait_reverse]
      split
      · simp [totalWait, Msg.mkWait]; omega
      · simp [totalWait]; omega
    have hne : closedPiece rem m cur opens ≠ [] := by
      intro h0; rw [h0] at hcp; simp [totalWait] at hcp; omega
    have hcar : totalWait (carried rem m wm queue opens) = m.time - rem + totalWait wm := by
      unfold carried
      rw [totalWait_append, totalWait_append, hqw, hon]
      simp [totalWait, Msg.mkWait]
    have hT' : totalWait cur + (m.time + totalWait wm) = totalWait s.wm := by
      rw [totalWait_append, totalWait_append, hqw, totalWait_reverse] at hT
      simpa [totalWait, hm] using hT
    have hNN : N A (closedPiece rem m cur opens ++ carried rem m wm queue opens) = N A s.wm := by
      rw [← hN]
      unfold closedPiece carried
      simp only [List.append_assoc]
      rw [N_append, N_append A]
      congr 1
      by_cases hqe : queue = []
      · subst hqe
        simp only [List.reverse_nil, List.nil_append]
        rw [N_append, N_append, N_offs, N_append, N_ons, N_mkWait, N_cons_wait _ _ _ hm, hoff, hon]
        split
        · simp only [N_mkWait, N_nil, totalWait_mkWait, totalWait_nil, List.nil_append]
          congr 1; omega
        · simp only [N_nil, totalWait_nil, List.nil_append]; congr 1; omega
      · have hr1 := hB.q_rem hqe
        have : ¬ 0 < rem := by omega
        simp only [this, if_false, List.nil_append]
        rw [N_append, N_offs, N_append, N_append _ queue.reverse, N_append, N_ons,
          N_mkWait, N_cons_wait _ _ _ hm, hoff, hon, hqw]
        simp [hr1]
    refine ⟨rfl, rfl, ?_, [closedPiece rem m cur opens], by simp [hne, hp], by simp, ?_, ?_, Or.inl ⟨_, rfl, hcp, ?_⟩⟩
    · unfold carried
      rw [nonNegWaits_append, nonNegWaits_append]
      refine ⟨nonNegWaits_nowait _ (by simpa using hB.q_nowait), nonNegWaits_nowait _ (map_onOf_nowait opens), ?_⟩
      intro x hx hxw
      rcases List.mem_cons.1 hx with rfl | hx
      · simp [Msg.mkWait]; omega
      · exact hB.nnw x (List.mem_cons_of_mem _ hx) hxw
    · simp only [List.flatten_cons, List.flatten_nil, List.append_nil]
      rw [totalWait_append, hcp, hcar]; omega
    · simp only [List.flatten_cons, List.flatten_nil, List.append_nil]
      rw [hNN]; exact List.Sublist.refl _
    · simpa using hNN

/-! ### durations and non-note events through the outer loop -/

/-- cumulative capacities -/
def cums : Int → List Int → List Int
  | _, [] => []
  | acc, c :: cs => (acc + c) :: cums (acc + c) cs

theorem splitOuter_wm_nil : ∀ caps (s s' : SplitSt), s.wm = [] → s.cur = [] → splitOuter caps s = .ok s' →
    s'.wm = [] ∧ s'.cur = [] ∧ s'.pieces = s.pieces ∧ s'.opens = s.opens := by
  intro caps
  induction caps with
  | nil =>
    intro s s' h1 h2 h
    simp only [splitOuter, Except.ok.injEq] at h
    subst h
    exact ⟨h1, h2, rfl, rfl⟩
  | cons c cs ih =>
    intro s s' h1 h2 h
    obtain ⟨wm, cur, queue, opens, pieces⟩ := s
    simp only at h1 h2
    subst h1 h2
    simp only [splitOuter, bind, Except.bind, splitInner, List.length_nil, gt_iff_lt, Nat.lt_irrefl, if_false] at h
    exact ih ⟨[], [], [], opens, pieces⟩ s' rfl rfl h

theorem reverse_short {α} (l : List α) (h : l.length ≤ 1) : l.reverse = l := by
  cases l with
  | nil => rfl
  | cons a t =>
    cases t with
    | nil => rfl
    | cons b u => simp at h

def OuterQ (A : Int) (caps : List Int) (wm0 : List Msg) (pieces0 : List (List Msg)) (s' : SplitSt) : Prop :=
  s'.cur = [] ∧ ∃ new : List (List Msg), s'.pieces = new.reverse ++ pieces0 ∧
    totalWait (new.flatten ++ s'.wm) = totalWait wm0 ∧
    (N A (new.flatten ++ s'.wm)).Sublist (N A wm0) ∧
    ((new.map totalWait = caps ∧ N A (new.flatten ++ s'.wm) = N A wm0) ∨
     (s'.wm = [] ∧ ∃ full last : List (List Msg), new = full ++ last ∧ last.length ≤ 1 ∧ full.length < caps.length ∧
        full.map totalWait = caps.take full.length ∧
        (N A new.flatten = N A wm0 ∨
          (A + totalWait wm0 ∈ cums A caps ∧ ∃ e ∈ N A wm0, e.time = A + totalWait wm0))))

theorem splitOuter_timing : ∀ caps A (s s' : SplitSt), (∀ c ∈ caps, 0 < c) → s.cur = [] → NonNegWaits s.wm →
    splitOuter caps s = .ok s' → OuterQ A caps s.wm s.pieces s' := by
  intro caps
  induction caps with
  | nil =>
    intro A s s' _ hc _ h
    simp only [splitOuter, Except.ok.injEq] at h
    subst h
    exact ⟨hc, [], by simp, by simp, by simp, Or.inl ⟨rfl, by simp⟩⟩
  | cons c cs ih =>
    intro A s s' hpos hc hw h
    simp only [splitOuter, bind, Except.bind] at h
    split at h
    · simp at h
    · rename_i s1 h1
      have hcp : 0 < c := hpos c List.mem_cons_self
      obtain ⟨hc1, hq1, hw1, np, hp1, hl1, ht1, hs1, hd1⟩ :=
        splitInner_timing c A hcp _ { s with queue := [] } s1 hc rfl hw h1
      simp only at hp1 ht1 hs1 hd1
      rcases hd1 with ⟨p, rfl, hpc, hN1⟩ | ⟨hwm1, hd1⟩
      · -- the piece was filled
        obtain ⟨hc2, new, hp2, ht2, hs2, hd2⟩ :=
          ih (A + c) s1 s' (fun x hx => hpos x (List.mem_cons_of_mem _ hx)) hc1 hw1 h
        simp only [List.flatten_cons, List.flatten_nil, List.append_nil] at ht1 hs1
        have hNp : ∀ l, N A (p ++ l) = N A p ++ N (A + c) l := by
          intro l; rw [N_append, hpc]
        refine ⟨hc2, p :: new, by rw [hp2, hp1]; simp, ?_, ?_, ?_⟩
        · simp only [List.flatten_cons, List.append_assoc]
          rw [totalWait_append, ht2, ← totalWait_append, ht1]
        · simp only [List.flatten_cons, List.append_assoc]
          rw [hNp, ← hN1, hNp]
          exact List.Sublist.append (List.Sublist.refl _) hs2
        · rcases hd2 with ⟨hm2, hN2⟩ | ⟨hwm2, full, last, hfl, hll, hfl2, hft, hd2⟩
          · left
            refine ⟨by simp [hm2, hpc], ?_⟩
            simp only [List.flatten_cons, List.append_assoc]
            rw [hNp, hN2, ← hNp, hN1]
          · right
            refine ⟨hwm2, p :: full, last, by simp [hfl], hll, by simp; omega, by simp [hft, hpc], ?_⟩
            rw [totalWait_append, hpc] at ht1
            rcases hd2 with hN2 | ⟨hcm, e, he, het⟩
            · left
              simp only [List.flatten_cons]
              rw [hNp, hN2, ← hNp, hN1]
            · right
              refine ⟨?_, e, ?_, by omega⟩
              · simp only [cums, List.mem_cons]
                right
                rw [show A + totalWait s.wm = A + c + totalWait s1.wm by omega]
                exact hcm
              · rw [← hN1, hNp]; exact List.mem_append_right _ he
      · -- the input ended
        obtain ⟨hwm2, hc2, hp2, _⟩ := splitOuter_wm_nil cs s1 s' hwm1 hc1 h
        refine ⟨hc2, np.reverse, by rw [hp2, hp1]; simp, ?_, ?_, Or.inr ⟨hwm2, [], np.reverse, by simp, by simpa using hl1, by simp, by simp, ?_⟩⟩
        · have : np.reverse = np := reverse_short np hl1
          rw [this, hwm2, ← hwm1]; exact ht1
        · have : np.reverse = np := reverse_short np hl1
          rw [this, hwm2, ← hwm1]; exact hs1
        · have : np.reverse = np := reverse_short np hl1
          rw [this]
          rcases hd1 with hN | ⟨htc, e, he, het⟩
          · left; exact hN
          · right
            refine ⟨?_, e, he, by omega⟩
            simp only [cums, List.mem_cons]
            left; omega

/-! ### membership in the timed events -/

theorem mem_eventsRelGo_append {e : Msg} (a : Int) (u y : List Msg) :
    e ∈ eventsRelGo a (u ++ y) ↔ e ∈ eventsRelGo a u ∨ e ∈ eventsRelGo (a + totalWait u) y := by
  rw [eventsRelGo_append, List.mem_append]

theorem eventsRelGo_cons_wait (a : Int) (m : Msg) (l : List Msg) (h : m.ty = .wait) :
    eventsRelGo a (m :: l) = eventsRelGo (a + m.time) l := by
  simp [eventsRelGo, h]

theorem eventsRelGo_cons_nowait (a : Int) (m : Msg) (l : List Msg) (h : m.ty ≠ .wait) :
    eventsRelGo a (m :: l) = { m with time := a } :: eventsRelGo a l := by
  simp [eventsRelGo, h]

theorem eventsRelGo_mkWait (a c t : Int) (l : List Msg) :
    eventsRelGo a (Msg.mkWait c t :: l) = eventsRelGo (a + t) l :=
  eventsRelGo_cons_wait a _ l rfl

/-- moving a note-off or a zero wait across the (wait-free) queue does not change the set of timed events -/
theorem mem_eventsRelGo_move {e : Msg} (b : Int) (q w : List Msg) (m : Msg) (hq : ∀ x ∈ q, x.ty ≠ .wait)
    (hm : m.ty = .wait → q ≠ [] → m.time = 0) :
    e ∈ eventsRelGo b (m :: (q ++ w)) ↔ e ∈ eventsRelGo b (q ++ m :: w) := by
  rw [mem_eventsRelGo_append, totalWait_nowait q hq]
  by_cases hw : m.ty = .wait
  · rw [eventsRelGo_cons_wait _ _ _ hw, eventsRelGo_cons_wait _ _ _ hw]
    by_cases hqn : q = []
    · subst hqn; simp [eventsRelGo]
    · rw [hm hw hqn, mem_eventsRelGo_append, totalWait_nowait q hq]; simp
  · rw [eventsRelGo_cons_nowait _ _ _ hw, eventsRelGo_cons_nowait _ _ _ hw, List.mem_cons, List.mem_cons,
      mem_eventsRelGo_append, totalWait_nowait q hq]
    simp only [Int.add_zero]
    constructor
    · rintro (h | h | h)
      · exact Or.inr (Or.inl h)
      · exact Or.inl h
      · exact Or.inr (Or.inr h)
    · rintro (h | h | h)
      · exact Or.inr (Or.inl h)
      · exact Or.inl h
      · exact Or.inr (Or.inr h)

/-! ### velocities -/

/-- some original note-on of key `k` with velocity `v` happens at or before tick `t` -/
def VelAt (R : List Msg) (k : Int × Int) (v t : Int) : Prop :=
  ∃ m0 ∈ R, m0.ty = .noteOn ∧ m0.nkey = k ∧ m0.vel = v ∧ m0.time ≤ t

theorem VelAt.mono {R k v t t'} (h : VelAt R k v t) (ht : t ≤ t') : VelAt R k v t' := by
  obtain ⟨m0, h1, h2, h3, h4, h5⟩ := h
  exact ⟨m0, h1, h2, h3, h4, by omega⟩

/-- all note-ons among the timed events of `l` (started at clock `a`) are justified -/
def VelEv (R : List Msg) (a : Int) (l : List Msg) : Prop :=
  ∀ e ∈ eventsRelGo a l, e.ty = .noteOn → VelAt R e.nkey e.vel e.time

def VelOpens (R : List Msg) (opens : Assoc (Int × Int) Msg) (t : Int) : Prop :=
  ∀ kv ∈ opens, VelAt R (kv.2.ch, kv.2.note) kv.2.vel t

theorem mem_assoc_set {κ ν : Type} [DecidableEq κ] (d : Assoc κ ν) (k : κ) (v : ν) :
    ∀ kv ∈ d.set k v, kv ∈ d ∨ kv = (k, v) := by
  induction d with
  | nil => intro kv h; simp [Assoc.set] at h; exact Or.inr h
  | cons x rest ih =>
    intro kv h
    obtain ⟨k', w⟩ := x
    simp only [Assoc.set] at h
    split at h
    · rename_i hk
      rcases List.mem_cons.1 h with h | h
      · right; rw [h, hk]
      · left; exact List.mem_cons_of_mem _ h
    · rcases List.mem_cons.1 h with h | h
      · left; rw [h]; exact List.mem_cons_self
      · rcases ih kv h with h | h
        · left; exact List.mem_cons_of_mem _ h
        · right; exact h

theorem mem_assoc_erase {κ ν : Type} [DecidableEq κ] (d : Assoc κ ν) (k : κ) :
    ∀ kv ∈ d.erase k, kv ∈ d := by
  induction d with
  | nil => intro kv h; simp [Assoc.erase] at h
  | cons x rest ih =>
    intro kv h
    obtain ⟨k', w⟩ := x
    simp only [Assoc.erase] at h
    split at h
    · exact List.mem_cons_of_mem _ h
    · rcases List.mem_cons.1 h with h | h
      · rw [h]; exact List.mem_cons_self
      · exact List.mem_cons_of_mem _ (ih kv h)

def VelQ (R : List Msg) (A : Int) (pieces0 : List (List Msg)) (s' : SplitSt) : Prop :=
  ∃ np : List (List Msg), s'.pieces = np ++ pieces0 ∧ np.length ≤ 1 ∧
    VelEv R A (np.flatten ++ s'.wm) ∧ VelOpens R s'.opens (A + totalWait np.flatten)

theorem splitInner_vel (R : List Msg) (c A : Int) (hc : 0 < c) (fuel : Nat) (s s' : SplitSt) (hcur : s.cur = [])
    (hq : s.queue = []) (hw : NonNegWaits s.wm) (hev : VelEv R A s.wm) (hop : VelOpens R s.opens A)
    (h : splitInner fuel c s = .ok s') : VelQ R A s.pieces s' := by
  refine splitInner_invB c
    (fun _ s0 => s0.pieces = s.pieces
      ∧ VelEv R A (s0.cur.reverse ++ (s0.queue.reverse ++ s0.wm))
      ∧ VelOpens R s0.opens (A + totalWait s0.cur))
    (VelQ R A s.pieces) ?_ ?_ ?_ ?_ ?_ ?_ fuel c s s' (base_init c hc s hcur hq hw)
    ⟨rfl, by simpa [hcur, hq] using hev, by simpa [hcur, totalWait] using hop⟩ h
  · -- end of input
    intro rem cur queue opens pieces hB ⟨hp, hE, hO⟩
    simp only [List.append_nil] at hp hE hO
    have hfl : (if cur = [] then [] else [cur.reverse]).flatten = cur.reverse := by
      split
      · rename_i h0; simp [h0]
      · simp
    refine ⟨(if cur = [] then [] else [cur.reverse]), ?_, ?_, ?_, ?_⟩
    · simp only [hp]; split <;> simp
    · split <;> simp
    · rw [hfl]
      intro e he
      simp only [List.append_nil] at he
      exact hE e ((mem_eventsRelGo_append _ _ _).2 (Or.inl he))
    · rw [hfl, totalWait_reverse]; exact hO
  · -- push
    intro rem m wm cur opens pieces hB ⟨hp, hE, hO⟩ _ hmw _
    refine ⟨hp, by simpa using hE, ?_⟩
    simp only [List.reverse_nil, List.nil_append] at hE
    have hT : totalWait (m :: cur) = totalWait cur := by simp [totalWait, hmw]
    simp only [hT]
    split
    · rename_i hon
      intro kv hkv
      rcases mem_assoc_set _ _ _ kv hkv with hkv | hkv
      · exact hO kv hkv
      · subst hkv
        have := hE { m with time := A + totalWait cur.reverse } (by
          rw [mem_eventsRelGo_append, eventsRelGo_cons_nowait _ _ _ hmw]
          exact Or.inr List.mem_cons_self) hon
        rw [totalWait_reverse] at this
        exact this
    · exact hO
  · -- defer
    intro m wm cur queue opens pieces hB ⟨hp, hE, hO⟩ _ _
    exact ⟨hp, by simpa using hE, hO⟩
  · -- note-off
    intro rem m wm cur queue opens pieces hB ⟨hp, hE, hO⟩ hm
    have hT : totalWait (m :: cur) = totalWait cur := by simp [totalWait, hm]
    refine ⟨hp, ?_, ?_⟩
    · intro e he
      apply hE e
      simp only [List.reverse_cons, List.append_assoc, List.singleton_append] at he ⊢
      rw [mem_eventsRelGo_append] at he ⊢
      rw [mem_eventsRelGo_move _ _ _ _ (by simpa using hB.q_nowait) (by simp [hm])] at he
      exact he
    · simp only [hT]
      intro kv hkv
      exact hO kv (mem_assoc_erase _ _ kv hkv)
  · -- wait that fits
    intro rem m wm cur queue opens pieces hB ⟨hp, hE, hO⟩ hm _ h0 hq0
    have hT : totalWait (m :: cur) = totalWait cur + m.time := by simp [totalWait, hm]; omega
    simp only at hE hO
    refine ⟨hp, ?_, ?_⟩
    · intro e he
      apply hE e
      simp only [List.reverse_cons, List.append_assoc, List.singleton_append] at he ⊢
      rw [mem_eventsRelGo_append] at he ⊢
      rw [mem_eventsRelGo_move _ _ _ _ (by simpa using hB.q_nowait) (by intro _ hqn; exact hq0 (by simpa using hqn))] at he
      exact he
    · simp only [hT]
      intro kv hkv
      exact (hO kv hkv).mono (by omega)
  · -- wait that does not fit
    intro rem m wm cur queue opens pieces hB ⟨hp, hE, hO⟩ hm hr
    simp only at hp hE hO
    have hqnw : ∀ x ∈ queue.reverse, x.ty ≠ .wait := by simpa using hB.q_nowait
    have hqw := totalWait_nowait queue.reverse hqnw
    have hoff := totalWait_nowait _ (map_offOf_nowait opens)
    have hon := totalWait_nowait _ (map_onOf_nowait opens)
    have htc := hB.tw_cur
    have hr0 := hB.rem_nonneg
    simp only at htc
    have hcp : totalWait (closedPiece rem m cur opens) = totalWait cur + rem := by
      unfold closedPiece
      rw [totalWait_append, totalWait_append, hoff, totalWait_reverse]
      split
      · simp [totalWait_mkWait, totalWait_nil]
      · simp [totalWait_nil]; omega
    have hne : closedPiece rem m cur opens ≠ [] := by
      intro h0; rw [h0] at hcp; simp [totalWait] at hcp; omega
    refine ⟨[closedPiece rem m cur opens], by simp [hne, hp], by simp, ?_, ?_⟩
    · simp only [List.flatten_cons, List.flatten_nil, List.append_nil]
      intro e he hty
      unfold closedPiece carried at he
      simp only [List.append_assoc] at he
      rw [mem_eventsRelGo_append] at he
      rcases he with he | he
      · exact hE e ((mem_eventsRelGo_append _ _ _).2 (Or.inl he)) hty
      · -- the clock after the inserted wait
        have hclock : ∀ l, eventsRelGo (A + totalWait cur.reverse)
              ((if 0 < rem then [Msg.mkWait m.ch rem] else []) ++ l)
            = eventsRelGo (A + totalWait cur.reverse + rem) l := by
          intro l
          split
          · simp [eventsRelGo_mkWait]
          · simp only [List.nil_append]; congr 1; omega
        rw [hclock, mem_eventsRelGo_append, hoff, mem_eventsRelGo_append, hqw, mem_eventsRelGo_append, hon,
          eventsRelGo_mkWait] at he
        simp only [Int.add_zero] at he
        rcases he with he | he | he | he
        · -- a re-struck note-off: not a note-on
          rw [eventsRelGo_nowait _ _ (map_offOf_nowait opens)] at he
          simp only [List.mem_map] at he
          obtain ⟨x, ⟨kv, _, rfl⟩, rfl⟩ := he
          simp [offOf] at hty
        · -- a deferred event
          apply hE e _ hty
          rw [mem_eventsRelGo_append, mem_eventsRelGo_append, hqw]
          right; left
          by_cases hqe : queue = []
          · subst hqe; simp [eventsRelGo] at he
          · have := hB.q_rem hqe
            rw [this] at he
            simpa using he
        · -- a re-struck note-on
          rw [eventsRelGo_nowait _ _ (map_onOf_nowait opens)] at he
          simp only [List.mem_map] at he
          obtain ⟨x, ⟨kv, hkv, rfl⟩, rfl⟩ := he
          have := (hO kv hkv).mono (t' := A + totalWait cur.reverse + rem) (by rw [totalWait_reverse]; omega)
          simpa [onOf, Msg.nkey] using this
        · -- the rest of the input
          apply hE e _ hty
          rw [mem_eventsRelGo_append, mem_eventsRelGo_append, hqw, eventsRelGo_cons_wait _ _ _ hm]
          right; right
          rw [show A + totalWait cur.reverse + 0 + m.time = A + totalWait cur.reverse + rem + (m.time - rem) by omega]
          exact he
    · simp only [List.flatten_cons, List.flatten_nil, List.append_nil]
      rw [hcp]
      intro kv hkv
      exact (hO kv hkv).mono (by omega)

theorem splitOuter_vel (R : List Msg) : ∀ caps A (s s' : SplitSt), (∀ c ∈ caps, 0 < c) → s.cur = [] →
    NonNegWaits s.wm → VelEv R A s.wm → VelOpens R s.opens A →
    splitOuter caps s = .ok s' →
    ∃ new : List (List Msg), s'.pieces = new.reverse ++ s.pieces ∧ s'.cur = [] ∧ VelEv R A (new.flatten ++ s'.wm) := by
  intro caps
  induction caps with
  | nil =>
    intro A s s' _ hc _ hev _ h
    simp only [splitOuter, Except.ok.injEq] at h
    subst h
    exact ⟨[], by simp, hc, by simpa using hev⟩
  | cons c cs ih =>
    intro A s s' hpos hc hw hev hop h
    simp only [splitOuter, bind, Except.bind] at h
    split at h
    · simp at h
    · rename_i s1 h1
      have hcp : 0 < c := hpos c List.mem_cons_self
      obtain ⟨hc1, hq1, hw1, _⟩ := splitInner_timing c A hcp _ { s with queue := [] } s1 hc rfl hw h1
      obtain ⟨np, hp1, hl1, he1, ho1⟩ := splitInner_vel R c A hcp _ { s with queue := [] } s1 hc rfl hw hev hop h1
      simp only at hp1
      have he1' : VelEv R (A + totalWait np.flatten) s1.wm := by
        intro e he; exact he1 e ((mem_eventsRelGo_append _ _ _).2 (Or.inr he))
      obtain ⟨new, hp2, hc2, he2⟩ := ih (A + totalWait np.flatten) s1 s'
        (fun x hx => hpos x (List.mem_cons_of_mem _ hx)) hc1 hw1 he1' ho1 h
      refine ⟨np ++ new, ?_, hc2, ?_⟩
      · rw [hp2, hp1, List.reverse_append, reverse_short np hl1]; simp
      · intro e he
        simp only [List.flatten_append, List.append_assoc] at he
        rw [mem_eventsRelGo_append] at he
        rcases he with he | he
        · exact he1 e ((mem_eventsRelGo_append _ _ _).2 (Or.inl he))
        · exact he2 e he

end SCoda.SplitL
