/-
  Helper lemmas for `Props/C16c.lean`: the region calculus over the concrete heap of
  `Model/HeapOps.lean`.

  A *region* `X` is a set of cells.  `Good X h`: `X` contains every unallocated cell and the allocated
  part of `X` is closed under the pointers of `h` (and points to allocated cells only).
  `Pres X h h'`: `h'` allocates on top of `h` and no cell outside `X` is written.
  Every operation gets one lemma: from `Good X h` and "the roots the operation is applied to are in
  `X`" it follows that `Good X h'`, `Pres X h h'` and "the results are in `X`".  Operations that only
  read their arguments and allocate (`copy` at every level, the conversions) need no hypothesis on
  the roots; that is what makes their results fresh (`X := the unallocated cells`).
-/
import SCoda.Model.HeapOps
namespace SCoda.HeapL
open SCoda SCoda.HeapOps

abbrev Region := Cell → Prop

structure Good (X : Region) (h : Heap) : Prop where
  up : ∀ c, ¬ h.alloc c → X c
  closed : ∀ c, X c → h.alloc c → ∀ p ∈ (h.get c).ptrs, X p ∧ h.alloc p

def In (X : Region) (h : Heap) (c : Cell) : Prop := X c ∧ h.alloc c

structure Pres (X : Region) (h h' : Heap) : Prop where
  le : ∀ k, h.next k ≤ h'.next k
  same : ∀ c, ¬ X c → h'.get c = h.get c

/-- `Good X h'`, nothing outside `X` written -/
structure Spec (X : Region) (h h' : Heap) : Prop where
  good : Good X h'
  pres : Pres X h h'

theorem Pres.refl (X : Region) (h : Heap) : Pres X h h := ⟨fun _ => Nat.le_refl _, fun _ _ => rfl⟩

theorem Pres.trans {X : Region} {h h1 h2 : Heap} (a : Pres X h h1) (b : Pres X h1 h2) : Pres X h h2 :=
  ⟨fun k => Nat.le_trans (a.le k) (b.le k), fun c hc => (b.same c hc).trans (a.same c hc)⟩

theorem Spec.refl {X : Region} {h : Heap} (hg : Good X h) : Spec X h h := ⟨hg, Pres.refl X h⟩

theorem Spec.trans {X : Region} {h h1 h2 : Heap} (a : Spec X h h1) (b : Spec X h1 h2) : Spec X h h2 :=
  ⟨b.good, a.pres.trans b.pres⟩

theorem alloc_mono {h h' : Heap} (hle : ∀ k, h.next k ≤ h'.next k) {c : Cell} (hc : h.alloc c) : h'.alloc c := by
  unfold Heap.alloc at *
  exact Nat.lt_of_lt_of_le hc (hle c.1)

theorem In.mono {X : Region} {h h' : Heap} {c : Cell} (hi : In X h c) (hp : Pres X h h') : In X h' c :=
  ⟨hi.1, alloc_mono hp.le hi.2⟩

theorem Good.ptr {X : Region} {h : Heap} (hg : Good X h) {c p : Cell} (hc : In X h c)
    (hp : p ∈ (h.get c).ptrs) : In X h p := hg.closed c hc.1 hc.2 p hp

/-- a cell outside the region is allocated -/
theorem Good.alloc_of_not {X : Region} {h : Heap} (hg : Good X h) {c : Cell} (hc : ¬ X c) : h.alloc c := by
  by_cases ha : h.alloc c
  · exact ha
  · exact absurd (hg.up c ha) hc

/-- the master lemma for a single allocation or write -/
theorem Good.step {X : Region} {h h' : Heap} (hg : Good X h) (hle : ∀ k, h.next k ≤ h'.next k)
    (hc : ∀ c, X c → h'.alloc c →
      (h.alloc c ∧ h'.get c = h.get c) ∨ (∀ p ∈ (h'.get c).ptrs, X p ∧ h'.alloc p)) : Good X h' := by
  refine ⟨?_, ?_⟩
  · intro c hn
    apply hg.up
    intro ha
    exact hn (alloc_mono hle ha)
  · intro c hx ha p hp
    rcases hc c hx ha with ⟨h1, h2⟩ | h3
    · rw [h2] at hp
      have := hg.closed c hx h1 p hp
      exact ⟨this.1, alloc_mono hle this.2⟩
    · exact h3 p hp

/-! ## primitives -/

section prims
variable {X : Region} {h : Heap}

theorem newMsg_spec (hg : Good X h) (m : Msg) :
    Spec X h (h.newMsg m).1 ∧ In X (h.newMsg m).1 (.msg, (h.newMsg m).2) ∧ (h.newMsg m).2 = h.nMsg := by
  have hle : ∀ k, h.next k ≤ (h.newMsg m).1.next k := by
    intro k; cases k <;> simp [Heap.newMsg, Heap.next]
  refine ⟨⟨?_, hle, ?_⟩, ⟨?_, ?_⟩, rfl⟩
  · apply hg.step hle
    rintro ⟨k, i⟩ hx ha
    cases k <;> simp_all [Heap.newMsg, Heap.get, Heap.alloc, Heap.next, Val.ptrs]
  · rintro ⟨k, i⟩ hx
    have ha := hg.alloc_of_not hx
    cases k <;> simp_all [Heap.newMsg, Heap.get, Heap.alloc, Heap.next]
    omega
  · apply hg.up; simp [Heap.newMsg, Heap.alloc, Heap.next]
  · simp [Heap.newMsg, Heap.alloc, Heap.next]

theorem newLst_spec (hg : Good X h) (ids : List Nat) (hin : ∀ i ∈ ids, In X h (.msg, i)) :
    Spec X h (h.newLst ids).1 ∧ In X (h.newLst ids).1 (.lst, (h.newLst ids).2) ∧ (h.newLst ids).2 = h.nLst := by
  have hle : ∀ k, h.next k ≤ (h.newLst ids).1.next k := by
    intro k; cases k <;> simp [Heap.newLst, Heap.next]
  refine ⟨⟨?_, hle, ?_⟩, ⟨?_, ?_⟩, rfl⟩
  · apply hg.step hle
    rintro ⟨k, i⟩ hx ha
    cases k
    case lst =>
      by_cases hi : i = h.nLst
      · right
        subst hi
        intro p hp
        simp only [Heap.newLst, Heap.get, Val.ptrs, if_true, List.mem_map] at hp
        obtain ⟨j, hj, rfl⟩ := hp
        exact ⟨(hin j hj).1, alloc_mono hle (hin j hj).2⟩
      · left
        simp_all [Heap.newLst, Heap.get, Heap.alloc, Heap.next]
        omega
    all_goals simp_all [Heap.newLst, Heap.get, Heap.alloc, Heap.next, Val.ptrs]
  · rintro ⟨k, i⟩ hx
    have ha := hg.alloc_of_not hx
    cases k <;> simp_all [Heap.newLst, Heap.get, Heap.alloc, Heap.next]
    omega
  · apply hg.up; simp [Heap.newLst, Heap.alloc, Heap.next]
  · simp [Heap.newLst, Heap.alloc, Heap.next]

theorem newSeq_spec (hg : Good X h) (c : SeqCell) (ha : ∀ l, c.abs = some l → In X h (.lst, l))
    (hr : ∀ l, c.rel = some l → In X h (.lst, l)) :
    Spec X h (h.newSeq c).1 ∧ In X (h.newSeq c).1 (.seq, (h.newSeq c).2) ∧ (h.newSeq c).2 = h.nSeq := by
  have hle : ∀ k, h.next k ≤ (h.newSeq c).1.next k := by
    intro k; cases k <;> simp [Heap.newSeq, Heap.next]
  refine ⟨⟨?_, hle, ?_⟩, ⟨?_, ?_⟩, rfl⟩
  · apply hg.step hle
    rintro ⟨k, i⟩ hx hal
    cases k
    case seq =>
      by_cases hi : i = h.nSeq
      · right
        subst hi
        intro p hp
        simp only [Heap.newSeq, Heap.get, Val.ptrs, if_true, List.mem_append] at hp
        rcases hp with hp | hp
        · cases hca : c.abs with
          | none => simp [hca, optCell] at hp
          | some l =>
            simp only [hca, optCell, List.mem_singleton] at hp
            subst hp
            exact ⟨(ha l hca).1, alloc_mono hle (ha l hca).2⟩
        · cases hcr : c.rel with
          | none => simp [hcr, optCell] at hp
          | some l =>
            simp only [hcr, optCell, List.mem_singleton] at hp
            subst hp
            exact ⟨(hr l hcr).1, alloc_mono hle (hr l hcr).2⟩
      · left
        simp_all [Heap.newSeq, Heap.get, Heap.alloc, Heap.next]
        omega
    all_goals simp_all [Heap.newSeq, Heap.get, Heap.alloc, Heap.next, Val.ptrs]
  · rintro ⟨k, i⟩ hx
    have ha := hg.alloc_of_not hx
    cases k <;> simp_all [Heap.newSeq, Heap.get, Heap.alloc, Heap.next]
    omega
  · apply hg.up; simp [Heap.newSeq, Heap.alloc, Heap.next]
  · simp [Heap.newSeq, Heap.alloc, Heap.next]

theorem newBar_spec (hg : Good X h) (c : BarCell) (hs : In X h (.seq, c.seq)) :
    Spec X h (h.newBar c).1 ∧ In X (h.newBar c).1 (.bar, (h.newBar c).2) ∧ (h.newBar c).2 = h.nBar := by
  have hle : ∀ k, h.next k ≤ (h.newBar c).1.next k := by
    intro k; cases k <;> simp [Heap.newBar, Heap.next]
  refine ⟨⟨?_, hle, ?_⟩, ⟨?_, ?_⟩, rfl⟩
  · apply hg.step hle
    rintro ⟨k, i⟩ hx hal
    cases k
    case bar =>
      by_cases hi : i = h.nBar
      · right
        subst hi
        intro p hp
        simp only [Heap.newBar, Heap.get, Val.ptrs, if_true, List.mem_singleton] at hp
        subst hp
        exact ⟨hs.1, alloc_mono hle hs.2⟩
      · left
        simp_all [Heap.newBar, Heap.get, Heap.alloc, Heap.next]
        omega
    all_goals simp_all [Heap.newBar, Heap.get, Heap.alloc, Heap.next, Val.ptrs]
  · rintro ⟨k, i⟩ hx
    have ha := hg.alloc_of_not hx
    cases k <;> simp_all [Heap.newBar, Heap.get, Heap.alloc, Heap.next]
    omega
  · apply hg.up; simp [Heap.newBar, Heap.alloc, Heap.next]
  · simp [Heap.newBar, Heap.alloc, Heap.next]

theorem newTrk_spec (hg : Good X h) (c : TrkCell) (hs : ∀ b ∈ c.bars, In X h (.bar, b)) :
    Spec X h (h.newTrk c).1 ∧ In X (h.newTrk c).1 (.trk, (h.newTrk c).2) ∧ (h.newTrk c).2 = h.nTrk := by
  have hle : ∀ k, h.next k ≤ (h.newTrk c).1.next k := by
    intro k; cases k <;> simp [Heap.newTrk, Heap.next]
  refine ⟨⟨?_, hle, ?_⟩, ⟨?_, ?_⟩, rfl⟩
  · apply hg.step hle
    rintro ⟨k, i⟩ hx hal
    cases k
    case trk =>
      by_cases hi : i = h.nTrk
      · right
        subst hi
        intro p hp
        simp only [Heap.newTrk, Heap.get, Val.ptrs, if_true, List.mem_map] at hp
        obtain ⟨j, hj, rfl⟩ := hp
        exact ⟨(hs j hj).1, alloc_mono hle (hs j hj).2⟩
      · left
        simp_all [Heap.newTrk, Heap.get, Heap.alloc, Heap.next]
        omega
    all_goals simp_all [Heap.newTrk, Heap.get, Heap.alloc, Heap.next, Val.ptrs]
  · rintro ⟨k, i⟩ hx
    have ha := hg.alloc_of_not hx
    cases k <;> simp_all [Heap.newTrk, Heap.get, Heap.alloc, Heap.next]
    omega
  · apply hg.up; simp [Heap.newTrk, Heap.alloc, Heap.next]
  · simp [Heap.newTrk, Heap.alloc, Heap.next]

theorem newCmp_spec (hg : Good X h) (ts : List Nat) (hs : ∀ t ∈ ts, In X h (.trk, t)) :
    Spec X h (h.newCmp ts).1 ∧ In X (h.newCmp ts).1 (.cmp, (h.newCmp ts).2) ∧ (h.newCmp ts).2 = h.nCmp := by
  have hle : ∀ k, h.next k ≤ (h.newCmp ts).1.next k := by
    intro k; cases k <;> simp [Heap.newCmp, Heap.next]
  refine ⟨⟨?_, hle, ?_⟩, ⟨?_, ?_⟩, rfl⟩
  · apply hg.step hle
    rintro ⟨k, i⟩ hx hal
    cases k
    case cmp =>
      by_cases hi : i = h.nCmp
      · right
        subst hi
        intro p hp
        simp only [Heap.newCmp, Heap.get, Val.ptrs, if_true, List.mem_map] at hp
        obtain ⟨j, hj, rfl⟩ := hp
        exact ⟨(hs j hj).1, alloc_mono hle (hs j hj).2⟩
      · left
        simp_all [Heap.newCmp, Heap.get, Heap.alloc, Heap.next]
        omega
    all_goals simp_all [Heap.newCmp, Heap.get, Heap.alloc, Heap.next, Val.ptrs]
  · rintro ⟨k, i⟩ hx
    have ha := hg.alloc_of_not hx
    cases k <;> simp_all [Heap.newCmp, Heap.get, Heap.alloc, Heap.next]
    omega
  · apply hg.up; simp [Heap.newCmp, Heap.alloc, Heap.next]
  · simp [Heap.newCmp, Heap.alloc, Heap.next]

/-! writes -/

theorem setMsg_spec (hg : Good X h) (i : Nat) (m : Msg) (hx : X (.msg, i)) : Spec X h (h.setMsg i m) := by
  have hle : ∀ k, h.next k ≤ (h.setMsg i m).next k := by
    intro k; cases k <;> simp [Heap.setMsg, Heap.next]
  refine ⟨?_, hle, ?_⟩
  · apply hg.step hle
    rintro ⟨k, j⟩ hxc ha
    cases k
    case msg => right; simp [Heap.setMsg, Heap.get, Val.ptrs]
    all_goals (left; simp_all [Heap.setMsg, Heap.get, Heap.alloc, Heap.next])
  · rintro ⟨k, j⟩ hn
    cases k
    case msg =>
      have : j ≠ i := by rintro rfl; exact hn hx
      simp [Heap.setMsg, Heap.get, this]
    all_goals simp [Heap.setMsg, Heap.get]

theorem setLst_spec (hg : Good X h) (l : Nat) (ids : List Nat) (hx : X (.lst, l))
    (hin : ∀ i ∈ ids, In X h (.msg, i)) : Spec X h (h.setLst l ids) := by
  have hle : ∀ k, h.next k ≤ (h.setLst l ids).next k := by
    intro k; cases k <;> simp [Heap.setLst, Heap.next]
  refine ⟨?_, hle, ?_⟩
  · apply hg.step hle
    rintro ⟨k, j⟩ hxc ha
    cases k
    case lst =>
      by_cases hj : j = l
      · right
        subst hj
        intro p hp
        simp only [Heap.setLst, Heap.get, Val.ptrs, if_true, List.mem_map] at hp
        obtain ⟨i, hi, rfl⟩ := hp
        exact ⟨(hin i hi).1, alloc_mono hle (hin i hi).2⟩
      · left; simp_all [Heap.setLst, Heap.get, Heap.alloc, Heap.next]
    all_goals (left; simp_all [Heap.setLst, Heap.get, Heap.alloc, Heap.next])
  · rintro ⟨k, j⟩ hn
    cases k
    case lst =>
      have : j ≠ l := by rintro rfl; exact hn hx
      simp [Heap.setLst, Heap.get, this]
    all_goals simp [Heap.setLst, Heap.get]

theorem setSeq_spec (hg : Good X h) (s : Nat) (c : SeqCell) (hx : X (.seq, s))
    (ha : ∀ l, c.abs = some l → In X h (.lst, l)) (hr : ∀ l, c.rel = some l → In X h (.lst, l)) :
    Spec X h (h.setSeq s c) := by
  have hle : ∀ k, h.next k ≤ (h.setSeq s c).next k := by
    intro k; cases k <;> simp [Heap.setSeq, Heap.next]
  refine ⟨?_, hle, ?_⟩
  · apply hg.step hle
    rintro ⟨k, j⟩ hxc hal
    cases k
    case seq =>
      by_cases hj : j = s
      · right
        subst hj
        intro p hp
        simp only [Heap.setSeq, Heap.get, Val.ptrs, if_true, List.mem_append] at hp
        rcases hp with hp | hp
        · cases hca : c.abs with
          | none => simp [hca, optCell] at hp
          | some l =>
            simp only [hca, optCell, List.mem_singleton] at hp
            subst hp
            exact ⟨(ha l hca).1, alloc_mono hle (ha l hca).2⟩
        · cases hcr : c.rel with
          | none => simp [hcr, optCell] at hp
          | some l =>
            simp only [hcr, optCell, List.mem_singleton] at hp
            subst hp
            exact ⟨(hr l hcr).1, alloc_mono hle (hr l hcr).2⟩
      · left; simp_all [Heap.setSeq, Heap.get, Heap.alloc, Heap.next]
    all_goals (left; simp_all [Heap.setSeq, Heap.get, Heap.alloc, Heap.next])
  · rintro ⟨k, j⟩ hn
    cases k
    case seq =>
      have : j ≠ s := by rintro rfl; exact hn hx
      simp [Heap.setSeq, Heap.get, this]
    all_goals simp [Heap.setSeq, Heap.get]

theorem setBar_spec (hg : Good X h) (b : Nat) (c : BarCell) (hx : X (.bar, b)) (hs : In X h (.seq, c.seq)) :
    Spec X h (h.setBar b c) := by
  have hle : ∀ k, h.next k ≤ (h.setBar b c).next k := by
    intro k; cases k <;> simp [Heap.setBar, Heap.next]
  refine ⟨?_, hle, ?_⟩
  · apply hg.step hle
    rintro ⟨k, j⟩ hxc hal
    cases k
    case bar =>
      by_cases hj : j = b
      · right
        subst hj
        intro p hp
        simp only [Heap.setBar, Heap.get, Val.ptrs, if_true, List.mem_singleton] at hp
        subst hp
        exact ⟨hs.1, alloc_mono hle hs.2⟩
      · left; simp_all [Heap.setBar, Heap.get, Heap.alloc, Heap.next]
    all_goals (left; simp_all [Heap.setBar, Heap.get, Heap.alloc, Heap.next])
  · rintro ⟨k, j⟩ hn
    cases k
    case bar =>
      have : j ≠ b := by rintro rfl; exact hn hx
      simp [Heap.setBar, Heap.get, this]
    all_goals simp [Heap.setBar, Heap.get]

theorem setTrk_spec (hg : Good X h) (t : Nat) (c : TrkCell) (hx : X (.trk, t))
    (hs : ∀ b ∈ c.bars, In X h (.bar, b)) : Spec X h (h.setTrk t c) := by
  have hle : ∀ k, h.next k ≤ (h.setTrk t c).next k := by
    intro k; cases k <;> simp [Heap.setTrk, Heap.next]
  refine ⟨?_, hle, ?_⟩
  · apply hg.step hle
    rintro ⟨k, j⟩ hxc hal
    cases k
    case trk =>
      by_cases hj : j = t
      · right
        subst hj
        intro p hp
        simp only [Heap.setTrk, Heap.get, Val.ptrs, if_true, List.mem_map] at hp
        obtain ⟨i, hi, rfl⟩ := hp
        exact ⟨(hs i hi).1, alloc_mono hle (hs i hi).2⟩
      · left; simp_all [Heap.setTrk, Heap.get, Heap.alloc, Heap.next]
    all_goals (left; simp_all [Heap.setTrk, Heap.get, Heap.alloc, Heap.next])
  · rintro ⟨k, j⟩ hn
    cases k
    case trk =>
      have : j ≠ t := by rintro rfl; exact hn hx
      simp [Heap.setTrk, Heap.get, this]
    all_goals simp [Heap.setTrk, Heap.get]

end prims

/-! ## reading through pointers -/

section reads
variable {X : Region} {h : Heap}

theorem lst_in (hg : Good X h) {l : Nat} (hl : In X h (.lst, l)) : ∀ i ∈ h.lst l, In X h (.msg, i) := by
  intro i hi
  apply hg.ptr hl
  simp only [Heap.get, Val.ptrs, List.mem_map]
  exact ⟨i, hi, rfl⟩

theorem seq_abs_in (hg : Good X h) {s l : Nat} (hs : In X h (.seq, s)) (ha : (h.seq s).abs = some l) :
    In X h (.lst, l) := by
  apply hg.ptr hs
  simp [Heap.get, Val.ptrs, ha, optCell]

theorem seq_rel_in (hg : Good X h) {s l : Nat} (hs : In X h (.seq, s)) (ha : (h.seq s).rel = some l) :
    In X h (.lst, l) := by
  apply hg.ptr hs
  simp [Heap.get, Val.ptrs, ha, optCell]

theorem bar_seq_in (hg : Good X h) {b : Nat} (hb : In X h (.bar, b)) : In X h (.seq, (h.bar b).seq) := by
  apply hg.ptr hb
  simp [Heap.get, Val.ptrs]

theorem trk_bars_in (hg : Good X h) {t : Nat} (ht : In X h (.trk, t)) : ∀ b ∈ (h.trk t).bars, In X h (.bar, b) := by
  intro b hb
  apply hg.ptr ht
  simp only [Heap.get, Val.ptrs, List.mem_map]
  exact ⟨b, hb, rfl⟩

theorem cmp_trks_in (hg : Good X h) {c : Nat} (hc : In X h (.cmp, c)) : ∀ t ∈ h.cmp c, In X h (.trk, t) := by
  intro t ht
  apply hg.ptr hc
  simp only [Heap.get, Val.ptrs, List.mem_map]
  exact ⟨t, ht, rfl⟩

end reads

/-- the region of cells not yet allocated in `h` -/
def Fresh (h : Heap) : Region := fun c => ¬ h.alloc c

theorem good_fresh (h : Heap) : Good (Fresh h) h :=
  ⟨fun _ hc => hc, fun _ hx ha => absurd ha hx⟩

/-! ## view level -/

section views
variable {X : Region}

theorem newMsgs_spec {h : Heap} (hg : Good X h) (ms : List Msg) :
    Spec X h (newMsgs h ms).1 ∧ ∀ i ∈ (newMsgs h ms).2, In X (newMsgs h ms).1 (.msg, i) := by
  induction ms generalizing h with
  | nil => exact ⟨Spec.refl hg, by simp [newMsgs]⟩
  | cons m ms ih =>
    obtain ⟨s1, i1, _⟩ := newMsg_spec hg m
    obtain ⟨s2, i2⟩ := ih s1.good
    refine ⟨s1.trans s2, ?_⟩
    intro i hi
    simp only [newMsgs, List.mem_cons] at hi
    rcases hi with rfl | hi
    · exact i1.mono s2.pres
    · exact i2 i hi

/-- conversions and `AbstractSequence.copy`: no hypothesis on the source view -/
theorem convView_spec {h : Heap} (hg : Good X h) (f : List Msg → List Msg) (l : Nat) :
    Spec X h (convView f h l).1 ∧ In X (convView f h l).1 (.lst, (convView f h l).2) := by
  obtain ⟨s1, i1⟩ := newMsgs_spec hg (f (h.viewVals l))
  obtain ⟨s2, i2, _⟩ := newLst_spec s1.good _ i1
  exact ⟨s1.trans s2, i2⟩

theorem copyView_spec {h : Heap} (hg : Good X h) (l : Nat) :
    Spec X h (copyView h l).1 ∧ In X (copyView h l).1 (.lst, (copyView h l).2) := convView_spec hg id l

theorem msgCopy_spec {h : Heap} (hg : Good X h) (i : Nat) :
    Spec X h (msgCopy h i).1 ∧ In X (msgCopy h i).1 (.msg, (msgCopy h i).2) := by
  obtain ⟨s1, i1, _⟩ := newMsg_spec hg (h.msg i)
  exact ⟨s1, i1⟩

theorem writeMsgs_spec {h : Heap} (hg : Good X h) (ws : List (Nat × Msg)) (hx : ∀ w ∈ ws, X (.msg, w.1)) :
    Spec X h (writeMsgs h ws) := by
  induction ws generalizing h with
  | nil => exact Spec.refl hg
  | cons w ws ih =>
    obtain ⟨i, m⟩ := w
    have s1 := setMsg_spec hg i m (hx (i, m) (by simp))
    have s2 := ih s1.good (fun w hw => hx w (by simp [hw]))
    exact s1.trans s2

theorem editView_spec {h : Heap} (hg : Good X h) (g : List Msg → List Msg) {l : Nat} (hl : In X h (.lst, l)) :
    Spec X h (editView g h l) := by
  apply writeMsgs_spec hg
  intro w hw
  exact (lst_in hg hl w.1 (List.of_mem_zip hw).1).1

theorem buildIds_spec {h : Heap} (hg : Good X h) (src : List Nat) (hsrc : ∀ i ∈ src, In X h (.msg, i))
    (p : List Item) :
    Spec X h (buildIds h src p).1 ∧ ∀ i ∈ (buildIds h src p).2, In X (buildIds h src p).1 (.msg, i) := by
  induction p generalizing h with
  | nil => exact ⟨Spec.refl hg, by simp [buildIds]⟩
  | cons it p ih =>
    cases it with
    | keep k =>
      obtain ⟨s1, i1⟩ := ih hg hsrc
      refine ⟨s1, ?_⟩
      intro i hi
      simp only [buildIds] at hi
      cases hk : src[k]? with
      | none => rw [hk] at hi; exact i1 i hi
      | some j =>
        rw [hk] at hi
        simp only [List.mem_cons] at hi
        rcases hi with rfl | hi
        · exact (hsrc i (List.mem_of_getElem? hk)).mono s1.pres
        · exact i1 i hi
    | fresh m =>
      obtain ⟨s1, i1, _⟩ := newMsg_spec hg m
      obtain ⟨s2, i2⟩ := ih s1.good (fun i hi => (hsrc i hi).mono s1.pres)
      refine ⟨s1.trans s2, ?_⟩
      intro i hi
      simp only [buildIds, List.mem_cons] at hi
      rcases hi with rfl | hi
      · exact i1.mono s2.pres
      · exact i2 i hi

theorem rebuildView_spec {h : Heap} (hg : Good X h) (plan : List Msg → List Item) {l : Nat}
    (hl : In X h (.lst, l)) : Spec X h (rebuildView plan h l) := by
  obtain ⟨s1, i1⟩ := buildIds_spec hg (h.lst l) (lst_in hg hl) (plan (h.viewVals l))
  exact s1.trans (setLst_spec s1.good l _ hl.1 i1)

theorem permView_spec {h : Heap} (hg : Good X h) (p : List Msg → List Nat) {l : Nat}
    (hl : In X h (.lst, l)) : Spec X h (permView p h l) := by
  apply setLst_spec hg l _ hl.1
  intro i hi
  simp only [List.mem_filterMap] at hi
  obtain ⟨k, _, hk⟩ := hi
  exact lst_in hg hl i (List.mem_of_getElem? hk)

theorem padView_spec {h : Heap} (hg : Good X h) (w : List Msg → Option Msg) {l : Nat}
    (hl : In X h (.lst, l)) : Spec X h (padView w h l) := by
  unfold padView
  split
  · exact Spec.refl hg
  · rename_i m _
    obtain ⟨s1, i1, _⟩ := newMsg_spec hg m
    refine s1.trans (setLst_spec s1.good l _ hl.1 ?_)
    intro i hi
    simp only [List.mem_append, List.mem_singleton] at hi
    rcases hi with hi | rfl
    · exact lst_in s1.good (hl.mono s1.pres) i hi
    · exact i1

theorem mem_insertAt {α} {x y : α} {n : Nat} {l : List α} (h : y ∈ insertAt x n l) : y = x ∨ y ∈ l := by
  induction l generalizing n with
  | nil => cases n <;> simp_all [insertAt]
  | cons a l ih =>
    cases n with
    | zero => simpa [insertAt] using h
    | succ n =>
      simp only [insertAt, List.mem_cons] at h
      rcases h with rfl | h
      · right; simp
      · rcases ih h with rfl | h
        · left; rfl
        · right; simp [h]

theorem insertView_spec {h : Heap} (hg : Good X h) {l i : Nat} (idx : Option Nat)
    (hl : In X h (.lst, l)) (hi : In X h (.msg, i)) : Spec X h (insertView h l i idx) := by
  apply setLst_spec hg l _ hl.1
  intro j hj
  cases idx with
  | none =>
    simp only [List.mem_append, List.mem_singleton] at hj
    rcases hj with hj | rfl
    · exact lst_in hg hl j hj
    · exact hi
  | some k =>
    rcases mem_insertAt hj with rfl | hj
    · exact hi
    · exact lst_in hg hl j hj

theorem extendView_spec {h : Heap} (hg : Good X h) {l : Nat} (as : List Nat)
    (hl : In X h (.lst, l)) (has : ∀ a ∈ as, In X h (.lst, a)) : Spec X h (extendView h l as) := by
  induction as generalizing h with
  | nil => exact Spec.refl hg
  | cons a as ih =>
    have s1 : Spec X h (h.setLst l (h.lst l ++ h.lst a)) := by
      apply setLst_spec hg l _ hl.1
      intro i hi
      simp only [List.mem_append] at hi
      rcases hi with hi | hi
      · exact lst_in hg hl i hi
      · exact lst_in hg (has a (by simp)) i hi
    exact s1.trans (ih s1.good (hl.mono s1.pres) (fun b hb => (has b (by simp [hb])).mono s1.pres))

theorem splitPieces_spec {h : Heap} (hg : Good X h) (src : List Nat) (hsrc : ∀ i ∈ src, In X h (.msg, i))
    (ps : List (List Item)) :
    Spec X h (splitPieces h src ps).1 ∧ ∀ l ∈ (splitPieces h src ps).2, In X (splitPieces h src ps).1 (.lst, l) := by
  induction ps generalizing h with
  | nil => exact ⟨Spec.refl hg, by simp [splitPieces]⟩
  | cons p ps ih =>
    obtain ⟨s1, i1⟩ := buildIds_spec hg src hsrc p
    obtain ⟨s2, i2, _⟩ := newLst_spec s1.good _ i1
    have s12 := s1.trans s2
    obtain ⟨s3, i3⟩ := ih s2.good (fun i hi => (hsrc i hi).mono s12.pres)
    refine ⟨s12.trans s3, ?_⟩
    intro l hl
    simp only [splitPieces, List.mem_cons] at hl
    rcases hl with rfl | hl
    · exact i2.mono s3.pres
    · exact i3 l hl

theorem splitView_spec {h : Heap} (hg : Good X h) (plan : List Msg → List (List Item)) {l : Nat}
    (hl : In X h (.lst, l)) :
    Spec X h (splitView plan h l).1 ∧ ∀ p ∈ (splitView plan h l).2, In X (splitView plan h l).1 (.lst, p) :=
  splitPieces_spec hg (h.lst l) (lst_in hg hl) _

end views

/-! ## `Sequence` -/

section seqs
variable {X : Region} {o : Orc}

theorem seqInit_spec {h : Heap} (hg : Good X h) (a r : Option Nat)
    (ha : ∀ l, a = some l → In X h (.lst, l)) (hr : ∀ l, r = some l → In X h (.lst, l)) :
    Spec X h (seqInit h a r).1 ∧ In X (seqInit h a r).1 (.seq, (seqInit h a r).2) := by
  cases a with
  | none =>
    cases r with
    | none =>
      obtain ⟨s1, i1, _⟩ := newLst_spec hg [] (by simp)
      obtain ⟨s2, i2, _⟩ := newSeq_spec s1.good
        { abs := some (h.newLst []).2, rel := none, absStale := false, relStale := true }
        (by intro l hl; simp only [Option.some.injEq] at hl; subst hl; exact i1) (by simp)
      exact ⟨s1.trans s2, i2⟩
    | some r =>
      obtain ⟨s2, i2, _⟩ := newSeq_spec hg
        { abs := none, rel := some r, absStale := true, relStale := false }
        (by simp) (by intro l hl; simp only [Option.some.injEq] at hl; subst hl; exact hr _ rfl)
      exact ⟨s2, i2⟩
  | some a =>
    cases r with
    | none =>
      obtain ⟨s2, i2, _⟩ := newSeq_spec hg
        { abs := some a, rel := none, absStale := false, relStale := true }
        (by intro l hl; simp only [Option.some.injEq] at hl; subst hl; exact ha _ rfl) (by simp)
      exact ⟨s2, i2⟩
    | some r =>
      obtain ⟨s2, i2, _⟩ := newSeq_spec hg
        { abs := some a, rel := some r, absStale := false, relStale := false }
        (by intro l hl; simp only [Option.some.injEq] at hl; subst hl; exact ha _ rfl)
        (by intro l hl; simp only [Option.some.injEq] at hl; subst hl; exact hr _ rfl)
      exact ⟨s2, i2⟩

theorem getAbs_spec {h : Heap} (hg : Good X h) {s : Nat} (hs : In X h (.seq, s)) :
    Spec X h (getAbs o h s).1 ∧ ∀ l, (getAbs o h s).2 = some l → In X (getAbs o h s).1 (.lst, l) := by
  unfold getAbs
  simp only
  split
  · split
    · exact ⟨Spec.refl hg, by simp⟩
    · split
      · exact ⟨Spec.refl hg, by simp⟩
      · rename_i r hr
        obtain ⟨s1, i1⟩ := convView_spec (X := X) hg o.toAbs r
        have s2 := setSeq_spec s1.good s { h.seq s with abs := some (convView o.toAbs h r).2, absStale := false }
          hs.1 (by intro l hl; simp only [Option.some.injEq] at hl; subst hl; exact i1)
          (by intro l hl; exact (seq_rel_in hg hs hl).mono s1.pres)
        refine ⟨s1.trans s2, ?_⟩
        intro l hl
        simp only [Option.some.injEq] at hl
        subst hl
        exact i1.mono s2.pres
  · exact ⟨Spec.refl hg, fun l hl => seq_abs_in hg hs hl⟩

theorem getRel_spec {h : Heap} (hg : Good X h) {s : Nat} (hs : In X h (.seq, s)) :
    Spec X h (getRel o h s).1 ∧ ∀ l, (getRel o h s).2 = some l → In X (getRel o h s).1 (.lst, l) := by
  unfold getRel
  simp only
  split
  · split
    · exact ⟨Spec.refl hg, by simp⟩
    · split
      · exact ⟨Spec.refl hg, by simp⟩
      · rename_i r hr
        obtain ⟨s1, i1⟩ := convView_spec (X := X) hg o.toRel r
        have s2 := setSeq_spec s1.good s { h.seq s with rel := some (convView o.toRel h r).2, relStale := false }
          hs.1 (by intro l hl; exact (seq_abs_in hg hs hl).mono s1.pres)
          (by intro l hl; simp only [Option.some.injEq] at hl; subst hl; exact i1)
        refine ⟨s1.trans s2, ?_⟩
        intro l hl
        simp only [Option.some.injEq] at hl
        subst hl
        exact i1.mono s2.pres
  · exact ⟨Spec.refl hg, fun l hl => seq_rel_in hg hs hl⟩

theorem invalidateAbs_spec {h : Heap} (hg : Good X h) {s : Nat} (hs : In X h (.seq, s)) :
    Spec X h (invalidateAbs h s) :=
  setSeq_spec hg s _ hs.1 (fun _ hl => seq_abs_in hg hs hl) (fun _ hl => seq_rel_in hg hs hl)

theorem invalidateRel_spec {h : Heap} (hg : Good X h) {s : Nat} (hs : In X h (.seq, s)) :
    Spec X h (invalidateRel h s) :=
  setSeq_spec hg s _ hs.1 (fun _ hl => seq_abs_in hg hs hl) (fun _ hl => seq_rel_in hg hs hl)

theorem readAbs_spec {h : Heap} (hg : Good X h) {s : Nat} (hs : In X h (.seq, s)) : Spec X h (readAbs o h s) :=
  (getAbs_spec hg hs).1
theorem readRel_spec {h : Heap} (hg : Good X h) {s : Nat} (hs : In X h (.seq, s)) : Spec X h (readRel o h s) :=
  (getRel_spec hg hs).1

theorem refresh_spec {h : Heap} (hg : Good X h) {s : Nat} (hs : In X h (.seq, s)) : Spec X h (refresh o h s) := by
  unfold refresh
  simp only
  split
  · exact Spec.refl hg
  · obtain ⟨s1, _⟩ := getAbs_spec (o := o) hg hs
    obtain ⟨s2, _⟩ := getRel_spec (o := o) s1.good (hs.mono s1.pres)
    exact s1.trans s2

/-- `self.rel.f(…); invalidate_abs()` for any `f` that respects the region when given the view -/
theorem withRel_spec {h : Heap} (hg : Good X h) {s : Nat} (hs : In X h (.seq, s)) (f : Heap → Nat → Heap)
    (hf : ∀ h' l, Good X h' → Pres X h h' → In X h' (.lst, l) → Spec X h' (f h' l)) :
    Spec X h (withRel o h s f) := by
  obtain ⟨s1, i1⟩ := getRel_spec (o := o) hg hs
  unfold withRel
  simp only
  split
  · exact s1
  · rename_i l hl
    have s2 := hf _ l s1.good s1.pres (i1 l hl)
    have s12 := s1.trans s2
    exact s12.trans (invalidateAbs_spec s12.good (hs.mono s12.pres))

theorem iterRel_spec {h : Heap} (hg : Good X h) {s : Nat} (hs : In X h (.seq, s)) : Spec X h (iterRel o h s) :=
  withRel_spec hg hs _ (fun _ _ hg' _ _ => Spec.refl hg')

theorem withAbs_spec {h : Heap} (hg : Good X h) {s : Nat} (hs : In X h (.seq, s)) (f : Heap → Nat → Heap)
    (hf : ∀ h' l, Good X h' → Pres X h h' → In X h' (.lst, l) → Spec X h' (f h' l)) :
    Spec X h (withAbs o h s f) := by
  obtain ⟨s1, i1⟩ := getAbs_spec (o := o) hg hs
  unfold withAbs
  simp only
  split
  · exact s1
  · rename_i l hl
    have s2 := hf _ l s1.good s1.pres (i1 l hl)
    have s12 := s1.trans s2
    exact s12.trans (invalidateRel_spec s12.good (hs.mono s12.pres))

theorem copyOpt_spec {h : Heap} (hg : Good X h) (stale : Bool) (v : Option Nat) :
    Spec X h (copyOpt h stale v).1 ∧ ∀ l, (copyOpt h stale v).2 = some l → In X (copyOpt h stale v).1 (.lst, l) := by
  unfold copyOpt
  split
  · exact ⟨Spec.refl hg, by simp⟩
  · split
    · exact ⟨Spec.refl hg, by simp⟩
    · rename_i a
      obtain ⟨s1, i1⟩ := copyView_spec (X := X) hg a
      exact ⟨s1, by intro l hl; simp only [Option.some.injEq] at hl; subst hl; exact i1⟩

/-- `Sequence.copy()`: no hypothesis on the source -/
theorem seqCopy_spec {h : Heap} (hg : Good X h) (s : Nat) :
    Spec X h (seqCopy h s).1 ∧ In X (seqCopy h s).1 (.seq, (seqCopy h s).2) := by
  obtain ⟨sa, ia⟩ := copyOpt_spec (X := X) hg (h.seq s).absStale (h.seq s).abs
  obtain ⟨sr, ir⟩ := copyOpt_spec (X := X) sa.good (h.seq s).relStale (h.seq s).rel
  obtain ⟨s3, i3⟩ := seqInit_spec sr.good _ _ (fun l hl => (ia l hl).mono sr.pres) ir
  exact ⟨(sa.trans sr).trans s3, i3⟩

theorem pairings_spec {h : Heap} (hg : Good X h) (tag : Nat) {s : Nat} (hs : In X h (.seq, s)) :
    Spec X h (pairings o tag h s) := by
  obtain ⟨s1, i1⟩ := getAbs_spec (o := o) hg hs
  unfold pairings
  simp only
  split
  · exact s1
  · rename_i l hl
    exact s1.trans (permView_spec s1.good _ (i1 l hl))

theorem seqEquals_spec {h : Heap} (hg : Good X h) (tag : Nat) {s t : Nat} (hs : In X h (.seq, s))
    (ht : In X h (.seq, t)) : Spec X h (seqEquals o tag h s t) := by
  obtain ⟨s1, i1⟩ := getAbs_spec (o := o) hg hs
  unfold seqEquals
  simp only
  split
  · exact s1
  · rename_i l hl
    obtain ⟨s2, i2⟩ := getAbs_spec (o := o) s1.good (ht.mono s1.pres)
    split
    · exact s1.trans s2
    · rename_i l2 hl2
      have s3 := permView_spec s2.good (o.perm tag) ((i1 l hl).mono s2.pres)
      have s4 := permView_spec s3.good (o.perm (mix tag 1)) ((i2 l2 hl2).mono s3.pres)
      exact ((s1.trans s2).trans s3).trans s4

theorem setChannel_spec {h : Heap} (hg : Good X h) (ch : Int) {s : Nat} (hs : In X h (.seq, s)) :
    Spec X h (setChannel o h s ch) :=
  withRel_spec hg hs _ (fun _ _ hg' _ hl => editView_spec hg' _ hl)

theorem iterEditRel_spec {h : Heap} (hg : Good X h) (tag : Nat) {s : Nat} (hs : In X h (.seq, s)) :
    Spec X h (iterEditRel o tag h s) :=
  withRel_spec hg hs _ (fun _ _ hg' _ hl => editView_spec hg' _ hl)

theorem iterEditAbs_spec {h : Heap} (hg : Good X h) (tag : Nat) {s : Nat} (hs : In X h (.seq, s)) :
    Spec X h (iterEditAbs o tag h s) :=
  withAbs_spec hg hs _ (fun _ _ hg' _ hl => editView_spec hg' _ hl)

theorem absOpView_spec {h : Heap} (hg : Good X h) (tag : Nat) {l : Nat} (hl : In X h (.lst, l)) :
    Spec X h (absOpView o tag h l) := by
  have s1 := editView_spec hg (o.edit tag) hl
  exact s1.trans (rebuildView_spec s1.good _ (hl.mono s1.pres))

theorem quantise_spec {h : Heap} (hg : Good X h) (tag : Nat) {s : Nat} (hs : In X h (.seq, s)) :
    Spec X h (quantise o tag h s) :=
  withAbs_spec hg hs _ (fun _ _ hg' _ hl => absOpView_spec hg' tag hl)

theorem quantiseNoteLengths_spec {h : Heap} (hg : Good X h) (tag : Nat) {s : Nat} (hs : In X h (.seq, s)) :
    Spec X h (quantiseNoteLengths o tag h s) :=
  withAbs_spec hg hs _ (fun _ _ hg' _ hl => absOpView_spec hg' tag hl)

theorem cutoff_spec {h : Heap} (hg : Good X h) (tag : Nat) {s : Nat} (hs : In X h (.seq, s)) :
    Spec X h (cutoff o tag h s) :=
  withAbs_spec hg hs _ (fun _ _ hg' _ hl => absOpView_spec hg' tag hl)

theorem normalise_spec {h : Heap} (hg : Good X h) (tag : Nat) {s : Nat} (hs : In X h (.seq, s)) :
    Spec X h (normalise o tag h s) :=
  withRel_spec hg hs _ (fun _ _ hg' _ hl => rebuildView_spec hg' _ hl)

theorem pad_spec {h : Heap} (hg : Good X h) (tag : Nat) {s : Nat} (hs : In X h (.seq, s)) :
    Spec X h (pad o tag h s) :=
  withRel_spec hg hs _ (fun _ _ hg' _ hl => padView_spec hg' _ hl)

theorem addRel_spec {h : Heap} (hg : Good X h) (idx : Option Nat) {s i : Nat} (hs : In X h (.seq, s))
    (hi : In X h (.msg, i)) : Spec X h (addRel o h s i idx) :=
  withRel_spec hg hs _ (fun _ _ hg' hp hl => insertView_spec hg' idx hl (hi.mono hp))

theorem addAbs_spec {h : Heap} (hg : Good X h) (idx : Nat) {s i : Nat} (hs : In X h (.seq, s))
    (hi : In X h (.msg, i)) : Spec X h (addAbs o h s i idx) :=
  withAbs_spec hg hs _ (fun _ _ hg' hp hl => insertView_spec hg' (some idx) hl (hi.mono hp))

theorem quantiseAndNormalise_spec {h : Heap} (hg : Good X h) (tag : Nat) {s : Nat} (hs : In X h (.seq, s)) :
    Spec X h (quantiseAndNormalise o tag h s) := by
  have s1 := quantise_spec (o := o) hg tag hs
  have s2 := quantiseNoteLengths_spec (o := o) s1.good (mix tag 1) (hs.mono s1.pres)
  have s12 := s1.trans s2
  exact s12.trans (normalise_spec s12.good (mix tag 2) (hs.mono s12.pres))

theorem transpose_spec {h : Heap} (hg : Good X h) (tag : Nat) (sh : Bool) {s : Nat} (hs : In X h (.seq, s)) :
    Spec X h (transpose o tag sh h s) := by
  have s1 : Spec X h (withRel o h s (editView (o.edit tag))) :=
    withRel_spec hg hs _ (fun _ _ hg' _ hl => editView_spec hg' _ hl)
  unfold transpose
  simp only
  split
  · have s2 := normalise_spec (o := o) s1.good (mix tag 1) (hs.mono s1.pres)
    have s12 := s1.trans s2
    exact s12.trans (quantiseNoteLengths_spec s12.good (mix tag 2) (hs.mono s12.pres))
  · exact s1

theorem scaleUp_spec {h : Heap} (hg : Good X h) (tag : Nat) (qa : Bool) {s : Nat} (hs : In X h (.seq, s)) :
    Spec X h (scaleUp o tag qa h s) := by
  have s1 : Spec X h (withRel o h s (editView (o.edit tag))) :=
    withRel_spec hg hs _ (fun _ _ hg' _ hl => editView_spec hg' _ hl)
  unfold scaleUp
  simp only
  split
  · exact s1.trans (quantiseAndNormalise_spec s1.good (mix tag 1) (hs.mono s1.pres))
  · exact s1

theorem overwriteAbs_spec {h : Heap} (hg : Good X h) (tag : Nat) {s : Nat} (ids : List Nat)
    (hs : In X h (.seq, s)) (hi : ∀ i ∈ ids, In X h (.msg, i)) : Spec X h (overwriteAbs o tag h s ids) := by
  obtain ⟨s1, i1, _⟩ := newLst_spec hg ((o.perm tag (h.vals ids)).filterMap (fun k => ids[k]?)) (by
    intro i hi'
    simp only [List.mem_filterMap] at hi'
    obtain ⟨k, _, hk⟩ := hi'
    exact hi i (List.mem_of_getElem? hk))
  have hs1 := hs.mono s1.pres
  refine s1.trans (setSeq_spec s1.good s _ hs.1 ?_ ?_)
  · intro l hl
    simp only [Option.some.injEq] at hl
    subst hl
    exact i1
  · intro l hl
    exact seq_rel_in s1.good hs1 hl

theorem overwriteRel_spec {h : Heap} (hg : Good X h) {s : Nat} (ids : List Nat)
    (hs : In X h (.seq, s)) (hi : ∀ i ∈ ids, In X h (.msg, i)) : Spec X h (overwriteRel h s ids) := by
  obtain ⟨s1, i1, _⟩ := newLst_spec hg ids hi
  have hs1 := hs.mono s1.pres
  refine s1.trans (setSeq_spec s1.good s _ hs.1 ?_ ?_)
  · intro l hl
    exact seq_abs_in s1.good hs1 hl
  · intro l hl
    simp only [Option.some.injEq] at hl
    subst hl
    exact i1

theorem getRels_spec {h : Heap} (hg : Good X h) (ss : List Nat) (hss : ∀ s ∈ ss, In X h (.seq, s)) :
    Spec X h (getRels o h ss).1 ∧ ∀ ls, (getRels o h ss).2 = some ls → ∀ l ∈ ls, In X (getRels o h ss).1 (.lst, l) := by
  induction ss generalizing h with
  | nil =>
    refine ⟨Spec.refl hg, ?_⟩
    intro ls hls l hl
    simp only [getRels, Option.some.injEq] at hls
    subst hls
    simp at hl
  | cons s ss ih =>
    obtain ⟨s1, i1⟩ := getRel_spec (o := o) hg (hss s (by simp))
    simp only [getRels]
    split
    · exact ⟨s1, by simp⟩
    · rename_i l hl
      obtain ⟨s2, i2⟩ := ih s1.good (fun t ht => (hss t (by simp [ht])).mono s1.pres)
      refine ⟨s1.trans s2, ?_⟩
      intro ls hls l' hl'
      simp only [Option.map_eq_some_iff] at hls
      obtain ⟨ls', hls', rfl⟩ := hls
      simp only [List.mem_cons] at hl'
      rcases hl' with rfl | hl'
      · exact (i1 _ hl).mono s2.pres
      · exact i2 ls' hls' l' hl'

theorem getAbss_spec {h : Heap} (hg : Good X h) (ss : List Nat) (hss : ∀ s ∈ ss, In X h (.seq, s)) :
    Spec X h (getAbss o h ss).1 ∧ ∀ ls, (getAbss o h ss).2 = some ls → ∀ l ∈ ls, In X (getAbss o h ss).1 (.lst, l) := by
  induction ss generalizing h with
  | nil =>
    refine ⟨Spec.refl hg, ?_⟩
    intro ls hls l hl
    simp only [getAbss, Option.some.injEq] at hls
    subst hls
    simp at hl
  | cons s ss ih =>
    obtain ⟨s1, i1⟩ := getAbs_spec (o := o) hg (hss s (by simp))
    simp only [getAbss]
    split
    · exact ⟨s1, by simp⟩
    · rename_i l hl
      obtain ⟨s2, i2⟩ := ih s1.good (fun t ht => (hss t (by simp [ht])).mono s1.pres)
      refine ⟨s1.trans s2, ?_⟩
      intro ls hls l' hl'
      simp only [Option.map_eq_some_iff] at hls
      obtain ⟨ls', hls', rfl⟩ := hls
      simp only [List.mem_cons] at hl'
      rcases hl' with rfl | hl'
      · exact (i1 _ hl).mono s2.pres
      · exact i2 ls' hls' l' hl'

/-- the sharer `concatenate`: receiver AND arguments must lie in the region -/
theorem concatenate_spec {h : Heap} (hg : Good X h) {s : Nat} (args : List Nat) (hs : In X h (.seq, s))
    (ha : ∀ a ∈ args, In X h (.seq, a)) : Spec X h (concatenate o h s args) := by
  obtain ⟨s1, i1⟩ := getRel_spec (o := o) hg hs
  unfold concatenate
  simp only
  split
  · exact s1
  · rename_i l hl
    obtain ⟨s2, i2⟩ := getRels_spec (o := o) s1.good args (fun a h' => (ha a h').mono s1.pres)
    have s12 := s1.trans s2
    split
    · exact s12
    · rename_i ls hls
      have s3 := extendView_spec s2.good ls ((i1 l hl).mono s2.pres) (i2 ls hls)
      have s123 := s12.trans s3
      exact s123.trans (invalidateAbs_spec s123.good (hs.mono s123.pres))

theorem merge_spec {h : Heap} (hg : Good X h) (tag : Nat) {s : Nat} (args : List Nat) (hs : In X h (.seq, s))
    (ha : ∀ a ∈ args, In X h (.seq, a)) : Spec X h (merge o tag h s args) := by
  obtain ⟨s1, i1⟩ := getAbs_spec (o := o) hg hs
  unfold merge
  simp only
  split
  · exact s1
  · rename_i l hl
    obtain ⟨s2, i2⟩ := getAbss_spec (o := o) s1.good args (fun a h' => (ha a h').mono s1.pres)
    have s12 := s1.trans s2
    split
    · exact s12
    · rename_i ls hls
      have s3 := extendView_spec s2.good ls ((i1 l hl).mono s2.pres) (i2 ls hls)
      have s4 := permView_spec s3.good (o.perm tag) (((i1 l hl).mono s2.pres).mono s3.pres)
      have s1234 := (s12.trans s3).trans s4
      have s5 := invalidateRel_spec s1234.good (hs.mono s1234.pres)
      have s15 := s1234.trans s5
      exact s15.trans (normalise_spec s15.good (mix tag 1) (hs.mono s15.pres))

/-! ### `split` -/

/-- wrapping copies of the pieces: no hypothesis on the pieces -/
theorem wrapCopies_spec {h : Heap} (hg : Good X h) (ps : List Nat) :
    Spec X h (wrapCopies h ps).1 ∧ ∀ s ∈ (wrapCopies h ps).2, In X (wrapCopies h ps).1 (.seq, s) := by
  induction ps generalizing h with
  | nil => exact ⟨Spec.refl hg, by simp [wrapCopies]⟩
  | cons p ps ih =>
    obtain ⟨s1, i1⟩ := copyView_spec (X := X) hg p
    obtain ⟨s2, i2⟩ := seqInit_spec s1.good none (some (copyView h p).2) (by simp)
      (by intro l hl; simp only [Option.some.injEq] at hl; subst hl; exact i1)
    obtain ⟨s3, i3⟩ := ih s2.good
    refine ⟨(s1.trans s2).trans s3, ?_⟩
    intro s hs
    simp only [wrapCopies, List.mem_cons] at hs
    rcases hs with rfl | hs
    · exact i2.mono s3.pres
    · exact i3 s hs

theorem wrapShared_spec {h : Heap} (hg : Good X h) (ps : List Nat) (hps : ∀ p ∈ ps, In X h (.lst, p)) :
    Spec X h (wrapShared h ps).1 ∧ ∀ s ∈ (wrapShared h ps).2, In X (wrapShared h ps).1 (.seq, s) := by
  induction ps generalizing h with
  | nil => exact ⟨Spec.refl hg, by simp [wrapShared]⟩
  | cons p ps ih =>
    obtain ⟨s2, i2⟩ := seqInit_spec hg none (some p) (by simp)
      (by intro l hl; simp only [Option.some.injEq] at hl; subst hl; exact hps _ (by simp))
    obtain ⟨s3, i3⟩ := ih s2.good (fun q hq => (hps q (by simp [hq])).mono s2.pres)
    refine ⟨s2.trans s3, ?_⟩
    intro s hs
    simp only [wrapShared, List.mem_cons] at hs
    rcases hs with rfl | hs
    · exact i2.mono s3.pres
    · exact i3 s hs

theorem split_spec {h : Heap} (hg : Good X h) (tag : Nat) {s : Nat} (hs : In X h (.seq, s)) :
    Spec X h (split o tag h s).1 ∧ ∀ p ∈ (split o tag h s).2, In X (split o tag h s).1 (.seq, p) := by
  obtain ⟨s1, i1⟩ := getRel_spec (o := o) hg hs
  unfold split
  simp only
  split
  · exact ⟨s1, by simp⟩
  · rename_i l hl
    obtain ⟨s2, _⟩ := splitView_spec s1.good (o.splitPlan tag) (i1 l hl)
    obtain ⟨s3, i3⟩ := wrapCopies_spec (X := X) s2.good (splitView (o.splitPlan tag) (getRel o h s).1 l).2
    exact ⟨(s1.trans s2).trans s3, i3⟩

theorem splitUnrepaired_spec {h : Heap} (hg : Good X h) (tag : Nat) {s : Nat} (hs : In X h (.seq, s)) :
    Spec X h (splitUnrepaired o tag h s).1 ∧
      ∀ p ∈ (splitUnrepaired o tag h s).2, In X (splitUnrepaired o tag h s).1 (.seq, p) := by
  obtain ⟨s1, i1⟩ := getRel_spec (o := o) hg hs
  unfold splitUnrepaired
  simp only
  split
  · exact ⟨s1, by simp⟩
  · rename_i l hl
    obtain ⟨s2, i2⟩ := splitView_spec s1.good (o.splitPlan tag) (i1 l hl)
    obtain ⟨s3, i3⟩ := wrapShared_spec s2.good _ i2
    exact ⟨(s1.trans s2).trans s3, i3⟩

end seqs

/-! ## `Bar`, `Track`, `Composition` -/

section bars
variable {X : Region} {o : Orc}

theorem barFinish_spec {h : Heap} (hg : Good X h) (tag : Nat) {s l : Nat} (num den : Int)
    (hs : In X h (.seq, s)) (hl : In X h (.lst, l)) : Spec X h (barFinish o tag h s l num den) := by
  have s1 := invalidateAbs_spec hg hs
  have s2 := overwriteRel_spec s1.good ((o.perm tag (h.viewVals l)).filterMap (fun k => (h.lst l)[k]?))
    (hs.mono s1.pres) (by
      intro i hi
      simp only [List.mem_filterMap] at hi
      obtain ⟨k, _, hk⟩ := hi
      exact (lst_in hg hl i (List.mem_of_getElem? hk)).mono s1.pres)
  have s12 := s1.trans s2
  obtain ⟨s3, i3, _⟩ := newMsg_spec s2.good (o.tsMsg num den)
  have s13 := s12.trans s3
  have s4 := addRel_spec (o := o) s3.good (some 0) (hs.mono s13.pres) i3
  have s14 := s13.trans s4
  exact s14.trans (invalidateAbs_spec s14.good (hs.mono s14.pres))

theorem barBody_spec {h : Heap} (hg : Good X h) (tag : Nat) {s : Nat} (num den : Int)
    (hs1 : In X h (.seq, s)) : Spec X h (barBody o tag h s num den) := by
  have t2 := normalise_spec (o := o) hg tag hs1
  have t3 := iterRel_spec (o := o) t2.good (hs1.mono t2.pres)
  have t23 := t2.trans t3
  have t4 : Spec X _ (withRel o _ s (padView (o.barPadMsg (mix tag 1)))) :=
    withRel_spec (o := o) t23.good (hs1.mono t23.pres) _ (fun _ _ hg' _ hl => padView_spec hg' _ hl)
  have t24 := t23.trans t4
  have t5 := iterRel_spec (o := o) t24.good (hs1.mono t24.pres)
  have t25 := t24.trans t5
  obtain ⟨t6, i6⟩ := getRel_spec (o := o) t25.good (hs1.mono t25.pres)
  have t26 := t25.trans t6
  unfold barBody
  simp only
  split
  · exact t26
  · rename_i l hl
    have t7 := barFinish_spec (o := o) t26.good (mix tag 2) num den (hs1.mono t26.pres) (i6 l hl)
    exact t26.trans t7

/-- the `Bar` constructor keeps and rewrites its argument: the argument must lie in the region -/
theorem barInit_spec {h : Heap} (hg : Good X h) (tag : Nat) {s : Nat} (num den key : Int)
    (hs : In X h (.seq, s)) :
    Spec X h (barInit o tag h s num den key).1 ∧
      In X (barInit o tag h s num den key).1 (.bar, (barInit o tag h s num den key).2) := by
  obtain ⟨s1, ib, _⟩ := newBar_spec hg { seq := s, num := num, den := den, key := key } hs
  have t := barBody_spec (o := o) s1.good tag num den (hs.mono s1.pres)
  exact ⟨s1.trans t, ib.mono t.pres⟩

/-- the second half of `Bar.copy()` (bar.py:63-65: copy the sequence, construct a bar on the copy): no hypothesis on the
    source sequence -/
theorem barCopyFrom_spec {h : Heap} (hg : Good X h) (tag : Nat) (s : Nat) (num den key : Int) :
    Spec X h (barInit o tag (seqCopy h s).1 (seqCopy h s).2 num den key).1 ∧
      In X (barInit o tag (seqCopy h s).1 (seqCopy h s).2 num den key).1
        (.bar, (barInit o tag (seqCopy h s).1 (seqCopy h s).2 num den key).2) := by
  obtain ⟨s1, i1⟩ := seqCopy_spec (X := X) hg s
  obtain ⟨s2, i2⟩ := barInit_spec (o := o) s1.good tag num den key i1
  exact ⟨s1.trans s2, i2⟩

/-- `Bar.copy()` is the read of the source's relative view followed by `barCopyFrom` -/
theorem barCopy_eq (tag : Nat) (h : Heap) (b : Nat) :
    barCopy o tag h b = barInit o tag (seqCopy (readRel o h (h.bar b).seq) (h.bar b).seq).1
      (seqCopy (readRel o h (h.bar b).seq) (h.bar b).seq).2 (h.bar b).num (h.bar b).den (h.bar b).key := rfl

/-- `Bar.copy()`: the source bar's sequence lies in the region (its wrapper may be written: `self.sequence.rel` regenerates a
    stale relative view, bar.py:59) -/
theorem barCopy_spec {h : Heap} (hg : Good X h) (tag : Nat) (b : Nat) (hs : In X h (.seq, (h.bar b).seq)) :
    Spec X h (barCopy o tag h b).1 ∧ In X (barCopy o tag h b).1 (.bar, (barCopy o tag h b).2) := by
  have s0 := readRel_spec (o := o) hg hs
  obtain ⟨s1, i1⟩ := barCopyFrom_spec (o := o) s0.good tag (h.bar b).seq (h.bar b).num (h.bar b).den (h.bar b).key
  exact ⟨s0.trans s1, i1⟩

theorem barTranspose_spec {h : Heap} (hg : Good X h) (tag : Nat) (sh : Bool) (k : Int) {b : Nat}
    (hb : In X h (.bar, b)) : Spec X h (barTranspose o tag sh k h b) := by
  have s1 := setBar_spec hg b { h.bar b with key := k } hb.1 (bar_seq_in hg hb)
  have hs : In X (h.setBar b { h.bar b with key := k }) (.seq, ((h.setBar b { h.bar b with key := k }).bar b).seq) :=
    bar_seq_in s1.good (hb.mono s1.pres)
  exact s1.trans (transpose_spec s1.good tag sh hs)

/-- the sharer `Bar.to_sequence`: the new sequence holds the bars' messages -/
theorem barsToSequence_spec {h : Heap} (hg : Good X h) (bars : List Nat) (hb : ∀ b ∈ bars, In X h (.bar, b)) :
    Spec X h (barsToSequence o h bars).1 ∧ In X (barsToSequence o h bars).1 (.seq, (barsToSequence o h bars).2) := by
  obtain ⟨s1, i1⟩ := seqInit_spec hg none none (by simp) (by simp)
  have s2 := concatenate_spec (o := o) s1.good (bars.map (fun b => ((seqInit h none none).1.bar b).seq)) i1 (by
    intro a ha
    simp only [List.mem_map] at ha
    obtain ⟨b, hb', rfl⟩ := ha
    exact bar_seq_in s1.good ((hb b hb').mono s1.pres))
  exact ⟨s1.trans s2, i1.mono s2.pres⟩

theorem trkInit_spec {h : Heap} (hg : Good X h) (tag : Nat) (bars : List Nat) (name : Int)
    (hb : ∀ b ∈ bars, In X h (.bar, b)) :
    Spec X h (trkInit o tag h bars name).1 ∧ In X (trkInit o tag h bars name).1 (.trk, (trkInit o tag h bars name).2) := by
  obtain ⟨s1, it, _⟩ := newTrk_spec hg { bars := bars, name := name, program := pyNone } hb
  obtain ⟨t2, i2⟩ := barsToSequence_spec (o := o) s1.good bars (fun b hb' => (hb b hb').mono s1.pres)
  have t3 := iterRel_spec (o := o) t2.good i2
  have t23 := t2.trans t3
  have it3 := it.mono t23.pres
  have t4 := setTrk_spec t23.good (h.newTrk { bars := bars, name := name, program := pyNone }).2
    { (iterRel o (barsToSequence o (h.newTrk { bars := bars, name := name, program := pyNone }).1 bars).1
          (barsToSequence o (h.newTrk { bars := bars, name := name, program := pyNone }).1 bars).2).trk
        (h.newTrk { bars := bars, name := name, program := pyNone }).2 with
      program := o.program tag (optVals
        (iterRel o (barsToSequence o (h.newTrk { bars := bars, name := name, program := pyNone }).1 bars).1
          (barsToSequence o (h.newTrk { bars := bars, name := name, program := pyNone }).1 bars).2)
        ((iterRel o (barsToSequence o (h.newTrk { bars := bars, name := name, program := pyNone }).1 bars).1
          (barsToSequence o (h.newTrk { bars := bars, name := name, program := pyNone }).1 bars).2).seq
          (barsToSequence o (h.newTrk { bars := bars, name := name, program := pyNone }).1 bars).2).rel) }
    it3.1 (trk_bars_in t23.good it3)
  exact ⟨s1.trans (t23.trans t4), it3.mono t4.pres⟩

theorem barCopies_spec {h : Heap} (hg : Good X h) (tag : Nat) (bs : List Nat) (hb : ∀ b ∈ bs, In X h (.bar, b)) :
    Spec X h (barCopies o tag h bs).1 ∧ ∀ b ∈ (barCopies o tag h bs).2, In X (barCopies o tag h bs).1 (.bar, b) := by
  induction bs generalizing h tag with
  | nil => exact ⟨Spec.refl hg, by simp [barCopies]⟩
  | cons b bs ih =>
    obtain ⟨s1, i1⟩ := barCopy_spec (o := o) (X := X) hg tag b (bar_seq_in hg (hb b (by simp)))
    obtain ⟨s2, i2⟩ := ih s1.good (mix tag 3) (fun b' hb' => (hb b' (by simp [hb'])).mono s1.pres)
    refine ⟨s1.trans s2, ?_⟩
    intro c hc
    simp only [barCopies, List.mem_cons] at hc
    rcases hc with rfl | hc
    · exact i1.mono s2.pres
    · exact i2 c hc

/-- `Track.copy()`: the source track lies in the region (the wrappers of its bars' sequences may be written) -/
theorem trkCopy_spec {h : Heap} (hg : Good X h) (tag : Nat) (t : Nat) (ht : In X h (.trk, t)) :
    Spec X h (trkCopy o tag h t).1 ∧ In X (trkCopy o tag h t).1 (.trk, (trkCopy o tag h t).2) := by
  obtain ⟨s1, i1⟩ := barCopies_spec (o := o) (X := X) hg tag (h.trk t).bars (trk_bars_in hg ht)
  obtain ⟨s2, i2⟩ := trkInit_spec (o := o) s1.good (mix tag 4) _ (h.trk t).name i1
  exact ⟨s1.trans s2, i2⟩

theorem trkToSequence_spec {h : Heap} (hg : Good X h) {t : Nat} (ht : In X h (.trk, t)) :
    Spec X h (trkToSequence o h t).1 ∧ In X (trkToSequence o h t).1 (.seq, (trkToSequence o h t).2) :=
  barsToSequence_spec hg _ (trk_bars_in hg ht)

theorem trkCopies_spec {h : Heap} (hg : Good X h) (tag : Nat) (ts : List Nat) (ht : ∀ t ∈ ts, In X h (.trk, t)) :
    Spec X h (trkCopies o tag h ts).1 ∧ ∀ t ∈ (trkCopies o tag h ts).2, In X (trkCopies o tag h ts).1 (.trk, t) := by
  induction ts generalizing h tag with
  | nil => exact ⟨Spec.refl hg, by simp [trkCopies]⟩
  | cons t ts ih =>
    obtain ⟨s1, i1⟩ := trkCopy_spec (o := o) (X := X) hg tag t (ht t (by simp))
    obtain ⟨s2, i2⟩ := ih s1.good (mix tag 5) (fun t' ht' => (ht t' (by simp [ht'])).mono s1.pres)
    refine ⟨s1.trans s2, ?_⟩
    intro c hc
    simp only [trkCopies, List.mem_cons] at hc
    rcases hc with rfl | hc
    · exact i1.mono s2.pres
    · exact i2 c hc

/-- `Composition.copy()`: the source composition lies in the region -/
theorem cmpCopy_spec {h : Heap} (hg : Good X h) (tag : Nat) (c : Nat) (hc : In X h (.cmp, c)) :
    Spec X h (cmpCopy o tag h c).1 ∧ In X (cmpCopy o tag h c).1 (.cmp, (cmpCopy o tag h c).2) := by
  obtain ⟨s1, i1⟩ := trkCopies_spec (o := o) (X := X) hg tag (h.cmp c) (cmp_trks_in hg hc)
  obtain ⟨s2, i2, _⟩ := newCmp_spec s1.good _ i1
  exact ⟨s1.trans s2, i2⟩

/-! ## `sequences_split_bars` -/

theorem seqCopies_spec {h : Heap} (hg : Good X h) (ss : List Nat) :
    Spec X h (seqCopies h ss).1 ∧ ∀ s ∈ (seqCopies h ss).2, In X (seqCopies h ss).1 (.seq, s) := by
  induction ss generalizing h with
  | nil => exact ⟨Spec.refl hg, by simp [seqCopies]⟩
  | cons s ss ih =>
    obtain ⟨s1, i1⟩ := seqCopy_spec (X := X) hg s
    obtain ⟨s2, i2⟩ := ih s1.good
    refine ⟨s1.trans s2, ?_⟩
    intro c hc
    simp only [seqCopies, List.mem_cons] at hc
    rcases hc with rfl | hc
    · exact i1.mono s2.pres
    · exact i2 c hc

theorem sbSplit_spec {h : Heap} (hg : Good X h) (tag : Nat) {cur : Nat} (hs : In X h (.seq, cur)) :
    Spec X h (sbSplit o tag h cur).1 ∧ ∀ p ∈ (sbSplit o tag h cur).2, In X (sbSplit o tag h cur).1 (.seq, p) :=
  splitUnrepaired_spec hg tag hs

theorem sbBar_spec {h : Heap} (hg : Good X h) (tag : Nat) (qnl : Bool) {s0 : Nat} (hs : In X h (.seq, s0)) :
    Spec X h (sbBar o tag qnl h s0).1 ∧ In X (sbBar o tag qnl h s0).1 (.bar, (sbBar o tag qnl h s0).2) := by
  have s1 : Spec X h (if qnl then quantiseNoteLengths o (mix tag 1) h s0 else h) := by
    split
    · exact quantiseNoteLengths_spec hg _ hs
    · exact Spec.refl hg
  obtain ⟨s2, i2⟩ := barInit_spec (o := o) s1.good (mix tag 2) (o.barSig tag (optVals h (h.seq s0).rel)).1
    (o.barSig tag (optVals h (h.seq s0).rel)).2.1 (o.barSig tag (optVals h (h.seq s0).rel)).2.2 (hs.mono s1.pres)
  exact ⟨s1.trans s2, i2⟩

theorem sbTrack_spec {h : Heap} (hg : Good X h) (tag : Nat) (qnl : Bool) {cur : Nat} (hs : In X h (.seq, cur)) :
    Spec X h (sbTrack o tag qnl h cur).1 ∧ In X (sbTrack o tag qnl h cur).1 (.seq, (sbTrack o tag qnl h cur).2.1)
      ∧ In X (sbTrack o tag qnl h cur).1 (.bar, (sbTrack o tag qnl h cur).2.2.1) := by
  obtain ⟨s1, i1⟩ := sbSplit_spec (o := o) hg tag hs
  unfold sbTrack
  simp only
  split
  · rename_i s0 s1' rest hw
    obtain ⟨s2, i2⟩ := sbBar_spec (o := o) s1.good tag qnl (i1 s0 (by simp [hw]))
    exact ⟨s1.trans s2, (i1 s1' (by simp [hw])).mono s2.pres, i2⟩
  · rename_i s0 hw
    obtain ⟨s2, i2⟩ := seqInit_spec s1.good none none (by simp) (by simp)
    obtain ⟨s3, i3⟩ := sbBar_spec (o := o) s2.good tag qnl ((i1 s0 (by simp [hw])).mono s2.pres)
    exact ⟨(s1.trans s2).trans s3, i2.mono s3.pres, i3⟩
  · rename_i hw
    obtain ⟨s2, i2⟩ := seqInit_spec s1.good none none (by simp) (by simp)
    obtain ⟨s2', i2'⟩ := seqInit_spec s2.good none none (by simp) (by simp)
    obtain ⟨s3, i3⟩ := sbBar_spec (o := o) s2'.good tag qnl (i2.mono s2'.pres)
    exact ⟨((s1.trans s2).trans s2').trans s3, i2'.mono s3.pres, i3⟩

/-- the invariant of the loop state: current sequences and collected bars lie in the region -/
def StIn (X : Region) (h : Heap) (st : List (Nat × List Nat)) : Prop :=
  ∀ t ∈ st, In X h (.seq, t.1) ∧ ∀ b ∈ t.2, In X h (.bar, b)

theorem StIn.mono {h h' : Heap} {st : List (Nat × List Nat)} (hst : StIn X h st) (hp : Pres X h h') : StIn X h' st :=
  fun t ht => ⟨(hst t ht).1.mono hp, fun b hb => ((hst t ht).2 b hb).mono hp⟩

theorem sbRound_spec {h : Heap} (hg : Good X h) (tag : Nat) (qnl : Bool) (st : List (Nat × List Nat))
    (hst : StIn X h st) :
    Spec X h (sbRound o tag qnl h st).1 ∧ StIn X (sbRound o tag qnl h st).1 (sbRound o tag qnl h st).2.1 := by
  induction st generalizing h tag with
  | nil => exact ⟨Spec.refl hg, by simp [sbRound, StIn]⟩
  | cons t st ih =>
    obtain ⟨cur, bars⟩ := t
    obtain ⟨s1, ic, ib⟩ := sbTrack_spec (o := o) hg tag qnl (hst (cur, bars) (by simp)).1
    have hst' : StIn X (sbTrack o tag qnl h cur).1 st :=
      StIn.mono (fun t ht => hst t (by simp [ht])) s1.pres
    obtain ⟨s2, i2⟩ := ih s1.good (mix tag 6) hst'
    refine ⟨s1.trans s2, ?_⟩
    intro u hu
    simp only [sbRound, List.mem_cons] at hu
    rcases hu with rfl | hu
    · refine ⟨ic.mono s2.pres, ?_⟩
      intro b hb
      simp only [List.mem_append, List.mem_singleton] at hb
      rcases hb with hb | rfl
      · exact ((hst (cur, bars) (by simp)).2 b hb).mono (s1.trans s2).pres
      · exact ib.mono s2.pres
    · exact i2 u hu

theorem sbLoop_spec {h : Heap} (hg : Good X h) (tag : Nat) (qnl : Bool) (n : Nat) (st : List (Nat × List Nat))
    (hst : StIn X h st) :
    Spec X h (sbLoop o tag qnl n h st).1 ∧ StIn X (sbLoop o tag qnl n h st).1 (sbLoop o tag qnl n h st).2 := by
  induction n generalizing h st with
  | zero => exact ⟨Spec.refl hg, hst⟩
  | succ n ih =>
    obtain ⟨s1, i1⟩ := sbRound_spec (o := o) hg (mix tag n) qnl st hst
    simp only [sbLoop]
    split
    · obtain ⟨s2, i2⟩ := ih s1.good _ i1
      exact ⟨s1.trans s2, i2⟩
    · exact ⟨s1, i1⟩

/-- `sequences_split_bars`: no hypothesis on the input sequences -/
theorem splitBars_spec {h : Heap} (hg : Good X h) (tag : Nat) (qnl : Bool) (fuel : Nat) (inputs : List Nat) (mti : Nat) :
    Spec X h (splitBars o tag qnl fuel h inputs mti).1 ∧
      ∀ bs ∈ (splitBars o tag qnl fuel h inputs mti).2, ∀ b ∈ bs, In X (splitBars o tag qnl fuel h inputs mti).1 (.bar, b) := by
  obtain ⟨s1, i1⟩ := seqCopies_spec (X := X) hg inputs
  unfold splitBars
  simp only
  split
  · exact ⟨s1, by simp⟩
  · rename_i m hm
    have im := i1 m (List.mem_of_getElem? hm)
    have s2 := readAbs_spec (o := o) s1.good im
    have s3 := readAbs_spec (o := o) s2.good (im.mono s2.pres)
    have s13 := s1.trans (s2.trans s3)
    obtain ⟨s4, i4⟩ := sbLoop_spec (o := o) s3.good tag qnl fuel ((seqCopies h inputs).2.map (fun c => (c, []))) (by
      intro t ht
      simp only [List.mem_map] at ht
      obtain ⟨c, hc, rfl⟩ := ht
      exact ⟨(i1 c hc).mono (s2.trans s3).pres, by simp⟩)
    refine ⟨s13.trans s4, ?_⟩
    intro bs hbs b hb
    simp only [List.mem_map] at hbs
    obtain ⟨t, ht, rfl⟩ := hbs
    exact (i4 t ht).2 b hb

theorem trkInits_spec {h : Heap} (hg : Good X h) (tag : Nat) (bss : List (List Nat))
    (hb : ∀ bs ∈ bss, ∀ b ∈ bs, In X h (.bar, b)) :
    Spec X h (trkInits o tag h bss).1 ∧ ∀ t ∈ (trkInits o tag h bss).2, In X (trkInits o tag h bss).1 (.trk, t) := by
  induction bss generalizing h tag with
  | nil => exact ⟨Spec.refl hg, by simp [trkInits]⟩
  | cons bs bss ih =>
    obtain ⟨s1, i1⟩ := trkInit_spec (o := o) hg tag bs pyNone (hb bs (by simp))
    obtain ⟨s2, i2⟩ := ih s1.good (mix tag 7) (fun cs hcs b hb' => (hb cs (by simp [hcs]) b hb').mono s1.pres)
    refine ⟨s1.trans s2, ?_⟩
    intro c hc
    simp only [trkInits, List.mem_cons] at hc
    rcases hc with rfl | hc
    · exact i1.mono s2.pres
    · exact i2 c hc

theorem cmpFromSequences_spec {h : Heap} (hg : Good X h) (tag fuel : Nat) (inputs : List Nat) (mti : Nat) :
    Spec X h (cmpFromSequences o tag fuel h inputs mti).1 ∧
      In X (cmpFromSequences o tag fuel h inputs mti).1 (.cmp, (cmpFromSequences o tag fuel h inputs mti).2) := by
  obtain ⟨s1, i1⟩ := splitBars_spec (o := o) (X := X) hg tag true fuel inputs mti
  obtain ⟨s2, i2⟩ := trkInits_spec (o := o) s1.good (mix tag 8) _ i1
  obtain ⟨s3, i3, _⟩ := newCmp_spec s2.good _ i2
  exact ⟨(s1.trans s2).trans s3, i3⟩

/-! ## `scale` with a factor below 1 -/

theorem gatherRel_spec {h : Heap} (hg : Good X h) (bs : List Nat) (hb : ∀ b ∈ bs, In X h (.bar, b)) :
    Spec X h (gatherRel o h bs).1 ∧ ∀ i ∈ (gatherRel o h bs).2, In X (gatherRel o h bs).1 (.msg, i) := by
  induction bs generalizing h with
  | nil => exact ⟨Spec.refl hg, by simp [gatherRel]⟩
  | cons b bs ih =>
    obtain ⟨s1, i1⟩ := getRel_spec (o := o) hg (bar_seq_in hg (hb b (by simp)))
    obtain ⟨s2, i2⟩ := ih s1.good (fun c hc => (hb c (by simp [hc])).mono s1.pres)
    refine ⟨s1.trans s2, ?_⟩
    intro i hi
    simp only [gatherRel, List.mem_append] at hi
    rcases hi with hi | hi
    · split at hi
      · rename_i l hl
        exact (lst_in s1.good (i1 l hl) i hi).mono s2.pres
      · simp at hi
    · exact i2 i hi

/-- the optional `meta_sequence` is only copied (by `sequences_split_bars`): no hypothesis on it -/
theorem scaleDown_spec {h : Heap} (hg : Good X h) (tag : Nat) (qa : Bool) (fuel : Nat) {s : Nat} (mseq : Option Nat)
    (hs : In X h (.seq, s)) :
    Spec X h (scaleDown o tag qa fuel h s mseq) := by
  obtain ⟨s1, i1⟩ := getRel_spec (o := o) hg hs
  unfold scaleDown
  simp only
  split
  · exact s1
  · rename_i l hl
    have hl1 := i1 l hl
    obtain ⟨s2, i2⟩ := seqInit_spec s1.good none (some l) (by simp)
      (by intro l' hl'; simp only [Option.some.injEq] at hl'; subst hl'; exact hl1)
    have s12 := s1.trans s2
    obtain ⟨s3, i3⟩ := splitBars_spec (o := o) (X := X) s2.good (mix tag 1) false fuel
      [(seqInit (getRel o h s).1 none (some l)).2, mseq.getD (seqInit (getRel o h s).1 none (some l)).2] 1
    have s13 := s12.trans s3
    have hbars : ∀ b ∈ (splitBars o (mix tag 1) false fuel (seqInit (getRel o h s).1 none (some l)).1
        [(seqInit (getRel o h s).1 none (some l)).2, mseq.getD (seqInit (getRel o h s).1 none (some l)).2] 1).2.headD [],
        In X (splitBars o (mix tag 1) false fuel (seqInit (getRel o h s).1 none (some l)).1
          [(seqInit (getRel o h s).1 none (some l)).2, mseq.getD (seqInit (getRel o h s).1 none (some l)).2] 1).1 (.bar, b) := by
      intro b hb
      cases hx : (splitBars o (mix tag 1) false fuel (seqInit (getRel o h s).1 none (some l)).1
        [(seqInit (getRel o h s).1 none (some l)).2, mseq.getD (seqInit (getRel o h s).1 none (some l)).2] 1).2 with
      | nil => rw [hx] at hb; simp at hb
      | cons bs rest =>
        rw [hx] at hb
        simp only [List.headD_cons] at hb
        exact i3 bs (by rw [hx]; simp) b hb
    obtain ⟨s4, i4⟩ := gatherRel_spec (o := o) s3.good _ hbars
    have s14 := s13.trans s4
    have s5 := writeMsgs_spec s4.good
      ((gatherRel o (splitBars o (mix tag 1) false fuel (seqInit (getRel o h s).1 none (some l)).1
        [(seqInit (getRel o h s).1 none (some l)).2, mseq.getD (seqInit (getRel o h s).1 none (some l)).2] 1).1
        ((splitBars o (mix tag 1) false fuel (seqInit (getRel o h s).1 none (some l)).1
        [(seqInit (getRel o h s).1 none (some l)).2, mseq.getD (seqInit (getRel o h s).1 none (some l)).2] 1).2.headD [])).2.zip
        (o.edit (mix tag 2) ((gatherRel o (splitBars o (mix tag 1) false fuel (seqInit (getRel o h s).1 none (some l)).1
        [(seqInit (getRel o h s).1 none (some l)).2, mseq.getD (seqInit (getRel o h s).1 none (some l)).2] 1).1
        ((splitBars o (mix tag 1) false fuel (seqInit (getRel o h s).1 none (some l)).1
        [(seqInit (getRel o h s).1 none (some l)).2, mseq.getD (seqInit (getRel o h s).1 none (some l)).2] 1).2.headD [])).1.vals
          (gatherRel o (splitBars o (mix tag 1) false fuel (seqInit (getRel o h s).1 none (some l)).1
        [(seqInit (getRel o h s).1 none (some l)).2, mseq.getD (seqInit (getRel o h s).1 none (some l)).2] 1).1
        ((splitBars o (mix tag 1) false fuel (seqInit (getRel o h s).1 none (some l)).1
        [(seqInit (getRel o h s).1 none (some l)).2, mseq.getD (seqInit (getRel o h s).1 none (some l)).2] 1).2.headD [])).2)))
      (fun w hw => (i4 w.1 (List.of_mem_zip hw).1).1)
    have s15 := s14.trans s5
    have hl5 := hl1.mono (s2.trans (s3.trans (s4.trans s5))).pres
    have s6 := setLst_spec s5.good l _ hl5.1 (fun i hi => (i4 i hi).mono s5.pres)
    have s16 := s15.trans s6
    have s7 := rebuildView_spec s6.good (o.plan (mix tag 3)) (hl5.mono s6.pres)
    have s17 := s16.trans s7
    have s8 := invalidateAbs_spec s17.good (hs.mono s17.pres)
    have s18 := s17.trans s8
    split
    · exact s18.trans (quantiseAndNormalise_spec s18.good (mix tag 4) (hs.mono s18.pres))
    · exact s18

end bars

/-! ## reachability -/

section reachability
variable {X : Region}

theorem mem_reachN_self (h : Heap) (n : Nat) (c : Cell) : c ∈ reachN h n c := by
  cases n <;> simp [reachN]

theorem reachN_in {h : Heap} (hg : Good X h) (n : Nat) {c : Cell} (hc : In X h c) :
    ∀ c' ∈ reachN h n c, In X h c' := by
  induction n generalizing c with
  | zero => intro c' hc'; simp only [reachN, List.mem_singleton] at hc'; subst hc'; exact hc
  | succ n ih =>
    intro c' hc'
    simp only [reachN, List.mem_cons, List.mem_flatMap] at hc'
    rcases hc' with rfl | ⟨p, hp, hc'⟩
    · exact hc
    · exact ih (hg.ptr hc hp) c' hc'

theorem reach_in {h : Heap} (hg : Good X h) {c : Cell} (hc : In X h c) : ∀ c' ∈ reach h c, In X h c' :=
  reachN_in hg 5 hc

def Kind.rank : Kind → Nat
  | .msg => 0 | .lst => 1 | .seq => 2 | .bar => 3 | .trk => 4 | .cmp => 5

theorem rank_ptr (h : Heap) (c p : Cell) (hp : p ∈ (h.get c).ptrs) : Kind.rank p.1 + 1 = Kind.rank c.1 := by
  obtain ⟨k, i⟩ := c
  cases k
  case msg => simp [Heap.get, Val.ptrs] at hp
  case lst =>
    simp only [Heap.get, Val.ptrs, List.mem_map] at hp
    obtain ⟨_, _, rfl⟩ := hp; rfl
  case seq =>
    simp only [Heap.get, Val.ptrs, List.mem_append] at hp
    rcases hp with hp | hp
    · cases ha : (h.seq i).abs <;> simp [ha, optCell] at hp
      subst hp; rfl
    · cases ha : (h.seq i).rel <;> simp [ha, optCell] at hp
      subst hp; rfl
  case bar =>
    simp only [Heap.get, Val.ptrs, List.mem_singleton] at hp
    subst hp; rfl
  case trk =>
    simp only [Heap.get, Val.ptrs, List.mem_map] at hp
    obtain ⟨_, _, rfl⟩ := hp; rfl
  case cmp =>
    simp only [Heap.get, Val.ptrs, List.mem_map] at hp
    obtain ⟨_, _, rfl⟩ := hp; rfl

/-- `reachN` is closed under pointers once the fuel covers the rank of the root -/
theorem reachN_closed (h : Heap) (n : Nat) (c : Cell) (hr : Kind.rank c.1 ≤ n) :
    ∀ c' ∈ reachN h n c, ∀ p ∈ (h.get c').ptrs, p ∈ reachN h n c := by
  induction n generalizing c with
  | zero =>
    intro c' hc' p hp
    simp only [reachN, List.mem_singleton] at hc'
    subst hc'
    have := rank_ptr h c' p hp
    omega
  | succ n ih =>
    intro c' hc' p hp
    simp only [reachN, List.mem_cons, List.mem_flatMap] at hc' ⊢
    rcases hc' with rfl | ⟨q, hq, hc'⟩
    · right
      exact ⟨p, hp, mem_reachN_self h n p⟩
    · right
      have hrq : Kind.rank q.1 ≤ n := by have := rank_ptr h c q hq; omega
      exact ⟨q, hq, ih q hrq c' hc' p hp⟩

theorem rank_le_five (k : Kind) : Kind.rank k ≤ 5 := by cases k <;> simp [Kind.rank]

theorem reach_closed (h : Heap) (c : Cell) : ∀ c' ∈ reach h c, ∀ p ∈ (h.get c').ptrs, p ∈ reach h c :=
  reachN_closed h 5 c (rank_le_five c.1)

theorem mem_reach_self (h : Heap) (c : Cell) : c ∈ reach h c := mem_reachN_self h 5 c

theorem flatMap_congr' {α β} {l : List α} {f g : α → List β} (hfg : ∀ x ∈ l, f x = g x) :
    l.flatMap f = l.flatMap g := by
  induction l with
  | nil => rfl
  | cons a l ih =>
    simp only [List.flatMap_cons]
    rw [hfg a (by simp), ih (fun x hx => hfg x (by simp [hx]))]

/-- if no cell reachable from `c` changed, the same cells are reachable -/
theorem reachN_congr {h h' : Heap} (n : Nat) (c : Cell) (hs : ∀ c' ∈ reachN h n c, h'.get c' = h.get c') :
    reachN h' n c = reachN h n c := by
  induction n generalizing c with
  | zero => rfl
  | succ n ih =>
    simp only [reachN]
    have hc : h'.get c = h.get c := hs c (mem_reachN_self h _ c)
    rw [hc]
    congr 1
    apply flatMap_congr'
    intro p hp
    apply ih
    intro c' hc'
    apply hs
    simp only [reachN, List.mem_cons, List.mem_flatMap]
    exact Or.inr ⟨p, hp, hc'⟩

theorem reach_congr {h h' : Heap} (c : Cell) (hs : ∀ c' ∈ reach h c, h'.get c' = h.get c') :
    reach h' c = reach h c := reachN_congr 5 c hs

/-- the region "reachable from these roots, or not allocated yet" -/
def ReachR (h : Heap) (roots : List Cell) : Region := fun c => c ∈ reachAll h roots ∨ ¬ h.alloc c

theorem good_reachR (h : Heap) (roots : List Cell) (hall : ∀ c ∈ reachAll h roots, h.alloc c) :
    Good (ReachR h roots) h := by
  refine ⟨fun c hc => Or.inr hc, ?_⟩
  intro c hx ha p hp
  rcases hx with hx | hx
  · simp only [reachAll, List.mem_flatMap] at hx
    obtain ⟨r, hr, hc⟩ := hx
    have hp' : p ∈ reachAll h roots := by
      simp only [reachAll, List.mem_flatMap]
      exact ⟨r, hr, reach_closed h r c hc p hp⟩
    exact ⟨Or.inl hp', hall p hp'⟩
  · exact absurd ha hx

theorem in_reachR {h : Heap} {roots : List Cell} (hall : ∀ c ∈ reachAll h roots, h.alloc c) {r : Cell}
    (hr : r ∈ roots) : In (ReachR h roots) h r := by
  have : r ∈ reachAll h roots := by
    simp only [reachAll, List.mem_flatMap]
    exact ⟨r, hr, mem_reach_self h r⟩
  exact ⟨Or.inl this, hall r this⟩

/-- a pointer-closed set that contains `c` contains everything reachable from `c` -/
theorem reachN_sub {h : Heap} (S : Cell → Prop) (hS : ∀ c, S c → ∀ p ∈ (h.get c).ptrs, S p) (n : Nat) {c : Cell}
    (hc : S c) : ∀ c' ∈ reachN h n c, S c' := by
  induction n generalizing c with
  | zero => intro c' hc'; simp only [reachN, List.mem_singleton] at hc'; subst hc'; exact hc
  | succ n ih =>
    intro c' hc'
    simp only [reachN, List.mem_cons, List.mem_flatMap] at hc'
    rcases hc' with rfl | ⟨p, hp, hc'⟩
    · exact hc
    · exact ih (hS c hc p hp) c' hc'

/-- reachability is transitive -/
theorem reach_trans {h : Heap} {x c : Cell} (hc : c ∈ reach h x) : ∀ c' ∈ reach h c, c' ∈ reach h x :=
  reachN_sub (fun c => c ∈ reach h x) (fun c hc p hp => reach_closed h x c hc p hp) 5 hc

/-- kinds only go down along pointers -/
theorem reachN_rank {h : Heap} (n : Nat) {c : Cell} : ∀ c' ∈ reachN h n c, Kind.rank c'.1 ≤ Kind.rank c.1 := by
  induction n generalizing c with
  | zero => intro c' hc'; simp only [reachN, List.mem_singleton] at hc'; subst hc'; exact Nat.le_refl _
  | succ n ih =>
    intro c' hc'
    simp only [reachN, List.mem_cons, List.mem_flatMap] at hc'
    rcases hc' with rfl | ⟨p, hp, hc'⟩
    · exact Nat.le_refl _
    · have := ih c' hc'
      have := rank_ptr h c p hp
      omega

theorem mem_reachAll {h : Heap} {roots : List Cell} {c : Cell} :
    c ∈ reachAll h roots ↔ ∃ r ∈ roots, c ∈ reach h r := by
  simp [reachAll, List.mem_flatMap]

theorem reachAll_congr {h h' : Heap} (roots : List Cell) (hs : ∀ c ∈ reachAll h roots, h'.get c = h.get c) :
    reachAll h' roots = reachAll h roots := by
  unfold reachAll
  apply flatMap_congr'
  intro r hr
  apply reach_congr
  intro c hc
  exact hs c (mem_reachAll.2 ⟨r, hr, hc⟩)

/-- the value snapshot of a sequence depends only on the cells reachable from it -/
theorem snap_congr {h h' : Heap} (s : Nat) (hs : ∀ c ∈ reach h (.seq, s), h'.get c = h.get c) :
    snap h' s = snap h s := by
  have hseq : h'.seq s = h.seq s := by
    have := hs (.seq, s) (mem_reach_self h _)
    simpa [Heap.get] using this
  have hview : ∀ v, (v = (h.seq s).abs ∨ v = (h.seq s).rel) → optVals h' v = optVals h v := by
    intro v hv
    cases v with
    | none => rfl
    | some l =>
      have hl : (Kind.lst, l) ∈ reach h (.seq, s) := by
        apply reach_closed h (.seq, s) (.seq, s) (mem_reach_self h _)
        simp only [Heap.get, Val.ptrs, List.mem_append]
        rcases hv with hv | hv
        · left; rw [← hv]; simp [optCell]
        · right; rw [← hv]; simp [optCell]
      have hlst : h'.lst l = h.lst l := by
        have := hs _ hl
        simpa [Heap.get] using this
      simp only [optVals, Heap.viewVals, Heap.vals, hlst]
      apply List.map_congr_left
      intro i hi
      have hm : (Kind.msg, i) ∈ reach h (.seq, s) := by
        apply reach_closed h (.seq, s) (.lst, l) hl
        simp only [Heap.get, Val.ptrs, List.mem_map]
        exact ⟨i, hi, rfl⟩
      have := hs _ hm
      simpa [Heap.get] using this
  simp only [snap, hseq]
  rw [hview _ (Or.inl rfl), hview _ (Or.inr rfl)]

end reachability

/-! ## histories -/

section histories
variable {X : Region} {o : Orc}

def EnvIn (X : Region) (h : Heap) (env : List Cell) : Prop := ∀ c ∈ env, In X h c

theorem EnvIn.mono {h h' : Heap} {env : List Cell} (he : EnvIn X h env) (hp : Pres X h h') : EnvIn X h' env :=
  fun c hc => (he c hc).mono hp

theorem EnvIn.append {h : Heap} {env more : List Cell} (he : EnvIn X h env) (hm : ∀ c ∈ more, In X h c) :
    EnvIn X h (env ++ more) := by
  intro c hc
  simp only [List.mem_append] at hc
  rcases hc with hc | hc
  · exact he c hc
  · exact hm c hc

theorem look_mem {env : List Cell} {k : Kind} {i x : Nat} (hl : look env k i = some x) : (k, x) ∈ env := by
  unfold look at hl
  split at hl
  · rename_i c hc
    split at hl
    · rename_i hk
      simp only [Option.some.injEq] at hl
      have : c = (k, x) := by rw [← hk, ← hl]
      rw [← this]
      exact List.mem_of_getElem? hc
    · simp at hl
  · simp at hl

theorem looks_mem {env : List Cell} {k : Kind} {is xs : List Nat} (hl : looks env k is = some xs) :
    ∀ x ∈ xs, (k, x) ∈ env := by
  induction is generalizing xs with
  | nil => simp only [looks, Option.some.injEq] at hl; subst hl; simp
  | cons i is ih =>
    simp only [looks] at hl
    split at hl
    · rename_i y ys hy hys
      simp only [Option.some.injEq] at hl
      subst hl
      intro x hx
      simp only [List.mem_cons] at hx
      rcases hx with rfl | hx
      · exact look_mem hy
      · exact ih hys x hx
    · simp at hl

theorem pick_one {env : List Cell} {k : Kind} {i x : Nat} (hl : look env k i = some x) : (k, x) ∈ pick env k [i] := by
  simp [pick, hl]

theorem pick_all {env : List Cell} {k : Kind} {is xs : List Nat} (hl : looks env k is = some xs) :
    ∀ x ∈ xs, (k, x) ∈ pick env k is := by
  induction is generalizing xs with
  | nil => simp only [looks, Option.some.injEq] at hl; subst hl; simp
  | cons i is ih =>
    simp only [looks] at hl
    split at hl
    · rename_i y ys hy hys
      simp only [Option.some.injEq] at hl
      subst hl
      intro x hx
      simp only [List.mem_cons] at hx
      rcases hx with rfl | hx
      · simp [pick, hy]
      · have := ih hys x hx
        simp only [pick, List.mem_filterMap] at this ⊢
        obtain ⟨j, hj, hj'⟩ := this
        exact ⟨j, by simp [hj], hj'⟩
    · simp at hl

theorem pick_sub {env : List Cell} {k : Kind} {is : List Nat} {c : Cell} (hc : c ∈ pick env k is) : c ∈ env := by
  simp only [pick, List.mem_filterMap, Option.map_eq_some_iff] at hc
  obtain ⟨i, _, x, hx, rfl⟩ := hc
  exact look_mem hx

theorem envOr_refl {env : List Cell} {P : Cell → Prop} : ∀ c ∈ env, c ∈ env ∨ P c := fun _ hc => Or.inl hc

theorem envOr_append {env more : List Cell} {P : Cell → Prop} (hm : ∀ c ∈ more, P c) :
    ∀ c ∈ env ++ more, c ∈ env ∨ P c := by
  intro c hc
  simp only [List.mem_append] at hc
  rcases hc with hc | hc
  · exact Or.inl hc
  · exact Or.inr (hm c hc)

/-- every public operation respects every good region that contains the caller's roots -/
theorem step_spec {h : Heap} {env : List Cell} (hg : Good X h) (op : HOp)
    (hroots : ∀ c ∈ opRoots env op, In X h c) :
    Spec X h (step o op (h, env)).1 ∧
      ∀ c ∈ (step o op (h, env)).2, c ∈ env ∨ In X (step o op (h, env)).1 c := by
  cases op with
  | msgCopy i =>
    simp only [step]
    simp only [opRoots] at hroots
    split
    · rename_i x hx
      have hx' := hroots _ (pick_one hx)
      obtain ⟨s1, i1⟩ := msgCopy_spec (X := X) hg x
      exact ⟨s1, envOr_append (by intro c hc; simp only [List.mem_singleton] at hc; subst hc; exact i1)⟩
    · exact ⟨Spec.refl hg, envOr_refl⟩
  | seqCopy i =>
    simp only [step]
    simp only [opRoots] at hroots
    split
    · rename_i x hx
      have hx' := hroots _ (pick_one hx)
      obtain ⟨s1, i1⟩ := seqCopy_spec (X := X) hg x
      exact ⟨s1, envOr_append (by intro c hc; simp only [List.mem_singleton] at hc; subst hc; exact i1)⟩
    · exact ⟨Spec.refl hg, envOr_refl⟩
  | barCopy i tag =>
    simp only [step]
    simp only [opRoots] at hroots
    split
    · rename_i x hx
      have hx' := hroots _ (pick_one hx)
      obtain ⟨s1, i1⟩ := barCopy_spec (o := o) (X := X) hg tag x (bar_seq_in hg hx')
      exact ⟨s1, envOr_append (by intro c hc; simp only [List.mem_singleton] at hc; subst hc; exact i1)⟩
    · exact ⟨Spec.refl hg, envOr_refl⟩
  | trkCopy i tag =>
    simp only [step]
    simp only [opRoots] at hroots
    split
    · rename_i x hx
      have hx' := hroots _ (pick_one hx)
      obtain ⟨s1, i1⟩ := trkCopy_spec (o := o) (X := X) hg tag x hx'
      exact ⟨s1, envOr_append (by intro c hc; simp only [List.mem_singleton] at hc; subst hc; exact i1)⟩
    · exact ⟨Spec.refl hg, envOr_refl⟩
  | cmpCopy i tag =>
    simp only [step]
    simp only [opRoots] at hroots
    split
    · rename_i x hx
      have hx' := hroots _ (pick_one hx)
      obtain ⟨s1, i1⟩ := cmpCopy_spec (o := o) (X := X) hg tag x hx'
      exact ⟨s1, envOr_append (by intro c hc; simp only [List.mem_singleton] at hc; subst hc; exact i1)⟩
    · exact ⟨Spec.refl hg, envOr_refl⟩
  | trkToSequence i =>
    simp only [step]
    simp only [opRoots] at hroots
    split
    · rename_i x hx
      have hx' := hroots _ (pick_one hx)
      obtain ⟨s1, i1⟩ := trkToSequence_spec (o := o) hg hx'
      exact ⟨s1, envOr_append (by intro c hc; simp only [List.mem_singleton] at hc; subst hc; exact i1)⟩
    · exact ⟨Spec.refl hg, envOr_refl⟩
  | mkBar i num den key tag =>
    simp only [step]
    simp only [opRoots] at hroots
    split
    · rename_i x hx
      have hx' := hroots _ (pick_one hx)
      obtain ⟨s1, i1⟩ := barInit_spec (o := o) hg tag num den key hx'
      exact ⟨s1, envOr_append (by intro c hc; simp only [List.mem_singleton] at hc; subst hc; exact i1)⟩
    · exact ⟨Spec.refl hg, envOr_refl⟩
  | split i tag =>
    simp only [step]
    simp only [opRoots] at hroots
    split
    · rename_i x hx
      have hx' := hroots _ (pick_one hx)
      obtain ⟨s1, i1⟩ := split_spec (o := o) hg tag hx'
      exact ⟨s1, envOr_append (by
        intro c hc; simp only [cellsOf, List.mem_map] at hc; obtain ⟨p, hp, rfl⟩ := hc; exact i1 p hp)⟩
    · exact ⟨Spec.refl hg, envOr_refl⟩
  | readAbs i =>
    simp only [step]
    simp only [opRoots] at hroots
    split
    · rename_i x hx
      have hx' := hroots _ (pick_one hx)
      have s1 := readAbs_spec (o := o) hg hx'
      exact ⟨s1, envOr_refl⟩
    · exact ⟨Spec.refl hg, envOr_refl⟩
  | readRel i =>
    simp only [step]
    simp only [opRoots] at hroots
    split
    · rename_i x hx
      have hx' := hroots _ (pick_one hx)
      have s1 := readRel_spec (o := o) hg hx'
      exact ⟨s1, envOr_refl⟩
    · exact ⟨Spec.refl hg, envOr_refl⟩
  | refresh i =>
    simp only [step]
    simp only [opRoots] at hroots
    split
    · rename_i x hx
      have hx' := hroots _ (pick_one hx)
      have s1 := refresh_spec (o := o) hg hx'
      exact ⟨s1, envOr_refl⟩
    · exact ⟨Spec.refl hg, envOr_refl⟩
  | pairings i tag =>
    simp only [step]
    simp only [opRoots] at hroots
    split
    · rename_i x hx
      have hx' := hroots _ (pick_one hx)
      have s1 := pairings_spec (o := o) hg tag hx'
      exact ⟨s1, envOr_refl⟩
    · exact ⟨Spec.refl hg, envOr_refl⟩
  | setChannel i ch =>
    simp only [step]
    simp only [opRoots] at hroots
    split
    · rename_i x hx
      have hx' := hroots _ (pick_one hx)
      have s1 := setChannel_spec (o := o) hg ch hx'
      exact ⟨s1, envOr_refl⟩
    · exact ⟨Spec.refl hg, envOr_refl⟩
  | transpose i tag sh =>
    simp only [step]
    simp only [opRoots] at hroots
    split
    · rename_i x hx
      have hx' := hroots _ (pick_one hx)
      have s1 := transpose_spec (o := o) hg tag sh hx'
      exact ⟨s1, envOr_refl⟩
    · exact ⟨Spec.refl hg, envOr_refl⟩
  | scaleUp i tag qa =>
    simp only [step]
    simp only [opRoots] at hroots
    split
    · rename_i x hx
      have hx' := hroots _ (pick_one hx)
      have s1 := scaleUp_spec (o := o) hg tag qa hx'
      exact ⟨s1, envOr_refl⟩
    · exact ⟨Spec.refl hg, envOr_refl⟩
  | iterEditRel i tag =>
    simp only [step]
    simp only [opRoots] at hroots
    split
    · rename_i x hx
      have hx' := hroots _ (pick_one hx)
      have s1 := iterEditRel_spec (o := o) hg tag hx'
      exact ⟨s1, envOr_refl⟩
    · exact ⟨Spec.refl hg, envOr_refl⟩
  | iterEditAbs i tag =>
    simp only [step]
    simp only [opRoots] at hroots
    split
    · rename_i x hx
      have hx' := hroots _ (pick_one hx)
      have s1 := iterEditAbs_spec (o := o) hg tag hx'
      exact ⟨s1, envOr_refl⟩
    · exact ⟨Spec.refl hg, envOr_refl⟩
  | editMsg i m =>
    simp only [step]
    simp only [opRoots] at hroots
    split
    · rename_i x hx
      have hx' := hroots _ (pick_one hx)
      have s1 := setMsg_spec hg x m hx'.1
      exact ⟨s1, envOr_refl⟩
    · exact ⟨Spec.refl hg, envOr_refl⟩
  | quantise i tag =>
    simp only [step]
    simp only [opRoots] at hroots
    split
    · rename_i x hx
      have hx' := hroots _ (pick_one hx)
      have s1 := quantise_spec (o := o) hg tag hx'
      exact ⟨s1, envOr_refl⟩
    · exact ⟨Spec.refl hg, envOr_refl⟩
  | quantiseNoteLengths i tag =>
    simp only [step]
    simp only [opRoots] at hroots
    split
    · rename_i x hx
      have hx' := hroots _ (pick_one hx)
      have s1 := quantiseNoteLengths_spec (o := o) hg tag hx'
      exact ⟨s1, envOr_refl⟩
    · exact ⟨Spec.refl hg, envOr_refl⟩
  | cutoff i tag =>
    simp only [step]
    simp only [opRoots] at hroots
    split
    · rename_i x hx
      have hx' := hroots _ (pick_one hx)
      have s1 := cutoff_spec (o := o) hg tag hx'
      exact ⟨s1, envOr_refl⟩
    · exact ⟨Spec.refl hg, envOr_refl⟩
  | quantiseAndNormalise i tag =>
    simp only [step]
    simp only [opRoots] at hroots
    split
    · rename_i x hx
      have hx' := hroots _ (pick_one hx)
      have s1 := quantiseAndNormalise_spec (o := o) hg tag hx'
      exact ⟨s1, envOr_refl⟩
    · exact ⟨Spec.refl hg, envOr_refl⟩
  | barTranspose i tag sh k =>
    simp only [step]
    simp only [opRoots] at hroots
    split
    · rename_i x hx
      have hx' := hroots _ (pick_one hx)
      have s1 := barTranspose_spec (o := o) hg tag sh k hx'
      exact ⟨s1, envOr_refl⟩
    · exact ⟨Spec.refl hg, envOr_refl⟩
  | normalise i tag =>
    simp only [step]
    simp only [opRoots] at hroots
    split
    · rename_i x hx
      have hx' := hroots _ (pick_one hx)
      have s1 := normalise_spec (o := o) hg tag hx'
      exact ⟨s1, envOr_refl⟩
    · exact ⟨Spec.refl hg, envOr_refl⟩
  | pad i tag =>
    simp only [step]
    simp only [opRoots] at hroots
    split
    · rename_i x hx
      have hx' := hroots _ (pick_one hx)
      have s1 := pad_spec (o := o) hg tag hx'
      exact ⟨s1, envOr_refl⟩
    · exact ⟨Spec.refl hg, envOr_refl⟩
  | splitBars is mti qnl tag fuel =>
    simp only [step]
    simp only [opRoots] at hroots
    split
    · rename_i ss hss
      obtain ⟨s1, i1⟩ := splitBars_spec (o := o) (X := X) hg tag qnl fuel ss mti
      exact ⟨s1, envOr_append (by
        intro c hc
        simp only [cellsOf, List.mem_map, List.mem_flatten] at hc
        obtain ⟨b, ⟨bs, hbs, hb⟩, rfl⟩ := hc
        exact i1 bs hbs b hb)⟩
    · exact ⟨Spec.refl hg, envOr_refl⟩
  | cmpFromSequences is mti tag fuel =>
    simp only [step]
    simp only [opRoots] at hroots
    split
    · rename_i ss hss
      obtain ⟨s1, i1⟩ := cmpFromSequences_spec (o := o) (X := X) hg tag fuel ss mti
      exact ⟨s1, envOr_append (by intro c hc; simp only [List.mem_singleton] at hc; subst hc; exact i1)⟩
    · exact ⟨Spec.refl hg, envOr_refl⟩
  | barSeq i =>
    simp only [step]
    simp only [opRoots] at hroots
    split
    · rename_i x hx
      have hx' := hroots _ (pick_one hx)
      exact ⟨Spec.refl hg, envOr_append (by
        intro c hc; simp only [List.mem_singleton] at hc; subst hc; exact bar_seq_in hg hx')⟩
    · exact ⟨Spec.refl hg, envOr_refl⟩
  | trkBars i =>
    simp only [step]
    simp only [opRoots] at hroots
    split
    · rename_i x hx
      have hx' := hroots _ (pick_one hx)
      exact ⟨Spec.refl hg, envOr_append (by
        intro c hc; simp only [cellsOf, List.mem_map] at hc; obtain ⟨b, hb, rfl⟩ := hc
        exact trk_bars_in hg hx' b hb)⟩
    · exact ⟨Spec.refl hg, envOr_refl⟩
  | cmpTrks i =>
    simp only [step]
    simp only [opRoots] at hroots
    split
    · rename_i x hx
      have hx' := hroots _ (pick_one hx)
      exact ⟨Spec.refl hg, envOr_append (by
        intro c hc; simp only [cellsOf, List.mem_map] at hc; obtain ⟨b, hb, rfl⟩ := hc
        exact cmp_trks_in hg hx' b hb)⟩
    · exact ⟨Spec.refl hg, envOr_refl⟩
  | absMsgs i =>
    simp only [step]
    simp only [opRoots] at hroots
    split
    · rename_i x hx
      have hx' := hroots _ (pick_one hx)
      obtain ⟨s1, i1⟩ := getAbs_spec (o := o) hg hx'
      split
      · rename_i l hl
        have s2 := invalidateRel_spec s1.good (hx'.mono s1.pres)
        refine ⟨s1.trans s2, envOr_append ?_⟩
        intro c hc
        simp only [cellsOf, List.mem_map] at hc
        obtain ⟨m, hm, rfl⟩ := hc
        exact (lst_in s1.good (i1 l hl) m hm).mono s2.pres
      · exact ⟨s1, envOr_refl⟩
    · exact ⟨Spec.refl hg, envOr_refl⟩
  | relMsgs i =>
    simp only [step]
    simp only [opRoots] at hroots
    split
    · rename_i x hx
      have hx' := hroots _ (pick_one hx)
      obtain ⟨s1, i1⟩ := getRel_spec (o := o) hg hx'
      split
      · rename_i l hl
        have s2 := invalidateAbs_spec s1.good (hx'.mono s1.pres)
        refine ⟨s1.trans s2, envOr_append ?_⟩
        intro c hc
        simp only [cellsOf, List.mem_map] at hc
        obtain ⟨m, hm, rfl⟩ := hc
        exact (lst_in s1.good (i1 l hl) m hm).mono s2.pres
      · exact ⟨s1, envOr_refl⟩
    · exact ⟨Spec.refl hg, envOr_refl⟩
  | scaleDown i mi tag fuel qa =>
    simp only [step]
    simp only [opRoots] at hroots
    split
    · rename_i x hx
      have hx' := hroots _ (pick_one hx)
      split
      · have s1 := scaleDown_spec (o := o) hg tag qa fuel none hx'
        exact ⟨s1, envOr_refl⟩
      · rename_i j
        split
        · rename_i m hm
          have s1 := scaleDown_spec (o := o) hg tag qa fuel (some m) hx'
          exact ⟨s1, envOr_refl⟩
        · exact ⟨Spec.refl hg, envOr_refl⟩
    · exact ⟨Spec.refl hg, envOr_refl⟩
  | newMsg m =>
    simp only [step]
    simp only [opRoots] at hroots
    obtain ⟨s1, i1, _⟩ := newMsg_spec hg m
    exact ⟨s1, envOr_append (by intro c hc; simp only [List.mem_singleton] at hc; subst hc; exact i1)⟩
  | newSeq =>
    simp only [step]
    simp only [opRoots] at hroots
    obtain ⟨s1, i1⟩ := seqInit_spec hg none none (by simp) (by simp)
    exact ⟨s1, envOr_append (by intro c hc; simp only [List.mem_singleton] at hc; subst hc; exact i1)⟩
  | mkTrk is name tag =>
    simp only [step]
    simp only [opRoots] at hroots
    split
    · rename_i bs hbs
      obtain ⟨s1, i1⟩ := trkInit_spec (o := o) hg tag bs name (fun b hb => hroots _ (pick_all hbs b hb))
      exact ⟨s1, envOr_append (by intro c hc; simp only [List.mem_singleton] at hc; subst hc; exact i1)⟩
    · exact ⟨Spec.refl hg, envOr_refl⟩
  | mkCmp is =>
    simp only [step]
    simp only [opRoots] at hroots
    split
    · rename_i ts hts
      obtain ⟨s1, i1, _⟩ := newCmp_spec hg ts (fun t ht => hroots _ (pick_all hts t ht))
      exact ⟨s1, envOr_append (by intro c hc; simp only [List.mem_singleton] at hc; subst hc; exact i1)⟩
    · exact ⟨Spec.refl hg, envOr_refl⟩
  | barsToSequence js =>
    simp only [step]
    simp only [opRoots] at hroots
    split
    · rename_i bs hbs
      obtain ⟨s1, i1⟩ := barsToSequence_spec (o := o) hg bs (fun b hb => hroots _ (pick_all hbs b hb))
      exact ⟨s1, envOr_append (by intro c hc; simp only [List.mem_singleton] at hc; subst hc; exact i1)⟩
    · exact ⟨Spec.refl hg, envOr_refl⟩
  | equals i j tag =>
    simp only [step]
    simp only [opRoots] at hroots
    split
    · rename_i x y hx hy
      have s1 := seqEquals_spec (o := o) hg tag (hroots _ (List.mem_append_left _ (pick_one hx))) (hroots _ (List.mem_append_right _ (pick_one hy)))
      exact ⟨s1, envOr_refl⟩
    · exact ⟨Spec.refl hg, envOr_refl⟩
  | addAbs i j idx =>
    simp only [step]
    simp only [opRoots] at hroots
    split
    · rename_i x y hx hy
      have s1 := addAbs_spec (o := o) hg idx (hroots _ (List.mem_append_left _ (pick_one hx))) (hroots _ (List.mem_append_right _ (pick_one hy)))
      exact ⟨s1, envOr_refl⟩
    · exact ⟨Spec.refl hg, envOr_refl⟩
  | addRel i j idx =>
    simp only [step]
    simp only [opRoots] at hroots
    split
    · rename_i x y hx hy
      have s1 := addRel_spec (o := o) hg idx (hroots _ (List.mem_append_left _ (pick_one hx))) (hroots _ (List.mem_append_right _ (pick_one hy)))
      exact ⟨s1, envOr_refl⟩
    · exact ⟨Spec.refl hg, envOr_refl⟩
  | overwriteAbs i js tag =>
    simp only [step]
    simp only [opRoots] at hroots
    split
    · rename_i x ms hx hms
      have s1 := overwriteAbs_spec (o := o) hg tag ms (hroots _ (List.mem_append_left _ (pick_one hx))) (fun m hm => hroots _ (List.mem_append_right _ (pick_all hms m hm)))
      exact ⟨s1, envOr_refl⟩
    · exact ⟨Spec.refl hg, envOr_refl⟩
  | overwriteRel i js =>
    simp only [step]
    simp only [opRoots] at hroots
    split
    · rename_i x ms hx hms
      have s1 := overwriteRel_spec hg ms (hroots _ (List.mem_append_left _ (pick_one hx))) (fun m hm => hroots _ (List.mem_append_right _ (pick_all hms m hm)))
      exact ⟨s1, envOr_refl⟩
    · exact ⟨Spec.refl hg, envOr_refl⟩
  | concatenate i js =>
    simp only [step]
    simp only [opRoots] at hroots
    split
    · rename_i x ss hx hss
      have s1 := concatenate_spec (o := o) hg ss (hroots _ (List.mem_append_left _ (pick_one hx))) (fun a ha => hroots _ (List.mem_append_right _ (pick_all hss a ha)))
      exact ⟨s1, envOr_refl⟩
    · exact ⟨Spec.refl hg, envOr_refl⟩
  | merge i js tag =>
    simp only [step]
    simp only [opRoots] at hroots
    split
    · rename_i x ss hx hss
      have s1 := merge_spec (o := o) hg tag ss (hroots _ (List.mem_append_left _ (pick_one hx))) (fun a ha => hroots _ (List.mem_append_right _ (pick_all hss a ha)))
      exact ⟨s1, envOr_refl⟩
    · exact ⟨Spec.refl hg, envOr_refl⟩

theorem opRoots_sub (env : List Cell) (op : HOp) : ∀ c ∈ opRoots env op, c ∈ env := by
  intro c hc
  cases op <;> simp only [opRoots, List.mem_append] at hc <;>
    first
    | exact pick_sub hc
    | (rcases hc with hc | hc <;> exact pick_sub hc)
    | simp at hc

theorem step_spec_env {h : Heap} {env : List Cell} (hg : Good X h) (henv : EnvIn X h env) (op : HOp) :
    Spec X h (step o op (h, env)).1 ∧ EnvIn X (step o op (h, env)).1 (step o op (h, env)).2 := by
  obtain ⟨s1, e1⟩ := step_spec (o := o) (env := env) hg op (fun c hc => henv c (opRoots_sub env op c hc))
  refine ⟨s1, ?_⟩
  intro c hc
  rcases e1 c hc with hc | hc
  · exact (henv c hc).mono s1.pres
  · exact hc

theorem run_spec {h : Heap} {env : List Cell} (hg : Good X h) (henv : EnvIn X h env) (ops : List HOp) :
    Spec X h (run o ops (h, env)).1 ∧ EnvIn X (run o ops (h, env)).1 (run o ops (h, env)).2 := by
  induction ops generalizing h env with
  | nil => exact ⟨Spec.refl hg, henv⟩
  | cons op ops ih =>
    obtain ⟨s1, e1⟩ := step_spec_env (o := o) hg henv op
    obtain ⟨s2, e2⟩ := ih s1.good e1
    exact ⟨s1.trans s2, e2⟩

end histories

/-! ## values: what a copy reads -/

section values

theorem same_msg {h h' : Heap} (hp : ∀ c, h.alloc c → h'.get c = h.get c) {i : Nat} (hi : h.alloc (.msg, i)) :
    h'.msg i = h.msg i := by
  have := hp _ hi
  simpa [Heap.get] using this

theorem same_lst {h h' : Heap} (hp : ∀ c, h.alloc c → h'.get c = h.get c) {l : Nat} (hl : h.alloc (.lst, l)) :
    h'.lst l = h.lst l := by
  have := hp _ hl
  simpa [Heap.get] using this

theorem viewVals_same {h h' : Heap} (hp : ∀ c, h.alloc c → h'.get c = h.get c) {l : Nat}
    (hl : h.alloc (.lst, l)) (hm : ∀ i ∈ h.lst l, h.alloc (.msg, i)) : h'.viewVals l = h.viewVals l := by
  simp only [Heap.viewVals, Heap.vals, same_lst hp hl]
  apply List.map_congr_left
  intro i hi
  exact same_msg hp (hm i hi)

/-- anything that respects the region of unallocated cells leaves every allocated cell alone -/
theorem Spec.same_alloc {h h' : Heap} (sp : Spec (Fresh h) h h') : ∀ c, h.alloc c → h'.get c = h.get c :=
  fun c hc => sp.pres.same c (fun hn => hn hc)

theorem newMsgs_vals (h : Heap) (ms : List Msg) : (newMsgs h ms).1.vals (newMsgs h ms).2 = ms := by
  induction ms generalizing h with
  | nil => rfl
  | cons m ms ih =>
    simp only [newMsgs, Heap.vals, List.map_cons]
    have h1 : (newMsgs (h.newMsg m).1 ms).1.msg (h.newMsg m).2 = (h.newMsg m).1.msg (h.newMsg m).2 :=
      same_msg (newMsgs_spec (good_fresh (h.newMsg m).1) ms).1.same_alloc
        (by simp [Heap.newMsg, Heap.alloc, Heap.next])
    have h2 : (h.newMsg m).1.msg (h.newMsg m).2 = m := by simp [Heap.newMsg]
    rw [h1, h2]
    have := ih (h.newMsg m).1
    simp only [Heap.vals] at this
    rw [this]

/-- the new view holds exactly the values `f` of the source values -/
theorem convView_vals (f : List Msg → List Msg) (h : Heap) (l : Nat) :
    (convView f h l).1.viewVals (convView f h l).2 = f (h.viewVals l) := by
  have := newMsgs_vals h (f (h.viewVals l))
  simp only [convView, Heap.viewVals, Heap.vals, Heap.newLst, if_true] at this ⊢
  exact this

/-- a copied view holds the same message values as the source view -/
theorem copyView_vals (h : Heap) (l : Nat) : (copyView h l).1.viewVals (copyView h l).2 = h.viewVals l :=
  convView_vals id h l

/-! ### what `Sequence.copy()` reads and builds -/

theorem optVals_same {h h' : Heap} (hp : ∀ c, h.alloc c → h'.get c = h.get c) (v : Option Nat)
    (hv : ∀ l, v = some l → h.alloc (.lst, l) ∧ ∀ i ∈ h.lst l, h.alloc (.msg, i)) : optVals h' v = optVals h v := by
  cases v with
  | none => rfl
  | some l => exact viewVals_same hp (hv l rfl).1 (hv l rfl).2

theorem copyOpt_vals (h : Heap) (stale : Bool) (v : Option Nat) (hok : stale = false → v.isSome = true) :
    optVals (copyOpt h stale v).1 (copyOpt h stale v).2 = (if stale then [] else optVals h v)
      ∧ (copyOpt h stale v).2.isSome = !stale := by
  cases stale with
  | true => simp [copyOpt, optVals]
  | false =>
    cases v with
    | none => simp at hok
    | some l => simp [copyOpt, optVals, copyView_vals]

theorem seqInit_snap (h : Heap) (a r : Option Nat) :
    snap (seqInit h a r).1 (seqInit h a r).2
      = { abs := optVals h a, rel := optVals h r, absStale := a.isNone && r.isSome, relStale := r.isNone } := by
  cases a <;> cases r <;>
    simp [seqInit, snap, optVals, Heap.newSeq, Heap.newLst, Heap.viewVals, Heap.vals]

/-! ### the scalars of copied bars / tracks / compositions -/

variable {o : Orc}

theorem newBar_same (h : Heap) (b : BarCell) : ∀ c, h.alloc c → (h.newBar b).1.get c = h.get c := by
  rintro ⟨k, i⟩ hc
  cases k <;> simp_all [Heap.newBar, Heap.get, Heap.alloc, Heap.next]
  omega

theorem newBar_le (h : Heap) (b : BarCell) : ∀ k, h.next k ≤ (h.newBar b).1.next k := by
  intro k; cases k <;> simp [Heap.newBar, Heap.next]

theorem newTrk_same (h : Heap) (t : TrkCell) : ∀ c, h.alloc c → (h.newTrk t).1.get c = h.get c := by
  rintro ⟨k, i⟩ hc
  cases k <;> simp_all [Heap.newTrk, Heap.get, Heap.alloc, Heap.next]
  omega

theorem newTrk_le (h : Heap) (t : TrkCell) : ∀ k, h.next k ≤ (h.newTrk t).1.next k := by
  intro k; cases k <;> simp [Heap.newTrk, Heap.next]

theorem barInit_bar (tag : Nat) (h : Heap) (s : Nat) (n d k : Int) (hall : ∀ c ∈ reach h (.seq, s), h.alloc c) :
    (barInit o tag h s n d k).1.bar (barInit o tag h s n d k).2 = { seq := s, num := n, den := d, key := k } := by
  have hreach : reach (h.newBar { seq := s, num := n, den := d, key := k }).1 (.seq, s) = reach h (.seq, s) :=
    reach_congr _ (fun c hc => newBar_same h _ c (hall c hc))
  have hallb : ∀ c ∈ reachAll (h.newBar { seq := s, num := n, den := d, key := k }).1 [(.seq, s)],
      (h.newBar { seq := s, num := n, den := d, key := k }).1.alloc c := by
    intro c hc
    simp only [reachAll, List.flatMap_cons, List.flatMap_nil, List.append_nil] at hc
    rw [hreach] at hc
    exact alloc_mono (newBar_le h _) (hall c hc)
  have t := barBody_spec (o := o) (good_reachR _ _ hallb) tag n d (in_reachR (r := (.seq, s)) hallb (by simp))
  have hout : ¬ ReachR (h.newBar { seq := s, num := n, den := d, key := k }).1 [(.seq, s)] (.bar, h.nBar) := by
    rintro (hx | hx)
    · simp only [reachAll, List.flatMap_cons, List.flatMap_nil, List.append_nil] at hx
      have := reachN_rank 5 _ hx
      simp [Kind.rank] at this
    · exact hx (by simp [Heap.newBar, Heap.alloc, Heap.next])
  have := t.pres.same _ hout
  simp only [Heap.get, Val.bar.injEq] at this
  simp only [barInit]
  rw [show (h.newBar { seq := s, num := n, den := d, key := k }).2 = h.nBar from rfl, this]
  simp [Heap.newBar]

theorem barCopies_length (tag : Nat) (h : Heap) (bs : List Nat) : (barCopies o tag h bs).2.length = bs.length := by
  induction bs generalizing h tag with
  | nil => rfl
  | cons b bs ih => simp [barCopies, ih]

theorem trkCopies_length (tag : Nat) (h : Heap) (ts : List Nat) : (trkCopies o tag h ts).2.length = ts.length := by
  induction ts generalizing h tag with
  | nil => rfl
  | cons t ts ih => simp [trkCopies, ih]

theorem trkInit_trk (tag : Nat) (h : Heap) (bars : List Nat) (name : Int)
    (hall : ∀ c ∈ reachAll h (bars.map (fun b => (Kind.bar, b))), h.alloc c) :
    ((trkInit o tag h bars name).1.trk (trkInit o tag h bars name).2).bars = bars
      ∧ ((trkInit o tag h bars name).1.trk (trkInit o tag h bars name).2).name = name := by
  have hreach := reachAll_congr (h' := (h.newTrk { bars := bars, name := name, program := pyNone }).1)
    (bars.map (fun b => (Kind.bar, b))) (fun c hc => newTrk_same h _ c (hall c hc))
  have hallt : ∀ c ∈ reachAll (h.newTrk { bars := bars, name := name, program := pyNone }).1
      (bars.map (fun b => (Kind.bar, b))), (h.newTrk { bars := bars, name := name, program := pyNone }).1.alloc c := by
    intro c hc
    rw [hreach] at hc
    exact alloc_mono (newTrk_le h _) (hall c hc)
  have hg := good_reachR _ _ hallt
  obtain ⟨t2, i2⟩ := barsToSequence_spec (o := o) hg bars
    (fun b hb => in_reachR hallt (List.mem_map.2 ⟨b, hb, rfl⟩))
  have t3 := iterRel_spec (o := o) t2.good i2
  have t23 := t2.trans t3
  have hout : ¬ ReachR (h.newTrk { bars := bars, name := name, program := pyNone }).1
      (bars.map (fun b => (Kind.bar, b))) (.trk, h.nTrk) := by
    rintro (hx | hx)
    · obtain ⟨r, hr, hc⟩ := mem_reachAll.1 hx
      obtain ⟨b, _, rfl⟩ := List.mem_map.1 hr
      have := reachN_rank 5 _ hc
      simp [Kind.rank] at this
    · exact hx (by simp [Heap.newTrk, Heap.alloc, Heap.next])
  have := t23.pres.same _ hout
  simp only [Heap.get, Val.trk.injEq] at this
  simp only [trkInit]
  rw [show (h.newTrk { bars := bars, name := name, program := pyNone }).2 = h.nTrk from rfl]
  simp only [Heap.setTrk, if_true]
  rw [this]
  simp [Heap.newTrk]

end values
end SCoda.HeapL
