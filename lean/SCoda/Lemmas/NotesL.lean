/-
  Helper lemmas for `Props/Notes`: the `pairStep` fold on a well-formed list simulates `notesGo`.
-/
import SCoda.Model.Pairing
import SCoda.Model.Roll
import SCoda.Lemmas.Sort
import SCoda.Lemmas.NoteLengths
import SCoda.Lemmas.GluePair
import SCoda.Lemmas.Equals
import SCoda.Lemmas.Normalise
namespace SCoda.NotesL
open SCoda

/-! ### association lists -/

section assoc
variable {κ ν : Type} [DecidableEq κ]

theorem set_set (d : Assoc κ ν) (q : κ) (v w : ν) : Assoc.set (Assoc.set d q v) q w = Assoc.set d q w := by
  induction d with
  | nil => simp [Assoc.set]
  | cons a d ih =>
    obtain ⟨k, x⟩ := a
    by_cases h : k = q
    · simp [Assoc.set, h]
    · simp [Assoc.set, h, ih]

/-- how `set` changes a reading of the dictionary that maps every value to a list -/
theorem read_set {β} (g : ν → List β) (d : Assoc κ ν) (q : κ) (v : ν) (dflt : ν)
    (hd : g dflt = []) :
    ∃ A B, d.flatMap (fun c => g c.2) = A ++ g ((d.get? q).getD dflt) ++ B
      ∧ (Assoc.set d q v).flatMap (fun c => g c.2) = A ++ g v ++ B := by
  induction d with
  | nil => exact ⟨[], [], by simp [Assoc.get?, hd], by simp [Assoc.set]⟩
  | cons a d ih =>
    obtain ⟨k, x⟩ := a
    by_cases h : k = q
    · exact ⟨[], d.flatMap (fun c => g c.2), by simp [Assoc.get?, h], by simp [Assoc.set, h]⟩
    · obtain ⟨A, B, h1, h2⟩ := ih
      exact ⟨g x ++ A, B, by simp [Assoc.get?, h, h1], by simp [Assoc.set, h, h2]⟩

end assoc


theorem modifyAt_split {α} (f : α → α) (i : Nat) (l : List α) (x : α) (h : l[i]? = some x) :
    l = l.take i ++ x :: l.drop (i + 1) ∧ modifyAt f i l = l.take i ++ f x :: l.drop (i + 1) := by
  induction l generalizing i with
  | nil => simp at h
  | cons y ys ih =>
    cases i with
    | zero => simp at h; subst h; simp [modifyAt]
    | succ i =>
      simp at h
      obtain ⟨h1, h2⟩ := ih i h
      constructor
      · simp; exact h1
      · simp [modifyAt]; exact h2

/-! ### readings of the state -/

def toPair : Pairing → Option (Msg × Msg)
  | [on, off] => some (on, off)
  | _ => Option.none

def toSingle : Pairing → Option Msg
  | [m] => if m.ty = .noteOn then Option.none else some m
  | _ => Option.none

def allP (d : Assoc Int (List Pairing)) : List Pairing := d.flatMap (·.2)

def mkNote (p : Msg × Msg) : Note :=
  { ch := p.1.ch, pitch := p.1.note, on := p.1.time, off := p.2.time, vel := p.1.vel }

/-- `notesGo` with the two messages of every note kept -/
def pairsGo : List Msg → List Msg → List (Msg × Msg)
  | [], _ => []
  | m :: ms, opens =>
    if m.ty == .noteOn then pairsGo ms (m :: opens.filter (fun o => o.nkey != m.nkey))
    else if m.ty == .noteOff then
      match opens.find? (fun o => o.nkey == m.nkey) with
      | some o => (o, m) :: pairsGo ms (opens.filter (fun x => x.nkey != m.nkey))
      | Option.none => pairsGo ms opens
    else pairsGo ms opens

theorem notesGo_eq (l os : List Msg) : notesGo l os = (pairsGo l os).map mkNote := by
  induction l generalizing os with
  | nil => rfl
  | cons m ms ih =>
    simp only [notesGo, pairsGo]
    split
    · exact ih _
    · split
      · cases hf : List.find? (fun o => o.nkey == m.nkey) os with
        | none => exact ih _
        | some o => simp [ih, mkNote]
      · exact ih _

theorem read_allP_set {β} (f : Pairing → Option β) (d : Assoc Int (List Pairing)) (q : Int) (v : List Pairing) :
    ∃ A B, (allP d).filterMap f = A ++ ((d.get? q).getD []).filterMap f ++ B
      ∧ (allP (Assoc.set d q v)).filterMap f = A ++ v.filterMap f ++ B := by
  have := read_set (fun ps : List Pairing => ps.filterMap f) d q v [] rfl
  simpa [allP, List.filterMap_flatMap] using this


/-! ### the three steps that occur on a well-formed list -/

theorem setDefault_append (s : PairSt) (ch : Int) (p : Pairing) :
    (GluePair.setDefault s ch).append ch p = s.append ch p := by
  unfold GluePair.setDefault
  split
  · rfl
  · rename_i hc
    have hn : s.pairs.get? ch = none := by simpa [Assoc.contains] using hc
    simp [PairSt.append, set_set, NL.get?_set, hn]

theorem setDefault_appendAt (s : PairSt) (ch : Int) (i : Nat) (m : Msg) :
    ((GluePair.setDefault s ch).appendAt ch i m).pairs = (s.appendAt ch i m).pairs := by
  unfold GluePair.setDefault
  split
  · rfl
  · rename_i hc
    have hn : s.pairs.get? ch = none := by simpa [Assoc.contains] using hc
    simp [PairSt.appendAt, set_set, NL.get?_set, hn]

theorem setDefault_opens (s : PairSt) (ch : Int) : (GluePair.setDefault s ch).opens = s.opens := by
  unfold GluePair.setDefault
  split <;> rfl

theorem step_other (T : List MType) (s : PairSt) (m : Msg) (hc : T.contains m.ty = true)
    (h1 : m.ty ≠ .noteOn) (h2 : m.ty ≠ .noteOff) : pairStep T true s m = s.append m.ch [m] := by
  rw [GluePair.pairStep_other T s m hc h1 h2, setDefault_append]

theorem step_on (T : List MType) (s : PairSt) (m : Msg) (hc : T.contains m.ty = true)
    (h1 : m.ty = .noteOn) (hk : s.opens.get? m.nkey = none) : pairStep T true s m = NL.openOp s m := by
  rw [GluePair.pairStep_on T s m hc h1]
  have : GluePair.closeOpen (GluePair.setDefault s m.ch) m = GluePair.setDefault s m.ch := by
    unfold GluePair.closeOpen
    rw [setDefault_opens, hk]
  rw [this, setDefault_append]
  simp [PairSt.append, NL.openOp, NL.get?_set]

theorem step_off (T : List MType) (s : PairSt) (m : Msg) (hc : T.contains m.ty = true)
    (h1 : m.ty = .noteOff) (i : Nat) (hk : s.opens.get? m.nkey = some i) :
    pairStep T true s m = NL.closeOp s m.nkey i m := by
  rw [GluePair.pairStep_off T s m hc h1]
  rw [setDefault_opens, hk]
  simp only [NL.closeOp]
  have := setDefault_appendAt s m.ch i m
  simp only [PairSt.appendAt] at this ⊢
  simp only [this]
  rfl


/-! ### the simulation invariant -/

def Shape (src : List Msg) (opens : Assoc (Int × Int) Nat) (ch : Int) (i : Nat) (p : Pairing) : Prop :=
  (∃ on, p = [on] ∧ on.ty = .noteOn ∧ on.ch = ch ∧ on ∈ src ∧ opens.get? on.nkey = some i)
  ∨ (∃ on off, p = [on, off] ∧ on.ty = .noteOn ∧ off.ty = .noteOff ∧ off.nkey = on.nkey ∧ on.ch = ch
      ∧ on ∈ src ∧ off ∈ src)
  ∨ (∃ m, p = [m] ∧ m.ty ≠ .noteOn ∧ m.ty ≠ .noteOff ∧ m.ch = ch ∧ m ∈ src)

theorem Shape.mono {src o o' ch i p} (h : Shape src o ch i p)
    (ho : ∀ on : Msg, p = [on] → on.ch = ch → o.get? on.nkey = some i → o'.get? on.nkey = some i) :
    Shape src o' ch i p := by
  rcases h with ⟨on, h1, h2, h3, h4, h5⟩ | h | h
  · exact Or.inl ⟨on, h1, h2, h3, h4, ho on h1 h3 h5⟩
  · exact Or.inr (Or.inl h)
  · exact Or.inr (Or.inr h)

structure J (src : List Msg) (s : PairSt) (os : List Msg) : Prop where
  knp : NL.KN s.pairs
  kno : NL.KN s.opens
  A : ∀ ch L, s.pairs.get? ch = some L → ∀ i p, L[i]? = some p → Shape src s.opens ch i p
  linkN : ∀ k, s.opens.get? k = none → os.find? (fun o => o.nkey == k) = none
  linkS : ∀ k i, s.opens.get? k = some i → ∃ on L, os.find? (fun o => o.nkey == k) = some on
      ∧ s.pairs.get? k.1 = some L ∧ L[i]? = some [on]
  osOn : ∀ o ∈ os, o.ty = .noteOn ∧ o ∈ src

theorem J_init (src : List Msg) : J src {} [] :=
  ⟨List.Pairwise.nil, List.Pairwise.nil, (by intro ch L h; cases h), (by intro k _; rfl),
    (by intro k i h; cases h), (by intro o h; cases h)⟩

/-- the list stored for a channel after appending `x` to the channel `ch` -/
theorem get?_append (d : Assoc Int (List Pairing)) (ch ch' : Int) (x : Pairing) (L' : List Pairing)
    (h : (Assoc.set d ch ((d.get? ch).getD [] ++ [x])).get? ch' = some L') :
    (ch ≠ ch' ∧ d.get? ch' = some L') ∨
    (ch = ch' ∧ L' = (d.get? ch).getD [] ++ [x] ∧ ∀ i, i < ((d.get? ch).getD []).length →
      d.get? ch = some ((d.get? ch).getD [])) := by
  rw [NL.get?_set] at h
  split at h
  · rename_i he
    right
    refine ⟨he, by simpa using h.symm, ?_⟩
    intro i hi
    cases hg : d.get? ch with
    | none => rw [hg] at hi; simp at hi
    | some l => rfl
  · rename_i he
    exact Or.inl ⟨he, h⟩

theorem get?_append_old (d : Assoc Int (List Pairing)) (ch ch' : Int) (x : Pairing) (L : List Pairing)
    (h : d.get? ch' = some L) :
    ∃ L', (Assoc.set d ch ((d.get? ch).getD [] ++ [x])).get? ch' = some L' ∧
      ∀ (i : Nat) (p : Pairing), L[i]? = some p → L'[i]? = some p := by
  rw [NL.get?_set]
  split
  · rename_i he
    subst he
    refine ⟨_, rfl, ?_⟩
    intro i p hp
    rw [h]
    simp only [Option.getD_some]
    rw [List.getElem?_append_left (List.getElem?_eq_some_iff.1 hp).1]
    exact hp
  · exact ⟨L, h, fun _ _ hp => hp⟩

theorem J_push (src : List Msg) (s : PairSt) (os : List Msg) (m : Msg) (h : J src s os)
    (h1 : m.ty ≠ .noteOn) (h2 : m.ty ≠ .noteOff) (hm : m ∈ src) : J src (s.append m.ch [m]) os := by
  refine ⟨NL.KN_set _ _ _ h.knp, h.kno, ?_, h.linkN, ?_, h.osOn⟩
  · intro ch L hL i p hp
    rcases get?_append _ _ _ _ _ hL with ⟨hne, hL'⟩ | ⟨he, hL', hold⟩
    · exact h.A ch L hL' i p hp
    · subst he; subst hL'
      by_cases hi : i < ((s.pairs.get? m.ch).getD []).length
      · rw [List.getElem?_append_left hi] at hp
        exact h.A m.ch _ (hold i hi) i p hp
      · rw [List.getElem?_append_right (by omega)] at hp
        have hp' : p = [m] := by
          cases hj : i - ((s.pairs.get? m.ch).getD []).length with
          | zero => rw [hj] at hp; simpa using hp.symm
          | succ n => rw [hj] at hp; simp at hp
        exact Or.inr (Or.inr ⟨m, hp', h1, h2, rfl, hm⟩)
  · intro k i hk
    obtain ⟨on, L, f1, f2, f3⟩ := h.linkS k i hk
    obtain ⟨L', g1, g2⟩ := get?_append_old s.pairs m.ch k.1 [m] L f2
    exact ⟨on, L', f1, g1, g2 i _ f3⟩


theorem find_filter_ne (os : List Msg) (k k' : Int × Int) (h : k ≠ k') :
    (os.filter (fun o => o.nkey != k')).find? (fun o => o.nkey == k) = os.find? (fun o => o.nkey == k) := by
  rw [List.find?_filter]
  congr 1; funext o
  by_cases h2 : o.nkey = k
  · subst h2; simp [h]
  · simp [h2]

theorem find_filter_self (os : List Msg) (k : Int × Int) :
    (os.filter (fun o => o.nkey != k)).find? (fun o => o.nkey == k) = none := by
  simp [List.find?_eq_none]

theorem J_open (src : List Msg) (s : PairSt) (os : List Msg) (m : Msg) (h : J src s os)
    (hty : m.ty = .noteOn) (hk : s.opens.get? m.nkey = none) (hm : m ∈ src) :
    J src (NL.openOp s m) (m :: os.filter (fun o => o.nkey != m.nkey)) := by
  have hmono : ∀ ch i p, Shape src s.opens ch i p →
      Shape src (Assoc.set s.opens m.nkey ((s.pairs.get? m.ch).getD []).length) ch i p := by
    intro ch i p hs
    apply hs.mono
    intro on _ _ ho
    rw [NL.get?_set, if_neg]
    · exact ho
    · intro he; rw [← he, hk] at ho; cases ho
  refine ⟨NL.KN_set _ _ _ h.knp, NL.KN_set _ _ _ h.kno, ?_, ?_, ?_, ?_⟩
  rotate_left 3
  · intro o ho
    rcases List.mem_cons.1 ho with rfl | ho
    · exact ⟨hty, hm⟩
    · exact h.osOn o (List.mem_filter.1 ho).1
  · intro ch L hL i p hp
    simp only [NL.openOp] at hL ⊢
    rcases get?_append _ _ _ _ _ hL with ⟨hne, hL'⟩ | ⟨he, hL', hold⟩
    · exact hmono _ _ _ (h.A ch L hL' i p hp)
    · subst he; subst hL'
      by_cases hi : i < ((s.pairs.get? m.ch).getD []).length
      · rw [List.getElem?_append_left hi] at hp
        exact hmono _ _ _ (h.A m.ch _ (hold i hi) i p hp)
      · rw [List.getElem?_append_right (by omega)] at hp
        have hp' : p = [m] ∧ i = ((s.pairs.get? m.ch).getD []).length := by
          cases hj : i - ((s.pairs.get? m.ch).getD []).length with
          | zero => rw [hj] at hp; exact ⟨by simpa using hp.symm, by omega⟩
          | succ n => rw [hj] at hp; simp at hp
        refine Or.inl ⟨m, hp'.1, hty, rfl, hm, ?_⟩
        rw [NL.get?_set, if_pos rfl, hp'.2]
  · intro k hk'
    simp only [NL.openOp, NL.get?_set] at hk'
    split at hk'
    · cases hk'
    · rename_i hne
      rw [List.find?_cons]
      have : (m.nkey == k) = false := by simpa using hne
      rw [this]
      simp only []
      rw [find_filter_ne _ _ _ (Ne.symm hne)]
      exact h.linkN k hk'
  · intro k i hk'
    simp only [NL.openOp, NL.get?_set] at hk' ⊢
    split at hk'
    · rename_i he
      subst he
      simp only [Option.some.injEq] at hk'
      subst hk'
      refine ⟨m, _, by simp, if_pos rfl, by simp⟩
    · rename_i hne
      obtain ⟨on, L, f1, f2, f3⟩ := h.linkS k i hk'
      obtain ⟨L', g1, g2⟩ := get?_append_old s.pairs m.ch k.1 [m] L f2
      refine ⟨on, L', ?_, by rw [NL.get?_set] at g1; exact g1, g2 i _ f3⟩
      rw [List.find?_cons]
      have : (m.nkey == k) = false := by simpa using hne
      rw [this]
      simp only []
      rw [find_filter_ne _ _ _ (Ne.symm hne)]
      exact f1


theorem J_close (src : List Msg) (s : PairSt) (os : List Msg) (m : Msg) (h : J src s os)
    (hty : m.ty = .noteOff) (i : Nat) (hk : s.opens.get? m.nkey = some i) (hm : m ∈ src) :
    ∃ on L, os.find? (fun o => o.nkey == m.nkey) = some on ∧ s.pairs.get? m.ch = some L ∧ L[i]? = some [on]
      ∧ on.ty = .noteOn ∧
      J src (NL.closeOp s m.nkey i m) (os.filter (fun o => o.nkey != m.nkey)) := by
  obtain ⟨on, L, f1, f2, f3⟩ := h.linkS m.nkey i hk
  have honk : on.nkey = m.nkey := by simpa using List.find?_some f1
  have hon := h.osOn on (List.mem_of_find?_eq_some f1)
  have hself : (Assoc.erase s.opens m.nkey).get? m.nkey = none := NL.get?_erase_self _ _ h.kno
  have f2' : s.pairs.get? m.ch = some L := f2
  refine ⟨on, L, f1, f2, f3, hon.1, NL.KN_set _ _ _ h.knp, NL.KN_erase _ _ h.kno, ?_, ?_, ?_, ?_⟩
  · intro ch L' hL' j p hp
    simp only [NL.closeOp] at hL' ⊢
    have hold : ∀ L'', s.pairs.get? ch = some L'' → L''[j]? = some p → (ch = m.ch → j ≠ i) →
        Shape src (Assoc.erase s.opens m.nkey) ch j p := by
      intro L'' h1 h2 h3
      apply (h.A ch L'' h1 j p h2).mono
      intro on' _ hch ho
      rw [NL.get?_erase_ne]
      · exact ho
      · intro he
        rw [← he, hk] at ho
        have hij : i = j := by simpa using ho
        have : ch = m.ch := by rw [← hch]; exact (congrArg Prod.fst he).symm
        exact h3 this hij.symm
    rw [NL.get?_set] at hL'
    split at hL'
    · rename_i hch
      have hch' : m.ch = ch := hch
      subst hch'
      simp only [Option.some.injEq] at hL'
      subst hL'
      have f2'' : s.pairs.get? m.nkey.1 = some L := f2
      rw [f2''] at hp
      simp only [Option.getD_some, NL.getElem?_modifyAt] at hp
      split at hp
      · rename_i hji
        subst hji
        rw [f3] at hp
        simp only [Option.map_some, Option.some.injEq] at hp
        refine Or.inr (Or.inl ⟨on, m, hp.symm, hon.1, hty, honk.symm, ?_, hon.2, hm⟩)
        exact congrArg Prod.fst honk
      · rename_i hji
        exact hold L f2 hp (fun _ => hji)
    · rename_i hch
      exact hold L' hL' hp (fun he => absurd he.symm hch)
  · intro k hk'
    simp only [NL.closeOp] at hk'
    by_cases hkk : m.nkey = k
    · subst hkk; exact find_filter_self _ _
    · rw [NL.get?_erase_ne _ _ _ hkk] at hk'
      rw [find_filter_ne _ _ _ (Ne.symm hkk)]
      exact h.linkN k hk'
  · intro k j hk'
    simp only [NL.closeOp] at hk' ⊢
    have hkk : m.nkey ≠ k := by
      intro he; rw [← he, hself] at hk'; cases hk'
    rw [NL.get?_erase_ne _ _ _ hkk] at hk'
    obtain ⟨on', L', g1, g2, g3⟩ := h.linkS k j hk'
    have honk' : on'.nkey = k := by simpa using List.find?_some g1
    rw [find_filter_ne _ _ _ (Ne.symm hkk), NL.get?_set]
    split
    · rename_i hch
      have hch' : m.ch = k.1 := hch
      have f2'' : s.pairs.get? m.nkey.1 = some L := f2
      rw [← hch', f2'] at g2
      simp only [Option.some.injEq] at g2
      subst g2
      refine ⟨on', _, g1, rfl, ?_⟩
      rw [f2'']
      simp only [Option.getD_some, NL.getElem?_modifyAt]
      split
      · rename_i hji
        subst hji
        rw [f3] at g3
        simp only [Option.some.injEq, List.cons.injEq, and_true] at g3
        subst g3
        exact absurd (honk.symm.trans honk') hkk
      · exact g3
    · exact ⟨on', L', g1, g2, g3⟩
  · intro o ho
    exact h.osOn o (List.mem_filter.1 ho).1


/-! ### how the steps change the readings -/

theorem read_push {β} (f : Pairing → Option β) (s : PairSt) (m : Msg) :
    ((allP (s.append m.ch [m]).pairs).filterMap f).Perm ((allP s.pairs).filterMap f ++ (f [m]).toList) := by
  obtain ⟨A, B, h1, h2⟩ := read_allP_set f s.pairs m.ch ((s.pairs.get? m.ch).getD [] ++ [[m]])
  simp only [PairSt.append]
  rw [h1, h2]
  simp only [List.filterMap_append, List.append_assoc]
  apply List.Perm.append_left
  apply List.Perm.append_left
  cases hf : f [m] with
  | none => simp [hf]
  | some b => simpa [hf] using List.perm_append_comm (l₁ := [b]) (l₂ := B)

theorem read_close {β} (f : Pairing → Option β) (s : PairSt) (k : Int × Int) (i : Nat) (off : Msg)
    (L : List Pairing) (x : Pairing) (hL : s.pairs.get? k.1 = some L) (hx : L[i]? = some x) (hfx : f x = none) :
    ((allP (NL.closeOp s k i off).pairs).filterMap f).Perm
      ((allP s.pairs).filterMap f ++ (f (x ++ [off])).toList) := by
  obtain ⟨A, B, h1, h2⟩ := read_allP_set f s.pairs k.1 (modifyAt (· ++ [off]) i ((s.pairs.get? k.1).getD []))
  simp only [NL.closeOp]
  rw [h1, h2, hL]
  simp only [Option.getD_some]
  obtain ⟨e1, e2⟩ := modifyAt_split (· ++ [off]) i L x hx
  rw [e2]
  conv => rhs; rw [e1]
  simp only [List.filterMap_append, List.filterMap_cons, hfx, List.append_assoc]
  apply List.Perm.append_left
  apply List.Perm.append_left
  cases hf : f (x ++ [off]) with
  | none => simp
  | some b =>
    simp only [Option.toList_some]
    have := List.perm_append_comm (l₁ := [b]) (l₂ := List.filterMap f (List.drop (i + 1) L) ++ B)
    simpa using this


/-! ### the simulation -/

/-- the compared messages that are not notes -/
def others (T : List MType) (l : List Msg) : List Msg :=
  l.filter (fun m => T.contains m.ty && m.ty != .noteOn && m.ty != .noteOff)

theorem altFrom_on {k : Int × Int} {b : Bool} {m : Msg} {l : List Msg} (h : altFrom k b (m :: l))
    (hty : m.ty = .noteOn) : if m.nkey = k then b = false ∧ altFrom k true l else altFrom k b l := by
  unfold altFrom at h
  by_cases hk : m.nkey = k
  · rw [if_pos ⟨hk, hty⟩] at h; rw [if_pos hk]; exact h
  · rw [if_neg (fun h' => hk h'.1), if_neg (fun h' => hk h'.1)] at h; rw [if_neg hk]; exact h

theorem altFrom_off {k : Int × Int} {b : Bool} {m : Msg} {l : List Msg} (h : altFrom k b (m :: l))
    (hty : m.ty = .noteOff) : if m.nkey = k then b = true ∧ altFrom k false l else altFrom k b l := by
  unfold altFrom at h
  have hne : ¬ (m.nkey = k ∧ m.ty = .noteOn) := by rw [hty]; simp
  by_cases hk : m.nkey = k
  · rw [if_neg hne, if_pos ⟨hk, hty⟩] at h; rw [if_pos hk]; exact h
  · rw [if_neg hne, if_neg (fun h' => hk h'.1)] at h; rw [if_neg hk]; exact h

theorem altFrom_other {k : Int × Int} {b : Bool} {m : Msg} {l : List Msg} (h : altFrom k b (m :: l))
    (h1 : m.ty ≠ .noteOn) (h2 : m.ty ≠ .noteOff) : altFrom k b l := by
  unfold altFrom at h
  rw [if_neg (fun h' => h1 h'.2), if_neg (fun h' => h2 h'.2)] at h
  exact h

theorem fold_sim (T : List MType) (hon : T.contains .noteOn = true) (hoff : T.contains .noteOff = true)
    (src : List Msg) :
    ∀ (l : List Msg) (s : PairSt) (os : List Msg), J src s os →
      (∀ k, altFrom k (s.opens.get? k).isSome l) → (∀ m ∈ l, m ∈ src) →
      ∃ os', J src (l.foldl (pairStep T true) s) os' ∧
        (∀ k, (l.foldl (pairStep T true) s).opens.get? k = none) ∧
        ((allP (l.foldl (pairStep T true) s).pairs).filterMap toPair).Perm
          ((allP s.pairs).filterMap toPair ++ pairsGo l os) ∧
        ((allP (l.foldl (pairStep T true) s).pairs).filterMap toSingle).Perm
          ((allP s.pairs).filterMap toSingle ++ others T l) := by
  intro l
  induction l with
  | nil =>
    intro s os hJ hwf _
    refine ⟨os, hJ, ?_, by simp [pairsGo], by simp [others]⟩
    intro k
    have := hwf k
    simp only [altFrom] at this
    simpa using this
  | cons m l ih =>
    intro s os hJ hwf hsrc
    have hm : m ∈ src := hsrc m List.mem_cons_self
    have hsrc' : ∀ x ∈ l, x ∈ src := fun x hx => hsrc x (List.mem_cons_of_mem _ hx)
    rw [List.foldl_cons]
    by_cases hty : m.ty = .noteOn
    · have hk : s.opens.get? m.nkey = none := by
        have := altFrom_on (hwf m.nkey) hty
        rw [if_pos rfl] at this
        simpa using this.1
      rw [step_on T s m (by rw [hty]; exact hon) hty hk]
      have hJ' := J_open src s os m hJ hty hk hm
      obtain ⟨os', g1, g2, g3, g4⟩ := ih _ _ hJ' (by
        intro k
        have := altFrom_on (hwf k) hty
        simp only [NL.openOp, NL.get?_set]
        by_cases hkk : m.nkey = k
        · rw [if_pos hkk] at this ⊢; exact this.2
        · rw [if_neg hkk] at this ⊢; exact this) hsrc'
      refine ⟨os', g1, g2, ?_, ?_⟩
      · have hp : pairsGo (m :: l) os = pairsGo l (m :: os.filter (fun o => o.nkey != m.nkey)) := by
          simp [pairsGo, hty]
        rw [hp]
        refine g3.trans (List.Perm.append_right _ ?_)
        have : (List.filterMap toPair (allP (s.append m.ch [m]).pairs)).Perm _ := read_push toPair s m
        simp only [toPair, Option.toList_none, List.append_nil] at this
        exact this
      · have hp : others T (m :: l) = others T l := by simp [others, hty]
        rw [hp]
        refine g4.trans (List.Perm.append_right _ ?_)
        have : (List.filterMap toSingle (allP (s.append m.ch [m]).pairs)).Perm _ := read_push toSingle s m
        simp only [toSingle, hty, if_true, Option.toList_none, List.append_nil] at this
        exact this
    · by_cases hty' : m.ty = .noteOff
      · obtain ⟨i, hk⟩ : ∃ i, s.opens.get? m.nkey = some i := by
          have := altFrom_off (hwf m.nkey) hty'
          rw [if_pos rfl] at this
          exact Option.isSome_iff_exists.1 this.1
        rw [step_off T s m (by rw [hty']; exact hoff) hty' i hk]
        obtain ⟨on, L, f1, f2, f3, f4, hJ'⟩ := J_close src s os m hJ hty' i hk hm
        obtain ⟨os', g1, g2, g3, g4⟩ := ih _ _ hJ' (by
          intro k
          have := altFrom_off (hwf k) hty'
          simp only [NL.closeOp]
          by_cases hkk : m.nkey = k
          · rw [if_pos hkk] at this
            subst hkk
            rw [NL.get?_erase_self _ _ hJ.kno]; exact this.2
          · rw [if_neg hkk] at this
            rw [NL.get?_erase_ne _ _ _ hkk]; exact this) hsrc'
        refine ⟨os', g1, g2, ?_, ?_⟩
        · have hp : pairsGo (m :: l) os = (on, m) :: pairsGo l (os.filter (fun o => o.nkey != m.nkey)) := by
            simp [pairsGo, hty', f1]
          rw [hp]
          have := read_close toPair s m.nkey i m L [on] f2 f3 rfl
          refine g3.trans ((List.Perm.append_right _ this).trans ?_)
          simp [toPair]
        · have hp : others T (m :: l) = others T l := by simp [others, hty']
          rw [hp]
          have := read_close toSingle s m.nkey i m L [on] f2 f3 (by simp [toSingle, f4])
          refine g4.trans (List.Perm.append_right _ ?_)
          simpa [toSingle] using this
      · have hwf' : ∀ k, altFrom k (s.opens.get? k).isSome l := fun k => altFrom_other (hwf k) hty hty'
        have hp : pairsGo (m :: l) os = pairsGo l os := by simp [pairsGo, hty, hty']
        rw [hp]
        by_cases hc : T.contains m.ty = true
        · rw [step_other T s m hc hty hty']
          have hJ' := J_push src s os m hJ hty hty' hm
          obtain ⟨os', g1, g2, g3, g4⟩ := ih _ _ hJ' hwf' hsrc'
          refine ⟨os', g1, g2, ?_, ?_⟩
          · refine g3.trans (List.Perm.append_right _ ?_)
            have := read_push toPair s m
            simpa [toPair] using this
          · have hp : others T (m :: l) = m :: others T l := by
              have hmem : m.ty ∈ T := by simpa using hc
              have : (T.contains m.ty && m.ty != .noteOn && m.ty != .noteOff) = true := by simp [hmem, hty, hty']
              simp only [others, List.filter_cons, this, if_true]
            rw [hp]
            have := read_push toSingle s m
            refine g4.trans ((List.Perm.append_right _ this).trans ?_)
            simp [toSingle, hty]
        · have hs : pairStep T true s m = s := by
            have : (!T.contains m.ty) = true := by simpa using hc
            simp only [pairStep, this, if_true]
          rw [hs]
          have hp : others T (m :: l) = others T l := by
            have : m.ty ∉ T := by simpa using hc
            simp [others, this]
          rw [hp]
          exact ih _ _ hJ hwf' hsrc'


/-- shape of a finished pairing of channel `ch` -/
def Closed (src : List Msg) (ch : Int) (p : Pairing) : Prop :=
  (∃ on off, p = [on, off] ∧ on.ty = .noteOn ∧ off.ty = .noteOff ∧ off.nkey = on.nkey ∧ on.ch = ch
      ∧ on ∈ src ∧ off ∈ src)
  ∨ (∃ m, p = [m] ∧ m.ty ≠ .noteOn ∧ m.ty ≠ .noteOff ∧ m.ch = ch ∧ m ∈ src)

theorem closeUnclosed_closed {src ch p} (std : Int) (h : Closed src ch p) : closeUnclosed std true p = p := by
  rcases h with ⟨on, off, rfl, _⟩ | ⟨m, rfl, h1, _⟩
  · rfl
  · simp [closeUnclosed, h1]

theorem pairingsSorted_sim (T : List MType) (hon : T.contains .noteOn = true) (hoff : T.contains .noteOff = true)
    (std : Int) (l : List Msg) (hwf : WF l) :
    ((allP (pairingsSorted T std true l)).filterMap toPair).Perm (pairsGo l [])
    ∧ ((allP (pairingsSorted T std true l)).filterMap toSingle).Perm (others T l)
    ∧ ∀ c ∈ pairingsSorted T std true l, ∀ p ∈ c.2, Closed l c.1 p := by
  obtain ⟨os', g1, g2, g3, g4⟩ := fold_sim T hon hoff l l {} [] (J_init l) (fun k => hwf k) (fun _ h => h)
  have hcl : ∀ c ∈ (l.foldl (pairStep T true) {}).pairs, ∀ p ∈ c.2, Closed l c.1 p := by
    intro c hc p hp
    have hget := NL.get?_of_mem _ c g1.knp hc
    obtain ⟨j, hj⟩ := List.getElem?_of_mem hp
    rcases g1.A c.1 c.2 hget j p hj with ⟨on, _, _, _, _, h5⟩ | h | h
    · rw [g2] at h5; cases h5
    · exact Or.inl h
    · exact Or.inr h
  have heq : pairingsSorted T std true l = (l.foldl (pairStep T true) {}).pairs := by
    unfold pairingsSorted
    conv => rhs; rw [← List.map_id (l.foldl (pairStep T true) {}).pairs]
    apply List.map_congr_left
    intro c hc
    obtain ⟨k, ps⟩ := c
    simp only [id, Prod.mk.injEq, true_and]
    conv => rhs; rw [← List.map_id ps]
    apply List.map_congr_left
    intro p hp
    exact closeUnclosed_closed std (hcl _ hc p hp)
  rw [heq]
  refine ⟨by simpa [allP] using g3, by simpa [allP] using g4, hcl⟩


/-! ### the interleaving is a permutation of all pairings -/

def flat (chans : List (Int × List Pairing)) : List (Int × Pairing) :=
  chans.flatMap (fun c => c.2.map (fun p => (c.1, p)))

theorem flat_nil_of_sum (chans : List (Int × List Pairing)) (h : (chans.map (fun c => c.2.length)).sum = 0) :
    flat chans = [] := by
  induction chans with
  | nil => rfl
  | cons c cs ih =>
    simp only [List.map_cons, List.sum_cons] at h
    have h1 : c.2 = [] := List.length_eq_zero_iff.1 (by omega)
    simp only [flat, List.flatMap_cons, h1, List.map_nil, List.nil_append]
    exact ih (by omega)

theorem flat_nil_of_heads (chans : List (Int × List Pairing)) (hne : ∀ c ∈ chans, ∀ p ∈ c.2, p ≠ [])
    (h : ∀ c ∈ chans, headTime c.2 = none) : flat chans = [] := by
  induction chans with
  | nil => rfl
  | cons c cs ih =>
    have h1 : c.2 = [] := by
      have := h c List.mem_cons_self
      cases hc : c.2 with
      | nil => rfl
      | cons p rest =>
        have hp := hne c List.mem_cons_self p (by rw [hc]; simp)
        cases p with
        | nil => exact absurd rfl hp
        | cons m r => rw [hc] at this; simp [headTime] at this
    simp only [flat, List.flatMap_cons, h1, List.map_nil, List.nil_append]
    exact ih (fun c hc => hne c (List.mem_cons_of_mem _ hc)) (fun c hc => h c (List.mem_cons_of_mem _ hc))

theorem flat_split (chans : List (Int × List Pairing)) (i : Nat) (ch : Int) (p : Pairing) (rest : List Pairing)
    (h : chans[i]? = some (ch, p :: rest)) :
    flat chans = flat (chans.take i) ++ (ch, p) :: (rest.map (fun q => (ch, q)) ++ flat (chans.drop (i + 1)))
    ∧ flat (modifyAt (fun c => (c.1, c.2.drop 1)) i chans)
        = flat (chans.take i) ++ (rest.map (fun q => (ch, q)) ++ flat (chans.drop (i + 1)))
    ∧ ((modifyAt (fun c : Int × List Pairing => (c.1, c.2.drop 1)) i chans).map (fun c => c.2.length)).sum + 1
        = (chans.map (fun c => c.2.length)).sum := by
  obtain ⟨e1, e2⟩ := modifyAt_split (fun c : Int × List Pairing => (c.1, c.2.drop 1)) i chans _ h
  refine ⟨?_, ?_, ?_⟩
  · conv => lhs; rw [e1]
    simp [flat]
  · rw [e2]
    simp [flat]
  · rw [e2]
    conv => rhs; rw [e1]
    simp only [List.map_append, List.map_cons, List.sum_append, List.sum_cons, List.drop_one, List.tail_cons,
      List.length_cons]
    omega

theorem interleaveGo_perm : ∀ (fuel : Nat) (chans : List (Int × List Pairing)) (acc : List (Int × Pairing)),
    (∀ c ∈ chans, ∀ p ∈ c.2, p ≠ []) → (chans.map (fun c => c.2.length)).sum ≤ fuel →
    (interleaveGo fuel chans acc).Perm (acc.reverse ++ flat chans) := by
  intro fuel
  induction fuel with
  | zero =>
    intro chans acc _ hs
    rw [flat_nil_of_sum chans (by omega)]
    simp [interleaveGo]
  | succ fuel ih =>
    intro chans acc hne hs
    unfold interleaveGo
    split
    · rename_i harg
      rw [flat_nil_of_heads chans hne]
      · simp
      · intro c hc
        cases hh : headTime c.2 with
        | none => rfl
        | some v =>
          have := EQ.argMin_isSome (chans.map (fun c => headTime c.2)) 0 none
            ⟨headTime c.2, List.mem_map.2 ⟨c, hc, rfl⟩, by rw [hh]; rfl⟩
          rw [harg] at this
          cases this
    · rename_i i v harg
      rcases EQ.argMin_spec _ _ _ _ _ harg with h0 | ⟨_, hget⟩
      · cases h0
      · simp only [Nat.sub_zero, List.getElem?_map, Option.map_eq_some_iff] at hget
        obtain ⟨c, hc, hh⟩ := hget
        obtain ⟨ch, ps⟩ := c
        cases ps with
        | nil => simp [headTime] at hh
        | cons p rest =>
          simp only [hc]
          obtain ⟨e1, e2, e3⟩ := flat_split chans i ch p rest hc
          refine (ih _ _ ?_ (by omega)).trans ?_
          · intro c hc' q hq
            rcases EQ.mem_modifyAt hc' with hc' | ⟨y, hy, rfl⟩
            · exact hne c hc' q hq
            · exact hne y hy q (List.mem_of_mem_drop hq)
          · rw [e1, e2]
            simp only [List.reverse_cons, List.append_assoc, List.singleton_append]
            apply List.Perm.append_left
            exact List.perm_middle.symm

theorem interleaved_perm (T : List MType) (std : Int) (a : List Msg) :
    (interleaved T std true a).Perm (flat (pairings T std true a)) := by
  have hne : ∀ c ∈ pairings T std true a, ∀ p ∈ c.2, p ≠ [] := by
    intro c hc p hp
    have := EQ.inv2_pairingsSorted (fun _ => True) T std (sortAbs a) (fun _ _ => trivial) c.1 c.2 hc
    obtain ⟨m, rest, h, _⟩ := this.2 p hp
    rw [h]; simp
  have := interleaveGo_perm _ (pairings T std true a) [] hne (Nat.le_refl _)
  simpa [interleaved] using this

theorem filterMap_flat {β} (g : Pairing → Option β) (chans : List (Int × List Pairing)) :
    (flat chans).filterMap (fun x => g x.2) = (allP chans).filterMap g := by
  induction chans with
  | nil => rfl
  | cons c cs ih =>
    simp only [flat, allP, List.flatMap_cons, List.filterMap_append] at ih ⊢
    rw [ih]
    congr 1
    rw [List.filterMap_map]
    rfl


/-! ### `pairEq` on finished pairings -/

theorem zipAll_filterMap {α β} (p : α → α → Bool) (f g : α → Option β) :
    ∀ (l l' : List α), zipAll p l l' = true → (∀ x ∈ l, ∀ y ∈ l', p x y = true → f x = g y) →
      l.filterMap f = l'.filterMap g := by
  intro l
  induction l with
  | nil => intro l' h _; cases l' with
    | nil => rfl
    | cons y ys => simp [zipAll] at h
  | cons x xs ih =>
    intro l' h hp
    cases l' with
    | nil => simp [zipAll] at h
    | cons y ys =>
      simp only [zipAll, Bool.and_eq_true] at h
      have h1 := hp x List.mem_cons_self y List.mem_cons_self h.1
      have h2 := ih ys h.2 (fun x' hx y' hy => hp x' (List.mem_cons_of_mem _ hx) y' (List.mem_cons_of_mem _ hy))
      simp only [List.filterMap_cons, h1, h2]

def noteR (p : Pairing) : Option Note := (toPair p).map mkNote
def tsVal (m : Msg) : Option (Int × Int × Int) :=
  if m.ty = .timeSignature then some (m.time, m.num, m.den) else none
def ksVal (m : Msg) : Option (Int × Int) := if m.ty = .keySignature then some (m.time, m.key) else none
def tsR (p : Pairing) : Option (Int × Int × Int) := (toSingle p).bind tsVal
def ksR (p : Pairing) : Option (Int × Int) := (toSingle p).bind ksVal

theorem pairEq_closed (la lb : List Msg) (x y : Int × Pairing) (h : pairEq {} x y = true)
    (hx : Closed la x.1 x.2) (hy : Closed lb y.1 y.2) :
    noteR x.2 = noteR y.2 ∧ tsR x.2 = tsR y.2 ∧ ksR x.2 = ksR y.2 := by
  obtain ⟨c, p⟩ := x
  obtain ⟨c', q⟩ := y
  simp only at hx hy ⊢
  rcases hx with ⟨on, off, rfl, a1, a2, a3, a4, _, _⟩ | ⟨m, rfl, a1, a2, a3, _⟩ <;>
  rcases hy with ⟨on', off', rfl, b1, b2, b3, b4, _, _⟩ | ⟨m', rfl, b1, b2, b3, _⟩
  · simp [pairEq, a1, b1] at h
    obtain ⟨h0, h1, h2, h3⟩ := h
    refine ⟨?_, by simp [tsR, toSingle], by simp [ksR, toSingle]⟩
    simp only [noteR, toPair, Option.map_some, mkNote, Option.some.injEq, Note.mk.injEq]
    refine ⟨by rw [a4, b4, h0], h2.1, h1, by omega, h3⟩
  · simp [pairEq, a1] at h
  · simp [pairEq, a1, b1] at h
  · refine ⟨by simp [noteR, toPair], ?_, ?_⟩
    · simp only [tsR, toSingle, a1, b1, if_false, Option.bind_some, tsVal]
      simp [pairEq] at h
      obtain ⟨h0, h1, h2, h3⟩ := h
      by_cases ht : m.ty = .timeSignature
      · have ht' : m'.ty = .timeSignature := by rw [← h1]; exact ht
        simp [ht] at h3
        simp [ht, ht', h2, h3]
      · have ht' : ¬ m'.ty = .timeSignature := by rw [← h1]; exact ht
        simp [ht, ht']
    · simp only [ksR, toSingle, a1, b1, if_false, Option.bind_some, ksVal]
      simp [pairEq] at h
      obtain ⟨h0, h1, h2, h3⟩ := h
      by_cases ht : m.ty = .keySignature
      · have ht' : m'.ty = .keySignature := by rw [← h1]; exact ht
        simp [ht] at h3
        simp [ht, ht', h2, h3]
      · have ht' : ¬ m'.ty = .keySignature := by rw [← h1]; exact ht
        simp [ht, ht']


def T4 : List MType := [.noteOn, .noteOff, .timeSignature, .keySignature]

theorem mem_flat {chans : List (Int × List Pairing)} {x : Int × Pairing} (h : x ∈ flat chans) :
    ∃ c ∈ chans, x.1 = c.1 ∧ x.2 ∈ c.2 := by
  simp only [flat, List.mem_flatMap, List.mem_map] at h
  obtain ⟨c, hc, p, hp, rfl⟩ := h
  exact ⟨c, hc, rfl, hp⟩

theorem sound_core (ppqn : Int) (a b : List Msg) (ha : WF (sortAbs a)) (hb : WF (sortAbs b))
    (h : zipAll (pairEq {}) (interleaved T4 ppqn true a) (interleaved T4 ppqn true b) = true) :
    ((pairsGo (sortAbs a) []).map mkNote).Perm ((pairsGo (sortAbs b) []).map mkNote)
    ∧ ((others T4 (sortAbs a)).filterMap tsVal).Perm ((others T4 (sortAbs b)).filterMap tsVal)
    ∧ ((others T4 (sortAbs a)).filterMap ksVal).Perm ((others T4 (sortAbs b)).filterMap ksVal) := by
  obtain ⟨a1, a2, a3⟩ := pairingsSorted_sim T4 rfl rfl ppqn (sortAbs a) ha
  obtain ⟨b1, b2, b3⟩ := pairingsSorted_sim T4 rfl rfl ppqn (sortAbs b) hb
  have pa := interleaved_perm T4 ppqn a
  have pb := interleaved_perm T4 ppqn b
  have ca : ∀ x ∈ interleaved T4 ppqn true a, Closed (sortAbs a) x.1 x.2 := by
    intro x hx
    obtain ⟨c, hc, e1, e2⟩ := mem_flat (pa.mem_iff.1 hx)
    rw [e1]; exact a3 c hc _ e2
  have cb : ∀ x ∈ interleaved T4 ppqn true b, Closed (sortAbs b) x.1 x.2 := by
    intro x hx
    obtain ⟨c, hc, e1, e2⟩ := mem_flat (pb.mem_iff.1 hx)
    rw [e1]; exact b3 c hc _ e2
  have chain : ∀ {β : Type} (g : Pairing → Option β),
      (∀ x ∈ interleaved T4 ppqn true a, ∀ y ∈ interleaved T4 ppqn true b,
        pairEq {} x y = true → g x.2 = g y.2) →
      ((allP (pairingsSorted T4 ppqn true (sortAbs a))).filterMap g).Perm
        ((allP (pairingsSorted T4 ppqn true (sortAbs b))).filterMap g) := by
    intro β g hg
    have e := zipAll_filterMap (pairEq {}) (fun x => g x.2) (fun x => g x.2) _ _ h hg
    rw [← filterMap_flat, ← filterMap_flat]
    refine ((pa.filterMap _).symm.trans ?_).trans (pb.filterMap _)
    rw [e]
  have pe := fun x hx y hy hxy => pairEq_closed (sortAbs a) (sortAbs b) x y hxy (ca x hx) (cb y hy)
  refine ⟨?_, ?_, ?_⟩
  · have := chain noteR (fun x hx y hy hxy => (pe x hx y hy hxy).1)
    have e : ∀ l : List Pairing, l.filterMap noteR = (l.filterMap toPair).map mkNote := by
      intro l; rw [List.map_filterMap]; rfl
    rw [e, e] at this
    exact ((a1.map mkNote).symm.trans this).trans (b1.map mkNote)
  · have := chain tsR (fun x hx y hy hxy => (pe x hx y hy hxy).2.1)
    have e : ∀ l : List Pairing, l.filterMap tsR = (l.filterMap toSingle).filterMap tsVal := by
      intro l; rw [List.filterMap_filterMap]; rfl
    rw [e, e] at this
    exact ((a2.filterMap tsVal).symm.trans this).trans (b2.filterMap tsVal)
  · have := chain ksR (fun x hx y hy hxy => (pe x hx y hy hxy).2.2)
    have e : ∀ l : List Pairing, l.filterMap ksR = (l.filterMap toSingle).filterMap ksVal := by
      intro l; rw [List.filterMap_filterMap]; rfl
    rw [e, e] at this
    exact ((a2.filterMap ksVal).symm.trans this).trans (b2.filterMap ksVal)

theorem others_ts (l : List Msg) :
    (others T4 l).filterMap tsVal = (l.filter (·.ty == .timeSignature)).map (fun m => (m.time, m.num, m.den)) := by
  induction l with
  | nil => rfl
  | cons m ms ih =>
    have step : others T4 (m :: ms) = if (T4.contains m.ty && m.ty != .noteOn && m.ty != .noteOff) = true
        then m :: others T4 ms else others T4 ms := by simp only [others, List.filter_cons]
    have hc : T4.contains m.ty = (m.ty == .noteOn || m.ty == .noteOff || m.ty == .timeSignature
        || m.ty == .keySignature) := by cases m.ty <;> rfl
    rw [step, hc]
    cases hty : m.ty <;> simp [tsVal, hty, ih]

theorem others_ks (l : List Msg) :
    (others T4 l).filterMap ksVal = (l.filter (·.ty == .keySignature)).map (fun m => (m.time, m.key)) := by
  induction l with
  | nil => rfl
  | cons m ms ih =>
    have step : others T4 (m :: ms) = if (T4.contains m.ty && m.ty != .noteOn && m.ty != .noteOff) = true
        then m :: others T4 ms else others T4 ms := by simp only [others, List.filter_cons]
    have hc : T4.contains m.ty = (m.ty == .noteOn || m.ty == .noteOff || m.ty == .timeSignature
        || m.ty == .keySignature) := by cases m.ty <;> rfl
    rw [step, hc]
    cases hty : m.ty <;> simp [ksVal, hty, ih]


/-! ### cut-off: the notes before the final sort -/

def cutF (m r : Int) (n : Note) : Note := if n.off - n.on > m then { n with off := n.on + r } else n

theorem notesGo_cutoffGo (m r : Int) : ∀ (l : List Msg) (o : Assoc (Int × Int) Int) (os : List Msg),
    NL.KN o → (∀ k, o.get? k = (os.find? (fun x => x.nkey == k)).map (·.time)) →
    notesGo (cutoffGo m r l o) os = (notesGo l os).map (cutF m r) := by
  intro l
  induction l with
  | nil => intro o os _ _; rfl
  | cons x xs ih =>
    intro o os hkn hrel
    by_cases hon : x.ty = .noteOn
    · have e : cutoffGo m r (x :: xs) o = x :: cutoffGo m r xs (o.set x.nkey x.time) := by
        rw [cutoffGo]; simp only [hon]
      rw [e]
      simp only [notesGo, hon, beq_self_eq_true, if_true]
      apply ih _ _ (NL.KN_set _ _ _ hkn)
      intro k
      rw [NL.get?_set, List.find?_cons]
      by_cases hk : x.nkey = k
      · simp [hk]
      · have : (x.nkey == k) = false := by simpa using hk
        rw [if_neg hk, this]
        simp only []
        rw [find_filter_ne _ _ _ (Ne.symm hk)]
        exact hrel k
    · by_cases hoff : x.ty = .noteOff
      · cases hg : o.get? x.nkey with
        | none =>
          have e : cutoffGo m r (x :: xs) o = x :: cutoffGo m r xs o := by
            rw [cutoffGo]; simp only [hoff, hg]
          have hf : os.find? (fun y => y.nkey == x.nkey) = none := by
            have := hrel x.nkey
            rw [hg] at this
            simpa using this.symm
          rw [e]
          simp only [notesGo, hoff, hf, beq_self_eq_true, if_true]
          simp only [show (MType.noteOff == MType.noteOn) = false from rfl, Bool.false_eq_true, if_false]
          exact ih _ _ hkn hrel
        | some t =>
          have e : cutoffGo m r (x :: xs) o =
              (if x.time - t > m then { x with time := t + r } else x) :: cutoffGo m r xs (o.erase x.nkey) := by
            rw [cutoffGo]; simp only [hoff, hg]
          obtain ⟨o0, hf, ht⟩ : ∃ o0, os.find? (fun y => y.nkey == x.nkey) = some o0 ∧ o0.time = t := by
            have := hrel x.nkey
            rw [hg] at this
            cases hf : os.find? (fun y => y.nkey == x.nkey) with
            | none => rw [hf] at this; cases this
            | some o0 => rw [hf] at this; exact ⟨o0, rfl, by simpa using this.symm⟩
          rw [e]
          have hx' : ∀ x' : Msg, x'.ty = .noteOff → x'.nkey = x.nkey →
              notesGo (x' :: cutoffGo m r xs (o.erase x.nkey)) os =
                { ch := o0.ch, pitch := o0.note, on := o0.time, off := x'.time, vel := o0.vel }
                  :: notesGo (cutoffGo m r xs (o.erase x.nkey)) (os.filter (fun y => y.nkey != x.nkey)) := by
            intro x' h1 h2
            simp only [notesGo, h1, h2, hf]
            simp only [show (MType.noteOff == MType.noteOn) = false from rfl, Bool.false_eq_true, if_false,
              beq_self_eq_true, if_true]
          have hxs : notesGo (x :: xs) os =
              { ch := o0.ch, pitch := o0.note, on := o0.time, off := x.time, vel := o0.vel }
                  :: notesGo xs (os.filter (fun y => y.nkey != x.nkey)) := by
            simp only [notesGo, hoff, hf]
            simp only [show (MType.noteOff == MType.noteOn) = false from rfl, Bool.false_eq_true, if_false,
              beq_self_eq_true, if_true]
          have hih := ih (o.erase x.nkey) (os.filter (fun y => y.nkey != x.nkey)) (NL.KN_erase _ _ hkn) (by
            intro k
            by_cases hk : x.nkey = k
            · subst hk
              rw [NL.get?_erase_self _ _ hkn, find_filter_self]; rfl
            · rw [NL.get?_erase_ne _ _ _ hk, find_filter_ne _ _ _ (Ne.symm hk)]
              exact hrel k)
          rw [hxs, List.map_cons, ← hih]
          by_cases hc : x.time - t > m
          · rw [if_pos hc, hx' { x with time := t + r } hoff rfl]
            simp only [cutF, ht, hc, if_true]
          · rw [if_neg hc, hx' x hoff rfl]
            simp only [cutF, ht, hc, if_false]
      · have e : cutoffGo m r (x :: xs) o = x :: cutoffGo m r xs o := by
          rw [cutoffGo]
          cases hty : x.ty <;> simp_all
        rw [e]
        have h1 : (x.ty == .noteOn) = false := by simpa using hon
        have h2 : (x.ty == .noteOff) = false := by simpa using hoff
        simp only [notesGo, h1, h2, Bool.false_eq_true, if_false]
        exact ih _ _ hkn hrel


/-! ### the notes of one key only depend on the note events of that key -/

theorem ff1 (os : List Msg) (k : Int × Int) :
    (os.filter (fun o => o.nkey != k)).filter (fun o => o.nkey == k) = [] := by
  rw [List.filter_filter, List.filter_eq_nil_iff]
  intro a _; by_cases h : a.nkey = k <;> simp [h]

theorem ff2 (os : List Msg) (k : Int × Int) :
    (os.filter (fun o => o.nkey == k)).filter (fun o => o.nkey != k) = [] := by
  rw [List.filter_filter, List.filter_eq_nil_iff]
  intro a _; by_cases h : a.nkey = k <;> simp [h]

theorem ff3 (os : List Msg) (k k' : Int × Int) (h : k' ≠ k) :
    (os.filter (fun o => o.nkey != k')).filter (fun o => o.nkey == k) = os.filter (fun o => o.nkey == k) := by
  rw [List.filter_filter]
  congr 1; funext a
  by_cases h1 : a.nkey = k
  · have : ¬ k = k' := fun h2 => h h2.symm
    simp [h1, this]
  · simp [h1]

theorem find_filter_eq (os : List Msg) (k : Int × Int) :
    (os.filter (fun o => o.nkey == k)).find? (fun o => o.nkey == k) = os.find? (fun o => o.nkey == k) := by
  rw [List.find?_filter]
  congr 1; funext a
  by_cases h : a.nkey = k <;> simp [h]

theorem notesGo_proj (k : Int × Int) : ∀ (l os : List Msg),
    (notesGo l os).filter (fun n => decide ((n.ch, n.pitch) = k))
      = notesGo (l.filter (isKN k)) (os.filter (fun o => o.nkey == k)) := by
  intro l
  induction l with
  | nil => intro os; rfl
  | cons x xs ih =>
    intro os
    by_cases hon : x.ty = .noteOn
    · by_cases hk : x.nkey = k
      · have hp : isKN k x = true := by simp [isKN, hk, hon]
        simp only [List.filter_cons, hp, if_true, notesGo, hon, beq_self_eq_true]
        rw [ih, hk]
        simp only [List.filter_cons]
        have : (x.nkey == k) = true := by simpa using hk
        rw [this, if_pos rfl, ff1, ff2]
      · have hp : isKN k x = false := by simp [isKN, hk]
        simp only [List.filter_cons, hp, Bool.false_eq_true, if_false, notesGo, hon, beq_self_eq_true, if_true]
        rw [ih]
        simp only [List.filter_cons]
        have : (x.nkey == k) = false := by simpa using hk
        rw [this, if_neg (by simp), ff3 _ _ _ hk]
    · by_cases hoff : x.ty = .noteOff
      · have h1 : (x.ty == .noteOn) = false := by simpa using hon
        by_cases hk : x.nkey = k
        · have hp : isKN k x = true := by simp [isKN, hk, hoff]
          simp only [List.filter_cons, hp, if_true, notesGo, hoff, beq_self_eq_true, Bool.false_eq_true, if_false,
            show (MType.noteOff == MType.noteOn) = false from rfl]
          rw [hk, find_filter_eq]
          cases hf : os.find? (fun o => o.nkey == k) with
          | none => simp only []; exact ih os
          | some o =>
            have hok : o.nkey = k := by simpa using List.find?_some hf
            have hok' : (o.ch, o.note) = k := hok
            simp only [List.filter_cons, hok', decide_true, if_true]
            rw [ih, ff1, ff2]
        · have hp : isKN k x = false := by simp [isKN, hk]
          simp only [List.filter_cons, hp, notesGo, hoff, beq_self_eq_true, Bool.false_eq_true, if_false, if_true,
            show (MType.noteOff == MType.noteOn) = false from rfl]
          cases hf : os.find? (fun o => o.nkey == x.nkey) with
          | none => simp only []; exact ih os
          | some o =>
            have hok : o.nkey = x.nkey := by simpa using List.find?_some hf
            have hok' : ¬ (o.ch, o.note) = k := fun h => hk (hok.symm.trans h)
            simp only [List.filter_cons, hok', decide_false, Bool.false_eq_true, if_false]
            rw [ih, ff3 _ _ _ hk]
      · have h1 : (x.ty == .noteOn) = false := by simpa using hon
        have h2 : (x.ty == .noteOff) = false := by simpa using hoff
        have hp : isKN k x = false := by simp [isKN, hon, hoff]
        simp only [List.filter_cons, hp, notesGo, h1, h2, Bool.false_eq_true, if_false]
        exact ih os


theorem notesOf_filter_count (l : List Msg) (n : Note) :
    (notesOf l).count n = (notesOf (l.filter (isKN (n.ch, n.pitch)))).count n := by
  have := notesGo_proj (n.ch, n.pitch) l []
  simp only [List.filter_nil] at this
  rw [notesOf, notesOf, ← this, List.count_filter]
  simp

/-- a stable sort does not change the notes if the note events of every key are already in key order -/
theorem notesOf_sort_perm (l' : List Msg) (h : ∀ k, (l'.filter (isKN k)).Pairwise EQ.KLe) :
    (notesOf (sortAbs l')).Perm (notesOf l') := by
  rw [List.perm_iff_count]
  intro n
  rw [notesOf_filter_count (sortAbs l'), notesOf_filter_count l', EQ.filter_sortAbs, sortAbs,
    EQ.isort_of_pairwise _ _ (h _)]


/-! ### cut-off acts on every key separately -/

theorem cutoffGo_on (m r : Int) (x : Msg) (xs : List Msg) (o : Assoc (Int × Int) Int) (h : x.ty = .noteOn) :
    cutoffGo m r (x :: xs) o = x :: cutoffGo m r xs (o.set x.nkey x.time) := by
  rw [cutoffGo]; simp only [h]

theorem cutoffGo_off_none (m r : Int) (x : Msg) (xs : List Msg) (o : Assoc (Int × Int) Int) (h : x.ty = .noteOff)
    (hg : o.get? x.nkey = none) : cutoffGo m r (x :: xs) o = x :: cutoffGo m r xs o := by
  rw [cutoffGo]; simp only [h, hg]

theorem cutoffGo_off_some (m r : Int) (x : Msg) (xs : List Msg) (o : Assoc (Int × Int) Int) (h : x.ty = .noteOff)
    (t : Int) (hg : o.get? x.nkey = some t) :
    cutoffGo m r (x :: xs) o =
      (if x.time - t > m then { x with time := t + r } else x) :: cutoffGo m r xs (o.erase x.nkey) := by
  rw [cutoffGo]; simp only [h, hg]

theorem cutoffGo_other (m r : Int) (x : Msg) (xs : List Msg) (o : Assoc (Int × Int) Int) (h1 : x.ty ≠ .noteOn)
    (h2 : x.ty ≠ .noteOff) : cutoffGo m r (x :: xs) o = x :: cutoffGo m r xs o := by
  rw [cutoffGo]
  cases hty : x.ty <;> simp_all

theorem isKN_time (k : Int × Int) (x : Msg) (t : Int) : isKN k { x with time := t } = isKN k x := rfl

theorem cutoffGo_filter_key (m r : Int) (k : Int × Int) : ∀ (l : List Msg) (o o' : Assoc (Int × Int) Int),
    NL.KN o → NL.KN o' → o.get? k = o'.get? k →
    (cutoffGo m r l o).filter (isKN k) = cutoffGo m r (l.filter (isKN k)) o' := by
  intro l
  induction l with
  | nil => intro o o' _ _ _; rfl
  | cons x xs ih =>
    intro o o' hk hk' hg
    by_cases hon : x.ty = .noteOn
    · rw [cutoffGo_on m r x xs o hon]
      by_cases hx : x.nkey = k
      · have hp : isKN k x = true := by simp [isKN, hx, hon]
        simp only [List.filter_cons, hp, if_true]
        rw [cutoffGo_on m r x _ o' hon]
        congr 1
        apply ih _ _ (NL.KN_set _ _ _ hk) (NL.KN_set _ _ _ hk')
        rw [NL.get?_set, NL.get?_set, if_pos hx, if_pos hx]
      · have hp : isKN k x = false := by simp [isKN, hx]
        simp only [List.filter_cons, hp, Bool.false_eq_true, if_false]
        apply ih _ _ (NL.KN_set _ _ _ hk) hk'
        rw [NL.get?_set, if_neg hx]; exact hg
    · by_cases hoff : x.ty = .noteOff
      · by_cases hx : x.nkey = k
        · have hp : isKN k x = true := by simp [isKN, hx, hoff]
          cases hgo : o.get? x.nkey with
          | none =>
            rw [cutoffGo_off_none m r x xs o hoff hgo]
            simp only [List.filter_cons, hp, if_true]
            rw [cutoffGo_off_none m r x _ o' hoff (by rw [hx, ← hg, ← hx]; exact hgo)]
            congr 1
            exact ih _ _ hk hk' hg
          | some t =>
            rw [cutoffGo_off_some m r x xs o hoff t hgo]
            have hp' : isKN k (if x.time - t > m then { x with time := t + r } else x) = true := by
              split
              · rw [isKN_time]; exact hp
              · exact hp
            simp only [List.filter_cons, hp, hp', if_true]
            rw [cutoffGo_off_some m r x _ o' hoff t (by rw [hx, ← hg, ← hx]; exact hgo)]
            congr 1
            apply ih _ _ (NL.KN_erase _ _ hk) (NL.KN_erase _ _ hk')
            rw [hx, NL.get?_erase_self _ _ hk, NL.get?_erase_self _ _ hk']
        · have hp : isKN k x = false := by simp [isKN, hx]
          cases hgo : o.get? x.nkey with
          | none =>
            rw [cutoffGo_off_none m r x xs o hoff hgo]
            simp only [List.filter_cons, hp, Bool.false_eq_true, if_false]
            exact ih _ _ hk hk' hg
          | some t =>
            rw [cutoffGo_off_some m r x xs o hoff t hgo]
            have hp' : isKN k (if x.time - t > m then { x with time := t + r } else x) = false := by
              split
              · rw [isKN_time]; exact hp
              · exact hp
            simp only [List.filter_cons, hp, hp', Bool.false_eq_true, if_false]
            apply ih _ _ (NL.KN_erase _ _ hk) hk'
            rw [NL.get?_erase_ne _ _ _ hx]; exact hg
      · rw [cutoffGo_other m r x xs o hon hoff]
        have hp : isKN k x = false := by simp [isKN, hon, hoff]
        simp only [List.filter_cons, hp, Bool.false_eq_true, if_false]
        exact ih _ _ hk hk' hg


/-! ### after the cut-off the note events of one key are still in key order -/

theorem pair_induction {α} {P : List α → Prop} (h0 : P []) (h1 : ∀ x, P [x])
    (h2 : ∀ x y l, P l → P (x :: y :: l)) : ∀ l, P l
  | [] => h0
  | [x] => h1 x
  | x :: y :: l => h2 x y l (pair_induction h0 h1 h2 l)

theorem keyLe_of_lt {a b : Msg} (h : a.time < b.time) : keyLe a b = true := by
  rw [EQ.keyLe_iff]; exact Or.inl h

theorem isKN_iff (k : Int × Int) (x : Msg) : isKN k x = true ↔ x.nkey = k ∧ (x.ty = .noteOn ∨ x.ty = .noteOff) := by
  simp [isKN]

theorem cutoffGo_key_sorted (m r : Int) (hr : 1 ≤ r ∧ r ≤ m) (k : Int × Int) : ∀ lk : List Msg,
    (∀ x ∈ lk, isKN k x = true) → altFrom k false lk → lk.Pairwise EQ.KLe →
    (∀ n ∈ notesGo lk [], n.on < n.off) →
    (cutoffGo m r lk []).Pairwise EQ.KLe ∧ ∀ z ∈ cutoffGo m r lk [], z ∈ lk ∨ ∃ y ∈ lk, y.time < z.time := by
  apply pair_induction
  · intro _ _ _ _
    exact ⟨by simp [cutoffGo], by simp [cutoffGo]⟩
  · intro x hk halt _ _
    exfalso
    obtain ⟨hx, hty⟩ := (isKN_iff k x).1 (hk x (by simp))
    rcases hty with hty | hty
    · have := altFrom_on halt hty
      rw [if_pos hx] at this
      simp [altFrom] at this
    · have := altFrom_off halt hty
      rw [if_pos hx] at this
      simp at this
  · intro x y l ih hk halt hs hpd
    obtain ⟨hx, htx⟩ := (isKN_iff k x).1 (hk x (by simp))
    obtain ⟨hy, hty⟩ := (isKN_iff k y).1 (hk y (by simp))
    have hxon : x.ty = .noteOn := by
      rcases htx with h | h
      · exact h
      · have := altFrom_off halt h
        rw [if_pos hx] at this
        simp at this
    have halt1 : altFrom k true (y :: l) := by
      have := altFrom_on halt hxon
      rw [if_pos hx] at this
      exact this.2
    have hyoff : y.ty = .noteOff := by
      rcases hty with h | h
      · have := altFrom_on halt1 h
        rw [if_pos hy] at this
        simp at this
      · exact h
    have halt2 : altFrom k false l := by
      have := altFrom_off halt1 hyoff
      rw [if_pos hy] at this
      exact this.2
    -- the output
    have hg : (Assoc.set ([] : Assoc (Int × Int) Int) x.nkey x.time).get? y.nkey = some x.time := by
      rw [NL.get?_set, if_pos (hx.trans hy.symm)]
    have he : (Assoc.set ([] : Assoc (Int × Int) Int) x.nkey x.time).erase y.nkey = [] := by
      simp [Assoc.set, Assoc.erase, hx, hy]
    have hout : cutoffGo m r (x :: y :: l) [] =
        x :: (if y.time - x.time > m then { y with time := x.time + r } else y) :: cutoffGo m r l [] := by
      rw [cutoffGo_on m r x _ _ hxon, cutoffGo_off_some m r y l _ hyoff x.time hg, he]
    -- the notes
    have hnotes : notesGo (x :: y :: l) [] =
        { ch := x.ch, pitch := x.note, on := x.time, off := y.time, vel := x.vel } :: notesGo l [] := by
      have h1 : (y.ty == .noteOn) = false := by rw [hyoff]; rfl
      have h2 : (x.nkey == y.nkey) = true := by simpa using hx.trans hy.symm
      have h3 : List.filter (fun z : Msg => z.nkey != y.nkey) [x] = [] := by
        simp [hx.trans hy.symm]
      simp [notesGo, hxon, hyoff, h2, h3]
    rw [hnotes] at hpd
    have hlt : x.time < y.time := hpd _ List.mem_cons_self
    rw [List.pairwise_cons, List.pairwise_cons] at hs
    obtain ⟨P1, P2⟩ := ih (fun z hz => hk z (by simp [hz])) halt2 hs.2.2
      (fun n hn => hpd n (List.mem_cons_of_mem _ hn))
    rw [hout]
    generalize hy' : (if y.time - x.time > m then { y with time := x.time + r } else y) = y'
    have hy't : x.time < y'.time ∧ y'.time ≤ y.time ∧ (y' = y ∨ y'.time < y.time) := by
      rw [← hy']
      split
      · simp only; omega
      · exact ⟨hlt, Int.le_refl _, Or.inl rfl⟩
    refine ⟨?_, ?_⟩
    · rw [List.pairwise_cons, List.pairwise_cons]
      refine ⟨?_, ?_, P1⟩
      · intro z hz
        rcases List.mem_cons.1 hz with rfl | hz
        · exact keyLe_of_lt hy't.1
        · rcases P2 z hz with h | ⟨y0, hy0, hlt0⟩
          · exact hs.1 z (List.mem_cons_of_mem _ h)
          · have := keyLe_time (hs.1 y0 (List.mem_cons_of_mem _ hy0))
            exact keyLe_of_lt (by omega)
      · intro z hz
        rcases P2 z hz with h | ⟨y0, hy0, hlt0⟩
        · rcases hy't.2.2 with h' | h'
          · rw [h']; exact hs.2.1 z h
          · have := keyLe_time (hs.2.1 z h)
            exact keyLe_of_lt (by omega)
        · have := keyLe_time (hs.2.1 y0 hy0)
          exact keyLe_of_lt (by omega)
    · intro z hz
      rcases List.mem_cons.1 hz with rfl | hz
      · exact Or.inl (by simp)
      · rcases List.mem_cons.1 hz with rfl | hz
        · rcases hy't.2.2 with h' | h'
          · rw [h']; exact Or.inl (by simp)
          · exact Or.inr ⟨x, by simp, hy't.1⟩
        · rcases P2 z hz with h | ⟨y0, hy0, hlt0⟩
          · exact Or.inl (by simp [h])
          · exact Or.inr ⟨y0, by simp [hy0], hlt0⟩


theorem cutoff_notes_core (m r : Int) (hr : 1 ≤ r ∧ r ≤ m) (l : List Msg) (hs : l.Pairwise EQ.KLe) (hwf : WF l)
    (hpd : ∀ n ∈ notesOf l, n.on < n.off) :
    (notesOf (sortAbs (cutoffGo m r l []))).Perm ((notesOf l).map (cutF m r)) := by
  have h1 := notesOf_sort_perm (cutoffGo m r l []) (by
    intro k
    rw [cutoffGo_filter_key m r k l [] [] List.Pairwise.nil List.Pairwise.nil rfl]
    refine (cutoffGo_key_sorted m r hr k (l.filter (isKN k)) ?_ ?_ ?_ ?_).1
    · intro x hx; exact (List.mem_filter.1 hx).2
    · exact (altFrom_filter_kn k l false).2 (hwf k)
    · exact hs.filter _
    · intro n hn
      have := notesGo_proj k l []
      simp only [List.filter_nil] at this
      rw [← this] at hn
      exact hpd n (List.mem_filter.1 hn).1)
  refine h1.trans ?_
  rw [notesOf, notesGo_cutoffGo m r l [] [] List.Pairwise.nil (fun k => rfl)]
  exact List.Perm.refl _

end SCoda.NotesL
