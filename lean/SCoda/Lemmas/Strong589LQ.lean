/-
  Helper lemmas for `Props/Strong589Q` (audit item A14, property C05):
  * `Retimed` and the fold invariant showing that `quantise` on a well-formed input produces, up to
    order, a sub-list of the input with only the `time` field changed (no message is duplicated);
  * the "no overlap" part of `Q.altT` carried over to the independent `notesOf` semantics;
  * removal of an isolated note without the `a.Nodup` hypothesis.
-/
import SCoda.Props.C05b
namespace SCoda.Strong589LQ
open SCoda SCoda.Q SCoda.QB SCoda.C05

/-! ### `Retimed` -/

/-- pointwise: the second list is the first with only the `time` fields changed, each by at most `S` -/
def Retimed (S : Int) : List Msg → List Msg → Prop
  | [], [] => True
  | m :: ms, m' :: ms' =>
    m' = { m with time := m'.time } ∧ (m'.time - m.time).natAbs ≤ S.toNat ∧ Retimed S ms ms'
  | [], _ :: _ => False
  | _ :: _, [] => False

instance Retimed.dec (S : Int) : (k q : List Msg) → Decidable (Retimed S k q)
  | [], [] => isTrue trivial
  | [], _ :: _ => isFalse (fun h => h)
  | _ :: _, [] => isFalse (fun h => h)
  | m :: ms, m' :: ms' =>
    have := Retimed.dec S ms ms'
    by unfold Retimed; exact inferInstance

theorem retimed_append {S : Int} : ∀ {k1 q1 k2 q2 : List Msg}, Retimed S k1 q1 → Retimed S k2 q2 →
    Retimed S (k1 ++ k2) (q1 ++ q2)
  | [], [], _, _, _, h2 => h2
  | [], _ :: _, _, _, h1, _ => h1.elim
  | _ :: _, [], _, _, h1, _ => h1.elim
  | _ :: _, _ :: _, _, _, h1, h2 => ⟨h1.1, h1.2.1, retimed_append h1.2.2 h2⟩

theorem retimed_length {S : Int} : ∀ {k q : List Msg}, Retimed S k q → q.length = k.length
  | [], [], _ => rfl
  | [], _ :: _, h => h.elim
  | _ :: _, [], h => h.elim
  | _ :: _, _ :: _, h => by simp [retimed_length h.2.2]

theorem retimed_map_zt {S : Int} : ∀ {k q : List Msg}, Retimed S k q → q.map zt = k.map zt
  | [], [], _ => rfl
  | [], _ :: _, h => h.elim
  | _ :: _, [], h => h.elim
  | m :: _, m' :: _, h => by
    have h1 : zt m' = zt m := by rw [h.1]; rfl
    simp [retimed_map_zt h.2.2, h1]

/-- a predicate that does not look at the time -/
theorem retimed_filter {S : Int} (p : Msg → Bool) (hp : ∀ m t, p { m with time := t } = p m) :
    ∀ {k q : List Msg}, Retimed S k q → Retimed S (k.filter p) (q.filter p)
  | [], [], _ => trivial
  | [], _ :: _, h => h.elim
  | _ :: _, [], h => h.elim
  | m :: ms, m' :: ms', h => by
    have h1 : p m' = p m := by rw [h.1]; exact hp m _
    have ih := retimed_filter p hp h.2.2
    rw [List.filter_cons, List.filter_cons, h1]
    split
    · exact ⟨h.1, h.2.1, ih⟩
    · exact ih

theorem isNote_retime (m : Msg) (t : Int) : Msg.isNote { m with time := t } = Msg.isNote m := rfl

/-- every message of the retimed list comes from a message of the original list (so `Retimed` up to order and
    sub-list implies `C05.displacement`) -/
theorem retimed_mem {S : Int} : ∀ {k q : List Msg}, Retimed S k q → ∀ m' ∈ q,
    ∃ m ∈ k, m' = { m with time := m'.time } ∧ (m'.time - m.time).natAbs ≤ S.toNat
  | [], [], _, _, hm => by cases hm
  | [], _ :: _, h, _, _ => h.elim
  | _ :: _, [], h, _, _ => h.elim
  | m :: _, _ :: _, h, x, hx => by
    rcases List.mem_cons.1 hx with rfl | hx
    · exact ⟨m, List.mem_cons_self, h.1, h.2.1⟩
    · obtain ⟨m0, h1, h2⟩ := retimed_mem h.2.2 x hx
      exact ⟨m0, List.mem_cons_of_mem _ h1, h2⟩

/-- a sub-list of the retimed list is the retimed version of a sub-list -/
theorem retimed_sublist {S : Int} : ∀ {k q q' : List Msg}, Retimed S k q → q'.Sublist q →
    ∃ k', k'.Sublist k ∧ Retimed S k' q'
  | [], [], q', _, hs => by
    have : q' = [] := by simpa using hs
    subst this
    exact ⟨[], List.Sublist.refl _, trivial⟩
  | [], _ :: _, _, h, _ => h.elim
  | _ :: _, [], _, h, _ => h.elim
  | m :: ms, m' :: ms', q', h, hs => by
    rcases List.sublist_cons_iff.1 hs with hs' | ⟨r, rfl, hs'⟩
    · obtain ⟨k', h1, h2⟩ := retimed_sublist h.2.2 hs'
      exact ⟨k', h1.cons _, h2⟩
    · obtain ⟨k', h1, h2⟩ := retimed_sublist h.2.2 hs'
      exact ⟨m :: k', h1.cons_cons _, h.1, h.2.1, h2⟩

/-! ### the fold: every step appends nothing or the current message at a nearby time -/

/-- some candidate position lies strictly to the right of the tick -/
theorem exists_right {steps : List Int} (hs : StepsOk steps) (t : Int) :
    ∃ p ∈ possiblePositions steps t, t < p := by
  obtain ⟨hne, hpos⟩ := hs
  cases steps with
  | nil => exact absurd rfl hne
  | cons s ss =>
    have hs0 := hpos s (by simp)
    refine ⟨t / s * s + s, by simp [possiblePositions], ?_⟩
    have h2 := Int.emod_lt_of_pos t hs0
    have h3 : t / s * s + t % s = t := Int.ediv_mul_add_emod t s
    omega

/-- every stored quantised onset is at most `S` after every message still to come -/
def OpenBd (S : Int) (s : QSt) (l : List Msg) : Prop := ∀ kv ∈ s.opens, ∀ m ∈ l, kv.2 ≤ m.time + S

theorem step_ret {steps : List Int} (hs : StepsOk steps) {s s1 : QSt} {m : Msg} {ms : List Msg}
    (hinfo : StepInfo steps s m s1) (hb : OpenBd (maxStep steps) s (m :: ms))
    (hsorted : ∀ m' ∈ ms, m.time ≤ m'.time) :
    OpenBd (maxStep steps) s1 ms ∧
      (s1.out = s.out ∨ ∃ t, s1.out = { m with time := t } :: s.out ∧
        (t - m.time).natAbs ≤ (maxStep steps).toNat) := by
  have hb' : OpenBd (maxStep steps) s ms := fun kv hkv m' hm' => hb kv hkv m' (List.mem_cons_of_mem _ hm')
  have hS := maxStep_pos hs
  rcases hinfo with ⟨_, _, t, ht, ⟨rfl, _⟩ | ⟨rfl, _⟩⟩ | ⟨_, ⟨openT, t, hopen, ht, rfl⟩ | ⟨_, rfl⟩⟩ |
    ⟨_, _, t, ht, rfl⟩
  · have hc := candidates_spec steps hs m.time t (nearest_mem ht)
    refine ⟨?_, Or.inr ⟨t, rfl, hc.2⟩⟩
    intro kv hkv m' hm'
    rcases mem_set (d := s.opens) hkv with hkv | rfl
    · exact hb' kv hkv m' hm'
    · have := hsorted m' hm'
      have := hc.2
      show t ≤ _
      omega
  · exact ⟨hb', Or.inl rfl⟩
  · refine ⟨fun kv hkv m' hm' => hb' kv (mem_erase (d := s.opens) hkv) m' hm', Or.inr ⟨t, rfl, ?_⟩⟩
    rcases mem_validOf (nearest_mem ht) with ⟨rfl, hno⟩ | ⟨hp, _⟩
    · obtain ⟨p, hp, hlt⟩ := exists_right hs m.time
      have h1 : p ≤ t := by
        by_cases h : t < p
        · exact absurd ⟨p, hp, h⟩ hno
        · omega
      have h2 := hb _ (mem_of_get? hopen) m List.mem_cons_self
      have h2' : t ≤ m.time + maxStep steps := h2
      omega
    · exact (candidates_spec steps hs m.time t hp).2
  · exact ⟨hb', Or.inl rfl⟩
  · exact ⟨hb', Or.inr ⟨t, rfl, (candidates_spec steps hs m.time t (nearest_mem ht)).2⟩⟩

theorem fold_ret {steps : List Int} (hs : StepsOk steps) : ∀ (l : List Msg) (s s' : QSt),
    SInv s → InAlt s l → l.Pairwise (fun a b => a.time ≤ b.time) → OpenBd (maxStep steps) s l →
    foldlM' (qStep steps) s l = .ok s' →
    ∃ kept nw, s'.out.reverse = s.out.reverse ++ nw ∧ kept.Sublist l ∧ Retimed (maxStep steps) kept nw := by
  intro l
  induction l with
  | nil =>
    intro s s' _ _ _ _ h
    simp only [foldlM'] at h
    cases h
    exact ⟨[], [], by simp, List.Sublist.refl _, trivial⟩
  | cons m ms ih =>
    intro s s' hsi hin hp hb h
    rw [List.pairwise_cons] at hp
    obtain ⟨s1, x, hq, _, hsi1, hin1, _, _⟩ := qStep_wf hs.1 (a := [m]) hsi hin (by simp)
    rw [foldlM'_cons_ok _ hq] at h
    obtain ⟨hb1, hout⟩ := step_ret hs (step_info hsi hin hq) hb hp.1
    obtain ⟨kept, nw, h1, h2, h3⟩ := ih s1 s' hsi1 hin1 hp.2 hb1 h
    rcases hout with ho | ⟨t, ho, hd⟩
    · exact ⟨kept, nw, by rw [h1, ho], h2.cons _, h3⟩
    · refine ⟨m :: kept, { m with time := t } :: nw, by rw [h1, ho]; simp, h2.cons_cons _, rfl, hd, h3⟩

/-- `quantise` on a well-formed, time-sorted input: the result is, up to order, a sub-list of the input with only
    the times changed, each by at most the largest step -/
theorem quantise_retimed {steps : List Int} (hs : StepsOk steps) {a out : List Msg} (hsorted : TimeSorted a)
    (hwf : WF a) (h : quantise steps a = .ok out) :
    ∃ kept q, kept.Sublist a ∧ out.Perm q ∧ Retimed (maxStep steps) kept q := by
  obtain ⟨s, idx, hf, _, rfl⟩ := quantise_ok h
  obtain ⟨kept, nw, h1, h2, h3⟩ := fold_ret hs a {} s sInv_init (inAlt_init hwf)
    ((timeSorted_iff_pairwise a).1 hsorted) (fun kv hkv => by cases hkv) hf
  have hnw : s.out.reverse = nw := by simpa using h1
  rw [hnw]
  have hsub : (removeIndices nw idx).Sublist nw := by
    rw [removeIndices_eq]; exact remFrom_sublist _ _ _
  obtain ⟨kept', h4, h5⟩ := retimed_sublist h3 hsub
  exact ⟨kept', _, h4.trans h2, sortAbs_perm _, h5⟩

/-! ### no overlap, on the independent `notesOf` semantics -/

/-- the waiting note-ons after one message (as in `notesGo`) -/
def nextOpens (m : Msg) (opens : List Msg) : List Msg :=
  if m.ty = .noteOn then m :: opens.filter (fun o => o.nkey != m.nkey)
  else if m.ty = .noteOff then opens.filter (fun o => o.nkey != m.nkey)
  else opens

/-- the note (if any) completed by one message -/
def emit (m : Msg) (opens : List Msg) : List Note :=
  if m.ty = .noteOff then
    match opens.find? (fun o => o.nkey == m.nkey) with
    | some o => [{ ch := o.ch, pitch := o.note, on := o.time, off := m.time, vel := o.vel }]
    | Option.none => []
  else []

theorem notesGo_cons (m : Msg) (ms opens : List Msg) :
    notesGo (m :: ms) opens = emit m opens ++ notesGo ms (nextOpens m opens) := by
  by_cases hon : m.ty = .noteOn
  · simp [notesGo, emit, nextOpens, hon]
  · by_cases hoff : m.ty = .noteOff
    · rw [notesGo, if_neg (by simp [hon]), if_pos (by simp [hoff])]
      simp only [emit, nextOpens, if_pos hoff, if_neg hon]
      cases hfind : opens.find? (fun o => o.nkey == m.nkey) with
      | some o => rfl
      | none =>
        have : opens.filter (fun o => o.nkey != m.nkey) = opens := by
          apply List.filter_eq_self.2
          intro o ho
          have := List.find?_eq_none.1 hfind o ho
          simpa using this
        rw [this]; rfl
    · have h1 : (m.ty == MType.noteOn) = false := by simp [hon]
      have h2 : (m.ty == MType.noteOff) = false := by simp [hoff]
      simp [notesGo, emit, nextOpens, hon, hoff]

theorem mem_emit {m : Msg} {opens : List Msg} {n : Note} (h : n ∈ emit m opens) :
    m.ty = .noteOff ∧ ∃ o ∈ opens, o.nkey = m.nkey ∧ (n.ch, n.pitch) = m.nkey ∧ n.on = o.time ∧ n.off = m.time := by
  unfold emit at h
  split at h
  · rename_i hoff
    refine ⟨hoff, ?_⟩
    split at h
    · rename_i o hfind
      have ho := List.mem_of_find?_eq_some hfind
      have hok : o.nkey = m.nkey := by
        have := List.find?_some hfind; simpa using this
      have : n = { ch := o.ch, pitch := o.note, on := o.time, off := m.time, vel := o.vel } := by
        simpa using h
      subst this
      exact ⟨o, ho, hok, hok, rfl, rfl⟩
    · cases h
  · cases h

theorem emit_pairwise (R : Note → Note → Prop) (m : Msg) (opens : List Msg) : (emit m opens).Pairwise R := by
  unfold emit
  split
  · split <;> simp
  · simp

/-- the waiting note-ons agree with the alternation state of key `k` -/
def Cond (k : Int × Int) : KS → List Msg → Prop
  | .cl _, opens => ∀ o ∈ opens, o.nkey ≠ k
  | .op t, opens => ∀ o ∈ opens, o.nkey = k → o.time = t

/-- lower bound for the onsets of the notes of key `k` still to come -/
def lowB : KS → Int → Prop
  | .cl b, x => ble b x
  | .op t, x => t ≤ x

theorem step_cond {k : Int × Int} {P : Msg → Prop} {st : KS} {m : Msg} {ms opens : List Msg}
    (h : altT k P st (m :: ms)) (hc : Cond k st opens) :
    ∃ st', altT k P st' ms ∧ Cond k st' (nextOpens m opens) ∧ (∀ x, lowB st' x → lowB st x) ∧
      (∀ n ∈ emit m opens, (n.ch, n.pitch) = k → lowB st n.on ∧ st' = .cl (some n.off)) := by
  by_cases hon : m.nkey = k ∧ m.ty = .noteOn
  · cases st with
    | op t => rw [altT, if_pos hon] at h; cases h
    | cl b =>
      rw [altT, if_pos hon] at h
      obtain ⟨hb, _, hrest⟩ := h
      refine ⟨.op m.time, hrest, ?_, ?_, ?_⟩
      · intro o ho hok
        simp only [nextOpens, if_pos hon.2] at ho
        rcases List.mem_cons.1 ho with rfl | ho
        · rfl
        · have := (List.mem_filter.1 ho).2
          simp [hon.1, hok] at this
      · intro x hx
        have hx' : m.time ≤ x := hx
        cases b with
        | none => trivial
        | some b => have : b ≤ m.time := hb; show b ≤ x; omega
      · intro n hn
        have := (mem_emit hn).1
        rw [hon.2] at this; cases this
  · by_cases hoff : m.nkey = k ∧ m.ty = .noteOff
    · cases st with
      | cl b => rw [altT, if_neg hon, if_pos hoff] at h; cases h
      | op t =>
        rw [altT, if_neg hon, if_pos hoff] at h
        obtain ⟨hlt, _, hrest⟩ := h
        refine ⟨.cl (some m.time), hrest, ?_, ?_, ?_⟩
        · intro o ho hok
          simp only [nextOpens, if_pos hoff.2, if_neg (show ¬ m.ty = .noteOn by simp [hoff.2])] at ho
          have := (List.mem_filter.1 ho).2
          simp [hoff.1, hok] at this
        · intro x hx
          have hx' : m.time ≤ x := hx
          show t ≤ x; omega
        · intro n hn _
          obtain ⟨_, o, ho, hok, _, hon', hoff'⟩ := mem_emit hn
          have := hc o ho (hok.trans hoff.1)
          refine ⟨?_, by rw [hoff']⟩
          show t ≤ n.on
          omega
    · rw [altT_skip hon hoff] at h
      refine ⟨st, h, ?_, fun x hx => hx, ?_⟩
      · have hsub : ∀ o ∈ nextOpens m opens, o ∈ opens ∨ (o = m ∧ m.ty = .noteOn) := by
          intro o ho
          unfold nextOpens at ho
          split at ho
          · rename_i hty
            rcases List.mem_cons.1 ho with rfl | ho
            · exact Or.inr ⟨rfl, hty⟩
            · exact Or.inl (List.mem_filter.1 ho).1
          · split at ho
            · exact Or.inl (List.mem_filter.1 ho).1
            · exact Or.inl ho
        cases st with
        | cl b =>
          intro o ho hok
          rcases hsub o ho with ho | ⟨rfl, hty⟩
          · exact hc o ho hok
          · exact hon ⟨hok, hty⟩
        | op t =>
          intro o ho hok
          rcases hsub o ho with ho | ⟨rfl, hty⟩
          · exact hc o ho hok
          · exact absurd ⟨hok, hty⟩ hon
      · intro n hn hk
        obtain ⟨hty, _, _, _, hnk, _, _⟩ := mem_emit hn
        exact absurd ⟨hnk.symm.trans hk, hty⟩ hoff

/-- every note of key `k` still to come starts at or after the bound given by the state of `k` -/
theorem notes_low {k : Int × Int} {P : Msg → Prop} : ∀ (l opens : List Msg) (st : KS),
    altT k P st l → Cond k st opens → ∀ n ∈ notesGo l opens, (n.ch, n.pitch) = k → lowB st n.on := by
  intro l
  induction l with
  | nil => intro opens st _ _ n hn; simp [notesGo] at hn
  | cons m ms ih =>
    intro opens st h hc n hn hk
    rw [notesGo_cons] at hn
    obtain ⟨st', h1, h2, h3, h4⟩ := step_cond h hc
    rcases List.mem_append.1 hn with hn | hn
    · exact (h4 n hn hk).1
    · exact h3 _ (ih _ st' h1 h2 n hn hk)

/-- two notes of one (channel, pitch): the later one starts at or after the end of the earlier one -/
def NoOverlap (n1 n2 : Note) : Prop := n1.ch = n2.ch → n1.pitch = n2.pitch → n1.off ≤ n2.on

theorem notes_pairwise {P : Msg → Prop} : ∀ (l opens : List Msg),
    (∀ k, ∃ st, altT k P st l ∧ Cond k st opens) → (notesGo l opens).Pairwise NoOverlap := by
  intro l
  induction l with
  | nil => intro opens _; simp [notesGo]
  | cons m ms ih =>
    intro opens hall
    rw [notesGo_cons, List.pairwise_append]
    refine ⟨emit_pairwise _ _ _, ih _ ?_, ?_⟩
    · intro k
      obtain ⟨st, h, hc⟩ := hall k
      obtain ⟨st', h1, h2, _, _⟩ := step_cond h hc
      exact ⟨st', h1, h2⟩
    · intro n0 hn0 n hn hch hp
      obtain ⟨st, h, hc⟩ := hall (n0.ch, n0.pitch)
      obtain ⟨st', h1, h2, _, h4⟩ := step_cond h hc
      obtain ⟨_, rfl⟩ := h4 n0 hn0 rfl
      exact notes_low ms _ _ h1 h2 n hn (by rw [hch, hp])

theorem no_overlap_core {P : Msg → Prop} {out : List Msg} (h : ∀ k, altT k P (.cl Option.none) out) :
    (notesOf out).Pairwise NoOverlap :=
  notes_pairwise out [] (fun k => ⟨_, h k, fun o ho => by cases ho⟩)

/-! ### removal of an isolated note without `a.Nodup` -/

/-- after a closed key: if every later note-on of the key is at or after `T`, so is every later note event of it -/
theorem post_far {k : Int × Int} {T : Int} : ∀ (post : List Msg), altFrom k false post →
    post.Pairwise (fun a b => a.time ≤ b.time) →
    (∀ m ∈ post, m.nkey = k → m.ty = .noteOn → T ≤ m.time) →
    ∀ m ∈ post, m.nkey = k → IsNoteTy m → T ≤ m.time := by
  intro post
  induction post with
  | nil => intro _ _ _ m hm; cases hm
  | cons x xs ih =>
    intro halt hp hon m hm hk hn
    rw [List.pairwise_cons] at hp
    by_cases hxon : x.nkey = k ∧ x.ty = .noteOn
    · have h1 := hon x List.mem_cons_self hxon.1 hxon.2
      rcases List.mem_cons.1 hm with rfl | hm
      · exact h1
      · have := hp.1 m hm; omega
    · by_cases hxoff : x.nkey = k ∧ x.ty = .noteOff
      · rw [altFrom, if_neg hxon, if_pos hxoff] at halt
        cases halt.1
      · rw [altFrom_skip hxon hxoff] at halt
        rcases List.mem_cons.1 hm with rfl | hm
        · rcases hn with hn | hn
          · exact absurd ⟨hk, hn⟩ hxon
          · exact absurd ⟨hk, hn⟩ hxoff
        · exact ih halt hp.2 (fun y hy => hon y (List.mem_cons_of_mem _ hy)) m hm hk hn

theorem dropped_core' {steps : List Int} (hs : StepsOk steps) {a out : List Msg} (hok : OkAbs a) (hwf : WF a)
    (h : quantise steps a = .ok out) {on off : Msg} (hi : Isolated steps a on off)
    (hlt : on.time < off.time)
    (hnoroom : ∀ p ∈ possiblePositions steps off.time, p ≤ qOn steps on) :
    ∀ m ∈ out, m.nkey = on.nkey → (m.ty = .noteOn ∨ m.ty = .noteOff) →
      m.time + maxStep steps ≤ on.time ∨ off.time + maxStep steps ≤ m.time := by
  obtain ⟨pre, post', rfl, h1, h2, h3⟩ := OnFirst.of_lt hok hi hlt
  obtain ⟨mid, post, rfl, _, hpre, hmid, hpost⟩ := split_note (maxStep_pos hs) hok.1 hwf hi.onTy hi.order
    hi.far h1 h2 h3
  have hS := maxStep_pos hs
  have hsorted : TimeSorted ((pre ++ on :: mid) ++ off :: post) := by
    rw [List.append_assoc, List.cons_append]; exact hok.1
  have hsp := sorted_split hsorted
  have hpw : post.Pairwise (fun a b => a.time ≤ b.time) := by
    have := (timeSorted_iff_pairwise _).1 hsorted
    rw [List.pairwise_append, List.pairwise_cons] at this
    exact this.2.1.2
  have halt : altFrom on.nkey false post := by
    have hw : altFrom on.nkey false ((pre ++ on :: mid) ++ off :: post) := by
      rw [List.append_assoc, List.cons_append]; exact hwf on.nkey
    obtain ⟨b, hb⟩ := altFrom_drop on.nkey _ _ false hw
    rw [altFrom, if_neg (by simp [hi.offTy]), if_pos ⟨hi.key, hi.offTy⟩] at hb
    exact hb.2
  have hpost' : ∀ m ∈ post, m.nkey = on.nkey → IsNoteTy m → off.time + 2 * maxStep steps ≤ m.time := by
    apply post_far post halt hpw
    intro m hm hk hty
    have ht := hsp.2 m hm
    exact hpost m hm (fun e => by rw [e] at ht; omega) (fun e => by rw [e, hi.offTy] at hty; cases hty) hk
      (Or.inl hty)
  exact core_dropped hs hwf hi.onTy hi.offTy hi.key hpre hmid hpost' (nearest_qOn hs.1 on) hnoroom h

/-! ### the empty step list -/

theorem qStep_nil_err (m : Msg) (hm : m.ty ≠ .noteOff) : qStep [] {} m = .error .indexError := by
  unfold qStep
  simp only [bind, Except.bind, possiblePositions, List.map_nil, List.append_nil, nearest, findMinimalDistance, fmdGo]
  split
  · rfl
  · rename_i h; exact absurd h hm
  · rfl

/-- with no step size at all a well-formed input is either empty or rejected (`IndexError`) -/
theorem quantise_nil_steps {a out : List Msg} (hwf : WF a) (h : quantise [] a = .ok out) : out = [] := by
  cases a with
  | nil => cases h; rfl
  | cons m ms =>
    exfalso
    have hm : m.ty ≠ .noteOff := by
      intro hoff
      have := hwf m.nkey
      rw [altFrom, if_neg (by simp [hoff]), if_pos ⟨rfl, hoff⟩] at this
      cases this.1
    obtain ⟨s, _, hf, _, _⟩ := quantise_ok h
    simp only [foldlM', qStep_nil_err m hm] at hf
    cases hf

theorem no_overlap_any {steps : List Int} {a out : List Msg} (hwf : WF a) (h : quantise steps a = .ok out) :
    (notesOf out).Pairwise NoOverlap := by
  by_cases hne : steps = []
  · subst hne
    rw [quantise_nil_steps hwf h]
    exact List.Pairwise.nil
  · exact no_overlap_core (quantise_wf_core hne hwf h).1

end SCoda.Strong589LQ
