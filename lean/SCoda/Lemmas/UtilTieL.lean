/-
  Helper lemmas for Props/UtilTie.lean (generated util functions of Gen/UtilFns.lean = hand models).
  * loop rules for `for` in `Except ε` (as in Lemmas/ViewTieL.lean; copied so that this file does not depend on the
    other generated files);
  * `enumerate`, `range`, `np.digitize` facts for the prelude Model/UtilLib.lean;
  * the two `while` loops of `get_note_durations` as structural functions, their relation to the hand
    transcriptions `noteDurUpPy` / `noteDurDownPy`, and the adequacy of the stated fuel.
-/
import Mathlib.Data.Rat.Lemmas
import Mathlib.Data.Rat.Floor
import Mathlib.Tactic.Linarith
import SCoda.Gen.UtilFns
import SCoda.Model.Quantise
import SCoda.Lemmas.Quantise
import SCoda.Model.Token
namespace SCoda.UtilTieL
open SCoda SCoda.Util SCoda.PyNum

instance {ε α : Type} [DecidableEq ε] [DecidableEq α] : DecidableEq (Except ε α)
  | .ok a, .ok b => if h : a = b then isTrue (h ▸ rfl) else isFalse (fun h' => h (by cases h'; rfl))
  | .error a, .error b => if h : a = b then isTrue (h ▸ rfl) else isFalse (fun h' => h (by cases h'; rfl))
  | .ok _, .error _ => isFalse (by intro h; cases h)
  | .error _, .ok _ => isFalse (by intro h; cases h)

/-- Loop rule: `forIn l b f = spec l b` provided `spec [] b = pure b` and `spec (a :: as) b` is one run of the
    body followed by `spec as` (on `yield`) or by stopping (on `done`).  `P` is an invariant of the elements. -/
theorem forIn_spec {α β ε : Type} (P : α → Prop) (f : α → β → Except ε (ForInStep β))
    (spec : List α → β → Except ε β)
    (hnil : ∀ b, spec [] b = pure b)
    (hstep : ∀ a as b, P a →
      (f a b >>= fun s => match s with | .yield b' => spec as b' | .done b' => pure b') = spec (a :: as) b) :
    ∀ (l : List α) (b : β), (∀ a ∈ l, P a) → forIn l b f = spec l b := by
  intro l
  induction l with
  | nil => intro b _; simp [hnil]
  | cons a as ih =>
    intro b hP
    rw [List.forIn_cons, ← hstep a as b (hP a (by simp))]
    congr 1
    funext s
    cases s with
    | done b' => rfl
    | yield b' => exact ih b' (fun x hx => hP x (by simp [hx]))

theorem forIn_spec' {α β ε : Type} (f : α → β → Except ε (ForInStep β))
    (spec : List α → β → Except ε β)
    (hnil : ∀ b, spec [] b = pure b)
    (hstep : ∀ a as b,
      (f a b >>= fun s => match s with | .yield b' => spec as b' | .done b' => pure b') = spec (a :: as) b)
    (l : List α) (b : β) : forIn l b f = spec l b :=
  forIn_spec (fun _ => True) f spec hnil (fun a as b _ => hstep a as b) l b (fun _ _ => trivial)

theorem ok_bind {α β ε : Type} (x : α) (f : α → Except ε β) : (Except.ok x >>= f) = f x := rfl
theorem error_bind {α β ε : Type} (e : ε) (f : α → Except ε β) : (Except.error e >>= f) = Except.error e := rfl
theorem pure_eq_ok {α ε : Type} (x : α) : (pure x : Except ε α) = Except.ok x := rfl

/-! ### `enumerate`, `range` -/

/-- `enumerate` with an explicit start -/
def enumFrom {α : Type} : Nat → List α → List (PyNum × α)
  | _, [] => []
  | k, x :: xs => (PyNum.int (k : Int), x) :: enumFrom (k + 1) xs

theorem enum_aux {α : Type} (l : List α) : ∀ k : Nat,
    ((List.range' k l.length).zip l).map (fun (p : Nat × α) => (PyNum.int (p.1 : Int), p.2)) = enumFrom k l := by
  induction l with
  | nil => intro k; rfl
  | cons x xs ih =>
    intro k
    simp only [List.length_cons, List.range'_succ, List.zip_cons_cons, List.map_cons, enumFrom, ih (k + 1)]

theorem pyEnumerate_eq {α : Type} (l : List α) : pyEnumerate l = enumFrom 0 l := by
  unfold pyEnumerate
  rw [List.range_eq_range']
  exact enum_aux l 0

theorem pyRange_int (a b : Int) :
    pyRange (.int a) (.int b) = .ok ((List.range (b - a).toNat).map fun (k : Nat) => PyNum.int (a + (k : Int))) := rfl

/-! ### `find_minimal_distance` -/

/-- how the loop state of the generated code represents the `best` of the hand model -/
def Rep : Option (Nat × Int) → PyNumInf → PyNum → Prop
  | none, d, idx => d = .inf ∧ idx = .int 0
  | some (i, bd), d, idx => d = .fin (.int bd) ∧ idx = .int (i : Int) ∧ 0 ≤ bd

theorem lt_int (a b : Int) : PyNum.lt (.int a) (.int b) = decide (a < b) := by
  simp [PyNum.lt, PyNum.toRat]

theorem fmd_loop (e : Int) (f) (hf : f = fun (x : PyNum × PyNum) (__s : Option PyNum × PyNumInf × PyNum) =>
            if (PyNumInf.fin (pyAbs (x.snd.sub (.int e)))).lt __s.snd.fst = true then
              if (PyNumInf.fin (pyAbs (x.snd.sub (.int e)))).eq (PyNumInf.fin (int 0)) = true then
                (pure (ForInStep.done (some x.fst, PyNumInf.fin (pyAbs (x.snd.sub (.int e))), x.fst)) : Except UErr _)
              else pure (ForInStep.yield (none, PyNumInf.fin (pyAbs (x.snd.sub (.int e))), x.fst))
            else pure (ForInStep.yield (none, __s.snd.fst, __s.snd.snd))) :
    ∀ (cs : List Int) (k : Nat) (best : Option (Nat × Int)) (d : PyNumInf) (idx : PyNum), Rep best d idx →
    ∃ st, forIn (enumFrom k (cs.map PyNum.int)) (none, d, idx) f = .ok st ∧
      (match st.1 with | some r => r | none => st.2.2) = .int (fmdGo e cs k best : Nat) := by
  have key : ∀ x s, f x s = (if (PyNumInf.fin (pyAbs (x.snd.sub (.int e)))).lt s.snd.fst = true then
              if (PyNumInf.fin (pyAbs (x.snd.sub (.int e)))).eq (PyNumInf.fin (int 0)) = true then
                (pure (ForInStep.done (some x.fst, PyNumInf.fin (pyAbs (x.snd.sub (.int e))), x.fst)) : Except UErr _)
              else pure (ForInStep.yield (none, PyNumInf.fin (pyAbs (x.snd.sub (.int e))), x.fst))
            else pure (ForInStep.yield (none, s.snd.fst, s.snd.snd))) := by subst hf; intros; rfl
  clear hf
  intro cs
  induction cs with
  | nil =>
    intro k best d idx hr
    refine ⟨(none, d, idx), rfl, ?_⟩
    cases best with
    | none => simp [Rep] at hr; simp [fmdGo, hr]
    | some p => obtain ⟨i, bd⟩ := p; simp [Rep] at hr; simp [fmdGo, hr]
  | cons c cs ih =>
    intro k best d idx hr
    simp only [List.map_cons, enumFrom, List.forIn_cons]
    have habs : pyAbs ((PyNum.int c).sub (.int e)) = .int |c - e| := by
      show PyNum.int _ = _
      rw [Int.natCast_natAbs]
    have hnn : 0 ≤ |c - e| := abs_nonneg _
    have hz : (((|c - e| : Int) : Rat) = ((0 : Int) : Rat)) ↔ c - e = 0 := by
      constructor
      · intro h; have : |c - e| = 0 := by exact_mod_cast h
        exact abs_eq_zero.mp this
      · intro h; rw [h]; simp
    cases best with
    | none =>
      simp [Rep] at hr
      obtain ⟨rfl, rfl⟩ := hr
      rw [key]
      simp only [habs, PyNumInf.lt, if_true, PyNumInf.eq, PyNum.toRat, hz]
      by_cases h0 : c - e = 0
      · simp [h0, fmdGo, pure_eq_ok, ok_bind]
      · have := ih (k + 1) (some (k, |c - e|)) (.fin (.int |c - e|)) (.int k) ⟨rfl, rfl, hnn⟩
        simpa [fmdGo, h0, bind, Except.bind, pure_eq_ok] using this
    | some p =>
      obtain ⟨i, bd⟩ := p
      simp [Rep] at hr
      obtain ⟨rfl, rfl, hbd⟩ := hr
      rw [key]
      simp only [habs, PyNumInf.lt, lt_int, PyNumInf.eq, PyNum.toRat, hz]
      by_cases hlt : |c - e| < bd
      · by_cases h0 : c - e = 0
        · have hpos : 0 < bd := by rw [h0] at hlt; simpa using hlt
          simp [h0, fmdGo, pure_eq_ok, hpos, bind, Except.bind]
        · have := ih (k + 1) (some (k, |c - e|)) (.fin (.int |c - e|)) (.int k) ⟨rfl, rfl, hnn⟩
          simpa [fmdGo, h0, hlt, bind, Except.bind, pure_eq_ok] using this
      · have := ih (k + 1) (some (i, bd)) (.fin (.int bd)) (.int i) ⟨rfl, rfl, hbd⟩
        simpa [fmdGo, hlt, bind, Except.bind, pure_eq_ok] using this

/-! ### `get_note_durations`: the two `while` loops -/

theorem toRat_mul (a b : PyNum) : (PyNum.mul a b).toRat = a.toRat * b.toRat := by
  cases a <;> cases b <;> simp [PyNum.mul, PyNum.toRat]

theorem toRat_truediv (a b : PyNum) : (PyNum.truediv a b).toRat = a.toRat / b.toRat := rfl

theorem pyTruediv_two (a : PyNum) : pyTruediv a (.int 2) = .ok (PyNum.truediv a (.int 2)) := by
  simp [pyTruediv, PyNum.toRat]

theorem pyTruediv_ne (a b : PyNum) (h : b.toRat ≠ 0) : pyTruediv a b = .ok (PyNum.truediv a b) := by
  simp [pyTruediv, h]

/-- the first `while` loop of `get_note_durations` as a structural function of the fuel -/
def upLoop (base : PyNum) : Nat → List PyNum × PyNum → List PyNum × PyNum
  | 0, st => st
  | n + 1, st =>
    if PyNum.ge st.2 (.int 1) then upLoop base n (st.1 ++ [pyint (PyNum.mul st.2 base)], PyNum.truediv st.2 (.int 2)) else st

/-- the second `while` loop -/
def downLoop (base lb : PyNum) : Nat → List PyNum × PyNum → List PyNum × PyNum
  | 0, st => st
  | n + 1, st =>
    if PyNum.le st.2 lb then downLoop base lb n (st.1 ++ [pyint (PyNum.truediv base st.2)], PyNum.mul st.2 (.int 2)) else st

theorem up_forIn (base : PyNum) : ∀ (n : Nat) (st : List PyNum × PyNum),
    forIn (List.replicate n ()) st (fun (_ : Unit) (s : List PyNum × PyNum) =>
            if (!s.2.ge (int 1)) = true then (pure (ForInStep.done (s.1, s.2)) : Except UErr _)
            else do
              let d ← pyTruediv s.2 (int 2)
              pure (ForInStep.yield (s.1 ++ [(s.2.mul base).pyint], d)))
      = .ok (upLoop base n st) := by
  intro n
  induction n with
  | zero => intro st; rfl
  | succ n ih =>
    intro st
    rw [List.replicate_succ, List.forIn_cons]
    by_cases h : st.2.ge (int 1) = true
    · simp only [h, Bool.not_true, Bool.false_eq_true, if_false, pyTruediv_two, ok_bind, pure_eq_ok, upLoop, if_true]
      exact ih _
    · simp only [Bool.not_eq_true] at h
      simp [h, upLoop, pure_eq_ok, ok_bind]

theorem down_forIn (base lb : PyNum) : ∀ (n : Nat) (st : List PyNum × PyNum), 0 < st.2.toRat →
    forIn (List.replicate n ()) st (fun (_ : Unit) (s : List PyNum × PyNum) =>
            if (!s.2.le lb) = true then (pure (ForInStep.done (s.1, s.2)) : Except UErr _)
            else do
              let d ← pyTruediv base s.2
              pure (ForInStep.yield (s.1 ++ [d.pyint], s.2.mul (int 2))))
      = .ok (downLoop base lb n st) := by
  intro n
  induction n with
  | zero => intro st _; rfl
  | succ n ih =>
    intro st hpos
    rw [List.replicate_succ, List.forIn_cons]
    by_cases h : st.2.le lb = true
    · simp only [h, Bool.not_true, Bool.false_eq_true, if_false, pyTruediv_ne _ _ (ne_of_gt hpos), ok_bind, pure_eq_ok, downLoop, if_true]
      refine ih _ ?_
      show 0 < (st.2.mul (int 2)).toRat
      rw [toRat_mul]
      have : (0 : Rat) < (PyNum.int 2).toRat := by simp [PyNum.toRat]
      exact mul_pos hpos this
    · simp only [Bool.not_eq_true] at h
      simp [h, downLoop, pure_eq_ok, ok_bind]

/-- the structural loop against the hand transcription `noteDurUpPy` (fuel `n + 1` there = `n` iterations + the final test here) -/
theorem up_rel (base : PyNum) : ∀ (n : Nat) (ds : List PyNum) (i : PyNum),
    match noteDurUpPy base (n + 1) i with
    | some r => (upLoop base n (ds, i)).1 = ds ++ r ∧ PyNum.ge (upLoop base n (ds, i)).2 (.int 1) = false
    | Option.none => PyNum.ge (upLoop base n (ds, i)).2 (.int 1) = true := by
  intro n
  induction n with
  | zero =>
    intro ds i
    by_cases h : PyNum.ge i (.int 1) = true
    · simp [noteDurUpPy, h, upLoop]
    · simp only [Bool.not_eq_true] at h
      simp [noteDurUpPy, h, upLoop]
  | succ n ih =>
    intro ds i
    by_cases h : PyNum.ge i (.int 1) = true
    · have := ih (ds ++ [pyint (PyNum.mul i base)]) (PyNum.truediv i (.int 2))
      rw [noteDurUpPy]
      simp only [h, if_true, upLoop]
      cases hr : noteDurUpPy base (n + 1) (i.truediv (int 2)) with
      | none => simpa [hr] using this
      | some r => simpa [hr] using this
    · simp only [Bool.not_eq_true] at h
      simp [noteDurUpPy, h, upLoop]

theorem down_rel (base lb : PyNum) : ∀ (n : Nat) (ds : List PyNum) (j : PyNum),
    match noteDurDownPy base lb (n + 1) j with
    | some r => (downLoop base lb n (ds, j)).1 = ds ++ r ∧ PyNum.le (downLoop base lb n (ds, j)).2 lb = false
    | Option.none => PyNum.le (downLoop base lb n (ds, j)).2 lb = true := by
  intro n
  induction n with
  | zero =>
    intro ds j
    by_cases h : PyNum.le j lb = true
    · simp [noteDurDownPy, h, downLoop]
    · simp only [Bool.not_eq_true] at h
      simp [noteDurDownPy, h, downLoop]
  | succ n ih =>
    intro ds j
    by_cases h : PyNum.le j lb = true
    · have := ih (ds ++ [pyint (PyNum.truediv base j)]) (PyNum.mul j (.int 2))
      rw [noteDurDownPy]
      simp only [h, if_true, downLoop]
      cases hr : noteDurDownPy base lb (n + 1) (j.mul (int 2)) with
      | none => simpa [hr] using this
      | some r => simpa [hr] using this
    · simp only [Bool.not_eq_true] at h
      simp [noteDurDownPy, h, downLoop]

/-- generated `get_note_durations` in terms of the hand transcriptions of its two loops, all arguments -/
theorem getNoteDurations_loops (ub lb base : PyNum) :
    Gen.Util.getNoteDurations ub lb base =
      match noteDurUpPy base (whileFuel ub (.int 1) + 1) ub, noteDurDownPy base lb (whileFuel (.int 2) lb + 1) (.int 2) with
      | some a, some b => .ok (a ++ b)
      | _, _ => .error .fuel := by
  unfold Gen.Util.getNoteDurations
  simp only []
  rw [up_forIn]
  simp only [ok_bind]
  have hu := up_rel base (whileFuel ub (.int 1)) [] ub
  cases h1 : noteDurUpPy base (whileFuel ub (.int 1) + 1) ub with
  | none =>
    rw [h1] at hu
    simp only [hu, if_true]
    rfl
  | some a =>
    rw [h1] at hu
    simp only [List.nil_append] at hu
    obtain ⟨hu1, hu2⟩ := hu
    simp only [hu2, Bool.false_eq_true, if_false]
    rw [down_forIn base lb _ _ (by simp [PyNum.toRat])]
    simp only [ok_bind, hu1]
    have hd := down_rel base lb (whileFuel (.int 2) lb) a (.int 2)
    cases h2 : noteDurDownPy base lb (whileFuel (.int 2) lb + 1) (.int 2) with
    | none =>
      rw [h2] at hd
      simp only [hd, if_true]
      rfl
    | some b =>
      rw [h2] at hd
      simp only at hd
      simp only [hd.2, Bool.false_eq_true, if_false, hd.1]
      rfl

theorem le_ratAbs (q : Rat) : q ≤ ratAbs q := by
  unfold ratAbs; split <;> linarith

theorem ratAbs_nonneg (q : Rat) : 0 ≤ ratAbs q := by
  unfold ratAbs; split <;> linarith

theorem lt_whileFuel (a b : PyNum) : ratAbs (a.toRat - b.toRat) + 1 < ((whileFuel a b : Nat) : Rat) := by
  unfold whileFuel
  have hd := ratAbs_nonneg (a.toRat - b.toRat)
  generalize ratAbs (a.toRat - b.toRat) = d at *
  have h0 : 0 ≤ d.floor := Rat.le_floor_iff.mpr (by simpa using hd)
  have h1 := Rat.lt_floor_add_one d
  have h2 : ((d.floor.toNat : Nat) : Int) = d.floor := Int.toNat_of_nonneg h0
  have h3 : (((d.floor.toNat + 2 : Nat)) : Rat) = ((d.floor : Int) : Rat) + 2 := by
    have : ((d.floor.toNat : Nat) : Rat) = ((d.floor : Int) : Rat) := by exact_mod_cast congrArg (fun z : Int => (z : Rat)) h2
    push_cast; rw [this]
  rw [h3]
  push_cast at h1
  linarith

theorem lt_two_pow (n : Nat) : ((n : Nat) : Rat) < (2 : Rat) ^ n := by
  have := Nat.lt_two_pow_self (n := n)
  exact_mod_cast this

/-- with fuel `n + 1` the first loop of the hand transcription stops if `i < 2 ^ n` -/
theorem noteDurUpPy_isSome (base : PyNum) : ∀ (n : Nat) (i : PyNum), i.toRat < (2 : Rat) ^ n →
    (noteDurUpPy base (n + 1) i).isSome = true := by
  intro n
  induction n with
  | zero =>
    intro i h
    have e1 : (PyNum.int 1).toRat = 1 := by simp [PyNum.toRat]
    have : PyNum.ge i (.int 1) = false := by
      unfold PyNum.ge
      rw [e1, decide_eq_false_iff_not, not_le]
      simpa using h
    simp [noteDurUpPy, this]
  | succ n ih =>
    intro i h
    rw [noteDurUpPy]
    split
    · have : (PyNum.truediv i (.int 2)).toRat < (2 : Rat) ^ n := by
        rw [toRat_truediv]
        simp only [PyNum.toRat]
        rw [pow_succ] at h
        have h2 : ((2 : Int) : Rat) = 2 := by norm_num
        rw [h2, div_lt_iff₀ (by norm_num)]
        exact h
      have := ih _ this
      cases hr : noteDurUpPy base (n + 1) (i.truediv (int 2)) <;> simp_all
    · rfl

/-- with fuel `n + 1` the second loop stops if `lb < j * 2 ^ n` (and `0 < j`) -/
theorem noteDurDownPy_isSome (base lb : PyNum) : ∀ (n : Nat) (j : PyNum), 0 < j.toRat → lb.toRat < j.toRat * (2 : Rat) ^ n →
    (noteDurDownPy base lb (n + 1) j).isSome = true := by
  intro n
  induction n with
  | zero =>
    intro j _ h
    have : PyNum.le j lb = false := by
      simp only [PyNum.le, decide_eq_false_iff_not, not_le]
      simpa using h
    simp [noteDurDownPy, this]
  | succ n ih =>
    intro j hj h
    rw [noteDurDownPy]
    split
    · have h2 : (PyNum.int 2).toRat = 2 := by simp [PyNum.toRat]
      have hpos : 0 < (PyNum.mul j (.int 2)).toRat := by rw [toRat_mul, h2]; linarith
      have : lb.toRat < (PyNum.mul j (.int 2)).toRat * (2 : Rat) ^ n := by
        rw [toRat_mul, h2]
        rw [pow_succ] at h
        linarith
      have := ih _ hpos this
      cases hr : noteDurDownPy base lb (n + 1) (j.mul (int 2)) <;> simp_all
    · rfl

/-- the stated fuel always suffices: the generated `get_note_durations` never answers `fuel` -/
theorem up_fuel_ok (base ub : PyNum) : (noteDurUpPy base (whileFuel ub (.int 1) + 1) ub).isSome = true := by
  apply noteDurUpPy_isSome
  have h1 := lt_whileFuel ub (.int 1)
  have h2 := le_ratAbs (ub.toRat - (PyNum.int 1).toRat)
  have h3 := lt_two_pow (whileFuel ub (.int 1))
  have e1 : (PyNum.int 1).toRat = 1 := by simp [PyNum.toRat]
  rw [e1] at h1 h2
  linarith

theorem down_fuel_ok (base lb : PyNum) : (noteDurDownPy base lb (whileFuel (.int 2) lb + 1) (.int 2)).isSome = true := by
  apply noteDurDownPy_isSome
  · simp [PyNum.toRat]
  have h1 := lt_whileFuel (.int 2) lb
  have h2 := le_ratAbs (-((PyNum.int 2).toRat - lb.toRat))
  have h4 : ratAbs (-((PyNum.int 2).toRat - lb.toRat)) = ratAbs ((PyNum.int 2).toRat - lb.toRat) := by
    unfold ratAbs; split <;> split <;> linarith
  have h3 := lt_two_pow (whileFuel (.int 2) lb)
  rw [h4] at h2
  have e2 : (PyNum.int 2).toRat = 2 := by simp [PyNum.toRat]
  rw [e2] at h1 h2 ⊢
  have h5 : (1 : Rat) ≤ (2 : Rat) ^ whileFuel (int 2) lb := one_le_pow₀ (by norm_num)
  linarith
theorem noteDurUpPy_mono (base : PyNum) : ∀ (f : Nat) (i : PyNum) (r : List PyNum), noteDurUpPy base f i = some r →
    ∀ f', f ≤ f' → noteDurUpPy base f' i = some r := by
  intro f
  induction f with
  | zero => intro i r h; simp [noteDurUpPy] at h
  | succ f ih =>
    intro i r h f' hf
    obtain ⟨g, rfl⟩ : ∃ g, f' = g + 1 := ⟨f' - 1, by omega⟩
    rw [noteDurUpPy] at h ⊢
    split at h
    · rename_i hc
      simp only [hc, if_true]
      cases hr : noteDurUpPy base f (i.truediv (int 2)) with
      | none => simp [hr] at h
      | some r' =>
        rw [ih _ _ hr g (by omega)]
        simpa [hr] using h
    · rename_i hc
      simp only [hc]
      exact h

theorem noteDurDownPy_mono (base lb : PyNum) : ∀ (f : Nat) (j : PyNum) (r : List PyNum), noteDurDownPy base lb f j = some r →
    ∀ f', f ≤ f' → noteDurDownPy base lb f' j = some r := by
  intro f
  induction f with
  | zero => intro i r h; simp [noteDurDownPy] at h
  | succ f ih =>
    intro j r h f' hf
    obtain ⟨g, rfl⟩ : ∃ g, f' = g + 1 := ⟨f' - 1, by omega⟩
    rw [noteDurDownPy] at h ⊢
    split at h
    · rename_i hc
      simp only [hc, if_true]
      cases hr : noteDurDownPy base lb f (j.mul (int 2)) with
      | none => simp [hr] at h
      | some r' =>
        rw [ih _ _ hr g (by omega)]
        simpa [hr] using h
    · rename_i hc
      simp only [hc]
      exact h

/-- two terminating runs of the hand transcription agree whatever their fuel -/
theorem noteDurUpPy_unique (base : PyNum) {f f' : Nat} {i : PyNum} {r r' : List PyNum}
    (h : noteDurUpPy base f i = some r) (h' : noteDurUpPy base f' i = some r') : r = r' := by
  have a := noteDurUpPy_mono base f i r h (max f f') (Nat.le_max_left _ _)
  have b := noteDurUpPy_mono base f' i r' h' (max f f') (Nat.le_max_right _ _)
  rw [a] at b; exact Option.some.inj b

theorem noteDurDownPy_unique (base lb : PyNum) {f f' : Nat} {j : PyNum} {r r' : List PyNum}
    (h : noteDurDownPy base lb f j = some r) (h' : noteDurDownPy base lb f' j = some r') : r = r' := by
  have a := noteDurDownPy_mono base lb f j r h (max f f') (Nat.le_max_left _ _)
  have b := noteDurDownPy_mono base lb f' j r' h' (max f f') (Nat.le_max_right _ _)
  rw [a] at b; exact Option.some.inj b

/-! ### `get_dotted_note_durations`, `get_velocity_bins`, `bin_velocity` -/

theorem pyPow_two (k : Nat) : pyPow (int 2) ((PyNum.int (k : Int)).add (int 1)) = .ok (powInt 2 ((k : Int) + 1)) := by
  simp [pyPow, PyNum.add]

theorem powInt_two_ne (k : Nat) : (powInt 2 ((k : Int) + 1)).toRat ≠ 0 := by
  have h : (0 : Int) ≤ (k : Int) + 1 := by omega
  simp only [powInt, h, if_true, PyNum.toRat]
  have : ((2 : Int) ^ ((k : Int) + 1).toNat) ≠ 0 := pow_ne_zero _ (by decide)
  exact_mod_cast this

/-- the value filter of one pass of `get_dotted_note_durations` -/
def dottedPass (nds : List PyNum) (it : Int) : List PyNum :=
  nds.filterMap fun nd =>
    let cand := dottedCandidatePy nd it
    if isInteger cand then some (pyint cand) else none

theorem int_toRat_ne (n : Int) (h : n ≠ 0) : (PyNum.int n).toRat ≠ 0 := by
  simp only [PyNum.toRat]; exact_mod_cast h

theorem mapM_ok {α β ε : Type} (f : α → β) (l : List α) :
    List.mapM (fun a => (Except.ok (f a) : Except ε β)) l = .ok (l.map f) := by
  induction l with
  | nil => rfl
  | cons a as ih => simp only [List.mapM_cons, ih, List.map_cons]; rfl

theorem le_int (a b : Int) : PyNum.le (.int a) (.int b) = decide (a ≤ b) := by
  simp [PyNum.le, PyNum.toRat]

theorem mono_sorted : ∀ (l : List Int), l.Pairwise (· ≤ ·) →
    ((l.map PyNum.int).zip (l.map PyNum.int).tail).all (fun p => PyNum.le p.1 p.2) = true := by
  intro l
  induction l with
  | nil => intro _; rfl
  | cons a as ih =>
    intro h
    cases as with
    | nil => rfl
    | cons b rest =>
      have hab : a ≤ b := (List.pairwise_cons.mp h).1 b (by simp)
      have := ih (List.pairwise_cons.mp h).2
      simp only [List.map_cons, List.tail_cons, List.zip_cons_cons, List.all_cons, le_int, hab, decide_true, Bool.true_and] at this ⊢
      exact this

theorem npMonotonicity_sorted (l : List Int) (h : l.Pairwise (· ≤ ·)) : npMonotonicity (l.map PyNum.int) = 1 := by
  unfold npMonotonicity
  simp only [mono_sorted l h, if_true]

theorem filter_lt_int (l : List Int) (v : Int) :
    ((l.map PyNum.int).filter fun b => PyNum.lt b (.int v)).length = (l.filter (fun b => b < v)).length := by
  induction l with
  | nil => rfl
  | cons a as ih =>
    simp only [List.map_cons, List.filter_cons, lt_int]
    by_cases h : a < v <;> simp [h, ih]

theorem toRat_add (a b : PyNum) : (PyNum.add a b).toRat = a.toRat + b.toRat := by
  cases a <;> cases b <;> simp [PyNum.add, PyNum.toRat]

theorem toRat_sub (a b : PyNum) : (PyNum.sub a b).toRat = a.toRat - b.toRat := by
  cases a <;> cases b <;> simp [PyNum.sub, PyNum.toRat]


/-! ### the hand model `findMinimalDistance` returns the FIRST closest element -/

/-- `find_minimal_distance` prefers EARLIER elements: every element before the returned index is strictly farther. -/
theorem fmdGo_first (e : Int) (l : List Int) : ∀ (pre : List Int) (best : Option (Nat × Int)),
    (match best with
      | Option.none => pre = []
      | some (j, bd) => ∃ v, pre[j]? = some v ∧ ((v - e).natAbs : Int) = bd ∧
          (∀ w ∈ pre, (v - e).natAbs ≤ (w - e).natAbs) ∧
          (∀ k, k < j → ∀ w, pre[k]? = some w → (v - e).natAbs < (w - e).natAbs)) →
    ∀ v, (pre ++ l)[fmdGo e l pre.length best]? = some v →
      ∀ k, k < fmdGo e l pre.length best → ∀ w, (pre ++ l)[k]? = some w → (v - e).natAbs < (w - e).natAbs := by
  induction l with
  | nil =>
    intro pre best hb
    match best, hb with
    | Option.none, hb => intro v _ k hk; simp [fmdGo] at hk
    | some (j, bd), ⟨v0, hv0, _, _, hfirst⟩ =>
      intro v hv k hk w hw
      simp only [fmdGo, List.append_nil] at hv hk hw
      rw [hv0] at hv; cases hv
      exact hfirst k hk w hw
  | cons c cs ih =>
    intro pre best hb
    have hlen : (pre ++ [c]).length = pre.length + 1 := by simp
    have happ : pre ++ c :: cs = (pre ++ [c]) ++ cs := by simp
    have hc : (pre ++ [c])[pre.length]? = some c := by simp
    match best, hb with
    | Option.none, hb =>
      subst hb
      simp only [fmdGo]
      split
      · intro v _ k hk; simp at hk
      · have := ih [c] (some (0, ((c - e).natAbs : Int))) ⟨c, by simp, rfl, by simp, by intro k hk; omega⟩
        simpa using this
    | some (j, bd), ⟨v0, hv0, hbd, hmin, hfirst⟩ =>
      have hj : j < pre.length := by
        rcases Nat.lt_or_ge j pre.length with h | h
        · exact h
        · rw [List.getElem?_eq_none h] at hv0; cases hv0
      simp only [fmdGo]
      split
      · rename_i hlt
        split
        · intro v hv k hk w hw
          have hvc : v = c := by have := hv; simp at this; exact this.symm
          subst hvc
          rw [List.getElem?_append_left hk] at hw
          have := hmin w (List.mem_of_getElem? hw)
          omega
        · have := ih (pre ++ [c]) (some (pre.length, ((c - e).natAbs : Int)))
            ⟨c, hc, rfl, by
              intro w hw
              rcases List.mem_append.1 hw with hw | hw
              · have := hmin w hw; omega
              · simp at hw; subst hw; omega, by
              intro k hk w hw
              rw [List.getElem?_append_left hk] at hw
              have := hmin w (List.mem_of_getElem? hw)
              omega⟩
          rw [hlen] at this
          rw [happ]
          exact this
      · rename_i hlt
        have := ih (pre ++ [c]) (some (j, bd))
          ⟨v0, by rw [List.getElem?_append_left hj]; exact hv0, hbd, by
            intro w hw
            rcases List.mem_append.1 hw with hw | hw
            · exact hmin w hw
            · simp at hw; subst hw; omega, by
            intro k hk w hw
            rw [List.getElem?_append_left (by omega)] at hw
            exact hfirst k hk w hw⟩
        rw [hlen] at this
        rw [happ]
        exact this

theorem findMinimalDistance_first (e : Int) (coll : List Int) (v : Int)
    (hv : coll[findMinimalDistance e coll]? = some v) (k : Nat) (hk : k < findMinimalDistance e coll) (w : Int)
    (hw : coll[k]? = some w) : (v - e).natAbs < (w - e).natAbs := by
  have := fmdGo_first e coll [] Option.none rfl v (by simpa [findMinimalDistance] using hv) k
    (by simpa [findMinimalDistance] using hk) w (by simpa using hw)
  exact this

end SCoda.UtilTieL
