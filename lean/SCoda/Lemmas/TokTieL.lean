/-
  Helper lemmas for Props/TokTie.lean: the functions GENERATED from `MultiTrackLargeVocabularyNotelikeTokeniser`
  by tools/py2lean_tok.py (Gen/TokFns.lean, namespace `SCoda.Gen.Tok`) against the hand models of Model/Token.lean
  and Model/Render.lean.

  Part 1: loop rules (`forIn` that never raises and never breaks is a `foldl`).
  Part 2: `_construct_dictionary`: every loop "pushes" a key (`dictionary[key] = dictionary_size; size += 1`).
-/
import SCoda.Gen.TokFns
import SCoda.Lemmas.RenderL
set_option linter.unusedSimpArgs false
set_option linter.unusedVariables false
namespace SCoda.TokTieL
open SCoda SCoda.TokLib SCoda.Gen.Tok

/-! ### Part 1: loop rules -/

theorem forIn_fold {α β ε : Type} (P : β → Prop) (g : β → α → β) (f : α → β → Except ε (ForInStep β))
    (xs : List α) (hP : ∀ b x, P b → P (g b x))
    (hf : ∀ x ∈ xs, ∀ b, P b → f x b = .ok (.yield (g b x))) :
    ∀ b, P b → forIn xs b f = .ok (xs.foldl g b) := by
  induction xs with
  | nil => intro b _; rfl
  | cons a as ih =>
    intro b hb
    rw [List.forIn_cons, hf a (by simp) b hb]
    exact ih (fun x hx => hf x (by simp [hx])) (g b a) (hP b a hb)

/-! ### Part 2: `_construct_dictionary` -/

/-- the hand-model configuration of a tokeniser object -/
def cfgOf (o : TokObj) : Cfg :=
  { ppqn := o.ppqn, numTracks := o.numTracks.toNat, pitchLo := o.pitchRange.1, pitchHi := o.pitchRange.2,
    steps := o.stepSizes, values := o.noteValues, bins := o.velocityBins,
    tsLo := o.timeSignatureRange.1, tsHi := o.timeSignatureRange.2,
    running := o.flagRunningValues, fuseTrk := o.flagFuseTrack, fuseVal := o.flagFuseValue,
    fuseVel := o.flagFuseVelocity, simplifyTs := o.flagSimplifyTimeSignature,
    defNum := Gen.defaultTimeSignatureNumerator, defDen := Gen.defaultTimeSignatureDenominator }

/-- `self.dictionary[k] = self.dictionary_size; self._dictionary_size += 1` -/
def push (o : TokObj) (k : String) : TokObj :=
  { o with dictionary := pyDictSet o.dictionary k o.dictionarySize_, dictionarySize_ := o.dictionarySize_ + 1 }

def pushAll (o : TokObj) (ks : List String) : TokObj := ks.foldl push o

theorem pushAll_nil (o : TokObj) : pushAll o [] = o := rfl
theorem pushAll_cons (o : TokObj) (k : String) (ks : List String) : pushAll o (k :: ks) = pushAll (push o k) ks := rfl
theorem pushAll_append (o : TokObj) (a b : List String) : pushAll (pushAll o a) b = pushAll o (a ++ b) := by
  simp [pushAll, List.foldl_append]

/-- what `pushAll` leaves alone -/
structure SameCfg (a b : TokObj) : Prop where
  ppqn : a.ppqn = b.ppqn
  stepSizes : a.stepSizes = b.stepSizes
  noteValues : a.noteValues = b.noteValues
  numTracks : a.numTracks = b.numTracks
  pitchRange : a.pitchRange = b.pitchRange
  timeSignatureRange : a.timeSignatureRange = b.timeSignatureRange
  flagRunningValues : a.flagRunningValues = b.flagRunningValues
  flagFuseTrack : a.flagFuseTrack = b.flagFuseTrack
  flagFuseValue : a.flagFuseValue = b.flagFuseValue
  flagFuseVelocity : a.flagFuseVelocity = b.flagFuseVelocity
  flagSimplifyTimeSignature : a.flagSimplifyTimeSignature = b.flagSimplifyTimeSignature
  velocityBins : a.velocityBins = b.velocityBins
  inverseDictionary : a.inverseDictionary = b.inverseDictionary
  curTime : a.curTime = b.curTime
  curRestBuffer : a.curRestBuffer = b.curRestBuffer

theorem sameCfg_pushAll (o : TokObj) (ks : List String) : SameCfg (pushAll o ks) o := by
  induction ks generalizing o with
  | nil => exact ⟨rfl, rfl, rfl, rfl, rfl, rfl, rfl, rfl, rfl, rfl, rfl, rfl, rfl, rfl, rfl⟩
  | cons k ks ih =>
    have h := ih (push o k)
    exact ⟨h.1, h.2, h.3, h.4, h.5, h.6, h.7, h.8, h.9, h.10, h.11, h.12, h.13, h.14, h.15⟩

@[simp] theorem pushAll_stepSizes (o ks) : (pushAll o ks).stepSizes = o.stepSizes := (sameCfg_pushAll o ks).stepSizes
@[simp] theorem pushAll_noteValues (o ks) : (pushAll o ks).noteValues = o.noteValues := (sameCfg_pushAll o ks).noteValues
@[simp] theorem pushAll_numTracks (o ks) : (pushAll o ks).numTracks = o.numTracks := (sameCfg_pushAll o ks).numTracks
@[simp] theorem pushAll_pitchRange (o ks) : (pushAll o ks).pitchRange = o.pitchRange := (sameCfg_pushAll o ks).pitchRange
@[simp] theorem pushAll_timeSignatureRange (o ks) : (pushAll o ks).timeSignatureRange = o.timeSignatureRange :=
  (sameCfg_pushAll o ks).timeSignatureRange
@[simp] theorem pushAll_flagFuseTrack (o ks) : (pushAll o ks).flagFuseTrack = o.flagFuseTrack := (sameCfg_pushAll o ks).flagFuseTrack
@[simp] theorem pushAll_flagFuseValue (o ks) : (pushAll o ks).flagFuseValue = o.flagFuseValue := (sameCfg_pushAll o ks).flagFuseValue
@[simp] theorem pushAll_flagFuseVelocity (o ks) : (pushAll o ks).flagFuseVelocity = o.flagFuseVelocity :=
  (sameCfg_pushAll o ks).flagFuseVelocity
@[simp] theorem pushAll_velocityBins (o ks) : (pushAll o ks).velocityBins = o.velocityBins := (sameCfg_pushAll o ks).velocityBins

/-- a loop whose body pushes one key per element -/
theorem forIn_push {α : Type} (key : α → String) (f : α → TokObj → Except PyErr (ForInStep TokObj))
    (hf : ∀ x b, f x b = .ok (.yield (push b (key x)))) (xs : List α) (b : TokObj) :
    forIn xs b f = .ok (pushAll b (xs.map key)) := by
  rw [forIn_fold (fun _ => True) (fun b x => push b (key x)) f xs (fun _ _ _ => trivial) (fun x _ b _ => hf x b) b trivial]
  simp [pushAll, List.foldl_map]

/-- the same for a body that only behaves on the elements of the list and on states satisfying an invariant -/
theorem forIn_push_inv {α : Type} (P : TokObj → Prop) (hP : ∀ b k, P b → P (push b k)) (key : α → String)
    (f : α → TokObj → Except PyErr (ForInStep TokObj)) (xs : List α)
    (hf : ∀ x ∈ xs, ∀ b, P b → f x b = .ok (.yield (push b (key x)))) (b : TokObj) (hb : P b) :
    forIn xs b f = .ok (pushAll b (xs.map key)) := by
  rw [forIn_fold P (fun b x => push b (key x)) f xs (fun b x h => hP b (key x) h) hf b hb]
  simp [pushAll, List.foldl_map]


theorem length_of_mem_pyProduct {α} : ∀ (ls : List (List α)) (x : List α), x ∈ pyProduct ls → x.length = ls.length
  | [], x, h => by simp [pyProduct] at h; simp [h]
  | l :: ls, x, h => by
    simp only [pyProduct, List.mem_flatMap, List.mem_map] at h
    obtain ⟨a, _, r, hr, rfl⟩ := h
    simp [length_of_mem_pyProduct ls r hr]

theorem pyPop_cons_zero {α} (a : α) (l : List α) : pyPop (a :: l) 0 = .ok (a, l) := by
  simp [pyPop]; rfl

theorem strDropRight_append_dash (s : String) : strDropRight (s ++ "-") 1 = s := by
  apply String.toList_injective
  simp [strDropRight]

theorem intercalate_one (s a : String) : s.intercalate [a] = a := by
  apply String.toList_injective; simp
theorem intercalate_four (s a b c d : String) : s.intercalate [a, b, c, d] = a ++ s ++ b ++ s ++ c ++ s ++ d := by
  apply String.toList_injective; simp

/-- the key built by the body of the product loop from one combination (mirror of notelike_tokenisation.py:485-499) -/
def noteStr (fT fV fW : Bool) (x : List Int) : String :=
  let s1 := if fT then "" ++ (prefixOf "TRACK" ++ "_" ++ zpad 2 (x.headD 0) ++ "-") else ""
  let x1 := if fT then x.tail else x
  let s2 := s1 ++ (prefixOf "PITCH" ++ "_" ++ zpad 3 (x1.headD 0) ++ "-")
  let x2 := x1.tail
  let s3 := if fV then s2 ++ (prefixOf "VALUE" ++ "_" ++ zpad 2 (x2.headD 0) ++ "-") else s2
  let x3 := if fV then x2.tail else x2
  let s4 := if fW then s3 ++ (prefixOf "VELOCITY" ++ "_" ++ zpad 3 (x3.headD 0) ++ "-") else s3
  strDropRight s4 1

/-- the popped values of a combination as the structured token -/
def noteTok (fT fV fW : Bool) (x : List Int) : Tok :=
  let x1 := if fT then x.tail else x
  let x2 := x1.tail
  let x3 := if fV then x2.tail else x2
  Tok.note (if fT then some (x.headD 0) else none) (x1.headD 0) (if fV then some (x2.headD 0) else none)
    (if fW then some (x3.headD 0) else none)

theorem noteStr_eq (fT fV fW : Bool) (x : List Int) : noteStr fT fV fW x = render (noteTok fT fV fW x) := by
  cases fT <;> cases fV <;> cases fW <;>
    simp only [noteStr, noteTok, render, if_true, if_false, Bool.false_eq_true, List.nil_append, List.append_nil,
      List.cons_append, RenderL.intercalate_two, RenderL.intercalate_three, intercalate_four, intercalate_one,
      String.empty_append, ← String.append_assoc, strDropRight_append_dash]

theorem pyRange_zero (n : Int) : pyRange 0 n = (List.range n.toNat).map (fun (i : Nat) => (i : Int)) := by
  simp [pyRange]

theorem pyRange_succ (lo hi : Int) : pyRange lo (hi + 1) = rangeInt lo hi := rfl

theorem flatMap_single {α β} (f : α → β) (l : List α) : l.flatMap (fun a => [f a]) = l.map f := by
  induction l <;> simp_all

theorem product_notes (fT fV fW : Bool) (T P V W : List Int) :
    (pyProduct ([] ++ (if fT then [T] else []) ++ [P] ++ (if fV then [V] else []) ++ (if fW then [W] else []))).map
      (noteTok fT fV fW) =
    (if fT then T.map some else [none]).flatMap fun t => P.flatMap fun p =>
      (if fV then V.map some else [none]).flatMap fun v => (if fW then W.map some else [none]).map fun w => Tok.note t p v w := by
  cases fT <;> cases fV <;> cases fW <;>
    simp [pyProduct, noteTok, List.map_flatMap, List.flatMap_map, Function.comp_def, flatMap_single]

def FlagsAre (fT fV fW : Bool) (b : TokObj) : Prop :=
  b.flagFuseTrack = fT ∧ b.flagFuseValue = fV ∧ b.flagFuseVelocity = fW

theorem flagsAre_push {fT fV fW b} (k : String) (h : FlagsAre fT fV fW b) : FlagsAre fT fV fW (push b k) := h

/-- the four literal stores at the head of `_construct_dictionary` (ids 0..3 are literals in the source) -/
def first4 (o : TokObj) : TokObj :=
  { o with
    dictionary := pyDictSet (pyDictSet (pyDictSet (pyDictSet o.dictionary (prefixOf "PAD") 0) (prefixOf "START") 1)
      (prefixOf "STOP") 2) (prefixOf "BAR") 3,
    dictionarySize_ := o.dictionarySize_ + 1 + 1 + 1 + 1 }

/-- the last statement: the inverse dictionary -/
def finish (o : TokObj) : TokObj :=
  { o with inverseDictionary := pyDictOfList (o.dictionary.map (fun p => (p.2, p.1))) }

@[simp] theorem first4_flagFuseTrack (o : TokObj) : (first4 o).flagFuseTrack = o.flagFuseTrack := rfl
@[simp] theorem first4_flagFuseValue (o : TokObj) : (first4 o).flagFuseValue = o.flagFuseValue := rfl
@[simp] theorem first4_flagFuseVelocity (o : TokObj) : (first4 o).flagFuseVelocity = o.flagFuseVelocity := rfl
@[simp] theorem first4_numTracks (o : TokObj) : (first4 o).numTracks = o.numTracks := rfl
@[simp] theorem first4_pitchRange (o : TokObj) : (first4 o).pitchRange = o.pitchRange := rfl
@[simp] theorem first4_timeSignatureRange (o : TokObj) : (first4 o).timeSignatureRange = o.timeSignatureRange := rfl
@[simp] theorem first4_stepSizes (o : TokObj) : (first4 o).stepSizes = o.stepSizes := rfl
@[simp] theorem first4_noteValues (o : TokObj) : (first4 o).noteValues = o.noteValues := rfl
@[simp] theorem first4_velocityBins (o : TokObj) : (first4 o).velocityBins = o.velocityBins := rfl

/-- the lists handed to `itertools.product` -/
def combos (o : TokObj) : List (List Int) :=
  [] ++ (if o.flagFuseTrack then [pyRange 0 o.numTracks] else []) ++ [pyRange o.pitchRange.1 (o.pitchRange.2 + 1)]
    ++ (if o.flagFuseValue then [o.noteValues] else []) ++ (if o.flagFuseVelocity then [o.velocityBins] else [])

/-- the keys stored after the first four, in order -/
def tailStrings (o : TokObj) : List String :=
  o.stepSizes.map (fun x => prefixOf "REST" ++ "_" ++ zpad 2 x)
  ++ (if o.flagFuseTrack then [] else (pyRange 0 o.numTracks).map (fun x => prefixOf "TRACK" ++ "_" ++ zpad 2 x))
  ++ (if o.flagFuseValue then [] else o.noteValues.map (fun x => prefixOf "VALUE" ++ "_" ++ zpad 2 x))
  ++ (if o.flagFuseVelocity then [] else o.velocityBins.map (fun x => prefixOf "VELOCITY" ++ "_" ++ zpad 3 x))
  ++ (pyProduct (combos o)).map (noteStr o.flagFuseTrack o.flagFuseValue o.flagFuseVelocity)
  ++ (pyRange o.timeSignatureRange.1 (o.timeSignatureRange.2 + 1)).map
      (fun x => prefixOf "TIME_SIGNATURE" ++ "_" ++ zpad 2 x ++ "_" ++ zpad 2 Gen.defaultTimeSignatureDenominator)

macro "loop_simple" : tactic =>
  `(tactic| (rw [forIn_push ?_ _ ?_]; rotate_left 2; (intro x b; rfl); simp only [bind, Except.bind]))

/-- the generated `_construct_dictionary`, loop by loop: it never raises, and stores the keys `tailStrings` after the first four -/
theorem constructDictionary_struct (o : TokObj) :
    constructDictionary o = .ok (finish (pushAll (first4 o) (tailStrings o))) := by
  obtain ⟨fT, hT⟩ : ∃ fT, o.flagFuseTrack = fT := ⟨_, rfl⟩
  obtain ⟨fV, hV⟩ : ∃ fV, o.flagFuseValue = fV := ⟨_, rfl⟩
  obtain ⟨fW, hW⟩ : ∃ fW, o.flagFuseVelocity = fW := ⟨_, rfl⟩
  unfold constructDictionary
  simp only []
  simp only [← first4.eq_1]
  loop_simple
  simp only [pushAll_flagFuseTrack, pushAll_flagFuseValue, pushAll_flagFuseVelocity, first4_flagFuseTrack,
    first4_flagFuseValue, first4_flagFuseVelocity, hT, hV, hW]
  rcases Bool.eq_false_or_eq_true fT with eT | eT <;> rcases Bool.eq_false_or_eq_true fV with eV | eV <;>
    rcases Bool.eq_false_or_eq_true fW with eW | eW <;>
    simp only [eT, eV, eW, if_true, if_false, Bool.false_eq_true] <;>
    (repeat (loop_simple; try simp only [pushAll_flagFuseTrack, pushAll_flagFuseValue, pushAll_flagFuseVelocity,
      first4_flagFuseTrack, first4_flagFuseValue, first4_flagFuseVelocity, hT, hV, hW, eT, eV, eW, if_true, if_false,
      Bool.false_eq_true]))
  all_goals
    rw [forIn_push_inv (FlagsAre fT fV fW) (fun b k h => flagsAre_push k h) (noteStr fT fV fW)]
    rotate_left
    · intro x hx b hb
      have hl := length_of_mem_pyProduct _ _ hx
      obtain ⟨h1, h2, h3⟩ := hb
      have c1 : (b.flagFuseTrack = true) = (fT = true) := by rw [h1]
      have c2 : (b.flagFuseValue = true) = (fV = true) := by rw [h2]
      have c3 : (b.flagFuseVelocity = true) = (fW = true) := by rw [h3]
      simp only [c1, c2, c3, eT, eV, eW, if_true, if_false, Bool.false_eq_true]
      rcases x with _ | ⟨a, _ | ⟨b', _ | ⟨c, _ | ⟨e, _ | _⟩⟩⟩⟩ <;> simp at hl <;>
        (simp only [pyPop_cons_zero, Gen.Tok.dictionarySize, bind, Except.bind, pure, Except.pure]; rfl)
    · exact ⟨by simp [hT], by simp [hV], by simp [hW]⟩
    simp only [bind, Except.bind]
    loop_simple
    simp only [pushAll_append, pushAll_numTracks, pushAll_pitchRange, pushAll_noteValues, pushAll_velocityBins,
      pushAll_timeSignatureRange, first4_numTracks, first4_pitchRange, first4_noteValues, first4_velocityBins,
      first4_timeSignatureRange, first4_stepSizes, pure, Except.pure, tailStrings, combos, finish, hT, hV, hW, eT, eV, eW,
      if_true, if_false, Bool.false_eq_true, List.append_nil, List.nil_append, List.append_assoc]

theorem tailStrings_eq (o : TokObj) : tailStrings o = ((vocabSeq (cfgOf o)).drop 4).map render := by
  obtain ⟨d, inv, n, ppqn, steps, vals, nt, pr, tsr, fr, fT, fV, fW, fs, bins, ct, crb⟩ := o
  have hp := product_notes fT fV fW (pyRange 0 nt) (pyRange pr.1 (pr.2 + 1)) vals bins
  rw [Vocab.vocabSeq_eq]
  simp only [List.append_assoc, List.cons_append, List.nil_append, List.drop_succ_cons, List.drop_zero, List.map_append]
  simp only [tailStrings, combos]
  rw [show noteStr fT fV fW = render ∘ noteTok fT fV fW from funext (noteStr_eq _ _ _), ← List.map_map, hp]
  simp only [List.append_assoc, Vocab.notes, Vocab.trkOpts, Vocab.valOpts, Vocab.velOpts, Vocab.trkSingles,
    Vocab.valSingles, Vocab.velSingles, Vocab.sigs, Vocab.tracks, cfgOf, pyRange_zero, pyRange_succ, List.map_map]
  cases fT <;> cases fV <;> cases fW <;> simp [render, Function.comp_def]

theorem first4_fresh (o : TokObj) (h0 : o.dictionarySize_ = 0) :
    first4 o = pushAll o ([Tok.pad, .sta, .sto, .bar].map render) := by
  simp [pushAll, push, first4, render, h0]

/-- `d[k₀] = n; d[k₁] = n + 1; …` -/
def setAll (d : List (String × Int)) (n : Int) : List String → List (String × Int)
  | [] => d
  | k :: ks => setAll (pyDictSet d k n) (n + 1) ks

theorem pushAll_dictionary (o : TokObj) (ks : List String) :
    (pushAll o ks).dictionary = setAll o.dictionary o.dictionarySize_ ks := by
  induction ks generalizing o with
  | nil => rfl
  | cons k ks ih => rw [pushAll_cons, ih]; rfl

theorem pushAll_size (o : TokObj) (ks : List String) :
    (pushAll o ks).dictionarySize_ = o.dictionarySize_ + ks.length := by
  induction ks generalizing o with
  | nil => simp [pushAll]
  | cons k ks ih => rw [pushAll_cons, ih]; simp [push]; omega

theorem cfgOf_pushAll (o : TokObj) (ks : List String) : cfgOf (pushAll o ks) = cfgOf o := by
  have h := sameCfg_pushAll o ks
  simp [cfgOf, h.ppqn, h.flagRunningValues, h.flagSimplifyTimeSignature]

theorem constructDictionary_fresh (o : TokObj) (h0 : o.dictionarySize_ = 0) :
    constructDictionary o = .ok (finish (pushAll o ((vocabSeq (cfgOf o)).map render))) := by
  rw [constructDictionary_struct, first4_fresh o h0, pushAll_append, tailStrings_eq, ← List.map_append]
  congr 4

/-- the object `__init__` has built when it calls `_construct_dictionary`: defaults filled in, step sizes and note values
    sorted WITHOUT DUPLICATES (`sorted(set(…))`, the repair of finding D31; before it: `.sort()`, `pySortInt`) -/
def initObj (ppqn : Option Int) (numTracks : Int) (pitchRange : Int × Int) (stepSizes noteValues : Option (List Int))
    (bins : List Int) (tsRange : Int × Int) (running fuseTrk fuseVal fuseVel simplify : Bool) : TokObj :=
  { dictionary := [], inverseDictionary := [], dictionarySize_ := 0, ppqn := ppqn.getD Gen.ppqn,
    stepSizes := pySortedInt (pySetInt (stepSizes.getD Gen.defaultStepSizesShift1)),
    noteValues := pySortedInt (pySetInt (noteValues.getD Gen.defaultNoteValues)), numTracks := numTracks, pitchRange := pitchRange,
    timeSignatureRange := tsRange, flagRunningValues := running, flagFuseTrack := fuseTrk, flagFuseValue := fuseVal,
    flagFuseVelocity := fuseVel, flagSimplifyTimeSignature := simplify, velocityBins := bins, curTime := none,
    curRestBuffer := none }

theorem tokInit_eq (ppqn : Option Int) (numTracks : Int) (pitchRange : Int × Int) (stepSizes noteValues : Option (List Int))
    (vb : Int) (tsRange : Int × Int) (running fuseTrk fuseVal fuseVel simplify : Bool) :
    tokInit ppqn numTracks pitchRange stepSizes noteValues vb tsRange running fuseTrk fuseVal fuseVel simplify =
      match linkVelocityBinsFn vb with
      | .error e => .error e
      | .ok bins =>
        let o := initObj ppqn numTracks pitchRange stepSizes noteValues bins tsRange running fuseTrk fuseVal fuseVel simplify
        .ok (finish (pushAll o ((vocabSeq (cfgOf o)).map render))) := by
  unfold tokInit
  cases hb : linkVelocityBinsFn vb with
  | error e => rfl
  | ok bins =>
    simp only [bind, Except.bind, pure, Except.pure]
    rw [constructDictionary_fresh _ rfl]
    cases ppqn <;> cases stepSizes <;> cases noteValues <;> rfl

/-! ### Part 3: `tokenise` -/

/-- model errors as Python exceptions -/
def ofErr : Err → PyErr
  | .tokenisationError => .tokenisationException
  | .indexError => .indexError
  | .keyError => .keyError
  | .valueError => .valueError
  | .fuel => .fuel
  | _ => .outOfSubset

def liftE {α β} (f : α → β) : Except Err α → Except PyErr β
  | .ok a => .ok (f a)
  | .error e => .error (ofErr e)

abbrev RSt := List String × Int × Int × Int × Int × Int

/-- one iteration of the `while` loop of `_apply_rest` on the state (tokens, cur_time, cur_time_bar, remaining, buf_rest, nxt_rest) -/
def restStep (steps : List Int) (capTotal : Int) (st : RSt) : Except PyErr (ForInStep RSt) :=
  if !(decide (st.2.2.2.2.1 > 0)) then .ok (.done st) else
  match pyItem steps (-1) with
  | .error e => .error e
  | .ok last =>
    if !(decide (st.2.2.2.2.2 > last) || steps.any (fun s => decide (st.2.2.2.2.2 ≥ s))) then .error .tokenisationException else
    match (if decide (st.2.2.2.2.2 > last) then .ok last
           else pyNextM (fun s => pure (decide (st.2.2.2.2.2 ≥ s))) steps.reverse) with
    | .error e => .error e
    | .ok v =>
      if st.2.2.2.1 - v == 0 then
        .ok (.yield (st.1 ++ [prefixOf "REST" ++ "_" ++ zpad 2 v] ++ [prefixOf "BAR"], st.2.1 + v, 0, capTotal,
          st.2.2.2.2.1 - v, min (st.2.2.2.2.1 - v) capTotal))
      else
        .ok (.yield (st.1 ++ [prefixOf "REST" ++ "_" ++ zpad 2 v], st.2.1 + v, st.2.2.1 + v, st.2.2.2.1 - v,
          st.2.2.2.2.1 - v, min (st.2.2.2.2.1 - v) (st.2.2.2.1 - v)))

def restPost (st : RSt) : Except PyErr (List String × Int × Int × Int) :=
  if decide (st.2.2.2.2.1 > 0) then .error .fuel else .ok (st.1, st.2.1, st.2.2.1, st.2.2.2.1)

theorem tokeniseApplyRest_eq (o : TokObj) (capTotal : Int) (toks : List String) (cur bar rem rest : Int) :
    tokeniseApplyRest o true capTotal toks cur bar rem rest =
      (forIn (List.replicate ((rest - 0).toNat + 1) ()) ((toks, cur, bar, rem, rest, min rest rem) : RSt)
        (fun _ st => restStep o.stepSizes capTotal st)) >>= restPost := by
  unfold tokeniseApplyRest
  simp only []
  congr 1
  · congr 1
    funext x st
    unfold restStep
    by_cases hb : st.2.2.2.2.1 > 0
    · simp only [hb, decide_true, Bool.not_true, Bool.false_eq_true, if_false]
      cases hl : pyItem o.stepSizes (-1) with
      | error e => rfl
      | ok last =>
        simp only [bind, Except.bind, raiseIf]
        rcases Bool.eq_false_or_eq_true (!(decide (st.2.2.2.2.2 > last) || o.stepSizes.any fun s => decide (st.2.2.2.2.2 ≥ s)))
          with hc | hc
        · simp only [hc, if_true]; rfl
        · simp only [hc, Bool.false_eq_true, if_false, pure, Except.pure, hl]
          by_cases hn : st.2.2.2.2.2 > last
          · simp only [hn, decide_true, if_true]
            by_cases hz : (st.2.2.2.1 - last == 0) = true <;> simp [hz]
          · simp only [hn, decide_false, Bool.false_eq_true, if_false]
            cases pyNextM (fun s => Except.ok (decide (st.2.2.2.2.2 ≥ s))) o.stepSizes.reverse with
            | error e => rfl
            | ok v =>
              simp only []
              by_cases hz : (st.2.2.2.1 - v == 0) = true <;> simp [hz]
    · simp only [hb, decide_false, Bool.not_false, if_true]
      rfl
  · funext st
    unfold restPost raiseIf
    split <;> rfl

theorem pyItem_neg_one {α : Type} (l : List α) :
    pyItem l (-1) = match l.getLast? with | some x => .ok x | none => .error .indexError := by
  unfold pyItem
  cases h : l.getLast? with
  | none =>
    have : l = [] := by simpa using h
    subst this; simp; rfl
  | some x =>
    have hne : l ≠ [] := by intro h0; subst h0; simp at h
    have hlen : 0 < l.length := List.length_pos_iff.mpr hne
    have h1 : ((-1 : Int) + (l.length : Int)).toNat = l.length - 1 := by omega
    have h2 : ¬ ((-1 : Int) + (l.length : Int) < 0) := by omega
    simp only [show ((-1 : Int) < 0) from by decide, if_true, h2, if_false, h1]
    rw [List.getLast?_eq_getElem?] at h
    rw [h]; rfl

theorem pyNextM_pure {α} (p : α → Bool) (l : List α) :
    pyNextM (fun x => pure (p x)) l = match l.find? p with | some x => .ok x | none => .error .stopIteration := by
  induction l with
  | nil => rfl
  | cons a as ih =>
    simp only [pyNextM, pure, Except.pure, List.find?_cons]
    cases hp : p a
    · simp only [Bool.false_eq_true, if_false]; exact ih
    · simp

theorem largestLe_go (steps : List Int) (n : Int) (init : Option Int) :
    steps.foldl (fun best s => if n >= s then some s else best) init =
      (steps.reverse.find? (fun s => decide (n ≥ s))).or init := by
  induction steps generalizing init with
  | nil => simp
  | cons a l ih =>
    rw [List.foldl_cons, ih, List.reverse_cons, List.find?_append]
    cases l.reverse.find? (fun s => decide (n ≥ s)) with
    | some v => simp
    | none =>
      by_cases h : n ≥ a <;> simp [h]

theorem largestLe_eq_find (steps : List Int) (n : Int) :
    largestLe steps n = steps.reverse.find? (fun s => decide (n ≥ s)) := by
  unfold largestLe
  rw [largestLe_go]; simp

theorem find_isSome_of_any (l : List Int) (p : Int → Bool) (h : l.any p = true) : ∃ v, l.reverse.find? p = some v := by
  have : (l.reverse.find? p).isSome = true := by
    rw [List.find?_isSome]
    simp only [List.any_eq_true] at h
    obtain ⟨x, hx, hp⟩ := h
    exact ⟨x, by simpa using hx, hp⟩
  exact Option.isSome_iff_exists.mp this

def rstOf (acc : List Tok) (cur bar rem buf : Int) : RSt := (acc.reverse.map render, cur, bar, rem, buf, min buf rem)
def restOut (r : (Int × Int × Int) × List Tok) : List String × Int × Int × Int :=
  (r.2.reverse.map render, r.1.1, r.1.2.1, r.1.2.2)

theorem restLoop_eq (c : Cfg) (capTotal : Int) : ∀ (fuel : Nat) (acc : List Tok) (cur bar rem buf : Int),
    (forIn (List.replicate fuel ()) (rstOf acc cur bar rem buf) (fun _ st => restStep c.steps capTotal st) >>= restPost)
      = liftE restOut (applyRest c capTotal fuel buf (cur, bar, rem) acc) := by
  intro fuel
  induction fuel with
  | zero =>
    intro acc cur bar rem buf
    simp only [List.replicate_zero, List.forIn_nil, pure_bind, restPost, rstOf, applyRest]
    by_cases hb : buf > 0 <;> simp [hb, liftE, restOut, ofErr]
  | succ fuel ih =>
    intro acc cur bar rem buf
    rw [List.replicate_succ, List.forIn_cons]
    unfold applyRest
    by_cases hb : buf > 0
    · simp only [hb, if_true]
      cases hl : c.steps.getLast? with
      | none =>
        have hs : restStep c.steps capTotal (rstOf acc cur bar rem buf) = .error .indexError := by
          unfold restStep; simp [rstOf, hb, pyItem_neg_one, hl]
        rw [hs]; rfl
      | some last =>
        simp only []
        by_cases hchk : (decide (min buf rem > last) || c.steps.any fun s => decide (min buf rem ≥ s)) = true
        · simp only [hchk, Bool.not_true, Bool.false_eq_true, if_false]
          have key : ∀ v, (if min buf rem > last then some last else largestLe c.steps (min buf rem)) = some v →
              restStep c.steps capTotal (rstOf acc cur bar rem buf) =
                if rem - v == 0 then .ok (.yield (rstOf (Tok.bar :: Tok.rest v :: acc) (cur + v) 0 capTotal (buf - v)))
                else .ok (.yield (rstOf (Tok.rest v :: acc) (cur + v) (bar + v) (rem - v) (buf - v))) := by
            intro v hv
            unfold restStep
            simp only [rstOf, hb, decide_true, Bool.not_true, Bool.false_eq_true, if_false, pyItem_neg_one, hl, hchk]
            by_cases hn : min buf rem > last
            · simp only [hn, if_true, Option.some.injEq] at hv
              subst hv
              simp only [hn, decide_true, if_true, Bool.true_or, Bool.not_true, Bool.false_eq_true, if_false]
              split <;> simp_all [render]
            · simp only [hn, if_false, largestLe_eq_find] at hv
              have hany : (c.steps.any fun s => decide (min buf rem ≥ s)) = true := by simpa [hn] using hchk
              simp only [hn, decide_false, Bool.false_eq_true, if_false, pyNextM_pure, hv, Bool.false_or]
              split
              · rename_i hcontra; simp [hany] at hcontra
              · split <;> simp_all [render]
          have hsome : ∃ v, (if min buf rem > last then some last else largestLe c.steps (min buf rem)) = some v := by
            by_cases hn : min buf rem > last
            · exact ⟨last, by simp [hn]⟩
            · have hany : (c.steps.any fun s => decide (min buf rem ≥ s)) = true := by simpa [hn] using hchk
              obtain ⟨v, hv⟩ := find_isSome_of_any _ _ hany
              exact ⟨v, by simp [hn, largestLe_eq_find, hv]⟩
          obtain ⟨v, hv⟩ := hsome
          rw [key v hv, hv]
          simp only []
          by_cases hz : rem - v = 0
          · have hz' : (rem - v == 0) = true := by simp [hz]
            simp only [hz', if_true, bind, Except.bind]
            have := ih (Tok.bar :: Tok.rest v :: acc) (cur + v) 0 capTotal (buf - v)
            simpa only [bind, Except.bind] using this
          · have hz' : (rem - v == 0) = false := by simp [hz]
            simp only [hz', Bool.false_eq_true, if_false, bind, Except.bind]
            have := ih (Tok.rest v :: acc) (cur + v) (bar + v) (rem - v) (buf - v)
            simpa only [bind, Except.bind] using this
        · have hchk' : (decide (min buf rem > last) || c.steps.any fun s => decide (min buf rem ≥ s)) = false := by
            simpa using hchk
          have hs : restStep c.steps capTotal (rstOf acc cur bar rem buf) = .error .tokenisationException := by
            unfold restStep; simp [rstOf, hb, pyItem_neg_one, hl, hchk']
          rw [hs]; simp [hchk', liftE, ofErr]; rfl
    · simp only [hb, if_false]
      have hs : restStep c.steps capTotal (rstOf acc cur bar rem buf) = .ok (.done (rstOf acc cur bar rem buf)) := by
        unfold restStep; simp [rstOf, hb]
      rw [hs]
      simp [rstOf, hb, restPost, liftE, restOut, bind, Except.bind, pure, Except.pure]

/-- the generated `_apply_rest` (with `insert_bar_token = True`) is the hand model `applyRest`, for all inputs -/
theorem tokeniseApplyRest_hand (o : TokObj) (capTotal : Int) (acc : List Tok) (cur bar rem rest : Int) :
    tokeniseApplyRest o true capTotal (acc.reverse.map render) cur bar rem rest =
      liftE restOut (applyRest (cfgOf o) capTotal (rest.toNat + 1) rest (cur, bar, rem) acc) := by
  rw [tokeniseApplyRest_eq, Int.sub_zero]
  exact restLoop_eq (cfgOf o) capTotal _ acc cur bar rem rest

end SCoda.TokTieL
