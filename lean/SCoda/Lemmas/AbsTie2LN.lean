/-
  Helper lemmas for `quantise_note_lengths` (Props/AbsTie2.lean): the generated `quantiseNoteLengths` (pairings, stores through
  `message_pairing[1].time += …`, `note_occurrences`, `list.index`, `list.remove`) against the hand model of Model/Quantise.lean.
-/
import SCoda.Lemmas.AbsTie2LQ
import SCoda.Lemmas.AbsTie2LC
namespace SCoda.AbsTie2L
open SCoda SCoda.Gen.Abs2

/-! ### `list.remove` and the two filtering loops of `quantise_note_lengths` -/

theorem removeFirst_eq_erase (x : Int) (l : List Int) : removeFirst x l = l.erase x := by
  induction l with
  | nil => rfl
  | cons y ys ih =>
    simp only [removeFirst, List.erase_cons]
    by_cases h : y = x
    · simp [h]
    · have : (y == x) = false := by simpa using h
      simp [this, ih]

theorem pyRemove_mem (l : List Int) (x : Int) (h : x ∈ l) : pyRemove l x = .ok (removeFirst x l) := by
  induction l with
  | nil => simp at h
  | cons y ys ih =>
    simp only [pyRemove, removeFirst]
    by_cases hy : y = x
    · simp [hy]; rfl
    · have hy' : (y == x) = false := by simpa using hy
      have hx : x ∈ ys := by
        rcases List.mem_cons.1 h with e | h
        · exact absurd e.symm hy
        · exact h
      simp only [hy, if_false, hy', Bool.false_eq_true, ih hx]
      rfl

/-- first loop (`valid_durations.remove(note_value)` without a guard): it never raises because `valid_durations` starts as a copy of
    `note_values` and every value is removed at most as often as it occurs -/
theorem remove_loop (c : Int → Bool) : ∀ (rest v : List Int), (∀ x, rest.count x ≤ v.count x) →
    forIn rest v (fun (nv : Int) (v : List Int) =>
      (if c nv = true then (do let r ← pyRemove v nv; pure (ForInStep.yield r)) else pure (ForInStep.yield v) : Except PyErr (ForInStep (List Int))))
      = .ok (rest.foldl (fun v x => if c x then removeFirst x v else v) v) := by
  intro rest
  induction rest with
  | nil => intro v _; rfl
  | cons x xs ih =>
    intro v hcount
    rw [List.forIn_cons]
    simp only [List.foldl_cons]
    have hxv : x ∈ v := by
      have := hcount x
      simp only [List.count_cons_self] at this
      exact List.count_pos_iff.1 (by omega)
    by_cases hc : c x = true
    · simp only [hc, if_true, pyRemove_mem v x hxv, ViewTieL.ok_bind]
      apply ih
      intro y
      rw [removeFirst_eq_erase, List.count_erase]
      have := hcount y
      rw [List.count_cons] at this
      by_cases hyx : x = y
      · subst hyx; simp at this ⊢; omega
      · have h1 : (x == y) = false := by simpa using hyx
        have h2 : (y == x) = false := by simpa using (fun e => hyx e.symm)
        simp only [h1, Bool.false_eq_true, if_false] at this ⊢
        omega
    · have hc' : c x = false := by simpa using hc
      simp only [hc', Bool.false_eq_true, if_false, ViewTieL.ok_bind, ViewTieL.pure_eq_ok]
      apply ih
      intro y
      have := hcount y
      rw [List.count_cons] at this
      omega

/-- second loop (guarded by `note_value in valid_durations`) -/
theorem remove_loop_guarded (c : Int → Bool) : ∀ (rest v : List Int),
    forIn rest v (fun (nv : Int) (v : List Int) =>
      (if (c nv && v.contains nv) = true then (do let r ← pyRemove v nv; pure (ForInStep.yield r)) else pure (ForInStep.yield v) : Except PyErr (ForInStep (List Int))))
      = .ok (rest.foldl (fun v x => if c x && v.contains x then removeFirst x v else v) v) := by
  intro rest
  induction rest with
  | nil => intro v; rfl
  | cons x xs ih =>
    intro v
    rw [List.forIn_cons]
    simp only [List.foldl_cons]
    by_cases hc : (c x && v.contains x) = true
    · have hxv : x ∈ v := by
        simp only [Bool.and_eq_true, List.contains_eq_mem, decide_eq_true_eq] at hc; exact hc.2
      simp only [hc, if_true, pyRemove_mem v x hxv, ViewTieL.ok_bind]
      exact ih _
    · have hc' : (c x && v.contains x) = false := by simpa using hc
      simp only [hc', Bool.false_eq_true, if_false, ViewTieL.ok_bind, ViewTieL.pure_eq_ok]
      exact ih _

/-! ### `note_occurrences` -/

/-- pitch of the head of a pairing of references -/
def headNote (h : Heap) (p : List Nat) : Int := (hGet h (p.headD 0)).note

/-- one step of the loop that builds `note_occurrences` -/
def noStep (h : Heap) (no : Assoc Int (List (List Nat))) (p : List Nat) : Assoc Int (List (List Nat)) :=
  (dictSetDefault no (headNote h p) []).set (headNote h p) (((dictSetDefault no (headNote h p) []).get? (headNote h p)).getD [] ++ [p])

theorem noStep_get (h : Heap) (no : Assoc Int (List (List Nat))) (p : List Nat) (n : Int) :
    (noStep h no p).get? n = if headNote h p = n then some ((no.get? n).getD [] ++ [p]) else no.get? n := by
  unfold noStep
  rw [GluePair.get?_set]
  by_cases hn : headNote h p = n
  · subst hn
    simp only [if_true, get?_setDefault]
    cases no.get? (headNote h p) <;> simp
  · simp only [hn, if_false, get?_setDefault]

theorem noFold_get (h : Heap) (n : Int) : ∀ (row : List (List Nat)) (no : Assoc Int (List (List Nat))),
    (row.foldl (noStep h) no).get? n
      = if row.filter (fun p => headNote h p == n) = [] then no.get? n
        else some ((no.get? n).getD [] ++ row.filter (fun p => headNote h p == n)) := by
  intro row
  induction row with
  | nil => intro no; simp
  | cons p ps ih =>
    intro no
    simp only [List.foldl_cons, ih, noStep_get, List.filter_cons]
    by_cases hn : headNote h p = n
    · have hb : (headNote h p == n) = true := by simpa using hn
      simp only [hn, if_true, hb, Option.getD_some, List.append_assoc, List.cons_append, List.nil_append]
      split
      · rename_i he; simp [he]
      · simp
    · have hb : (headNote h p == n) = false := by simpa using hn
      simp only [hn, if_false, hb, Bool.false_eq_true]

/-! ### `note_occurrences[note].index(message_pairing)` and the next pairing of the same pitch -/

theorem pyIndexGo_append {α : Type} [DecidableEq α] (x : α) : ∀ (A B : List α) (i : Int), x ∉ A →
    pyIndexGo (A ++ x :: B) x i = .ok (i + (A.length : Int)) := by
  intro A
  induction A with
  | nil => intro B i _; simp [pyIndexGo]; rfl
  | cons a as ih =>
    intro B i hx
    have ha : ¬ a = x := fun e => hx (by simp [e])
    simp only [List.cons_append, pyIndexGo, ha, if_false]
    rw [ih B (i + 1) (fun h => hx (by simp [h]))]
    congr 1
    simp only [List.length_cons]
    omega

theorem head?_filter {α : Type} (P : α → Bool) : ∀ (l : List α), (l.filter P).head? = l.find? P := by
  intro l
  induction l with
  | nil => rfl
  | cons x xs ih =>
    simp only [List.filter_cons, List.find?_cons]
    cases P x <;> simp [ih]

theorem filter_split {α : Type} (P : α → Bool) (row : List α) (k : Nat) (hk : k < row.length) (hP : P row[k] = true) :
    row.filter P = (row.take k).filter P ++ row[k] :: (row.drop (k + 1)).filter P := by
  have : row = row.take k ++ row[k] :: row.drop (k + 1) := by
    rw [← List.drop_eq_getElem_cons hk, List.take_append_drop]
  have h2 : (row.take k ++ row[k] :: row.drop (k + 1)).filter P = (row.take k).filter P ++ row[k] :: (row.drop (k + 1)).filter P := by
    rw [List.filter_append, List.filter_cons, hP]; rfl
  rw [← h2, ← this]

/-- position of the `k`-th pairing among the pairings of its pitch, and the one after it -/
theorem index_next {α : Type} [DecidableEq α] (P : α → Bool) (row : List α) (hnd : row.Nodup) (k : Nat) (hk : k < row.length)
    (hP : P row[k] = true) :
    pyIndex (row.filter P) row[k] = .ok ((((row.take k).filter P).length : Nat) : Int) ∧
    (row.filter P)[((row.take k).filter P).length + 1]? = (row.drop (k + 1)).find? P ∧
    (row.filter P).length = ((row.take k).filter P).length + 1 + ((row.drop (k + 1)).filter P).length := by
  have hsplit := filter_split P row k hk hP
  have hnot : row[k] ∉ (row.take k).filter P := by
    intro hm
    have hm' : row[k] ∈ row.take k := (List.mem_filter.1 hm).1
    obtain ⟨j, hj, hje⟩ := List.getElem_of_mem hm'
    have hjk : j < k := by simp at hj; omega
    rw [List.getElem_take] at hje
    have hjl : j < row.length := by omega
    have := (List.pairwise_iff_getElem.1 hnd) j k hjl hk hjk
    exact this hje
  refine ⟨?_, ?_, ?_⟩
  · rw [pyIndex, hsplit, pyIndexGo_append _ _ _ _ hnot]; simp
  · rw [hsplit, List.getElem?_append_right (by omega)]
    have : ((row.take k).filter P).length + 1 - ((row.take k).filter P).length = 1 := by omega
    rw [this, List.getElem?_cons_succ, ← head?_filter]
    cases (row.drop (k + 1)).filter P <;> rfl
  · rw [hsplit]; simp; omega

/-! ### the model's `qnlChannel` as a `foldlM'` -/

theorem foldl_except_error {α β : Type} (f : β → α → Except Err β) (e : Err) : ∀ (l : List α),
    l.foldl (fun acc x => do let o ← acc; f o x) (.error e) = .error e := by
  intro l
  induction l with
  | nil => rfl
  | cons x xs ih => simp only [List.foldl_cons]; exact ih

theorem foldl_except_eq {α β : Type} (f : β → α → Except Err β) : ∀ (l : List α) (i : β),
    l.foldl (fun acc x => do let o ← acc; f o x) (.ok i) = foldlM' f i l := by
  intro l
  induction l with
  | nil => intro i; rfl
  | cons x xs ih =>
    intro i
    simp only [List.foldl_cons, foldlM']
    cases hf : f i x with
    | ok b =>
      have : (do let o ← (Except.ok i : Except Err β); f o x) = .ok b := hf
      rw [this]; exact ih b
    | error e =>
      have : (do let o ← (Except.ok i : Except Err β); f o x) = .error e := hf
      rw [this]; exact foldl_except_error f e xs

/-- one pairing of the model's `qnlChannel` -/
def qnlStep (values : List Int) (dne : Bool) (ps : List Pairing) (out : List Pairing) (pi : Pairing × Nat) : Except Err (List Pairing) :=
  match pi.1 with
  | [on, off] =>
    let valid := validDurations values dne on.time off.time (nextOnset ps pi.2 on.note)
    if valid.length == 0 then .ok (out ++ [[]])
    else
      match nearest (off.time - on.time) valid with
      | .ok best => .ok (out ++ [[on, { off with time := off.time + (best - (off.time - on.time)) }]])
      | .error e => .error e
  | _ => .error .indexError

theorem qnlChannel_fold (values : List Int) (dne : Bool) (ps : List Pairing) :
    qnlChannel values dne ps = foldlM' (qnlStep values dne ps) [] ps.zipIdx := by
  unfold qnlChannel
  rw [← foldl_except_eq]
  congr 1
  funext acc pi
  cases acc with
  | error e => rfl
  | ok out =>
    show _ = qnlStep values dne ps out pi
    unfold qnlStep
    obtain ⟨p, i⟩ := pi
    simp only [ViewTieL.ok_bind]
    match p with
    | [] => rfl
    | [_] => rfl
    | _ :: _ :: _ :: _ => rfl
    | [on, off] =>
      simp only
      split
      · rfl
      · cases nearest (off.time - on.time) (validDurations values dne on.time off.time (nextOnset ps i on.note)) <;> rfl

/-! ### what `quantise_note_lengths` needs to know about the pairings -/

/-- after `get_message_pairings()` (defaults) every pairing is a pair, and no reference occurs twice -/
theorem gmpR_facts (h0 : Heap) (refs : List Nat) (std : Int) (hrefs : ∀ r ∈ refs, r < h0.length) (hnd : refs.Nodup) :
    (∀ p ∈ (gmpR h0 refs T2 std true).2.flatMap (·.2), ∃ a b, p = [a, b]) ∧
    ((gmpR h0 refs T2 std true).2.flatMap (·.2)).flatten.Nodup := by
  have hSnd : (sortRefs h0 refs).Nodup := ((isort_perm _ refs).nodup_iff).2 hnd
  have hSlt : ∀ x ∈ sortRefs h0 refs, x < h0.length := fun x hx => hrefs x ((mem_isort _ _ _).1 hx)
  generalize hS : sortRefs h0 refs = S at hSnd hSlt
  have hC := cinv_fold h0 S [] (h0, [], []) (cinv_nil h0) (by simpa using hSnd) (by simpa using hSlt)
  have hK := knmp_fold T2 true S (h0, [], []) List.Pairwise.nil
  simp only [List.nil_append] at hC
  unfold gmpR
  rw [hS]
  generalize S.foldl (stepR T2 true) (h0, [], []) = s1 at hC hK
  obtain ⟨h1, mp1, om1⟩ := s1
  obtain ⟨hidx, href⟩ := hC
  simp only at hidx href hK ⊢
  obtain ⟨x1, hx1⟩ := href.ext
  have hshape : ∀ ch, RowOk h1 h1.length (rowOf mp1 ch) := by
    intro ch p hp
    obtain ⟨i, hi⟩ := List.getElem?_of_mem hp
    refine ⟨?_, fun x hx => (href.c5 x (mem_allRefs_of_row mp1 ch p x hp hx)).2⟩
    rcases hidx.c3 ch i p hi with ⟨a, rfl, _, hog, _⟩ | h
    · left
      obtain ⟨_, hty, hda, _⟩ := hidx.c2 _ _ a (by simpa [Msg.nkey] using hog)
      refine ⟨a, rfl, ?_⟩
      rw [hx1, hGet_append_lt _ _ _ (hSlt a hda)]; exact hty
    · right; exact h
  obtain ⟨_, hF2, hF3, _⟩ := closeAll_facts std h1 mp1 hK hshape href.c4 (fun x hx => (href.c5 x hx).2)
  refine ⟨fun p hp => ?_, hF3⟩
  obtain ⟨a, b, e, _⟩ := hF2 p hp
  exact ⟨a, b, e⟩

/-! ### the simulation: generated `quantiseNoteLengths` against the model, pairing by pairing -/

/-- the model's per-channel step of `quantiseNoteLengths`, on a row of references read through `h1` -/
def qnlRowM (values : List Int) (dne : Bool) (h1 : Heap) (acc : List Msg) (row : List (List Nat)) : Except Err (List Msg) :=
  match qnlChannel values dne (row.map (deref h1)) with
  | .ok ps => .ok (acc ++ ps.flatten)
  | .error e => .error e

/-- relation between the outer loop state (heap, quantised_messages) and the model's collected notes -/
structure NRel (h1 : Heap) (pre : List (List (List Nat))) (b : Heap × List Nat) (acc : List Msg) : Prop where
  out : deref b.1 b.2 = acc
  len : b.1.length = h1.length
  un : ∀ r, (∀ row ∈ pre, ∀ p ∈ row, p[1]? ≠ some r) → hGet b.1 r = hGet h1 r
  qr : ∀ r ∈ b.2, ∃ row ∈ pre, ∃ p ∈ row, r ∈ p
  ty : ∀ r, (hGet b.1 r).ty = (hGet h1 r).ty ∧ (hGet b.1 r).note = (hGet h1 r).note

/-- what one iteration has to deliver, given the model's step result `M` -/
def StepPost {β γ : Type} (M : Except Err γ) (Rel : β → γ → Prop) (x : Except PyErr (ForInStep β)) : Prop :=
  match M with
  | .ok c' => ∃ b', x = .ok (.yield b') ∧ Rel b' c'
  | .error e => x = .error (errMapL e)

/-- `forIn_relE_bind` with the step obligation phrased through `StepPost` -/
theorem forIn_relE_bind' {α β γ δ : Type} (R : List α → β → γ → Prop) (g : γ → α → Except Err γ)
    (f : α → β → Except PyErr (ForInStep β)) (k : β → Except PyErr δ) (Q : Except PyErr δ → Prop) (l : List α)
    (hstep : ∀ pre a post b c, l = pre ++ a :: post → R pre b c → StepPost (g c a) (R (pre ++ [a])) (f a b))
    (b : β) (c : γ) (hR : R [] b c)
    (hok : ∀ b' c', foldlM' g c l = .ok c' → R l b' c' → Q (k b'))
    (herr : ∀ e, foldlM' g c l = .error e → Q (.error (errMapL e))) : Q (forIn l b f >>= k) := by
  refine forIn_relE_bind R g f k Q l ?_ b c hR hok herr
  intro pre a post b c hl hR'
  have := hstep pre a post b c hl hR'
  unfold StepPost at this
  cases hg : g c a with
  | ok c' => rw [hg] at this; exact this
  | error e => rw [hg] at this; exact this

/-- state of the loop over the pairings of one channel: `kept` are the processed pairings (a removed one is `[]`) -/
structure BRel (heap : Heap) (row : List (List Nat)) (pre2 : List (Int × List Nat)) (b : Heap × List (List Nat)) (out : List Pairing) : Prop where
  shape : ∃ kept, b.2 = kept ++ row.drop pre2.length ∧ kept.length = pre2.length ∧ kept.map (deref b.1) = out ∧
    ∀ p ∈ kept, p = [] ∨ p ∈ row.take pre2.length
  len : b.1.length = heap.length
  un : ∀ r, (∀ p ∈ row.take pre2.length, p[1]? ≠ some r) → hGet b.1 r = hGet heap r
  ty : ∀ r, (hGet b.1 r).ty = (hGet heap r).ty ∧ (hGet b.1 r).note = (hGet heap r).note

theorem zipIdx_enumFrom (h1 : Heap) : ∀ (row : List (List Nat)) (k : Nat),
    (row.map (deref h1)).zipIdx k = (enumFrom (k : Int) row).map (fun x => (deref h1 x.2, x.1.toNat)) := by
  intro row
  induction row with
  | nil => intro k; simp [enumFrom_nil]
  | cons p ps ih =>
    intro k
    rw [enumFrom_cons]
    simp only [List.map_cons, List.zipIdx_cons, Int.toNat_natCast, List.cons.injEq, true_and]
    have : ((k : Int) + 1) = ((k + 1 : Nat) : Int) := by omega
    rw [this]
    exact ih (k + 1)

theorem flatten_disjoint_lt {α : Type} : ∀ (l : List (List α)), l.flatten.Nodup → ∀ (j k : Nat) (hj : j < l.length) (hk : k < l.length),
    j < k → ∀ x, x ∈ l[j] → x ∈ l[k] → False := by
  intro l
  induction l with
  | nil => intro _ j k hj; simp at hj
  | cons p ps ih =>
    intro h j k hj hk hjk x hxj hxk
    rw [List.flatten_cons, List.nodup_append] at h
    cases k with
    | zero => omega
    | succ k =>
      cases j with
      | zero =>
        simp only [List.getElem_cons_zero, List.getElem_cons_succ] at hxj hxk
        exact h.2.2 x hxj x (List.mem_flatten.2 ⟨_, List.getElem_mem _, hxk⟩) rfl
      | succ j =>
        simp only [List.getElem_cons_succ] at hxj hxk
        exact ih h.2.1 j k (by simpa using hj) (by simpa using hk) (by omega) x hxj hxk

theorem flatten_disjoint {α : Type} (l : List (List α)) (h : l.flatten.Nodup) (j k : Nat) (hj : j < l.length) (hk : k < l.length)
    (hjk : j ≠ k) (x : α) (hxj : x ∈ l[j]) (hxk : x ∈ l[k]) : False := by
  rcases Nat.lt_or_gt_of_ne hjk with hlt | hgt
  · exact flatten_disjoint_lt l h j k hj hk hlt x hxj hxk
  · exact flatten_disjoint_lt l h k j hk hj hgt x hxk hxj

theorem nodup_of_flatten {α : Type} (l : List (List α)) (h : l.flatten.Nodup) (hne : ∀ p ∈ l, p ≠ []) : l.Nodup := by
  rw [List.nodup_iff_pairwise_ne, List.pairwise_iff_getElem]
  intro i j hi hj hij e
  have hne' := hne l[i] (List.getElem_mem hi)
  obtain ⟨x, hx⟩ := List.exists_mem_of_ne_nil _ hne'
  exact flatten_disjoint l h i j hi hj (by omega) x hx (e ▸ hx)

theorem nodup_of_mem_flatten {α : Type} : ∀ (l : List (List α)), l.flatten.Nodup → ∀ p ∈ l, p.Nodup := by
  intro l
  induction l with
  | nil => intro _ p hp; simp at hp
  | cons q qs ih =>
    intro h p hp
    rw [List.flatten_cons, List.nodup_append] at h
    rcases List.mem_cons.1 hp with rfl | hp
    · exact h.1
    · exact ih h.2.1 p hp

theorem hGet_hUpd_ne (h : Heap) (r : Nat) (f : Msg → Msg) (x : Nat) (hne : x ≠ r) : hGet (hUpd h r f) x = hGet h x := by
  rw [hGet_hUpd]; simp [hne]

theorem hGet_hUpd_same (h : Heap) (r : Nat) (f : Msg → Msg) (hr : r < h.length) : hGet (hUpd h r f) r = f (hGet h r) := by
  rw [hGet_hUpd]; simp [hr]

theorem find?_congr' {α : Type} (p q : α → Bool) : ∀ (l : List α), (∀ x ∈ l, p x = q x) → l.find? p = l.find? q := by
  intro l
  induction l with
  | nil => intro _; rfl
  | cons x xs ih =>
    intro h
    simp only [List.find?_cons, h x (by simp)]
    rw [ih (fun y hy => h y (by simp [hy]))]

theorem mem_take_succ {α : Type} (l : List α) (k : Nat) (x : α) (h : x ∈ l.take k) : x ∈ l.take (k + 1) := by
  rw [List.take_add]; exact List.mem_append_left _ h

/-- the predicate and the projection inside the model's `nextOnset`, as named functions -/
def headIs (note : Int) (p : Pairing) : Bool := match p with | m :: _ => m.note == note | [] => false
def onsetOf (o : Option Pairing) : Option Int := match o with | some (m :: _) => some m.time | _ => Option.none

theorem nextOnset_eq (ps : List Pairing) (i : Nat) (note : Int) :
    nextOnset ps i note = onsetOf ((ps.drop (i + 1)).find? (headIs note)) := rfl

/-- model-level shape of the pairings of `get_message_pairings()` with defaults: [note-on, note-off] -/
theorem pair_types (std : Int) (a : List Msg) (c : Int × List Pairing) (hc : c ∈ pairings T2 std true a) (p : Pairing) (hp : p ∈ c.2) :
    ∃ on off, p = [on, off] ∧ on.ty = .noteOn ∧ off.ty = .noteOff := by
  obtain ⟨hq, _⟩ := GluePair.pairingsSorted_spec T2 std (sortAbs a) (sortAbs_pairwise a) c hc
  obtain ⟨q, hg, rfl⟩ := hq p hp
  rcases hg with ⟨m, rfl, _, hty, hno⟩ | ⟨on, off, rfl, _, hon, hoff, _⟩
  · have hmon : m.ty = .noteOn := by
      simp only [T2, List.mem_cons, List.not_mem_nil, or_false] at hty
      rcases hty with h | h
      · exact h
      · exact absurd h hno
    exact ⟨m, Msg.mkOff m.ch m.note (m.time + std), by simp [closeUnclosed, hmon], hmon, rfl⟩
  · exact ⟨on, off, rfl, hon, hoff⟩

theorem qnl_spec (h0 : Heap) (refs : List Nat) (values : List Int) (std : Int) (dne : Bool)
    (hrefs : ∀ r ∈ refs, r < h0.length) (hok : ∀ m ∈ h0, m.ch ≠ pyNone) (hnd : refs.Nodup) :
    PostOf (SCoda.quantiseNoteLengths values std dne (deref h0 refs)) (Gen.Abs2.quantiseNoteLengths h0 refs (some values) std dne) := by
  obtain ⟨h1, cp, hgmp, ⟨x1, hx1⟩, habs, hR, hok1, hrefs1⟩ := gmp_spec h0 refs T2 std true hrefs hok
  obtain ⟨hshape, hnodup⟩ := gmpR_facts h0 refs std hrefs hnd
  rw [← hR] at hshape hnodup
  simp only at hshape hnodup
  unfold Gen.Abs2.quantiseNoteLengths
  simp only [Option.isNone_some, Bool.false_eq_true, if_false]
  rw [gmp_none, hgmp]
  simp only [ViewTieL.ok_bind]
  -- the model
  have hmodel : SCoda.quantiseNoteLengths values std dne (deref h0 refs)
      = (match foldlM' (qnlRowM values dne h1) [] (cp.map (·.2)) with
         | .ok notes => .ok (sortAbs (notes ++ (sortAbs (deref h0 refs)).filter (fun m => m.ty != .noteOn && m.ty != .noteOff)))
         | .error e => .error e) := by
    unfold SCoda.quantiseNoteLengths
    have hcp : pairingsSorted notePairTypes std true (sortAbs (deref h0 refs)) = absP h1 cp := habs.symm
    simp only [hcp]
    have hf : foldlM' (fun acc (c : Int × List Pairing) => do
          let ps ← qnlChannel values dne c.2
          .ok (acc ++ ps.flatten)) [] (absP h1 cp) = foldlM' (qnlRowM values dne h1) [] (cp.map (·.2)) := by
      rw [absP, foldlM'_map, foldlM'_map]
      congr 1
      funext acc c
      simp only [qnlRowM]
      cases qnlChannel values dne (c.2.map (deref h1)) <;> rfl
    rw [hf]
    cases foldlM' (qnlRowM values dne h1) [] (cp.map (·.2)) <;> rfl
  rw [hmodel]
  have hSlt1 : ∀ r ∈ sortRefs h0 refs, r < h1.length := by
    intro r hr
    have := hrefs r ((mem_isort _ _ _).1 hr)
    rw [hx1, List.length_append]; omega
  refine forIn_relE_bind' (fun pre b acc => NRel h1 pre b acc) (qnlRowM values dne h1) _ _
    (PostOf (match foldlM' (qnlRowM values dne h1) [] (cp.map (·.2)) with
      | .ok notes => .ok (sortAbs (notes ++ (sortAbs (deref h0 refs)).filter (fun m => m.ty != .noteOn && m.ty != .noteOff)))
      | .error e => .error e))
    (cp.map (·.2)) ?hstep (h1, []) [] ?hinit ?hok ?herr
  case hinit => exact ⟨rfl, rfl, fun _ _ => rfl, by simp, fun _ => ⟨rfl, rfl⟩⟩
  case herr =>
    intro e he
    rw [he]
    rfl
  case hok =>
    rintro ⟨heapF, Q⟩ notes hf hN
    rw [hf]
    simp only
    -- the messages that are not notes
    rw [ViewTieL.forIn_spec' _ (fun l st => pure (st ++ l.filter (fun r => (hGet heapF r).ty != MType.noteOn && (hGet heapF r).ty != MType.noteOff)))]
    rotate_left
    · intro b; simp
    · intro a as b
      by_cases hc : ((hGet heapF a).ty != MType.noteOn && (hGet heapF a).ty != MType.noteOff) = true
      · simp [hc, List.filter_cons]
      · simp [hc, List.filter_cons]
    simp only [ViewTieL.ok_bind, pure_bind, normaliseAbsolute_eq]
    refine ⟨heapF, _, rfl, ?_⟩
    rw [deref_sortRefs, deref_append, hN.out]
    congr 2
    -- the other messages are untouched
    have hS : deref h0 (sortRefs h0 refs) = sortAbs (deref h0 refs) := deref_sortRefs h0 refs
    rw [← hS]
    have hS1 : deref h0 (sortRefs h0 refs) = deref h1 (sortRefs h0 refs) := by
      rw [hx1, deref_append_heap]; exact fun r hr => hrefs r ((mem_isort _ _ _).1 hr)
    rw [hS1]
    -- seconds of pairings are note-offs
    have hsec : ∀ row ∈ cp.map (·.2), ∀ p ∈ row, ∀ r, p[1]? = some r → (hGet h1 r).ty = .noteOff := by
      intro row hrow p hp r hr
      obtain ⟨c, hc, rfl⟩ := List.mem_map.1 hrow
      have hcm : (c.1, c.2.map (deref h1)) ∈ pairings T2 std true (deref h0 refs) := by
        rw [← habs]; exact List.mem_map.2 ⟨c, hc, rfl⟩
      obtain ⟨on, off, he, _, hoff⟩ := pair_types std _ _ hcm (deref h1 p) (List.mem_map.2 ⟨p, hp, rfl⟩)
      obtain ⟨a, b, rfl⟩ := hshape p (List.mem_flatMap.2 ⟨c, hc, hp⟩)
      simp only [deref, List.map_cons, List.map_nil, List.cons.injEq, and_true] at he
      simp only [List.getElem?_cons_succ, List.getElem?_cons_zero, Option.some.injEq] at hr
      subst hr
      rw [he.2]; exact hoff
    simp only [deref, List.filter_map, List.map_map]
    have hfilt : (sortRefs h0 refs).filter (fun r => (hGet heapF r).ty != MType.noteOn && (hGet heapF r).ty != MType.noteOff)
        = (sortRefs h0 refs).filter ((fun m : Msg => m.ty != MType.noteOn && m.ty != MType.noteOff) ∘ hGet h1) := by
      apply List.filter_congr
      intro r _
      simp only [Function.comp, (hN.ty r).1]
    rw [hfilt]
    apply List.map_congr_left
    intro r hr
    have hrt := (List.mem_filter.1 hr).2
    simp only [Function.comp, Bool.and_eq_true, bne_iff_ne, ne_eq] at hrt
    apply hN.un
    intro row hrow p hp he
    have := hsec row hrow p hp r he
    exact hrt.2 this
  case hstep =>
    rintro pre row post ⟨heap, Q⟩ acc hl hN
    have hrowmem : row ∈ cp.map (·.2) := by rw [hl]; simp
    obtain ⟨c, hc, hcrow⟩ := List.mem_map.1 hrowmem
    have hpairs : ∀ p ∈ row, ∃ a b, p = [a, b] := by
      intro p hp; rw [← hcrow] at hp
      exact hshape p (List.mem_flatMap.2 ⟨c, hc, hp⟩)
    have hflat : (cp.flatMap (·.2)).flatten = pre.flatten.flatten ++ (row.flatten ++ post.flatten.flatten) := by
      rw [List.flatMap_def, hl]; simp
    have hnd3 := hnodup
    rw [hflat, List.nodup_append] at hnd3
    obtain ⟨_, hnd4, hdisj⟩ := hnd3
    rw [List.nodup_append] at hnd4
    have hrowflat : row.flatten.Nodup := hnd4.1
    -- the cells of this row are still as after `get_message_pairings`
    have hcell : ∀ p ∈ row, ∀ r ∈ p, hGet heap r = hGet h1 r := by
      intro p hp r hr
      apply hN.un
      intro row' hrow' p' hp' he
      have h1' : r ∈ pre.flatten.flatten := List.mem_flatten.2 ⟨p', List.mem_flatten.2 ⟨row', hrow', hp'⟩, List.mem_of_getElem? he⟩
      have h2' : r ∈ row.flatten ++ post.flatten.flatten := List.mem_append_left _ (List.mem_flatten.2 ⟨p, hp, hr⟩)
      exact hdisj r h1' r h2' rfl
    -- loop (A): note_occurrences
    rw [ViewTieL.forIn_spec (fun p : List Nat => ∃ a b, p = [a, b]) _ (fun l st => pure (l.foldl (noStep heap) st)) (fun b => rfl) ?hA row [] hpairs]
    case hA =>
      rintro _ as no ⟨a, b, rfl⟩
      have hg0 : pyGet [a, b] 0 = .ok a := rfl
      simp only [hg0, ViewTieL.ok_bind, dictGet_getD _ _ ([] : List (List Nat)) (isSome_setDefault_self no (hGet heap a).note []),
        List.foldl_cons, pure_bind]
      rfl
    simp only [pure_bind]
    rw [pyEnumerate_eq]
    have hchan : qnlChannel values dne (row.map (deref h1))
        = foldlM' (fun out (x : Int × List Nat) => qnlStep values dne (row.map (deref h1)) out (deref h1 x.2, x.1.toNat)) [] (enumFrom 0 row) := by
      rw [qnlChannel_fold, zipIdx_enumFrom h1 row 0, foldlM'_map]
      rfl
    refine forIn_relE_bind' (fun pre2 b out => BRel heap row pre2 b out)
      (fun out (x : Int × List Nat) => qnlStep values dne (row.map (deref h1)) out (deref h1 x.2, x.1.toNat)) _ _
      (StepPost (qnlRowM values dne h1 acc row) (fun b acc => NRel h1 (pre ++ [row]) b acc))
      (enumFrom 0 row) ?hstep2 (heap, row) [] ?hinit2 ?hok2 ?herr2
    case hinit2 =>
      exact ⟨⟨[], by simp, rfl, rfl, by simp⟩, rfl, fun _ _ => rfl, fun _ => ⟨rfl, rfl⟩⟩
    case herr2 =>
      intro e he
      unfold StepPost qnlRowM
      rw [hchan, he]
    case hok2 =>
      rintro ⟨heapB, mpL⟩ out hf hB
      obtain ⟨⟨kept, hk1, hk2, hk3, hk4⟩, hlenB, hunB, htyB⟩ := hB
      simp only at hk1 hk2 hk3 hk4 hlenB hunB htyB
      have hlen0 : (enumFrom (0 : Int) row).length = row.length := by
        have := congrArg List.length (map_snd_enumFrom row 0); simpa using this
      rw [hlen0] at hk1 hk2 hk4 hunB
      simp only [List.drop_length, List.append_nil, List.take_length] at hk1 hk4 hunB
      subst hk1
      -- loop (C)
      rw [ViewTieL.forIn_spec' _ (fun (l : List (List Nat)) (st : List Nat) => pure (st ++ l.flatten))]
      rotate_left
      · intro b; simp
      · intro a as b; simp
      simp only [pure_bind]
      unfold StepPost qnlRowM
      rw [hchan, hf]
      refine ⟨_, rfl, ?_⟩
      have hQ : deref heapB Q = deref heap Q := by
        apply List.map_congr_left
        intro r hr
        apply hunB
        intro p hp he
        obtain ⟨row', hrow', p', hp', hr'⟩ := hN.qr r hr
        have h1' : r ∈ pre.flatten.flatten := List.mem_flatten.2 ⟨p', List.mem_flatten.2 ⟨row', hrow', hp'⟩, hr'⟩
        have h2' : r ∈ row.flatten ++ post.flatten.flatten :=
          List.mem_append_left _ (List.mem_flatten.2 ⟨p, hp, List.mem_of_getElem? he⟩)
        exact hdisj r h1' r h2' rfl
      refine ⟨?_, ?_, ?_, ?_, ?_⟩
      · simp only [deref_append]
        rw [hQ, hN.out]
        congr 1
        rw [← hk3]
        simp only [deref, List.map_flatten]
        rfl
      · simp only; rw [hlenB]; exact hN.len
      · intro r hr
        simp only
        rw [hunB r (fun p hp => hr row (by simp) p hp), hN.un r (fun row' hrow' => hr row' (by simp [hrow']))]
      · intro r hr
        simp only at hr
        rcases List.mem_append.1 hr with hr | hr
        · obtain ⟨row', hrow', p', hp', hr'⟩ := hN.qr r hr
          exact ⟨row', by simp [hrow'], p', hp', hr'⟩
        · obtain ⟨p, hp, hrp⟩ := List.mem_flatten.1 hr
          rcases hk4 p hp with rfl | hpr
          · simp at hrp
          · exact ⟨row, by simp, p, hpr, hrp⟩
      · intro r
        simp only
        rw [(htyB r).1, (htyB r).2]
        exact hN.ty r
    case hstep2 =>
      rintro pre2 ⟨iI, p⟩ post2 ⟨heapB, mpL⟩ out hl2 hB
      obtain ⟨hiI, hpk⟩ := enumFrom_split row pre2 post2 (iI, p) hl2
      simp only at hiI hpk
      subst hiI
      have hk : pre2.length < row.length := by
        rcases List.getElem?_eq_some_iff.1 hpk with ⟨hh, _⟩; exact hh
      have hpk' : row[pre2.length] = p := by
        rcases List.getElem?_eq_some_iff.1 hpk with ⟨_, hh⟩; exact hh
      have hpmem : p ∈ row := hpk' ▸ List.getElem_mem hk
      obtain ⟨a, b, rfl⟩ := hpairs p hpmem
      obtain ⟨⟨kept, hk1, hk2, hk3, hk4⟩, hlenB, hunB, htyB⟩ := hB
      simp only at hk1 hk2 hk3 hk4 hlenB hunB htyB
      subst hk1
      have hrownd : row.Nodup := nodup_of_flatten row hrowflat (by
        intro q hq e; obtain ⟨a', b', rfl⟩ := hpairs q hq; simp at e)
      -- references of this pairing are not seconds of earlier pairings of the row
      have hfresh : ∀ r ∈ [a, b], ∀ q ∈ row.take pre2.length, r ∉ q := by
        intro r hr q hq hrq
        obtain ⟨j, hj, hje⟩ := List.getElem_of_mem hq
        have hjk : j < pre2.length := by simp at hj; omega
        rw [List.getElem_take] at hje
        exact flatten_disjoint row hrowflat j pre2.length (by omega) hk (by omega) r (hje ▸ hrq) (hpk' ▸ hr)
      have hrdB : ∀ r ∈ [a, b], hGet heapB r = hGet h1 r := by
        intro r hr
        rw [hunB r (fun q hq he => hfresh r hr q hq (List.mem_of_getElem? he)), hcell [a, b] hpmem r hr]
      have hA := hrdB a (by simp)
      have hBb := hrdB b (by simp)
      have hg0 : pyGet [a, b] 0 = .ok a := rfl
      have hg1 : pyGet [a, b] 1 = .ok b := rfl
      simp only [hg0, hg1, ViewTieL.ok_bind, optGet, pure_bind, hA, hBb]
      -- note_occurrences[note]
      have hPk : (fun q : List Nat => headNote heap q == (hGet h1 a).note) row[pre2.length] = true := by
        rw [hpk']; simp only [headNote, List.headD_cons, hcell [a, b] hpmem a (by simp), beq_self_eq_true]
      obtain ⟨hidx, hnext, hFlen⟩ := index_next (fun q : List Nat => headNote heap q == (hGet h1 a).note) row hrownd pre2.length hk hPk
      rw [hpk'] at hidx
      have hFne : row.filter (fun q : List Nat => headNote heap q == (hGet h1 a).note) ≠ [] := by
        intro e; rw [e] at hFlen; simp only [List.length_nil] at hFlen; omega
      have hno : dictGet (row.foldl (noStep heap) []) (hGet h1 a).note
          = .ok (row.filter (fun q : List Nat => headNote heap q == (hGet h1 a).note)) := by
        apply dictGet_some
        rw [noFold_get]
        simp [hFne, Assoc.get?]
      simp only [hno, ViewTieL.ok_bind, hidx]
      -- the second filtering loop and the rest, for any result `v1` of the first one
      have htail : ∀ v1 : List Int,
          StepPost
            (if (values.foldl (fun v x => if (decide (x - ((hGet h1 b).time - (hGet h1 a).time) > 0) && dne) && v.contains x then removeFirst x v else v) v1).length == 0
              then (.ok (out ++ [[]]) : Except Err (List Pairing))
              else match nearest ((hGet h1 b).time - (hGet h1 a).time)
                  (values.foldl (fun v x => if (decide (x - ((hGet h1 b).time - (hGet h1 a).time) > 0) && dne) && v.contains x then removeFirst x v else v) v1) with
                | .ok best => .ok (out ++ [[hGet h1 a, { (hGet h1 b) with time := (hGet h1 b).time + (best - ((hGet h1 b).time - (hGet h1 a).time)) }]])
                | .error e => .error e)
            (fun b_1 out => BRel heap row (pre2 ++ [((pre2.length : Int), [a, b])]) b_1 out)
            (do
              let s2 ← forIn values v1 (fun (noteValue : Int) (s2 : List Int) =>
                (if (decide (noteValue - ((hGet h1 b).time - (hGet h1 a).time) > 0) && (dne && s2.contains noteValue)) = true then
                  (do let r ← pyRemove s2 noteValue; pure (ForInStep.yield r)) else pure (ForInStep.yield s2) : Except PyErr (ForInStep (List Int))))
              if ((s2.length : Int) == 0) = true then do
                  let r ← pySet (kept ++ List.drop pre2.length row) (pre2.length : Int) []
                  pure (ForInStep.yield (heapB, r))
                else do
                  let i ← Gen.Abs2.findMinimalDistance ((hGet h1 b).time - (hGet h1 a).time) s2
                  let best ← pyGet s2 i
                  pure (ForInStep.yield (hUpd heapB b (fun o_ => { o_ with time := o_.time + (best - ((hGet h1 b).time - (hGet h1 a).time)) }),
                    kept ++ List.drop pre2.length row))) := by
        intro v1
        have hloop := remove_loop_guarded (fun x => decide (x - ((hGet h1 b).time - (hGet h1 a).time) > 0) && dne) values v1
        simp only [← Bool.and_assoc]
        rw [hloop]
        simp only [ViewTieL.ok_bind]
        generalize values.foldl (fun v x => if (decide (x - ((hGet h1 b).time - (hGet h1 a).time) > 0) && dne && v.contains x) = true then removeFirst x v else v) v1 = s2
        have hdrop : row.drop pre2.length = [a, b] :: row.drop (pre2.length + 1) := by
          rw [List.drop_eq_getElem_cons hk, hpk']
        have hbl : b < heapB.length := by
          rw [hlenB, hN.len]
          exact hrefs1 c hc [a, b] (hcrow ▸ hpmem) b (by simp)
        have hab : a ≠ b := by
          intro e
          have hnd2 : ([a, b] : List Nat).Nodup := nodup_of_mem_flatten row hrowflat _ hpmem
          simp [e] at hnd2
        have hunB' : ∀ r, (∀ q ∈ row.take (pre2 ++ [((pre2.length : Int), [a, b])]).length, q[1]? ≠ some r) → hGet heapB r = hGet heap r := by
          intro r hr
          apply hunB
          intro q hq
          apply hr
          simp only [List.length_append, List.length_cons, List.length_nil]
          exact mem_take_succ _ _ _ hq
        by_cases hz : s2.length = 0
        · have h1' : (((s2.length : Nat) : Int) == 0) = true := by simp [hz]
          have h2' : (s2.length == 0) = true := by simp [hz]
          simp only [h1', h2', if_true]
          unfold StepPost
          rw [pySet_nat _ _ _ (by simp [hk2]; omega)]
          simp only [ViewTieL.ok_bind]
          refine ⟨_, rfl, ⟨kept ++ [[]], ?_, by simp [hk2], by simp [hk3, deref], ?_⟩, hlenB, hunB', htyB⟩
          · simp only [List.length_append, List.length_cons, List.length_nil]
            rw [hdrop, ← hk2, List.set_append_right _ _ (Nat.le_refl _)]
            simp
          · intro q hq
            rcases List.mem_append.1 hq with hq | hq
            · rcases hk4 q hq with h | h
              · exact Or.inl h
              · right
                simp only [List.length_append, List.length_cons, List.length_nil]
                exact mem_take_succ _ _ _ h
            · simp at hq; exact Or.inl hq
        · have h1' : (((s2.length : Nat) : Int) == 0) = false := by
            simp only [beq_eq_false_iff_ne, ne_eq]; omega
          have h2' : (s2.length == 0) = false := by simp [hz]
          simp only [h1', h2', Bool.false_eq_true, if_false]
          rw [nearest_bind, nearestR_eq]
          unfold StepPost
          cases hn : nearest ((hGet h1 b).time - (hGet h1 a).time) s2 with
          | error e => rfl
          | ok best =>
            simp only [ViewTieL.ok_bind]
            refine ⟨_, rfl, ⟨kept ++ [[a, b]], ?_, by simp [hk2], ?_, ?_⟩, ?_, ?_, ?_⟩
            · simp only [List.length_append, List.length_cons, List.length_nil]
              rw [hdrop]; simp
            · simp only [List.map_append, List.map_cons, List.map_nil]
              congr 1
              · rw [← hk3]
                apply List.map_congr_left
                intro q hq
                rcases hk4 q hq with rfl | hqr
                · rfl
                · apply List.map_congr_left
                  intro r hr
                  rw [hGet_hUpd_ne]
                  intro e; subst e
                  exact hfresh r (by simp) q hqr hr
              · simp only [deref, List.map_cons, List.map_nil]
                rw [hGet_hUpd_ne _ _ _ _ hab, hGet_hUpd_same _ _ _ hbl, hA, hBb]
            · intro q hq
              simp only [List.length_append, List.length_cons, List.length_nil]
              rcases List.mem_append.1 hq with hq | hq
              · rcases hk4 q hq with h | h
                · exact Or.inl h
                · exact Or.inr (mem_take_succ _ _ _ h)
              · simp only [List.mem_cons, List.not_mem_nil, or_false] at hq
                subst hq
                right
                rw [List.take_add]
                apply List.mem_append_right
                rw [hdrop]; simp
            · simp only [length_hUpd]; exact hlenB
            · intro r hr
              simp only
              have hrb : r ≠ b := by
                intro e; subst e
                apply hr [a, r]
                · simp only [List.length_append, List.length_cons, List.length_nil]
                  rw [List.take_add]
                  apply List.mem_append_right
                  rw [hdrop]; simp
                · rfl
              rw [hGet_hUpd_ne _ _ _ _ hrb]
              exact hunB' r hr
            · intro r
              simp only
              by_cases hrb : r = b
              · subst hrb
                rw [hGet_hUpd_same _ _ _ hbl]
                exact htyB r
              · rw [hGet_hUpd_ne _ _ _ _ hrb]
                exact htyB r
      -- the model's `nextOnset`, on references
      have hrowP : ∀ q ∈ row, headIs (hGet h1 a).note (deref h1 q) = (headNote heap q == (hGet h1 a).note) := by
        intro q hq
        obtain ⟨a', b', rfl⟩ := hpairs q hq
        simp only [deref, List.map_cons, headNote, List.headD_cons, hcell [a', b'] hq a' (by simp), headIs]
      have hnextOn : nextOnset (row.map (deref h1)) pre2.length (hGet h1 a).note
          = ((row.drop (pre2.length + 1)).find? (fun q : List Nat => headNote heap q == (hGet h1 a).note)).map
              (fun q => (hGet h1 (q.headD 0)).time) := by
        rw [nextOnset_eq, ← List.map_drop, List.find?_map]
        have hcongr : (row.drop (pre2.length + 1)).find? (headIs (hGet h1 a).note ∘ deref h1)
            = (row.drop (pre2.length + 1)).find? (fun q : List Nat => headNote heap q == (hGet h1 a).note) := by
          apply find?_congr'
          intro q hq
          exact hrowP q (List.mem_of_mem_drop hq)
        rw [hcongr]
        have hcases : (row.drop (pre2.length + 1)).find? (fun q : List Nat => headNote heap q == (hGet h1 a).note) = none ∨
            ∃ np, (row.drop (pre2.length + 1)).find? (fun q : List Nat => headNote heap q == (hGet h1 a).note) = some np := by
          cases (row.drop (pre2.length + 1)).find? (fun q : List Nat => headNote heap q == (hGet h1 a).note) with
          | none => exact Or.inl rfl
          | some np => exact Or.inr ⟨np, rfl⟩
        rcases hcases with hnone | ⟨np, hsome⟩
        · rw [hnone]; rfl
        · rw [hsome]
          obtain ⟨a', b', rfl⟩ := hpairs np (List.mem_of_mem_drop (List.mem_of_find?_eq_some hsome))
          rfl
      have hmodelStep : qnlStep values dne (row.map (deref h1)) out (deref h1 [a, b], ((pre2.length : Nat) : Int).toNat)
          = (let valid := validDurations values dne (hGet h1 a).time (hGet h1 b).time
                (((row.drop (pre2.length + 1)).find? (fun q : List Nat => headNote heap q == (hGet h1 a).note)).map (fun q => (hGet h1 (q.headD 0)).time))
             if valid.length == 0 then (.ok (out ++ [[]]) : Except Err (List Pairing))
              else match nearest ((hGet h1 b).time - (hGet h1 a).time) valid with
                | .ok best => .ok (out ++ [[hGet h1 a, { (hGet h1 b) with time := (hGet h1 b).time + (best - ((hGet h1 b).time - (hGet h1 a).time)) }]])
                | .error e => .error e) := by
        unfold qnlStep
        simp only [deref, List.map_cons, List.map_nil, Int.toNat_natCast]
        rw [hnextOn]
        all_goals rfl
      rw [hmodelStep]
      have hcases : (row.drop (pre2.length + 1)).find? (fun q : List Nat => headNote heap q == (hGet h1 a).note) = none ∨
          ∃ np, (row.drop (pre2.length + 1)).find? (fun q : List Nat => headNote heap q == (hGet h1 a).note) = some np := by
        cases (row.drop (pre2.length + 1)).find? (fun q : List Nat => headNote heap q == (hGet h1 a).note) with
        | none => exact Or.inl rfl
        | some np => exact Or.inr ⟨np, rfl⟩
      rcases hcases with hnone | ⟨np, hsome⟩
      · -- last occurrence of this pitch in the channel
        have hfnil : (row.drop (pre2.length + 1)).filter (fun q : List Nat => headNote heap q == (hGet h1 a).note) = [] := by
          rw [List.filter_eq_nil_iff]
          intro q hq
          have := List.find?_eq_none.1 hnone q hq
          simpa using this
        rw [hfnil] at hFlen
        simp only [List.length_nil, Nat.add_zero] at hFlen
        have hcond : (((((row.take pre2.length).filter (fun q : List Nat => headNote heap q == (hGet h1 a).note)).length : Nat) : Int)
            != (((row.filter (fun q : List Nat => headNote heap q == (hGet h1 a).note)).length : Nat) : Int) - 1) = false := by
          rw [hFlen]; simp
        simp only [hcond, Bool.false_eq_true, if_false, hnone, Option.map_none]
        exact htail values
      · -- there is a later note of this pitch: `np`
        have hnpdrop : np ∈ row.drop (pre2.length + 1) := List.mem_of_find?_eq_some hsome
        have hnprow : np ∈ row := List.mem_of_mem_drop hnpdrop
        obtain ⟨a', b', rfl⟩ := hpairs np hnprow
        rw [hsome] at hnext
        have hlt : ((row.take pre2.length).filter (fun q : List Nat => headNote heap q == (hGet h1 a).note)).length + 1
            < (row.filter (fun q : List Nat => headNote heap q == (hGet h1 a).note)).length := by
          rcases List.getElem?_eq_some_iff.1 hnext with ⟨hh, _⟩; exact hh
        have hcond : (((((row.take pre2.length).filter (fun q : List Nat => headNote heap q == (hGet h1 a).note)).length : Nat) : Int)
            != (((row.filter (fun q : List Nat => headNote heap q == (hGet h1 a).note)).length : Nat) : Int) - 1) = true := by
          simp only [bne_iff_ne, ne_eq]; omega
        have hcast : (((((row.take pre2.length).filter (fun q : List Nat => headNote heap q == (hGet h1 a).note)).length : Nat) : Int) + 1)
            = (((((row.take pre2.length).filter (fun q : List Nat => headNote heap q == (hGet h1 a).note)).length + 1 : Nat)) : Int) := by omega
        have hgetF : pyGet (row.filter (fun q : List Nat => headNote heap q == (hGet h1 a).note))
            (((((row.take pre2.length).filter (fun q : List Nat => headNote heap q == (hGet h1 a).note)).length : Nat) : Int) + 1) = .ok [a', b'] := by
          rw [hcast, pyGet_nat _ _ hlt]
          rcases List.getElem?_eq_some_iff.1 hnext with ⟨_, hh⟩
          rw [hh]
        have hg0' : pyGet [a', b'] 0 = .ok a' := rfl
        -- the onset of the next note has not been touched
        have hA' : hGet heapB a' = hGet h1 a' := by
          rw [hunB a' ?_, hcell [a', b'] hnprow a' (by simp)]
          intro q hq he
          have hsplit : row.flatten = (row.take pre2.length).flatten ++ (row.drop pre2.length).flatten := by
            rw [← List.flatten_append, List.take_append_drop]
          have hnd5 := hrowflat
          rw [hsplit, List.nodup_append] at hnd5
          have hdd : row.drop (pre2.length + 1) = (row.drop pre2.length).drop 1 := by rw [List.drop_drop]
          refine hnd5.2.2 a' (List.mem_flatten.2 ⟨q, hq, List.mem_of_getElem? he⟩) a'
            (List.mem_flatten.2 ⟨[a', b'], ?_, by simp⟩) rfl
          rw [hdd] at hnpdrop
          exact List.mem_of_mem_drop hnpdrop
        simp only [hcond, if_true, hgetF, ViewTieL.ok_bind, hg0', hA', hsome, Option.map_some, List.headD_cons]
        rw [remove_loop (fun nv => decide ((hGet h1 b).time + (nv - ((hGet h1 b).time - (hGet h1 a).time)) > (hGet h1 a').time))
          values values (fun _ => Nat.le_refl _)]
        simp only [ViewTieL.ok_bind, decide_eq_true_eq]
        exact htail (values.foldl (fun v x => if (hGet h1 b).time + (x - ((hGet h1 b).time - (hGet h1 a).time)) > (hGet h1 a').time
          then removeFirst x v else v) values)

end SCoda.AbsTie2L
