/-
  Helper lemmas for `Props/C01n.lean` (audit round 2, item A4a / F5: `C01c.HasTail` is wider than the failing class
  of D15 for the duration clause).

  * `clock_le`: for every valid piece the tokeniser's final clock is not after the end of the last bar (and the end
    of the piece is not after it either) — the half of `C01c.final_clock` that needs no tail hypothesis;
  * `seq_le`: hence no message of a detokenised sequence lies after the end of the last bar;
  * `seq_note_off`: every note of track `i` has its note-off tick among the ticks of detokenised sequence `i`.
-/
import SCoda.Props.C01c
namespace SCoda.C01NarrowL
open SCoda SCoda.C01 SCoda.ExtractL SCoda.C01c

/-- the bar ceiling is monotone above the signature clock -/
theorem barCeil_mono (c : Cfg) (sigs : List Msg) (L T : Int)
    (hs : C01.Sane (sigs.foldl (sigStep c) (clock0 c))) (hk : (sigs.foldl (sigStep c) (clock0 c)).cur ≤ L)
    (h1 : L ≤ T) : barCeil c sigs L ≤ barCeil c sigs T := by
  by_cases h : T ≤ barCeil c sigs L
  · rw [barCeil_idem c sigs L T hs hk h1 h]; exact Int.le_refl _
  · have := le_barCeil c sigs T hs (by omega)
    omega

/-- **the final clock never passes the end of the last bar** (no tail hypothesis): for valid tracks the final clock of
    the specification log is the bar ceiling of the last event onset, which is at most the end of the piece -/
theorem clock_le (c : Cfg) (hc : CfgOk c) (g : Int) (tracks : List (List Msg)) (hv : ValidTracks c g tracks) :
    (specLog c (TokSt.init c) (extract c.ppqn tracks)).1.cur ≤ lastBarEnd c tracks
    ∧ pieceEnd tracks ≤ lastBarEnd c tracks := by
  obtain ⟨hcore, hst, hag, hob⟩ := hv
  have hok := hcore.okRel
  have hg := hcore.good
  have hev := valid_tracks_evsOk c g tracks hcore
  have hvalid := valid_tracks_evs c hc g tracks hcore
  have hsh := extract_shape' c hc g tracks hcore
  have hts := extract_ts c.ppqn tracks hok hg hst hag
  have hcap : ∀ ev ∈ extract c.ppqn tracks, ∀ m ∈ ev.2.head?, m.ty = .timeSignature → 0 < c.capacity m.num m.den :=
    fun ev hev' m hm hty => (hvalid.sigOk ev hev' m hm hty).2.2.2.1
  have hne : ∀ ev ∈ extract c.ppqn tracks, ev.2 ≠ [] := by
    intro ev he
    rcases hsh ev he with ⟨on, off, h1, _⟩ | ⟨m, h1, _⟩ <;> rw [h1] <;> simp
  have hC := specLog_cur c hc _ hev hcap hsh (by rw [hts]; exact hob)
  rw [hts] at hC
  obtain ⟨hmax, hmem⟩ := lastHead_max (extract c.ppqn tracks) 0 hev.ordered hne
  have hT0 := pieceEnd_nonneg tracks
  have hLle : lastHead (extract c.ppqn tracks) 0 ≤ pieceEnd tracks := by
    rcases hmem with h | ⟨ev, hev', m, hm, h⟩
    · rw [h]; exact hT0
    · rw [h]; exact final_time_le tracks hok m (Glue.extract_head_mem c.ppqn tracks ev hev' m hm)
  have hL0 : 0 ≤ lastHead (extract c.ppqn tracks) 0 := by
    rcases hmem with h | ⟨ev, hev', m, hm, h⟩
    · rw [h]; exact Int.le_refl 0
    · rw [h]; have := hev.notBefore ev hev' m hm; omega
  have hsigHead : ∀ m ∈ sigChanges tracks, ∃ ev ∈ extract c.ppqn tracks, m ∈ ev.2.head? ∧ m.ty = .timeSignature := by
    intro m hm
    rw [← hts, List.mem_filterMap] at hm
    obtain ⟨ev, hev', h⟩ := hm
    refine ⟨ev, hev', ?_⟩
    unfold tsOf at h
    split at h
    · rename_i x hx
      split at h
      · rename_i hty; cases h; exact ⟨by simp [hx], hty⟩
      · cases h
    · cases h
  obtain ⟨hsane, hkL⟩ := sigfold_sane c (sigChanges tracks) (clock0 c) (lastHead (extract c.ppqn tracks) 0)
    (by
      have hpos : 0 < c.capacity c.defNum c.defDen := by
        unfold Cfg.capacity
        rw [hc.def_eq, Int.mul_ediv_cancel _ (by have := hc.def_pos; omega)]
        have := hc.ppqn_pos; omega
      exact ⟨hpos, Int.le_refl 0, hpos⟩)
    hL0
    (fun m hm => by
      obtain ⟨ev, hev', hmh, hty⟩ := hsigHead m hm
      exact ⟨hcap ev hev' m hmh hty, hmax ev hev' m hmh⟩)
    ((sigChanges_strict tracks hag).imp (fun h => Int.le_of_lt h))
    (fun m hm => by
      obtain ⟨ev, hev', hmh, _⟩ := hsigHead m hm
      have := hev.notBefore ev hev' m hmh
      simp only [clock0]; omega)
  refine ⟨?_, le_barCeil c (sigChanges tracks) (pieceEnd tracks) hsane (by omega)⟩
  rw [hC]
  exact barCeil_mono c (sigChanges tracks) _ _ hsane hkL hLle

theorem durAbs_le (s : List Msg) (C : Int) (h0 : 0 ≤ C) (hle : ∀ m ∈ s, m.time ≤ C) : durAbs s ≤ C := by
  cases hl : s.getLast? with
  | none => simp [durAbs, hl]; exact h0
  | some m =>
    have := hle m (List.mem_of_getLast? hl)
    simp only [durAbs, hl]; exact this

/-- **what the detokenised sequences of a valid piece hold** (the run of `C01c.duration_no_tail`, without its tail
    hypothesis): every sequence is time-sorted, none of its messages lies after the end of the last bar; outside D15's
    class a message stands exactly there; and every note of track `i` has its note-off tick among the ticks of
    sequence `i` -/
theorem seq_facts (c : Cfg) (hc : CfgOk c) (hn : 0 < c.numTracks) (g : Int) (tracks : List (List Msg))
    (hv : ValidTracks c g tracks) (toks : List Tok) (st' : TokSt)
    (h : tokeniseCore c (TokSt.init c) (extract c.ppqn tracks) = .ok (toks, st')) :
    ∃ seqs, detokenise c toks = .ok seqs ∧ seqs.length = c.numTracks ∧
      ∀ (i : Nat) (s : List Msg), seqs[i]? = some s →
        MergeL.Sorted s ∧ (∀ m ∈ s, 0 ≤ m.time ∧ m.time ≤ lastBarEnd c tracks)
        ∧ (¬ HasTail c tracks → lastBarEnd c tracks = 0 ∨ ∃ m ∈ s, m.time = lastBarEnd c tracks)
        ∧ ∀ r, tracks[i]? = some r → ∀ n ∈ trackNotes i r, ∃ m ∈ s, m.time = n.off := by
  have hcore := hv.core
  have hok := hcore.okRel
  obtain ⟨d, log, hdf, hdet, hseqs, hlog, hNL, hlok, hcur⟩ := run_log c hc hn g tracks hcore toks st' h
  obtain ⟨hCle, hTle⟩ := clock_le c hc g tracks hv
  have hev := valid_tracks_evsOk c g tracks hcore
  have hvalid := valid_tracks_evs c hc g tracks hcore
  have hpos : 0 < c.capacity c.defNum c.defDen := by
    unfold Cfg.capacity
    rw [hc.def_eq, Int.mul_ediv_cancel _ (by have := hc.def_pos; omega)]
    have := hc.ppqn_pos; omega
  obtain ⟨_, hbe, hlast⟩ := specLog_inv c (TokSt.init c) (extract c.ppqn tracks) hpos (Int.le_refl 0) hpos
    (fun ev hev' m hm hty => (hvalid.sigOk ev hev' m hm hty).2.2.2.1)
  have hmono := InBar.core_mono c hc (TokSt.init c) st' _ toks (Int.le_refl 0) (Or.inr ⟨rfl, rfl⟩) hev h
    (DetokSt.init c) (rel_init c hc hn).toRelD
  obtain ⟨_, htsig⟩ := mono_tsig c toks (DetokSt.init c) d log hmono hdf
  rw [hcur] at htsig
  have hP := (extract_notes c g tracks hcore).1
  obtain ⟨hfacts, _⟩ := extract_note_facts c g tracks hcore
  refine ⟨d.seqs, hdet, by rw [hseqs]; exact (seqs_inv c.numTracks log hlok).1, ?_⟩
  intro i s hs
  rw [hseqs] at hs
  obtain ⟨hsorted, _⟩ := (seqs_inv c.numTracks log hlok).2 i s hs
  obtain ⟨hsrc, hbar⟩ := seq_mem c.numTracks log i s hs
  refine ⟨hsorted, ?_, ?_, ?_⟩
  · intro m hm
    obtain ⟨e, he, hme⟩ := hsrc m hm
    cases e with
    | barEnd t =>
      have : Emit.barEnd t ∈ (specLog c (TokSt.init c) (extract c.ppqn tracks)).2 := by
        rw [← hlog]; exact List.mem_filter.2 ⟨he, rfl⟩
      have hb := hbe t this
      simp only [emitAll, List.mem_cons, List.not_mem_nil, or_false] at hme
      subst hme
      have h0 : (TokSt.init c).curTime = 0 := rfl
      rw [h0] at hb
      simp only [Msg.mkInternal]; omega
    | tsig t a b =>
      have hb := htsig t a b he
      simp only [emitAll, List.mem_cons, List.not_mem_nil, or_false] at hme
      subst hme
      have h0 : (DetokSt.init c).curTime = 0 := rfl
      rw [h0] at hb
      simp only [Msg.mkTimeSig]; omega
    | note trk p v on off =>
      have hn' : ({ ch := trk, pitch := p, on := on, off := off, vel := v } : Note) ∈ logNotes log := by
        simp only [logNotes, List.mem_filterMap]
        exact ⟨_, he, rfl⟩
      rw [hNL, List.mem_map] at hn'
      obtain ⟨a, ha, hab⟩ := hn'
      obtain ⟨hb1, hb2⟩ := pieceNotes_bounds tracks hok a (hP.mem_iff.1 ha)
      have hdur := ((extract_note_facts c g tracks hcore).1 a ha).1
      simp only [binShift, Note.mk.injEq] at hab
      obtain ⟨_, _, e3, e4, _⟩ := hab
      simp only [emitAll, List.mem_cons, List.not_mem_nil, or_false] at hme
      rcases hme with rfl | rfl
      · simp only [Msg.mkOn]; omega
      · simp only [Msg.mkOff]; omega
  · intro hnt
    obtain ⟨hC, _⟩ := final_clock c hc g tracks hv hnt
    rw [hC] at hlast
    by_cases h0 : lastBarEnd c tracks = 0
    · exact Or.inl h0
    · right
      have hpos' : (TokSt.init c).curTime < lastBarEnd c tracks := by
        have h0' : (TokSt.init c).curTime = 0 := rfl
        have := pieceEnd_nonneg tracks
        rw [h0']; omega
      have hin := hlast hpos'
      rw [← hlog] at hin
      exact ⟨_, hbar _ (List.mem_filter.1 hin).1, rfl⟩
  · intro r hi n hnr
    -- the notes of sequence `i` are the notes of track `i` with the velocity binned: same note-off ticks
    have hperm : (notesOf (eventsAbs s)).Perm ((trackNotes i r).map ((fun n : Note => { n with ch := 0 }) ∘ binShift c 0)) := by
      refine (seq_notes c.numTracks log hlok i s hs).trans ?_
      rw [trkNotes_eq, hNL, List.filter_map, List.map_map]
      have hfil : ((extract c.ppqn tracks).filterMap evNote).filter ((fun n => n.ch.toNat == i) ∘ binShift c 0)
          = ((extract c.ppqn tracks).filterMap evNote).filter (fun n => n.ch == (i : Int)) := by
        apply List.filter_congr
        intro n hn'
        have h0 := (hfacts n hn').2.1
        show ((binShift c 0 n).ch.toNat == i) = (n.ch == (i : Int))
        have hch : (binShift c 0 n).ch = n.ch := rfl
        rw [hch, Bool.eq_iff_iff, beq_iff_eq, beq_iff_eq]
        omega
      rw [hfil]
      exact ((extract_notes c g tracks hcore).2.2 i r hi).map _
    have hmem : ((fun n : Note => { n with ch := 0 }) ∘ binShift c 0) n ∈ notesOf (eventsAbs s) :=
      hperm.mem_iff.2 (List.mem_map.2 ⟨n, hnr, rfl⟩)
    obtain ⟨f, hf, hoff⟩ := notesGo_off_src (eventsAbs s) [] _ hmem
    refine ⟨f, (List.mem_filter.1 hf).1, ?_⟩
    rw [← hoff]
    simp only [Function.comp, binShift]
    omega

end SCoda.C01NarrowL
