/-
  Helper lemmas for C02: `applyRest`, `tokEvent` and the `tokeniseCore` fold only emit tokens
  satisfying a predicate that holds of the vocabulary tokens.
-/
import SCoda.Lemmas.Vocab
namespace SCoda.Tokenise
open SCoda

theorem largestLe_go_mem {steps : List Int} {n v : Int} {best : Option Int}
    (h : steps.foldl (fun best s => if n >= s then some s else best) best = some v) :
    best = some v ∨ v ∈ steps := by
  induction steps generalizing best with
  | nil => left; simpa using h
  | cons s ss ih =>
    simp only [List.foldl_cons] at h
    rcases ih h with h' | h'
    · split at h'
      · right; simp at h'; simp [h']
      · left; exact h'
    · right; simp [h']

theorem largestLe_mem {steps : List Int} {n v : Int} (h : largestLe steps n = some v) : v ∈ steps := by
  rcases largestLe_go_mem h with h' | h'
  · simp at h'
  · exact h'

theorem applyRest_closed (c : Cfg) (P : Tok → Prop) (hbar : P .bar) (hrest : ∀ v ∈ c.steps, P (.rest v))
    (cap : Int) (fuel : Nat) (buf : Int) (st : Int × Int × Int) (acc : List Tok)
    (st' : Int × Int × Int) (acc' : List Tok)
    (h : applyRest c cap fuel buf st acc = .ok (st', acc')) (hacc : ∀ t ∈ acc, P t) :
    ∀ t ∈ acc', P t := by
  induction fuel generalizing buf st acc with
  | zero =>
    simp only [applyRest] at h
    split at h
    · cases h
    · cases h; exact hacc
  | succ fuel ih =>
    obtain ⟨cur, bar, rem⟩ := st
    simp only [applyRest] at h
    split at h
    · split at h
      · cases h
      · rename_i last hlast
        split at h
        · cases h
        · split at h
          · cases h
          · rename_i v hv
            have hvmem : v ∈ c.steps := by
              split at hv
              · cases hv; exact List.mem_of_getLast? hlast
              · exact largestLe_mem hv
            have hacc1 : ∀ t ∈ Tok.rest v :: acc, P t := by
              intro t ht
              rcases List.mem_cons.1 ht with rfl | ht
              · exact hrest v hvmem
              · exact hacc t ht
            split at h
            · refine ih _ _ _ h ?_
              intro t ht
              rcases List.mem_cons.1 ht with rfl | ht
              · exact hbar
              · exact hacc1 t ht
            · exact ih _ _ _ h hacc1
    · cases h; exact hacc

/-- the part of `tokEvent` after the clock has been advanced to `(a, b, d)` with tokens `toks0` -/
def tail (c : Cfg) (l : TkLoop) (m : Msg) (restP : List Msg) (a b d : Int) (toks0 : List Tok) :
    Except Err TkLoop :=
  let st := { l.st with curTime := a, curTimeBar := b, capRem := d }
  let l := { l with st := st, toks := toks0 }
  match m.ty with
  | .noteOn =>
    match restP with
    | [] => .error .indexError
    | off :: _ =>
      let ch := m.ch
      let value := off.time - m.time
      match c.bins[binIndex c.bins m.vel]? with
      | Option.none => .error .indexError
      | some vel =>
        if !(c.pitchLo <= m.note && m.note <= c.pitchHi) then .error .tokenisationError else
        if !c.values.contains value then .error .tokenisationError else
        let pre1 := if !c.fuseTrk && (ch != st.prvTrack || !c.running) then [Tok.trk ch] else []
        let pre2 := if !c.fuseVal && (value != st.prvValue || !c.running) then [Tok.val value] else []
        let pre3 := if !c.fuseVel && (vel != st.prvVel || !c.running) then [Tok.vel vel] else []
        let tok := Tok.note (if c.fuseTrk then some ch else Option.none) m.note
                     (if c.fuseVal then some value else Option.none)
                     (if c.fuseVel then some vel else Option.none)
        .ok { l with toks := tok :: (pre3.reverse ++ pre2.reverse ++ pre1.reverse ++ l.toks),
                     st := { st with prvTrack := ch, prvValue := value, prvVel := vel } }
  | .timeSignature =>
    if st.curTimeBar > 0 then .ok l else
    if (m.num * c.defDen) % m.den != 0 then .error .tokenisationError else
    let scaled := (m.num * c.defDen) / m.den
    if !(c.tsLo <= scaled && scaled <= c.tsHi) then .error .tokenisationError else
    let capTotal := c.capacity m.num m.den
    .ok { l with capTotal := capTotal, toks := Tok.tsig scaled c.defNum :: l.toks,
                 st := { st with tsNum := m.num, tsDen := m.den, capRem := capTotal } }
  | _ => .ok l

theorem tokEvent_eq (c : Cfg) (shift : Int) (l : TkLoop) (ev : Int × Pairing) :
    tokEvent c shift l ev =
      match ev.2 with
      | [] => .error .indexError
      | m :: restP =>
        if l.st.curTime != m.time + shift then
          match applyRest c l.capTotal ((m.time + shift - l.st.curTime).toNat + 1) (m.time + shift - l.st.curTime)
              (l.st.curTime, l.st.curTimeBar, l.st.capRem) l.toks with
          | .error e => .error e
          | .ok v => tail c l m restP v.1.1 v.1.2.1 v.1.2.2 v.2
        else tail c l m restP l.st.curTime l.st.curTimeBar l.st.capRem l.toks := by
  obtain ⟨e1, e2⟩ := ev
  cases e2 with
  | nil => rfl
  | cons m restP =>
    unfold tokEvent tail
    simp only [bind, Except.bind]
    split
    · split
      · simp only [*]
      · simp only [*]; rfl
    · rfl

theorem tail_closed (c : Cfg) (hdef : c.defNum = c.defDen) (l l' : TkLoop) (m : Msg) (restP : List Msg)
    (a b d : Int) (toks0 : List Tok) (hm : 0 ≤ m.ch ∧ m.ch < (c.numTracks : Int))
    (h : tail c l m restP a b d toks0 = .ok l') (h0 : ∀ t ∈ toks0, t ∈ vocabSeq c) :
    ∀ t ∈ l'.toks, t ∈ vocabSeq c := by
  unfold tail at h
  simp only at h
  split at h
  · -- note on
    split at h
    · cases h
    · rename_i off _
      split at h
      · cases h
      · rename_i vel hvel
        split at h
        · cases h
        · rename_i hpitch
          split at h
          · cases h
          · rename_i hvalue
            cases h
            have hvelmem : vel ∈ c.bins := List.mem_of_getElem? hvel
            have hvalmem : off.time - m.time ∈ c.values := by simpa using hvalue
            have hp : c.pitchLo ≤ m.note ∧ m.note ≤ c.pitchHi := by simpa using hpitch
            have hch : m.ch ∈ Vocab.tracks c := Vocab.mem_tracks.2 hm
            intro t ht
            simp only [List.mem_cons, List.mem_append, List.mem_reverse] at ht
            rcases ht with rfl | ((ht | ht) | ht) | ht
            · rw [Vocab.note_mem]
              refine ⟨?_, hp, ?_, ?_⟩
              · unfold Vocab.trkOpts; split <;> simp [hch]
              · unfold Vocab.valOpts; split <;> simp [hvalmem]
              · unfold Vocab.velOpts; split <;> simp [hvelmem]
            · split at ht
              · rename_i hc
                simp only [List.mem_singleton] at ht; subst ht
                rw [Vocab.vel_mem]
                exact ⟨by simp at hc; exact hc.1, hvelmem⟩
              · simp at ht
            · split at ht
              · rename_i hc
                simp only [List.mem_singleton] at ht; subst ht
                rw [Vocab.val_mem]
                exact ⟨by simp at hc; exact hc.1, hvalmem⟩
              · simp at ht
            · split at ht
              · rename_i hc
                simp only [List.mem_singleton] at ht; subst ht
                rw [Vocab.trk_mem]
                exact ⟨by simp at hc; exact hc.1, hch⟩
              · simp at ht
            · exact h0 t ht
  · -- time signature
    split at h
    · cases h; exact h0
    · split at h
      · cases h
      · split at h
        · cases h
        · rename_i hr
          cases h
          intro t ht
          rcases List.mem_cons.1 ht with rfl | ht
          · rw [Vocab.tsig_mem]
            exact ⟨by simpa using hr, hdef⟩
          · exact h0 t ht
  · cases h; exact h0

theorem tokEvent_closed (c : Cfg) (hdef : c.defNum = c.defDen) (shift : Int) (l l' : TkLoop)
    (ev : Int × Pairing) (hch : ∀ m ∈ ev.2.head?, 0 ≤ m.ch ∧ m.ch < (c.numTracks : Int))
    (h : tokEvent c shift l ev = .ok l') (h0 : ∀ t ∈ l.toks, t ∈ vocabSeq c) :
    ∀ t ∈ l'.toks, t ∈ vocabSeq c := by
  rw [tokEvent_eq] at h
  split at h
  · cases h
  · rename_i m restP hev
    have hm := hch m (by simp [hev])
    split at h
    · split at h
      · cases h
      · rename_i v hv
        refine tail_closed c hdef l l' m restP _ _ _ _ hm h ?_
        exact applyRest_closed c (· ∈ vocabSeq c) (Vocab.bar_mem c) (fun v hv => Vocab.rest_mem.2 hv)
          _ _ _ _ _ v.1 v.2 hv h0
    · exact tail_closed c hdef l l' m restP _ _ _ _ hm h h0

theorem foldlM_closed (c : Cfg) (hdef : c.defNum = c.defDen) (shift : Int) (evs : List (Int × Pairing))
    (l l' : TkLoop)
    (hch : ∀ ev ∈ evs, ∀ m ∈ ev.2.head?, 0 ≤ m.ch ∧ m.ch < (c.numTracks : Int))
    (h : tokeniseCore.foldlM'' (tokEvent c shift) l evs = .ok l') (h0 : ∀ t ∈ l.toks, t ∈ vocabSeq c) :
    ∀ t ∈ l'.toks, t ∈ vocabSeq c := by
  induction evs generalizing l with
  | nil => simp only [tokeniseCore.foldlM''] at h; cases h; exact h0
  | cons ev evs ih =>
    simp only [tokeniseCore.foldlM''] at h
    split at h
    · rename_i l1 h1
      exact ih l1 (fun e he => hch e (by simp [he])) h
        (tokEvent_closed c hdef shift l l1 ev (hch ev (by simp)) h1 h0)
    · cases h

theorem tokeniseCore_closed (c : Cfg) (hdef : c.defNum = c.defDen) (st st' : TokSt)
    (evs : List (Int × Pairing)) (toks : List Tok)
    (hch : ∀ ev ∈ evs, ∀ m ∈ ev.2.head?, 0 ≤ m.ch ∧ m.ch < (c.numTracks : Int))
    (hok : tokeniseCore c st evs = .ok (toks, st')) : ∀ t ∈ toks, t ∈ vocabSeq c := by
  unfold tokeniseCore at hok
  simp only [bind, Except.bind] at hok
  split at hok
  · cases hok
  · rename_i l hl
    have hl' := foldlM_closed c hdef _ evs _ l hch hl (by simp)
    split at hok
    · split at hok
      · cases hok
      · rename_i v hv
        cases hok
        have := applyRest_closed c (· ∈ vocabSeq c) (Vocab.bar_mem c) (fun v hv => Vocab.rest_mem.2 hv)
          _ _ _ _ _ v.1 v.2 hv hl'
        intro t ht; exact this t (List.mem_reverse.1 ht)
    · cases hok
      intro t ht; exact hl' t (List.mem_reverse.1 ht)

end SCoda.Tokenise
