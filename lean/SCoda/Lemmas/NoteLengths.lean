/-
  Helper lemmas for `Props/C06` (note-length quantisation).
-/
import SCoda.Model.Quantise
import SCoda.Model.Roll
import SCoda.Lemmas.Sort
namespace SCoda.NL
open SCoda

/-! ### `fmdGo` / `nearest` -/

theorem fmdGo_spec (e : Int) (coll : List Int) :
    ∀ (l pre : List Int) (best : Option (Nat × Int)), coll = pre ++ l → coll ≠ [] →
      (match best with
        | Option.none => pre = []
        | some (j, d) => ∃ v, coll[j]? = some v ∧ d = (v - e).natAbs ∧ ∀ w ∈ pre, d ≤ (w - e).natAbs) →
      ∃ v, coll[fmdGo e l pre.length best]? = some v ∧ ∀ w ∈ coll, (v - e).natAbs ≤ (w - e).natAbs := by
  intro l
  induction l with
  | nil =>
    intro pre best hc hne hb
    simp only [List.append_nil] at hc
    subst hc
    cases best with
    | none => exact absurd hb hne
    | some b =>
      obtain ⟨j, d⟩ := b
      obtain ⟨v, hv, hd, hmin⟩ := hb
      refine ⟨v, by simpa [fmdGo] using hv, ?_⟩
      intro w hw; have := hmin w hw; omega
  | cons c cs ih =>
    intro pre best hc hne hb
    have hc' : coll = (pre ++ [c]) ++ cs := by simp [hc]
    have hlen : (pre ++ [c]).length = pre.length + 1 := by simp
    have hci : coll[pre.length]? = some c := by simp [hc]
    have hzero : (c - e).natAbs = 0 → ∃ v, coll[pre.length]? = some v ∧
        ∀ w ∈ coll, (v - e).natAbs ≤ (w - e).natAbs := by
      intro h0
      exact ⟨c, hci, fun w _ => by omega⟩
    cases best with
    | none =>
      simp only at hb
      simp only [fmdGo]
      split
      · rename_i h0
        exact hzero (by simpa using h0)
      · have := ih (pre ++ [c]) (some (pre.length, (c - e).natAbs)) hc' hne
          ⟨c, hci, rfl, by subst hb; simp⟩
        rwa [hlen] at this
    | some b =>
      obtain ⟨j, d⟩ := b
      obtain ⟨v, hv, hd, hmin⟩ := hb
      simp only [fmdGo]
      split
      · rename_i hlt
        split
        · rename_i h0
          exact hzero (by simpa using h0)
        · have := ih (pre ++ [c]) (some (pre.length, (c - e).natAbs)) hc' hne
            ⟨c, hci, rfl, by
              intro w hw
              rcases List.mem_append.1 hw with hw | hw
              · have := hmin w hw; omega
              · simp at hw; subst hw; omega⟩
          rwa [hlen] at this
      · rename_i hlt
        have := ih (pre ++ [c]) (some (j, d)) hc' hne
            ⟨v, hv, hd, by
              intro w hw
              rcases List.mem_append.1 hw with hw | hw
              · exact hmin w hw
              · simp at hw; subst hw; omega⟩
        rwa [hlen] at this

theorem nearest_spec (t : Int) (valid : List Int) (h : valid ≠ []) :
    ∃ v, nearest t valid = .ok v ∧ v ∈ valid ∧ ∀ w ∈ valid, (v - t).natAbs ≤ (w - t).natAbs := by
  obtain ⟨v, hv, hmin⟩ := fmdGo_spec t valid valid [] Option.none rfl h rfl
  refine ⟨v, ?_, List.mem_of_getElem? hv, hmin⟩
  simp only [nearest, findMinimalDistance]
  simp only [List.length_nil] at hv
  rw [hv]

/-! ### `removeFirst` / `validDurations` -/

theorem removeFirst_eq_erase (x : Int) (v : List Int) : removeFirst x v = v.erase x := by
  induction v with
  | nil => rfl
  | cons y ys ih =>
    simp only [removeFirst, List.erase_cons, ih]

theorem count_foldl_erase (P : Int → Prop) [DecidablePred P] (y : Int) :
    ∀ (l v : List Int),
      (l.foldl (fun v x => if P x then v.erase x else v) v).count y
        = if P y then v.count y - l.count y else v.count y := by
  intro l
  induction l with
  | nil => intro v; simp
  | cons x l ih =>
    intro v
    simp only [List.foldl_cons]
    rw [ih]
    by_cases hxy : x = y
    · subst hxy
      by_cases hp : P x
      · simp only [hp, if_true, List.count_cons_self]
        rw [List.count_erase_self]; omega
      · simp [hp]
    · by_cases hpx : P x
      · simp only [hpx, if_true]
        rw [List.count_erase_of_ne (Ne.symm hxy), List.count_cons_of_ne hxy]
      · simp only [hpx]
        rw [List.count_cons_of_ne hxy]
        simp

theorem foldl_guard_eq (Q : Int → Bool) (l v : List Int) :
    l.foldl (fun v x => if (Q x && v.contains x) = true then removeFirst x v else v) v
      = l.foldl (fun v x => if Q x = true then v.erase x else v) v := by
  congr 1
  funext v x
  rw [removeFirst_eq_erase]
  by_cases hq : Q x = true
  · by_cases hc : v.contains x = true
    · simp only [hq, hc, Bool.and_self, if_true]
    · have : x ∉ v := by simpa using hc
      simp [hq, List.erase_of_not_mem this]
  · simp [hq]

theorem foldl_rf_eq (P : Int → Prop) [DecidablePred P] (l v : List Int) :
    l.foldl (fun v x => if P x then removeFirst x v else v) v
      = l.foldl (fun v x => if P x then v.erase x else v) v := by
  congr 1
  funext v x
  rw [removeFirst_eq_erase]

theorem mem_validDurations (values : List Int) (dne : Bool) (onT offT : Int) (nextOn : Option Int) (x : Int) :
    x ∈ validDurations values dne onT offT nextOn ↔
      x ∈ values ∧ (∀ nt ∈ nextOn, onT + x ≤ nt) ∧ (dne = true → x ≤ offT - onT) := by
  unfold validDurations
  have h2 := fun v1 => foldl_guard_eq (fun x => decide (x - (offT - onT) > 0) && dne) values v1
  rw [h2]
  rw [← List.count_pos_iff, count_foldl_erase (fun x => (decide (x - (offT - onT) > 0) && dne) = true)]
  have hq : ((decide (x - (offT - onT) > 0) && dne) = true) ↔ ¬ (dne = true → x ≤ offT - onT) := by
    cases dne <;> simp <;> omega
  have hc : 0 < values.count x ↔ x ∈ values := List.count_pos_iff
  cases nextOn with
  | none =>
    simp only [hq]
    by_cases h : dne = true → x ≤ offT - onT
    · rw [if_neg (by simpa using h), hc]; exact ⟨fun a => ⟨a, by simp, h⟩, fun a => a.1⟩
    · rw [if_pos h]; simp [h]
  | some nt =>
    simp only []
    rw [foldl_rf_eq (fun x => offT + (x - (offT - onT)) > nt), count_foldl_erase (fun x => offT + (x - (offT - onT)) > nt)]
    have hp : (offT + (x - (offT - onT)) > nt) ↔ ¬ (onT + x ≤ nt) := by omega
    simp only [hq, hp]
    by_cases h : dne = true → x ≤ offT - onT
    · rw [if_neg (by simpa using h)]
      by_cases h' : onT + x ≤ nt
      · rw [if_neg (by simpa using h'), hc]; exact ⟨fun a => ⟨a, by simpa using h', h⟩, fun a => a.1⟩
      · rw [if_pos h']; simp [h']
    · rw [if_pos h]
      have : ∀ n : Nat, ¬ (0 < (if ¬ onT + x ≤ nt then n - n else n) - n) := by
        intro n; split <;> omega
      exact ⟨fun a => absurd a (this _), fun a => absurd a.2.2 h⟩

/-! ### `qnlChannel` -/

/-- the result pairing for one input pairing at position `pi.2` -/
def stepOne (values : List Int) (dne : Bool) (ps : List Pairing) (pi : Pairing × Nat) : Pairing :=
  match pi.1 with
  | [on, off] =>
    let valid := validDurations values dne on.time off.time (nextOnset ps pi.2 on.note)
    if valid.length == 0 then []
    else
      let cur := off.time - on.time
      match nearest cur valid with
      | .ok best => [on, { off with time := off.time + (best - cur) }]
      | .error _ => []
  | _ => []

theorem qnl_fold (values : List Int) (dne : Bool) (ps : List Pairing) :
    ∀ (l : List (Pairing × Nat)) (out0 : List Pairing), (∀ pi ∈ l, ∃ on off, pi.1 = [on, off]) →
    l.foldl (fun (acc : Except Err (List Pairing)) pi => do
      let out ← acc
      match pi.1 with
      | [on, off] =>
        let valid := validDurations values dne on.time off.time (nextOnset ps pi.2 on.note)
        if valid.length == 0 then .ok (out ++ [[]])
        else
          let cur := off.time - on.time
          let best ← nearest cur valid
          .ok (out ++ [[on, { off with time := off.time + (best - cur) }]])
      | _ => .error .indexError) (.ok out0) = .ok (out0 ++ l.map (stepOne values dne ps)) := by
  intro l
  induction l with
  | nil => intro out0 _; simp
  | cons pi l ih =>
    intro out0 h
    obtain ⟨on, off, hpi⟩ := h pi (by simp)
    obtain ⟨p, i⟩ := pi
    simp only at hpi
    subst hpi
    simp only [List.foldl_cons, List.map_cons]
    have hstep : (do
        let out ← (Except.ok out0 : Except Err (List Pairing))
        match ([on, off] : Pairing) with
        | [on, off] =>
          let valid := validDurations values dne on.time off.time (nextOnset ps i on.note)
          if valid.length == 0 then .ok (out ++ [[]])
          else
            let cur := off.time - on.time
            let best ← nearest cur valid
            .ok (out ++ [[on, { off with time := off.time + (best - cur) }]])
        | _ => .error .indexError) = Except.ok (out0 ++ [stepOne values dne ps ([on, off], i)]) := by
      simp only [bind, Except.bind, stepOne]
      split
      · rfl
      · rename_i hne
        have hne' : validDurations values dne on.time off.time (nextOnset ps i on.note) ≠ [] := by
          intro h0; rw [h0] at hne; simp at hne
        obtain ⟨v, hv, _⟩ := nearest_spec (off.time - on.time) _ hne'
        simp only [hv]
    rw [hstep, ih _ (fun pi hp => h pi (List.mem_cons_of_mem _ hp))]
    simp

theorem qnlChannel_eq (values : List Int) (dne : Bool) (ps : List Pairing)
    (h2 : ∀ p ∈ ps, ∃ on off, p = [on, off]) :
    qnlChannel values dne ps = .ok (ps.zipIdx.map (stepOne values dne ps)) := by
  have := qnl_fold values dne ps ps.zipIdx [] ?_
  · rw [List.nil_append] at this
    exact this
  · intro pi hpi
    obtain ⟨p, i⟩ := pi
    have := List.mem_zipIdx hpi
    exact h2 p (by rw [this.2.2]; exact List.getElem_mem _)

/-! ### association lists -/

section assoc
variable {κ ν : Type} [DecidableEq κ]

/-- keys are pairwise distinct -/
def KN (d : Assoc κ ν) : Prop := d.Pairwise (fun a b => a.1 ≠ b.1)

theorem get?_set (d : Assoc κ ν) (q k : κ) (v : ν) :
    (Assoc.set d q v).get? k = if q = k then some v else d.get? k := by
  induction d with
  | nil => simp [Assoc.set, Assoc.get?]
  | cons a d ih =>
    obtain ⟨k', w⟩ := a
    simp only [Assoc.set]
    split
    · rename_i h; subst h
      simp only [Assoc.get?]
      split <;> rfl
    · rename_i h
      simp only [Assoc.get?, ih]
      split
      · rename_i h'; subst h'; rw [if_neg (Ne.symm h)]
      · rfl

theorem mem_set (d : Assoc κ ν) (q : κ) (v : ν) (c : κ × ν) (h : c ∈ Assoc.set d q v) :
    c.1 = q ∨ c ∈ d := by
  induction d with
  | nil => simp [Assoc.set] at h; left; rw [h]
  | cons a d ih =>
    obtain ⟨k', w⟩ := a
    simp only [Assoc.set] at h
    split at h
    · rename_i hk
      rcases List.mem_cons.1 h with h | h
      · left; rw [h]; exact hk
      · right; exact List.mem_cons_of_mem _ h
    · rcases List.mem_cons.1 h with h | h
      · right; rw [h]; exact List.mem_cons_self
      · rcases ih h with h | h
        · left; exact h
        · right; exact List.mem_cons_of_mem _ h

theorem KN_set (d : Assoc κ ν) (q : κ) (v : ν) (h : KN d) : KN (Assoc.set d q v) := by
  induction d with
  | nil => simp [Assoc.set, KN]
  | cons a d ih =>
    obtain ⟨k', w⟩ := a
    unfold KN at h ⊢
    rw [List.pairwise_cons] at h
    simp only [Assoc.set]
    split
    · exact List.pairwise_cons.2 h
    · rename_i hk
      refine List.pairwise_cons.2 ⟨?_, ih h.2⟩
      intro c hc
      rcases mem_set d q v c hc with hc | hc
      · rw [hc]; exact hk
      · exact h.1 c hc

theorem erase_sublist (d : Assoc κ ν) (q : κ) : (Assoc.erase d q).Sublist d := by
  induction d with
  | nil => simp [Assoc.erase]
  | cons a d ih =>
    obtain ⟨k', w⟩ := a
    simp only [Assoc.erase]
    split
    · exact List.sublist_cons_self _ _
    · exact ih.cons_cons _

theorem KN_erase (d : Assoc κ ν) (q : κ) (h : KN d) : KN (Assoc.erase d q) :=
  List.Pairwise.sublist (erase_sublist d q) h

theorem get?_eq_none (d : Assoc κ ν) (q : κ) (h : ∀ c ∈ d, c.1 ≠ q) : d.get? q = none := by
  induction d with
  | nil => rfl
  | cons a d ih =>
    obtain ⟨k', w⟩ := a
    simp only [Assoc.get?]
    rw [if_neg (h (k', w) List.mem_cons_self)]
    exact ih (fun c hc => h c (List.mem_cons_of_mem _ hc))

theorem get?_erase_self (d : Assoc κ ν) (q : κ) (h : KN d) : (Assoc.erase d q).get? q = none := by
  induction d with
  | nil => rfl
  | cons a d ih =>
    obtain ⟨k', w⟩ := a
    unfold KN at h
    rw [List.pairwise_cons] at h
    simp only [Assoc.erase]
    split
    · rename_i hk; subst hk
      exact get?_eq_none d k' (fun c hc => Ne.symm (h.1 c hc))
    · rename_i hk
      simp only [Assoc.get?, if_neg hk]
      exact ih h.2

theorem get?_erase_ne (d : Assoc κ ν) (q k : κ) (h : q ≠ k) : (Assoc.erase d q).get? k = d.get? k := by
  induction d with
  | nil => rfl
  | cons a d ih =>
    obtain ⟨k', w⟩ := a
    simp only [Assoc.erase]
    split
    · rename_i hk; subst hk
      simp only [Assoc.get?, if_neg h]
    · simp only [Assoc.get?, ih]

theorem get?_of_mem (d : Assoc κ ν) (c : κ × ν) (h : KN d) (hc : c ∈ d) : d.get? c.1 = some c.2 := by
  induction d with
  | nil => simp at hc
  | cons a d ih =>
    obtain ⟨k', w⟩ := a
    unfold KN at h
    rw [List.pairwise_cons] at h
    simp only [Assoc.get?]
    rcases List.mem_cons.1 hc with hc | hc
    · subst hc; simp
    · rw [if_neg (h.1 c hc), ih h.2 hc]

end assoc

theorem getElem?_modifyAt {α} (f : α → α) (i j : Nat) (l : List α) :
    (modifyAt f i l)[j]? = if j = i then l[j]?.map f else l[j]? := by
  induction l generalizing i j with
  | nil => cases i <;> simp [modifyAt]
  | cons x xs ih =>
    cases i with
    | zero =>
      cases j <;> simp [modifyAt]
    | succ i =>
      cases j with
      | zero => simp [modifyAt]
      | succ j => simp [modifyAt, ih]

/-! ### the pairing fold -/

/-- a closed, well-formed note pairing whose note-on comes from `src` -/
def GoodPair (src : List Msg) (p : Pairing) : Prop :=
  ∃ on off, p = [on, off] ∧ on.ty = .noteOn ∧ off.ty = .noteOff ∧ off.nkey = on.nkey ∧ on ∈ src

structure Good (src : List Msg) (s : PairSt) : Prop where
  knp : KN s.pairs
  kno : KN s.opens
  A : ∀ ch l, s.pairs.get? ch = some l → ∀ i p, l[i]? = some p →
      (∃ on, p = [on] ∧ on.ty = .noteOn ∧ on.ch = ch ∧ on ∈ src ∧ s.opens.get? on.nkey = some i)
        ∨ GoodPair src p
  B : ∀ k i, s.opens.get? k = some i →
      ∃ l on, s.pairs.get? k.1 = some l ∧ l[i]? = some [on] ∧ on.nkey = k

def ensureCh (s : PairSt) (ch : Int) : PairSt :=
  if s.pairs.contains ch then s else { s with pairs := s.pairs.set ch [] }

def closeOp (s : PairSt) (k : Int × Int) (i : Nat) (off : Msg) : PairSt :=
  { pairs := s.pairs.set k.1 (modifyAt (· ++ [off]) i ((s.pairs.get? k.1).getD [])),
    opens := s.opens.erase k }

def openOp (s : PairSt) (m : Msg) : PairSt :=
  { pairs := s.pairs.set m.ch (((s.pairs.get? m.ch).getD []) ++ [[m]]),
    opens := s.opens.set m.nkey ((s.pairs.get? m.ch).getD []).length }

theorem ensure_good (src : List Msg) (s : PairSt) (ch : Int) (h : Good src s) :
    Good src (ensureCh s ch) ∧ ∃ l, (ensureCh s ch).pairs.get? ch = some l := by
  unfold ensureCh
  by_cases hc : s.pairs.contains ch = true
  · rw [if_pos hc]
    refine ⟨h, ?_⟩
    simp only [Assoc.contains] at hc
    exact Option.isSome_iff_exists.1 hc
  · rw [if_neg hc]
    have hn : s.pairs.get? ch = none := by
      simp only [Assoc.contains] at hc
      simpa using hc
    refine ⟨⟨KN_set _ _ _ h.knp, h.kno, ?_, ?_⟩, ?_⟩
    · intro ch' l hl i p hp
      simp only [get?_set] at hl
      split at hl
      · simp only [Option.some.injEq] at hl; subst hl; simp at hp
      · exact h.A ch' l hl i p hp
    · intro k i hk
      obtain ⟨l, on, h1, h2, h3⟩ := h.B k i hk
      refine ⟨l, on, ?_, h2, h3⟩
      simp only [get?_set]
      split
      · rename_i he; rw [← he, hn] at h1; cases h1
      · exact h1
    · simp [get?_set]

theorem close_good (src : List Msg) (s : PairSt) (k : Int × Int) (i : Nat) (off : Msg)
    (h : Good src s) (hk : s.opens.get? k = some i) (hty : off.ty = .noteOff) (hkey : off.nkey = k) :
    Good src (closeOp s k i off) ∧ (closeOp s k i off).opens.get? k = none
      ∧ ∀ ch, (s.pairs.get? ch).isSome → ((closeOp s k i off).pairs.get? ch).isSome := by
  obtain ⟨L, on, hL, hLi, hon⟩ := h.B k i hk
  have hon' : on.ty = .noteOn ∧ on ∈ src := by
    rcases h.A k.1 L hL i [on] hLi with ⟨on', h1, h2, _, h4, _⟩ | ⟨a, b, h1, _⟩
    · simp only [List.cons.injEq, and_true] at h1; subst h1; exact ⟨h2, h4⟩
    · simp at h1
  have hself : (Assoc.erase s.opens k).get? k = none := get?_erase_self _ _ h.kno
  refine ⟨⟨KN_set _ _ _ h.knp, KN_erase _ _ h.kno, ?_, ?_⟩, hself, ?_⟩
  · intro ch' l hl j p hp
    simp only [closeOp, get?_set] at hl
    -- an old singleton elsewhere keeps its record
    have hold : ∀ ch' L' , s.pairs.get? ch' = some L' → L'[j]? = some p → (ch' = k.1 → j ≠ i) →
        (∃ on, p = [on] ∧ on.ty = .noteOn ∧ on.ch = ch' ∧ on ∈ src ∧
          (closeOp s k i off).opens.get? on.nkey = some j) ∨ GoodPair src p := by
      intro ch' L' hL' hp' hne
      rcases h.A ch' L' hL' j p hp' with ⟨on', h1, h2, h3, h4, h5⟩ | hg
      · left
        refine ⟨on', h1, h2, h3, h4, ?_⟩
        simp only [closeOp]
        rw [get?_erase_ne _ _ _ ?_]
        · exact h5
        · intro he
          rw [← he, hk] at h5
          have hij : i = j := by simpa using h5
          have : ch' = k.1 := by rw [← h3, he]; rfl
          exact hne this hij.symm
      · right; exact hg
    split at hl
    · rename_i hch
      simp only [Option.some.injEq] at hl
      subst hl
      rw [hL] at hp
      simp only [Option.getD_some, getElem?_modifyAt] at hp
      split at hp
      · rename_i hji
        subst hji
        rw [hLi] at hp
        simp only [Option.map_some, Option.some.injEq] at hp
        right
        exact ⟨on, off, hp.symm, hon'.1, hty, by rw [hkey, hon], hon'.2⟩
      · rename_i hji
        exact hold ch' L (hch ▸ hL) hp (fun _ => hji)
    · rename_i hch
      exact hold ch' l hl hp (fun he => absurd he.symm hch)
  · intro k' i' hk'
    simp only [closeOp] at hk'
    have hne : k ≠ k' := by
      intro he; rw [← he, hself] at hk'; cases hk'
    rw [get?_erase_ne _ _ _ hne] at hk'
    obtain ⟨L', on', h1, h2, h3⟩ := h.B k' i' hk'
    simp only [closeOp, get?_set]
    split
    · rename_i hch
      rw [← hch, hL] at h1
      simp only [Option.some.injEq] at h1
      subst h1
      refine ⟨_, on', rfl, ?_, h3⟩
      rw [hL]
      simp only [Option.getD_some, getElem?_modifyAt]
      split
      · rename_i hii
        subst hii
        rw [hLi] at h2
        simp only [Option.some.injEq, List.cons.injEq, and_true] at h2
        subst h2
        exact absurd (hon.symm.trans h3) hne
      · exact h2
    · exact ⟨L', on', h1, h2, h3⟩
  · intro ch hch
    simp only [closeOp, get?_set]
    split <;> simp [hch]

theorem open_good (src : List Msg) (s : PairSt) (m : Msg)
    (h : Good src s) (hk : s.opens.get? m.nkey = none) (hty : m.ty = .noteOn) (hsrc : m ∈ src)
    (L : List Pairing) (hL : s.pairs.get? m.ch = some L) :
    Good src (openOp s m) := by
  refine ⟨KN_set _ _ _ h.knp, KN_set _ _ _ h.kno, ?_, ?_⟩
  · intro ch' l hl j p hp
    simp only [openOp, get?_set, hL, Option.getD_some] at hl ⊢
    have hold : ∀ ch' L', s.pairs.get? ch' = some L' → L'[j]? = some p →
        (∃ on, p = [on] ∧ on.ty = .noteOn ∧ on.ch = ch' ∧ on ∈ src ∧
          (if m.nkey = on.nkey then some L.length else s.opens.get? on.nkey) = some j) ∨ GoodPair src p := by
      intro ch' L' hL' hp'
      rcases h.A ch' L' hL' j p hp' with ⟨on', h1, h2, h3, h4, h5⟩ | hg
      · left
        refine ⟨on', h1, h2, h3, h4, ?_⟩
        rw [if_neg ?_]
        · exact h5
        · intro he; rw [← he, hk] at h5; cases h5
      · right; exact hg
    split at hl
    · rename_i hch
      simp only [Option.some.injEq] at hl
      subst hl
      by_cases hj : j < L.length
      · rw [List.getElem?_append_left hj] at hp
        exact hold ch' L (hch ▸ hL) hp
      · rw [List.getElem?_append_right (by omega)] at hp
        have hj0 : j - L.length = 0 := by
          cases hjj : j - L.length with
          | zero => rfl
          | succ n => rw [hjj] at hp; simp at hp
        rw [hj0] at hp
        simp only [List.getElem?_cons_zero, Option.some.injEq] at hp
        left
        refine ⟨m, hp.symm, hty, hch, hsrc, ?_⟩
        rw [if_pos rfl]
        congr 1; omega
    · exact hold ch' l hl hp
  · intro k' i' hk'
    simp only [openOp, get?_set, hL, Option.getD_some] at hk' ⊢
    split at hk'
    · rename_i hkk
      simp only [Option.some.injEq] at hk'
      subst hk'
      rw [if_pos (by rw [← hkk]; rfl)]
      exact ⟨_, m, rfl, by simp, hkk⟩
    · rename_i hkk
      obtain ⟨L', on', h1, h2, h3⟩ := h.B k' i' hk'
      split
      · rename_i hch
        rw [← hch, hL] at h1
        simp only [Option.some.injEq] at h1
        subst h1
        refine ⟨_, on', rfl, ?_, h3⟩
        rw [List.getElem?_append_left]
        · exact h2
        · exact (List.getElem?_eq_some_iff.1 h2).1
      · exact ⟨L', on', h1, h2, h3⟩

theorem pairStep_on (s : PairSt) (m : Msg) (hty : m.ty = .noteOn) :
    pairStep notePairTypes true s m = openOp (match (ensureCh s m.ch).opens.get? m.nkey with
      | some i => closeOp (ensureCh s m.ch) m.nkey i (Msg.mkOff m.ch m.note m.time)
      | none => ensureCh s m.ch) m := by
  unfold pairStep
  have hc : (!notePairTypes.contains m.ty) = false := by rw [hty]; decide
  rw [if_neg (by rw [hc]; simp)]
  simp only [hty]
  have he : (if s.pairs.contains m.ch = true then s else { s with pairs := s.pairs.set m.ch [] })
      = ensureCh s m.ch := rfl
  rw [he]
  generalize ensureCh s m.ch = s1
  cases hk : s1.opens.get? m.nkey with
  | none => simp [PairSt.append, openOp, get?_set]
  | some i => simp [PairSt.append, PairSt.appendAt, openOp, closeOp, get?_set, Msg.nkey]

theorem pairStep_off (s : PairSt) (m : Msg) (hty : m.ty = .noteOff) :
    pairStep notePairTypes true s m = (match (ensureCh s m.ch).opens.get? m.nkey with
      | none => ensureCh s m.ch
      | some i => closeOp (ensureCh s m.ch) m.nkey i m) := by
  unfold pairStep
  have hc : (!notePairTypes.contains m.ty) = false := by rw [hty]; decide
  rw [if_neg (by rw [hc]; simp)]
  simp only [hty]
  rfl

theorem pairStep_good (src : List Msg) (s : PairSt) (m : Msg) (h : Good src s) (hm : m ∈ src) :
    Good src (pairStep notePairTypes true s m) := by
  by_cases hty : m.ty = .noteOn
  · rw [pairStep_on s m hty]
    obtain ⟨h1, L, hL⟩ := ensure_good src s m.ch h
    cases hk : (ensureCh s m.ch).opens.get? m.nkey with
    | none =>
      exact open_good src _ m h1 hk hty hm L hL
    | some i =>
      simp only
      obtain ⟨h2, h3, h4⟩ := close_good src _ m.nkey i (Msg.mkOff m.ch m.note m.time) h1 hk rfl rfl
      have := h4 m.ch (by rw [hL]; rfl)
      obtain ⟨L', hL'⟩ := Option.isSome_iff_exists.1 this
      exact open_good src _ m h2 h3 hty hm L' hL'
  · by_cases hty' : m.ty = .noteOff
    · rw [pairStep_off s m hty']
      obtain ⟨h1, L, hL⟩ := ensure_good src s m.ch h
      cases hk : (ensureCh s m.ch).opens.get? m.nkey with
      | none => exact h1
      | some i => exact (close_good src _ m.nkey i m h1 hk hty' rfl).1
    · unfold pairStep
      have hc : (!notePairTypes.contains m.ty) = true := by
        revert hty hty'; cases m.ty <;> decide
      rw [if_pos hc]
      exact h

theorem good_init (src : List Msg) : Good src {} :=
  ⟨List.Pairwise.nil, List.Pairwise.nil, (by intro ch l hl; cases hl), (by intro k i hk; cases hk)⟩


theorem fold_good (src : List Msg) : ∀ (l : List Msg) (s : PairSt), Good src s → (∀ m ∈ l, m ∈ src) →
    Good src (l.foldl (pairStep notePairTypes true) s) := by
  intro l
  induction l with
  | nil => intro s h _; exact h
  | cons m l ih =>
    intro s h hm
    exact ih _ (pairStep_good src s m h (hm m List.mem_cons_self)) (fun x hx => hm x (List.mem_cons_of_mem _ hx))

theorem pairings_good (stdLen : Int) (a : List Msg) :
    ∀ c ∈ pairingsSorted notePairTypes stdLen true a, ∀ p ∈ c.2, GoodPair a p := by
  intro c hc p hp
  have hg := fold_good a a {} (good_init a) (fun _ h => h)
  simp only [pairingsSorted, List.mem_map] at hc
  obtain ⟨kv, hkv, rfl⟩ := hc
  simp only [List.mem_map] at hp
  obtain ⟨p0, hp0, rfl⟩ := hp
  have hget := get?_of_mem _ kv hg.knp hkv
  obtain ⟨j, hj⟩ := List.getElem?_of_mem hp0
  rcases hg.A kv.1 kv.2 hget j p0 hj with ⟨on, h1, h2, h3, h4, _⟩ | hgp
  · subst h1
    refine ⟨on, Msg.mkOff on.ch on.note (on.time + stdLen), ?_, h2, rfl, rfl, h4⟩
    simp [closeUnclosed, h2]
  · obtain ⟨on, off, h1, rest⟩ := hgp
    subst h1
    exact ⟨on, off, rfl, rest⟩

/-! ### the whole operation -/

/-- the messages one channel contributes -/
def chanOut (values : List Int) (dne : Bool) (c : Int × List Pairing) : List Msg :=
  (c.2.zipIdx.map (stepOne values dne c.2)).flatten

theorem foldlM'_qnl (values : List Int) (dne : Bool) :
    ∀ (cp : List (Int × List Pairing)) (acc : List Msg),
      (∀ c ∈ cp, ∀ p ∈ c.2, ∃ on off, p = [on, off]) →
      foldlM' (fun acc (c : Int × List Pairing) => do
        let ps ← qnlChannel values dne c.2
        .ok (acc ++ ps.flatten)) acc cp = .ok (acc ++ cp.flatMap (chanOut values dne)) := by
  simp only [bind, Except.bind]
  intro cp
  induction cp with
  | nil => intro acc _; simp [foldlM']
  | cons c cp ih =>
    intro acc h
    simp only [foldlM']
    rw [qnlChannel_eq values dne c.2 (h c List.mem_cons_self)]
    simp only
    rw [ih _ (fun c' hc' => h c' (List.mem_cons_of_mem _ hc'))]
    simp [chanOut]

theorem quantise_eq (values : List Int) (stdLen : Int) (dne : Bool) (a : List Msg) :
    quantiseNoteLengths values stdLen dne a =
      .ok (sortAbs ((pairingsSorted notePairTypes stdLen true (sortAbs a)).flatMap (chanOut values dne)
        ++ (sortAbs a).filter (fun m => m.ty != .noteOn && m.ty != .noteOff))) := by
  unfold quantiseNoteLengths
  have h := foldlM'_qnl values dne (pairingsSorted notePairTypes stdLen true (sortAbs a)) [] ?_
  · simp only [bind, Except.bind] at h ⊢
    rw [h]
    simp
  · intro c hc p hp
    obtain ⟨on, off, h, _⟩ := pairings_good stdLen (sortAbs a) c hc p hp
    exact ⟨on, off, h⟩

theorem stepOne_cases (values : List Int) (dne : Bool) (ps : List Pairing) (i : Nat) (on off : Msg) :
    stepOne values dne ps ([on, off], i) = [] ∨
      ∃ x ∈ values, stepOne values dne ps ([on, off], i) = [on, { off with time := on.time + x }] := by
  simp only [stepOne]
  split
  · left; rfl
  · rename_i hne
    right
    have hne' : validDurations values dne on.time off.time (nextOnset ps i on.note) ≠ [] := by
      intro h0; rw [h0] at hne; simp at hne
    obtain ⟨v, hv, hmem, _⟩ := nearest_spec (off.time - on.time) _ hne'
    refine ⟨v, ((mem_validDurations _ _ _ _ _ _).1 hmem).1, ?_⟩
    simp only [hv]
    have : off.time + (v - (off.time - on.time)) = on.time + v := by omega
    rw [this]

theorem mem_chanOut (values : List Int) (dne : Bool) (src : List Msg) (c : Int × List Pairing)
    (hc : ∀ p ∈ c.2, GoodPair src p) (m : Msg) (hm : m ∈ chanOut values dne c) :
    ∃ (on off : Msg) (x : Int), x ∈ values ∧ on.ty = .noteOn ∧ off.ty = .noteOff ∧ off.nkey = on.nkey ∧ on ∈ src
      ∧ on ∈ chanOut values dne c ∧ (m = on ∨ m = { off with time := on.time + x }) := by
  simp only [chanOut, List.mem_flatten, List.mem_map] at hm
  obtain ⟨q, ⟨pi, hpi, rfl⟩, hmq⟩ := hm
  obtain ⟨p, i⟩ := pi
  have hp : p ∈ c.2 := by
    have := List.mem_zipIdx hpi
    rw [this.2.2]; exact List.getElem_mem _
  obtain ⟨on, off, rfl, h1, h2, h3, h4⟩ := hc p hp
  rcases stepOne_cases values dne c.2 i on off with h0 | ⟨x, hx, hs⟩
  · rw [h0] at hmq; simp at hmq
  · refine ⟨on, off, x, hx, h1, h2, h3, h4, ?_, ?_⟩
    · simp only [chanOut, List.mem_flatten, List.mem_map]
      exact ⟨_, ⟨_, hpi, rfl⟩, by rw [hs]; simp⟩
    · rw [hs] at hmq
      simpa using hmq

end SCoda.NL
