/-
  Helper lemmas for Props/TokTie3.lean (audit round 4, item C6 first bullet, the call flag `insert_bar_token`), part 1: the closure
  `_apply_rest` with `insert_bar_token = ibt` for BOTH values of the flag.

  The hand model `applyRest` (Model/Token.lean) always emits the bar token.  `applyRestB ibt` below is a copy of it with the flag as a
  parameter (notelike_tokenisation.py:136-137 `if insert_bar_token: tokens.append(BAR)`); it is an intermediate of the proof only: the
  `true` instance IS `applyRest`, the `false` instance is `applyRest` with the bar tokens filtered out (`applyRestB_keep`), and the
  generated `_apply_rest` is `applyRestB ibt` for all inputs (`tokeniseApplyRest_handB`).  The proofs of the tie are those of
  Lemmas/TokTieL.lean (`tokeniseApplyRest_eq`, `restLoop_eq`, `tokeniseApplyRest_hand`) with the flag as a variable.  Core only.
-/
import SCoda.Lemmas.TokTieL
set_option linter.unusedSimpArgs false
set_option linter.unusedVariables false
namespace SCoda.TokTieBarL
open SCoda SCoda.TokLib SCoda.Gen.Tok SCoda.TokTieL SCoda.RenderL

/-- `_apply_rest(rest)` with `insert_bar_token = ibt` (copy of `applyRest`; the bar token is emitted only if `ibt`) -/
def applyRestB (ibt : Bool) (c : Cfg) (capTotal : Int) :
    Nat → Int → (Int × Int × Int) → List Tok → Except Err ((Int × Int × Int) × List Tok)
  | 0, buf, st, acc => if buf > 0 then .error .fuel else .ok (st, acc)
  | fuel + 1, buf, (cur, bar, rem), acc =>
    if buf > 0 then
      let nxt := min buf rem
      match c.steps.getLast? with
      | Option.none => .error .indexError
      | some last =>
        if !(nxt > last || c.steps.any (fun s => nxt >= s)) then .error .tokenisationError else
        let v := if nxt > last then some last else largestLe c.steps nxt
        match v with
        | Option.none => .error .tokenisationError
        | some v =>
          let cur := cur + v
          let bar := bar + v
          let rem := rem - v
          let acc := Tok.rest v :: acc
          if rem == 0 then applyRestB ibt c capTotal fuel (buf - v) (cur, 0, capTotal) (if ibt then Tok.bar :: acc else acc)
          else applyRestB ibt c capTotal fuel (buf - v) (cur, bar, rem) acc
    else .ok ((cur, bar, rem), acc)

/-- one iteration of the `while` loop of `_apply_rest` on the state (tokens, cur_time, cur_time_bar, remaining, buf_rest, nxt_rest) -/
def restStepB (ibt : Bool) (steps : List Int) (capTotal : Int) (st : RSt) : Except PyErr (ForInStep RSt) :=
  if !(decide (st.2.2.2.2.1 > 0)) then .ok (.done st) else
  match pyItem steps (-1) with
  | .error e => .error e
  | .ok last =>
    if !(decide (st.2.2.2.2.2 > last) || steps.any (fun s => decide (st.2.2.2.2.2 ≥ s))) then .error .tokenisationException else
    match (if decide (st.2.2.2.2.2 > last) then .ok last
           else pyNextM (fun s => pure (decide (st.2.2.2.2.2 ≥ s))) steps.reverse) with
    | .error e => .error e
    | .ok v =>
      if st.2.2.2.1 - v == 0 then
        .ok (.yield ((if ibt then st.1 ++ [prefixOf "REST" ++ "_" ++ zpad 2 v] ++ [prefixOf "BAR"]
            else st.1 ++ [prefixOf "REST" ++ "_" ++ zpad 2 v]), st.2.1 + v, 0, capTotal,
          st.2.2.2.2.1 - v, min (st.2.2.2.2.1 - v) capTotal))
      else
        .ok (.yield (st.1 ++ [prefixOf "REST" ++ "_" ++ zpad 2 v], st.2.1 + v, st.2.2.1 + v, st.2.2.2.1 - v,
          st.2.2.2.2.1 - v, min (st.2.2.2.2.1 - v) (st.2.2.2.1 - v)))

theorem tokeniseApplyRest_eqB (ibt : Bool) (o : TokObj) (capTotal : Int) (toks : List String) (cur bar rem rest : Int) :
    tokeniseApplyRest o ibt capTotal toks cur bar rem rest =
      (forIn (List.replicate ((rest - 0).toNat + 1) ()) ((toks, cur, bar, rem, rest, min rest rem) : RSt)
        (fun _ st => restStepB ibt o.stepSizes capTotal st)) >>= restPost := by
  unfold tokeniseApplyRest
  simp only []
  congr 1
  · congr 1
    funext x st
    unfold restStepB
    by_cases hb : st.2.2.2.2.1 > 0
    · simp only [hb, decide_true, Bool.not_true, Bool.false_eq_true, if_false]
      cases hl : pyItem o.stepSizes (-1) with
      | error e => rfl
      | ok last =>
        simp only [bind, Except.bind, raiseIf]
        rcases Bool.eq_false_or_eq_true (!(decide (st.2.2.2.2.2 > last) || o.stepSizes.any fun s => decide (st.2.2.2.2.2 ≥ s)))
          with hc | hc
        · simp only [hc, if_true]; rfl
        · simp only [hc, Bool.false_eq_true, if_false, pure, Except.pure, hl]
          by_cases hn : st.2.2.2.2.2 > last
          · simp only [hn, decide_true, if_true]
            by_cases hz : (st.2.2.2.1 - last == 0) = true <;> cases ibt <;> simp [hz]
          · simp only [hn, decide_false, Bool.false_eq_true, if_false]
            cases pyNextM (fun s => Except.ok (decide (st.2.2.2.2.2 ≥ s))) o.stepSizes.reverse with
            | error e => rfl
            | ok v =>
              simp only []
              by_cases hz : (st.2.2.2.1 - v == 0) = true <;> cases ibt <;> simp [hz]
    · simp only [hb, decide_false, Bool.not_false, if_true]
      rfl
  · funext st
    unfold restPost raiseIf
    split <;> rfl



theorem restLoop_eqB (ibt : Bool) (c : Cfg) (capTotal : Int) : ∀ (fuel : Nat) (acc : List Tok) (cur bar rem buf : Int),
    (forIn (List.replicate fuel ()) (rstOf acc cur bar rem buf) (fun _ st => restStepB ibt c.steps capTotal st) >>= restPost)
      = liftE restOut (applyRestB ibt c capTotal fuel buf (cur, bar, rem) acc) := by
  intro fuel
  induction fuel with
  | zero =>
    intro acc cur bar rem buf
    simp only [List.replicate_zero, List.forIn_nil, pure_bind, restPost, rstOf, applyRestB]
    by_cases hb : buf > 0 <;> simp [hb, liftE, restOut, ofErr]
  | succ fuel ih =>
    intro acc cur bar rem buf
    rw [List.replicate_succ, List.forIn_cons]
    unfold applyRestB
    by_cases hb : buf > 0
    · simp only [hb, if_true]
      cases hl : c.steps.getLast? with
      | none =>
        have hs : restStepB ibt c.steps capTotal (rstOf acc cur bar rem buf) = .error .indexError := by
          unfold restStepB; simp [rstOf, hb, pyItem_neg_one, hl]
        rw [hs]; rfl
      | some last =>
        simp only []
        by_cases hchk : (decide (min buf rem > last) || c.steps.any fun s => decide (min buf rem ≥ s)) = true
        · simp only [hchk, Bool.not_true, Bool.false_eq_true, if_false]
          have key : ∀ v, (if min buf rem > last then some last else largestLe c.steps (min buf rem)) = some v →
              restStepB ibt c.steps capTotal (rstOf acc cur bar rem buf) =
                if rem - v == 0 then .ok (.yield (rstOf (if ibt then Tok.bar :: Tok.rest v :: acc else Tok.rest v :: acc) (cur + v) 0 capTotal (buf - v)))
                else .ok (.yield (rstOf (Tok.rest v :: acc) (cur + v) (bar + v) (rem - v) (buf - v))) := by
            intro v hv
            unfold restStepB
            simp only [rstOf, hb, decide_true, Bool.not_true, Bool.false_eq_true, if_false, pyItem_neg_one, hl, hchk]
            by_cases hn : min buf rem > last
            · simp only [hn, if_true, Option.some.injEq] at hv
              subst hv
              simp only [hn, decide_true, if_true, Bool.true_or, Bool.not_true, Bool.false_eq_true, if_false]
              split <;> cases ibt <;> simp_all [render]
            · simp only [hn, if_false, largestLe_eq_find] at hv
              have hany : (c.steps.any fun s => decide (min buf rem ≥ s)) = true := by simpa [hn] using hchk
              simp only [hn, decide_false, Bool.false_eq_true, if_false, pyNextM_pure, hv, Bool.false_or]
              split
              · rename_i hcontra; simp [hany] at hcontra
              · split <;> cases ibt <;> simp_all [render]
          have hsome : ∃ v, (if min buf rem > last then some last else largestLe c.steps (min buf rem)) = some v := by
            by_cases hn : min buf rem > last
            · exact ⟨last, by simp [hn]⟩
            · have hany : (c.steps.any fun s => decide (min buf rem ≥ s)) = true := by simpa [hn] using hchk
              obtain ⟨v, hv⟩ := find_isSome_of_any _ _ hany
              exact ⟨v, by simp [hn, largestLe_eq_find, hv]⟩
          obtain ⟨v, hv⟩ := hsome
          rw [key v hv, hv]
          simp only []
          by_cases hz : rem - v = 0
          · have hz' : (rem - v == 0) = true := by simp [hz]
            simp only [hz', if_true, bind, Except.bind]
            have := ih (if ibt then Tok.bar :: Tok.rest v :: acc else Tok.rest v :: acc) (cur + v) 0 capTotal (buf - v)
            simpa only [bind, Except.bind] using this
          · have hz' : (rem - v == 0) = false := by simp [hz]
            simp only [hz', Bool.false_eq_true, if_false, bind, Except.bind]
            have := ih (Tok.rest v :: acc) (cur + v) (bar + v) (rem - v) (buf - v)
            simpa only [bind, Except.bind] using this
        · have hchk' : (decide (min buf rem > last) || c.steps.any fun s => decide (min buf rem ≥ s)) = false := by
            simpa using hchk
          have hs : restStepB ibt c.steps capTotal (rstOf acc cur bar rem buf) = .error .tokenisationException := by
            unfold restStepB; simp [rstOf, hb, pyItem_neg_one, hl, hchk']
          rw [hs]; simp [hchk', liftE, ofErr]; rfl
    · simp only [hb, if_false]
      have hs : restStepB ibt c.steps capTotal (rstOf acc cur bar rem buf) = .ok (.done (rstOf acc cur bar rem buf)) := by
        unfold restStepB; simp [rstOf, hb]
      rw [hs]
      simp [rstOf, hb, restPost, liftE, restOut, bind, Except.bind, pure, Except.pure]

/-- the generated `_apply_rest` with `insert_bar_token = ibt` is `applyRestB ibt`, for all inputs -/
theorem tokeniseApplyRest_handB (ibt : Bool) (o : TokObj) (capTotal : Int) (acc : List Tok) (cur bar rem rest : Int) :
    tokeniseApplyRest o ibt capTotal (acc.reverse.map render) cur bar rem rest =
      liftE restOut (applyRestB ibt (cfgOf o) capTotal (rest.toNat + 1) rest (cur, bar, rem) acc) := by
  rw [tokeniseApplyRest_eqB, Int.sub_zero]
  exact restLoop_eqB ibt (cfgOf o) capTotal _ acc cur bar rem rest


/-! ### `applyRestB` against the hand model `applyRest` -/

/-- not the bar token -/
def notBar (t : Tok) : Bool := t != Tok.bar

/-- the tokens a call with `insert_bar_token = ibt` returns, read off the tokens of the default call: all of them, resp. all
    but the bar tokens -/
def keepBar (ibt : Bool) (l : List Tok) : List Tok := if ibt then l else l.filter notBar

theorem keep_true (l : List Tok) : keepBar true l = l := rfl
theorem keep_false (l : List Tok) : keepBar false l = l.filter notBar := rfl
theorem keep_nil (ibt : Bool) : keepBar ibt [] = [] := by cases ibt <;> rfl
theorem keep_cons_of (ibt : Bool) (t : Tok) (acc : List Tok) (h : t ≠ Tok.bar) : keepBar ibt (t :: acc) = t :: keepBar ibt acc := by
  cases ibt
  · have : notBar t = true := by simp [notBar, h]
    simp [keepBar, List.filter_cons, this]
  · rfl
theorem keep_cons_rest (ibt : Bool) (v : Int) (acc : List Tok) : keepBar ibt (Tok.rest v :: acc) = Tok.rest v :: keepBar ibt acc :=
  keep_cons_of ibt _ acc (by intro h; cases h)
theorem keep_cons_bar (ibt : Bool) (acc : List Tok) :
    keepBar ibt (Tok.bar :: acc) = if ibt then Tok.bar :: keepBar ibt acc else keepBar ibt acc := by
  cases ibt <;> simp [keepBar, notBar]
theorem keep_append (ibt : Bool) (a b : List Tok) : keepBar ibt (a ++ b) = keepBar ibt a ++ keepBar ibt b := by
  cases ibt <;> simp [keepBar]
theorem keep_reverse (ibt : Bool) (a : List Tok) : keepBar ibt a.reverse = (keepBar ibt a).reverse := by
  cases ibt <;> simp [keepBar, List.filter_reverse]

/-- result of a model call under `keepBar` -/
def mapR (ibt : Bool) : Except Err ((Int × Int × Int) × List Tok) → Except Err ((Int × Int × Int) × List Tok)
  | .ok r => .ok (r.1, keepBar ibt r.2)
  | .error e => .error e

/-- **`applyRestB ibt` is `applyRest` with the bar tokens kept (`ibt = true`) resp. filtered out (`ibt = false`)**: same clock,
    same exceptions -/
theorem applyRestB_keep (ibt : Bool) (c : Cfg) (capTotal : Int) : ∀ (fuel : Nat) (buf : Int) (clk : Int × Int × Int) (acc : List Tok),
    applyRestB ibt c capTotal fuel buf clk (keepBar ibt acc) = mapR ibt (applyRest c capTotal fuel buf clk acc) := by
  intro fuel
  induction fuel with
  | zero =>
    intro buf clk acc
    unfold applyRestB applyRest
    split <;> rfl
  | succ fuel ih =>
    intro buf clk acc
    obtain ⟨cur, bar, rem⟩ := clk
    unfold applyRestB applyRest
    by_cases hb : buf > 0
    · simp only [hb, if_true]
      cases c.steps.getLast? with
      | none => rfl
      | some last =>
        simp only []
        split
        · rfl
        · cases (if min buf rem > last then some last else largestLe c.steps (min buf rem)) with
          | none => rfl
          | some v =>
            simp only []
            split
            · rw [← ih]
              congr 1
              rw [keep_cons_bar, keep_cons_rest]
            · rw [← ih, keep_cons_rest]
    · simp only [hb, if_false]
      rfl

theorem applyRestB_true (c : Cfg) (capTotal : Int) (fuel : Nat) (buf : Int) (clk : Int × Int × Int) (acc : List Tok) :
    applyRestB true c capTotal fuel buf clk acc = applyRest c capTotal fuel buf clk acc := by
  have := applyRestB_keep true c capTotal fuel buf clk acc
  rw [keep_true] at this
  rw [this]
  cases applyRest c capTotal fuel buf clk acc <;> rfl

end SCoda.TokTieBarL
