/-
  Helper lemmas for Props/RelTie2.lean (generated `normaliseRelative` / `split` of Gen/RelFns2.lean = hand models).

  normalise_relative, stage A (syntactic, no hypothesis): the generated `do` block is the pure function `normG`
  (a left fold of `gStep` over the input objects, the final flush, the clean-up as nested folds of `cleanOne`).
  Stage B (semantic): `gStep` simulates `normStep` under the abstraction `Rel` (nested dict ↔ flat table keyed by
  (channel, pitch); object ids ↔ `Option Nat` tags), the clean-up by `in` / `remove` is the filter of the hand model.

  split, stage A (no hypothesis): the generated nested loops are the pure function `splitG` (`oStep` per capacity, `iRun` =
  the `while` loop with the generated fuel, `iStep` = its body); `iRun_exited` proves the fuel `len(working_memory) + 1`
  sufficient for every input.  Stage B: `iRun` simulates `splitInner` (`inner_sim`), `oStep` simulates `splitOuter`.
-/
import SCoda.Gen.RelFns2
import SCoda.Lemmas.ViewTieL
import SCoda.Lemmas.Normalise
import SCoda.Lemmas.Split
set_option linter.unusedSimpArgs false
namespace SCoda.RelTie2L
open SCoda SCoda.Gen.Rel2
open SCoda.ViewTieL (forIn_spec forIn_spec' forIn_spec_inv ok_bind error_bind pure_eq_ok)

/-! ## normalise_relative, stage A

### dict helpers -/
theorem get?_setDefault {κ ν : Type} [DecidableEq κ] (d : Assoc κ ν) (k : κ) (v : ν) :
    Assoc.get? (pySetDefault d k v) k = some (pyGetD d k v) := by
  unfold pySetDefault pyGetD Assoc.contains
  cases h : Assoc.get? d k with
  | some w => simp [h]
  | none => simp [h, Assoc.get?_set]

theorem pyDictGet_setDefault {κ ν : Type} [DecidableEq κ] (d : Assoc κ ν) (k : κ) (v : ν) :
    pyDictGet (pySetDefault d k v) k = .ok (pyGetD d k v) := by
  unfold pyDictGet; rw [get?_setDefault]; rfl

/-- loop state of the main loop of the generated `normaliseRelative` -/
structure GSt where
  nid : Nat
  nl : List Obj
  d : Assoc Int (Assoc Int (List Obj))
  out : List Obj
  wb : Int
  tn : Option Int
  td : Option Int
  ky : Option Int
  dc : Option Int

abbrev GTup := Nat × List Obj × Assoc Int (Assoc Int (List Obj)) × List Obj × Int × Option Int × Option Int × Option Int × Option Int
def GSt.tup (s : GSt) : GTup := (s.nid, s.nl, s.d, s.out, s.wb, s.tn, s.td, s.ky, s.dc)
def GSt.ofTup (t : GTup) : GSt :=
  { nid := t.1, nl := t.2.1, d := t.2.2.1, out := t.2.2.2.1, wb := t.2.2.2.2.1, tn := t.2.2.2.2.2.1, td := t.2.2.2.2.2.2.1,
    ky := t.2.2.2.2.2.2.2.1, dc := t.2.2.2.2.2.2.2.2 }

def GSt.emit (s : GSt) (msg : Obj) : GSt :=
  if s.wb > 0 then
    { s with nid := s.nid + 1, out := s.out ++ [(s.nid, { ty := .wait, ch := chanOfInt msg.2.ch, time := s.wb })] ++ [msg], wb := 0 }
  else { s with out := s.out ++ [msg] }

def gStep (s0 : GSt) (msg : Obj) : GSt :=
  let s1 : GSt := { s0 with dc := if s0.dc.isNone && msg.2.ch != pyNone then pyOpt msg.2.ch else s0.dc,
                            d := pySetDefault s0.d msg.2.ch [] }
  let inner := pyGetD s0.d msg.2.ch []
  match msg.2.ty with
  | .wait => { s1 with wb := s1.wb + msg.2.time }
  | .noteOn =>
    let nl := pyGetD inner msg.2.note [] ++ [msg]
    let s2 : GSt := { s1 with nl := nl, d := Assoc.set s1.d msg.2.ch (Assoc.set inner msg.2.note nl) }
    if (nl.length : Int) != 1 then s2 else s2.emit msg
  | .noteOff =>
    let nl := pyGetD inner msg.2.note []
    if (nl.length : Int) == 0 then { s1 with nl := nl } else
    let s2 : GSt := { s1 with nl := nl.dropLast, d := Assoc.set s1.d msg.2.ch (Assoc.set inner msg.2.note nl.dropLast) }
    if (nl.dropLast.length : Int) != 0 then s2 else s2.emit msg
  | .timeSignature =>
    if (pyOpt msg.2.num != s1.tn || pyOpt msg.2.den != s1.td) then
      ({ s1 with tn := pyOpt msg.2.num, td := pyOpt msg.2.den } : GSt).emit msg
    else s1
  | .keySignature =>
    if pyOpt msg.2.key != s1.ky then ({ s1 with ky := pyOpt msg.2.key } : GSt).emit msg else s1
  | _ => s1.emit msg

theorem pyPopLast_ne {α : Type} (l : List α) (h : l ≠ []) : ∃ x, pyPopLast l = .ok (x, l.dropLast) := by
  unfold pyPopLast
  cases hl : l.getLast? with
  | none => simp at hl; exact absurd hl h
  | some x => exact ⟨x, rfl⟩


theorem forIn_fold {α β ε : Type} (f : α → β → Except ε (ForInStep β)) (g : β → α → β)
    (h : ∀ a b, f a b = .ok (.yield (g b a))) (l : List α) (b : β) : forIn l b f = .ok (l.foldl g b) := by
  induction l generalizing b with
  | nil => rfl
  | cons a as ih => rw [List.forIn_cons, h]; exact ih _


theorem forIn_fold_mem {α β ε : Type} (f : α → β → Except ε (ForInStep β)) (g : β → α → β) (l : List α)
    (h : ∀ a ∈ l, ∀ b, f a b = .ok (.yield (g b a))) (b : β) : forIn l b f = .ok (l.foldl g b) := by
  induction l generalizing b with
  | nil => rfl
  | cons a as ih =>
    rw [List.forIn_cons, h a (by simp)]
    exact ih (fun x hx => h x (by simp [hx])) _

theorem foldl_tup (l : List Obj) (s : GSt) :
    l.foldl (fun t a => (gStep (GSt.ofTup t) a).tup) s.tup = (l.foldl gStep s).tup := by
  induction l generalizing s with
  | nil => rfl
  | cons a as ih => simp only [List.foldl_cons]; exact ih _

theorem pyDictGet_of_mem {κ ν : Type} [DecidableEq κ] (d : Assoc κ ν) (k : κ) (dflt : ν) (h : k ∈ pyKeys d) :
    pyDictGet d k = .ok (pyGetD d k dflt) := by
  unfold pyDictGet pyGetD
  cases hg : Assoc.get? d k with
  | some v => rfl
  | none => exact absurd h ((Assoc.get?_eq_none_iff d k).1 hg)

def cleanOne (out : List Obj) (o : Obj) : List Obj := if pyIn o out then eraseId o.1 out else out
def cleanKey (inner : Assoc Int (List Obj)) (st : List Obj × List Obj) (key : Int) : List Obj × List Obj :=
  (pyGetD inner key [], (pyGetD inner key []).foldl cleanOne st.2)
def cleanCh (d : Assoc Int (Assoc Int (List Obj))) (st : List Obj × List Obj) (channel : Int) : List Obj × List Obj :=
  (pyKeys (pyGetD d channel [])).foldl (cleanKey (pyGetD d channel [])) st

def gInit (l : List Obj) : GSt := { nid := freshBase l, nl := [], d := [], out := [], wb := 0, tn := none, td := none, ky := none, dc := none }
def gFlush (s : GSt) : List Obj :=
  if s.wb > 0 then s.out ++ [(s.nid, { ty := .wait, ch := chanOfOpt s.dc, time := s.wb })] else s.out
def normG (l : List Obj) : List Obj :=
  let s := l.foldl gStep (gInit l)
  ((pyKeys s.d).foldl (cleanCh s.d) (s.nl, gFlush s)).2

set_option maxHeartbeats 1000000 in
theorem normaliseRelative_eq_normG (l : List Obj) : normaliseRelative l = .ok (normG l) := by
  unfold normaliseRelative
  simp only []
  rw [forIn_fold _ (fun t a => (gStep (GSt.ofTup t) a).tup)]
  · simp only [ok_bind]
    have h0 : (freshBase l, ([] : List Obj), ([] : Assoc Int (Assoc Int (List Obj))), ([] : List Obj), (0 : Int),
        (none : Option Int), (none : Option Int), (none : Option Int), (none : Option Int)) = (gInit l).tup := rfl
    rw [h0, foldl_tup]
    unfold normG
    generalize List.foldl gStep (gInit l) l = s
    obtain ⟨nid, nl, d, out, wb, tn, td, ky, dc⟩ := s
    simp only [GSt.tup, gFlush]
    have key : ∀ st0 : List Obj × List Obj, ∀ F : Int → List Obj × List Obj → Except PyErr (ForInStep (List Obj × List Obj)),
        (∀ channel ∈ pyKeys d, ∀ b, F channel b = .ok (.yield (cleanCh d b channel))) →
        (do let s ← forIn (pyKeys d) st0 F; pure s.2) = (.ok ((pyKeys d).foldl (cleanCh d) st0).2 : Except PyErr (List Obj)) := by
      intro st0 F hF
      rw [forIn_fold_mem F (cleanCh d) _ hF]; rfl
    by_cases hwb : wb > 0
    all_goals simp only [hwb, decide_true, decide_false, if_true, if_false, Bool.false_eq_true]
    all_goals (
      refine key _ _ ?_
      intro channel hch b
      rw [pyDictGet_of_mem d channel [] hch]
      rw [ok_bind]
      rw [forIn_fold _ (cleanKey (pyGetD d channel []))]
      · rfl
      · intro key st
        rw [ok_bind]
        rw [forIn_fold _ cleanOne]
        · rfl
        · intro msg out
          unfold cleanOne pyRemove
          split <;> simp_all <;> rfl)
  · intro a b
    obtain ⟨nid, nl, d, out, wb, tn, td, ky, dc⟩ := b
    obtain ⟨i, m⟩ := a
    simp only [pyDictGet_setDefault, ok_bind]
    cases hty : m.ty
    case noteOff =>
      by_cases hL : pyGetD (pyGetD d m.ch []) m.note [] = []
      · simp [hty, hL, gStep, GSt.ofTup, GSt.tup, GSt.emit, pure_eq_ok]
        split <;> rfl
      · obtain ⟨x, hx⟩ := pyPopLast_ne _ hL
        have hd : ((pyGetD (pyGetD d m.ch []) m.note []).dropLast = []) ↔
            ((pyGetD (pyGetD d m.ch []) m.note []).length - 1 = 0) := by
          rw [← List.length_eq_zero_iff, List.length_dropLast]
        simp [hty, hL, hx, hd, gStep, GSt.ofTup, GSt.tup, GSt.emit, pure_eq_ok, ok_bind]
        repeat' split
        all_goals (first | rfl | simp_all)
    all_goals simp [hty, gStep, GSt.ofTup, GSt.tup, GSt.emit, pure_eq_ok]
    all_goals (repeat' split)
    all_goals (first | rfl | simp_all)


/-! ## stage B: the fold `gStep` simulates `normStep` -/

def gstk (g : GSt) (c nt : Int) : List Obj := pyGetD (pyGetD g.d c []) nt []

def gkeep (g : GSt) (m : Msg) : Bool :=
  match m.ty with
  | .wait => false
  | .noteOn => (gstk g m.ch m.note).length == 0
  | .noteOff => (gstk g m.ch m.note).length == 1
  | .timeSignature => pyOpt m.num != g.tn || pyOpt m.den != g.td
  | .keySignature => pyOpt m.key != g.ky
  | _ => true

def gflushL (g : GSt) (c : Int) : List Obj :=
  if g.wb > 0 then [(g.nid, { ty := .wait, ch := chanOfInt c, time := g.wb })] else []

theorem pyGetD_setDefault_same {κ ν : Type} [DecidableEq κ] (d : Assoc κ ν) (k c : κ) (v : ν) :
    pyGetD (pySetDefault d k v) c v = pyGetD d c v := by
  unfold pySetDefault pyGetD Assoc.contains
  cases h : Assoc.get? d k with
  | some w => simp [h]
  | none =>
    simp only [h, Option.isSome_none, Bool.false_eq_true, if_false, Assoc.get?_set]
    by_cases hk : k = c
    · subst hk; simp [h]
    · simp [hk]

theorem pyGetD_set {κ ν : Type} [DecidableEq κ] (d : Assoc κ ν) (k c : κ) (v dflt : ν) :
    pyGetD (Assoc.set d k v) c dflt = if k = c then v else pyGetD d c dflt := by
  unfold pyGetD; rw [Assoc.get?_set]; split <;> rfl

/-- proof script for the field lemmas of `gStep`: case on the message type, on the shape of the open stack, on the rest -/
macro "gstep_cases" g:ident m:ident h:ident : tactic => `(tactic|
  (cases $h:ident : ($m).ty <;> simp only [gStep, gkeep, gstk, $h:ident] <;>
   (try (generalize pyGetD (pyGetD ($g).d ($m).ch []) ($m).note [] = L; rcases L with _ | ⟨a, _ | ⟨b, L⟩⟩)) <;>
   simp [GSt.emit, gflushL] <;> (repeat' split) <;> simp_all <;> omega))

theorem gStep_out (g : GSt) (o : Obj) :
    (gStep g o).out = g.out ++ (if gkeep g o.2 = true then gflushL g o.2.ch ++ [o] else []) := by
  obtain ⟨i, m⟩ := o
  gstep_cases g m h

theorem gStep_wb (g : GSt) (o : Obj) :
    (gStep g o).wb = if o.2.ty = .wait then g.wb + o.2.time else if gkeep g o.2 = true ∧ g.wb > 0 then 0 else g.wb := by
  obtain ⟨i, m⟩ := o
  gstep_cases g m h

theorem gStep_nid (g : GSt) (o : Obj) :
    (gStep g o).nid = if gkeep g o.2 = true ∧ g.wb > 0 then g.nid + 1 else g.nid := by
  obtain ⟨i, m⟩ := o
  gstep_cases g m h


theorem gStep_tn (g : GSt) (o : Obj) :
    (gStep g o).tn = if o.2.ty = .timeSignature then pyOpt o.2.num else g.tn := by
  obtain ⟨i, m⟩ := o
  gstep_cases g m h

theorem gStep_td (g : GSt) (o : Obj) :
    (gStep g o).td = if o.2.ty = .timeSignature then pyOpt o.2.den else g.td := by
  obtain ⟨i, m⟩ := o
  gstep_cases g m h

theorem gStep_ky (g : GSt) (o : Obj) :
    (gStep g o).ky = if o.2.ty = .keySignature then pyOpt o.2.key else g.ky := by
  obtain ⟨i, m⟩ := o
  gstep_cases g m h

theorem gStep_dc (g : GSt) (o : Obj) :
    (gStep g o).dc = if g.dc.isNone && o.2.ch != pyNone then pyOpt o.2.ch else g.dc := by
  obtain ⟨i, m⟩ := o
  gstep_cases g m h


theorem gStep_d (g : GSt) (o : Obj) :
    (gStep g o).d =
      if o.2.ty = .noteOn then
        (pySetDefault g.d o.2.ch []).set o.2.ch ((pyGetD g.d o.2.ch []).set o.2.note (gstk g o.2.ch o.2.note ++ [o]))
      else if o.2.ty = .noteOff ∧ gstk g o.2.ch o.2.note ≠ [] then
        (pySetDefault g.d o.2.ch []).set o.2.ch ((pyGetD g.d o.2.ch []).set o.2.note (gstk g o.2.ch o.2.note).dropLast)
      else pySetDefault g.d o.2.ch [] := by
  obtain ⟨i, m⟩ := o
  gstep_cases g m h

theorem gStep_stk (g : GSt) (o : Obj) (c nt : Int) :
    gstk (gStep g o) c nt =
      if (o.2.ch, o.2.note) = (c, nt) then
        (if o.2.ty = .noteOn then gstk g c nt ++ [o]
         else if o.2.ty = .noteOff then (gstk g c nt).dropLast else gstk g c nt)
      else gstk g c nt := by
  have hd := gStep_d g o
  unfold gstk at *
  rw [hd]
  by_cases hc : o.2.ch = c
  · subst hc
    by_cases hn : o.2.note = nt
    · subst hn
      by_cases hon : o.2.ty = .noteOn
      · simp [hon, pyGetD_set, pyGetD_setDefault_same]
      · by_cases hoff : o.2.ty = .noteOff
        · by_cases hne : pyGetD (pyGetD g.d o.2.ch []) o.2.note [] = []
          · simp [hon, hoff, hne, pyGetD_set, pyGetD_setDefault_same]
          · simp [hon, hoff, hne, pyGetD_set, pyGetD_setDefault_same]
        · simp [hon, hoff, pyGetD_setDefault_same]
    · have hk : ¬ (o.2.ch, o.2.note) = (o.2.ch, nt) := by simp [hn]
      simp only [hk, if_false]
      split
      · simp [hn, pyGetD_set, pyGetD_setDefault_same]
      · split
        · simp [hn, pyGetD_set, pyGetD_setDefault_same]
        · simp [pyGetD_setDefault_same]
  · have hk : ¬ (o.2.ch, o.2.note) = (c, nt) := by simp [hc]
    simp only [hk, if_false]
    split
    · simp [hc, pyGetD_set, pyGetD_setDefault_same]
    · split
      · simp [hc, pyGetD_set, pyGetD_setDefault_same]
      · simp [pyGetD_setDefault_same]


/-! ### the abstraction -/

/-- an object of the generated run ↦ an entry of the hand model's output: input objects (id < n) keep their index,
    freshly allocated ones (consolidated waits) are `none` -/
def absTag (n : Nat) (o : Obj) : Option Nat × Msg := (if o.1 < n then some o.1 else none, o.2)

structure Rel (n : Nat) (g : GSt) (s : NormSt) : Prop where
  out : g.out.map (absTag n) = s.O
  wb : g.wb = s.wbuf
  tn : g.tn = pyOpt s.tsNum
  td : g.td = pyOpt s.tsDen
  ky : g.ky = pyOpt s.key
  dc : g.dc = s.defCh
  stk : ∀ c nt, (gstk g c nt).map Prod.fst = s.stk (c, nt)
  nid : n ≤ g.nid
  idx : s.idx ≤ n
  ids : ∀ o ∈ g.out, o.1 < s.idx ∨ (n ≤ o.1 ∧ o.1 < g.nid)
  nd : (g.out.map Prod.fst).Nodup
  slt : ∀ c nt, ∀ o ∈ gstk g c nt, o.1 < s.idx
  hnd : (s.opens.map Prod.fst).Nodup

theorem pyOpt_inj (a b : Int) : pyOpt a = pyOpt b ↔ a = b := by
  unfold pyOpt
  by_cases ha : a = pyNone <;> by_cases hb : b = pyNone <;> simp [ha, hb]
  all_goals (first | done | (intro h; exact hb h.symm) | exact ha | trace_state)

theorem pyOpt_bne (a b : Int) : (pyOpt a != pyOpt b) = (a != b) := by
  by_cases h : a = b
  · subst h; simp
  · have : pyOpt a ≠ pyOpt b := fun h' => h ((pyOpt_inj a b).1 h')
    rw [bne_iff_ne.2 h, bne_iff_ne.2 this]

theorem gkeep_eq {n : Nat} {g : GSt} {s : NormSt} (h : Rel n g s) (m : Msg) : gkeep g m = keep s m := by
  unfold gkeep keep
  have hl : (gstk g m.ch m.note).length = (s.stk m.nkey).length := by
    have := h.stk m.ch m.note
    show _ = (s.stk (m.ch, m.note)).length
    rw [← this, List.length_map]
  cases m.ty <;> simp only [hl, h.tn, h.td, h.ky, pyOpt_bne]

theorem step_defCh (s : NormSt) (m : Msg) :
    (normStep s m).defCh = match s.defCh with | some c => some c | none => some m.ch := by
  rw [normStep_eq]; rfl

theorem rel_step {n : Nat} {g : GSt} {s : NormSt} (h : Rel n g s) (m : Msg) (hi : s.idx < n) (hc : m.ch ≠ pyNone) :
    Rel n (gStep g (s.idx, m)) (normStep s m) := by
  have hk := gkeep_eq h m
  have hch : chanOfInt m.ch = m.ch := by simp [chanOfInt, hc]
  have hnid := h.nid
  have hfl : (gflushL g m.ch).map (absTag n) = flushL s m.ch := by
    unfold gflushL flushL
    rw [h.wb, hch]
    split
    · have : ¬ g.nid < n := by omega
      simp [absTag, this, Msg.mkWait]
    · rfl
  have hself : absTag n (s.idx, m) = (some s.idx, m) := by simp [absTag, hi]
  refine ⟨?_, ?_, ?_, ?_, ?_, ?_, ?_, ?_, ?_, ?_, ?_, ?_, ?_⟩
  · rw [gStep_out, step_O, List.map_append, h.out]
    simp only [hk]
    split
    · rw [List.map_append, hfl]; simp [hself]
    · rfl
  · rw [gStep_wb, step_wbuf]; simp only [hk, h.wb]
  · rw [gStep_tn]
    have := congrArg Prod.fst (step_ts s m)
    simp only at this
    rw [this]
    split <;> simp [h.tn]
  · rw [gStep_td]
    have := congrArg Prod.snd (step_ts s m)
    simp only at this
    rw [this]
    split <;> simp [h.td]
  · rw [gStep_ky, step_key]; split <;> simp [h.ky]
  · rw [gStep_dc, step_defCh, h.dc]
    cases s.defCh <;> simp [hc, pyOpt]
  · intro c nt
    rw [gStep_stk, step_stk]
    have : m.nkey = (m.ch, m.note) := rfl
    rw [this]
    simp only []
    split
    · split
      · rw [List.map_append, h.stk]; rfl
      · split
        · rw [List.map_dropLast, h.stk]
        · exact h.stk c nt
    · exact h.stk c nt
  · rw [gStep_nid]; split <;> omega
  · rw [step_idx]; omega
  · intro o ho
    rw [gStep_out] at ho
    rw [step_idx, gStep_nid]
    rcases List.mem_append.1 ho with ho | ho
    · rcases h.ids o ho with h1 | h1
      · left; omega
      · right; split <;> omega
    · split at ho
      · rename_i hkk
        rcases List.mem_append.1 ho with ho | ho
        · unfold gflushL at ho
          split at ho
          · rename_i hw
            simp at ho; subst ho
            right
            simp only [hkk, hw, and_self, if_true]; omega
          · simp at ho
        · simp at ho; subst ho; left; simp
      · simp at ho
  · rw [gStep_out, List.map_append, List.nodup_append]
    refine ⟨h.nd, ?_, ?_⟩
    · split
      · unfold gflushL
        split
        · simp; omega
        · simp
      · simp
    · intro a ha b hb
      obtain ⟨o, ho, rfl⟩ := List.mem_map.1 ha
      split at hb
      · rcases List.mem_map.1 hb with ⟨o', ho', rfl⟩
        rcases List.mem_append.1 ho' with ho' | ho'
        · unfold gflushL at ho'
          split at ho'
          · simp at ho'; subst ho'
            rcases h.ids o ho with h1 | h1 <;> simp <;> omega
          · simp at ho'
        · simp at ho'; subst ho'
          rcases h.ids o ho with h1 | h1 <;> simp <;> omega
      · simp at hb
  · intro c nt o ho
    rw [gStep_stk] at ho
    rw [step_idx]
    split at ho
    · split at ho
      · rcases List.mem_append.1 ho with ho | ho
        · have := h.slt c nt o ho; omega
        · simp at ho; subst ho; simp
      · split at ho
        · have := h.slt c nt o (List.dropLast_subset _ ho); omega
        · have := h.slt c nt o ho; omega
    · have := h.slt c nt o ho; omega
  · exact step_nodup s m h.hnd


theorem rel_fold (n : Nat) : ∀ (ms : List Msg) (g : GSt) (s : NormSt), Rel n g s → s.idx + ms.length ≤ n →
    (∀ m ∈ ms, m.ch ≠ pyNone) → Rel n ((tagFrom s.idx ms).foldl gStep g) (ms.foldl normStep s) := by
  intro ms
  induction ms with
  | nil => intro g s h _ _; exact h
  | cons m ms ih =>
    intro g s h hl hc
    simp only [tagFrom, List.foldl_cons, List.length_cons] at hl ⊢
    have h' := rel_step h m (by omega) (hc m (by simp))
    have := ih (gStep g (s.idx, m)) (normStep s m) h' (by rw [step_idx]; omega) (fun x hx => hc x (by simp [hx]))
    rw [step_idx] at this
    exact this

theorem freshBase_go (ms : List Msg) : ∀ (a k : Nat), a ≤ k →
    (tagFrom k ms).foldl (fun a o => max a (o.1 + 1)) a = if ms = [] then a else k + ms.length := by
  induction ms with
  | nil => intro a k _; rfl
  | cons m ms ih =>
    intro a k hak
    simp only [tagFrom, List.foldl_cons]
    have h1 : max a (k + 1) = k + 1 := by omega
    rw [h1, ih (k + 1) (k + 1) (Nat.le_refl _)]
    by_cases hms : ms = []
    · subst hms; simp
    · simp [hms]; omega

theorem freshBase_tagInput (r : List Msg) : freshBase (tagInput r) = r.length := by
  unfold freshBase tagInput
  rw [freshBase_go r 0 0 (Nat.le_refl _)]
  cases r <;> simp

theorem rel_init (r : List Msg) : Rel r.length (gInit (tagInput r)) {} := by
  refine ⟨rfl, rfl, rfl, rfl, rfl, rfl, ?_, ?_, ?_, ?_, ?_, ?_, ?_⟩
  · intro c nt; rfl
  · show r.length ≤ freshBase (tagInput r); rw [freshBase_tagInput]; exact Nat.le_refl _
  · exact Nat.zero_le _
  · intro o ho; simp [gInit] at ho
  · simp [gInit]
  · intro c nt o ho; simp [gstk, gInit, pyGetD, Assoc.get?] at ho
  · simp

/-! ### the clean-up (`for channel … for key … for msg in note_list: if msg in out: out.remove(msg)`) -/

/-- every object still on an open stack, in the iteration order of the clean-up loops -/
def allOpen (d : Assoc Int (Assoc Int (List Obj))) : List Obj :=
  (pyKeys d).flatMap (fun c => (pyKeys (pyGetD d c [])).flatMap (fun nt => pyGetD (pyGetD d c []) nt []))

theorem foldl_flatMap_snd {α β γ : Type} (f : α → β) (g : α → List γ) (h : List Obj → γ → List Obj) :
    ∀ (l : List α) (st : β × List Obj),
      (l.foldl (fun st a => (f a, (g a).foldl h st.2)) st).2 = (l.flatMap g).foldl h st.2 := by
  intro l
  induction l with
  | nil => intro st; rfl
  | cons a l ih => intro st; simp only [List.foldl_cons, List.flatMap_cons, List.foldl_append]; exact ih _

theorem cleanCh_snd (d : Assoc Int (Assoc Int (List Obj))) (st : List Obj × List Obj) (c : Int) :
    (cleanCh d st c).2 = ((pyKeys (pyGetD d c [])).flatMap (fun nt => pyGetD (pyGetD d c []) nt [])).foldl cleanOne st.2 := by
  unfold cleanCh cleanKey
  exact foldl_flatMap_snd _ _ _ _ _

theorem clean_eq (d : Assoc Int (Assoc Int (List Obj))) : ∀ (l : List Int) (st : List Obj × List Obj),
    (l.foldl (cleanCh d) st).2 =
      (l.flatMap (fun c => (pyKeys (pyGetD d c [])).flatMap (fun nt => pyGetD (pyGetD d c []) nt []))).foldl cleanOne st.2 := by
  intro l
  induction l with
  | nil => intro st; rfl
  | cons a l ih =>
    intro st
    simp only [List.foldl_cons, List.flatMap_cons, List.foldl_append]
    rw [ih, cleanCh_snd]

theorem mem_pyKeys_of_getD_ne {ν : Type} (d : Assoc Int (List ν)) (k : Int) (h : pyGetD d k [] ≠ []) : k ∈ pyKeys d := by
  unfold pyGetD at h
  cases hg : Assoc.get? d k with
  | none => simp [hg] at h
  | some v =>
    have := Assoc.mem_of_get? d k v hg
    exact List.mem_map.2 ⟨(k, v), this, rfl⟩

theorem mem_allOpen (d : Assoc Int (Assoc Int (List Obj))) (o : Obj) :
    o ∈ allOpen d ↔ ∃ c nt, o ∈ pyGetD (pyGetD d c []) nt [] := by
  unfold allOpen
  simp only [List.mem_flatMap]
  constructor
  · rintro ⟨c, _, nt, _, h⟩; exact ⟨c, nt, h⟩
  · rintro ⟨c, nt, h⟩
    have h1 : pyGetD (pyGetD d c []) nt [] ≠ [] := List.ne_nil_of_mem h
    have h2 : nt ∈ pyKeys (pyGetD d c []) := mem_pyKeys_of_getD_ne _ _ h1
    have h3 : pyGetD d c [] ≠ [] := by
      intro h0; rw [h0] at h2; simp [pyKeys] at h2
    exact ⟨c, mem_pyKeys_of_getD_ne _ _ h3, nt, h2, h⟩

theorem eraseId_filter (i : Nat) : ∀ (l : List Obj), (l.map Prod.fst).Nodup →
    eraseId i l = l.filter (fun e => e.1 != i) := by
  intro l
  induction l with
  | nil => intro _; rfl
  | cons y ys ih =>
    intro h
    simp only [List.map_cons, List.nodup_cons] at h
    unfold eraseId
    by_cases hy : y.1 = i
    · simp only [hy, beq_self_eq_true, if_true, List.filter_cons, bne_self_eq_false, Bool.false_eq_true, if_false]
      symm
      rw [List.filter_eq_self]
      intro a ha
      have : a.1 ≠ i := by
        intro hai
        exact h.1 (List.mem_map.2 ⟨a, ha, by rw [hai, hy]⟩)
      simp [this]
    · have hb : (y.1 == i) = false := by simp [hy]
      simp only [hb, Bool.false_eq_true, if_false, List.filter_cons, bne_iff_ne, ne_eq, hy, not_false_eq_true, if_true]
      rw [ih h.2]

theorem cleanOne_filter (out : List Obj) (o : Obj) (h : (out.map Prod.fst).Nodup) :
    cleanOne out o = out.filter (fun e => e.1 != o.1) := by
  unfold cleanOne
  split
  · exact eraseId_filter _ _ h
  · rename_i hin
    symm
    rw [List.filter_eq_self]
    intro a ha
    simp only [pyIn, List.any_eq_true, not_exists, not_and] at hin
    have := hin a ha
    simpa using this

theorem foldl_cleanOne : ∀ (U out : List Obj), (out.map Prod.fst).Nodup →
    U.foldl cleanOne out = out.filter (fun e => !(U.map Prod.fst).contains e.1) := by
  intro U
  induction U with
  | nil => intro out _; exact (List.filter_eq_self.2 (fun a _ => rfl)).symm
  | cons u U ih =>
    intro out h
    simp only [List.foldl_cons]
    rw [cleanOne_filter out u h, ih]
    · rw [List.filter_filter]
      apply List.filter_congr
      intro a _
      simp only [List.map_cons, List.contains_cons]
      by_cases hau : a.1 = u.1
      · simp [hau]
      · have h1 : (a.1 != u.1) = true := by simp [hau]
        have h2 : (a.1 == u.1) = false := by simp [hau]
        simp [h1, h2]
    · exact List.Nodup.sublist (List.Sublist.map _ List.filter_sublist) h


/-! ## split, stage A -/

structure ISt where
  queue : List Msg
  rem : Int
  msg : Msg
  carry : Int
  splits : List (List Msg)
  wm : List Msg
  cur : List Msg
  opens : Assoc (Int × Int) Msg
  exited : Bool

abbrev ITup := List Msg × Int × Msg × Int × List (List Msg) × List Msg × List Msg × Assoc (Int × Int) Msg × Bool
def ISt.tup (s : ISt) : ITup := (s.queue, s.rem, s.msg, s.carry, s.splits, s.wm, s.cur, s.opens, s.exited)
def ISt.ofTup (t : ITup) : ISt :=
  { queue := t.1, rem := t.2.1, msg := t.2.2.1, carry := t.2.2.2.1, splits := t.2.2.2.2.1, wm := t.2.2.2.2.2.1,
    cur := t.2.2.2.2.2.2.1, opens := t.2.2.2.2.2.2.2.1, exited := t.2.2.2.2.2.2.2.2 }

def closeG (opens : Assoc (Int × Int) Msg) (q cur : List Msg) : List Msg × List Msg :=
  opens.foldl (fun (qc : List Msg × List Msg) kv =>
    (qc.1 ++ [{ ty := .noteOn, ch := chanOfInt kv.2.ch, note := kv.2.note, vel := kv.2.vel }],
     qc.2 ++ [{ ty := .noteOff, ch := chanOfInt kv.2.ch, note := kv.2.note }])) (q, cur)

def iStep (s : ISt) : ForInStep ISt :=
  if !(decide (s.rem ≥ 0)) then .done { s with exited := true }
  else match s.wm with
  | [] =>
    if s.cur.length > 0 then .done { s with splits := s.splits ++ [s.cur], cur := [], exited := true }
    else .done { s with exited := true }
  | m :: wm =>
    match m.ty with
    | .noteOn =>
      if s.rem > 0 then .yield { s with msg := m, wm := wm, cur := s.cur ++ [m], opens := s.opens.set (m.ch, m.note) m }
      else .yield { s with msg := m, wm := wm, queue := s.queue ++ [m] }
    | .noteOff => .yield { s with msg := m, wm := wm, cur := s.cur ++ [m], opens := s.opens.erase (m.ch, m.note) }
    | .wait =>
      if m.time ≤ s.rem then .yield { s with msg := m, wm := wm, rem := s.rem - m.time, cur := s.cur ++ [m] }
      else
        let cur1 := if s.rem > 0 then s.cur ++ [{ ty := .wait, ch := chanOfInt m.ch, time := s.rem }] else s.cur
        let qc := closeG s.opens s.queue cur1
        let q' := qc.1 ++ [{ ty := .wait, ch := chanOfInt m.ch, time := m.time - s.rem }]
        .done { s with msg := m, queue := q', carry := m.time - s.rem,
                       splits := if qc.2.length > 0 then s.splits ++ [qc.2] else s.splits,
                       wm := q' ++ wm, cur := [], exited := true }
    | _ =>
      if s.rem > 0 then .yield { s with msg := m, wm := wm, cur := s.cur ++ [m] }
      else .yield { s with msg := m, wm := wm, queue := s.queue ++ [m] }

def stepMap (x : ForInStep ISt) : ForInStep ITup :=
  match x with
  | .done s => .done s.tup
  | .yield s => .yield s.tup
theorem stepMap_done (s : ISt) : stepMap (.done s) = .done s.tup := rfl
theorem stepMap_yield (s : ISt) : stepMap (.yield s) = .yield s.tup := rfl
theorem stepMap_ite (c : Prop) [Decidable c] (a b : ForInStep ISt) :
    stepMap (if c then a else b) = if c then stepMap a else stepMap b := by split <;> rfl
def stepTup (t : ITup) : ForInStep ITup := stepMap (iStep (ISt.ofTup t))

theorem addMessage_none (r : List Msg) (m : Msg) : addMessage r m none = .ok (r ++ [m]) := rfl


def runN {β : Type} (step : β → ForInStep β) : Nat → β → β
  | 0, b => b
  | n + 1, b => match step b with | .done b' => b' | .yield b' => runN step n b'

theorem forIn_replicate_pure {β ε : Type} (step : β → ForInStep β) (f : Unit → β → Except ε (ForInStep β))
    (h : ∀ u b, f u b = .ok (step b)) : ∀ (n : Nat) (b : β), forIn (List.replicate n ()) b f = .ok (runN step n b) := by
  intro n
  induction n with
  | zero => intro b; rfl
  | succ n ih =>
    intro b
    rw [List.replicate_succ, List.forIn_cons, h]
    unfold runN
    cases step b with
    | done b' => rfl
    | yield b' => exact ih b'

theorem forIn_pure_yield {α β ε : Type} (g : β → α → β) (l : List α) (b : β) :
    forIn l b (fun a s => (pure (ForInStep.yield (g s a)) : Except ε (ForInStep β))) = pure (l.foldl g b) := by
  induction l generalizing b with
  | nil => rfl
  | cons a as ih => rw [List.forIn_cons]; exact ih _

def iRun : Nat → ISt → ISt
  | 0, s => s
  | n + 1, s => match iStep s with | .done s' => s' | .yield s' => iRun n s'

theorem runN_stepTup : ∀ (n : Nat) (t : ITup), runN stepTup n t = (iRun n (ISt.ofTup t)).tup := by
  intro n
  induction n with
  | zero => intro t; rfl
  | succ n ih =>
    intro t
    cases h : iStep (ISt.ofTup t) with
    | done s' =>
      have h2 : stepTup t = .done s'.tup := by simp only [stepTup, h, stepMap_done]
      simp only [runN, iRun, h, h2]
    | yield s' =>
      have h2 : stepTup t = .yield s'.tup := by simp only [stepTup, h, stepMap_yield]
      simp only [runN, iRun, h, h2]
      rw [ih]; rfl

abbrev OTup := List Msg × List Msg × Int × Msg × Int × List (List Msg) × List Msg × List Msg × Assoc (Int × Int) Msg
def ISt.otup (s : ISt) : OTup := ([], s.queue, s.rem, s.msg, s.carry, s.splits, s.wm, s.cur, s.opens)
def ISt.ofOTup (t : OTup) : ISt :=
  { queue := t.2.1, rem := t.2.2.1, msg := t.2.2.2.1, carry := t.2.2.2.2.1, splits := t.2.2.2.2.2.1, wm := t.2.2.2.2.2.2.1,
    cur := t.2.2.2.2.2.2.2.1, opens := t.2.2.2.2.2.2.2.2, exited := false }

/-- one iteration of `for capacity in capacities` -/
def oStep (o : ISt) (capacity : Int) : ISt :=
  { iRun (o.wm.length + 1) { o with queue := [], rem := capacity, exited := false } with exited := false }

theorem iStep_done_exited (s s' : ISt) (h : iStep s = .done s') : s'.exited = true := by
  unfold iStep at h
  split at h
  · cases h; rfl
  · split at h
    · split at h <;> (cases h; rfl)
    · split at h
      all_goals (try split at h)
      all_goals (first | (cases h; rfl) | (cases h))

theorem iStep_yield_wm (s s' : ISt) (h : iStep s = .yield s') : s'.wm.length + 1 = s.wm.length := by
  unfold iStep at h
  split at h
  · cases h
  · split at h
    · split at h <;> cases h
    · rename_i m wm hw
      rw [hw]
      split at h
      all_goals (try split at h)
      all_goals (first | (cases h; rfl) | (cases h))

theorem iRun_exited : ∀ (f : Nat) (s : ISt), s.wm.length < f → (iRun f s).exited = true := by
  intro f
  induction f with
  | zero => intro s h; omega
  | succ f ih =>
    intro s h
    unfold iRun
    cases hs : iStep s with
    | done s' => exact iStep_done_exited s s' hs
    | yield s' =>
      have := iStep_yield_wm s s' hs
      exact ih s' (by omega)

theorem oStep_exited (o : ISt) (c : Int) : (oStep o c).exited = false := rfl

theorem foldl_otup (caps : List Int) : ∀ (s : ISt), s.exited = false →
    caps.foldl (fun t cap => (oStep (ISt.ofOTup t) cap).otup) s.otup = (caps.foldl oStep s).otup := by
  induction caps with
  | nil => intro s _; rfl
  | cons c cs ih =>
    intro s hs
    simp only [List.foldl_cons]
    have : ISt.ofOTup s.otup = s := by
      obtain ⟨q, rem, msg, carry, splits, wm, cur, opens, exited⟩ := s
      simp only at hs; subst hs; rfl
    rw [this]
    exact ih _ (oStep_exited _ _)

def initG (l : List Msg) : ISt :=
  { queue := [], rem := 0, msg := default, carry := 0, splits := [], wm := l, cur := [], opens := [], exited := false }

def finalG (s : ISt) : List (List Msg) :=
  let cur := if s.wm.length > 0 then s.cur ++ s.wm else s.cur
  if cur.length > 0 then s.splits ++ [cur] else s.splits

def splitG (l : List Msg) (caps : List Int) : List (List Msg) := finalG (caps.foldl oStep (initG l))

set_option maxHeartbeats 1000000 in
theorem split_eq_splitG (l : List Msg) (caps : List Int) : Gen.Rel2.split l caps = .ok (splitG l caps) := by
  unfold Gen.Rel2.split
  simp only [addMessage_none, ok_bind, forIn_pure_yield]
  rw [forIn_fold _ (fun t cap => (oStep (ISt.ofOTup t) cap).otup)]
  · rw [ok_bind]
    have h0 : (([] : List Msg), ([] : List Msg), (0 : Int), (default : Msg), (0 : Int), ([] : List (List Msg)), l, ([] : List Msg),
        ([] : Assoc (Int × Int) Msg)) = (initG l).otup := rfl
    rw [h0, foldl_otup _ _ rfl]
    unfold splitG finalG
    generalize List.foldl oStep (initG l) caps = s
    simp only [ISt.otup]
    by_cases hw : s.wm.length > 0
    · have hw' : ((s.wm.length : Nat) : Int) > 0 := by omega
      simp only [hw, hw', decide_true, if_true]
      by_cases hc : (s.cur ++ s.wm).length > 0
      · have hc' : (((s.cur ++ s.wm).length : Nat) : Int) > 0 := by omega
        simp only [hc, hc', decide_true, if_true]; rfl
      · have hc' : ¬ (((s.cur ++ s.wm).length : Nat) : Int) > 0 := by omega
        simp only [hc, hc', decide_false, if_false, Bool.false_eq_true]; rfl
    · have hw' : ¬ ((s.wm.length : Nat) : Int) > 0 := by omega
      simp only [hw, hw', decide_false, if_false, Bool.false_eq_true]
      by_cases hc : s.cur.length > 0
      · have hc' : ((s.cur.length : Nat) : Int) > 0 := by omega
        simp only [hc, hc', decide_true, if_true]; rfl
      · have hc' : ¬ ((s.cur.length : Nat) : Int) > 0 := by omega
        simp only [hc, hc', decide_false, if_false, Bool.false_eq_true]; rfl
  · intro capacity t
    obtain ⟨ns, q, rem, msg, carry, splits, wm, cur, opens⟩ := t
    simp only []
    rw [forIn_replicate_pure stepTup]
    · rw [ok_bind, runN_stepTup]
      have hex := iRun_exited (wm.length + 1)
        { queue := [], rem := capacity, msg := msg, carry := carry, splits := splits, wm := wm, cur := cur, opens := opens, exited := false }
        (by simp)
      simp only [ISt.ofTup, ISt.tup, hex, oStep, ISt.ofOTup, ISt.otup, Bool.not_true, Bool.false_and, Bool.false_eq_true, if_false]
      rfl
    · intro u b
      obtain ⟨q, rem, msg, carry, splits, wm, cur, opens, exited⟩ := b
      simp only []
      by_cases hrem : rem ≥ 0
      · cases wm with
        | nil =>
          simp [hrem, stepTup, iStep, ISt.ofTup, ISt.tup, pure_eq_ok, stepMap_done, stepMap_yield, stepMap_ite]
          split <;> rfl
        | cons m wm =>
          have hl : ¬ ((((m :: wm).length : Nat) : Int) = 0) := by simp; omega
          simp only [hrem, hl, pyPopFirst, pure_eq_ok, ok_bind, decide_true, Bool.not_true, Bool.false_eq_true, if_false,
            beq_iff_eq]
          cases hty : m.ty <;> simp [hty, stepTup, iStep, ISt.ofTup, ISt.tup, hrem, closeG, stepMap_done, stepMap_yield, stepMap_ite]
          all_goals (repeat' split)
          all_goals (first | rfl | simp_all)
      · simp [hrem, stepTup, iStep, ISt.ofTup, ISt.tup, pure_eq_ok, stepMap_done, stepMap_yield, stepMap_ite]

open SCoda.SplitL (onOf offOf splitCloseOpen_eq)

/-! ## split, stage B -/

def toH (i : ISt) : SplitSt :=
  { wm := i.wm, cur := i.cur.reverse, queue := i.queue.reverse, opens := i.opens, pieces := i.splits.reverse }
def toH0 (i : ISt) : SplitSt := { toH i with queue := [] }

structure Good (i : ISt) : Prop where
  wm : ∀ m ∈ i.wm, m.ch ≠ pyNone
  q : ∀ m ∈ i.queue, m.ch ≠ pyNone
  op : ∀ kv ∈ i.opens, kv.2.ch ≠ pyNone

theorem mem_set {κ ν : Type} [DecidableEq κ] (d : Assoc κ ν) (k : κ) (v : ν) (e : κ × ν) (h : e ∈ Assoc.set d k v) :
    e ∈ d ∨ e = (k, v) := by
  induction d with
  | nil => simp [Assoc.set] at h; exact Or.inr h
  | cons a d ih =>
    obtain ⟨a, w⟩ := a
    unfold Assoc.set at h
    split at h
    · rename_i hk
      rcases List.mem_cons.1 h with h | h
      · right; rw [h, hk]
      · left; exact List.mem_cons_of_mem _ h
    · rcases List.mem_cons.1 h with h | h
      · left; rw [h]; exact List.mem_cons_self
      · rcases ih h with h | h
        · left; exact List.mem_cons_of_mem _ h
        · right; exact h

theorem mem_erase {κ ν : Type} [DecidableEq κ] (d : Assoc κ ν) (k : κ) (e : κ × ν) (h : e ∈ Assoc.erase d k) : e ∈ d := by
  induction d with
  | nil => simp [Assoc.erase] at h
  | cons a d ih =>
    obtain ⟨a, w⟩ := a
    unfold Assoc.erase at h
    split at h
    · exact List.mem_cons_of_mem _ h
    · rcases List.mem_cons.1 h with h | h
      · rw [h]; exact List.mem_cons_self
      · exact List.mem_cons_of_mem _ (ih h)

theorem chanOfInt_ok (c : Int) (h : c ≠ pyNone) : chanOfInt c = c := by simp [chanOfInt, h]
theorem chanOfInt_ne (c : Int) : chanOfInt c ≠ pyNone := by
  unfold chanOfInt; split
  · decide
  · rename_i h; simpa using h

theorem closeG_eq (opens : Assoc (Int × Int) Msg) (hop : ∀ kv ∈ opens, kv.2.ch ≠ pyNone) (q cur : List Msg) :
    closeG opens q cur = (q ++ opens.map onOf, cur ++ opens.map offOf) := by
  unfold closeG
  induction opens generalizing q cur with
  | nil => simp
  | cons kv rest ih =>
    rw [List.foldl_cons, ih (fun e he => hop e (List.mem_cons_of_mem _ he))]
    have := chanOfInt_ok kv.2.ch (hop kv List.mem_cons_self)
    simp [onOf, offOf, this]


set_option maxHeartbeats 1000000 in
theorem inner_sim : ∀ (f : Nat) (i : ISt), i.wm.length < f → 0 ≤ i.rem → Good i →
    splitInner (f + 1) i.rem (toH i) = .ok (toH0 (iRun f i)) ∧ Good (iRun f i) := by
  intro f
  induction f with
  | zero => intro i h; omega
  | succ f ih =>
    intro i hl hrem hg
    obtain ⟨q, rem, msg, carry, splits, wm, cur, opens, exited⟩ := i
    obtain ⟨hgw, hgq, hgo⟩ := hg
    simp only at hl hrem hgw hgq hgo
    have hr : decide (rem ≥ 0) = true := by simpa using hrem
    cases wm with
    | nil =>
      by_cases hc : cur.length > 0
      · simp [iRun, iStep, splitInner, toH, toH0, hr, hc]
        exact ⟨by simp, hgq, hgo⟩
      · have : cur = [] := by simpa using hc
        subst this
        simp [iRun, iStep, splitInner, toH, toH0, hr]
        exact ⟨by simp, hgq, hgo⟩
    | cons m wm =>
      have hm : m.ch ≠ pyNone := hgw m (by simp)
      have hw : ∀ x ∈ wm, x.ch ≠ pyNone := fun x hx => hgw x (by simp [hx])
      simp only [List.length_cons] at hl
      cases hty : m.ty
      case noteOff =>
        have := ih { queue := q, rem := rem, msg := m, carry := carry, splits := splits, wm := wm, cur := cur ++ [m],
                     opens := opens.erase (m.ch, m.note), exited := exited } (by simp only; omega) hrem
                   ⟨hw, hgq, fun kv h => hgo kv (mem_erase _ _ _ h)⟩
        simp only [iRun, iStep, splitInner, toH, hty, hr, Msg.nkey, List.reverse_append, List.reverse_cons, List.reverse_nil,
          List.nil_append, List.cons_append, Bool.not_true, Bool.false_eq_true, if_false] at this ⊢
        exact this
      case noteOn =>
        by_cases hp : rem > 0
        · have := ih { queue := q, rem := rem, msg := m, carry := carry, splits := splits, wm := wm, cur := cur ++ [m],
                       opens := opens.set (m.ch, m.note) m, exited := exited } (by simp only; omega) hrem
                     ⟨hw, hgq, fun kv h => by rcases mem_set _ _ _ _ h with h | h; exact hgo kv h; rw [h]; exact hm⟩
          simp only [iRun, iStep, splitInner, toH, hty, hr, hp, Msg.nkey, List.reverse_append, List.reverse_cons, List.reverse_nil,
            List.nil_append, List.cons_append, Bool.not_true, Bool.false_eq_true, if_false, if_true] at this ⊢
          exact this
        · have := ih { queue := q ++ [m], rem := rem, msg := m, carry := carry, splits := splits, wm := wm, cur := cur,
                       opens := opens, exited := exited } (by simp only; omega) hrem
                     ⟨hw, fun x hx => by rcases List.mem_append.1 hx with hx | hx; exact hgq x hx; simp at hx; rw [hx]; exact hm, hgo⟩
          simp only [iRun, iStep, splitInner, toH, hty, hr, hp, Msg.nkey, List.reverse_append, List.reverse_cons, List.reverse_nil,
            List.nil_append, List.cons_append, Bool.not_true, Bool.false_eq_true, if_false, if_true] at this ⊢
          exact this
      case wait =>
        by_cases ht : m.time ≤ rem
        · have := ih { queue := q, rem := rem - m.time, msg := m, carry := carry, splits := splits, wm := wm, cur := cur ++ [m],
                       opens := opens, exited := exited } (by simp only; omega) (by simp only; omega)
                     ⟨hw, hgq, hgo⟩
          simp only [iRun, iStep, splitInner, toH, hty, hr, ht, Msg.nkey, List.reverse_append, List.reverse_cons, List.reverse_nil,
            List.nil_append, List.cons_append, Bool.not_true, Bool.false_eq_true, if_false, if_true] at this ⊢
          exact this
        · have hcm := chanOfInt_ok m.ch hm
          simp only [iRun, iStep, splitInner, toH, toH0, hty, hr, ht, hcm, closeG_eq opens hgo, splitCloseOpen_eq,
            Bool.not_true, Bool.false_eq_true, if_false]
          have hon : ∀ x ∈ List.map onOf opens, x.ch ≠ pyNone := by
            intro x hx
            obtain ⟨kv, hkv, rfl⟩ := List.mem_map.1 hx
            exact hgo kv hkv
          have hq' : ∀ x ∈ q ++ List.map onOf opens ++ [({ ty := MType.wait, ch := m.ch, time := m.time - rem } : Msg)],
              x.ch ≠ pyNone := by
            intro x hx
            rcases List.mem_append.1 hx with hx | hx
            · rcases List.mem_append.1 hx with hx | hx
              · exact hgq x hx
              · exact hon x hx
            · simp at hx; rw [hx]; exact hm
          refine ⟨?_, ⟨?_, hq', hgo⟩⟩
          · by_cases hp : rem > 0
            · simp [hp, Msg.mkWait]
              have h1 : 0 < List.length opens + (cur.length + 1) := by omega
              have h2 : 0 < cur.length + (List.length opens + 1) := by omega
              simp [h1, h2]
            · simp [hp, Msg.mkWait]
              by_cases h1 : 0 < List.length opens + cur.length
              · have h2 : 0 < cur.length + List.length opens := by omega
                simp [h1, h2]
              · have h2 : ¬ 0 < cur.length + List.length opens := by omega
                simp [h1, h2]
          · intro x hx
            rcases List.mem_append.1 hx with hx | hx
            · exact hq' x hx
            · exact hw x hx
      all_goals (
        by_cases hp : rem > 0
        · have := ih { queue := q, rem := rem, msg := m, carry := carry, splits := splits, wm := wm, cur := cur ++ [m],
                       opens := opens, exited := exited } (by simp only; omega) hrem ⟨hw, hgq, hgo⟩
          simp only [iRun, iStep, splitInner, toH, hty, hr, hp, Msg.nkey, List.reverse_append, List.reverse_cons, List.reverse_nil,
            List.nil_append, List.cons_append, Bool.not_true, Bool.false_eq_true, if_false, if_true] at this ⊢
          exact this
        · have := ih { queue := q ++ [m], rem := rem, msg := m, carry := carry, splits := splits, wm := wm, cur := cur,
                       opens := opens, exited := exited } (by simp only; omega) hrem
                     ⟨hw, fun x hx => by rcases List.mem_append.1 hx with hx | hx; exact hgq x hx; simp at hx; rw [hx]; exact hm, hgo⟩
          simp only [iRun, iStep, splitInner, toH, hty, hr, hp, Msg.nkey, List.reverse_append, List.reverse_cons, List.reverse_nil,
            List.nil_append, List.cons_append, Bool.not_true, Bool.false_eq_true, if_false, if_true] at this ⊢
          exact this)


theorem outer_sim : ∀ (caps : List Int) (o : ISt), Good o → (∀ c ∈ caps, 0 ≤ c) →
    splitOuter caps (toH0 o) = .ok (toH0 (caps.foldl oStep o)) := by
  intro caps
  induction caps with
  | nil => intro o _ _; rfl
  | cons c cs ih =>
    intro o hg hc
    have hi := inner_sim (o.wm.length + 1) { o with queue := [], rem := c, exited := false } (by simp) (hc c (by simp))
      ⟨hg.wm, by simp, hg.op⟩
    have e1 : splitOuter (c :: cs) (toH0 o) =
        (splitInner (o.wm.length + 1 + 1) c (toH { o with queue := [], rem := c, exited := false }) >>= splitOuter cs) := rfl
    rw [e1, hi.1]
    have e2 : toH0 (iRun (o.wm.length + 1) { o with queue := [], rem := c, exited := false }) = toH0 (oStep o c) := rfl
    rw [e2]
    exact ih (oStep o c) ⟨hi.2.wm, hi.2.q, hi.2.op⟩ (fun x hx => hc x (by simp [hx]))

theorem splitG_eq_hand (r : List Msg) (caps : List Int) (h : ∀ m ∈ r, m.ch ≠ pyNone) (hc : ∀ c ∈ caps, 0 ≤ c) :
    SCoda.split r caps = .ok (splitG r caps) := by
  have ho := outer_sim caps (initG r) ⟨h, by simp [initG], by simp [initG]⟩ hc
  have e0 : toH0 (initG r) = { wm := r } := rfl
  rw [e0] at ho
  unfold SCoda.split
  rw [ho]
  unfold splitG finalG
  generalize List.foldl oStep (initG r) caps = s
  show Except.ok _ = Except.ok _
  simp only [toH0, toH, List.reverse_reverse]
  congr 1
  by_cases hw : s.wm.length > 0
  · simp only [hw, if_true]
    split <;> simp
  · have : s.wm = [] := by simpa using hw
    simp only [this, List.append_nil, List.length_nil, gt_iff_lt, Nat.lt_irrefl, if_false]
    split <;> simp


end SCoda.RelTie2L
