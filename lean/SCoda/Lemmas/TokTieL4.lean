/-
  Helper lemmas for Props/TokTie.lean, fourth part: the generated `get_info` (`getInfoLoop1` per token) against the hand
  model `infoStep` / `getInfo` of Model/Token.lean.  The linked `CircleOfFifths.get_position` is `genCof` (Model/BarOps.lean,
  itself the generated `Gen.getPosition`; total by Lemmas/GapsL.lean `getPosition_spec`).
-/
import SCoda.Lemmas.TokTieL3
import SCoda.Lemmas.GapsL
set_option linter.unusedSimpArgs false
set_option linter.unusedTactic false
set_option linter.unusedVariables false
set_option linter.unnecessarySeqFocus false
set_option linter.unreachableTactic false
namespace SCoda.TokTieL
open SCoda SCoda.TokLib SCoda.Gen.Tok SCoda.RenderL

abbrev ISt := List Int × List Int × List Int × List (Option Int) × List (Option Int) × Int × Int × Int × Int × Int × Int × Int

abbrev Row := Int × Int × Int × Option Int × Option Int

/-- the loop state of the generated `get_info` for a hand state `s` and a current time signature `n/d` (which the hand
    model does not keep: it only feeds the bar capacity) -/
def gI (s : InfoSt) (n d : Int) : ISt :=
  (s.out.reverse.map (·.1), s.out.reverse.map (·.2.1), s.out.reverse.map (·.2.2.1), s.out.reverse.map (·.2.2.2.1),
    s.out.reverse.map (·.2.2.2.2), s.pos, s.curTime, s.curTimeBar, n, d, s.capTotal, s.capRem)

theorem linkCof_eq (p : Int) : linkCof p = .ok (genCof p) := by
  unfold linkCof
  rw [(GapsL.getPosition_spec p).1]
  rfl

/-- the time signature the generated code carries after a token -/
def tsAfter (t : Tok) (bar n d : Int) : Int × Int :=
  match t with
  | .tsig a b => if bar > 0 then (n, d) else (a, b)
  | _ => (n, d)

theorem getInfoLoop1_eq (o : TokObj) (impute : Bool) (t : Tok) (s : InfoSt) (n d : Int) (ht : TokOkD o.ppqn t) :
    getInfoLoop1 impute o s.prvPitch (render t) (gI s n d) =
      .ok (ForInStep.yield (gI (infoStep (cfgOf o) genCof impute s t) (tsAfter t s.curTimeBar n d).1 (tsAfter t s.curTimeBar n d).2)) := by
  unfold getInfoLoop1
  simp only [split_render t ht.1, ok_bind]
  rw [show (fun part : List String => (do pure (← (if (sortOrder.contains (← pyItem part 0)) then
      (do pure (← pyIndexOf sortOrder (← pyItem part 0))) else pure (-1))) : Except PyErr Int)) = sortKeyFn from rfl]
  rw [pySortedBy_parts, sorted_rparts]
  simp only [ok_bind]
  rw [mapME_map_ok _ partStrs mainOf head_partStrs]
  simp only [ok_bind]
  cases t with
  | bar =>
    simp (disch := decide) only [Tok.parts, List.map_cons, List.map_nil, mainOf, partStrs, pyItem_cons_zero, ok_bind, pfxne,
      beq_self_eq_true, if_true, Bool.false_eq_true, if_false, linkCof_eq]
    cases impute <;> simp [gI, infoStep, tsAfter, pure, Except.pure, bind, Except.bind]
  | pad | sta | sto =>
    simp (disch := decide) only [Tok.parts, List.map_cons, List.map_nil, mainOf, partStrs, pyItem_cons_zero, ok_bind, pfxne,
      beq_self_eq_true, if_true, Bool.false_eq_true, if_false, linkCof_eq, List.contains_cons, List.contains_nil, Bool.or_false]
    cases impute <;> simp [gI, infoStep, tsAfter, pure, Except.pure, bind, Except.bind]
  | trk v | val v | vel v =>
    simp (disch := decide) only [Tok.parts, List.map_cons, List.map_nil, mainOf, partStrs, pyItem_cons_zero, ok_bind, pfxne,
      beq_self_eq_true, if_true, Bool.false_eq_true, if_false, linkCof_eq, List.contains_cons, List.contains_nil, Bool.or_false]
    cases impute <;> simp [gI, infoStep, tsAfter, pure, Except.pure, bind, Except.bind]
  | rest v =>
    obtain ⟨k, rfl⟩ := Int.eq_ofNat_of_zero_le (show 0 ≤ v from ht.1)
    simp (disch := decide) only [Tok.parts, List.map_cons, List.map_nil, mainOf, partStrs, pyItem_cons_zero, pyItem_cons_one, ok_bind,
      pfxne, beq_self_eq_true, if_true, Bool.false_eq_true, if_false, linkCof_eq, Int.ofNat_eq_natCast, pyIntOfStr_zpad]
    cases impute <;> simp [gI, infoStep, tsAfter, pure, Except.pure, bind, Except.bind]
  | tsig a b =>
    obtain ⟨⟨ha, hb⟩, h2⟩ := ht
    obtain ⟨hb', hn⟩ := h2 a b rfl
    obtain ⟨a', rfl⟩ := Int.eq_ofNat_of_zero_le ha
    obtain ⟨b', rfl⟩ := Int.eq_ofNat_of_zero_le hb
    have hb0 : (b' : Int) ≠ 0 := by omega
    simp (disch := decide) only [Tok.parts, List.map_cons, List.map_nil, mainOf, partStrs, pyItem_cons_zero, pyItem_cons_one,
      pyItem_cons_two, ok_bind, pfxne, beq_self_eq_true, if_true, Bool.false_eq_true, if_false, linkCof_eq, Int.ofNat_eq_natCast,
      pyIntOfStr_zpad, List.contains_cons, List.contains_nil, Bool.or_false, pyTrueDiv_ok _ _ hb0, ratTrunc_capacity _ _ hb0 hn]
    by_cases hbar : s.curTimeBar > 0 <;> cases impute <;>
      simp [gI, infoStep, tsAfter, hbar, cfgOf, Cfg.capacity, pure, Except.pure, bind, Except.bind]
  | note tr p v w =>
    obtain ⟨⟨h1, h2, h3, h4⟩, _⟩ := ht
    obtain ⟨p', rfl⟩ := Int.eq_ofNat_of_zero_le h2
    cases tr <;> cases v <;> cases w <;>
      simp (disch := decide) only [Tok.parts, List.map_cons, List.map_nil, List.nil_append, List.cons_append, mainOf, partStrs,
        pyItem_cons_zero, pyItem_cons_one, ok_bind, pfxne, beq_self_eq_true, if_true, Bool.false_eq_true, if_false, linkCof_eq,
        Int.ofNat_eq_natCast, pyIntOfStr_zpad, List.contains_cons, List.contains_nil, Bool.or_false, Bool.or_true, Bool.false_or,
        Bool.true_or, pyNextM, bind, Except.bind, pure, Except.pure] <;>
      simp [gI, infoStep, tsAfter]

theorem infoStep_prvPitch (c : Cfg) (cof : Int → Int) (impute : Bool) (s : InfoSt) (t : Tok) :
    (infoStep c cof impute s t).prvPitch = s.prvPitch := by
  cases t <;> simp only [infoStep] <;> (try split) <;> rfl

theorem getInfo_fold (o : TokObj) (impute : Bool) (pp : Int) : ∀ (ts : List Tok) (s : InfoSt) (n d : Int),
    (∀ t ∈ ts, TokOkD o.ppqn t) → s.prvPitch = pp →
    ∃ n' d', forIn (ts.map render) (gI s n d) (fun x st => getInfoLoop1 impute o pp x st) =
      .ok (gI (ts.foldl (infoStep (cfgOf o) genCof impute) s) n' d') := by
  intro ts
  induction ts with
  | nil => intro s n d _ _; exact ⟨n, d, rfl⟩
  | cons t ts ih =>
    intro s n d hok hpp
    simp only [List.map_cons, List.forIn_cons, List.foldl_cons]
    subst hpp
    rw [getInfoLoop1_eq o impute t s n d (hok t (by simp))]
    simp only [ok_bind]
    exact ih _ _ _ (fun q hq => hok q (by simp [hq])) (infoStep_prvPitch _ _ _ _ _)

/-- the five lists `get_info` returns, from the rows of the hand model -/
def unzipInfo (rows : List Row) : List Int × List Int × List Int × List (Option Int) × List (Option Int) :=
  (rows.map (·.1), rows.map (·.2.1), rows.map (·.2.2.1), rows.map (·.2.2.2.1), rows.map (·.2.2.2.2))

theorem getInfo_hand (o : TokObj) (ts : List Tok) (impute : Bool) (hp : 0 ≤ o.ppqn) (hts : ∀ t ∈ ts, TokOkD o.ppqn t) :
    Gen.Tok.getInfo o (ts.map render) impute = .ok (unzipInfo (SCoda.getInfo (cfgOf o) genCof impute ts)) := by
  unfold Gen.Tok.getInfo
  have h8 : Gen.defaultTimeSignatureDenominator ≠ 0 := by decide
  have hn : 0 ≤ o.ppqn * 4 * Gen.defaultTimeSignatureNumerator := by
    have : Gen.defaultTimeSignatureNumerator = 8 := rfl
    rw [this]; omega
  simp only [pyTrueDiv_ok _ _ h8, ok_bind, ratTrunc_capacity _ _ h8 hn]
  obtain ⟨n', d', h⟩ := getInfo_fold o impute 69 ts
    { capTotal := (cfgOf o).capacity (cfgOf o).defNum (cfgOf o).defDen, capRem := (cfgOf o).capacity (cfgOf o).defNum (cfgOf o).defDen }
    Gen.defaultTimeSignatureNumerator Gen.defaultTimeSignatureDenominator hts rfl
  have hinit : (([] : List Int), ([] : List Int), ([] : List Int), ([] : List (Option Int)), ([] : List (Option Int)), (0 : Int), (0 : Int), (0 : Int),
      Gen.defaultTimeSignatureNumerator, Gen.defaultTimeSignatureDenominator,
      o.ppqn * 4 * Gen.defaultTimeSignatureNumerator / Gen.defaultTimeSignatureDenominator,
      o.ppqn * 4 * Gen.defaultTimeSignatureNumerator / Gen.defaultTimeSignatureDenominator) =
      gI { capTotal := (cfgOf o).capacity (cfgOf o).defNum (cfgOf o).defDen, capRem := (cfgOf o).capacity (cfgOf o).defNum (cfgOf o).defDen }
        Gen.defaultTimeSignatureNumerator Gen.defaultTimeSignatureDenominator := rfl
  rw [hinit, h]
  rfl

end SCoda.TokTieL
