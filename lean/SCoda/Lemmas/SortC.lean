/-
  Small facts about the stable insertion sort `isort` / `ins` of `SCoda.Model.Sort`
  (permutation, time-sortedness of `sortAbs`), used by `Props/C18`.
-/
import SCoda.Model.Sort
import SCoda.Model.Roll
namespace SCoda.SortC
open SCoda

theorem ins_perm {α} (le : α → α → Bool) (x : α) (l : List α) : (ins le x l).Perm (x :: l) := by
  induction l with
  | nil => exact List.Perm.refl _
  | cons y ys ih =>
    unfold ins
    split
    · exact List.Perm.refl _
    · exact (List.Perm.cons y ih).trans (List.Perm.swap x y ys)

theorem isort_perm {α} (le : α → α → Bool) (l : List α) : (isort le l).Perm l := by
  induction l with
  | nil => exact List.Perm.refl _
  | cons x xs ih => exact (ins_perm le x _).trans (List.Perm.cons x ih)

theorem sortAbs_perm (l : List Msg) : (sortAbs l).Perm l := isort_perm keyLe l

theorem keyLe_time {a b : Msg} (h : keyLe a b = true) : a.time ≤ b.time := by
  unfold keyLe at h
  split at h
  · omega
  · split at h
    · cases h
    · omega

theorem keyLe_false_time {a b : Msg} (h : keyLe a b = false) : b.time ≤ a.time := by
  unfold keyLe at h
  split at h
  · cases h
  · omega

abbrev TimeLe (a b : Msg) : Prop := a.time ≤ b.time

theorem timeSorted_of_pairwise {l : List Msg} (h : l.Pairwise TimeLe) : TimeSorted l := by
  induction l with
  | nil => trivial
  | cons a l ih =>
    cases l with
    | nil => trivial
    | cons b rest =>
      rw [List.pairwise_cons] at h
      exact ⟨h.1 b List.mem_cons_self, ih h.2⟩

theorem ins_pairwise (x : Msg) (l : List Msg) (h : l.Pairwise TimeLe) : (ins keyLe x l).Pairwise TimeLe := by
  induction l with
  | nil => simp [ins]
  | cons y ys ih =>
    rw [List.pairwise_cons] at h
    unfold ins
    split
    · rename_i hle
      have hxy := keyLe_time hle
      refine List.pairwise_cons.2 ⟨?_, List.pairwise_cons.2 h⟩
      intro c hc
      rcases List.mem_cons.1 hc with rfl | hc
      · exact hxy
      · exact Int.le_trans hxy (h.1 c hc)
    · rename_i hle
      have hyx := keyLe_false_time (by simpa using hle)
      refine List.pairwise_cons.2 ⟨?_, ih h.2⟩
      intro c hc
      have hc' := (ins_perm keyLe x ys).mem_iff.1 hc
      rcases List.mem_cons.1 hc' with rfl | hc'
      · exact hyx
      · exact h.1 c hc'

theorem isort_pairwise (l : List Msg) : (isort keyLe l).Pairwise TimeLe := by
  induction l with
  | nil => exact List.Pairwise.nil
  | cons x xs ih => exact ins_pairwise x _ ih

theorem sortAbs_timeSorted (l : List Msg) : TimeSorted (sortAbs l) :=
  timeSorted_of_pairwise (isort_pairwise l)

end SCoda.SortC
