/-
  Helper lemmas for Props/TokTie3.lean (audit round 4, item C6 first bullet, the call flag `insert_bar_token`), part 2: the loop body
  `tokeniseLoop1` and the whole of the generated `tokenise` with `insert_bar_token = ibt`, for BOTH values of the flag.

  `tokEventB ibt` / `tokeniseCoreB ibt` are `tokEvent` / `tokeniseCore` (Model/Token.lean) with `applyRestB ibt` in place of
  `applyRest` — intermediates of the proof.  `tokenise_someB`: the generated `tokenise` is `tokeniseCoreB ibt` (the proofs are those
  of Lemmas/TokTieL2.lean, `tokeniseLoop1_eq` / `tokenise_some`, with the flag as a variable).  `tokeniseCoreB_keep`: `tokeniseCoreB ibt`
  is `tokeniseCore` with the tokens passed through `keepBar ibt` (all of them for `true`, all but the bar tokens for `false`), same state,
  same exceptions.
-/
import SCoda.Lemmas.TokTieL2
import SCoda.Lemmas.TokTieBarL
set_option linter.unusedSimpArgs false
set_option linter.unusedTactic false
set_option linter.unusedVariables false
namespace SCoda.TokTieBarL
open SCoda SCoda.TokLib SCoda.Gen.Tok SCoda.TokTieL SCoda.RenderL

/-- the rest in front of an event, with `insert_bar_token = ibt` (`TokTieL.restH` with `applyRestB`) -/
def restHB (ibt : Bool) (c : Cfg) (shift : Int) (l : TkLoop) (m : Msg) : Except Err ((Int × Int × Int) × List Tok) :=
  if l.st.curTime != m.time + shift then
    applyRestB ibt c l.capTotal ((m.time + shift - l.st.curTime).toNat + 1) (m.time + shift - l.st.curTime)
      (l.st.curTime, l.st.curTimeBar, l.st.capRem) l.toks
  else .ok ((l.st.curTime, l.st.curTimeBar, l.st.capRem), l.toks)

/-- `tokEvent` with `insert_bar_token = ibt` -/
def tokEventB (ibt : Bool) (c : Cfg) (shift : Int) (l : TkLoop) (ev : Int × Pairing) : Except Err TkLoop :=
  match ev.2 with
  | [] => .error .indexError
  | m :: restP => restHB ibt c shift l m >>= tokAfter c l m restP

theorem tokEventB_cons (ibt : Bool) (c : Cfg) (shift : Int) (l : TkLoop) (ch : Int) (m : Msg) (restP : List Msg) :
    tokEventB ibt c shift l (ch, m :: restP) = (restHB ibt c shift l m >>= tokAfter c l m restP) := rfl

/-- `tokeniseCore` with `insert_bar_token = ibt` -/
def tokeniseCoreB (ibt : Bool) (c : Cfg) (st : TokSt) (evs : List (Int × Pairing)) : Except Err (List Tok × TokSt) := do
  let capTotal := c.capacity st.tsNum st.tsDen
  let l ← tokeniseCore.foldlM'' (tokEventB ibt c st.curTime) { st := st, capTotal := capTotal } evs
  let (clk, toks) ← if l.st.curTimeBar > 0 && l.st.capRem > 0 then
      applyRestB ibt c l.capTotal (l.st.capRem.toNat + 1) l.st.capRem (l.st.curTime, l.st.curTimeBar, l.st.capRem) l.toks
    else .ok ((l.st.curTime, l.st.curTimeBar, l.st.capRem), l.toks)
  .ok (toks.reverse, { l.st with curTime := clk.1, curTimeBar := clk.2.1, capRem := clk.2.2 })

/-! #### the generated code is the flagged model -/

theorem tokeniseLoop1_eqB (ibt : Bool) (o : TokObj) (shift : Int) (ev : Int × Pairing) (l : TkLoop) (hev : EvOk o.ppqn ev) :
    tokeniseLoop1 ibt o shift ev (gOf l) =
      liftE (fun l' => ForInStep.yield (gOf l')) (tokEventB ibt (cfgOf o) shift l ev) := by
  obtain ⟨ch, p⟩ := ev
  cases p with
  | nil =>
    unfold tokeniseLoop1 tokEventB
    simp only [pyItem_nil, error_bind]
    rfl
  | cons m restP =>
    have hch : ch = m.ch := (hev m rfl).1
    have hc : (!(ch == m.ch)) = false := by simp [hch]
    rw [tokEventB_cons]
    unfold tokeniseLoop1
    simp only [pyItem_cons_zero, ok_bind, hc, raiseIf_false]
    -- the rest in front of the event
    have hrest : (if (!((gOf l).2.1 == m.time + shift)) = true then do
            let r3_ ← tokeniseApplyRest o ibt (gOf l).2.2.2.2.2.1 (gOf l).1 (gOf l).2.1 (gOf l).2.2.1 (gOf l).2.2.2.2.2.2.1
              (m.time + shift - (gOf l).2.1)
            pure (r3_.1, r3_.2.1, r3_.2.2.1, r3_.2.2.2)
          else pure ((gOf l).1, (gOf l).2.1, (gOf l).2.2.1, (gOf l).2.2.2.2.2.2.1)) =
        liftE restOut (restHB ibt (cfgOf o) shift l m) := by
      unfold restHB
      by_cases hcur : l.st.curTime = m.time + shift
      · simp [gOf, hcur, liftE, restOut]; rfl
      · have h1 : (!(l.st.curTime == m.time + shift)) = true := by simp [hcur]
        have h2 : (l.st.curTime != m.time + shift) = true := by simp [hcur]
        simp only [gOf, h1, h2, if_true, tokeniseApplyRest_handB]
        cases applyRestB ibt (cfgOf o) l.capTotal ((m.time + shift - l.st.curTime).toNat + 1) (m.time + shift - l.st.curTime)
            (l.st.curTime, l.st.curTimeBar, l.st.capRem) l.toks with
        | error e => rfl
        | ok r => rfl
    rw [hrest]
    cases restHB ibt (cfgOf o) shift l m with
    | error e => rfl
    | ok r =>
      obtain ⟨⟨cur', bar', rem'⟩, acc'⟩ := r
      simp only [liftE, restOut, ok_bind]
      unfold tokAfter
      simp only [gOf]
      cases hty : m.ty
      case noteOn =>
        simp only [beq_self_eq_true, if_true]
        cases restP with
        | nil => simp only [pyItem_single_one, error_bind]; rfl
        | cons off rp =>
          simp only [pyItem_cons_one, ok_bind, pyItem_ofNat, cfgOf]
          cases hb : o.velocityBins[binIndex o.velocityBins m.vel]? with
          | none => rfl
          | some vel =>
            simp only [ok_bind]
            rcases Bool.eq_false_or_eq_true (decide (o.pitchRange.1 ≤ m.note) && decide (m.note ≤ o.pitchRange.2)) with hp1 | hp1
            · simp only [hp1, Bool.not_true, raiseIf_false, ok_bind]
              rcases Bool.eq_false_or_eq_true (o.noteValues.contains (off.time - m.time)) with hp2 | hp2
              · simp only [hp2, Bool.not_true, raiseIf_false, ok_bind, Bool.false_eq_true, if_false]
                have hq : o.pitchRange.1 ≤ m.note ∧ m.note ≤ o.pitchRange.2 := by simpa using hp1
                rcases Bool.eq_false_or_eq_true (m.ch != l.st.prvTrack || !o.flagRunningValues) with hb1 | hb1 <;>
                rcases Bool.eq_false_or_eq_true (off.time - m.time != l.st.prvValue || !o.flagRunningValues) with hb2 | hb2 <;>
                rcases Bool.eq_false_or_eq_true (vel != l.st.prvVel || !o.flagRunningValues) with hb3 | hb3 <;>
                rcases Bool.eq_false_or_eq_true o.flagFuseTrack with hT | hT <;>
                rcases Bool.eq_false_or_eq_true o.flagFuseValue with hV | hV <;>
                rcases Bool.eq_false_or_eq_true o.flagFuseVelocity with hW | hW <;>
                  simp [hb1, hb2, hb3, hT, hV, hW, hq.1, hq.2, hp2, liftE, render, gOf, pure, Except.pure, strDropRight_append_dash,
                    RenderL.intercalate_two, RenderL.intercalate_three, intercalate_four, intercalate_one,
                    ← String.append_assoc]
              · simp only [hp2, Bool.not_false, raiseIf_true, error_bind, if_true, ite_self]
                rfl
            · simp only [hp1, Bool.not_false, raiseIf_true, error_bind, if_true]
              have hq : ¬ (o.pitchRange.1 ≤ m.note) ∨ ¬ (m.note ≤ o.pitchRange.2) := by
                by_cases h1 : o.pitchRange.1 ≤ m.note
                · right; intro h2; simp [h1, h2] at hp1
                · left; exact h1
              rcases hq with h | h <;> simp [h, liftE, ofErr]
      case timeSignature =>
        have hts := (hev m rfl).2 hty
        have e1 : (MType.timeSignature == MType.noteOn) = false := by decide
        simp only [e1, Bool.false_eq_true, if_false, beq_self_eq_true, if_true, cfgOf]
        by_cases hbar : bar' > 0
        · simp only [hbar, decide_true, if_true]; rfl
        · simp only [hbar, decide_false, Bool.false_eq_true, if_false, pyTrueDiv_ok _ _ hts.1, ok_bind,
            ratIsInteger_scaled _ _ _ hts.1]
          by_cases hdiv : (m.num * Gen.defaultTimeSignatureDenominator) % m.den = 0
          · have hne : (m.num * Gen.defaultTimeSignatureDenominator % m.den != 0) = false := by simp [hdiv]
            simp only [hdiv, decide_true, Bool.not_true, raiseIf_false, ok_bind, hne, Bool.false_eq_true, if_false,
              ratTrunc_scaled _ _ _ hts.1 hdiv, ratTrunc_capacity _ _ hts.1 hts.2]
            by_cases hr : o.timeSignatureRange.1 ≤ m.num * Gen.defaultTimeSignatureDenominator / m.den ∧
                m.num * Gen.defaultTimeSignatureDenominator / m.den ≤ o.timeSignatureRange.2
            · simp [hr.1, hr.2, raiseIf, liftE, render, Cfg.capacity, pure, Except.pure, bind, Except.bind]
            · have hq : ¬ (o.timeSignatureRange.1 ≤ m.num * Gen.defaultTimeSignatureDenominator / m.den) ∨
                  ¬ (m.num * Gen.defaultTimeSignatureDenominator / m.den ≤ o.timeSignatureRange.2) := by
                by_cases h1 : o.timeSignatureRange.1 ≤ m.num * Gen.defaultTimeSignatureDenominator / m.den
                · right; intro h2; exact hr ⟨h1, h2⟩
                · left; exact h1
              rcases hq with h | h <;> (simp [h, raiseIf, liftE, ofErr, bind, Except.bind] <;> rfl)
          · have hne : (m.num * Gen.defaultTimeSignatureDenominator % m.den != 0) = true := by simp [hdiv]
            simp only [hdiv, decide_false, Bool.not_false, raiseIf_true, error_bind, hne, if_true]
            rfl
      all_goals
        simp only [reduceCtorEq, beq_iff_eq, if_false]
        first | rfl | (simp [liftE, gOf, pure, Except.pure])


theorem tokenise_someB (ibt : Bool) (o : TokObj) (rels : List (List Msg)) (d : List (String × Int))
    (hlen : (rels.length : Int) = o.numTracks)
    (hd : (stOfDict o d).tsDen ≠ 0) (hn : 0 ≤ o.ppqn * 4 * (stOfDict o d).tsNum)
    (hev : ∀ ev ∈ extract Gen.ppqn rels, EvOk o.ppqn ev) :
    tokenise o (rels.map LSeq.rel) ibt true (some d) =
      liftE (fun r => (writeSt d r.2, r.1.map render)) (tokeniseCoreB ibt (cfgOf o) (stOfDict o d) (extract Gen.ppqn rels)) := by
  unfold tokenise
  simp only []
  have hlen' : (!(((rels.map LSeq.rel).length : Int) == o.numTracks)) = false := by simp [hlen]
  have hd' : pyDictGetD d "cur_time_signature_denominator" Gen.defaultTimeSignatureDenominator ≠ 0 := hd
  have hn' : 0 ≤ o.ppqn * 4 * pyDictGetD d "cur_time_signature_numerator" Gen.defaultTimeSignatureNumerator := hn
  simp only [Bool.not_true, raiseIf_false, hlen', pure_bind, pyTrueDiv_ok _ _ hd', ok_bind]
  rw [forIn_collect (fun p : Int × LSeq => p.2.setChannel p.1) _ ?hc]
  case hc => intro x s; rfl
  simp only [ok_bind, List.nil_append, link_extract]
  rw [forIn_liftE gOf (tokEventB ibt (cfgOf o) (pyDictGetD d "cur_time" 0)) _ (EvOk o.ppqn)
    (fun ev l hev => tokeniseLoop1_eqB ibt o _ ev l hev) _ _
    { st := stOfDict o d, capTotal := (cfgOf o).capacity (stOfDict o d).tsNum (stOfDict o d).tsDen } ?hb hev]
  case hb =>
    simp only [gOf, stOfDict, List.reverse_nil, List.map_nil, Cfg.capacity, cfgOf]
    rw [ratTrunc_capacity _ _ hd' hn']
  unfold tokeniseCoreB
  simp only []
  show _ = liftE _ (tokeniseCore.foldlM'' (tokEventB ibt (cfgOf o) (pyDictGetD d "cur_time" 0)) _ _ >>= _)
  cases tokeniseCore.foldlM'' (tokEventB ibt (cfgOf o) (pyDictGetD d "cur_time" 0))
      { st := stOfDict o d, capTotal := (cfgOf o).capacity (stOfDict o d).tsNum (stOfDict o d).tsDen }
      (extract Gen.ppqn rels) with
  | error e => rfl
  | ok l =>
    simp only [liftE, ok_bind, gOf]
    rcases Bool.eq_false_or_eq_true (decide (l.st.curTimeBar > 0) && decide (l.st.capRem > 0)) with hc | hc
    · simp only [hc, if_true, tokeniseApplyRest_handB]
      cases applyRestB ibt (cfgOf o) l.capTotal (l.st.capRem.toNat + 1) l.st.capRem
          (l.st.curTime, l.st.curTimeBar, l.st.capRem) l.toks with
      | error e => rfl
      | ok r => simp [liftE, restOut, writeSt, pure, Except.pure, bind, Except.bind]
    · simp [hc, writeSt, pure, Except.pure, bind, Except.bind]



/-! #### the flagged model is the hand model with the tokens passed through `keepBar ibt` -/

/-- a loop state with its tokens passed through `keepBar ibt` -/
def lk (ibt : Bool) (l : TkLoop) : TkLoop := { l with toks := keepBar ibt l.toks }

def mapL (ibt : Bool) : Except Err TkLoop → Except Err TkLoop
  | .ok l => .ok (lk ibt l)
  | .error e => .error e

/-- result of `tokeniseCore` with its tokens passed through `keepBar ibt` -/
def mapT (ibt : Bool) : Except Err (List Tok × TokSt) → Except Err (List Tok × TokSt)
  | .ok r => .ok (keepBar ibt r.1, r.2)
  | .error e => .error e

theorem restHB_keep (ibt : Bool) (c : Cfg) (shift : Int) (l : TkLoop) (m : Msg) :
    restHB ibt c shift (lk ibt l) m = mapR ibt (restH c shift l m) := by
  unfold restHB restH
  simp only [lk]
  by_cases h : (l.st.curTime != m.time + shift) = true
  · simp only [h, if_true]
    exact applyRestB_keep ibt c _ _ _ _ _
  · simp only [h, if_false]
    rfl

theorem keep_opt (ibt : Bool) (b : Bool) (t : Tok) (h : t ≠ Tok.bar) :
    keepBar ibt (if b = true then [t] else []).reverse = (if b = true then [t] else []).reverse := by
  cases b
  · simp [keep_nil]
  · simp [keep_cons_of ibt t [] h, keep_nil]

theorem tokAfter_keep (ibt : Bool) (c : Cfg) (l : TkLoop) (m : Msg) (restP : List Msg) (r : (Int × Int × Int) × List Tok) :
    tokAfter c (lk ibt l) m restP (r.1, keepBar ibt r.2) = mapL ibt (tokAfter c l m restP r) := by
  unfold tokAfter
  simp only [lk]
  cases m.ty
  case noteOn =>
    simp only []
    cases restP with
    | nil => rfl
    | cons off rp =>
      simp only []
      cases c.bins[binIndex c.bins m.vel]? with
      | none => rfl
      | some vel =>
        simp only []
        split
        · rfl
        · split
          · rfl
          · simp only [mapL, lk, keep_append, keep_cons_of ibt (Tok.note _ _ _ _) _ (by intro h; cases h),
              keep_opt ibt _ (Tok.trk _) (by intro h; cases h), keep_opt ibt _ (Tok.val _) (by intro h; cases h),
              keep_opt ibt _ (Tok.vel _) (by intro h; cases h)]
            rfl
  case timeSignature =>
    simp only []
    split
    · rfl
    · split
      · rfl
      · split
        · rfl
        · simp only [mapL, lk, keep_cons_of ibt (Tok.tsig _ _) _ (by intro h; cases h)]
          try rfl
  all_goals rfl

theorem tokEvent_nil (c : Cfg) (shift : Int) (l : TkLoop) (ch : Int) : tokEvent c shift l (ch, []) = .error .indexError := by
  unfold tokEvent; rfl

theorem tokEventB_keep (ibt : Bool) (c : Cfg) (shift : Int) (l : TkLoop) (ev : Int × Pairing) :
    tokEventB ibt c shift (lk ibt l) ev = mapL ibt (tokEvent c shift l ev) := by
  obtain ⟨ch, p⟩ := ev
  cases p with
  | nil => rw [tokEvent_nil]; rfl
  | cons m restP =>
    rw [tokEventB_cons, tokEvent_cons, restHB_keep]
    cases restH c shift l m with
    | error e => rfl
    | ok r => exact tokAfter_keep ibt c l m restP r

theorem fold_keep (ibt : Bool) (c : Cfg) (sh : Int) : ∀ (evs : List (Int × Pairing)) (l : TkLoop),
    tokeniseCore.foldlM'' (tokEventB ibt c sh) (lk ibt l) evs = mapL ibt (tokeniseCore.foldlM'' (tokEvent c sh) l evs) := by
  intro evs
  induction evs with
  | nil => intro l; rfl
  | cons ev evs ih =>
    intro l
    simp only [tokeniseCore.foldlM'']
    rw [tokEventB_keep]
    cases tokEvent c sh l ev with
    | error e => rfl
    | ok l' => exact ih l'

/-- **`tokeniseCoreB ibt` is the hand model `tokeniseCore` with the tokens passed through `keepBar ibt`**: the same tokens
    (`ibt = true`) resp. the same tokens without the bar tokens (`ibt = false`), the same final state, the same exceptions -/
theorem tokeniseCoreB_keep (ibt : Bool) (c : Cfg) (st : TokSt) (evs : List (Int × Pairing)) :
    tokeniseCoreB ibt c st evs = mapT ibt (tokeniseCore c st evs) := by
  unfold tokeniseCoreB tokeniseCore
  simp only []
  have h0 : ({ st := st, capTotal := c.capacity st.tsNum st.tsDen } : TkLoop)
      = lk ibt { st := st, capTotal := c.capacity st.tsNum st.tsDen } := by simp [lk, keep_nil]
  show (tokeniseCore.foldlM'' (tokEventB ibt c st.curTime) _ evs >>= _)
      = mapT ibt (tokeniseCore.foldlM'' (tokEvent c st.curTime) _ evs >>= _)
  conv => lhs; rw [h0, fold_keep]
  cases tokeniseCore.foldlM'' (tokEvent c st.curTime) { st := st, capTotal := c.capacity st.tsNum st.tsDen } evs with
  | error e => rfl
  | ok l =>
    simp only [mapL, ok_bind, lk]
    rcases Bool.eq_false_or_eq_true (decide (l.st.curTimeBar > 0) && decide (l.st.capRem > 0)) with hc | hc
    · simp only [hc, if_true, applyRestB_keep]
      cases applyRest c l.capTotal (l.st.capRem.toNat + 1) l.st.capRem (l.st.curTime, l.st.curTimeBar, l.st.capRem) l.toks with
      | error e => rfl
      | ok r => simp [mapR, mapT, keep_reverse, bind, Except.bind]
    · simp [hc, mapT, keep_reverse, bind, Except.bind]

theorem tokeniseCoreB_true (c : Cfg) (st : TokSt) (evs : List (Int × Pairing)) :
    tokeniseCoreB true c st evs = tokeniseCore c st evs := by
  rw [tokeniseCoreB_keep]
  cases tokeniseCore c st evs <;> rfl

end SCoda.TokTieBarL
